//! Parsers and printers for every encoding of /verif/PROTOCOL.md.
//!
//! `Dec::dec` parses one token (never panics; an unparsable token is `Err(Bad)`), `Enc::enc` prints one
//! token. `Val` marks the five value types that may appear inside `Datum<ty>` / `Output<ty>`.
#![allow(dead_code)]
use core::cmp::Ordering;
use rrtk::*;

/// Why a case produced no regular output. `main` prints the corresponding single token.
#[derive(Clone, Copy, Debug, PartialEq, Eq)]
pub enum Fail {
    /// Unknown group / op / operand-type combination: `NOIMPL`.
    NoImpl,
    /// A token could not be parsed, or the number of tokens is wrong: `BADLINE`.
    Bad,
}
pub use Fail::{Bad, NoImpl};
pub type R<T> = Result<T, Fail>;

/// The error type parameter used for all rrtk objects in the harness.
pub type E = u8;

pub trait Enc {
    fn enc(&self) -> String;
}
pub trait Dec: Sized {
    fn dec(tok: &str) -> R<Self>;
}
/// A value type usable as `ty` (`f`, `b`, `q`, `s`, `c`).
pub trait Val: Enc + Dec + Clone + 'static {}

// ---------------------------------------------------------------- helpers on token lists

/// `toks[i]`, or `Bad` when the line is too short.
pub fn tok<'a>(toks: &[&'a str], i: usize) -> R<&'a str> {
    toks.get(i).copied().ok_or(Bad)
}
/// Require exactly `n` tokens on the line (including group and op).
pub fn want(toks: &[&str], n: usize) -> R<()> {
    if toks.len() == n {
        Ok(())
    } else {
        Err(Bad)
    }
}
/// Require at least `n` tokens on the line.
pub fn want_min(toks: &[&str], n: usize) -> R<()> {
    if toks.len() >= n {
        Ok(())
    } else {
        Err(Bad)
    }
}

// ---------------------------------------------------------------- scalars

/// f32: exactly 8 lowercase hex digits.
pub fn p_f32(t: &str) -> R<f32> {
    let b = t.as_bytes();
    if b.len() != 8 || !b.iter().all(|c| matches!(c, b'0'..=b'9' | b'a'..=b'f')) {
        return Err(Bad);
    }
    u32::from_str_radix(t, 16).map(f32::from_bits).map_err(|_| Bad)
}
/// f32 → 8 hex digits; every NaN is `nan`.
pub fn f_f32(v: f32) -> String {
    if v.is_nan() {
        "nan".to_string()
    } else {
        format!("{:08x}", v.to_bits())
    }
}
/// i64: decimal with optional leading `-` (no `+`, no blanks); out of range is `Bad`.
pub fn p_i64(t: &str) -> R<i64> {
    let d = t.strip_prefix('-').unwrap_or(t);
    if d.is_empty() || !d.bytes().all(|c| c.is_ascii_digit()) {
        return Err(Bad);
    }
    t.parse::<i64>().map_err(|_| Bad)
}
pub fn p_bool(t: &str) -> R<bool> {
    match t {
        "true" => Ok(true),
        "false" => Ok(false),
        _ => Err(Bad),
    }
}
/// A non-negative count such as `<n>` of the n-ary streams.
pub fn p_usize(t: &str) -> R<usize> {
    let v = p_i64(t)?;
    usize::try_from(v).map_err(|_| Bad)
}
/// raw f32 result: `F:<f32>`
pub fn f_rawf(v: f32) -> String {
    format!("F:{}", f_f32(v))
}
/// raw i64 result: `I:<i64>`
pub fn f_rawi(v: i64) -> String {
    format!("I:{}", v)
}

impl Enc for f32 {
    fn enc(&self) -> String {
        f_f32(*self)
    }
}
impl Dec for f32 {
    fn dec(t: &str) -> R<Self> {
        p_f32(t)
    }
}
impl Val for f32 {}

/// `w` — a payload whose `+ - * /` are NOT commutative: words over `a..z` (at most 24 letters; longer results are cut), every
/// operator is concatenation with an infix mark (`+` none, `*` `x`, `-` `m`, `/` `d`). Token: `W:<letters>` (`W:` = empty word).
/// Used to observe the ORDER in which the generic combinators (sum, product, difference, quotient, Datum arithmetic) combine.
#[derive(Clone, Copy, Debug, PartialEq, Eq)]
pub struct Word {
    pub len: u8,
    pub b: [u8; 24],
}
impl Word {
    pub fn cat(self, mark: &[u8], rhs: Word) -> Word {
        let mut out = self;
        for &c in mark.iter().chain(rhs.b[..rhs.len as usize].iter()) {
            if (out.len as usize) < out.b.len() {
                out.b[out.len as usize] = c;
                out.len += 1;
            }
        }
        out
    }
}
impl Default for Word {
    fn default() -> Self {
        Word { len: 0, b: [0; 24] }
    }
}
impl core::ops::Add for Word { type Output = Word; fn add(self, r: Word) -> Word { self.cat(b"", r) } }
impl core::ops::Mul for Word { type Output = Word; fn mul(self, r: Word) -> Word { self.cat(b"x", r) } }
impl core::ops::Sub for Word { type Output = Word; fn sub(self, r: Word) -> Word { self.cat(b"m", r) } }
impl core::ops::Div for Word { type Output = Word; fn div(self, r: Word) -> Word { self.cat(b"d", r) } }
impl core::ops::AddAssign for Word { fn add_assign(&mut self, r: Word) { *self = self.cat(b"", r) } }
impl core::ops::MulAssign for Word { fn mul_assign(&mut self, r: Word) { *self = self.cat(b"x", r) } }
impl core::ops::SubAssign for Word { fn sub_assign(&mut self, r: Word) { *self = self.cat(b"m", r) } }
impl core::ops::DivAssign for Word { fn div_assign(&mut self, r: Word) { *self = self.cat(b"d", r) } }
impl Enc for Word {
    fn enc(&self) -> String {
        format!("W:{}", core::str::from_utf8(&self.b[..self.len as usize]).unwrap_or("?"))
    }
}
impl Dec for Word {
    fn dec(tok: &str) -> R<Self> {
        let r = tok.strip_prefix("W:").ok_or(Bad)?;
        if r.len() > 24 || !r.bytes().all(|c| c.is_ascii_lowercase()) {
            return Err(Bad);
        }
        let mut w = Word::default();
        for c in r.bytes() {
            w.b[w.len as usize] = c;
            w.len += 1;
        }
        Ok(w)
    }
}
impl Val for Word {}

impl Enc for bool {
    fn enc(&self) -> String {
        if *self { "true" } else { "false" }.to_string()
    }
}
impl Dec for bool {
    fn dec(t: &str) -> R<Self> {
        p_bool(t)
    }
}
impl Val for bool {}

// ---------------------------------------------------------------- units

/// `Unit::new` takes i8; exponents that do not fit are `Bad`.
pub fn mk_unit(mm: i64, s: i64) -> R<Unit> {
    let mm = i8::try_from(mm).map_err(|_| Bad)?;
    let s = i8::try_from(s).map_err(|_| Bad)?;
    Ok(Unit::new(mm, s))
}
/// `<mm>,<s>` → Unit
pub fn p_exps(t: &str) -> R<Unit> {
    let (a, b) = t.split_once(',').ok_or(Bad)?;
    mk_unit(p_i64(a)?, p_i64(b)?)
}
/// Unit → `<mm>,<s>`, in EVERY configuration by the same code: whether units are checked is decided inside rrtk (by its features and,
/// for `dim_check_debug`, by the profile), not by a harness feature. Where they are not, `Unit` is a ZST, all units are equal and the
/// search below answers `0,0` at its first candidate.
pub fn f_exps(u: Unit) -> String {
    fn field<'a>(s: &'a str, key: &str) -> &'a str {
        match s.find(key) {
            Some(i) => {
                let rest = &s[i + key.len()..];
                let end = rest
                    .find(|c: char| !(c == '-' || c.is_ascii_digit()))
                    .unwrap_or(rest.len());
                &rest[..end]
            }
            None => "?",
        }
    }
    let s = format!("{:?}", u);
    let (m, t) = (field(&s, "millimeter_exp: "), field(&s, "second_exp: "));
    // fast path: the derived `Debug` output, cross-checked by equality with `Unit::new`
    if let (Ok(mi), Ok(ti)) = (m.parse::<i8>(), t.parse::<i8>()) {
        if u.eq_assume_true(&Unit::new(mi, ti)) {
            return format!("{},{}", mi, ti);
        }
    }
    // `Debug` does not (any longer) show the two exponents in the derived form: find them by equality alone (a `Debug`
    // implementation is free to change; what a unit IS can only be asked through `==`)
    // small exponents first: 0, 1, -1, 2, -2, …
    let order: Vec<i8> = (0..=128i16)
        .flat_map(|k| if k == 0 { vec![0i16] } else { vec![k, -k] })
        .filter(|k| (-128..=127).contains(k))
        .map(|k| k as i8)
        .collect();
    for r in 0..order.len() {
        for k in 0..=r {
            for (mi, ti) in [(order[r], order[k]), (order[k], order[r])] {
                if u.eq_assume_true(&Unit::new(mi, ti)) {
                    return format!("{},{}", mi, ti);
                }
            }
        }
    }
    "?,?".to_string()
}
impl Enc for Unit {
    fn enc(&self) -> String {
        format!("U:{}", f_exps(*self))
    }
}
impl Dec for Unit {
    fn dec(t: &str) -> R<Self> {
        p_exps(t.strip_prefix("U:").ok_or(Bad)?)
    }
}

// ---------------------------------------------------------------- Quantity / Time / DimensionlessInteger

impl Enc for Quantity {
    fn enc(&self) -> String {
        format!("Q:{}:{}", f_f32(self.value), f_exps(self.unit))
    }
}
impl Dec for Quantity {
    fn dec(t: &str) -> R<Self> {
        let r = t.strip_prefix("Q:").ok_or(Bad)?;
        let (v, u) = r.split_once(':').ok_or(Bad)?;
        Ok(Quantity::new(p_f32(v)?, p_exps(u)?))
    }
}
impl Val for Quantity {}
impl Enc for Time {
    fn enc(&self) -> String {
        format!("T:{}", self.0)
    }
}
impl Dec for Time {
    fn dec(t: &str) -> R<Self> {
        Ok(Time(p_i64(t.strip_prefix("T:").ok_or(Bad)?)?))
    }
}
impl Enc for DimensionlessInteger {
    fn enc(&self) -> String {
        format!("D:{}", self.0)
    }
}
impl Dec for DimensionlessInteger {
    fn dec(t: &str) -> R<Self> {
        Ok(DimensionlessInteger(p_i64(t.strip_prefix("D:").ok_or(Bad)?)?))
    }
}

// ---------------------------------------------------------------- State / Command / PositionDerivative

impl Enc for State {
    fn enc(&self) -> String {
        format!(
            "{}/{}/{}",
            f_f32(self.position),
            f_f32(self.velocity),
            f_f32(self.acceleration)
        )
    }
}
impl Dec for State {
    fn dec(t: &str) -> R<Self> {
        let mut it = t.split('/');
        let p = p_f32(it.next().ok_or(Bad)?)?;
        let v = p_f32(it.next().ok_or(Bad)?)?;
        let a = p_f32(it.next().ok_or(Bad)?)?;
        if it.next().is_some() {
            return Err(Bad);
        }
        Ok(State::new_raw(p, v, a))
    }
}
impl Val for State {}
impl Enc for Command {
    fn enc(&self) -> String {
        match self {
            Command::Position(x) => format!("P{}", f_f32(*x)),
            Command::Velocity(x) => format!("V{}", f_f32(*x)),
            Command::Acceleration(x) => format!("A{}", f_f32(*x)),
        }
    }
}
impl Dec for Command {
    fn dec(t: &str) -> R<Self> {
        // Built with the enum variants directly (not `Command::new`) so that parsing never runs code under test.
        if let Some(r) = t.strip_prefix('P') {
            Ok(Command::Position(p_f32(r)?))
        } else if let Some(r) = t.strip_prefix('V') {
            Ok(Command::Velocity(p_f32(r)?))
        } else if let Some(r) = t.strip_prefix('A') {
            Ok(Command::Acceleration(p_f32(r)?))
        } else {
            Err(Bad)
        }
    }
}
impl Val for Command {}
impl Enc for PositionDerivative {
    fn enc(&self) -> String {
        match self {
            PositionDerivative::Position => "P",
            PositionDerivative::Velocity => "V",
            PositionDerivative::Acceleration => "A",
        }
        .to_string()
    }
}
impl Dec for PositionDerivative {
    fn dec(t: &str) -> R<Self> {
        match t {
            "P" => Ok(PositionDerivative::Position),
            "V" => Ok(PositionDerivative::Velocity),
            "A" => Ok(PositionDerivative::Acceleration),
            _ => Err(Bad),
        }
    }
}
impl Enc for MotionProfilePiece {
    fn enc(&self) -> String {
        match self {
            MotionProfilePiece::BeforeStart => "BS",
            MotionProfilePiece::InitialAcceleration => "IA",
            MotionProfilePiece::ConstantVelocity => "CV",
            MotionProfilePiece::EndAcceleration => "EA",
            MotionProfilePiece::Complete => "CO",
        }
        .to_string()
    }
}
impl Dec for MotionProfilePiece {
    fn dec(t: &str) -> R<Self> {
        match t {
            "BS" => Ok(MotionProfilePiece::BeforeStart),
            "IA" => Ok(MotionProfilePiece::InitialAcceleration),
            "CV" => Ok(MotionProfilePiece::ConstantVelocity),
            "EA" => Ok(MotionProfilePiece::EndAcceleration),
            "CO" => Ok(MotionProfilePiece::Complete),
            _ => Err(Bad),
        }
    }
}

// ---------------------------------------------------------------- Datum / Option / Output / errors

/// `Datum<ty>`: `<i64 time>@<value>`
impl<T: Enc> Enc for Datum<T> {
    fn enc(&self) -> String {
        format!("{}@{}", self.time.0, self.value.enc())
    }
}
impl<T: Dec> Dec for Datum<T> {
    fn dec(t: &str) -> R<Self> {
        let (time, value) = t.split_once('@').ok_or(Bad)?;
        Ok(Datum::new(Time(p_i64(time)?), T::dec(value)?))
    }
}
/// `Option<X>`: `none` or `X`
impl<T: Enc> Enc for Option<T> {
    fn enc(&self) -> String {
        match self {
            None => "none".to_string(),
            Some(x) => x.enc(),
        }
    }
}
impl<T: Dec> Dec for Option<T> {
    fn dec(t: &str) -> R<Self> {
        if t == "none" {
            Ok(None)
        } else {
            Ok(Some(T::dec(t)?))
        }
    }
}
/// `Error`: `E<n>` = `Error::Other(n)`, `EN` = `Error::FromNone`
pub fn f_err(e: &Error<E>) -> String {
    match e {
        Error::FromNone => "EN".to_string(),
        Error::Other(n) => format!("E{}", n),
        // `Error` is #[non_exhaustive].
        #[allow(unreachable_patterns)]
        _ => "E?".to_string(),
    }
}
/// `Some(err)` if the token is an error token, `None` if it does not start like one.
pub fn p_err(t: &str) -> Option<R<Error<E>>> {
    if t == "EN" {
        return Some(Ok(Error::FromNone));
    }
    let r = t.strip_prefix('E')?;
    if r.is_empty() || !r.bytes().all(|c| c.is_ascii_digit()) {
        return Some(Err(Bad));
    }
    Some(r.parse::<u8>().map(Error::Other).map_err(|_| Bad))
}
/// `Output<ty>`: `E<n>` | `EN` | `N` | `S@<time>@<value>`
impl<T: Enc> Enc for Output<T, E> {
    fn enc(&self) -> String {
        match self {
            Err(e) => f_err(e),
            Ok(None) => "N".to_string(),
            Ok(Some(d)) => format!("S@{}", d.enc()),
        }
    }
}
impl<T: Dec> Dec for Output<T, E> {
    fn dec(t: &str) -> R<Self> {
        if t == "N" {
            return Ok(Ok(None));
        }
        if let Some(r) = t.strip_prefix("S@") {
            return Ok(Ok(Some(Datum::<T>::dec(r)?)));
        }
        match p_err(t) {
            Some(e) => Ok(Err(e?)),
            None => Err(Bad),
        }
    }
}
/// `TimeOutput`: `T:<i64>` | `E<n>` | `EN`
impl Enc for TimeOutput<E> {
    fn enc(&self) -> String {
        match self {
            Ok(t) => t.enc(),
            Err(e) => f_err(e),
        }
    }
}
impl Dec for TimeOutput<E> {
    fn dec(t: &str) -> R<Self> {
        if t.starts_with("T:") {
            return Ok(Ok(Time::dec(t)?));
        }
        match p_err(t) {
            Some(e) => Ok(Err(e?)),
            None => Err(Bad),
        }
    }
}
/// `NothingOrError`: `ok` | `E<n>` | `EN`
impl Enc for NothingOrError<E> {
    fn enc(&self) -> String {
        match self {
            Ok(()) => "ok".to_string(),
            Err(e) => f_err(e),
        }
    }
}
impl Dec for NothingOrError<E> {
    fn dec(t: &str) -> R<Self> {
        if t == "ok" {
            return Ok(Ok(()));
        }
        match p_err(t) {
            Some(e) => Ok(Err(e?)),
            None => Err(Bad),
        }
    }
}
/// `TerminalData`: `<time>~<Option<Command>>~<Option<State>>`
#[cfg(feature = "devices")]
impl Enc for TerminalData {
    fn enc(&self) -> String {
        format!("{}~{}~{}", self.time.0, self.command.enc(), self.state.enc())
    }
}
/// `Result<(),()>`: `ok` | `err`
impl Enc for Result<(), ()> {
    fn enc(&self) -> String {
        match self {
            Ok(()) => "ok",
            Err(()) => "err",
        }
        .to_string()
    }
}
/// `Result<X,()>` from a `TryFrom`: `X` | `err`
pub fn f_try<T: Enc>(r: &Result<T, ()>) -> String {
    match r {
        Ok(x) => x.enc(),
        Err(()) => "err".to_string(),
    }
}
/// `Option<Ordering>`: `lt|eq|gt|none`
pub fn f_ord(o: Option<Ordering>) -> String {
    match o {
        Some(Ordering::Less) => "lt",
        Some(Ordering::Equal) => "eq",
        Some(Ordering::Greater) => "gt",
        None => "none",
    }
    .to_string()
}
