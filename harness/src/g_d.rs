//! Group `d` — `src/datum.rs` and `rrtk::latest`.
use crate::enc::*;
use rrtk::*;

/// `add sub addas subas` through the real operator impls; `None` if `$op` is none of them.
macro_rules! addsub {
    ($op:expr, $a:expr, $b:expr) => {
        match $op {
            "add" => Some(($a + $b).enc()),
            "sub" => Some(($a - $b).enc()),
            "addas" => {
                let mut x = $a;
                x += $b;
                Some(x.enc())
            }
            "subas" => {
                let mut x = $a;
                x -= $b;
                Some(x.enc())
            }
            _ => None,
        }
    };
}
/// `mul div mulas divas` through the real operator impls; `None` if `$op` is none of them.
macro_rules! muldiv {
    ($op:expr, $a:expr, $b:expr) => {
        match $op {
            "mul" => Some(($a * $b).enc()),
            "div" => Some(($a / $b).enc()),
            "mulas" => {
                let mut x = $a;
                x *= $b;
                Some(x.enc())
            }
            "divas" => {
                let mut x = $a;
                x /= $b;
                Some(x.enc())
            }
            _ => None,
        }
    };
}
fn is_addsub(op: &str) -> bool {
    matches!(op, "add" | "sub" | "addas" | "subas")
}

/// ty = f / q: all eight ops, B is `Datum<T>` or bare `T`.
macro_rules! arith_same {
    ($T:ty, $op:expr, $a:expr, $b:expr) => {{
        let a = Datum::<$T>::dec($a)?;
        if $b.contains('@') {
            let b = Datum::<$T>::dec($b)?;
            if is_addsub($op) {
                addsub!($op, a, b)
            } else {
                muldiv!($op, a, b)
            }
        } else {
            let b = <$T>::dec($b)?;
            if is_addsub($op) {
                addsub!($op, a, b)
            } else {
                muldiv!($op, a, b)
            }
        }
    }};
}
/// ty = s / c: add/sub with B of the same type, mul/div with B an f32 (datum or bare).
macro_rules! arith_scaled {
    ($T:ty, $op:expr, $a:expr, $b:expr) => {{
        let a = Datum::<$T>::dec($a)?;
        if is_addsub($op) {
            if $b.contains('@') {
                let b = Datum::<$T>::dec($b)?;
                addsub!($op, a, b)
            } else {
                let b = <$T>::dec($b)?;
                addsub!($op, a, b)
            }
        } else {
            if $b.contains('@') {
                let b = Datum::<f32>::dec($b)?;
                muldiv!($op, a, b)
            } else {
                let b = f32::dec($b)?;
                muldiv!($op, a, b)
            }
        }
    }};
}

fn rio<T: Val>(a: &str, b: &str, out: &mut Vec<String>) -> R<()> {
    let mut a = Datum::<T>::dec(a)?;
    let b = Datum::<T>::dec(b)?;
    let r = a.replace_if_older_than(b);
    out.push(a.enc());
    out.push(r.enc());
    Ok(())
}
fn rino<T: Val>(a: &str, b: &str, out: &mut Vec<String>) -> R<()> {
    let mut a = Option::<Datum<T>>::dec(a)?;
    let b = Datum::<T>::dec(b)?;
    let r = a.replace_if_none_or_older_than(b);
    out.push(a.enc());
    out.push(r.enc());
    Ok(())
}
fn rinoo<T: Val>(a: &str, b: &str, out: &mut Vec<String>) -> R<()> {
    let mut a = Option::<Datum<T>>::dec(a)?;
    let b = Option::<Datum<T>>::dec(b)?;
    let r = a.replace_if_none_or_older_than_option(b);
    out.push(a.enc());
    out.push(r.enc());
    Ok(())
}
fn latest_<T: Val>(a: &str, b: &str, out: &mut Vec<String>) -> R<()> {
    let a = Datum::<T>::dec(a)?;
    let b = Datum::<T>::dec(b)?;
    out.push(latest(a, b).enc());
    Ok(())
}
/// Call `$f::<T>(args)` with `T` selected by one of the five type letters.
macro_rules! by_ty5 {
    ($ty:expr, $f:ident, $($arg:expr),*) => {
        match $ty {
            "f" => $f::<f32>($($arg),*),
            "q" => $f::<Quantity>($($arg),*),
            "s" => $f::<State>($($arg),*),
            "c" => $f::<Command>($($arg),*),
            "b" => $f::<bool>($($arg),*),
            "w" => $f::<Word>($($arg),*),
            _ => Err(NoImpl),
        }
    };
}

pub fn run(toks: &[&str], out: &mut Vec<String>) -> R<()> {
    let op = toks.get(1).copied().ok_or(NoImpl)?;
    match op {
        "add" | "sub" | "mul" | "div" | "addas" | "subas" | "mulas" | "divas" => {
            want(toks, 5)?;
            let (ty, a, b) = (toks[2], toks[3], toks[4]);
            let r: Option<String> = match ty {
                "f" => arith_same!(f32, op, a, b),
                "q" => arith_same!(Quantity, op, a, b),
                "w" => arith_same!(Word, op, a, b),
                "s" => arith_scaled!(State, op, a, b),
                "c" => arith_scaled!(Command, op, a, b),
                _ => return Err(NoImpl),
            };
            out.push(r.ok_or(NoImpl)?);
            Ok(())
        }
        "neg" => {
            want(toks, 4)?;
            let a = toks[3];
            out.push(match toks[2] {
                "f" => (-Datum::<f32>::dec(a)?).enc(),
                "q" => (-Datum::<Quantity>::dec(a)?).enc(),
                "s" => (-Datum::<State>::dec(a)?).enc(),
                "c" => (-Datum::<Command>::dec(a)?).enc(),
                _ => return Err(NoImpl),
            });
            Ok(())
        }
        "not" => {
            want(toks, 4)?;
            match toks[2] {
                "b" => out.push((!Datum::<bool>::dec(toks[3])?).enc()),
                _ => return Err(NoImpl),
            }
            Ok(())
        }
        "rio" => {
            want(toks, 5)?;
            by_ty5!(toks[2], rio, toks[3], toks[4], out)
        }
        "rino" => {
            want(toks, 5)?;
            by_ty5!(toks[2], rino, toks[3], toks[4], out)
        }
        "rinoo" => {
            want(toks, 5)?;
            by_ty5!(toks[2], rinoo, toks[3], toks[4], out)
        }
        "latest" => {
            want(toks, 5)?;
            by_ty5!(toks[2], latest_, toks[3], toks[4], out)
        }
        _ => Err(NoImpl),
    }
}
