//! Group `dv` — terminals, `connect`, and the built-in devices. Needs rrtk's `devices` feature.
//!
//! Everything a case creates is leaked (`Box::leak`) so that terminals and devices are `'static`, which is what
//! `connect<'a>(&'a RefCell<Terminal<'a, E>>, &'a RefCell<Terminal<'a, E>>)` wants. The whole line is parsed and
//! index-checked before anything is built, so a line is either `BADLINE`/`NOIMPL` or a run.
use crate::enc::*;
use crate::script;
use core::cell::RefCell;
use rrtk::devices::*;
use rrtk::*;

pub type Term = &'static RefCell<Terminal<'static, E>>;
type DevRef = &'static mut dyn Device<E>;

pub fn leak<T>(x: T) -> &'static mut T {
    Box::leak(Box::new(x))
}
pub fn leak_terminal() -> Term {
    leak(Terminal::<'static, E>::new())
}
fn dash() -> String {
    "-".to_string()
}

// ---------------------------------------------------------------- terminal access (also used by `wr`)

pub fn set_state(t: Term, d: Datum<State>) -> NothingOrError<E> {
    <Terminal<E> as Settable<Datum<State>, E>>::set(&mut *t.borrow_mut(), d)
}
pub fn set_command(t: Term, d: Datum<Command>) -> NothingOrError<E> {
    <Terminal<E> as Settable<Datum<Command>, E>>::set(&mut *t.borrow_mut(), d)
}
pub fn get_state(t: Term) -> Output<State, E> {
    <Terminal<E> as Getter<State, E>>::get(&*t.borrow())
}
pub fn get_command(t: Term) -> Output<Command, E> {
    <Terminal<E> as Getter<Command, E>>::get(&*t.borrow())
}
pub fn get_data(t: Term) -> Output<TerminalData, E> {
    <Terminal<E> as Getter<TerminalData, E>>::get(&*t.borrow())
}
/// `r:<i>`: `<Output<s>>;<Output<c>>;<td>`
pub fn read_tok(t: Term) -> String {
    let s = get_state(t).enc();
    let c = get_command(t).enc();
    let d = get_data(t).enc();
    format!("{};{};{}", s, c, d)
}
/// `o:<i>`: `<Option<Datum<s>>>;<Option<Datum<c>>>` — the terminal's own slots.
pub fn own_tok(t: Term) -> String {
    let s = <Terminal<E> as Settable<Datum<State>, E>>::get_last_request(&*t.borrow()).enc();
    let c = <Terminal<E> as Settable<Datum<Command>, E>>::get_last_request(&*t.borrow()).enc();
    format!("{};{}", s, c)
}

// ---------------------------------------------------------------- parsing

enum Distrust {
    S1,
    S2,
    Su,
    Eq,
}
enum Setup {
    Free(usize),
    Inv,
    Gear(f32),
    GearQ(Quantity),
    GearT(Vec<f32>),
    Axle(usize),
    Diff(Distrust),
    DiffNew,
}
impl Setup {
    fn terminals(&self) -> usize {
        match self {
            Setup::Free(k) => *k,
            Setup::Inv | Setup::Gear(_) | Setup::GearQ(_) | Setup::GearT(_) => 2,
            Setup::Axle(n) => *n,
            Setup::Diff(_) | Setup::DiffNew => 3,
        }
    }
    fn devices(&self) -> usize {
        match self {
            Setup::Free(_) => 0,
            _ => 1,
        }
    }
}
/// More free terminals than this on one line is `NOIMPL` (keeps a silly line from exhausting memory).
const MAX_FREE: usize = 1024;

fn p_setup(t: &str) -> R<Setup> {
    if let Some(r) = t.strip_prefix("free:") {
        let k = p_usize(r)?;
        if k > MAX_FREE {
            return Err(NoImpl);
        }
        Ok(Setup::Free(k))
    } else if let Some(r) = t.strip_prefix("gearq:") {
        Ok(Setup::GearQ(Quantity::dec(r)?))
    } else if let Some(r) = t.strip_prefix("geart:") {
        let teeth = r.split('+').map(p_f32).collect::<R<Vec<f32>>>()?;
        if teeth.len() > 6 {
            return Err(NoImpl);
        }
        Ok(Setup::GearT(teeth))
    } else if let Some(r) = t.strip_prefix("gear:") {
        Ok(Setup::Gear(p_f32(r)?))
    } else if let Some(r) = t.strip_prefix("axle:") {
        let n = p_usize(r)?;
        if n > 8 {
            return Err(NoImpl);
        }
        Ok(Setup::Axle(n))
    } else if let Some(r) = t.strip_prefix("diff:") {
        Ok(Setup::Diff(match r {
            "S1" => Distrust::S1,
            "S2" => Distrust::S2,
            "SU" => Distrust::Su,
            "EQ" => Distrust::Eq,
            _ => return Err(Bad),
        }))
    } else {
        match t {
            "inv" => Ok(Setup::Inv),
            "diffnew" => Ok(Setup::DiffNew),
            _ => Err(Bad),
        }
    }
}

enum Op {
    C(usize, usize),
    X(usize),
    Ss(usize, Datum<State>),
    Sc(usize, Datum<Command>),
    U(usize),
    Ut(usize),
    R(usize),
    O(usize),
    Ra,
    Oa,
    /// `fs:<i>` / `fc:<i>`: the state / command slot of terminal i starts following its scripted getter
    Fs(usize),
    Fc(usize),
    /// `nfs:<i>` / `nfc:<i>`: `stop_following`
    Nfs(usize),
    Nfc(usize),
    /// `gs:<i>:<Output<Datum<State>>>` / `gc:<i>:<Output<Datum<Command>>>`: what that scripted getter returns from now on
    Gs(usize, Output<Datum<State>, E>),
    Gc(usize, Output<Datum<Command>, E>),
    /// `tu:<i>`: `Updatable::update` of terminal i
    Tu(usize),
    /// `rb:<i>:<j>`: the STATE read of terminal i while terminal j is mutably borrowed by the caller (must panic with a
    /// `RefCell` borrow error when j is i or i's partner — never answer from unwritten memory)
    Rb(usize, usize),
}
fn p_index(t: &str, limit: usize) -> R<usize> {
    let i = p_usize(t)?;
    if i < limit {
        Ok(i)
    } else {
        Err(Bad)
    }
}
fn p_op(t: &str, nterm: usize, ndev: usize) -> R<Op> {
    if let Some(r) = t.strip_prefix("c:") {
        let (i, j) = r.split_once(':').ok_or(Bad)?;
        Ok(Op::C(p_index(i, nterm)?, p_index(j, nterm)?))
    } else if let Some(r) = t.strip_prefix("x:") {
        Ok(Op::X(p_index(r, nterm)?))
    } else if let Some(r) = t.strip_prefix("ss:") {
        let (i, d) = r.split_once(':').ok_or(Bad)?;
        Ok(Op::Ss(p_index(i, nterm)?, Datum::<State>::dec(d)?))
    } else if let Some(r) = t.strip_prefix("sc:") {
        let (i, d) = r.split_once(':').ok_or(Bad)?;
        Ok(Op::Sc(p_index(i, nterm)?, Datum::<Command>::dec(d)?))
    } else if let Some(r) = t.strip_prefix("fs:") {
        Ok(Op::Fs(p_index(r, nterm)?))
    } else if let Some(r) = t.strip_prefix("fc:") {
        Ok(Op::Fc(p_index(r, nterm)?))
    } else if let Some(r) = t.strip_prefix("nfs:") {
        Ok(Op::Nfs(p_index(r, nterm)?))
    } else if let Some(r) = t.strip_prefix("nfc:") {
        Ok(Op::Nfc(p_index(r, nterm)?))
    } else if let Some(r) = t.strip_prefix("gs:") {
        let (i, d) = r.split_once(':').ok_or(Bad)?;
        Ok(Op::Gs(p_index(i, nterm)?, Output::<Datum<State>, E>::dec(d)?))
    } else if let Some(r) = t.strip_prefix("gc:") {
        let (i, d) = r.split_once(':').ok_or(Bad)?;
        Ok(Op::Gc(p_index(i, nterm)?, Output::<Datum<Command>, E>::dec(d)?))
    } else if let Some(r) = t.strip_prefix("tu:") {
        Ok(Op::Tu(p_index(r, nterm)?))
    } else if let Some(r) = t.strip_prefix("rb:") {
        let (i, j) = r.split_once(':').ok_or(Bad)?;
        Ok(Op::Rb(p_index(i, nterm)?, p_index(j, nterm)?))
    } else if let Some(r) = t.strip_prefix("ut:") {
        Ok(Op::Ut(p_index(r, ndev)?))
    } else if let Some(r) = t.strip_prefix("u:") {
        Ok(Op::U(p_index(r, ndev)?))
    } else if let Some(r) = t.strip_prefix("r:") {
        Ok(Op::R(p_index(r, nterm)?))
    } else if let Some(r) = t.strip_prefix("o:") {
        Ok(Op::O(p_index(r, nterm)?))
    } else if t.starts_with("ratio:") {
        // Reserved: the ratio of a gear train is not publicly observable.
        Err(NoImpl)
    } else {
        match t {
            "ra" => Ok(Op::Ra),
            "oa" => Ok(Op::Oa),
            _ => Err(Bad),
        }
    }
}

// ---------------------------------------------------------------- building

fn gear_train_from_teeth(teeth: &[f32]) -> GearTrain<'static, E> {
    fn arr<const N: usize>(teeth: &[f32]) -> [f32; N] {
        let mut a = [0.0f32; N];
        a.copy_from_slice(teeth);
        a
    }
    match teeth.len() {
        1 => GearTrain::new(arr::<1>(teeth)),
        2 => GearTrain::new(arr::<2>(teeth)),
        3 => GearTrain::new(arr::<3>(teeth)),
        4 => GearTrain::new(arr::<4>(teeth)),
        5 => GearTrain::new(arr::<5>(teeth)),
        6 => GearTrain::new(arr::<6>(teeth)),
        _ => unreachable!("tooth count was checked while parsing"),
    }
}
fn add_gear(g: GearTrain<'static, E>, terms: &mut Vec<Term>, devs: &mut Vec<DevRef>) {
    let d: &'static mut GearTrain<'static, E> = leak(g);
    terms.push(d.get_terminal_1());
    terms.push(d.get_terminal_2());
    devs.push(d);
}
fn add_diff(g: Differential<'static, E>, terms: &mut Vec<Term>, devs: &mut Vec<DevRef>) {
    let d: &'static mut Differential<'static, E> = leak(g);
    terms.push(d.get_side_1());
    terms.push(d.get_side_2());
    terms.push(d.get_sum());
    devs.push(d);
}
fn add_axle<const N: usize>(terms: &mut Vec<Term>, devs: &mut Vec<DevRef>) {
    let d: &'static mut Axle<'static, N, E> = leak(Axle::new());
    for i in 0..N {
        terms.push(d.get_terminal(i));
    }
    devs.push(d);
}
fn build(setup: Setup, terms: &mut Vec<Term>, devs: &mut Vec<DevRef>) {
    match setup {
        Setup::Free(k) => {
            for _ in 0..k {
                terms.push(leak_terminal());
            }
        }
        Setup::Inv => {
            let d: &'static mut Invert<'static, E> = leak(Invert::new());
            terms.push(d.get_terminal_1());
            terms.push(d.get_terminal_2());
            devs.push(d);
        }
        Setup::Gear(r) => add_gear(GearTrain::with_ratio_raw(r), terms, devs),
        Setup::GearQ(q) => add_gear(GearTrain::with_ratio(q), terms, devs),
        Setup::GearT(teeth) => add_gear(gear_train_from_teeth(&teeth), terms, devs),
        Setup::Axle(n) => match n {
            0 => add_axle::<0>(terms, devs),
            1 => add_axle::<1>(terms, devs),
            2 => add_axle::<2>(terms, devs),
            3 => add_axle::<3>(terms, devs),
            4 => add_axle::<4>(terms, devs),
            5 => add_axle::<5>(terms, devs),
            6 => add_axle::<6>(terms, devs),
            7 => add_axle::<7>(terms, devs),
            8 => add_axle::<8>(terms, devs),
            _ => unreachable!("axle size was checked while parsing"),
        },
        Setup::Diff(distrust) => {
            let distrust = match distrust {
                Distrust::S1 => DifferentialDistrust::Side1,
                Distrust::S2 => DifferentialDistrust::Side2,
                Distrust::Su => DifferentialDistrust::Sum,
                Distrust::Eq => DifferentialDistrust::Equal,
            };
            add_diff(Differential::with_distrust(distrust), terms, devs)
        }
        Setup::DiffNew => add_diff(Differential::new(), terms, devs),
    }
}

/// `dv axlegt <n> <k>`: `Axle::<n>::get_terminal(k)` — must panic (index out of bounds) for `k >= n`. The returned
/// reference is never dereferenced.
fn axle_get_terminal(n: usize, k: usize) {
    fn go<const N: usize>(k: usize) {
        let d: &'static mut Axle<'static, N, E> = leak(Axle::new());
        let t = d.get_terminal(k);
        std::hint::black_box(t as *const _);
    }
    match n {
        0 => go::<0>(k),
        1 => go::<1>(k),
        2 => go::<2>(k),
        3 => go::<3>(k),
        4 => go::<4>(k),
        5 => go::<5>(k),
        6 => go::<6>(k),
        7 => go::<7>(k),
        _ => go::<8>(k),
    }
}

pub fn run(toks: &[&str], out: &mut Vec<String>) -> R<()> {
    if toks.get(1).copied() == Some("axlegt") {
        if toks.len() != 4 {
            return Err(Bad);
        }
        let n = p_usize(toks[2])?;
        let k = p_usize(toks[3])?;
        if n > 8 || k > 1000 {
            return Err(NoImpl);
        }
        axle_get_terminal(n, k);
        out.push("ok".to_string());
        return Ok(());
    }
    let sep = toks.iter().position(|t| *t == "--").ok_or(Bad)?;
    let setups = toks[1..sep].iter().map(|t| p_setup(t)).collect::<R<Vec<Setup>>>()?;
    let nterm: usize = setups.iter().map(Setup::terminals).sum();
    let ndev: usize = setups.iter().map(Setup::devices).sum();
    let ops = toks[sep + 1..]
        .iter()
        .map(|t| p_op(t, nterm, ndev))
        .collect::<R<Vec<Op>>>()?;

    let mut terms: Vec<Term> = Vec::with_capacity(nterm);
    let mut devs: Vec<DevRef> = Vec::with_capacity(ndev);
    for s in setups {
        build(s, &mut terms, &mut devs);
    }

    // one scripted getter per terminal and slot (created up front; followed only on request)
    let scr_s: Vec<_> = (0..nterm).map(|_| script::mk::<Datum<State>>(Ok(None))).collect();
    let scr_c: Vec<_> = (0..nterm).map(|_| script::mk::<Datum<Command>>(Ok(None))).collect();
    for op in ops {
        match op {
            Op::Fs(i) => {
                <Terminal<E> as Settable<Datum<State>, E>>::follow(&mut *terms[i].borrow_mut(), script::as_dyn(&scr_s[i]));
                out.push(dash());
            }
            Op::Fc(i) => {
                <Terminal<E> as Settable<Datum<Command>, E>>::follow(&mut *terms[i].borrow_mut(), script::as_dyn(&scr_c[i]));
                out.push(dash());
            }
            Op::Nfs(i) => {
                <Terminal<E> as Settable<Datum<State>, E>>::stop_following(&mut *terms[i].borrow_mut());
                out.push(dash());
            }
            Op::Nfc(i) => {
                <Terminal<E> as Settable<Datum<Command>, E>>::stop_following(&mut *terms[i].borrow_mut());
                out.push(dash());
            }
            Op::Gs(i, o) => {
                script::set(&scr_s[i], o);
                out.push(dash());
            }
            Op::Gc(i, o) => {
                script::set(&scr_c[i], o);
                out.push(dash());
            }
            Op::Rb(i, j) => {
                let held = terms[j].borrow_mut();
                let tok = get_state(terms[i]).enc();
                drop(held);
                out.push(tok);
            }
            Op::Tu(i) => {
                let ret = terms[i].borrow_mut().update();
                out.push(ret.enc());
            }
            Op::C(i, j) => {
                connect(terms[i], terms[j]);
                out.push(dash());
            }
            Op::X(i) => {
                terms[i].borrow_mut().disconnect();
                out.push(dash());
            }
            Op::Ss(i, d) => out.push(set_state(terms[i], d).enc()),
            Op::Sc(i, d) => out.push(set_command(terms[i], d).enc()),
            Op::U(d) => {
                let ret = devs[d].update();
                out.push(ret.enc());
            }
            Op::Ut(d) => {
                let ret = devs[d].update_terminals();
                out.push(ret.enc());
            }
            Op::R(i) => out.push(read_tok(terms[i])),
            Op::O(i) => out.push(own_tok(terms[i])),
            Op::Ra => {
                for t in &terms {
                    out.push(read_tok(t));
                }
            }
            Op::Oa => {
                for t in &terms {
                    out.push(own_tok(t));
                }
            }
        }
    }
    Ok(())
}
