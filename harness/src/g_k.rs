//! Group `k` — `src/state.rs`, `src/command.rs`, PID gains.
use crate::enc::*;
use rrtk::*;

fn p_k9(toks: &[&str], at: usize) -> R<PositionDerivativeDependentPIDKValues> {
    let mut k = [0.0f32; 9];
    for (i, slot) in k.iter_mut().enumerate() {
        *slot = p_f32(tok(toks, at + i)?)?;
    }
    Ok(PositionDerivativeDependentPIDKValues::new(
        PIDKValues::new(k[0], k[1], k[2]),
        PIDKValues::new(k[3], k[4], k[5]),
        PIDKValues::new(k[6], k[7], k[8]),
    ))
}

pub fn run(toks: &[&str], out: &mut Vec<String>) -> R<()> {
    let op = toks.get(1).copied().ok_or(NoImpl)?;
    match op {
        // ---------------------------------------------------------------- State
        "supd" => {
            want(toks, 4)?;
            let mut s = State::dec(toks[2])?;
            let dt = Time(p_i64(toks[3])?);
            s.update(dt);
            out.push(s.enc());
        }
        "snew" => {
            want(toks, 5)?;
            let p = Quantity::dec(toks[2])?;
            let v = Quantity::dec(toks[3])?;
            let a = Quantity::dec(toks[4])?;
            out.push(State::new(p, v, a).enc());
        }
        "snewraw" => {
            want(toks, 5)?;
            let s = State::new_raw(p_f32(toks[2])?, p_f32(toks[3])?, p_f32(toks[4])?);
            out.push(s.enc());
        }
        "ssetp" | "ssetv" | "sseta" => {
            want(toks, 4)?;
            let mut s = State::dec(toks[2])?;
            let q = Quantity::dec(toks[3])?;
            let r = match op {
                "ssetp" => s.set_constant_position(q),
                "ssetv" => s.set_constant_velocity(q),
                _ => s.set_constant_acceleration(q),
            };
            out.push(r.enc());
            out.push(s.enc());
        }
        "ssetpr" | "ssetvr" | "ssetar" => {
            want(toks, 4)?;
            let mut s = State::dec(toks[2])?;
            let x = p_f32(toks[3])?;
            match op {
                "ssetpr" => s.set_constant_position_raw(x),
                "ssetvr" => s.set_constant_velocity_raw(x),
                _ => s.set_constant_acceleration_raw(x),
            }
            out.push(s.enc());
        }
        "sgetp" | "sgetv" | "sgeta" => {
            want(toks, 3)?;
            let s = State::dec(toks[2])?;
            out.push(
                match op {
                    "sgetp" => s.get_position(),
                    "sgetv" => s.get_velocity(),
                    _ => s.get_acceleration(),
                }
                .enc(),
            );
        }
        "sget" => {
            want(toks, 4)?;
            let s = State::dec(toks[2])?;
            let pd = PositionDerivative::dec(toks[3])?;
            out.push(s.get_value(pd).enc());
        }
        "sneg" => {
            want(toks, 3)?;
            let s = State::dec(toks[2])?;
            out.push((-s).enc());
        }
        "sadd" | "ssub" | "saddas" | "ssubas" => {
            want(toks, 4)?;
            let a = State::dec(toks[2])?;
            let b = State::dec(toks[3])?;
            out.push(match op {
                "sadd" => (a + b).enc(),
                "ssub" => (a - b).enc(),
                "saddas" => {
                    let mut x = a;
                    x += b;
                    x.enc()
                }
                _ => {
                    let mut x = a;
                    x -= b;
                    x.enc()
                }
            });
        }
        "smul" | "sdiv" | "smulas" | "sdivas" => {
            want(toks, 4)?;
            let a = State::dec(toks[2])?;
            let b = p_f32(toks[3])?;
            out.push(match op {
                "smul" => (a * b).enc(),
                "sdiv" => (a / b).enc(),
                "smulas" => {
                    let mut x = a;
                    x *= b;
                    x.enc()
                }
                _ => {
                    let mut x = a;
                    x /= b;
                    x.enc()
                }
            });
        }
        "seq" => {
            want(toks, 4)?;
            let a = State::dec(toks[2])?;
            let b = State::dec(toks[3])?;
            out.push((a == b).enc());
        }
        // ---------------------------------------------------------------- Command
        "cfroms" => {
            want(toks, 3)?;
            let s = State::dec(toks[2])?;
            out.push(Command::from(s).enc());
        }
        "cnew" => {
            want(toks, 4)?;
            let pd = PositionDerivative::dec(toks[2])?;
            let x = p_f32(toks[3])?;
            out.push(Command::new(pd, x).enc());
        }
        "ckind" => {
            want(toks, 3)?;
            let c = Command::dec(toks[2])?;
            out.push(PositionDerivative::from(c).enc());
        }
        "craw" => {
            want(toks, 3)?;
            let c = Command::dec(toks[2])?;
            out.push(f_rawf(f32::from(c)));
        }
        "cpos" => {
            want(toks, 3)?;
            let c = Command::dec(toks[2])?;
            out.push(c.get_position().enc());
        }
        "cvel" => {
            want(toks, 3)?;
            let c = Command::dec(toks[2])?;
            out.push(c.get_velocity().enc());
        }
        "cacc" => {
            want(toks, 3)?;
            let c = Command::dec(toks[2])?;
            out.push(c.get_acceleration().enc());
        }
        "cadd" | "csub" | "caddas" | "csubas" => {
            want(toks, 4)?;
            let a = Command::dec(toks[2])?;
            let b = Command::dec(toks[3])?;
            out.push(match op {
                "cadd" => (a + b).enc(),
                "csub" => (a - b).enc(),
                "caddas" => {
                    let mut x = a;
                    x += b;
                    x.enc()
                }
                _ => {
                    let mut x = a;
                    x -= b;
                    x.enc()
                }
            });
        }
        "cmul" | "cdiv" | "cmulas" | "cdivas" => {
            want(toks, 4)?;
            let a = Command::dec(toks[2])?;
            let b = p_f32(toks[3])?;
            out.push(match op {
                "cmul" => (a * b).enc(),
                "cdiv" => (a / b).enc(),
                "cmulas" => {
                    let mut x = a;
                    x *= b;
                    x.enc()
                }
                _ => {
                    let mut x = a;
                    x /= b;
                    x.enc()
                }
            });
        }
        "cneg" => {
            want(toks, 3)?;
            let c = Command::dec(toks[2])?;
            out.push((-c).enc());
        }
        "ceq" => {
            want(toks, 4)?;
            let a = Command::dec(toks[2])?;
            let b = Command::dec(toks[3])?;
            out.push((a == b).enc());
        }
        // ---------------------------------------------------------------- PID gains
        "pidk" => {
            want(toks, 8)?;
            let k = PIDKValues::new(p_f32(toks[2])?, p_f32(toks[3])?, p_f32(toks[4])?);
            let (e, i, d) = (p_f32(toks[5])?, p_f32(toks[6])?, p_f32(toks[7])?);
            out.push(f_rawf(k.evaluate(e, i, d)));
        }
        "pidk3" => {
            want(toks, 15)?;
            let k = p_k9(toks, 2)?;
            let pd = PositionDerivative::dec(toks[11])?;
            let (e, i, d) = (p_f32(toks[12])?, p_f32(toks[13])?, p_f32(toks[14])?);
            out.push(f_rawf(k.evaluate(pd, e, i, d)));
        }
        "pidk3get" => {
            want(toks, 12)?;
            let k = p_k9(toks, 2)?;
            let pd = PositionDerivative::dec(toks[11])?;
            let g = k.get_k_values(pd);
            out.push(g.kp.enc());
            out.push(g.ki.enc());
            out.push(g.kd.enc());
        }
        _ => return Err(NoImpl),
    }
    Ok(())
}
