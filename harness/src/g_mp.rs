//! Group `mp` — `MotionProfile`. The private fields are read from the `Debug` output.
use crate::enc::*;
use rrtk::*;

/// The part of `s` after the first occurrence of `key`.
fn after<'a>(s: &'a str, key: &str) -> Option<&'a str> {
    s.find(key).map(|i| &s[i + key.len()..])
}
/// The longest prefix of `s` that looks like a decimal integer.
fn int_prefix(s: &str) -> &str {
    let end = s
        .find(|c: char| !(c == '-' || c.is_ascii_digit()))
        .unwrap_or(s.len());
    &s[..end]
}
/// `<name>: Time(<i64>)` → `T:<i64>`
fn time_field(dbg: &str, name: &str) -> Option<String> {
    let rest = after(dbg, &format!("{}: Time(", name))?;
    let n = p_i64(int_prefix(rest)).ok()?;
    Some(format!("T:{}", n))
}
/// `Debug` of an f32 (`0.01`, `1e-7`, `NaN`, `inf`, `-inf`) → the value; `{:?}` round-trips.
fn dbg_f32(s: &str) -> Option<f32> {
    s.trim().parse::<f32>().ok()
}
/// `max_acc: Quantity { value: <f32>, unit: Unit { millimeter_exp: <i>, second_exp: <i> } }` (checked) or
/// `max_acc: Quantity { value: <f32>, unit: Unit }` (unchecked → `0,0`) → `Q:<f32>:<mm>,<s>`
fn quantity_field(dbg: &str, name: &str) -> Option<String> {
    let rest = after(dbg, &format!("{}: Quantity {{ value: ", name))?;
    let (value, rest) = rest.split_once(", unit: ")?;
    let value = dbg_f32(value)?;
    let exps = if rest.starts_with("Unit {") {
        let mm = p_i64(int_prefix(after(rest, "millimeter_exp: ")?)).ok()?;
        let s = p_i64(int_prefix(after(rest, "second_exp: ")?)).ok()?;
        format!("{},{}", mm, s)
    } else if rest.starts_with("Unit") {
        "0,0".to_string()
    } else {
        return None;
    };
    Some(format!("Q:{}:{}", f_f32(value), exps))
}
/// `end_command: Position(3.0)` → `P40400000`
fn command_field(dbg: &str, name: &str) -> Option<String> {
    let rest = after(dbg, &format!("{}: ", name))?;
    let (kind, rest) = rest.split_once('(')?;
    let (value, _) = rest.split_once(')')?;
    let letter = match kind {
        "Position" => 'P',
        "Velocity" => 'V',
        "Acceleration" => 'A',
        _ => return None,
    };
    Some(format!("{}{}", letter, f_f32(dbg_f32(value)?)))
}
fn or_q(x: Option<String>) -> String {
    x.unwrap_or_else(|| "?".to_string())
}

pub fn run(toks: &[&str], out: &mut Vec<String>) -> R<()> {
    want_min(toks, 5)?;
    let start = State::dec(toks[1])?;
    let end = State::dec(toks[2])?;
    let max_vel = Quantity::dec(toks[3])?;
    let max_acc = Quantity::dec(toks[4])?;
    let times = toks[5..].iter().map(|t| p_i64(t)).collect::<R<Vec<i64>>>()?;

    let mp = MotionProfile::new(start, end, max_vel, max_acc);
    let dbg = format!("{:?}", mp);
    out.push(or_q(time_field(&dbg, "t1")));
    out.push(or_q(time_field(&dbg, "t2")));
    out.push(or_q(time_field(&dbg, "t3")));
    out.push(or_q(quantity_field(&dbg, "max_acc")));
    out.push(or_q(command_field(&dbg, "end_command")));

    for t in times {
        let t = Time(t);
        let piece = mp.get_piece(t).enc();
        let mode = mp.get_mode(t).enc();
        let acc = mp.get_acceleration(t).enc();
        let vel = mp.get_velocity(t).enc();
        let pos = mp.get_position(t).enc();
        let hist = <MotionProfile as History<Command, E>>::get(&mp, t).enc();
        out.push(format!("{}/{}/{}/{}/{}/{}", piece, mode, acc, vel, pos, hist));
    }
    Ok(())
}
