//! Group `mp` — `MotionProfile`. The private fields are read from the `Debug` output.
use crate::enc::*;
use rrtk::*;

/// The part of `s` after the first occurrence of `key`.
fn after<'a>(s: &'a str, key: &str) -> Option<&'a str> {
    s.find(key).map(|i| &s[i + key.len()..])
}
/// The longest prefix of `s` that looks like a decimal integer.
fn int_prefix(s: &str) -> &str {
    let end = s
        .find(|c: char| !(c == '-' || c.is_ascii_digit()))
        .unwrap_or(s.len());
    &s[..end]
}
/// `<name>: Time(<i64>)` → `T:<i64>`
fn time_field(dbg: &str, name: &str) -> Option<String> {
    let rest = after(dbg, &format!("{}: Time(", name))?;
    let n = p_i64(int_prefix(rest)).ok()?;
    Some(format!("T:{}", n))
}
/// `Debug` of an f32 (`0.01`, `1e-7`, `NaN`, `inf`, `-inf`) → the value; `{:?}` round-trips.
fn dbg_f32(s: &str) -> Option<f32> {
    s.trim().parse::<f32>().ok()
}
/// `max_acc: Quantity { value: <f32>, unit: Unit { millimeter_exp: <i>, second_exp: <i> } }` (checked) or
/// `max_acc: Quantity { value: <f32>, unit: Unit }` (unchecked → `0,0`) → `Q:<f32>:<mm>,<s>`
fn quantity_field(dbg: &str, name: &str) -> Option<String> {
    let rest = after(dbg, &format!("{}: Quantity {{ value: ", name))?;
    let (value, rest) = rest.split_once(", unit: ")?;
    let value = dbg_f32(value)?;
    let exps = if rest.starts_with("Unit {") {
        let mm = p_i64(int_prefix(after(rest, "millimeter_exp: ")?)).ok()?;
        let s = p_i64(int_prefix(after(rest, "second_exp: ")?)).ok()?;
        format!("{},{}", mm, s)
    } else if rest.starts_with("Unit") {
        "0,0".to_string()
    } else {
        return None;
    };
    Some(format!("Q:{}:{}", f_f32(value), exps))
}
/// `end_command: Position(3.0)` → `P40400000`
fn command_field(dbg: &str, name: &str) -> Option<String> {
    let rest = after(dbg, &format!("{}: ", name))?;
    let (kind, rest) = rest.split_once('(')?;
    let (value, _) = rest.split_once(')')?;
    let letter = match kind {
        "Position" => 'P',
        "Velocity" => 'V',
        "Acceleration" => 'A',
        _ => return None,
    };
    Some(format!("{}{}", letter, f_f32(dbg_f32(value)?)))
}
fn or_q(x: Option<String>) -> String {
    x.unwrap_or_else(|| "?".to_string())
}

pub fn run(toks: &[&str], out: &mut Vec<String>) -> R<()> {
    want_min(toks, 5)?;
    let start = State::dec(toks[1])?;
    let end = State::dec(toks[2])?;
    let max_vel = Quantity::dec(toks[3])?;
    let max_acc = Quantity::dec(toks[4])?;
    let times = toks[5..].iter().map(|t| p_i64(t)).collect::<R<Vec<i64>>>()?;

    let mp = MotionProfile::new(start, end, max_vel, max_acc);
    let dbg = format!("{:?}", mp);
    let from_debug = [
        time_field(&dbg, "t1"),
        time_field(&dbg, "t2"),
        time_field(&dbg, "t3"),
        quantity_field(&dbg, "max_acc"),
        command_field(&dbg, "end_command"),
    ];
    if from_debug.iter().all(|x| x.is_some()) {
        for x in from_debug {
            out.push(or_q(x));
        }
    } else {
        // The `Debug` output does not (any longer) show the private fields in the derived form: recover them from BEHAVIOUR.
        // The pieces follow each other in time, so each boundary is the first instant at which the piece has at least a given rank.
        let rank = |t: i64| match mp.get_piece(Time(t)) {
            MotionProfilePiece::BeforeStart => 0u8,
            MotionProfilePiece::InitialAcceleration => 1,
            MotionProfilePiece::ConstantVelocity => 2,
            MotionProfilePiece::EndAcceleration => 3,
            MotionProfilePiece::Complete => 4,
        };
        let first_with = |r: u8| -> i64 {
            let (mut lo, mut hi) = (0i64, i64::MAX); // answer in [lo, hi]; rank(hi) >= r is assumed (Complete at the end of time)
            if rank(hi) < r {
                return i64::MAX;
            }
            while lo < hi {
                let mid = lo + (hi - lo) / 2;
                if rank(mid) >= r {
                    hi = mid;
                } else {
                    lo = mid + 1;
                }
            }
            lo
        };
        let (t1, t2, t3) = (first_with(2), first_with(3), first_with(4));
        out.push(format!("T:{}", t1));
        out.push(format!("T:{}", t2));
        out.push(format!("T:{}", t3));
        // max_acc: the commanded acceleration while speeding up, or minus the one while slowing down; unobservable if both are empty
        let acc = if t1 > 0 {
            mp.get_acceleration(Time(0))
        } else if t3 > t2 {
            mp.get_acceleration(Time(t2)).map(|q| -q)
        } else {
            None
        };
        out.push(acc.map(|q| q.enc()).unwrap_or_else(|| "?".to_string()));
        let endc = <MotionProfile as History<Command, E>>::get(&mp, Time(t3)).map(|d| d.value.enc());
        out.push(endc.unwrap_or_else(|| "?".to_string()));
    }

    for t in times {
        let t = Time(t);
        let piece = mp.get_piece(t).enc();
        let mode = mp.get_mode(t).enc();
        let acc = mp.get_acceleration(t).enc();
        let vel = mp.get_velocity(t).enc();
        let pos = mp.get_position(t).enc();
        let hist = <MotionProfile as History<Command, E>>::get(&mp, t).enc();
        out.push(format!("{}/{}/{}/{}/{}/{}", piece, mode, acc, vel, pos, hist));
    }
    Ok(())
}
