//! Group `q` — `src/dimensions.rs` and the small conversions of `lib.rs` / `command.rs`.
use crate::enc::*;
use crate::gen_consts;
use rrtk::*;

/// One operand of a `q` line; the variant is selected by the token's prefix.
#[derive(Clone, Copy)]
enum Opd {
    Q(Quantity),
    T(Time),
    D(DimensionlessInteger),
    U(Unit),
    F(f32),
    I(i64),
}
fn p_opd(t: &str) -> R<Opd> {
    match t.as_bytes().first() {
        Some(b'Q') => Ok(Opd::Q(Quantity::dec(t)?)),
        Some(b'T') => Ok(Opd::T(Time::dec(t)?)),
        Some(b'D') => Ok(Opd::D(DimensionlessInteger::dec(t)?)),
        Some(b'U') => Ok(Opd::U(Unit::dec(t)?)),
        Some(b'F') => Ok(Opd::F(p_f32(t.strip_prefix("F:").ok_or(Bad)?)?)),
        Some(b'I') => Ok(Opd::I(p_i64(t.strip_prefix("I:").ok_or(Bad)?)?)),
        _ => Err(Bad),
    }
}

/// `a <op> b` for the listed operand-type pairs, anything else is NOIMPL.
macro_rules! binop {
    ($a:expr, $b:expr, $out:expr, $op:tt; $( ($A:ident, $B:ident) )*) => {
        match ($a, $b) {
            $( (Opd::$A(x), Opd::$B(y)) => $out.push((x $op y).enc()), )*
            _ => return Err(NoImpl),
        }
    };
}
/// `let mut a = A; a <op>= B;` for the listed operand-type pairs, anything else is NOIMPL.
macro_rules! asop {
    ($a:expr, $b:expr, $out:expr, $op:tt; $( ($A:ident, $B:ident) )*) => {
        match ($a, $b) {
            $( (Opd::$A(mut x), Opd::$B(y)) => { x $op y; $out.push(x.enc()) } )*
            _ => return Err(NoImpl),
        }
    };
}

fn two_units(toks: &[&str]) -> R<(Unit, Unit)> {
    want(toks, 4)?;
    match (p_opd(toks[2])?, p_opd(toks[3])?) {
        (Opd::U(a), Opd::U(b)) => Ok((a, b)),
        _ => Err(NoImpl),
    }
}

/// `q unw <op> <operands…>`: the operation `q <op> <operands…>` executed inside a destructor that runs while the thread is UNWINDING
/// from an unrelated panic. Whether an operation panics depends on its operands only, not on where it runs: same tokens, same panic.
fn unwinding(toks: &[&str], out: &mut Vec<String>) -> R<()> {
    use std::cell::RefCell;
    use std::panic::{catch_unwind, resume_unwind, AssertUnwindSafe};
    use std::rc::Rc;
    type Outcome = std::thread::Result<R<Vec<String>>>;
    struct InDrop<'a> {
        toks: Vec<&'a str>,
        outcome: Rc<RefCell<Option<Outcome>>>,
    }
    impl Drop for InDrop<'_> {
        fn drop(&mut self) {
            let toks = &self.toks;
            let r = catch_unwind(AssertUnwindSafe(|| {
                let mut o = Vec::new();
                run(toks, &mut o).map(|_| o)
            }));
            *self.outcome.borrow_mut() = Some(r);
        }
    }
    if toks.len() < 3 || toks[2] == "unw" {
        return Err(Bad);
    }
    let mut inner = vec!["q"];
    inner.extend_from_slice(&toks[2..]);
    let outcome: Rc<RefCell<Option<Outcome>>> = Rc::new(RefCell::new(None));
    let o2 = outcome.clone();
    let _ = catch_unwind(AssertUnwindSafe(move || {
        let _guard = InDrop { toks: inner, outcome: o2 };
        panic!("unrelated panic: the guard's destructor runs during unwinding");
    }));
    let taken = outcome.borrow_mut().take();
    match taken {
        Some(Ok(Ok(o))) => {
            out.extend(o);
            Ok(())
        }
        Some(Ok(Err(e))) => Err(e),
        Some(Err(payload)) => resume_unwind(payload),
        None => Err(Bad),
    }
}

pub fn run(toks: &[&str], out: &mut Vec<String>) -> R<()> {
    let op = toks.get(1).copied().ok_or(NoImpl)?;
    if op == "unw" {
        return unwinding(toks, out);
    }
    match op {
        "add" | "sub" | "mul" | "div" | "addas" | "subas" | "mulas" | "divas" => {
            want(toks, 4)?;
            let a = p_opd(toks[2])?;
            let b = p_opd(toks[3])?;
            match op {
                "add" => binop!(a, b, out, +; (Q,Q) (Q,T) (Q,D) (T,T) (D,D) (T,Q) (D,Q) (U,U)),
                "sub" => binop!(a, b, out, -; (Q,Q) (Q,T) (Q,D) (T,T) (D,D) (T,Q) (D,Q) (U,U)),
                "mul" => binop!(a, b, out, *; (Q,Q) (Q,T) (Q,D) (T,T) (T,D) (T,Q) (D,D) (D,T) (D,Q) (U,U)),
                "div" => binop!(a, b, out, /; (Q,Q) (Q,T) (Q,D) (T,T) (T,D) (T,Q) (D,D) (D,T) (D,Q) (U,U)),
                "addas" => asop!(a, b, out, +=; (Q,Q) (Q,T) (Q,D) (T,T) (D,D) (U,U)),
                "subas" => asop!(a, b, out, -=; (Q,Q) (Q,T) (Q,D) (T,T) (D,D) (U,U)),
                "mulas" => asop!(a, b, out, *=; (Q,Q) (Q,T) (Q,D) (T,D) (D,D) (U,U)),
                "divas" => asop!(a, b, out, /=; (Q,Q) (Q,T) (Q,D) (T,D) (D,D) (U,U)),
                _ => return Err(NoImpl),
            }
        }
        "neg" => {
            want(toks, 3)?;
            match p_opd(toks[2])? {
                Opd::Q(x) => out.push((-x).enc()),
                Opd::T(x) => out.push((-x).enc()),
                Opd::D(x) => out.push((-x).enc()),
                Opd::U(x) => out.push((-x).enc()),
                _ => return Err(NoImpl),
            }
        }
        "abs" => {
            want(toks, 3)?;
            match p_opd(toks[2])? {
                Opd::Q(x) => out.push(x.abs().enc()),
                _ => return Err(NoImpl),
            }
        }
        "cmp" | "eq" | "lt" | "le" | "gt" | "ge" | "ne" => {
            want(toks, 4)?;
            match (p_opd(toks[2])?, p_opd(toks[3])?) {
                (Opd::Q(a), Opd::Q(b)) => match op {
                    "cmp" => out.push(f_ord(a.partial_cmp(&b))),
                    "eq" => out.push((a == b).enc()),
                    // the operator forms are separate (overridable) trait methods: each must agree with partial_cmp / eq
                    "lt" => out.push((a < b).enc()),
                    "le" => out.push((a <= b).enc()),
                    "gt" => out.push((a > b).enc()),
                    "ge" => out.push((a >= b).enc()),
                    _ => out.push((a != b).enc()),
                },
                _ => return Err(NoImpl),
            }
        }
        "toq" => {
            want(toks, 3)?;
            match p_opd(toks[2])? {
                Opd::T(x) => out.push(Quantity::from(x).enc()),
                Opd::D(x) => out.push(Quantity::from(x).enc()),
                _ => return Err(NoImpl),
            }
        }
        "tot" => {
            want(toks, 3)?;
            match p_opd(toks[2])? {
                Opd::Q(x) => out.push(f_try(&Time::try_from(x))),
                _ => return Err(NoImpl),
            }
        }
        "tod" => {
            want(toks, 3)?;
            match p_opd(toks[2])? {
                Opd::Q(x) => out.push(f_try(&DimensionlessInteger::try_from(x))),
                _ => return Err(NoImpl),
            }
        }
        "toi" => {
            want(toks, 3)?;
            match p_opd(toks[2])? {
                Opd::T(x) => out.push(f_rawi(i64::from(x))),
                Opd::D(x) => out.push(f_rawi(i64::from(x))),
                _ => return Err(NoImpl),
            }
        }
        "mkt" | "mkd" | "newt" | "newd" => {
            want(toks, 3)?;
            match p_opd(toks[2])? {
                Opd::I(x) => out.push(match op {
                    "mkt" => Time::from(x).enc(),
                    "mkd" => DimensionlessInteger::from(x).enc(),
                    "newt" => Time::new(x).enc(),
                    _ => DimensionlessInteger::new(x).enc(),
                }),
                _ => return Err(NoImpl),
            }
        }
        "tof" => {
            want(toks, 3)?;
            match p_opd(toks[2])? {
                Opd::Q(x) => out.push(f_rawf(f32::from(x))),
                _ => return Err(NoImpl),
            }
        }
        "qdl" => {
            want(toks, 3)?;
            match p_opd(toks[2])? {
                Opd::F(x) => out.push(Quantity::dimensionless(x).enc()),
                _ => return Err(NoImpl),
            }
        }
        "pd2u" => {
            want(toks, 3)?;
            let pd = PositionDerivative::dec(toks[2])?;
            out.push(Unit::from(pd).enc());
        }
        "u2pd" => {
            want(toks, 3)?;
            #[cfg(any(feature = "chk", all(debug_assertions, feature = "chkdbg")))]
            match p_opd(toks[2])? {
                Opd::U(u) => out.push(f_try(&PositionDerivative::try_from(u))),
                _ => return Err(NoImpl),
            }
            #[cfg(not(any(feature = "chk", all(debug_assertions, feature = "chkdbg"))))]
            return Err(NoImpl);
        }
        "c2q" => {
            want(toks, 3)?;
            let c = Command::dec(toks[2])?;
            out.push(Quantity::from(c).enc());
        }
        "q2c" => {
            want(toks, 3)?;
            #[cfg(any(feature = "chk", all(debug_assertions, feature = "chkdbg")))]
            match p_opd(toks[2])? {
                Opd::Q(q) => out.push(f_try(&Command::try_from(q))),
                _ => return Err(NoImpl),
            }
            #[cfg(not(any(feature = "chk", all(debug_assertions, feature = "chkdbg"))))]
            return Err(NoImpl);
        }
        "c2pd" => {
            want(toks, 3)?;
            let c = Command::dec(toks[2])?;
            out.push(PositionDerivative::from(c).enc());
        }
        "mpp2pd" => {
            want(toks, 3)?;
            let p = MotionProfilePiece::dec(toks[2])?;
            out.push(f_try(&PositionDerivative::try_from(p)));
        }
        "mpp2u" => {
            want(toks, 3)?;
            let p = MotionProfilePiece::dec(toks[2])?;
            out.push(f_try(&Unit::try_from(p)));
        }
        "const" => {
            want(toks, 3)?;
            match gen_consts::TABLE.iter().find(|(n, _)| *n == toks[2]) {
                Some((_, u)) => out.push(u.enc()),
                None => return Err(NoImpl),
            }
        }
        "constadd" => {
            // `Quantity::new(v, <named constant>) + <quantity>` with v the quantity's own value
            want(toks, 4)?;
            let q = match p_opd(toks[3])? {
                Opd::Q(q) => q,
                _ => return Err(NoImpl),
            };
            match gen_consts::TABLE.iter().find(|(n, _)| *n == toks[2]) {
                Some((_, u)) => out.push((Quantity::new(q.value, *u) + q).enc()),
                None => return Err(NoImpl),
            }
        }
        "unew" => {
            want(toks, 4)?;
            let u = mk_unit(p_i64(toks[2])?, p_i64(toks[3])?)?;
            out.push(u.enc());
        }
        "uceq" => {
            let (_a, _b) = two_units(toks)?;
            #[cfg(any(feature = "chk", all(debug_assertions, feature = "chkdbg")))]
            out.push(_a.const_eq(&_b).enc());
            #[cfg(not(any(feature = "chk", all(debug_assertions, feature = "chkdbg"))))]
            return Err(NoImpl);
        }
        "ueqt" => {
            let (a, b) = two_units(toks)?;
            out.push(a.eq_assume_true(&b).enc());
        }
        "ueqf" => {
            let (a, b) = two_units(toks)?;
            out.push(a.eq_assume_false(&b).enc());
        }
        "uaok" => {
            let (a, b) = two_units(toks)?;
            a.assert_eq_assume_ok(&b);
            out.push("ok".to_string());
        }
        "uanok" => {
            let (a, b) = two_units(toks)?;
            a.assert_eq_assume_not_ok(&b);
            out.push("ok".to_string());
        }
        "ucaeq" => {
            let (_a, _b) = two_units(toks)?;
            #[cfg(any(feature = "chk", all(debug_assertions, feature = "chkdbg")))]
            {
                _a.const_assert_eq(&_b);
                out.push("ok".to_string());
            }
            #[cfg(not(any(feature = "chk", all(debug_assertions, feature = "chkdbg"))))]
            return Err(NoImpl);
        }
        _ => return Err(NoImpl),
    }
    Ok(())
}
