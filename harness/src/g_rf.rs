//! Group `rf` — `Reference` in its six variants, `to_dyn!`, and (with `std`) sharing between threads.
//!
//! The events of a line are parsed and their handle numbers checked (by simulating which handles exist) before
//! anything runs, so a line is either `BADLINE`/`NOIMPL` or a run.
use crate::enc::*;
// `to_dyn!` refers to the unqualified names `reference` and `Reference`.
use rrtk::*;
use std::sync::atomic::{AtomicBool, Ordering};
use std::sync::Arc;
#[cfg(feature = "std")]
use std::sync::{Mutex, RwLock};

pub trait Bump {
    fn get(&self) -> i64;
    fn put(&mut self, v: i64);
}
/// The target of every reference. `dropped` is shared with the harness and set when the cell is dropped.
struct Cell {
    v: i64,
    dropped: Arc<AtomicBool>,
}
impl Bump for Cell {
    fn get(&self) -> i64 {
        self.v
    }
    fn put(&mut self, v: i64) {
        self.v = v;
    }
}
impl Drop for Cell {
    fn drop(&mut self) {
        self.dropped.store(true, Ordering::SeqCst);
    }
}
fn new_cell() -> (Cell, Arc<AtomicBool>) {
    let dropped = Arc::new(AtomicBool::new(false));
    (
        Cell {
            v: 0,
            dropped: dropped.clone(),
        },
        dropped,
    )
}
fn dash() -> String {
    "-".to_string()
}

enum Handle {
    C(Reference<Cell>),
    D(Reference<dyn Bump>),
}
impl Handle {
    fn duplicate(&self) -> Handle {
        match self {
            Handle::C(r) => Handle::C(r.clone()),
            Handle::D(r) => Handle::D(r.clone()),
        }
    }
    /// `to_dyn!(Bump, clone of the handle)`
    fn to_dyn(&self) -> Handle {
        match self {
            Handle::C(r) => Handle::D(to_dyn!(Bump, r.clone())),
            Handle::D(r) => Handle::D(to_dyn!(Bump, r.clone())),
        }
    }
    /// `to_dyn!(Bump, <the handle itself, MOVED out of its slot inside the macro argument>)`
    fn into_dyn(slot: &mut Option<Handle>) -> Handle {
        match slot.as_ref().expect("handle numbers were checked while parsing") {
            Handle::C(_) => Handle::D(to_dyn!(
                Bump,
                match slot.take().unwrap() {
                    Handle::C(r) => r,
                    Handle::D(_) => unreachable!(),
                }
            )),
            Handle::D(_) => Handle::D(to_dyn!(
                Bump,
                match slot.take().unwrap() {
                    Handle::D(r) => r,
                    Handle::C(_) => unreachable!(),
                }
            )),
        }
    }
    /// A raw-pointer `Reference` to the same object, made the way `unsafe` user code makes one; takes no share of a count.
    fn raw_alias(&self) -> Handle {
        match self {
            Handle::C(r) => Handle::C(raw_of(r.clone())),
            Handle::D(r) => Handle::D(raw_of(r.clone())),
        }
    }
    /// `self.clone_from(source)`; both must have the same static type (checked while parsing).
    fn clone_from_handle(&mut self, source: &Handle) {
        match (self, source) {
            (Handle::C(a), Handle::C(b)) => a.clone_from(b),
            (Handle::D(a), Handle::D(b)) => a.clone_from(b),
            _ => unreachable!("static types were checked while parsing"),
        }
    }
    /// A borrow that the caller keeps alive (`hr` / `hm` … `hx`).
    fn hold(&self, mutable: bool) -> Guard<'_> {
        match (self, mutable) {
            (Handle::C(r), false) => Guard::C(r.borrow()),
            (Handle::D(r), false) => Guard::D(r.borrow()),
            (Handle::C(r), true) => Guard::Cm(r.borrow_mut()),
            (Handle::D(r), true) => Guard::Dm(r.borrow_mut()),
        }
    }
    fn read(&self) -> i64 {
        match self {
            Handle::C(r) => r.borrow().get(),
            Handle::D(r) => r.borrow().get(),
        }
    }
    fn write(&self, v: i64) {
        match self {
            Handle::C(r) => r.borrow_mut().put(v),
            Handle::D(r) => r.borrow_mut().put(v),
        }
    }
    fn inc(&self) {
        match self {
            Handle::C(r) => {
                let mut b = r.borrow_mut();
                let v = b.get();
                b.put(v + 1);
            }
            Handle::D(r) => {
                let mut b = r.borrow_mut();
                let v = b.get();
                b.put(v + 1);
            }
        }
    }
}

#[allow(dead_code)]
enum Guard<'a> {
    C(rrtk::reference::Borrow<'a, Cell>),
    D(rrtk::reference::Borrow<'a, dyn Bump>),
    Cm(rrtk::reference::BorrowMut<'a, Cell>),
    Dm(rrtk::reference::BorrowMut<'a, dyn Bump>),
}

/// See [`Handle::raw_alias`]. The temporary clone that is taken apart here is dropped again before returning.
fn raw_of<T: ?Sized>(r: Reference<T>) -> Reference<T> {
    use rrtk::reference::ReferenceUnsafe;
    // (through `From<Reference<T>> for ReferenceUnsafe<T>`; `to_dyn!` takes the other route, `into_inner`)
    let unwrapped: ReferenceUnsafe<T> = r.into();
    match unwrapped {
        ReferenceUnsafe::Ptr(p) => unsafe { Reference::from_ptr(p) },
        #[cfg(feature = "alloc")]
        ReferenceUnsafe::RcRefCell(rc) => unsafe { Reference::from_ptr(rc.as_ptr()) },
        #[cfg(feature = "std")]
        ReferenceUnsafe::PtrRwLock(p) => unsafe { Reference::from_ptr_rw_lock(p) },
        #[cfg(feature = "std")]
        ReferenceUnsafe::PtrMutex(p) => unsafe { Reference::from_ptr_mutex(p) },
        #[cfg(feature = "std")]
        ReferenceUnsafe::ArcRwLock(a) => unsafe { Reference::from_ptr_rw_lock(Arc::as_ptr(&a)) },
        #[cfg(feature = "std")]
        ReferenceUnsafe::ArcMutex(a) => unsafe { Reference::from_ptr_mutex(Arc::as_ptr(&a)) },
        // (the enum is `#[non_exhaustive]`)
        _ => unimplemented!("a Reference variant this harness does not know"),
    }
}

/// Whether this build has the variant (`rc` needs `alloc`, the lock variants need `std`).
fn available(variant: &str) -> bool {
    match variant {
        "ptr" => true,
        "rc" => cfg!(feature = "alloc"),
        "prw" | "pmx" | "arw" | "amx" => cfg!(feature = "std"),
        _ => false,
    }
}
/// The first `Reference<Cell>` of the given variant, and the harness's clone of the drop flag.
fn make(variant: &str) -> R<(Reference<Cell>, Arc<AtomicBool>)> {
    let (cell, flag) = new_cell();
    let r = match variant {
        "ptr" => unsafe { Reference::from_ptr(Box::leak(Box::new(cell)) as *mut Cell) },
        #[cfg(feature = "alloc")]
        "rc" => rc_ref_cell_reference(cell),
        #[cfg(feature = "std")]
        "prw" => unsafe {
            Reference::from_ptr_rw_lock(Box::leak(Box::new(RwLock::new(cell))) as *const RwLock<Cell>)
        },
        #[cfg(feature = "std")]
        "pmx" => unsafe { Reference::from_ptr_mutex(Box::leak(Box::new(Mutex::new(cell))) as *const Mutex<Cell>) },
        #[cfg(feature = "std")]
        "arw" => arc_rw_lock_reference(cell),
        #[cfg(feature = "std")]
        "amx" => arc_mutex_reference(cell),
        _ => {
            // Nothing was built from it; do not let this drop count as the target's.
            core::mem::forget(cell);
            return Err(NoImpl);
        }
    };
    Ok((r, flag))
}

enum Ev {
    Cl(usize),
    Dy(usize),
    Rd(usize),
    Wr(usize, i64),
    Inc(usize),
    Dr(usize),
    Live,
    /// `dm:<h>`: `to_dyn!` of the handle itself, moved out of its slot inside the macro argument
    Dm(usize),
    /// `al:<h>`: a raw-pointer alias of the object (no share of the count)
    Al(usize),
    /// `cf:<i>:<j>`: `handle_i.clone_from(&handle_j)`
    Cf(usize, usize),
    /// `hr:<h>` / `hm:<h>`: take an immutable / a mutable borrow through (a clone of) handle h and KEEP it until the matching `hx`
    /// (`rc` only: a `RefCell` answers a conflicting borrow with a panic; a lock would block, a raw pointer checks nothing)
    Hold(usize, bool),
    Hx,
}
/// Parse the events, simulating which handles exist (`None` once dropped or moved out of), whether each one OWNS a share of
/// the target (the counted variants' own handles do, raw aliases do not) and whether it is a `dyn` handle. A line that would
/// touch the target after its last owner is gone — possible only through a raw alias — or that names a dead handle, or that
/// asks for `clone_from` between a `dyn` and a concrete handle (or a handle and itself), is `BADLINE`: nothing of it runs.
fn p_events(toks: &[&str], counted: bool, is_rc: bool) -> R<Vec<Ev>> {
    #[derive(Clone, Copy)]
    struct H {
        owning: bool,
        dynamic: bool,
    }
    let mut hs: Vec<Option<H>> = vec![Some(H {
        owning: counted,
        dynamic: false,
    })];
    let mut freed = false;
    // handles with a borrow held through them (innermost last); while any is held, raw aliases may not be used for access
    let mut held: Vec<usize> = Vec::new();
    let mut events = Vec::with_capacity(toks.len());
    fn handle(t: &str, hs: &Vec<Option<H>>) -> R<(usize, H)> {
        let h = p_usize(t)?;
        match hs.get(h).copied().flatten() {
            Some(x) => Ok((h, x)),
            None => Err(Bad),
        }
    }
    fn drop_one(x: H, hs: &Vec<Option<H>>, counted: bool, freed: &mut bool) {
        if counted && x.owning && !hs.iter().flatten().any(|y| y.owning) {
            *freed = true;
        }
    }
    for t in toks {
        let ev = if let Some(r) = t.strip_prefix("cl:") {
            let (h, x) = handle(r, &hs)?;
            hs.push(Some(x));
            Ev::Cl(h)
        } else if let Some(r) = t.strip_prefix("dy:") {
            let (h, x) = handle(r, &hs)?;
            hs.push(Some(H { dynamic: true, ..x }));
            Ev::Dy(h)
        } else if let Some(r) = t.strip_prefix("hr:").or_else(|| t.strip_prefix("hm:")) {
            if !is_rc {
                return Err(NoImpl);
            }
            let (h, x) = handle(r, &hs)?;
            if !x.owning || freed {
                return Err(Bad);
            }
            held.push(h);
            Ev::Hold(h, t.starts_with("hm:"))
        } else if *t == "hx" {
            if held.pop().is_none() {
                return Err(Bad);
            }
            Ev::Hx
        } else if let Some(r) = t.strip_prefix("dm:") {
            let (h, x) = handle(r, &hs)?;
            if held.contains(&h) {
                return Err(Bad);
            }
            hs[h] = None;
            hs.push(Some(H { dynamic: true, ..x }));
            Ev::Dm(h)
        } else if let Some(r) = t.strip_prefix("al:") {
            let (h, x) = handle(r, &hs)?;
            if freed {
                return Err(Bad);
            }
            hs.push(Some(H { owning: false, ..x }));
            Ev::Al(h)
        } else if let Some(r) = t.strip_prefix("cf:") {
            let (i, j) = r.split_once(':').ok_or(Bad)?;
            let (i, old) = handle(i, &hs)?;
            let (j, src) = handle(j, &hs)?;
            if i == j || old.dynamic != src.dynamic || held.contains(&i) {
                return Err(Bad);
            }
            hs[i] = Some(src);
            drop_one(old, &hs, counted, &mut freed);
            Ev::Cf(i, j)
        } else if let Some(r) = t.strip_prefix("rd:") {
            if freed || (!held.is_empty() && !handle(r, &hs)?.1.owning) {
                return Err(Bad);
            }
            Ev::Rd(handle(r, &hs)?.0)
        } else if let Some(r) = t.strip_prefix("wr:") {
            let (h, v) = r.split_once(':').ok_or(Bad)?;
            if freed || (!held.is_empty() && !handle(h, &hs)?.1.owning) {
                return Err(Bad);
            }
            Ev::Wr(handle(h, &hs)?.0, p_i64(v)?)
        } else if let Some(r) = t.strip_prefix("inc:") {
            if freed || (!held.is_empty() && !handle(r, &hs)?.1.owning) {
                return Err(Bad);
            }
            Ev::Inc(handle(r, &hs)?.0)
        } else if let Some(r) = t.strip_prefix("dr:") {
            let (h, x) = handle(r, &hs)?;
            if held.contains(&h) {
                return Err(Bad);
            }
            hs[h] = None;
            drop_one(x, &hs, counted, &mut freed);
            Ev::Dr(h)
        } else if *t == "live" {
            Ev::Live
        } else {
            return Err(Bad);
        };
        events.push(ev);
    }
    Ok(events)
}

/// Handle numbers were checked while parsing.
fn at(handles: &[Option<Handle>], h: usize) -> &Handle {
    handles[h].as_ref().expect("handle numbers were checked while parsing")
}
/// Run events from `*pos` on; a `Hold` keeps its guard alive in this frame and runs what follows in a nested frame, which the
/// matching `Hx` (or the end of the line) ends.
fn run_events(evs: &[Ev], pos: &mut usize, handles: &mut Vec<Option<Handle>>, flag: &Arc<AtomicBool>, out: &mut Vec<String>, depth: usize) {
    while *pos < evs.len() {
        let ev = &evs[*pos];
        *pos += 1;
        let tok = match ev {
            Ev::Hold(h, mutable) => {
                let through = at(handles, *h).duplicate();
                let guard = through.hold(*mutable);
                out.push(dash());
                run_events(evs, pos, handles, flag, out, depth + 1);
                drop(guard);
                continue;
            }
            Ev::Hx => {
                out.push(dash());
                if depth > 0 {
                    return;
                }
                continue;
            }
            Ev::Cl(h) => {
                let n = at(handles, *h).duplicate();
                handles.push(Some(n));
                dash()
            }
            Ev::Dy(h) => {
                let n = at(handles, *h).to_dyn();
                handles.push(Some(n));
                dash()
            }
            Ev::Rd(h) => f_rawi(at(handles, *h).read()),
            Ev::Wr(h, v) => {
                at(handles, *h).write(*v);
                dash()
            }
            Ev::Inc(h) => {
                at(handles, *h).inc();
                dash()
            }
            Ev::Dr(h) => {
                handles[*h] = None;
                dash()
            }
            Ev::Live => (!flag.load(Ordering::SeqCst)).enc(),
            Ev::Dm(h) => {
                let n = Handle::into_dyn(&mut handles[*h]);
                handles.push(Some(n));
                dash()
            }
            Ev::Al(h) => {
                let n = at(handles, *h).raw_alias();
                handles.push(Some(n));
                dash()
            }
            Ev::Cf(i, j) => {
                let source = at(handles, *j).duplicate();
                let target = handles[*i].as_mut().expect("handle numbers were checked while parsing");
                target.clone_from_handle(&source);
                drop(source);
                dash()
            }
        };
        out.push(tok);
    }
}

fn events(toks: &[&str], out: &mut Vec<String>) -> R<()> {
    let variant = toks[1];
    if !available(variant) {
        return Err(NoImpl);
    }
    let evs = p_events(&toks[2..], matches!(variant, "rc" | "arw" | "amx"), variant == "rc")?;
    let (first, flag) = make(variant)?;
    let mut handles: Vec<Option<Handle>> = vec![Some(Handle::C(first))];
    let mut pos = 0;
    run_events(&evs, &mut pos, &mut handles, &flag, out, 0);
    Ok(())
}

// ---------------------------------------------------------------- rf thr

/// More threads / increments than this on one line is `NOIMPL`.
#[cfg(feature = "std")]
const MAX_THREADS: usize = 64;
#[cfg(feature = "std")]
const MAX_INCS: usize = 10_000_000;

/// What the threads share: the one `Arc`, or the address of the one leaked lock. Every thread builds its own
/// `Reference` from it (`Reference` itself is not `Send`).
#[cfg(feature = "std")]
#[derive(Clone)]
enum Shared {
    Arw(Arc<RwLock<Cell>>),
    Amx(Arc<Mutex<Cell>>),
    Prw(SendPtr<RwLock<Cell>>),
    Pmx(SendPtr<Mutex<Cell>>),
}
#[cfg(feature = "std")]
struct SendPtr<T>(*const T);
#[cfg(feature = "std")]
impl<T> Clone for SendPtr<T> {
    fn clone(&self) -> Self {
        SendPtr(self.0)
    }
}
// The pointee is a leaked (hence `'static`) lock around a `Send + Sync` cell.
#[cfg(feature = "std")]
unsafe impl<T: Sync> Send for SendPtr<T> {}
#[cfg(feature = "std")]
impl Shared {
    fn reference(&self) -> Reference<Cell> {
        match self {
            Shared::Arw(a) => Reference::from_arc_rw_lock(a.clone()),
            Shared::Amx(a) => Reference::from_arc_mutex(a.clone()),
            Shared::Prw(p) => unsafe { Reference::from_ptr_rw_lock(p.0) },
            Shared::Pmx(p) => unsafe { Reference::from_ptr_mutex(p.0) },
        }
    }
}
#[cfg(feature = "std")]
fn thr(toks: &[&str], out: &mut Vec<String>) -> R<()> {
    want(toks, 5)?;
    let variant = toks[2];
    if !matches!(variant, "arw" | "amx" | "prw" | "pmx") {
        return Err(NoImpl);
    }
    let threads = p_usize(toks[3])?;
    let k = p_usize(toks[4])?;
    if threads > MAX_THREADS || k > MAX_INCS {
        return Err(NoImpl);
    }
    let (cell, _flag) = new_cell();
    let shared = match variant {
        "arw" => Shared::Arw(Arc::new(RwLock::new(cell))),
        "amx" => Shared::Amx(Arc::new(Mutex::new(cell))),
        "prw" => Shared::Prw(SendPtr(Box::leak(Box::new(RwLock::new(cell))) as *const RwLock<Cell>)),
        _ => Shared::Pmx(SendPtr(Box::leak(Box::new(Mutex::new(cell))) as *const Mutex<Cell>)),
    };
    let mut joins = Vec::with_capacity(threads);
    for _ in 0..threads {
        let mine = shared.clone();
        joins.push(std::thread::spawn(move || {
            let r = mine.reference();
            let h = Handle::C(r);
            for _ in 0..k {
                h.inc();
            }
        }));
    }
    let mut panicked = None;
    for j in joins {
        if let Err(payload) = j.join() {
            panicked.get_or_insert(payload);
        }
    }
    if let Some(payload) = panicked {
        std::panic::resume_unwind(payload);
    }
    let v = shared.reference().borrow().get();
    out.push(f_rawi(v));
    Ok(())
}
#[cfg(not(feature = "std"))]
fn thr(_toks: &[&str], _out: &mut Vec<String>) -> R<()> {
    Err(NoImpl)
}

/// `rf excl <amx|arw>`: does a mutable borrow really hold the lock?  The `Reference` under test is the ONLY strong owner of its
/// `Arc` (another thread gets in through a `Weak`); while the main thread keeps `borrow_mut()` alive, the other thread's
/// `borrow_mut()` must block.  Prints `<the other thread did NOT get in early>;<final counter>` = `true;I:2`.
#[cfg(feature = "std")]
fn excl(toks: &[&str], out: &mut Vec<String>) -> R<()> {
    want(toks, 3)?;
    let variant = toks[2];
    if !matches!(variant, "amx" | "arw") {
        return Err(NoImpl);
    }
    let (cell, _flag) = new_cell();
    let entered = Arc::new(AtomicBool::new(false));
    let e2 = entered.clone();
    let (r, join): (Reference<Cell>, Box<dyn FnOnce() -> std::thread::JoinHandle<()>>) = if variant == "amx" {
        let arc = Arc::new(Mutex::new(cell));
        let weak = Arc::downgrade(&arc);
        (
            Reference::from_arc_mutex(arc),
            Box::new(move || {
                std::thread::spawn(move || {
                    let r2 = Reference::from_arc_mutex(weak.upgrade().expect("the main thread keeps the target alive"));
                    let mut b = r2.borrow_mut();
                    e2.store(true, Ordering::SeqCst);
                    let v = b.get();
                    b.put(v + 1);
                })
            }),
        )
    } else {
        let arc = Arc::new(RwLock::new(cell));
        let weak = Arc::downgrade(&arc);
        (
            Reference::from_arc_rw_lock(arc),
            Box::new(move || {
                std::thread::spawn(move || {
                    let r2 = Reference::from_arc_rw_lock(weak.upgrade().expect("the main thread keeps the target alive"));
                    let mut b = r2.borrow_mut();
                    e2.store(true, Ordering::SeqCst);
                    let v = b.get();
                    b.put(v + 1);
                })
            }),
        )
    };
    let early;
    let handle;
    {
        let mut guard = r.borrow_mut();
        handle = join();
        std::thread::sleep(std::time::Duration::from_millis(80));
        early = entered.load(Ordering::SeqCst);
        let v = guard.get();
        guard.put(v + 1);
    }
    if let Err(payload) = handle.join() {
        std::panic::resume_unwind(payload);
    }
    let v = r.borrow().get();
    out.push(format!("{};{}", (!early).enc(), f_rawi(v)));
    Ok(())
}
#[cfg(not(feature = "std"))]
fn excl(_toks: &[&str], _out: &mut Vec<String>) -> R<()> {
    Err(NoImpl)
}

pub fn run(toks: &[&str], out: &mut Vec<String>) -> R<()> {
    let op = toks.get(1).copied().ok_or(NoImpl)?;
    match op {
        "thr" => thr(toks, out),
        "excl" => excl(toks, out),
        _ => events(toks, out),
    }
}
