//! Group `se` — `Settable` bookkeeping, following, `ConstantGetter`, `GetterFromHistory`.
//!
//! All events of a line are parsed before anything runs, so a line is either `BADLINE` or a run.
use crate::enc::*;
use crate::script::*;
use rrtk::*;

fn dash() -> String {
    "-".to_string()
}
/// `+`-joined values, or `-` when there are none.
pub fn join_plus<T: Enc>(v: &[T]) -> String {
    if v.is_empty() {
        dash()
    } else {
        v.iter().map(|x| x.enc()).collect::<Vec<_>>().join("+")
    }
}

// ---------------------------------------------------------------- se rec / se cg

enum Ev {
    Set(f32),
    Acc(NothingOrError<E>),
    Lr,
    Fol,
    Fol2,
    Unfol,
    Gs(Output<f32, E>),
    Gs2(Output<f32, E>),
    Upd,
    Clk(TimeOutput<E>),
    Get,
}
/// Events shared by `rec` and `cg` (`fol`/`gs:` = first scripted getter, `fol2`/`gs2:` = second one); `acc:` exists only for `rec`, `clk:`/`get` only for `cg`.
fn p_ev(t: &str, is_rec: bool) -> R<Ev> {
    if let Some(r) = t.strip_prefix("set:") {
        Ok(Ev::Set(p_f32(r)?))
    } else if let Some(r) = t.strip_prefix("gs:") {
        Ok(Ev::Gs(Output::<f32, E>::dec(r)?))
    } else if let Some(r) = t.strip_prefix("gs2:") {
        Ok(Ev::Gs2(Output::<f32, E>::dec(r)?))
    } else if let Some(r) = t.strip_prefix("acc:") {
        if !is_rec {
            return Err(Bad);
        }
        Ok(Ev::Acc(NothingOrError::<E>::dec(r)?))
    } else if let Some(r) = t.strip_prefix("clk:") {
        if is_rec {
            return Err(Bad);
        }
        Ok(Ev::Clk(TimeOutput::<E>::dec(r)?))
    } else {
        match t {
            "lr" => Ok(Ev::Lr),
            "fol" => Ok(Ev::Fol),
            "fol2" => Ok(Ev::Fol2),
            "unfol" => Ok(Ev::Unfol),
            "upd" => Ok(Ev::Upd),
            "get" if !is_rec => Ok(Ev::Get),
            _ => Err(Bad),
        }
    }
}

fn rec(toks: &[&str], out: &mut Vec<String>) -> R<()> {
    let events = toks[2..].iter().map(|t| p_ev(t, true)).collect::<R<Vec<Ev>>>()?;
    let script = mk::<f32>(Ok(None));
    let script2 = mk::<f32>(Ok(None));
    let mut r = Rec::<f32>::new();
    let st = r.st.clone();
    for ev in events {
        let tok = match ev {
            Ev::Set(v) => r.set(v).enc(),
            Ev::Acc(n) => {
                st.borrow_mut().next = n;
                dash()
            }
            Ev::Lr => r.get_last_request().enc(),
            Ev::Fol => {
                r.follow(as_dyn(&script));
                dash()
            }
            Ev::Fol2 => {
                r.follow(as_dyn(&script2));
                dash()
            }
            Ev::Unfol => {
                r.stop_following();
                dash()
            }
            Ev::Gs(o) => {
                set(&script, o);
                dash()
            }
            Ev::Gs2(o) => {
                set(&script2, o);
                dash()
            }
            Ev::Upd => {
                st.borrow_mut().got.clear();
                let ret = r.update();
                format!("{};{}", ret.enc(), join_plus(&st.borrow().got))
            }
            Ev::Clk(_) | Ev::Get => return Err(Bad),
        };
        out.push(tok);
    }
    Ok(())
}

fn cg(toks: &[&str], out: &mut Vec<String>) -> R<()> {
    want_min(toks, 4)?;
    let initial = p_f32(toks[2])?;
    let clock0 = TimeOutput::<E>::dec(toks[3])?;
    let events = toks[4..].iter().map(|t| p_ev(t, false)).collect::<R<Vec<Ev>>>()?;
    let script = mk::<f32>(Ok(None));
    let script2 = mk::<f32>(Ok(None));
    let clock = mk_time(clock0);
    let mut g = ConstantGetter::<f32, ScriptTime, E>::new(clock.clone(), initial);
    for ev in events {
        let tok = match ev {
            Ev::Clk(t) => {
                clock.borrow_mut().cur = t;
                dash()
            }
            Ev::Get => g.get().enc(),
            Ev::Set(v) => g.set(v).enc(),
            Ev::Lr => g.get_last_request().enc(),
            Ev::Fol => {
                g.follow(as_dyn(&script));
                dash()
            }
            Ev::Fol2 => {
                g.follow(as_dyn(&script2));
                dash()
            }
            Ev::Unfol => {
                g.stop_following();
                dash()
            }
            Ev::Gs(o) => {
                set(&script, o);
                dash()
            }
            Ev::Gs2(o) => {
                set(&script2, o);
                dash()
            }
            Ev::Upd => g.update().enc(),
            Ev::Acc(_) => return Err(Bad),
        };
        out.push(tok);
    }
    Ok(())
}

// ---------------------------------------------------------------- se gfh

/// `History<f32, u8>`: nothing before `lo`, afterwards the queried time itself as the value (`t.0 as f32`).
/// The datum it returns is deliberately stamped with a DIFFERENT time (the query time rounded down to a multiple of 16,
/// minus 5, like a sampled log returning its nearest earlier sample): `GetterFromHistory` must restamp with the clock
/// reading, not derive the stamp from the history's datum.
struct Hist {
    lo: Time,
}
impl History<f32, E> for Hist {
    fn get(&self, time: Time) -> Option<Datum<f32>> {
        if time < self.lo {
            None
        } else {
            Some(Datum::new(Time(time.0.div_euclid(16).wrapping_mul(16).wrapping_sub(5)), time.0 as f32))
        }
    }
}
impl Updatable<E> for Hist {
    fn update(&mut self) -> NothingOrError<E> {
        Ok(())
    }
}
enum Ctor {
    NoDelta,
    Zero,
    Start(i64),
    Delta(i64),
}
enum GEv {
    Clk(TimeOutput<E>),
    Get,
    Sd(i64),
    St(i64),
    Upd,
}
fn p_gev(t: &str) -> R<GEv> {
    if let Some(r) = t.strip_prefix("clk:") {
        Ok(GEv::Clk(TimeOutput::<E>::dec(r)?))
    } else if let Some(r) = t.strip_prefix("sd:") {
        Ok(GEv::Sd(p_i64(r)?))
    } else if let Some(r) = t.strip_prefix("st:") {
        Ok(GEv::St(p_i64(r)?))
    } else {
        match t {
            "get" => Ok(GEv::Get),
            "upd" => Ok(GEv::Upd),
            _ => Err(Bad),
        }
    }
}
fn gfh(toks: &[&str], out: &mut Vec<String>) -> R<()> {
    want_min(toks, 5)?;
    let lo = p_i64(toks[2])?;
    let ctor = if let Some(r) = toks[3].strip_prefix("start:") {
        Ctor::Start(p_i64(r)?)
    } else if let Some(r) = toks[3].strip_prefix("delta:") {
        Ctor::Delta(p_i64(r)?)
    } else {
        match toks[3] {
            "nodelta" => Ctor::NoDelta,
            "zero" => Ctor::Zero,
            _ => return Err(NoImpl),
        }
    };
    let clock0 = TimeOutput::<E>::dec(toks[4])?;
    let events = toks[5..].iter().map(|t| p_gev(t)).collect::<R<Vec<GEv>>>()?;

    let mut hist = Hist { lo: Time(lo) };
    let clock = mk_time(clock0);
    type G<'a> = GetterFromHistory<'a, f32, ScriptTime, E>;
    let made: Result<G<'_>, Error<E>> = match ctor {
        Ctor::NoDelta => Ok(G::new_no_delta(&mut hist, clock.clone())),
        Ctor::Zero => G::new_start_at_zero(&mut hist, clock.clone()),
        Ctor::Start(s) => G::new_custom_start(&mut hist, clock.clone(), Time(s)),
        Ctor::Delta(d) => Ok(G::new_custom_delta(&mut hist, clock.clone(), Time(d))),
    };
    let mut g = match made {
        Ok(g) => {
            out.push("ctor:ok".to_string());
            g
        }
        Err(e) => {
            out.push(format!("ctor:{}", f_err(&e)));
            return Ok(());
        }
    };
    for ev in events {
        let tok = match ev {
            GEv::Clk(t) => {
                clock.borrow_mut().cur = t;
                dash()
            }
            GEv::Get => g.get().enc(),
            GEv::Sd(d) => {
                g.set_delta(Time(d));
                dash()
            }
            GEv::St(t) => g.set_time(Time(t)).enc(),
            GEv::Upd => g.update().enc(),
        };
        out.push(tok);
    }
    Ok(())
}

pub fn run(toks: &[&str], out: &mut Vec<String>) -> R<()> {
    let op = toks.get(1).copied().ok_or(NoImpl)?;
    match op {
        "rec" => rec(toks, out),
        "cg" => cg(toks, out),
        "gfh" => gfh(toks, out),
        _ => Err(NoImpl),
    }
}
