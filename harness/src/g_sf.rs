//! Group `sf` — raw binary32 arithmetic of the CPU / rustc (`f32` `+ - * /`, `i64 as f32`, `f32 as i64`), compared with the
//! kernel-transparent rounding model `Rrtk.Soft.rne32` (and with Lean's `Float32`) by the driver. No rrtk API is involved:
//! this ties the *rounding function the C18 accuracy theorems are about* to the arithmetic the crate actually runs on.
use crate::enc::*;

pub fn run(toks: &[&str], out: &mut Vec<String>) -> R<()> {
    match tok(toks, 1)? {
        op @ ("add" | "sub" | "mul" | "div") => {
            want(toks, 4)?;
            let a = p_f32(toks[2])?;
            let b = p_f32(toks[3])?;
            // outside the modelled fragment: non-finite operand, division by zero
            if !a.is_finite() || !b.is_finite() || (op == "div" && b == 0.0) {
                out.push("skip".to_string());
                return Ok(());
            }
            let r = match op {
                "add" => a + b,
                "sub" => a - b,
                "mul" => a * b,
                _ => a / b,
            };
            out.push(f_f32(r));
            Ok(())
        }
        "ofint" => {
            want(toks, 3)?;
            let n = p_i64(toks[2])?;
            out.push(f_f32(n as f32));
            Ok(())
        }
        "toint" => {
            want(toks, 3)?;
            let a = p_f32(toks[2])?;
            out.push(format!("{}", a as i64));
            Ok(())
        }
        _ => Err(NoImpl),
    }
}
