//! Group `ss` — stateful streams. One output token per event: `<update ret>/<get>[!impure]`.
//!
//! All events of a line are parsed before the stream is built, so a line is either `BADLINE` or a run.
use crate::enc::*;
use crate::script::*;
use rrtk::streams::control::*;
use rrtk::streams::converters::*;
use rrtk::streams::flow::*;
use rrtk::streams::math::*;
use rrtk::*;

/// `get()` twice; the second result is only used to detect impurity.
fn get2<O: Enc, S: Getter<O, E> + ?Sized>(stream: &S) -> String {
    let g1 = stream.get().enc();
    let g2 = stream.get().enc();
    if g1 == g2 {
        g1
    } else {
        format!("{}!impure", g1)
    }
}
fn p_events<T: Val>(toks: &[&str]) -> R<Vec<Output<T, E>>> {
    toks.iter().map(|t| Output::<T, E>::dec(t)).collect()
}
/// The per-event procedure of PROTOCOL.md for a stream with a single scripted input.
fn drive<T: Val, O: Enc, S: Getter<O, E>>(
    stream: &mut S,
    input: &Reference<Script<T>>,
    events: Vec<Output<T, E>>,
    out: &mut Vec<String>,
) {
    for ev in events {
        set(input, ev);
        let ret = stream.update();
        let mut got = get2::<O, S>(stream);
        // A stateful stream latches at `update()`: what its input returns AFTERWARDS must not show through `get()`.
        // Disturb the input (an error no event ever carries), read again, and flag a difference like an impure read.
        set(input, Err(Error::Other(222)));
        let after = stream.get().enc();
        if !got.ends_with("!impure") && after != got {
            got = format!("{}!impure", got);
        }
        out.push(format!("{}/{}", ret.enc(), got));
    }
}

fn pid(toks: &[&str], out: &mut Vec<String>) -> R<()> {
    want_min(toks, 6)?;
    let setpoint = p_f32(toks[2])?;
    let k = PIDKValues::new(p_f32(toks[3])?, p_f32(toks[4])?, p_f32(toks[5])?);
    let events = p_events::<f32>(&toks[6..])?;
    let input = mk::<f32>(Ok(None));
    let mut s = PIDControllerStream::<Script<f32>, E>::new(input.clone(), setpoint, k);
    drive::<f32, f32, _>(&mut s, &input, events, out);
    Ok(())
}
/// `ss spid`: the PID controller assembled from the crate's own streams, wired as in `examples/pid.rs`
/// (TimeGetterFromGetter over the input, ConstantGetters for setpoint and gains, Difference -> Integral / Derivative ->
/// NoneToValue(0) -> Product with the gain -> QuantityToFloat -> Sum of the three). Every stateful node is updated on
/// every round (the example's `?` chain would stop at the first error); the first error is returned.
fn spid(toks: &[&str], out: &mut Vec<String>) -> R<()> {
    want_min(toks, 6)?;
    type DQ = dyn Getter<Quantity, E>;
    let sp = Quantity::new(p_f32(toks[2])?, MILLIMETER);
    let kp = Quantity::dimensionless(p_f32(toks[3])?);
    let ki = Quantity::dimensionless(p_f32(toks[4])?);
    let kd = Quantity::dimensionless(p_f32(toks[5])?);
    let events = p_events::<Quantity>(&toks[6..])?;
    let input_s = mk::<Quantity>(Ok(None));
    let input: Reference<DQ> = as_dyn(&input_s);
    let time_getter = rc_ref_cell_reference(TimeGetterFromGetter::<Quantity, DQ, E>::new(input.clone()));
    let setpoint = rc_ref_cell_reference(ConstantGetter::new(time_getter.clone(), sp));
    let kp = rc_ref_cell_reference(ConstantGetter::new(time_getter.clone(), kp));
    let ki = rc_ref_cell_reference(ConstantGetter::new(time_getter.clone(), ki));
    let kd = rc_ref_cell_reference(ConstantGetter::new(time_getter.clone(), kd));
    let error = rc_ref_cell_reference(DifferenceStream::new(setpoint.clone(), input.clone()));
    let int = rc_ref_cell_reference(IntegralStream::new(error.clone()));
    let drv = rc_ref_cell_reference(DerivativeStream::new(error.clone()));
    let int_zeroer = rc_ref_cell_reference(NoneToValue::new(
        int.clone(),
        time_getter.clone(),
        Quantity::new(0.0, MILLIMETER),
    ));
    let drv_zeroer = rc_ref_cell_reference(NoneToValue::new(
        drv.clone(),
        time_getter.clone(),
        Quantity::new(0.0, MILLIMETER),
    ));
    let kp_mul = rc_ref_cell_reference(ProductStream::new([
        to_dyn!(Getter<Quantity, E>, kp.clone()),
        to_dyn!(Getter<Quantity, E>, error.clone()),
    ]));
    let pro_f = rc_ref_cell_reference(QuantityToFloat::new(kp_mul));
    let ki_mul = rc_ref_cell_reference(ProductStream::new([
        to_dyn!(Getter<Quantity, E>, ki.clone()),
        to_dyn!(Getter<Quantity, E>, int_zeroer.clone()),
    ]));
    let int_f = rc_ref_cell_reference(QuantityToFloat::new(ki_mul));
    let kd_mul = rc_ref_cell_reference(ProductStream::new([
        to_dyn!(Getter<Quantity, E>, kd.clone()),
        to_dyn!(Getter<Quantity, E>, drv_zeroer.clone()),
    ]));
    let drv_f = rc_ref_cell_reference(QuantityToFloat::new(kd_mul));
    let output = SumStream::new([
        to_dyn!(Getter<f32, E>, pro_f.clone()),
        to_dyn!(Getter<f32, E>, int_f.clone()),
        to_dyn!(Getter<f32, E>, drv_f.clone()),
    ]);
    for ev in events {
        set(&input_s, ev);
        // one statement per update: the `BorrowMut` temporaries must be dropped before the next node reads this one
        let r1 = int.borrow_mut().update();
        let r2 = drv.borrow_mut().update();
        let r3 = pro_f.borrow_mut().update();
        let r4 = int_f.borrow_mut().update();
        let r5 = drv_f.borrow_mut().update();
        let rets = [r1, r2, r3, r4, r5];
        let ret: NothingOrError<E> = rets.iter().cloned().find(|r| r.is_err()).unwrap_or(Ok(()));
        let got = get2::<f32, _>(&output);
        out.push(format!("{}/{}", ret.enc(), got));
    }
    Ok(())
}
fn ewma(toks: &[&str], out: &mut Vec<String>) -> R<()> {
    want_min(toks, 4)?;
    if !matches!(toks[2], "f" | "q") {
        return Err(NoImpl);
    }
    let smoothing = p_f32(toks[3])?;
    match toks[2] {
        "f" => {
            let events = p_events::<f32>(&toks[4..])?;
            let input = mk::<f32>(Ok(None));
            let mut s = EWMAStream::<f32, Script<f32>, E>::new(input.clone(), smoothing);
            drive::<f32, f32, _>(&mut s, &input, events, out);
        }
        "q" => {
            let events = p_events::<Quantity>(&toks[4..])?;
            let input = mk::<Quantity>(Ok(None));
            let mut s = EWMAStream::<Quantity, Script<Quantity>, E>::new(input.clone(), smoothing);
            drive::<Quantity, Quantity, _>(&mut s, &input, events, out);
        }
        _ => return Err(NoImpl),
    }
    Ok(())
}
fn ma(toks: &[&str], out: &mut Vec<String>) -> R<()> {
    want_min(toks, 4)?;
    if !matches!(toks[2], "f" | "q") {
        return Err(NoImpl);
    }
    let window = Time(p_i64(toks[3])?);
    match toks[2] {
        "f" => {
            let events = p_events::<f32>(&toks[4..])?;
            let input = mk::<f32>(Ok(None));
            let mut s = MovingAverageStream::<f32, Script<f32>, E>::new(input.clone(), window);
            drive::<f32, f32, _>(&mut s, &input, events, out);
        }
        "q" => {
            let events = p_events::<Quantity>(&toks[4..])?;
            let input = mk::<Quantity>(Ok(None));
            let mut s = MovingAverageStream::<Quantity, Script<Quantity>, E>::new(input.clone(), window);
            drive::<Quantity, Quantity, _>(&mut s, &input, events, out);
        }
        _ => return Err(NoImpl),
    }
    Ok(())
}
/// Streams with one `Output<q>` input and no parameters.
fn q_in(op: &str, toks: &[&str], out: &mut Vec<String>) -> R<()> {
    let events = p_events::<Quantity>(&toks[2..])?;
    let input = mk::<Quantity>(Ok(None));
    type SQ = Script<Quantity>;
    match op {
        "int" => drive::<_, Quantity, _>(&mut IntegralStream::<SQ, E>::new(input.clone()), &input, events, out),
        "drv" => drive::<_, Quantity, _>(&mut DerivativeStream::<SQ, E>::new(input.clone()), &input, events, out),
        "a2s" => drive::<_, State, _>(&mut AccelerationToState::<SQ, E>::new(input.clone()), &input, events, out),
        "v2s" => drive::<_, State, _>(&mut VelocityToState::<SQ, E>::new(input.clone()), &input, events, out),
        "p2s" => drive::<_, State, _>(&mut PositionToState::<SQ, E>::new(input.clone()), &input, events, out),
        "q2f" => drive::<_, f32, _>(&mut QuantityToFloat::<SQ, E>::new(input.clone()), &input, events, out),
        _ => return Err(NoImpl),
    }
    Ok(())
}
fn f2q(toks: &[&str], out: &mut Vec<String>) -> R<()> {
    want_min(toks, 3)?;
    let unit = p_exps(toks[2])?;
    let events = p_events::<f32>(&toks[3..])?;
    let input = mk::<f32>(Ok(None));
    let mut s = FloatToQuantity::<Script<f32>, E>::new(unit, input.clone());
    drive::<f32, Quantity, _>(&mut s, &input, events, out);
    Ok(())
}
fn freeze<T: Val>(toks: &[&str], out: &mut Vec<String>) -> R<()> {
    let mut events = Vec::new();
    for t in &toks[3..] {
        let (c, i) = t.split_once(';').ok_or(Bad)?;
        events.push((Output::<bool, E>::dec(c)?, Output::<T, E>::dec(i)?));
    }
    let cond = mk::<bool>(Ok(None));
    let input = mk::<T>(Ok(None));
    let mut s = FreezeStream::<T, Script<bool>, Script<T>, E>::new(cond.clone(), input.clone());
    for (c, i) in events {
        set(&cond, c);
        set(&input, i);
        let ret = s.update();
        let mut got = get2::<T, _>(&s);
        // freeze returns what its input returned AT THE LAST UPDATE with a false condition: flipping the condition to false and
        // changing the input after the update must not show through `get()`
        set(&cond, Ok(Some(Datum::new(Time(0), false))));
        set(&input, Err(Error::Other(222)));
        let after = s.get().enc();
        if !got.ends_with("!impure") && after != got {
            got = format!("{}!impure", got);
        }
        out.push(format!("{}/{}", ret.enc(), got));
    }
    Ok(())
}

enum CpidEv {
    In(Output<State, E>),
    Set(Command),
    Fol(Output<Command, E>),
    Cs(Output<Command, E>),
    Unfol,
    Reset,
    Lr,
}
fn p_cpid_ev(t: &str) -> R<CpidEv> {
    if let Some(r) = t.strip_prefix("in:") {
        Ok(CpidEv::In(Output::<State, E>::dec(r)?))
    } else if let Some(r) = t.strip_prefix("set:") {
        Ok(CpidEv::Set(Command::dec(r)?))
    } else if let Some(r) = t.strip_prefix("fol:") {
        Ok(CpidEv::Fol(Output::<Command, E>::dec(r)?))
    } else if let Some(r) = t.strip_prefix("cs:") {
        Ok(CpidEv::Cs(Output::<Command, E>::dec(r)?))
    } else {
        match t {
            "unfol" => Ok(CpidEv::Unfol),
            "reset" => Ok(CpidEv::Reset),
            "lr" => Ok(CpidEv::Lr),
            _ => Err(Bad),
        }
    }
}
fn cpid(toks: &[&str], out: &mut Vec<String>) -> R<()> {
    want_min(toks, 12)?;
    let cmd = Command::dec(toks[2])?;
    let mut k = [0.0f32; 9];
    for (i, slot) in k.iter_mut().enumerate() {
        *slot = p_f32(toks[3 + i])?;
    }
    let kvals = PositionDerivativeDependentPIDKValues::new(
        PIDKValues::new(k[0], k[1], k[2]),
        PIDKValues::new(k[3], k[4], k[5]),
        PIDKValues::new(k[6], k[7], k[8]),
    );
    let events = toks[12..].iter().map(|t| p_cpid_ev(t)).collect::<R<Vec<CpidEv>>>()?;
    let input = mk::<State>(Ok(None));
    let cmd_script = mk::<Command>(Ok(None));
    let mut s = CommandPID::<Script<State>, E>::new(input.clone(), cmd, kvals);
    for ev in events {
        let head = match ev {
            CpidEv::In(o) => {
                set(&input, o);
                s.update().enc()
            }
            CpidEv::Set(c) => s.set(c).enc(),
            CpidEv::Fol(o) => {
                set(&cmd_script, o);
                s.follow(as_dyn(&cmd_script));
                "-".to_string()
            }
            CpidEv::Cs(o) => {
                set(&cmd_script, o);
                "-".to_string()
            }
            CpidEv::Unfol => {
                s.stop_following();
                "-".to_string()
            }
            CpidEv::Reset => {
                s.reset();
                "-".to_string()
            }
            CpidEv::Lr => format!("lr={}", s.get_last_request().enc()),
        };
        let mut got = get2::<f32, _>(&s);
        // the controller latches at `update()`: a later change of what its input returns must not show through `get()`
        set(&input, Err(Error::Other(222)));
        let after = s.get().enc();
        if !got.ends_with("!impure") && after != got {
            got = format!("{}!impure", got);
        }
        out.push(format!("{}/{}", head, got));
    }
    Ok(())
}

pub fn run(toks: &[&str], out: &mut Vec<String>) -> R<()> {
    let op = toks.get(1).copied().ok_or(NoImpl)?;
    match op {
        "pid" => pid(toks, out),
        "spid" => spid(toks, out),
        "ewma" => ewma(toks, out),
        "ma" => ma(toks, out),
        "int" | "drv" | "a2s" | "v2s" | "p2s" | "q2f" => q_in(op, toks, out),
        "f2q" => f2q(toks, out),
        "freeze" => {
            want_min(toks, 3)?;
            match toks[2] {
                "f" => freeze::<f32>(toks, out),
                "q" => freeze::<Quantity>(toks, out),
                _ => Err(NoImpl),
            }
        }
        "cpid" => cpid(toks, out),
        _ => Err(NoImpl),
    }
}
