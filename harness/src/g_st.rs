//! Group `st` — stateless streams. Inputs are `Script` getters; the stream's `get()` is called twice.
use crate::enc::*;
use crate::script::*;
use core::ops::{Add, AddAssign, Div, Mul, MulAssign, Sub};
use rrtk::streams::converters::*;
use rrtk::streams::flow::*;
use rrtk::streams::logic::*;
use rrtk::streams::math::*;
use rrtk::streams::*;
use rrtk::*;

type DynRef<T> = Reference<dyn Getter<T, E>>;

/// `get()` twice, one token each (the first is pushed before the second call runs).
fn two<T: Enc>(g: &dyn Getter<T, E>, out: &mut Vec<String>) {
    out.push(g.get().enc());
    out.push(g.get().enc());
}
fn two_time(g: &dyn TimeGetter<E>, out: &mut Vec<String>) {
    out.push(g.get().enc());
    out.push(g.get().enc());
}

/// Parse `<n> <in>×n` starting at `toks[3]`; the line must end after the inputs.
fn p_inputs<T: Val>(toks: &[&str]) -> R<Vec<DynRef<T>>> {
    let n = p_usize(tok(toks, 3)?)?;
    if n > 8 {
        return Err(NoImpl);
    }
    want(toks, 4 + n)?;
    let mut outs = Vec::with_capacity(n);
    for t in &toks[4..] {
        outs.push(Output::<T, E>::dec(t)?);
    }
    Ok(outs.into_iter().map(mk_dyn).collect())
}
fn arr<T, const N: usize>(v: Vec<DynRef<T>>) -> [DynRef<T>; N] {
    match v.try_into() {
        Ok(a) => a,
        Err(_) => unreachable!("input count was checked against n"),
    }
}
/// Run `$body` with `$N` bound to the constant equal to `$n` (0..=8).
macro_rules! with_n {
    ($n:expr, $N:ident, $body:expr) => {
        match $n {
            0 => { const $N: usize = 0; $body }
            1 => { const $N: usize = 1; $body }
            2 => { const $N: usize = 2; $body }
            3 => { const $N: usize = 3; $body }
            4 => { const $N: usize = 4; $body }
            5 => { const $N: usize = 5; $body }
            6 => { const $N: usize = 6; $body }
            7 => { const $N: usize = 7; $body }
            8 => { const $N: usize = 8; $body }
            _ => return Err(NoImpl),
        }
    };
}
fn sum_n<T: Val + Copy + AddAssign>(toks: &[&str], out: &mut Vec<String>) -> R<()> {
    let v = p_inputs::<T>(toks)?;
    with_n!(v.len(), N, two(&SumStream::<T, N, E>::new(arr::<T, N>(v)), out));
    Ok(())
}
fn prod_n<T: Val + Copy + MulAssign>(toks: &[&str], out: &mut Vec<String>) -> R<()> {
    let v = p_inputs::<T>(toks)?;
    with_n!(v.len(), N, two(&ProductStream::<T, N, E>::new(arr::<T, N>(v)), out));
    Ok(())
}
fn latest_n<T: Val>(toks: &[&str], out: &mut Vec<String>) -> R<()> {
    let v = p_inputs::<T>(toks)?;
    with_n!(v.len(), N, two(&Latest::<T, N, E>::new(arr::<T, N>(v)), out));
    Ok(())
}

fn p_pair<T: Val>(toks: &[&str], at: usize) -> R<(Reference<Script<T>>, Reference<Script<T>>)> {
    want(toks, at + 2)?;
    let a = Output::<T, E>::dec(toks[at])?;
    let b = Output::<T, E>::dec(toks[at + 1])?;
    Ok((mk(a), mk(b)))
}
fn sum2<T: Val + Add<Output = T>>(toks: &[&str], out: &mut Vec<String>) -> R<()> {
    let (a, b) = p_pair::<T>(toks, 3)?;
    two(&Sum2::<T, Script<T>, Script<T>, E>::new(a, b), out);
    Ok(())
}
fn prod2<T: Val + Mul<Output = T>>(toks: &[&str], out: &mut Vec<String>) -> R<()> {
    let (a, b) = p_pair::<T>(toks, 3)?;
    two(&Product2::<T, Script<T>, Script<T>, E>::new(a, b), out);
    Ok(())
}
fn diff<T: Val + Sub<Output = T>>(toks: &[&str], out: &mut Vec<String>) -> R<()> {
    let (a, b) = p_pair::<T>(toks, 3)?;
    two(&DifferenceStream::<T, Script<T>, Script<T>, E>::new(a, b), out);
    Ok(())
}
fn quot<T: Val + Div<Output = T>>(toks: &[&str], out: &mut Vec<String>) -> R<()> {
    let (a, b) = p_pair::<T>(toks, 3)?;
    two(&QuotientStream::<T, Script<T>, Script<T>, E>::new(a, b), out);
    Ok(())
}

fn if_<T: Val>(toks: &[&str], out: &mut Vec<String>) -> R<()> {
    want(toks, 5)?;
    let c = Output::<bool, E>::dec(toks[3])?;
    let i = Output::<T, E>::dec(toks[4])?;
    two(&IfStream::<T, Script<bool>, Script<T>, E>::new(mk(c), mk(i)), out);
    Ok(())
}
fn ifelse<T: Val>(toks: &[&str], out: &mut Vec<String>) -> R<()> {
    want(toks, 6)?;
    let c = Output::<bool, E>::dec(toks[3])?;
    let a = Output::<T, E>::dec(toks[4])?;
    let b = Output::<T, E>::dec(toks[5])?;
    let s = IfElseStream::<T, Script<bool>, Script<T>, Script<T>, E>::new(mk(c), mk(a), mk(b));
    two(&s, out);
    Ok(())
}
/// `st ifelsemx f <cond> <a> <b>`: `IfElse(armed, If(armed, a), If(Not(armed), b))` where `armed` is ONE getter behind a
/// Mutex-backed `Reference` shared by the outer stream and both branches: a combinator that keeps its borrow of the condition alive
/// while it reads the selected branch blocks forever here (a `Mutex` is not re-entrant). Same answers as `st ifelse`.
#[cfg(feature = "std")]
fn ifelse_shared_mutex(toks: &[&str], out: &mut Vec<String>) -> R<()> {
    want(toks, 6)?;
    if toks[2] != "f" {
        return Err(NoImpl);
    }
    let c = Output::<bool, E>::dec(toks[3])?;
    let a = Output::<f32, E>::dec(toks[4])?;
    let b = Output::<f32, E>::dec(toks[5])?;
    let armed: Reference<Script<bool>> = arc_mutex_reference(Script { cur: c });
    let on_true = rc_ref_cell_reference(IfStream::<f32, Script<bool>, Script<f32>, E>::new(armed.clone(), mk(a)));
    let not_armed = rc_ref_cell_reference(NotStream::<Script<bool>, E>::new(armed.clone()));
    let on_false = rc_ref_cell_reference(IfStream::<f32, NotStream<Script<bool>, E>, Script<f32>, E>::new(not_armed, mk(b)));
    let s = IfElseStream::<
        f32,
        Script<bool>,
        IfStream<f32, Script<bool>, Script<f32>, E>,
        IfStream<f32, NotStream<Script<bool>, E>, Script<f32>, E>,
        E,
    >::new(armed, on_true, on_false);
    two(&s, out);
    Ok(())
}
#[cfg(not(feature = "std"))]
fn ifelse_shared_mutex(_toks: &[&str], _out: &mut Vec<String>) -> R<()> {
    Err(NoImpl)
}
fn expirer<T: Val>(toks: &[&str], out: &mut Vec<String>) -> R<()> {
    want(toks, 6)?;
    let i = Output::<T, E>::dec(toks[3])?;
    let t = TimeOutput::<E>::dec(toks[4])?;
    let max_delta = Time(p_i64(toks[5])?);
    let s = Expirer::<T, Script<T>, ScriptTime, E>::new(mk(i), mk_time(t), max_delta);
    two(&s, out);
    Ok(())
}
fn n2e<T: Val>(toks: &[&str], out: &mut Vec<String>) -> R<()> {
    want(toks, 4)?;
    let i = Output::<T, E>::dec(toks[3])?;
    two(&NoneToError::<T, Script<T>, E>::new(mk(i)), out);
    Ok(())
}
fn n2v<T: Val>(toks: &[&str], out: &mut Vec<String>) -> R<()> {
    want(toks, 6)?;
    let i = Output::<T, E>::dec(toks[3])?;
    let t = TimeOutput::<E>::dec(toks[4])?;
    let v = T::dec(toks[5])?;
    two(&NoneToValue::<T, Script<T>, ScriptTime, E>::new(mk(i), mk_time(t), v), out);
    Ok(())
}
fn none<T: Val>(toks: &[&str], out: &mut Vec<String>) -> R<()> {
    want(toks, 3)?;
    let g = NoneGetter::new();
    let g: &dyn Getter<T, E> = &g;
    two(g, out);
    Ok(())
}
fn const_<T: Val>(toks: &[&str], out: &mut Vec<String>) -> R<()> {
    want(toks, 5)?;
    let t = TimeOutput::<E>::dec(toks[3])?;
    let v = T::dec(toks[4])?;
    two(&ConstantGetter::<T, ScriptTime, E>::new(mk_time(t), v), out);
    Ok(())
}
fn tgfg<T: Val>(toks: &[&str], out: &mut Vec<String>) -> R<()> {
    want(toks, 4)?;
    let i = Output::<T, E>::dec(toks[3])?;
    two_time(&TimeGetterFromGetter::<T, Script<T>, E>::new(mk(i)), out);
    Ok(())
}

/// Call `$f::<T>(toks, out)` with `T` selected by the type letter; other letters are NOIMPL.
macro_rules! by_ty {
    ($ty:expr, [$($l:literal => $T:ty),*], $f:ident, $toks:expr, $out:expr) => {
        match $ty {
            $( $l => $f::<$T>($toks, $out), )*
            _ => Err(NoImpl),
        }
    };
}
macro_rules! by_fq {
    ($ty:expr, $f:ident, $toks:expr, $out:expr) => {
        by_ty!($ty, ["f" => f32, "q" => Quantity, "w" => Word], $f, $toks, $out)
    };
}
macro_rules! by_all {
    ($ty:expr, $f:ident, $toks:expr, $out:expr) => {
        by_ty!($ty, ["f" => f32, "q" => Quantity, "s" => State, "c" => Command, "b" => bool], $f, $toks, $out)
    };
}

pub fn run(toks: &[&str], out: &mut Vec<String>) -> R<()> {
    let op = toks.get(1).copied().ok_or(NoImpl)?;
    // ops without a <ty> token
    match op {
        "exp" => {
            let (a, b) = p_pair::<f32>(toks, 2)?;
            two(&ExponentStream::<Script<f32>, Script<f32>, E>::new(a, b), out);
            return Ok(());
        }
        "and" => {
            let (a, b) = p_pair::<bool>(toks, 2)?;
            two(&AndStream::<Script<bool>, Script<bool>, E>::new(a, b), out);
            return Ok(());
        }
        "or" => {
            let (a, b) = p_pair::<bool>(toks, 2)?;
            two(&OrStream::<Script<bool>, Script<bool>, E>::new(a, b), out);
            return Ok(());
        }
        "not" => {
            want(toks, 3)?;
            let a = Output::<bool, E>::dec(toks[2])?;
            two(&NotStream::<Script<bool>, E>::new(mk(a)), out);
            return Ok(());
        }
        _ => {}
    }
    let known = matches!(
        op,
        "sum" | "prod" | "latest" | "sum2" | "prod2" | "diff" | "quot" | "if" | "ifelse" | "ifelsemx" | "expirer" | "n2e"
            | "n2v" | "none" | "const" | "tgfg"
    );
    if !known {
        return Err(NoImpl);
    }
    let ty = tok(toks, 2)?;
    match op {
        "sum" => by_fq!(ty, sum_n, toks, out),
        "prod" => by_fq!(ty, prod_n, toks, out),
        "latest" => by_ty!(ty, ["f" => f32, "q" => Quantity, "b" => bool, "w" => Word], latest_n, toks, out),
        "sum2" => by_fq!(ty, sum2, toks, out),
        "prod2" => by_fq!(ty, prod2, toks, out),
        "diff" => by_fq!(ty, diff, toks, out),
        "quot" => by_fq!(ty, quot, toks, out),
        "if" => by_all!(ty, if_, toks, out),
        "ifelse" => by_all!(ty, ifelse, toks, out),
        "ifelsemx" => ifelse_shared_mutex(toks, out),
        "expirer" => by_all!(ty, expirer, toks, out),
        "n2e" => by_all!(ty, n2e, toks, out),
        "n2v" => by_all!(ty, n2v, toks, out),
        "none" => by_all!(ty, none, toks, out),
        "const" => by_all!(ty, const_, toks, out),
        "tgfg" => by_all!(ty, tgfg, toks, out),
        _ => Err(NoImpl),
    }
}
