//! Group `wr` — device wrappers. Needs rrtk's `devices` feature (and alloc for `PIDWrapper`, always on).
//!
//! Every case creates the wrapper `W` (terminal `w`), one free terminal `x`, and `connect(w, x)` before the first
//! event. The inner `Rec` / `ScriptU` share their state with the harness (see `script.rs`).
use crate::enc::*;
use crate::g_dv::{leak, leak_terminal, own_tok, get_state, set_command, set_state, Term};
use crate::g_se::join_plus;
use crate::script::*;
use rrtk::devices::wrappers::*;
use rrtk::*;

fn dash() -> String {
    "-".to_string()
}

enum Ev {
    Xs(Datum<State>),
    Xc(Datum<Command>),
    Ws(Datum<State>),
    Wc(Datum<Command>),
    Acc(NothingOrError<E>),
    Iu(NothingOrError<E>),
    Gs(Output<State, E>),
    Dis,
    Upd,
    Lr,
    /// `tfs` / `tfc`: the state / command slot of the wrapper's terminal starts following its scripted getter; `tnfs` / `tnfc`: stops
    Tfs,
    Tfc,
    Tnfs,
    Tnfc,
    /// `tgs:<Output<Datum<State>>>` / `tgc:<Output<Datum<Command>>>`: what that scripted getter returns from now on
    Tgs(Output<Datum<State>, E>),
    Tgc(Output<Datum<Command>, E>),
}
#[derive(Clone, Copy, PartialEq)]
enum Kind {
    Act,
    Enc,
    Pid,
}
/// Parse one event; events that the wrapper kind does not have are `BADLINE`.
fn p_ev(t: &str, kind: Kind) -> R<Ev> {
    let ev = if let Some(r) = t.strip_prefix("xs:") {
        Ev::Xs(Datum::<State>::dec(r)?)
    } else if let Some(r) = t.strip_prefix("xc:") {
        Ev::Xc(Datum::<Command>::dec(r)?)
    } else if let Some(r) = t.strip_prefix("ws:") {
        Ev::Ws(Datum::<State>::dec(r)?)
    } else if let Some(r) = t.strip_prefix("wc:") {
        Ev::Wc(Datum::<Command>::dec(r)?)
    } else if let Some(r) = t.strip_prefix("acc:") {
        Ev::Acc(NothingOrError::<E>::dec(r)?)
    } else if let Some(r) = t.strip_prefix("iu:") {
        Ev::Iu(NothingOrError::<E>::dec(r)?)
    } else if let Some(r) = t.strip_prefix("gs:") {
        Ev::Gs(Output::<State, E>::dec(r)?)
    } else if let Some(r) = t.strip_prefix("tgs:") {
        Ev::Tgs(Output::<Datum<State>, E>::dec(r)?)
    } else if let Some(r) = t.strip_prefix("tgc:") {
        Ev::Tgc(Output::<Datum<Command>, E>::dec(r)?)
    } else {
        match t {
            "tfs" => Ev::Tfs,
            "tfc" => Ev::Tfc,
            "tnfs" => Ev::Tnfs,
            "tnfc" => Ev::Tnfc,
            "dis" => Ev::Dis,
            "upd" => Ev::Upd,
            "lr" => Ev::Lr,
            _ => return Err(Bad),
        }
    };
    let allowed = match ev {
        Ev::Xs(_) | Ev::Xc(_) | Ev::Iu(_) | Ev::Upd => true,
        Ev::Ws(_) | Ev::Wc(_) | Ev::Acc(_) => kind != Kind::Enc,
        Ev::Dis => true,
        Ev::Gs(_) => kind == Kind::Enc,
        Ev::Lr => kind == Kind::Pid,
        // (the PID wrapper's line compares with a stand-alone PID fed from outside, which cannot see what a follower will deliver)
        Ev::Tfs | Ev::Tfc | Ev::Tnfs | Ev::Tnfc | Ev::Tgs(_) | Ev::Tgc(_) => kind != Kind::Pid,
    };
    if allowed {
        Ok(ev)
    } else {
        Err(Bad)
    }
}
fn p_events(toks: &[&str], kind: Kind) -> R<Vec<Ev>> {
    toks.iter().map(|t| p_ev(t, kind)).collect()
}
/// The events that only touch the two terminals; `None` if `ev` is not one of them.
fn terminal_event(ev: &Ev, w: Term, x: Term) -> Option<String> {
    Some(match ev {
        Ev::Xs(d) => set_state(x, *d).enc(),
        Ev::Xc(d) => set_command(x, *d).enc(),
        Ev::Ws(d) => set_state(w, *d).enc(),
        Ev::Wc(d) => set_command(w, *d).enc(),
        Ev::Dis => {
            w.borrow_mut().disconnect();
            dash()
        }
        _ => return None,
    })
}

/// The scripted getters the wrapper's terminal may follow, and the events that steer them; `None` if `ev` is not one of them.
struct Followed {
    s: Reference<Script<Datum<State>>>,
    c: Reference<Script<Datum<Command>>>,
}
impl Followed {
    fn new() -> Self {
        Followed {
            s: mk::<Datum<State>>(Ok(None)),
            c: mk::<Datum<Command>>(Ok(None)),
        }
    }
    fn event(&self, ev: &Ev, w: Term) -> Option<String> {
        match ev {
            Ev::Tfs => <Terminal<E> as Settable<Datum<State>, E>>::follow(&mut *w.borrow_mut(), as_dyn(&self.s)),
            Ev::Tfc => <Terminal<E> as Settable<Datum<Command>, E>>::follow(&mut *w.borrow_mut(), as_dyn(&self.c)),
            Ev::Tnfs => <Terminal<E> as Settable<Datum<State>, E>>::stop_following(&mut *w.borrow_mut()),
            Ev::Tnfc => <Terminal<E> as Settable<Datum<Command>, E>>::stop_following(&mut *w.borrow_mut()),
            Ev::Tgs(o) => set(&self.s, o.clone()),
            Ev::Tgc(o) => set(&self.c, o.clone()),
            _ => return None,
        }
        Some(dash())
    }
}

fn act(toks: &[&str], out: &mut Vec<String>) -> R<()> {
    let events = p_events(&toks[2..], Kind::Act)?;
    let inner = Rec::<TerminalData>::new();
    let st = inner.st.clone();
    let wrapper: &'static mut ActuatorWrapper<'static, Rec<TerminalData>, E> = leak(ActuatorWrapper::new(inner));
    let w: Term = wrapper.get_terminal();
    let x: Term = leak_terminal();
    connect(w, x);
    let fol = Followed::new();
    for ev in events {
        if let Some(tok) = terminal_event(&ev, w, x) {
            out.push(tok);
            continue;
        }
        if let Some(tok) = fol.event(&ev, w) {
            out.push(tok);
            continue;
        }
        let tok = match ev {
            Ev::Acc(n) => {
                st.borrow_mut().next = n;
                dash()
            }
            Ev::Iu(n) => {
                st.borrow_mut().upd = n;
                dash()
            }
            Ev::Upd => {
                st.borrow_mut().got.clear();
                // what the wrapper's terminal sees right now (the data the property says must be handed over unaltered)
                let seen: Output<TerminalData, E> = <Terminal<E> as Getter<TerminalData, E>>::get(&*w.borrow());
                let ret = wrapper.update();
                let st = st.borrow();
                format!("{};{};{};{}", ret.enc(), join_plus(&st.got), st.nupd, seen.enc())
            }
            _ => return Err(Bad),
        };
        out.push(tok);
    }
    Ok(())
}

fn enc(toks: &[&str], out: &mut Vec<String>) -> R<()> {
    let events = p_events(&toks[2..], Kind::Enc)?;
    let inner = ScriptU::<State>::new(Ok(None));
    let st = inner.st.clone();
    let wrapper: &'static mut GetterStateDeviceWrapper<'static, ScriptU<State>, E> =
        leak(GetterStateDeviceWrapper::new(inner));
    let w: Term = wrapper.get_terminal();
    let x: Term = leak_terminal();
    connect(w, x);
    let fol = Followed::new();
    for ev in events {
        if let Some(tok) = terminal_event(&ev, w, x) {
            out.push(tok);
            continue;
        }
        if let Some(tok) = fol.event(&ev, w) {
            out.push(tok);
            continue;
        }
        let tok = match ev {
            Ev::Gs(o) => {
                st.borrow_mut().cur = o;
                dash()
            }
            Ev::Iu(n) => {
                st.borrow_mut().upd = n;
                dash()
            }
            Ev::Upd => {
                let ret = wrapper.update();
                let own = own_tok(w);
                let at_x = get_state(x);
                format!("{};{};{};{}", ret.enc(), own, at_x.enc(), st.borrow().nupd)
            }
            _ => return Err(Bad),
        };
        out.push(tok);
    }
    Ok(())
}

fn pid(toks: &[&str], out: &mut Vec<String>) -> R<()> {
    want_min(toks, 14)?;
    let t0 = Time(p_i64(toks[2])?);
    let state0 = State::dec(toks[3])?;
    let command0 = Command::dec(toks[4])?;
    let mut k = [0.0f32; 9];
    for (i, slot) in k.iter_mut().enumerate() {
        *slot = p_f32(toks[5 + i])?;
    }
    let kvals = PositionDerivativeDependentPIDKValues::new(
        PIDKValues::new(k[0], k[1], k[2]),
        PIDKValues::new(k[3], k[4], k[5]),
        PIDKValues::new(k[6], k[7], k[8]),
    );
    let events = p_events(&toks[14..], Kind::Pid)?;
    let inner = Rec::<f32>::new();
    let st = inner.st.clone();
    let wrapper: &'static mut PIDWrapper<'static, Rec<f32>, E> =
        leak(PIDWrapper::new(inner, t0, state0, command0, kvals));
    let w: Term = wrapper.get_terminal();
    let x: Term = leak_terminal();
    connect(w, x);
    // the stand-alone reference: a real CommandPID over constant getters, fed what the terminal shows
    let sa_time = rc_ref_cell_reference(t0);
    let sa_state = rc_ref_cell_reference(ConstantGetter::<State, Time, E>::new(sa_time.clone(), state0));
    let sa_command = rc_ref_cell_reference(ConstantGetter::<Command, Time, E>::new(sa_time.clone(), command0));
    let sa_pid = rc_ref_cell_reference(streams::control::CommandPID::<ConstantGetter<State, Time, E>, E>::new(
        sa_state.clone(),
        command0,
        kvals,
    ));
    sa_pid.borrow_mut().follow(to_dyn!(Getter<Command, E>, sa_command.clone()));
    for ev in events {
        if let Some(tok) = terminal_event(&ev, w, x) {
            out.push(tok);
            continue;
        }
        let tok = match ev {
            Ev::Acc(n) => {
                st.borrow_mut().next = n;
                dash()
            }
            Ev::Iu(n) => {
                st.borrow_mut().upd = n;
                dash()
            }
            Ev::Upd => {
                st.borrow_mut().got.clear();
                let seen: Output<TerminalData, E> = <Terminal<E> as Getter<TerminalData, E>>::get(&*w.borrow());
                if let Ok(Some(td)) = seen {
                    *sa_time.borrow_mut() = td.value.time;
                    if let Some(state) = td.value.state {
                        let _ = sa_state.borrow_mut().set(state);
                    }
                    if let Some(command) = td.value.command {
                        let _ = sa_command.borrow_mut().set(command);
                    }
                    let _ = sa_pid.borrow_mut().update();
                }
                let ret = wrapper.update();
                let sa: Output<f32, E> = sa_pid.borrow().get();
                format!("{};{};{}", ret.enc(), join_plus(&st.borrow().got), sa.enc())
            }
            // The motor was moved into the wrapper, which offers no access to it. `last` is the motor's real
            // `get_last_request()`, taken inside its `update()` right after following — the only place where the
            // motor is ever `set` in this group (see `Rec`).
            Ev::Lr => st.borrow().last.enc(),
            _ => return Err(Bad),
        };
        out.push(tok);
    }
    Ok(())
}

pub fn run(toks: &[&str], out: &mut Vec<String>) -> R<()> {
    let op = toks.get(1).copied().ok_or(NoImpl)?;
    match op {
        "act" => act(toks, out),
        "enc" => enc(toks, out),
        "pid" => pid(toks, out),
        _ => Err(NoImpl),
    }
}
