//! Differential-testing harness for rrtk: one case per stdin line, one canonical output line per case.
//! The specification is /verif/PROTOCOL.md.
//!
//! To add a group: write `g_<name>.rs` exposing `pub fn run(toks: &[&str], out: &mut Vec<String>) -> R<()>`
//! and add it to `dispatch` below.
mod enc;
mod g_d;
#[cfg(feature = "devices")]
mod g_dv;
mod g_k;
mod g_mp;
mod g_q;
mod g_rf;
mod g_se;
mod g_sf;
mod g_ss;
mod g_st;
#[cfg(feature = "devices")]
mod g_wr;
mod gen_consts;
mod script;

use enc::{Fail, R};
use std::any::Any;
use std::io::{self, BufRead, BufWriter, Write};
use std::panic::{self, AssertUnwindSafe};

fn dispatch(toks: &[&str], out: &mut Vec<String>) -> R<()> {
    match toks.first().copied() {
        Some("q") => g_q::run(toks, out),
        Some("d") => g_d::run(toks, out),
        Some("st") => g_st::run(toks, out),
        Some("ss") => g_ss::run(toks, out),
        Some("k") => g_k::run(toks, out),
        Some("mp") => g_mp::run(toks, out),
        Some("se") => g_se::run(toks, out),
        Some("sf") => g_sf::run(toks, out),
        // Without rrtk's `devices` feature these two fall through to NOIMPL.
        #[cfg(feature = "devices")]
        Some("dv") => g_dv::run(toks, out),
        #[cfg(feature = "devices")]
        Some("wr") => g_wr::run(toks, out),
        Some("rf") => g_rf::run(toks, out),
        _ => Err(Fail::NoImpl),
    }
}

/// Panic message → `<kind>`; the table of PROTOCOL.md, checked in its order.
fn panic_kind(payload: &(dyn Any + Send)) -> &'static str {
    let msg: &str = if let Some(s) = payload.downcast_ref::<&'static str>() {
        s
    } else if let Some(s) = payload.downcast_ref::<String>() {
        s.as_str()
    } else {
        ""
    };
    const TABLE: &[(&[&str], &str)] = &[
        (&["eq_assume_true", "eq_assume_false", "const_eq"], "dim"),
        (&["overflow"], "overflow"),
        (&["divide by zero"], "div0"),
        (&["left == right", "left: "], "kind"),
        (&["not implemented"], "unimpl"),
        (&["already borrowed", "already mutably borrowed"], "borrow"),
        (&["index out of bounds", "out of range", "Out of bounds"], "oob"),
        (&["f32::from(t1) >= 0.0"], "mpT1"),
        (&["f32::from(d_t3) >= 0.0"], "mpT3"),
        (&["f32::from(d_t2) >= 0.0"], "mpT2"),
        (&["at least"], "arity"),
    ];
    for (needles, kind) in TABLE {
        if needles.iter().any(|n| msg.contains(n)) {
            return kind;
        }
    }
    "expect"
}

fn main() {
    panic::set_hook(Box::new(|_| {}));
    let stdin = io::stdin();
    let mut input = stdin.lock();
    let stdout = io::stdout();
    let mut output = BufWriter::with_capacity(1 << 16, stdout.lock());
    let mut buf: Vec<u8> = Vec::new();
    loop {
        buf.clear();
        match input.read_until(b'\n', &mut buf) {
            Ok(0) => break,
            Ok(_) => {}
            Err(_) => break,
        }
        if buf.last() == Some(&b'\n') {
            buf.pop();
            if buf.last() == Some(&b'\r') {
                buf.pop();
            }
        }
        let line = String::from_utf8_lossy(&buf);
        if line.is_empty() {
            let _ = output.write_all(b"\n");
            continue;
        }
        let toks: Vec<&str> = line.split(' ').collect();
        // The token buffer lives outside the closure so that tokens produced before a panic survive it.
        let mut out: Vec<String> = Vec::new();
        let result = panic::catch_unwind(AssertUnwindSafe(|| dispatch(&toks, &mut out)));
        match result {
            Ok(Ok(())) => {}
            Ok(Err(Fail::NoImpl)) => {
                out.clear();
                out.push("NOIMPL".to_string());
            }
            Ok(Err(Fail::Bad)) => {
                out.clear();
                out.push("BADLINE".to_string());
            }
            Err(payload) => out.push(format!("PANIC:{}", panic_kind(payload.as_ref()))),
        }
        let _ = output.write_all(out.join(" ").as_bytes());
        let _ = output.write_all(b"\n");
    }
    let _ = output.flush();
}
