//! Scripted inputs: a getter / time getter whose output is set from outside between steps.
#![allow(dead_code)]
use crate::enc::E;
// `to_dyn!` refers to the unqualified names `reference` and `Reference`.
use rrtk::*;

/// `Getter<T, u8>` returning a clone of `cur`; `update()` does nothing.
pub struct Script<T> {
    pub cur: Output<T, E>,
}
impl<T: Clone> Getter<T, E> for Script<T> {
    fn get(&self) -> Output<T, E> {
        self.cur.clone()
    }
}
impl<T> Updatable<E> for Script<T> {
    fn update(&mut self) -> NothingOrError<E> {
        Ok(())
    }
}
/// `TimeGetter<u8>` returning `cur`; `update()` does nothing.
pub struct ScriptTime {
    pub cur: TimeOutput<E>,
}
impl TimeGetter<E> for ScriptTime {
    fn get(&self) -> TimeOutput<E> {
        self.cur
    }
}
impl Updatable<E> for ScriptTime {
    fn update(&mut self) -> NothingOrError<E> {
        Ok(())
    }
}

/// A new script behind an `Rc<RefCell<_>>` reference.
pub fn mk<T: Clone + 'static>(cur: Output<T, E>) -> Reference<Script<T>> {
    rc_ref_cell_reference(Script { cur })
}
/// A new time script behind an `Rc<RefCell<_>>` reference.
pub fn mk_time(cur: TimeOutput<E>) -> Reference<ScriptTime> {
    rc_ref_cell_reference(ScriptTime { cur })
}
/// Change what a script returns from now on.
pub fn set<T>(script: &Reference<Script<T>>, cur: Output<T, E>) {
    script.borrow_mut().cur = cur;
}
/// Another handle to the same script, as a trait object (through the real `rrtk::to_dyn!`).
pub fn as_dyn<T: Clone + 'static>(script: &Reference<Script<T>>) -> Reference<dyn Getter<T, E>> {
    let r = script.clone();
    to_dyn!(Getter<T, E>, r)
}
/// `mk` + `as_dyn`.
pub fn mk_dyn<T: Clone + 'static>(cur: Output<T, E>) -> Reference<dyn Getter<T, E>> {
    as_dyn(&mk(cur))
}
