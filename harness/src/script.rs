//! Scripted inputs: a getter / time getter whose output is set from outside between steps.
#![allow(dead_code)]
use crate::enc::E;
// `to_dyn!` refers to the unqualified names `reference` and `Reference`.
use rrtk::*;

/// `Getter<T, u8>` returning a clone of `cur`; `update()` does nothing.
pub struct Script<T> {
    pub cur: Output<T, E>,
}
impl<T: Clone> Getter<T, E> for Script<T> {
    fn get(&self) -> Output<T, E> {
        self.cur.clone()
    }
}
impl<T> Updatable<E> for Script<T> {
    fn update(&mut self) -> NothingOrError<E> {
        Ok(())
    }
}
/// `TimeGetter<u8>` returning `cur`; `update()` does nothing.
pub struct ScriptTime {
    pub cur: TimeOutput<E>,
}
impl TimeGetter<E> for ScriptTime {
    fn get(&self) -> TimeOutput<E> {
        self.cur
    }
}
impl Updatable<E> for ScriptTime {
    fn update(&mut self) -> NothingOrError<E> {
        Ok(())
    }
}

/// A new script behind an `Rc<RefCell<_>>` reference.
pub fn mk<T: Clone + 'static>(cur: Output<T, E>) -> Reference<Script<T>> {
    rc_ref_cell_reference(Script { cur })
}
/// A new time script behind an `Rc<RefCell<_>>` reference.
pub fn mk_time(cur: TimeOutput<E>) -> Reference<ScriptTime> {
    rc_ref_cell_reference(ScriptTime { cur })
}
/// Change what a script returns from now on.
pub fn set<T>(script: &Reference<Script<T>>, cur: Output<T, E>) {
    script.borrow_mut().cur = cur;
}
/// Another handle to the same script, as a trait object (through the real `rrtk::to_dyn!`).
pub fn as_dyn<T: Clone + 'static>(script: &Reference<Script<T>>) -> Reference<dyn Getter<T, E>> {
    let r = script.clone();
    to_dyn!(Getter<T, E>, r)
}
/// `mk` + `as_dyn`.
pub fn mk_dyn<T: Clone + 'static>(cur: Output<T, E>) -> Reference<dyn Getter<T, E>> {
    as_dyn(&mk(cur))
}

// ---------------------------------------------------------------- recording settable / updatable script

use std::cell::RefCell;
use std::rc::Rc;

/// The observable part of a [`Rec`]. It is shared (`Rc<RefCell<_>>`) so that the harness can still read and
/// steer a `Rec` after it has been moved into a wrapper.
pub struct RecState<T> {
    /// What `impl_set` returns from now on.
    pub next: NothingOrError<E>,
    /// The values `impl_set` accepted (i.e. was called with while `next` was `Ok`).
    pub got: Vec<T>,
    /// What `update` returns from now on (after following and counting).
    pub upd: NothingOrError<E>,
    /// How many times `update` got past `update_following_data`.
    pub nupd: usize,
    /// The real `get_last_request()` of this `Rec`, read right after the `update_following_data()` of its most
    /// recent `update()`. Current whenever the `Rec` is only ever `set` through following (the case for the motor
    /// inside a `PIDWrapper`, where the harness cannot reach the `Rec` itself any more).
    pub last: Option<T>,
}
/// `Settable<T, u8>` of PROTOCOL.md: `impl_set` records the value only when `next` is `Ok` and returns `next`;
/// `update` = `self.update_following_data()?; nupd += 1; upd`.
pub struct Rec<T> {
    data: SettableData<T, E>,
    pub st: Rc<RefCell<RecState<T>>>,
}
impl<T> Rec<T> {
    pub fn new() -> Self {
        Rec {
            data: SettableData::new(),
            st: Rc::new(RefCell::new(RecState {
                next: Ok(()),
                got: Vec::new(),
                upd: Ok(()),
                nupd: 0,
                last: None,
            })),
        }
    }
}
impl<T: Clone> Settable<T, E> for Rec<T> {
    fn impl_set(&mut self, value: T) -> NothingOrError<E> {
        let mut st = self.st.borrow_mut();
        if st.next.is_ok() {
            st.got.push(value);
        }
        st.next
    }
    fn get_settable_data_ref(&self) -> &SettableData<T, E> {
        &self.data
    }
    fn get_settable_data_mut(&mut self) -> &mut SettableData<T, E> {
        &mut self.data
    }
}
impl<T: Clone> Updatable<E> for Rec<T> {
    fn update(&mut self) -> NothingOrError<E> {
        let followed = self.update_following_data();
        let last = self.get_last_request();
        self.st.borrow_mut().last = last;
        followed?;
        let mut st = self.st.borrow_mut();
        st.nupd += 1;
        st.upd
    }
}

/// The shared part of a [`ScriptU`].
pub struct ScriptUState<T> {
    pub cur: Output<T, E>,
    /// What `update` returns from now on.
    pub upd: NothingOrError<E>,
    /// How many times `update` was called.
    pub nupd: usize,
}
/// A `Script` whose `update()` returns a scripted `NothingOrError` and counts its calls; state shared as for `Rec`.
pub struct ScriptU<T> {
    pub st: Rc<RefCell<ScriptUState<T>>>,
}
impl<T> ScriptU<T> {
    pub fn new(cur: Output<T, E>) -> Self {
        ScriptU {
            st: Rc::new(RefCell::new(ScriptUState {
                cur,
                upd: Ok(()),
                nupd: 0,
            })),
        }
    }
}
impl<T: Clone> Getter<T, E> for ScriptU<T> {
    fn get(&self) -> Output<T, E> {
        self.st.borrow().cur.clone()
    }
}
impl<T> Updatable<E> for ScriptU<T> {
    fn update(&mut self) -> NothingOrError<E> {
        let mut st = self.st.borrow_mut();
        st.nupd += 1;
        st.upd
    }
}
