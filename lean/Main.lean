/-
Driver: one case per line in, one canonical result line out (see /verif/PROTOCOL.md).
`driver chk` / `driver nochk` selects whether dimension checking is compiled in; a further argument `nostd` names the builds
without the `std` feature (no body differs any more since the no_std `Quantity::abs` was repaired; the argument is accepted and ignored).
-/
import Rrtk.Drv.Q
import Rrtk.Drv.D
import Rrtk.Drv.St
import Rrtk.Drv.Ss
import Rrtk.Drv.K
import Rrtk.Drv.Mp
import Rrtk.Drv.Se
import Rrtk.Drv.Dv
import Rrtk.Drv.Rf
import Rrtk.Drv.Sf
import Rrtk.Gen.DvTieT1
import Rrtk.Gen.DvTieT2
import Rrtk.Gen.DvTieT3
open Rrtk Rrtk.Drv

/-- `tie`: 0 = the model; 1..3 = the generated tie-break variants (terminal command read prefers the partner on equal
timestamps / device relays prefer the other side / both), see tools/gen.py -/
def runLine (chk : Bool) (nostd : Bool) (tie : Nat) (line : String) : String :=
  let toks := (line.trimAscii.toString.splitOn " ").filter (· ≠ "")
  -- (until the `fix:` commit 24d9cb7 the builds without `std` used a hand-written `abs` and `nostd` rewrote `q abs` to `q absm`;
  --  since then every build clears the sign bit like `f32::abs`; the option now only tells group `rf` which `Reference` variants and
  --  which definition of the macro behind `to_dyn!` the build has)
  match toks with
  | [] => ""
  | "q" :: rest => runM (runQ chk rest)
  | "d" :: rest => runM (runD chk rest)
  | "st" :: rest => runM (runSt chk rest)
  | "ss" :: rest => runM (runSs chk rest)
  | "k" :: rest => runM (runK chk rest)
  | "mp" :: rest => runM (runMp chk rest)
  | "se" :: rest => runM (runSe chk rest)
  | "dv" :: rest => (match tie with
      | 1 => runM (Rrtk.TieT1.Drv.runDv chk rest) | 2 => runM (Rrtk.TieT2.Drv.runDv chk rest)
      | 3 => runM (Rrtk.TieT3.Drv.runDv chk rest) | _ => runM (runDv chk rest))
  | "wr" :: rest => (match tie with
      | 1 => runM (Rrtk.TieT1.Drv.runWr chk rest) | 2 => runM (Rrtk.TieT2.Drv.runWr chk rest)
      | 3 => runM (Rrtk.TieT3.Drv.runWr chk rest) | _ => runM (runWr chk rest))
  | "rf" :: rest => runM (runRf chk nostd rest)
  | "sf" :: rest => runM (runSf rest)
  | _ => "NOIMPL"

partial def loop (chk : Bool) (nostd : Bool) (tie : Nat) (hin : IO.FS.Stream) (hout : IO.FS.Stream) : IO Unit := do
  let line ← hin.getLine
  if line.isEmpty then return ()
  hout.putStrLn (runLine chk nostd tie line)
  loop chk nostd tie hin hout

def main (args : List String) : IO Unit := do
  let chk := !(args.contains "nochk")
  let hin ← IO.getStdin
  let hout ← IO.getStdout
  let tie := if args.contains "tie1" then 1 else if args.contains "tie2" then 2 else if args.contains "tie3" then 3 else 0
  loop chk (args.contains "nostd") tie hin hout
  hout.flush
