/-
Driver: one case per line in, one canonical result line out (see /verif/PROTOCOL.md).
`driver chk` / `driver nochk` selects whether dimension checking is compiled in; a further argument `nostd` selects the
bodies compiled without the `std` feature (today: `Quantity::abs` is the manual `if v >= 0.0 { v } else { -v }`).
-/
import Rrtk.Drv.Q
import Rrtk.Drv.D
import Rrtk.Drv.St
import Rrtk.Drv.Ss
import Rrtk.Drv.K
import Rrtk.Drv.Mp
import Rrtk.Drv.Se
import Rrtk.Drv.Dv
import Rrtk.Drv.Rf
import Rrtk.Drv.Sf
open Rrtk Rrtk.Drv

def runLine (chk : Bool) (nostd : Bool) (line : String) : String :=
  let toks := (line.trimAscii.toString.splitOn " ").filter (· ≠ "")
  let toks := match nostd, toks with
    | true, "q" :: "abs" :: rest => "q" :: "absm" :: rest
    | _, t => t
  match toks with
  | [] => ""
  | "q" :: rest => runM (runQ chk rest)
  | "d" :: rest => runM (runD chk rest)
  | "st" :: rest => runM (runSt chk rest)
  | "ss" :: rest => runM (runSs chk rest)
  | "k" :: rest => runM (runK chk rest)
  | "mp" :: rest => runM (runMp chk rest)
  | "se" :: rest => runM (runSe chk rest)
  | "dv" :: rest => runM (runDv chk rest)
  | "wr" :: rest => runM (runWr chk rest)
  | "rf" :: rest => runM (runRf chk rest)
  | "sf" :: rest => runM (runSf rest)
  | _ => "NOIMPL"

partial def loop (chk : Bool) (nostd : Bool) (hin : IO.FS.Stream) (hout : IO.FS.Stream) : IO Unit := do
  let line ← hin.getLine
  if line.isEmpty then return ()
  hout.putStrLn (runLine chk nostd line)
  loop chk nostd hin hout

def main (args : List String) : IO Unit := do
  let chk := !(args.contains "nochk")
  let hin ← IO.getStdin
  let hout ← IO.getStdout
  loop chk (args.contains "nostd") hin hout
  hout.flush
