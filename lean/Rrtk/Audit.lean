/-
`#audit_ns Rrtk.Thm.C01` lists every theorem declared directly in that namespace (equation lemmas of helper
definitions, which live one level deeper, are not counted as obligations) together with the axioms its
proof depends on (`Lean.collectAxioms`).  The check script parses the `AUDIT` lines; an obligation counts as
discharged only if its axioms are a subset of {propext, Classical.choice, Quot.sound}.
-/
import Lean
open Lean Elab Command

elab "#audit_ns " ns:ident : command => do
  let env ← getEnv
  let nsName := ns.getId
  let mut names : Array Name := #[]
  for (n, ci) in env.constants.toList do
    if n.getPrefix == nsName && !n.isInternal then
      match ci with
      | .thmInfo _ => names := names.push n
      | _ => pure ()
  let sorted := names.qsort (fun a b => a.toString < b.toString)
  for n in sorted do
    let axs ← liftCoreM (collectAxioms n)
    let axs := axs.qsort (fun a b => a.toString < b.toString)
    logInfo m!"AUDIT {n} axioms={axs.toList}"
  logInfo m!"AUDIT-COUNT {sorted.size}"
