/-
`#[cfg(..)]` predicates, as far as rrtk uses them: cargo features, `debug_assertions`, `any` / `all` / `not`.
The table of predicates that gate dimension checking is regenerated from the source into `Gen/CfgGates.lean`;
this file gives them a meaning. Import-free.
-/
namespace Rrtk

/-- cargo features of rrtk that can occur in a predicate (`other` = anything else) -/
inductive CfgFeat where
  | dimRelease | dimDebug | std | alloc | libm | micromath | devices | enhancedFloat | other
  deriving DecidableEq, Repr

/-- a cfg predicate; n-ary `any(..)` / `all(..)` are folded to the right by the generator -/
inductive Cfg where
  | feat (f : CfgFeat)
  | dbgAssert
  | tt
  | ff
  | other
  | any2 (a b : Cfg)
  | all2 (a b : Cfg)
  | not (a : Cfg)
  deriving Repr

/-- value of a predicate in a build: `dbg` = `debug_assertions` (debug profile), `on f` = feature enabled,
`unk` = value given to anything the generator did not understand -/
def Cfg.eval (dbg : Bool) (on : CfgFeat → Bool) (unk : Bool) : Cfg → Bool
  | .feat f => on f
  | .dbgAssert => dbg
  | .tt => true
  | .ff => false
  | .other => unk
  | .any2 a b => a.eval dbg on unk || b.eval dbg on unk
  | .all2 a b => a.eval dbg on unk && b.eval dbg on unk
  | .not a => !(a.eval dbg on unk)

/-- the documented rule (src/lib.rs feature list): dimension checking is compiled in when `dim_check_release` is enabled,
or when `dim_check_debug` is enabled and the build has debug assertions -/
def checkingOn (dbg rel dbgF : Bool) : Bool := rel || (dbg && dbgF)

/-- feature environment in which only the two dimension-checking features are decided; every other feature is `o` -/
def dimEnv (rel dbgF o : Bool) : CfgFeat → Bool
  | .dimRelease => rel
  | .dimDebug => dbgF
  | _ => o

end Rrtk
