/-
The *meaning* of a unit constant's name, as a structural function on the words of the name, so that the
claim "every named constant has the exponents its name states" is a kernel-decidable statement about the
table regenerated from `src/dimensions/constants.rs` (`Gen/Constants.lean`).

Grammar (module documentation of constants.rs): `DIMENSIONLESS`; `INVERSE_<items>` (all exponents
negative); `<items>_PER_<items>` (numerator positive, denominator negative); `<items>` (all positive);
an item is `MILLIMETER|SECOND` optionally followed by `SQUARED|CUBED`.
-/
import Rrtk.Gen.Constants
namespace Rrtk
open Rrtk.Gen

/-- exponents contributed by a `PER`-free list of items: `(mm, s)` -/
def itemsExponents : List Tok → Option (Int × Int)
  | [] => some (0, 0)
  | .MILLIMETER :: .SQUARED :: r => (itemsExponents r).map (fun p => (p.1 + 2, p.2))
  | .MILLIMETER :: .CUBED :: r => (itemsExponents r).map (fun p => (p.1 + 3, p.2))
  | .MILLIMETER :: r => (itemsExponents r).map (fun p => (p.1 + 1, p.2))
  | .SECOND :: .SQUARED :: r => (itemsExponents r).map (fun p => (p.1, p.2 + 2))
  | .SECOND :: .CUBED :: r => (itemsExponents r).map (fun p => (p.1, p.2 + 3))
  | .SECOND :: r => (itemsExponents r).map (fun p => (p.1, p.2 + 1))
  | _ => none

/-- split at the first `PER` -/
def splitPer : List Tok → List Tok × Option (List Tok)
  | [] => ([], none)
  | .PER :: r => ([], some r)
  | t :: r => let (a, b) := splitPer r; (t :: a, b)

/-- the exponents a name states -/
def nameExponents : List Tok → Option (Int × Int)
  | [.DIMENSIONLESS] => some (0, 0)
  | .INVERSE :: r => (itemsExponents r).map (fun p => (-p.1, -p.2))
  | ts =>
    match splitPer ts with
    | (num, none) => if num.isEmpty then none else itemsExponents num
    | (num, some den) =>
      if num.isEmpty || den.isEmpty then none else
      match itemsExponents num, itemsExponents den with
      | some n, some d => some (n.1 - d.1, n.2 - d.2)
      | _, _ => none

end Rrtk
