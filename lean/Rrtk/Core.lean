/-
Model of `src/datum.rs`, `src/state.rs`, `src/command.rs` and the small items of `src/lib.rs`
(errors, outputs, PID gains, `latest`).
-/
import Rrtk.Dim
namespace Rrtk

/-- `rrtk::Error<O>` with `O = u8`-like error payloads. -/
inductive Err where
  | fromNone
  | other (n : Nat)
  deriving DecidableEq, Repr, Inhabited

/-- `rrtk::Datum<T>`; `time` is the `i64` inside `Time`. -/
structure Datum (α : Type) where
  time : Int
  value : α
  deriving Repr, Inhabited, DecidableEq

/-- `rrtk::Output<T, E> = Result<Option<Datum<T>>, Error<E>>` -/
abbrev Output (α : Type) := Except Err (Option (Datum α))
/-- `NothingOrError<E>` -/
abbrev UpdRet := Except Err Unit
/-- `TimeOutput<E>` -/
abbrev TimeOutput := Except Err Int

namespace Datum
variable {α β γ : Type}
/-- Every `impl <Op> for Datum<T>` / `impl <Op><Datum<f32>> for Datum<State|Command>` and the
corresponding assign forms: `if self.time >= other.time { self.time } else { other.time }`. -/
def combine (op : α → β → γ) (a : Datum α) (b : Datum β) : Datum γ :=
  ⟨if a.time ≥ b.time then a.time else b.time, op a.value b.value⟩
/-- Every `impl <Op><T> for Datum<T>` (scalar right operand) and assign form: time kept. -/
def scalar (op : α → β → γ) (a : Datum α) (b : β) : Datum γ := ⟨a.time, op a.value b⟩
/-- `impl Neg` / `impl Not` -/
def map (f : α → β) (a : Datum α) : Datum β := ⟨a.time, f a.value⟩
/-- `replace_if_older_than`: new slot contents and the returned flag. -/
def replaceIfOlderThan (self cand : Datum α) : Datum α × Bool :=
  if cand.time > self.time then (cand, true) else (self, false)
/-- `replace_if_none_or_older_than` -/
def replaceIfNoneOrOlderThan (self : Option (Datum α)) (cand : Datum α) : Option (Datum α) × Bool :=
  match self with
  | some d => if d.time ≥ cand.time then (some d, false) else (some cand, true)
  | none => (some cand, true)
/-- `replace_if_none_or_older_than_option` -/
def replaceIfNoneOrOlderThanOption (self cand : Option (Datum α)) : Option (Datum α) × Bool :=
  match cand with
  | some c => replaceIfNoneOrOlderThan self c
  | none => (self, false)
/-- `rrtk::latest` -/
def latest (a b : Datum α) : Datum α := if a.time ≥ b.time then a else b
end Datum

/-- `rrtk::State` -/
structure State (F : Type) where
  position : F
  velocity : F
  acceleration : F
  deriving Repr, Inhabited

/-- `rrtk::Command` -/
inductive Command (F : Type) where
  | position (v : F)
  | velocity (v : F)
  | acceleration (v : F)
  deriving Repr, Inhabited

/-- `rrtk::PIDKValues` -/
structure PIDK (F : Type) where
  kp : F
  ki : F
  kd : F
  deriving Repr, Inhabited

/-- `PositionDerivativeDependentPIDKValues` -/
structure PIDK3 (F : Type) where
  position : PIDK F
  velocity : PIDK F
  acceleration : PIDK F
  deriving Repr, Inhabited

section
variable {F : Type} [Add F] [Sub F] [Mul F] [Div F] [Neg F] [LT F] [LE F] [BEq F]
  [DecidableLT F] [DecidableLE F] [FloatLike F]

/-- `PIDKValues::evaluate`: `kp * e + ki * i + kd * d` (left-assoc). -/
def PIDK.evaluate (k : PIDK F) (e i d : F) : F := k.kp * e + k.ki * i + k.kd * d
def PIDK3.get (k : PIDK3 F) : PosDer → PIDK F
  | .position => k.position | .velocity => k.velocity | .acceleration => k.acceleration
def PIDK3.evaluate (k : PIDK3 F) (pd : PosDer) (e i d : F) : F := (k.get pd).evaluate e i d

namespace Command
/-- `Command::new` -/
def new (pd : PosDer) (v : F) : Command F :=
  match pd with
  | .position => .position v | .velocity => .velocity v | .acceleration => .acceleration v
/-- `impl From<Command> for PositionDerivative` -/
def kind : Command F → PosDer
  | .position _ => .position | .velocity _ => .velocity | .acceleration _ => .acceleration
/-- `impl From<Command> for f32` -/
def raw : Command F → F
  | .position v => v | .velocity v => v | .acceleration v => v
def getPosition (chk : Bool) : Command F → Option (Quantity F)
  | .position v => some ⟨v, MILLIMETER chk⟩
  | _ => none
def getVelocity (chk : Bool) : Command F → Option (Quantity F)
  | .position _ => some ⟨c0, MILLIMETER_PER_SECOND chk⟩
  | .velocity v => some ⟨v, MILLIMETER_PER_SECOND chk⟩
  | .acceleration _ => none
def getAcceleration (chk : Bool) : Command F → Quantity F
  | .acceleration v => ⟨v, MILLIMETER_PER_SECOND_SQUARED chk⟩
  | _ => ⟨c0, MILLIMETER_PER_SECOND_SQUARED chk⟩
/-- `impl From<Command> for Quantity` -/
def toQuantity (chk : Bool) : Command F → Quantity F
  | .position v => ⟨v, MILLIMETER chk⟩
  | .velocity v => ⟨v, MILLIMETER_PER_SECOND chk⟩
  | .acceleration v => ⟨v, MILLIMETER_PER_SECOND_SQUARED chk⟩
/-- `impl TryFrom<Quantity> for Command` (exists only with checking on) -/
def tryOfQuantity (q : Quantity F) : Option (Command F) :=
  match PosDer.tryOfUnit q.unit with
  | some pd => some (new pd q.value)
  | none => none
/-- `impl Add for Command` -/
def add (a b : Command F) : Except Panic (Command F) :=
  if a.kind = b.kind then .ok (new a.kind (a.raw + b.raw)) else .error .kind
/-- `impl Sub for Command` -/
def sub (a b : Command F) : Except Panic (Command F) :=
  if a.kind = b.kind then .ok (new a.kind (a.raw - b.raw)) else .error .kind
/-- `impl Mul<f32> for Command` -/
def mulF (a : Command F) (x : F) : Command F := new a.kind (a.raw * x)
/-- `impl Div<f32> for Command` -/
def divF (a : Command F) (x : F) : Command F := new a.kind (a.raw / x)
/-- `impl Neg for Command` -/
def neg : Command F → Command F
  | .position v => .position (-v) | .velocity v => .velocity (-v) | .acceleration v => .acceleration (-v)
/-- derived `PartialEq` -/
def beq (a b : Command F) : Bool :=
  match a, b with
  | .position x, .position y => x == y
  | .velocity x, .velocity y => x == y
  | .acceleration x, .acceleration y => x == y
  | _, _ => false
end Command

namespace State
def newRaw (p v a : F) : State F := ⟨p, v, a⟩
/-- `State::new` with its three unit assertions (in source order). -/
def new (chk : Bool) (p v a : Quantity F) : Except Panic (State F) :=
  match DUnit.assertEqAssumeOk chk p.unit (MILLIMETER chk) with
  | .error e => .error e
  | .ok _ =>
  match DUnit.assertEqAssumeOk chk v.unit (MILLIMETER_PER_SECOND chk) with
  | .error e => .error e
  | .ok _ =>
  match DUnit.assertEqAssumeOk chk a.unit (MILLIMETER_PER_SECOND_SQUARED chk) with
  | .error e => .error e
  | .ok _ => .ok ⟨p.value, v.value, a.value⟩
def getPosition (chk : Bool) (s : State F) : Quantity F := ⟨s.position, MILLIMETER chk⟩
def getVelocity (chk : Bool) (s : State F) : Quantity F := ⟨s.velocity, MILLIMETER_PER_SECOND chk⟩
def getAcceleration (chk : Bool) (s : State F) : Quantity F := ⟨s.acceleration, MILLIMETER_PER_SECOND_SQUARED chk⟩
def getValue (chk : Bool) (s : State F) : PosDer → Quantity F
  | .position => s.getPosition chk | .velocity => s.getVelocity chk | .acceleration => s.getAcceleration chk
/-- `State::update`, on raw values (the unit bookkeeping of the source is well-dimensioned by
construction: `s·mm/s² = mm/s`, `s·mm/s / 1 = mm`; the Quantity-level version is `updateQ`). -/
def update (s : State F) (dt : Int) : State F :=
  let d : F := (FloatLike.ofInt dt : F) / c1e9
  let newVel := s.velocity + d * s.acceleration
  let newPos := s.position + d * (s.velocity + newVel) / c2
  ⟨newPos, newVel, s.acceleration⟩
/-- `State::update` exactly as written, through the Quantity operators (can panic on units only if
the constants were wrong). -/
def updateQ (chk : Bool) (s : State F) (dt : Int) : Except Panic (State F) :=
  let d : Quantity F := Quantity.ofTime chk dt
  let oa := s.getAcceleration chk
  let ov := s.getVelocity chk
  let op := s.getPosition chk
  match Quantity.add chk ov (Quantity.mul chk d oa) with
  | .error e => .error e
  | .ok nv =>
  match Quantity.add chk ov nv with
  | .error e => .error e
  | .ok sum =>
  match Quantity.add chk op (Quantity.div chk (Quantity.mul chk d sum) (Quantity.dimensionless chk c2)) with
  | .error e => .error e
  | .ok np => .ok ⟨np.value, nv.value, s.acceleration⟩
/-- setters: `(new state, Ok?)` -/
def setConstantAcceleration (chk : Bool) (s : State F) (q : Quantity F) : State F × Bool :=
  if DUnit.eqAssumeTrue chk q.unit (MILLIMETER_PER_SECOND_SQUARED chk) then ({ s with acceleration := q.value }, true)
  else (s, false)
def setConstantVelocity (chk : Bool) (s : State F) (q : Quantity F) : State F × Bool :=
  if DUnit.eqAssumeTrue chk q.unit (MILLIMETER_PER_SECOND chk) then ({ s with acceleration := c0, velocity := q.value }, true)
  else (s, false)
def setConstantPosition (chk : Bool) (s : State F) (q : Quantity F) : State F × Bool :=
  if DUnit.eqAssumeTrue chk q.unit (MILLIMETER chk) then (⟨q.value, c0, c0⟩, true)
  else (s, false)
def setConstantAccelerationRaw (s : State F) (a : F) : State F := { s with acceleration := a }
def setConstantVelocityRaw (s : State F) (v : F) : State F := { s with acceleration := c0, velocity := v }
def setConstantPositionRaw (_s : State F) (p : F) : State F := ⟨p, c0, c0⟩
def neg (s : State F) : State F := ⟨-s.position, -s.velocity, -s.acceleration⟩
def add (a b : State F) : State F := ⟨a.position + b.position, a.velocity + b.velocity, a.acceleration + b.acceleration⟩
def sub (a b : State F) : State F := ⟨a.position - b.position, a.velocity - b.velocity, a.acceleration - b.acceleration⟩
def mulF (a : State F) (x : F) : State F := ⟨a.position * x, a.velocity * x, a.acceleration * x⟩
def divF (a : State F) (x : F) : State F := ⟨a.position / x, a.velocity / x, a.acceleration / x⟩
end State

/-- `impl From<State> for Command`: lowest non-zero derivative (with the code's `== 0.0` tests). -/
def Command.ofState (s : State F) : Command F :=
  if s.acceleration == c0 then
    if s.velocity == c0 then .position s.position else .velocity s.velocity
  else .acceleration s.acceleration

end
end Rrtk
