/-
Model of the terminal graph (`src/lib.rs`: Terminal, connect, disconnect, the three terminal getters) and of
the devices of `src/devices.rs` (Invert, GearTrain, Axle, Differential) and `src/devices/wrappers.rs`.

A world is a finite family of terminals indexed by `Nat`; each terminal holds its own state slot, its own
command slot (the `last_request`s of its two `SettableData`) and the index of its partner (`other`).
`RefCell` borrow failures are modelled where the code can reach them (`connect`/`disconnect`).
The model is of the tree *after* the `fix:` commit that makes `connect` disconnect before borrowing both.
-/
import Rrtk.Core
import Rrtk.Streams.Stateful
namespace Rrtk

/-- `rrtk::TerminalData` -/
structure TerminalData (F : Type) where
  time : Int
  command : Option (Command F)
  state : Option (State F)

/-- one terminal -/
structure Term (F : Type) where
  state : Option (Datum (State F))
  command : Option (Datum (Command F))
  other : Option Nat

/-- the terminal graph: `n` terminals, `t i` meaningful for `i < n` -/
structure World (F : Type) where
  n : Nat
  t : Nat → Term F

namespace World
variable {F : Type}

def freshTerm : Term F := ⟨none, none, none⟩
/-- no terminals -/
def empty : World F := ⟨0, fun _ => freshTerm⟩
/-- add `k` fresh terminals -/
def addTerms (w : World F) (k : Nat) : World F := { w with n := w.n + k }
/-- replace terminal `i` -/
def setT (w : World F) (i : Nat) (x : Term F) : World F :=
  { w with t := fun j => if j = i then x else w.t j }
def setOther (w : World F) (i : Nat) (o : Option Nat) : World F := w.setT i { w.t i with other := o }
/-- `Settable<Datum<State>>::set` on terminal `i` (`impl_set` always succeeds) -/
def setState (w : World F) (i : Nat) (d : Datum (State F)) : World F := w.setT i { w.t i with state := some d }
/-- `Settable<Datum<Command>>::set` -/
def setCommand (w : World F) (i : Nat) (d : Datum (Command F)) : World F := w.setT i { w.t i with command := some d }

/-- `Terminal::disconnect` called on terminal `i` (already mutably borrowed): borrows the partner mutably —
a terminal linked to itself would double-borrow. -/
def disconnect (w : World F) (i : Nat) : Except Panic (World F) :=
  match (w.t i).other with
  | none => .ok w
  | some p => if p = i then .error .borrow else .ok ((w.setOther p none).setOther i none)

/-- `rrtk::connect(term_i, term_j)` (fixed version): disconnect each, then borrow both and link. -/
def connect (w : World F) (i j : Nat) : Except Panic (World F) :=
  match disconnect w i with
  | .error e => .error e
  | .ok w1 =>
    match disconnect w1 j with
    | .error e => .error e
    | .ok w2 =>
      if i = j then .error .borrow    -- `term1.borrow_mut()` and `term2.borrow_mut()` on the same cell
      else .ok ((w2.setOther i (some j)).setOther j (some i))
end World

section
variable {F : Type} [Add F] [Sub F] [Mul F] [Div F] [Neg F] [LT F] [LE F] [BEq F]
  [DecidableLT F] [DecidableLE F] [FloatLike F]

namespace World
/-- the partner's own state slot, if connected -/
def partnerState (w : World F) (i : Nat) : Option (Datum (State F)) :=
  match (w.t i).other with
  | some p => (w.t p).state
  | none => none
def partnerCommand (w : World F) (i : Nat) : Option (Datum (Command F)) :=
  match (w.t i).other with
  | some p => (w.t p).command
  | none => none

/-- `impl Getter<State> for Terminal`: mean of own and partner's latest states, or whichever exists. -/
def getState (w : World F) (i : Nat) : Option (Datum (State F)) :=
  match (w.t i).state, w.partnerState i with
  | none, none => none
  | some a, none => some a
  | none, some b => some b
  | some a, some b => some (Datum.scalar State.divF (Datum.combine State.add a b) c2)

/-- `impl Getter<Command> for Terminal`: the newer of the two commands (own on ties). -/
def getCommand (w : World F) (i : Nat) : Option (Datum (Command F)) :=
  match (w.t i).command, w.partnerCommand i with
  | none, g => g
  | some c, none => some c
  | some c, some g => if g.time > c.time then some g else some c

/-- `impl Getter<TerminalData> for Terminal` -/
def getTerminalData (w : World F) (i : Nat) : Option (Datum (TerminalData F)) :=
  let command := w.getCommand i
  let state := w.getState i
  let tc : Option Int × Option (Command F) := match command with
    | some dc => (some dc.time, some dc.value)
    | none => (none, none)
  let ts : Option Int × Option (State F) := match state with
    | some ds => (some ds.time, some ds.value)
    | none => (tc.1, none)
  match ts.1 with
  | some time => some ⟨time, ⟨time, tc.2, ts.2⟩⟩
  | none => none
end World

/-! ### devices: each `update` maps a world to a world (none of them can fail: terminal getters never err) -/

/-- `Invert::update` on terminals `i1`, `i2` -/
def Invert.update (w : World F) (i1 i2 : Nat) : World F :=
  let get1 := w.getState i1
  let get2 := w.getState i2
  let w1 : World F := match get1, get2 with
    | none, none => w
    | none, some d2 => w.setState i1 ⟨d2.time, State.neg d2.value⟩
    | some d1, none => w.setState i2 ⟨d1.time, State.neg d1.value⟩
    | some d1, some d2 =>
      let time := if d1.time ≥ d2.time then d1.time else d2.time
      let ns := State.divF (State.sub d1.value d2.value) c2
      (w.setState i1 ⟨time, ns⟩).setState i2 ⟨time, State.neg ns⟩
  let c1 := w1.getCommand i1
  let c2' := w1.getCommand i2
  let m0 := (Datum.replaceIfNoneOrOlderThanOption none c1).1
  let m1 := match c2' with
    | some x => (Datum.replaceIfNoneOrOlderThan m0 (Datum.map Command.neg x)).1
    | none => m0
  match m1 with
  | some dc => (w1.setCommand i1 dc).setCommand i2 (Datum.map Command.neg dc)
  | none => w1

/-- `GearTrain::new(teeth)`: ratio `first / last · (−1)^(N−1)`; fewer than two gears panics. -/
def GearTrain.ratioOfTeeth (teeth : List F) : Except Panic F :=
  match teeth, teeth.getLast? with
  | first :: _ :: _, some last => .ok (first / last * (if teeth.length % 2 = 0 then cm1 else c1))
  | _, _ => .error .arity

/-- `GearTrain::with_ratio` -/
def GearTrain.withRatio (chk : Bool) (r : Quantity F) : Except Panic F :=
  match DUnit.assertEqAssumeOk chk r.unit (DIMENSIONLESS chk) with
  | .ok _ => .ok r.value
  | .error e => .error e

/-- `GearTrain::update` -/
def GearTrain.update (ratio : F) (w : World F) (i1 i2 : Nat) : World F :=
  let get1 := w.getState i1
  let get2 := w.getState i2
  let w1 : World F := match get1, get2 with
    | some d1, some d2 =>
      let time := if d1.time ≥ d2.time then d1.time else d2.time
      let r2p1 := ratio * ratio + c1
      let xpry := State.add d1.value (State.mulF d2.value ratio)
      let n1 := State.divF xpry r2p1
      let n2 := State.divF (State.mulF xpry ratio) r2p1
      (w.setState i1 ⟨time, n1⟩).setState i2 ⟨time, n2⟩
    | some d1, none => w.setState i2 (Datum.scalar State.mulF d1 ratio)
    | none, some d2 => w.setState i1 (Datum.scalar State.divF d2 ratio)
    | none, none => w
  let c1' := w1.getCommand i1
  let c2' := w1.getCommand i2
  match c1', c2' with
  | some d1, some d2 =>
    if d1.time ≥ d2.time then w1.setCommand i2 (Datum.scalar Command.mulF d1 ratio)
    else w1.setCommand i1 (Datum.scalar Command.divF d2 ratio)
  | some d1, none => w1.setCommand i2 (Datum.scalar Command.mulF d1 ratio)
  | none, some d2 => w1.setCommand i1 (Datum.scalar Command.divF d2 ratio)
  | none, none => w1

/-- `Axle::update` on the terminal list `is` -/
def Axle.update (w : World F) (is : List Nat) : World F :=
  let start : Datum (State F) × Nat := (⟨-9223372036854775808, ⟨c0, c0, c0⟩⟩, 0)
  let acc := is.foldl (fun (a : Datum (State F) × Nat) i =>
    match w.getState i with
    | some g => (Datum.combine State.add a.1 g, a.2 + 1)
    | none => a) start
  let w1 : World F :=
    if acc.2 ≥ 1 then
      let d := Datum.scalar State.divF acc.1 (FloatLike.ofInt (acc.2 : Int) : F)
      is.foldl (fun w' i => w'.setState i d) w
    else w
  let m := is.foldl (fun (m : Option (Datum (Command F))) i =>
    (Datum.replaceIfNoneOrOlderThanOption m (w1.getCommand i)).1) none
  match m with
  | some dc => is.foldl (fun w' i => w'.setCommand i dc) w1
  | none => w1

/-- `DifferentialDistrust` -/
inductive Distrust | side1 | side2 | sum | equal
  deriving DecidableEq, Repr

/-- `Differential::update` on (side1, side2, sum) -/
def Differential.update (mode : Distrust) (w : World F) (i1 i2 isum : Nat) : World F :=
  let dAdd := Datum.combine (State.add (F := F))
  let dSub := Datum.combine (State.sub (F := F))
  let dMul := fun (d : Datum (State F)) (x : F) => Datum.scalar State.mulF d x
  let dDiv := fun (d : Datum (State F)) (x : F) => Datum.scalar State.divF d x
  let dNeg := fun (d : Datum (State F)) => Datum.map State.neg d
  match mode with
  | .side1 =>
    match w.getState isum with
    | none => w
    | some sum =>
      match w.getState i2 with
      | none => w
      | some side2 => w.setState i1 (dSub sum side2)
  | .side2 =>
    match w.getState isum with
    | none => w
    | some sum =>
      match w.getState i1 with
      | none => w
      | some side1 => w.setState i2 (dSub sum side1)
  | .sum =>
    match w.getState i1 with
    | none => w
    | some side1 =>
      match w.getState i2 with
      | none => w
      | some side2 => w.setState isum (dAdd side1 side2)
  | .equal =>
    match w.getState isum with
    | none => w
    | some sum =>
      match w.getState i1 with
      | none => w
      | some side1 =>
        match w.getState i2 with
        | none => w
        | some side2 =>
          let wa := w.setState isum (dDiv (dAdd (dAdd side1 side2) (dMul sum c2)) c3)
          let wb := wa.setState i1 (dDiv (dAdd (dSub (dMul side1 c2) side2) sum) c3)
          wb.setState i2 (dDiv (dAdd (dAdd (dNeg side1) (dMul side2 c2)) sum) c3)

/-! ### wrappers (`src/devices/wrappers.rs`): inner objects are scripted -/

/-- `ActuatorWrapper::update`: `acc` = what the inner settable's `impl_set` returns, `iu` = what its `update` returns.
Result: (what the inner settable accepted, whether the inner `update` ran, return value). -/
def ActuatorWrapper.update (w : World F) (i : Nat) (acc iu : UpdRet) :
    Option (TerminalData F) × Bool × UpdRet :=
  match w.getTerminalData i with
  | some td =>
    match acc with
    | .error e => (none, false, .error e)
    | .ok _ => (some td.value, true, iu)
  | none => (none, true, iu)

/-- `GetterStateDeviceWrapper::update`: `iu` = inner `update()` result, `g` = inner `get()` afterwards. -/
def EncoderWrapper.update (w : World F) (i : Nat) (iu : UpdRet) (g : Output (State F)) : World F × UpdRet :=
  match iu with
  | .error e => (w, .error e)
  | .ok _ =>
    match g with
    | .error e => (w, .error e)
    | .ok none => (w, .ok ())
    | .ok (some d) => (w.setState i d, .ok ())

/-- the state a `PIDWrapper` owns besides its terminal: the clock, the two constant getters' values, the PID -/
structure PidW (F : Type) where
  time : Int
  state : State F
  command : Command F
  pid : CpidS F

/-- `PIDWrapper::new` -/
def PidW.init (t : Int) (s : State F) (c : Command F) : PidW F := ⟨t, s, c, Cpid.init c⟩

/-- `PIDWrapper::update`. `acc` = what the motor's `impl_set` returns, `iu` = what the motor's own update
returns after following. Result: new wrapper state, value handed to the motor (if accepted), return value. -/
def PidW.update (chk : Bool) (k : PIDK3 F) (p : PidW F) (w : World F) (i : Nat) (acc iu : UpdRet) :
    PidW F × Option F × UpdRet :=
  let p1 : PidW F := match w.getTerminalData i with
    | some td =>
      let time := td.value.time
      let st := match td.value.state with | some s => s | none => p.state
      let cm := match td.value.command with | some c => c | none => p.command
      let r := Cpid.step chk k p.pid (some (.ok (some ⟨time, cm⟩))) (.ok (some ⟨time, st⟩))
      ⟨time, st, cm, r.1⟩
    | none => p
  -- the motor follows the PID: `update_following_data` then its own update
  match Cpid.get p1.pid with
  | .error e => (p1, none, .error e)
  | .ok none => (p1, none, iu)
  | .ok (some d) =>
    match acc with
    | .error e => (p1, none, .error e)
    | .ok _ => (p1, some d.value, iu)

end
end Rrtk
