/-
Model of `src/dimensions.rs`: `Unit`, `Quantity`, `Time`, `DimensionlessInteger` and every operator impl.
`chk : Bool` is "dimension checking compiled in" (`dim_check_release`, or `dim_check_debug` in a
debug build).  With `chk = false` the Rust `Unit` is a zero-sized type: the model keeps the
structure but every constructor/operator yields the canonical `⟨0,0⟩` and comparisons assume equality.
-/
import Rrtk.Scalar
namespace Rrtk

/-- `rrtk::Unit`: exponents of millimetre and second. (`i8` in Rust; see DESIGN §2.1.) -/
structure DUnit where
  mm : Int
  s : Int
  deriving DecidableEq, Repr, Inhabited

namespace DUnit
/-- `Unit::new` -/
def new (chk : Bool) (mm s : Int) : DUnit := if chk then ⟨mm, s⟩ else ⟨0, 0⟩
/-- `const_eq` (only exists when checking is on) -/
def constEq (a b : DUnit) : Bool := a.mm == b.mm && a.s == b.s
/-- `eq_assume_true` -/
def eqAssumeTrue (chk : Bool) (a b : DUnit) : Bool := if chk then constEq a b else true
/-- `eq_assume_false` -/
def eqAssumeFalse (chk : Bool) (a b : DUnit) : Bool := if chk then constEq a b else false
/-- `assert_eq_assume_ok` -/
def assertEqAssumeOk (chk : Bool) (a b : DUnit) : Except Panic Unit :=
  if eqAssumeTrue chk a b then .ok () else .error .dim
/-- `assert_eq_assume_not_ok` -/
def assertEqAssumeNotOk (chk : Bool) (a b : DUnit) : Except Panic Unit :=
  if eqAssumeFalse chk a b then .ok () else .error .dim
/-- `impl Add for Unit` (also `AddAssign`: asserts and leaves `self`). -/
def add (chk : Bool) (a b : DUnit) : Except Panic DUnit :=
  match assertEqAssumeOk chk a b with
  | .ok _ => .ok a
  | .error e => .error e
/-- `impl Sub for Unit` -/
def sub (chk : Bool) (a b : DUnit) : Except Panic DUnit :=
  match assertEqAssumeOk chk a b with
  | .ok _ => .ok a
  | .error e => .error e
/-- `impl Mul for Unit` -/
def mul (chk : Bool) (a b : DUnit) : DUnit := if chk then ⟨a.mm + b.mm, a.s + b.s⟩ else ⟨0, 0⟩
/-- `impl Div for Unit` -/
def div (chk : Bool) (a b : DUnit) : DUnit := if chk then ⟨a.mm - b.mm, a.s - b.s⟩ else ⟨0, 0⟩
/-- `impl Neg for Unit` -/
def neg (a : DUnit) : DUnit := a
end DUnit

/-- Named constants used by the crate's own code (`src/dimensions/constants.rs`; the full table is
regenerated in `Gen/Constants.lean`). -/
def DIMENSIONLESS (chk : Bool) : DUnit := DUnit.new chk 0 0
def SECOND (chk : Bool) : DUnit := DUnit.new chk 0 1
def MILLIMETER (chk : Bool) : DUnit := DUnit.new chk 1 0
def MILLIMETER_PER_SECOND (chk : Bool) : DUnit := DUnit.new chk 1 (-1)
def MILLIMETER_PER_SECOND_SQUARED (chk : Bool) : DUnit := DUnit.new chk 1 (-2)

/-- `rrtk::PositionDerivative` -/
inductive PosDer where
  | position | velocity | acceleration
  deriving DecidableEq, Repr, Inhabited

/-- `impl From<PositionDerivative> for Unit` -/
def DUnit.ofPosDer (chk : Bool) : PosDer → DUnit
  | .position => if chk then ⟨1, 0⟩ else ⟨0, 0⟩
  | .velocity => if chk then ⟨1, -1⟩ else ⟨0, 0⟩
  | .acceleration => if chk then ⟨1, -2⟩ else ⟨0, 0⟩

/-- `impl TryFrom<Unit> for PositionDerivative` (exists only with checking on) -/
def PosDer.tryOfUnit (u : DUnit) : Option PosDer :=
  if u = ⟨1, 0⟩ then some .position
  else if u = ⟨1, -1⟩ then some .velocity
  else if u = ⟨1, -2⟩ then some .acceleration
  else none

/-- `rrtk::Quantity` -/
structure Quantity (F : Type) where
  value : F
  unit : DUnit
  deriving Repr, Inhabited

section
variable {F : Type} [Add F] [Sub F] [Mul F] [Div F] [Neg F] [LT F] [LE F] [BEq F]
  [DecidableLT F] [DecidableLE F] [FloatLike F]

namespace Quantity
def new (v : F) (u : DUnit) : Quantity F := ⟨v, u⟩
def dimensionless (chk : Bool) (v : F) : Quantity F := ⟨v, DIMENSIONLESS chk⟩
/-- `Quantity::abs` with `std` -/
def abs (q : Quantity F) : Quantity F := ⟨FloatLike.absF q.value, q.unit⟩
/-- `Quantity::abs` without `std`: `if v >= 0.0 { v } else { -v }` -/
def absManual (q : Quantity F) : Quantity F :=
  ⟨if (c0 : F) ≤ q.value then q.value else -q.value, q.unit⟩
/-- `impl Add for Quantity` -/
def add (chk : Bool) (a b : Quantity F) : Except Panic (Quantity F) :=
  match DUnit.add chk a.unit b.unit with
  | .ok u => .ok ⟨a.value + b.value, u⟩
  | .error e => .error e
/-- `impl Sub for Quantity` -/
def sub (chk : Bool) (a b : Quantity F) : Except Panic (Quantity F) :=
  match DUnit.sub chk a.unit b.unit with
  | .ok u => .ok ⟨a.value - b.value, u⟩
  | .error e => .error e
/-- `impl Mul for Quantity` -/
def mul (chk : Bool) (a b : Quantity F) : Quantity F := ⟨a.value * b.value, DUnit.mul chk a.unit b.unit⟩
/-- `impl Div for Quantity` -/
def div (chk : Bool) (a b : Quantity F) : Quantity F := ⟨a.value / b.value, DUnit.div chk a.unit b.unit⟩
/-- `impl Neg for Quantity` -/
def neg (a : Quantity F) : Quantity F := ⟨-a.value, a.unit⟩
/-- `f32::partial_cmp` -/
def cmpF (a b : F) : Option Ordering :=
  if a < b then some .lt else if a == b then some .eq else if b < a then some .gt else none
/-- `impl PartialOrd for Quantity` -/
def partialCmp (chk : Bool) (a b : Quantity F) : Except Panic (Option Ordering) :=
  match DUnit.assertEqAssumeOk chk a.unit b.unit with
  | .ok _ => .ok (cmpF a.value b.value)
  | .error e => .error e
/-- `PartialEq for Quantity`: derived when checking (value and unit), hand-written otherwise. -/
def eq (chk : Bool) (a b : Quantity F) : Bool :=
  if chk then (a.value == b.value && DUnit.constEq a.unit b.unit)
  else (if DUnit.eqAssumeTrue chk a.unit b.unit then a.value == b.value else false)
end Quantity

/-- `impl From<Time> for Quantity`: `was.0 as f32 / 1_000_000_000.0`, in seconds. -/
def Quantity.ofTime (chk : Bool) (t : Int) : Quantity F :=
  ⟨(FloatLike.ofInt t : F) / c1e9, SECOND chk⟩
/-- `impl TryFrom<Quantity> for Time` -/
def Time.tryOfQuantity (chk : Bool) (q : Quantity F) : Option Int :=
  if DUnit.eqAssumeTrue chk q.unit (SECOND chk) then some (FloatLike.toInt (q.value * c1e9)) else none
/-- `impl From<DimensionlessInteger> for Quantity` -/
def Quantity.ofDimInt (chk : Bool) (n : Int) : Quantity F :=
  ⟨(FloatLike.ofInt n : F), DIMENSIONLESS chk⟩
/-- `impl TryFrom<Quantity> for DimensionlessInteger` -/
def DimInt.tryOfQuantity (chk : Bool) (q : Quantity F) : Option Int :=
  if DUnit.eqAssumeTrue chk q.unit (DIMENSIONLESS chk) then some (FloatLike.toInt q.value) else none

/-! ### `Time` and `DimensionlessInteger` integer operators (debug build: overflow panics) -/
namespace I64
def add (a b : Int) : Except Panic Int := chkI64 (a + b)
def sub (a b : Int) : Except Panic Int := chkI64 (a - b)
def mul (a b : Int) : Except Panic Int := chkI64 (a * b)
def neg (a : Int) : Except Panic Int := chkI64 (-a)
/-- `i64 / i64`: truncating; `/0` and `MIN / -1` panic. -/
def div (a b : Int) : Except Panic Int :=
  if b = 0 then .error .div0 else chkI64 (Int.tdiv a b)
end I64

/-! ### Mixed operators, written as the source writes them -/
namespace Time
/-- `impl Mul for Time` → Quantity -/
def mulTime (chk : Bool) (a b : Int) : Quantity F := Quantity.mul chk (Quantity.ofTime chk a) (Quantity.ofTime chk b)
/-- `impl Div for Time` → Quantity -/
def divTime (chk : Bool) (a b : Int) : Quantity F := Quantity.div chk (Quantity.ofTime chk a) (Quantity.ofTime chk b)
/-- `impl Add<Quantity> for Time` -/
def addQ (chk : Bool) (a : Int) (q : Quantity F) : Except Panic (Quantity F) := Quantity.add chk (Quantity.ofTime chk a) q
def subQ (chk : Bool) (a : Int) (q : Quantity F) : Except Panic (Quantity F) := Quantity.sub chk (Quantity.ofTime chk a) q
/-- `impl Mul<Quantity> for Time`: `rhs * self` -/
def mulQ (chk : Bool) (a : Int) (q : Quantity F) : Quantity F := Quantity.mul chk q (Quantity.ofTime chk a)
def divQ (chk : Bool) (a : Int) (q : Quantity F) : Quantity F := Quantity.div chk (Quantity.ofTime chk a) q
end Time

namespace DimInt
/-- `impl Div<Time> for DimensionlessInteger` -/
def divTime (chk : Bool) (a t : Int) : Quantity F := Quantity.div chk (Quantity.ofDimInt chk a) (Quantity.ofTime chk t)
def addQ (chk : Bool) (a : Int) (q : Quantity F) : Except Panic (Quantity F) := Quantity.add chk (Quantity.ofDimInt chk a) q
def subQ (chk : Bool) (a : Int) (q : Quantity F) : Except Panic (Quantity F) := Quantity.sub chk (Quantity.ofDimInt chk a) q
/-- `impl Mul<Quantity> for DimensionlessInteger`: `rhs * self` -/
def mulQ (chk : Bool) (a : Int) (q : Quantity F) : Quantity F := Quantity.mul chk q (Quantity.ofDimInt chk a)
def divQ (chk : Bool) (a : Int) (q : Quantity F) : Quantity F := Quantity.div chk (Quantity.ofDimInt chk a) q
end DimInt

namespace Quantity
def addTime (chk : Bool) (q : Quantity F) (t : Int) : Except Panic (Quantity F) := add chk q (ofTime chk t)
def subTime (chk : Bool) (q : Quantity F) (t : Int) : Except Panic (Quantity F) := sub chk q (ofTime chk t)
def addDimInt (chk : Bool) (q : Quantity F) (n : Int) : Except Panic (Quantity F) := add chk q (ofDimInt chk n)
def subDimInt (chk : Bool) (q : Quantity F) (n : Int) : Except Panic (Quantity F) := sub chk q (ofDimInt chk n)
def mulTime (chk : Bool) (q : Quantity F) (t : Int) : Quantity F := mul chk q (ofTime chk t)
def divTime (chk : Bool) (q : Quantity F) (t : Int) : Quantity F := div chk q (ofTime chk t)
def mulDimInt (chk : Bool) (q : Quantity F) (n : Int) : Quantity F := mul chk q (ofDimInt chk n)
def divDimInt (chk : Bool) (q : Quantity F) (n : Int) : Quantity F := div chk q (ofDimInt chk n)
end Quantity

end
end Rrtk
