/- Driver plumbing: a tiny monad that accumulates output tokens and can stop with PANIC / NOIMPL / BADLINE. -/
import Rrtk.Wire
namespace Rrtk.Drv
open Rrtk Rrtk.Wire

inductive Stop
  | panic (p : Panic)
  | noimpl
  | bad

abbrev M := ExceptT Stop (StateM (Array String))

def emit (s : String) : M Unit := modify (·.push s)
def need {α : Type} : Option α → M α
  | some a => pure a
  | none => throw .bad
def liftP {α : Type} : Except Panic α → M α
  | .ok a => pure a
  | .error p => throw (.panic p)
def noimpl {α : Type} : M α := throw .noimpl

/-- run a case; produce the output line -/
def runM (m : M Unit) : String :=
  let (r, toks) := (ExceptT.run m).run #[]
  match r with
  | .ok _ => " ".intercalate toks.toList
  | .error (.panic p) => " ".intercalate (toks.toList ++ [sPanic p])
  | .error .noimpl => "NOIMPL"
  | .error .bad => "BADLINE"

/-- value printers/parsers by protocol type tag, as a small record -/
structure Codec (α : Type) where
  p : String → Option α
  s : α → String

def cF : Codec F := ⟨pF, sF⟩
def cB : Codec Bool := ⟨pB, sB⟩
def cQ : Codec (Quantity F) := ⟨pQ, sQ⟩
/-- quantities read from the wire go through `Unit::new`, as in the harness -/
def mkQc (chk : Bool) : Codec (Quantity F) := ⟨fun s => (pQ s).map (fun q => ⟨q.value, DUnit.new chk q.unit.mm q.unit.s⟩), sQ⟩
def cS : Codec (State F) := ⟨pState, sState⟩
def cC : Codec (Command F) := ⟨pCmd, sCmd⟩

def pK3 (l : List String) : Option (PIDK3 F) :=
  match l.mapM pF with
  | some [a, b, c, d, e, f, g, h, i] => some ⟨⟨a, b, c⟩, ⟨d, e, f⟩, ⟨g, h, i⟩⟩
  | _ => none

end Rrtk.Drv
