/- Driver, group `d`: `src/datum.rs` and `latest`. -/
import Rrtk.Drv.Base
namespace Rrtk.Drv
open Rrtk Rrtk.Wire

/-- datum ∘ (datum | scalar) with a total operator -/
def dBin {α β : Type} (ca : Codec α) (cb : Codec β) (op : α → β → α) (a b : String) : M Unit := do
  let x ← need (pDatum ca.p a)
  if b.contains '@' then
    let y ← need (pDatum cb.p b)
    emit (sDatum ca.s (Datum.combine op x y))
  else
    let y ← need (cb.p b)
    emit (sDatum ca.s (Datum.scalar op x y))

/-- same with a panicking operator (Quantity add/sub, Command add/sub): the value operator runs first -/
def dBinP {α β : Type} (ca : Codec α) (cb : Codec β) (op : α → β → Except Panic α) (a b : String) : M Unit := do
  let x ← need (pDatum ca.p a)
  if b.contains '@' then
    let y ← need (pDatum cb.p b)
    let v ← liftP (op x.value y.value)
    emit (sDatum ca.s (Datum.combine (fun _ _ => v) x y))
  else
    let y ← need (cb.p b)
    let v ← liftP (op x.value y)
    emit (sDatum ca.s (Datum.scalar (fun _ _ => v) x y))

def dSel {α : Type} (c : Codec α) (op a b : String) : M Unit := do
  match op with
  | "rio" =>
    let x ← need (pDatum c.p a); let y ← need (pDatum c.p b)
    let r := Datum.replaceIfOlderThan x y
    emit (sDatum c.s r.1); emit (sB r.2)
  | "rino" =>
    let x ← need (pOpt (pDatum c.p) a); let y ← need (pDatum c.p b)
    let r := Datum.replaceIfNoneOrOlderThan x y
    emit (sOpt (sDatum c.s) r.1); emit (sB r.2)
  | "rinoo" =>
    let x ← need (pOpt (pDatum c.p) a); let y ← need (pOpt (pDatum c.p) b)
    let r := Datum.replaceIfNoneOrOlderThanOption x y
    emit (sOpt (sDatum c.s) r.1); emit (sB r.2)
  | "latest" =>
    let x ← need (pDatum c.p a); let y ← need (pDatum c.p b)
    emit (sDatum c.s (Datum.latest x y))
  | _ => noimpl

def runD (chk : Bool) (toks : List String) : M Unit := do
  let cQ' := mkQc chk
  match toks with
  | [op, ty, a, b] =>
    let ty ← need (pTy ty)
    if ["rio", "rino", "rinoo", "latest"].contains op then
      match ty with
      | .f => dSel cF op a b | .b => dSel cB op a b | .q => dSel cQ' op a b
      | .s => dSel cS op a b | .c => dSel cC op a b | .w => dSel ⟨pW, sW⟩ op a b
    else
    let base := if op.endsWith "as" && op.length == 5 then (op.take 3).toString else op
    match ty, base with
    | .f, "add" => dBin cF cF (· + ·) a b
    | .f, "sub" => dBin cF cF (· - ·) a b
    | .f, "mul" => dBin cF cF (· * ·) a b
    | .f, "div" => dBin cF cF (· / ·) a b
    | .w, "add" => dBin ⟨pW, sW⟩ ⟨pW, sW⟩ (wCat "") a b
    | .w, "sub" => dBin ⟨pW, sW⟩ ⟨pW, sW⟩ (wCat "m") a b
    | .w, "mul" => dBin ⟨pW, sW⟩ ⟨pW, sW⟩ (wCat "x") a b
    | .w, "div" => dBin ⟨pW, sW⟩ ⟨pW, sW⟩ (wCat "d") a b
    | .q, "add" => dBinP cQ' cQ' (Quantity.add chk) a b
    | .q, "sub" => dBinP cQ' cQ' (Quantity.sub chk) a b
    | .q, "mul" => dBin cQ' cQ' (Quantity.mul chk) a b
    | .q, "div" => dBin cQ' cQ' (Quantity.div chk) a b
    | .s, "add" => dBin cS cS State.add a b
    | .s, "sub" => dBin cS cS State.sub a b
    | .s, "mul" => dBin cS cF State.mulF a b
    | .s, "div" => dBin cS cF State.divF a b
    | .c, "add" => dBinP cC cC Command.add a b
    | .c, "sub" => dBinP cC cC Command.sub a b
    | .c, "mul" => dBin cC cF Command.mulF a b
    | .c, "div" => dBin cC cF Command.divF a b
    | _, _ => noimpl
  | [op, ty, a] =>
    let ty ← need (pTy ty)
    match op, ty with
    | "neg", .f => emit (sDatum sF (Datum.map (fun x : F => -x) (← need (pDatum pF a))))
    | "neg", .q => emit (sDatum sQ (Datum.map Quantity.neg (← need (pDatum cQ'.p a))))
    | "neg", .s => emit (sDatum sState (Datum.map State.neg (← need (pDatum pState a))))
    | "neg", .c => emit (sDatum sCmd (Datum.map Command.neg (← need (pDatum pCmd a))))
    | "not", .b => emit (sDatum sB (Datum.map (fun x : Bool => !x) (← need (pDatum pB a))))
    | _, _ => noimpl
  | _ => noimpl

end Rrtk.Drv
