/- Driver, groups `dv` (terminals and devices) and `wr` (wrappers). -/
import Rrtk.Drv.Base
import Rrtk.Drv.Se
import Rrtk.Devices
import Rrtk.TermFollow
namespace Rrtk.Drv
open Rrtk Rrtk.Wire

inductive Dev where
  | inv (i1 i2 : Nat)
  | gear (r : F) (i1 i2 : Nat)
  | axle (is : List Nat)
  | diff (m : Distrust) (i1 i2 isum : Nat)

def Dev.update (d : Dev) (w : World F) : World F :=
  match d with
  | .inv a b => Invert.update w a b
  | .gear r a b => GearTrain.update r w a b
  | .axle is => Axle.update w is
  | .diff m a b c => Differential.update m w a b c

/-- the terminals a device owns, in the order `update_terminals` visits them -/
def Dev.terminals (d : Dev) : List Nat :=
  match d with
  | .inv a b => [a, b]
  | .gear _ a b => [a, b]
  | .axle is => is
  | .diff _ a b c => [a, b, c]

/-- `E<n>` | `EN` | `N` | `S@<outer time>@<time>@<value>`: the output of a getter of `Datum<α>` (a terminal follows such getters) -/
def pOutDatum {α : Type} (pv : String → Option α) (s : String) : Option (Output (Datum α)) :=
  if s == "N" then some (.ok none)
  else if s.startsWith "S@" then
    match (s.drop 2).toString.splitOn "@" with
    | [t, ti, v] => match t.toInt?, pDatum pv (ti ++ "@" ++ v) with
      | some t, some d => some (.ok (some ⟨t, d⟩))
      | _, _ => none
    | _ => none
  else (pErr s).map .error

def sTd (td : TerminalData F) : String := s!"{td.time}~{sOpt sCmd td.command}~{sOpt sState td.state}"
def sTdOut (o : Option (Datum (TerminalData F))) : String :=
  match o with
  | none => "N"
  | some d => s!"S@{d.time}@{sTd d.value}"
def sOptOut {α : Type} (sv : α → String) (o : Option (Datum α)) : String :=
  match o with
  | none => "N"
  | some d => s!"S@{d.time}@{sv d.value}"

def sRead (w : World F) (i : Nat) : String :=
  s!"{sOptOut sState (w.getState i)};{sOptOut sCmd (w.getCommand i)};{sTdOut (w.getTerminalData i)}"
def sOwn (w : World F) (i : Nat) : String :=
  s!"{sOpt (sDatum sState) (w.t i).state};{sOpt (sDatum sCmd) (w.t i).command}"

def pDistrust (s : String) : Option Distrust :=
  if s == "S1" then some .side1 else if s == "S2" then some .side2
  else if s == "SU" then some .sum else if s == "EQ" then some .equal else none

/-- setup tokens -/
def dvSetup (chk : Bool) (toks : List String) : M (World F × Array Dev) := do
  let mut w : World F := World.empty
  let mut devs : Array Dev := #[]
  for tk in toks do
    let n := w.n
    if tk.startsWith "free:" then
      let k ← need (tk.drop 5).toString.toNat?
      if k > 1024 then noimpl
      w := w.addTerms k
    else if tk == "inv" then
      w := w.addTerms 2; devs := devs.push (.inv n (n + 1))
    else if tk.startsWith "gear:" then
      let r ← need (pF (tk.drop 5).toString)
      w := w.addTerms 2; devs := devs.push (.gear r n (n + 1))
    else if tk.startsWith "gearq:" then
      let q ← need ((mkQc chk).p (tk.drop 6).toString)
      let r ← liftP (GearTrain.withRatio chk q)
      w := w.addTerms 2; devs := devs.push (.gear r n (n + 1))
    else if tk.startsWith "geart:" then
      let parts := (tk.drop 6).toString.splitOn "+"
      let teeth ← parts.mapM (fun p => need (pF p))
      if teeth.length > 6 then noimpl
      let r ← liftP (GearTrain.ratioOfTeeth teeth)
      w := w.addTerms 2; devs := devs.push (.gear r n (n + 1))
    else if tk.startsWith "axle:" then
      let k ← need (tk.drop 5).toString.toNat?
      if k > 8 then noimpl
      w := w.addTerms k; devs := devs.push (.axle (List.range k |>.map (· + n)))
    else if tk.startsWith "diff:" then
      let m ← need (pDistrust (tk.drop 5).toString)
      w := w.addTerms 3; devs := devs.push (.diff m n (n + 1) (n + 2))
    else if tk == "diffnew" then
      w := w.addTerms 3; devs := devs.push (.diff .equal n (n + 1) (n + 2))
    else throw .bad
  return (w, devs)

def splitAtDashes (l : List String) : List String × List String :=
  match l.span (· != "--") with
  | (a, _ :: b) => (a, b)
  | (a, []) => (a, [])

def pIdx (w : World F) (s : String) : M Nat := do
  let i ← need s.toNat?
  if i < w.n then pure i else throw .bad

def runDv (chk : Bool) (toks : List String) : M Unit := do
  match toks with
  | ["axlegt", n, k] =>
    -- `Axle::<n>::get_terminal(k)`: slice indexing, out of range panics
    let n ← need n.toNat?; let k ← need k.toNat?
    if n > 8 || k > 1000 then noimpl
    if k < n then emit "ok" else throw (.panic .oob)
    return
  | _ => pure ()
  if !toks.contains "--" then throw .bad
  let (setup, ops) := splitAtDashes toks
  let (w0, devs) ← dvSetup chk setup
  let mut w := w0
  -- per terminal: is the slot following its scripted getter, and what that getter returns now
  let mut folS : Array Bool := Array.replicate w0.n false
  let mut folC : Array Bool := Array.replicate w0.n false
  let mut outS : Array (Output (Datum (State F))) := Array.replicate w0.n (.ok none)
  let mut outC : Array (Output (Datum (Command F))) := Array.replicate w0.n (.ok none)
  for op in ops do
    let fo : Nat → Followed F := fun i =>
      ⟨if folC[i]?.getD false then outC[i]? else none, if folS[i]?.getD false then outS[i]? else none⟩
    match op.splitOn ":" with
    | ["fs", i] => let i ← pIdx w i; folS := folS.set! i true; emit "-"
    | ["fc", i] => let i ← pIdx w i; folC := folC.set! i true; emit "-"
    | ["nfs", i] => let i ← pIdx w i; folS := folS.set! i false; emit "-"
    | ["nfc", i] => let i ← pIdx w i; folC := folC.set! i false; emit "-"
    | ["gs", i, o] => let i ← pIdx w i; outS := outS.set! i (← need (pOutDatum pState o)); emit "-"
    | ["gc", i, o] => let i ← pIdx w i; outC := outC.set! i (← need (pOutDatum pCmd o)); emit "-"
    | ["rb", i, j] =>
      -- the STATE read of terminal i while the caller holds `borrow_mut()` of terminal j: `RefCell` refuses when j is i or i's partner
      let i ← pIdx w i; let j ← pIdx w j
      if j == i || (w.t i).other == some j then throw (.panic .borrow)
      emit (sOptOut sState (w.getState i))
    | ["tu", i] =>
      let i ← pIdx w i
      let r := w.terminalUpdate i (fo i)
      w := r.1; emit (sUpd r.2)
    | ["c", i, j] =>
      let i ← pIdx w i; let j ← pIdx w j
      w ← liftP (w.connect i j); emit "-"
    | ["x", i] =>
      let i ← pIdx w i
      w ← liftP (w.disconnect i); emit "-"
    | ["ss", i, d] =>
      let i ← pIdx w i
      w := w.setState i (← need (pDatum pState d)); emit "ok"
    | ["sc", i, d] =>
      let i ← pIdx w i
      w := w.setCommand i (← need (pDatum pCmd d)); emit "ok"
    | ["u", d] =>
      let d ← need d.toNat?
      match devs[d]? with
      | some dev =>
        let r := updateWithFollowers dev.update dev.terminals w fo
        w := r.1; emit (sUpd r.2)
      | none => throw .bad
    | ["ut", d] =>
      let d ← need d.toNat?
      match devs[d]? with
      | some dev =>
        let r := w.updateTerminals fo dev.terminals
        w := r.1; emit (sUpd r.2)
      | none => throw .bad
    | ["r", i] => let i ← pIdx w i; emit (sRead w i)
    | ["o", i] => let i ← pIdx w i; emit (sOwn w i)
    | ["ra"] => for i in List.range w.n do emit (sRead w i)
    | ["oa"] => for i in List.range w.n do emit (sOwn w i)
    | _ => if op.startsWith "ratio:" then noimpl else throw .bad

/-! ### wrappers: terminal 0 = the wrapper's `w`, terminal 1 = the free terminal `x`, connected -/
def wrWorld : M (World F) := liftP ((World.empty.addTerms 2 : World F).connect 0 1)

/-- events shared by the three wrapper kinds; returns `none` if the event is not one of them -/
def wrCommon (w : World F) (e : String) : M (Option (World F)) := do
  if e.startsWith "xs:" then
    emit "ok"; return some (w.setState 1 (← need (pDatum pState (e.drop 3).toString)))
  else if e.startsWith "xc:" then
    emit "ok"; return some (w.setCommand 1 (← need (pDatum pCmd (e.drop 3).toString)))
  else if e.startsWith "ws:" then
    emit "ok"; return some (w.setState 0 (← need (pDatum pState (e.drop 3).toString)))
  else if e.startsWith "wc:" then
    emit "ok"; return some (w.setCommand 0 (← need (pDatum pCmd (e.drop 3).toString)))
  else if e == "dis" then
    let w' ← liftP (w.disconnect 0); emit "-"; return some w'
  else return none

/-- the scripted getters the wrapper's terminal (terminal 0) may follow: (following state?, following command?, outputs) -/
structure WrFol where
  fs : Bool := false
  fc : Bool := false
  outS : Output (Datum (State F)) := .ok none
  outC : Output (Datum (Command F)) := .ok none

def WrFol.followed (f : WrFol) : Followed F := ⟨if f.fc then some f.outC else none, if f.fs then some f.outS else none⟩

/-- `tfs tfc tnfs tnfc tgs:<X> tgc:<X>`; `none` if the event is not one of them -/
def wrFolEvent (f : WrFol) (e : String) : M (Option WrFol) := do
  if e == "tfs" then emit "-"; return some { f with fs := true }
  else if e == "tfc" then emit "-"; return some { f with fc := true }
  else if e == "tnfs" then emit "-"; return some { f with fs := false }
  else if e == "tnfc" then emit "-"; return some { f with fc := false }
  else if e.startsWith "tgs:" then
    let o ← need (pOutDatum pState (e.drop 4).toString); emit "-"; return some { f with outS := o }
  else if e.startsWith "tgc:" then
    let o ← need (pOutDatum pCmd (e.drop 4).toString); emit "-"; return some { f with outC := o }
  else return none

def runWrAct (evs : List String) : M Unit := do
  let mut w ← wrWorld
  let mut acc : UpdRet := .ok ()
  let mut iu : UpdRet := .ok ()
  let mut nupd := 0
  let mut fol : WrFol := {}
  for e in evs do
    match ← wrFolEvent fol e with
    | some f => fol := f; continue
    | none => pure ()
    if e.startsWith "acc:" then acc ← need (pUpd (e.drop 4).toString); emit "-"
    else if e.startsWith "iu:" then iu ← need (pUpd (e.drop 3).toString); emit "-"
    else if e == "upd" then
      let seen := sTdOut (w.getTerminalData 0)
      let r := ActuatorWrapper.updateF w 0 fol.followed acc iu
      w := r.1
      if r.2.2.1 then nupd := nupd + 1
      emit s!"{sUpd r.2.2.2};{match r.2.1 with | some td => sTd td | none => "-"};{nupd};{seen}"
    else
      match ← wrCommon w e with
      | some w' => w := w'
      | none => throw .bad

def runWrEnc (evs : List String) : M Unit := do
  let mut w ← wrWorld
  let mut g : Output (State F) := .ok none
  let mut iu : UpdRet := .ok ()
  let mut n := 0
  let mut fol : WrFol := {}
  for e in evs do
    match ← wrFolEvent fol e with
    | some f => fol := f; continue
    | none => pure ()
    if e.startsWith "gs:" then g ← need (pOut pState (e.drop 3).toString); emit "-"
    else if e.startsWith "iu:" then iu ← need (pUpd (e.drop 3).toString); emit "-"
    else if e.startsWith "xs:" || e.startsWith "xc:" || e == "dis" then
      match ← wrCommon w e with
      | some w' => w := w'
      | none => throw .bad
    else if e == "upd" then
      let r := EncoderWrapper.updateF w 0 fol.followed iu g
      w := r.1; n := n + 1
      emit s!"{sUpd r.2};{sOwn w 0};{sOptOut sState (w.getState 1)};{n}"
    else throw .bad

def runWrPid (chk : Bool) (t0 st cmd : String) (k : PIDK3 F) (evs : List String) : M Unit := do
  let mut w ← wrWorld
  let mut p : PidW F := PidW.init (← need t0.toInt?) (← need (pState st)) (← need (pCmd cmd))
  let mut acc : UpdRet := .ok ()
  let mut iu : UpdRet := .ok ()
  let mut lr : Option F := none
  for e in evs do
    if e.startsWith "acc:" then acc ← need (pUpd (e.drop 4).toString); emit "-"
    else if e.startsWith "iu:" then iu ← need (pUpd (e.drop 3).toString); emit "-"
    else if e == "lr" then emit (sOpt sF lr)
    else if e == "upd" then
      let r := PidW.update chk k p w 0 acc iu
      p := r.1
      match r.2.1 with
      | some v => lr := some v
      | none => pure ()
      emit s!"{sUpd r.2.2};{match r.2.1 with | some v => sF v | none => "-"};{sOut sF (Cpid.get p.pid)}"
    else
      match ← wrCommon w e with
      | some w' => w := w'
      | none => throw .bad

def runWr (chk : Bool) (toks : List String) : M Unit := do
  match toks with
  | "act" :: evs => runWrAct evs
  | "enc" :: evs => runWrEnc evs
  | "pid" :: t0 :: st :: cmd :: rest =>
    let k ← need (pK3 (rest.take 9))
    runWrPid chk t0 st cmd k (rest.drop 9)
  | _ => noimpl

end Rrtk.Drv
