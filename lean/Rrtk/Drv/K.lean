/- Driver, group `k`: `src/state.rs`, `src/command.rs`, PID gains. -/
import Rrtk.Drv.Base
namespace Rrtk.Drv
open Rrtk Rrtk.Wire

def State.beqW (a b : State F) : Bool :=
  a.position == b.position && a.velocity == b.velocity && a.acceleration == b.acceleration

def runK (chk : Bool) (toks : List String) : M Unit := do
  let cQ' := mkQc chk
  match toks with
  | ["supd", s, dt] => emit (sState (State.update (← need (pState s)) (← need dt.toInt?)))
  | ["supdq", s, dt] => emit (sState (← liftP (State.updateQ chk (← need (pState s)) (← need dt.toInt?))))
  | ["snew", p, v, a] =>
    emit (sState (← liftP (State.new chk (← need (cQ'.p p)) (← need (cQ'.p v)) (← need (cQ'.p a)))))
  | ["snewraw", p, v, a] => emit (sState (State.newRaw (← need (pF p)) (← need (pF v)) (← need (pF a))))
  | [op, s, q] =>
    match op with
    | "ssetp" | "ssetv" | "sseta" =>
      let s ← need (pState s); let q ← need (cQ'.p q)
      let r := match op with
        | "ssetp" => State.setConstantPosition chk s q
        | "ssetv" => State.setConstantVelocity chk s q
        | _ => State.setConstantAcceleration chk s q
      emit (if r.2 then "ok" else "err"); emit (sState r.1)
    | "ssetpr" => emit (sState (State.setConstantPositionRaw (← need (pState s)) (← need (pF q))))
    | "ssetvr" => emit (sState (State.setConstantVelocityRaw (← need (pState s)) (← need (pF q))))
    | "ssetar" => emit (sState (State.setConstantAccelerationRaw (← need (pState s)) (← need (pF q))))
    | "sget" => emit (sQ (State.getValue chk (← need (pState s)) (← need (pPosDer q))))
    | "sadd" | "saddas" => emit (sState (State.add (← need (pState s)) (← need (pState q))))
    | "ssub" | "ssubas" => emit (sState (State.sub (← need (pState s)) (← need (pState q))))
    | "smul" | "smulas" => emit (sState (State.mulF (← need (pState s)) (← need (pF q))))
    | "sdiv" | "sdivas" => emit (sState (State.divF (← need (pState s)) (← need (pF q))))
    | "seq" => emit (sB (State.beqW (← need (pState s)) (← need (pState q))))
    | "cnew" => emit (sCmd (Command.new (← need (pPosDer s)) (← need (pF q))))
    | "cadd" | "caddas" => emit (sCmd (← liftP (Command.add (← need (pCmd s)) (← need (pCmd q)))))
    | "csub" | "csubas" => emit (sCmd (← liftP (Command.sub (← need (pCmd s)) (← need (pCmd q)))))
    | "cmul" | "cmulas" => emit (sCmd (Command.mulF (← need (pCmd s)) (← need (pF q))))
    | "cdiv" | "cdivas" => emit (sCmd (Command.divF (← need (pCmd s)) (← need (pF q))))
    | "ceq" => emit (sB (Command.beq (← need (pCmd s)) (← need (pCmd q))))
    | _ => noimpl
  | [op, x] =>
    match op with
    | "sgetp" => emit (sQ (State.getPosition chk (← need (pState x))))
    | "sgetv" => emit (sQ (State.getVelocity chk (← need (pState x))))
    | "sgeta" => emit (sQ (State.getAcceleration chk (← need (pState x))))
    | "sneg" => emit (sState (State.neg (← need (pState x))))
    | "cfroms" => emit (sCmd (Command.ofState (← need (pState x))))
    | "ckind" => emit (sPosDer (← need (pCmd x)).kind)
    | "craw" => emit (sFt (← need (pCmd x)).raw)
    | "cpos" => emit (sOpt sQ (Command.getPosition chk (← need (pCmd x))))
    | "cvel" => emit (sOpt sQ (Command.getVelocity chk (← need (pCmd x))))
    | "cacc" => emit (sQ (Command.getAcceleration chk (← need (pCmd x))))
    | "cneg" => emit (sCmd (Command.neg (← need (pCmd x))))
    | _ => noimpl
  | ["pidk", kp, ki, kd, e, i, d] =>
    let k : PIDK F := ⟨← need (pF kp), ← need (pF ki), ← need (pF kd)⟩
    emit (sFt (k.evaluate (← need (pF e)) (← need (pF i)) (← need (pF d))))
  | "pidk3" :: rest =>
    match rest.drop 9 with
    | [pd, e, i, d] =>
      let k ← need (pK3 (rest.take 9))
      emit (sFt (k.evaluate (← need (pPosDer pd)) (← need (pF e)) (← need (pF i)) (← need (pF d))))
    | _ => noimpl
  | "pidk3get" :: rest =>
    match rest.drop 9 with
    | [pd] =>
      let k ← need (pK3 (rest.take 9))
      let g := k.get (← need (pPosDer pd))
      emit (sF g.kp); emit (sF g.ki); emit (sF g.kd)
    | _ => noimpl
  | _ => noimpl

end Rrtk.Drv
