/- Driver, group `mp`: motion profiles. -/
import Rrtk.Drv.Base
import Rrtk.MotionProfile
namespace Rrtk.Drv
open Rrtk Rrtk.Wire

def sPiece : MpPiece → String
  | .beforeStart => "BS" | .initialAcceleration => "IA" | .constantVelocity => "CV"
  | .endAcceleration => "EA" | .complete => "CO"

def runMp (chk : Bool) (toks : List String) : M Unit := do
  match toks with
  | s :: e :: mv :: ma :: ts =>
    let cQ' := mkQc chk
    let s ← need (pState s); let e ← need (pState e)
    let mv ← need (cQ'.p mv); let ma ← need (cQ'.p ma)
    let ts ← ts.mapM (fun t => need t.toInt?)
    let mp ← liftP (MotionProfile.new chk s e mv ma)
    emit (sT mp.t1); emit (sT mp.t2); emit (sT mp.t3); emit (sQ mp.maxAcc); emit (sCmd mp.endCommand)
    for t in ts do
      let piece := sPiece (mp.getPiece t)
      let mode := sOpt sPosDer (mp.getMode t)
      let acc := sOpt sQ (mp.getAcceleration chk t)
      let vel ← liftP (mp.getVelocity chk t)
      let pos ← liftP (mp.getPosition chk t)
      let hist ← liftP (mp.historyGet chk t)
      emit s!"{piece}/{mode}/{acc}/{sOpt sQ vel}/{sOpt sQ pos}/{sOpt (sDatum sCmd) hist}"
  | _ => throw .bad

end Rrtk.Drv
