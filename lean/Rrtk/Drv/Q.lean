/- Driver, group `q`: `src/dimensions.rs` and the small conversions. -/
import Rrtk.Drv.Base
import Rrtk.Gen.Constants
import Rrtk.ConstNames
import Rrtk.MotionProfile
namespace Rrtk.Drv
open Rrtk Rrtk.Wire

def emitQ (q : Quantity F) : M Unit := emit (sQ q)

/-- binary operators; `asg` = the assign form was requested (a different impl in the source, same model
function: the assign impls are `*self = *self op rhs`, or the same statement on the field). -/
def qBinary (chk : Bool) (op : String) (asg : Bool) (a b : Opnd) : M Unit := do
  match op, a, b with
  -- Quantity ∘ Quantity
  | "add", .q x, .q y => emitQ (← liftP (Quantity.add chk x y))
  | "sub", .q x, .q y => emitQ (← liftP (Quantity.sub chk x y))
  | "mul", .q x, .q y => emitQ (Quantity.mul chk x y)
  | "div", .q x, .q y => emitQ (Quantity.div chk x y)
  -- Quantity ∘ Time
  | "add", .q x, .t n => emitQ (← liftP (Quantity.addTime chk x n))
  | "sub", .q x, .t n => emitQ (← liftP (Quantity.subTime chk x n))
  | "mul", .q x, .t n => emitQ (Quantity.mulTime chk x n)
  | "div", .q x, .t n => emitQ (Quantity.divTime chk x n)
  -- Quantity ∘ DimensionlessInteger
  | "add", .q x, .d n => emitQ (← liftP (Quantity.addDimInt chk x n))
  | "sub", .q x, .d n => emitQ (← liftP (Quantity.subDimInt chk x n))
  | "mul", .q x, .d n => emitQ (Quantity.mulDimInt chk x n)
  | "div", .q x, .d n => emitQ (Quantity.divDimInt chk x n)
  -- Time ∘ Time
  | "add", .t x, .t y => emit (sT (← liftP (I64.add x y)))
  | "sub", .t x, .t y => emit (sT (← liftP (I64.sub x y)))
  | "mul", .t x, .t y => if asg then noimpl else emitQ (Time.mulTime chk x y)
  | "div", .t x, .t y => if asg then noimpl else emitQ (Time.divTime chk x y)
  -- Time ∘ DimensionlessInteger
  | "mul", .t x, .d y => emit (sT (← liftP (I64.mul x y)))
  | "div", .t x, .d y => emit (sT (← liftP (I64.div x y)))
  -- Time ∘ Quantity
  | "add", .t x, .q y => if asg then noimpl else emitQ (← liftP (Time.addQ chk x y))
  | "sub", .t x, .q y => if asg then noimpl else emitQ (← liftP (Time.subQ chk x y))
  | "mul", .t x, .q y => if asg then noimpl else emitQ (Time.mulQ chk x y)
  | "div", .t x, .q y => if asg then noimpl else emitQ (Time.divQ chk x y)
  -- DimensionlessInteger ∘ DimensionlessInteger
  | "add", .d x, .d y => emit (sD (← liftP (I64.add x y)))
  | "sub", .d x, .d y => emit (sD (← liftP (I64.sub x y)))
  | "mul", .d x, .d y => emit (sD (← liftP (I64.mul x y)))
  | "div", .d x, .d y => emit (sD (← liftP (I64.div x y)))
  -- DimensionlessInteger ∘ Time
  | "mul", .d x, .t y => if asg then noimpl else emit (sT (← liftP (I64.mul x y)))
  | "div", .d x, .t y => if asg then noimpl else emitQ (DimInt.divTime chk x y)
  -- DimensionlessInteger ∘ Quantity
  | "add", .d x, .q y => if asg then noimpl else emitQ (← liftP (DimInt.addQ chk x y))
  | "sub", .d x, .q y => if asg then noimpl else emitQ (← liftP (DimInt.subQ chk x y))
  | "mul", .d x, .q y => if asg then noimpl else emitQ (DimInt.mulQ chk x y)
  | "div", .d x, .q y => if asg then noimpl else emitQ (DimInt.divQ chk x y)
  -- Unit ∘ Unit
  | "add", .u x, .u y => emit (sU (← liftP (DUnit.add chk x y)))
  | "sub", .u x, .u y => emit (sU (← liftP (DUnit.sub chk x y)))
  | "mul", .u x, .u y => emit (sU (DUnit.mul chk x y))
  | "div", .u x, .u y => emit (sU (DUnit.div chk x y))
  | _, _, _ => noimpl

def pPiece (s : String) : Option MpPiece :=
  if s == "BS" then some .beforeStart else if s == "IA" then some .initialAcceleration
  else if s == "CV" then some .constantVelocity else if s == "EA" then some .endAcceleration
  else if s == "CO" then some .complete else none

/-- units read from the wire are passed through `Unit::new`, as the harness does -/
def mkU (chk : Bool) (u : DUnit) : DUnit := DUnit.new chk u.mm u.s
def mkQ (chk : Bool) (q : Quantity F) : Quantity F := ⟨q.value, mkU chk q.unit⟩
def mkOpnd (chk : Bool) : Opnd → Opnd
  | .q v => .q (mkQ chk v)
  | .u u => .u (mkU chk u)
  | o => o

def runQ (chk : Bool) (toks : List String) : M Unit := do
  -- `q unw <op> …`: the same operation, executed by the harness inside a destructor during unwinding — the model does not care where
  let toks := match toks with
    | "unw" :: rest => (match rest with | "unw" :: _ => [] | _ => rest)
    | _ => toks
  match toks with
  | [op, a, b] =>
    let base := if op.endsWith "as" && op.length == 5 then (op.take 3).toString else op
    if ["add", "sub", "mul", "div"].contains base then
      let a := mkOpnd chk (← need (pOpnd a)); let b := mkOpnd chk (← need (pOpnd b))
      qBinary chk base (base != op) a b
    else match op with
    | "cmp" =>
      let x := mkQ chk (← need (pQ a)); let y := mkQ chk (← need (pQ b))
      emit (sOrdering (← liftP (Quantity.partialCmp chk x y)))
    | "constadd" =>
      -- `Quantity::new(v, <the named constant>) + <quantity>`: the constant MEANS what its name states (`nameExponents`), whatever
      -- the table regenerated from the source says — a program that adds it to a quantity of that unit is dimensionally correct
      match Gen.constants.find? (·.name == a) with
      | some r =>
        let y := mkQ chk (← need (pQ b))
        let (mm, s) := (nameExponents r.toks).getD (r.mm, r.s)
        let x : Quantity F := ⟨y.value, DUnit.new chk mm s⟩
        match ← liftP (Quantity.add chk x y) with
        | q => emit (sQ q)
      | none => noimpl
    | "eq" =>
      let x := mkQ chk (← need (pQ a)); let y := mkQ chk (← need (pQ b))
      emit (sB (Quantity.eq chk x y))
    | "ne" =>
      let x := mkQ chk (← need (pQ a)); let y := mkQ chk (← need (pQ b))
      emit (sB (!(Quantity.eq chk x y)))
    | "lt" | "le" | "gt" | "ge" =>
      -- `<`, `<=`, `>`, `>=` are the default methods of `PartialOrd`: defined through `partial_cmp` (and panic when it does)
      let x := mkQ chk (← need (pQ a)); let y := mkQ chk (← need (pQ b))
      let o ← liftP (Quantity.partialCmp chk x y)
      emit (sB (match op, o with
        | "lt", some .lt => true
        | "le", some .lt | "le", some .eq => true
        | "gt", some .gt => true
        | "ge", some .gt | "ge", some .eq => true
        | _, _ => false))
    | "unew" =>
      let m ← need a.toInt?; let s ← need b.toInt?
      emit (sU (DUnit.new chk m s))
    | "uceq" | "ueqt" | "ueqf" | "uaok" | "uanok" | "ucaeq" =>
      let x := mkU chk (← need (pUnitExp (a.drop 2).toString)); let y := mkU chk (← need (pUnitExp (b.drop 2).toString))
      match op with
      | "uceq" => if chk then emit (sB (DUnit.constEq x y)) else noimpl
      | "ueqt" => emit (sB (DUnit.eqAssumeTrue chk x y))
      | "ueqf" => emit (sB (DUnit.eqAssumeFalse chk x y))
      | "uaok" => let _ ← liftP (DUnit.assertEqAssumeOk chk x y); emit "ok"
      | "uanok" => let _ ← liftP (DUnit.assertEqAssumeNotOk chk x y); emit "ok"
      | _ => if chk then (do let _ ← liftP (DUnit.assertEqAssumeOk true x y); emit "ok") else noimpl
    | _ => noimpl
  | [op, a] =>
    match op with
    | "neg" =>
      match mkOpnd chk (← need (pOpnd a)) with
      | .q x => emitQ (Quantity.neg x)
      | .t n => emit (sT (← liftP (I64.neg n)))
      | .d n => emit (sD (← liftP (I64.neg n)))
      | .u u => emit (sU (DUnit.neg u))
      | _ => noimpl
    | "abs" => emitQ (Quantity.abs (mkQ chk (← need (pQ a))))
    | "absm" => emitQ (Quantity.absManual (mkQ chk (← need (pQ a))))
    | "toq" =>
      match ← need (pOpnd a) with
      | .t n => emitQ (Quantity.ofTime chk n)
      | .d n => emitQ (Quantity.ofDimInt chk n)
      | _ => noimpl
    | "tot" =>
      match Time.tryOfQuantity chk (mkQ chk (← need (pQ a))) with
      | some n => emit (sT n) | none => emit "err"
    | "tod" =>
      match DimInt.tryOfQuantity chk (mkQ chk (← need (pQ a))) with
      | some n => emit (sD n) | none => emit "err"
    | "toi" =>
      match ← need (pOpnd a) with
      | .t n => emit (sIt n) | .d n => emit (sIt n) | _ => noimpl
    | "mkt" | "newt" => match ← need (pOpnd a) with | .i n => emit (sT n) | _ => noimpl
    | "mkd" | "newd" => match ← need (pOpnd a) with | .i n => emit (sD n) | _ => noimpl
    | "tof" => emit (sFt (mkQ chk (← need (pQ a))).value)
    | "qdl" => match ← need (pOpnd a) with | .f x => emitQ (Quantity.dimensionless chk x) | _ => noimpl
    | "pd2u" => emit (sU (DUnit.ofPosDer chk (← need (pPosDer a))))
    | "u2pd" =>
      if chk then
        match PosDer.tryOfUnit (← need (pUnitExp (a.drop 2).toString)) with
        | some pd => emit (sPosDer pd) | none => emit "err"
      else noimpl
    | "c2q" => emitQ (Command.toQuantity chk (← need (pCmd a)))
    | "q2c" =>
      if chk then
        match Command.tryOfQuantity (← need (pQ a)) with
        | some c => emit (sCmd c) | none => emit "err"
      else noimpl
    | "c2pd" => emit (sPosDer (← need (pCmd a)).kind)
    | "mpp2pd" =>
      match MpPiece.toPosDer (← need (pPiece a)) with
      | some pd => emit (sPosDer pd) | none => emit "err"
    | "mpp2u" =>
      match MpPiece.toPosDer (← need (pPiece a)) with
      | some pd => emit (sU (DUnit.ofPosDer chk pd)) | none => emit "err"
    | "const" =>
      match Gen.constants.find? (·.name == a) with
      | some r => emit (sU (DUnit.new chk r.mm r.s))
      | none => noimpl
    | _ => noimpl
  | _ => noimpl

end Rrtk.Drv
