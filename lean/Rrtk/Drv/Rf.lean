/- Driver, group `rf`: Reference handles. -/
import Rrtk.Drv.Base
import Rrtk.Reference
namespace Rrtk.Drv
open Rrtk Rrtk.Wire

def pVariant (s : String) : Option RefVariant :=
  if s == "ptr" then some .ptr else if s == "rc" then some .rcRefCell
  else if s == "prw" then some .ptrRwLock else if s == "pmx" then some .ptrMutex
  else if s == "arw" then some .arcRwLock else if s == "amx" then some .arcMutex else none

/-- the harness is a crate with features `alloc` and `std` (see harness/Cargo.toml) -/
def harnessCallerFeats : List String := ["alloc", "std"]

def runRf (_chk : Bool) (toks : List String) : M Unit := do
  match toks with
  | ["thr", v, n, k] =>
    let v ← need (pVariant v)
    if !(v == .arcRwLock || v == .arcMutex || v == .ptrRwLock || v == .ptrMutex) then noimpl
    let n ← need n.toNat?; let k ← need k.toNat?
    if n > 64 || k > 10000000 then noimpl
    emit (sIt (n * k))
  | v :: evs =>
    let v ← need (pVariant v)
    let mut c := RefCase.init v
    for e in evs do
      match e.splitOn ":" with
      | ["cl", h] => c ← need (c.clone (← need h.toNat?)); emit "-"
      | ["dy", h] =>
        match c.toDyn harnessCallerFeats (← need h.toNat?) with
        | none => throw .bad
        | some r => c ← liftP r; emit "-"
      | ["rd", h] => emit (sIt (← need (c.read (← need h.toNat?))))
      | ["wr", h, x] => c ← need (c.write (← need h.toNat?) (← need x.toInt?)); emit "-"
      | ["inc", h] =>
        let h ← need h.toNat?
        let x ← need (c.read h)
        c ← need (c.write h (x + 1)); emit "-"
      | ["dr", h] => c ← need (c.drop (← need h.toNat?)); emit "-"
      | ["live"] => emit (sB c.live)
      | _ => throw .bad
  | _ => noimpl

end Rrtk.Drv
