/- Driver, group `rf`: Reference handles. -/
import Rrtk.Drv.Base
import Rrtk.Reference
import Rrtk.RefAlias
namespace Rrtk.Drv
open Rrtk Rrtk.Wire

def pVariant (s : String) : Option RefVariant :=
  if s == "ptr" then some .ptr else if s == "rc" then some .rcRefCell
  else if s == "prw" then some .ptrRwLock else if s == "pmx" then some .ptrMutex
  else if s == "arw" then some .arcRwLock else if s == "amx" then some .arcMutex else none

/-- the harness is a crate with features `alloc` and `std` (see harness/Cargo.toml) -/
def harnessCallerFeats : List String := ["alloc", "std"]

/-- the builds without `std`: harness features `alloc` (+ `libm`), rrtk features `alloc` (+ `libm`) -/
def nostdFeats : List String := ["alloc"]

/-- a fault of the heap machine: a line that would touch freed memory or a dead handle is not a legal test line (the harness
refuses it before running anything); a panic is a panic -/
def liftH {α : Type} : Except HFault α → M α
  | .ok a => pure a
  | .error (.panic p) => throw (.panic p)
  | .error _ => throw .bad

/-- lines with `al:` (raw alias), `cf:` (`clone_from`) or `dm:` (`to_dyn!` of a MOVED handle) run on the heap machine
(`Rrtk/RefHeap.lean`, `Rrtk/RefAlias.lean`); `cf` needs both handles of the same static type (both `dyn` or both concrete) -/
def runRfHeap (nostd : Bool) (v : RefVariant) (evs : List String) : M Unit := do
  let hasArm : RefVariant → Bool :=
    if nostd then toDynHasArmIn nostdFeats nostdFeats else toDynHasArm harnessCallerFeats
  let mut s := RState.init v
  -- borrows kept alive by `hr` / `hm` until `hx` (`rc` only): the cell's dynamic borrow state and the stack of (handle, exclusive?)
  let mut cb : CellBorrow := {}
  let mut held : List (Nat × Bool) := []
  let isHeld := fun (hs : List (Nat × Bool)) (h : Nat) => hs.any (fun p => p.1 == h)
  -- while a borrow is held, access through a raw alias would bypass the `RefCell`: not a legal test line
  let rawBlocked := fun (st : RState) (hs : List (Nat × Bool)) (h : Nat) =>
    !hs.isEmpty && (match st.slot h with | .ok x => !x.variant.counted | .error _ => false)
  for e in evs do
    match e.splitOn ":" with
    | ["hr", h] | ["hm", h] =>
      if v != .rcRefCell then noimpl
      let h ← need h.toNat?
      let x ← liftH (s.slot h)
      if !x.variant.counted then throw .bad
      let _ ← liftH (s.heap.cell x.addr)
      let excl := e.startsWith "hm:"
      cb ← liftP (if excl then cb.exclusive else cb.shared)
      held := (h, excl) :: held; emit "-"
    | ["hx"] =>
      match held with
      | [] => throw .bad
      | (_, excl) :: rest => cb := cb.release excl; held := rest; emit "-"
    | ["cl", h] => s ← liftH (s.clone (← need h.toNat?)); emit "-"
    | ["dy", h] => s ← liftH (s.toDynCloneWith hasArm (← need h.toNat?)); emit "-"
    | ["dm", h] =>
      let h ← need h.toNat?
      if isHeld held h then throw .bad
      s ← liftH (s.toDynMoveWith hasArm h); emit "-"
    | ["al", h] => s ← liftH (s.rawAlias (← need h.toNat?)); emit "-"
    | ["cf", i, j] =>
      let i ← need i.toNat?; let j ← need j.toNat?
      let hi ← liftH (s.slot i); let hj ← liftH (s.slot j)
      if hi.isDyn != hj.isDyn || i == j || isHeld held i then throw .bad
      s ← liftH (s.cloneFrom i j); emit "-"
    | ["rd", h] =>
      let h ← need h.toNat?
      if rawBlocked s held h then throw .bad
      let x ← liftH (s.read h)
      if !cb.canRead then throw (.panic .borrow)
      emit (sIt x)
    | ["wr", h, x] =>
      let h ← need h.toNat?
      if rawBlocked s held h then throw .bad
      let s' ← liftH (s.write h (← need x.toInt?))
      if !cb.canWrite then throw (.panic .borrow)
      s := s'; emit "-"
    | ["inc", h] =>
      let h ← need h.toNat?
      if rawBlocked s held h then throw .bad
      let x ← liftH (s.read h)
      let s' ← liftH (s.write h (x + 1))
      if !cb.canWrite then throw (.panic .borrow)
      s := s'; emit "-"
    | ["dr", h] =>
      let h ← need h.toNat?
      if isHeld held h then throw .bad
      s ← liftH (s.drop h); emit "-"
    | ["live"] => emit (sB s.live0)
    | _ => throw .bad

def runRf (_chk : Bool) (nostd : Bool) (toks : List String) : M Unit := do
  match toks with
  | ["excl", v] =>
    -- a mutable borrow holds the lock: the other thread does not get in while it is alive, and no increment is lost
    if nostd then noimpl
    let v ← need (pVariant v)
    if !(v == .arcRwLock || v == .arcMutex) then noimpl
    emit "true;I:2"
  | ["thr", v, n, k] =>
    if nostd then noimpl          -- no threads, no lock variants without `std`
    let v ← need (pVariant v)
    if !(v == .arcRwLock || v == .arcMutex || v == .ptrRwLock || v == .ptrMutex) then noimpl
    let n ← need n.toNat?; let k ← need k.toNat?
    if n > 64 || k > 10000000 then noimpl
    emit (sIt (n * k))
  | v :: evs =>
    let v ← need (pVariant v)
    -- the lock variants exist only in builds with `std` (the harness answers `NOIMPL` for them otherwise)
    if nostd && !(variantExists nostdFeats v) then noimpl
    if evs.any (fun e => e.startsWith "al:" || e.startsWith "cf:" || e.startsWith "dm:" || e.startsWith "hr:" || e.startsWith "hm:" || e == "hx") then
      runRfHeap nostd v evs
      return
    let mut c := RefCase.init v
    for e in evs do
      match e.splitOn ":" with
      | ["cl", h] => c ← need (c.clone (← need h.toNat?)); emit "-"
      | ["dy", h] =>
        let h ← need h.toNat?
        match (if nostd then c.toDynIn nostdFeats nostdFeats h else c.toDyn harnessCallerFeats h) with
        | none => throw .bad
        | some r => c ← liftP r; emit "-"
      | ["rd", h] => emit (sIt (← need (c.read (← need h.toNat?))))
      | ["wr", h, x] => c ← need (c.write (← need h.toNat?) (← need x.toInt?)); emit "-"
      | ["inc", h] =>
        let h ← need h.toNat?
        let x ← need (c.read h)
        c ← need (c.write h (x + 1)); emit "-"
      | ["dr", h] => c ← need (c.drop (← need h.toNat?)); emit "-"
      | ["live"] => emit (sB c.live)
      | _ => throw .bad
  | _ => noimpl

end Rrtk.Drv
