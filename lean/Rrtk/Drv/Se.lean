/- Driver, group `se`: settable bookkeeping, ConstantGetter, GetterFromHistory. -/
import Rrtk.Drv.Base
import Rrtk.Settable
namespace Rrtk.Drv
open Rrtk Rrtk.Wire

def pUpd (s : String) : Option UpdRet :=
  if s == "ok" then some (.ok ()) else (pErr s).map .error

/-- the two scripted getters of a case: number 0 (`fol`, `gs:`) and number 1 (`fol2`, `gs2:`) -/
def scripts (g0 g1 : Output F) : Nat → Output F := fun i => if i == 0 then g0 else g1

def runSeRec (evs : List String) : M Unit := do
  let mut s : SettableS F := SettableS.init
  let mut next : UpdRet := .ok ()
  let mut script : Output F := .ok none
  let mut script2 : Output F := .ok none
  for e in evs do
    if e.startsWith "set:" then
      let v ← need (pF (e.drop 4).toString)
      let r := SettableS.set s v next
      s := r.1; emit (sUpd r.2.2)
    else if e.startsWith "acc:" then
      next ← need (pUpd (e.drop 4).toString); emit "-"
    else if e == "lr" then emit (sOpt sF s.lastRequest)
    else if e == "fol" then s := s.follow 0; emit "-"
    else if e == "fol2" then s := s.follow 1; emit "-"
    else if e == "unfol" then s := s.stopFollowing; emit "-"
    else if e.startsWith "gs:" then
      script ← need (pOut pF (e.drop 3).toString); emit "-"
    else if e.startsWith "gs2:" then
      script2 ← need (pOut pF (e.drop 4).toString); emit "-"
    else if e == "upd" then
      let r := SettableS.recUpdate s (scripts script script2) next (.ok ())
      s := r.1
      emit s!"{sUpd r.2.2};{match r.2.1 with | some v => sF v | none => "-"}"
    else throw .bad

def runSeCg (init : String) (clk : String) (evs : List String) : M Unit := do
  let mut s : ConstGetterS F := ConstGetterS.init (← need (pF init))
  let mut clk : TimeOutput ← need (pTimeOut clk)
  let mut script : Output F := .ok none
  let mut script2 : Output F := .ok none
  for e in evs do
    if e.startsWith "clk:" then
      clk ← need (pTimeOut (e.drop 4).toString); emit "-"
    else if e == "get" then emit (sOut sF (s.get clk))
    else if e.startsWith "set:" then
      s := s.set (← need (pF (e.drop 4).toString)); emit "ok"
    else if e == "lr" then emit (sOpt sF s.sd.lastRequest)
    else if e == "fol" then s := { s with sd := s.sd.follow 0 }; emit "-"
    else if e == "fol2" then s := { s with sd := s.sd.follow 1 }; emit "-"
    else if e == "unfol" then s := { s with sd := s.sd.stopFollowing }; emit "-"
    else if e.startsWith "gs:" then
      script ← need (pOut pF (e.drop 3).toString); emit "-"
    else if e.startsWith "gs2:" then
      script2 ← need (pOut pF (e.drop 4).toString); emit "-"
    else if e == "upd" then
      let r := s.update (scripts script script2)
      s := r.1; emit (sUpd r.2)
    else throw .bad

def runSeGfh (lo ctor clk : String) (evs : List String) : M Unit := do
  let lo ← need lo.toInt?
  let hist : Int → Option (Datum F) := fun t => if t < lo then none else some ⟨t, (FloatLike.ofInt t : F)⟩
  let mut clk : TimeOutput ← need (pTimeOut clk)
  let d0 : Except Err Int ←
    if ctor == "nodelta" then pure (.ok Gfh.newNoDelta)
    else if ctor == "zero" then pure (Gfh.newStartAtZero clk)
    else if ctor.startsWith "start:" then pure (Gfh.newCustomStart clk (← need (ctor.drop 6).toString.toInt?))
    else if ctor.startsWith "delta:" then pure (.ok (Gfh.newCustomDelta (← need (ctor.drop 6).toString.toInt?)))
    else noimpl
  match d0 with
  | .error e => emit s!"ctor:{sErr e}"
  | .ok d0 =>
    emit "ctor:ok"
    let mut delta := d0
    for e in evs do
      if e.startsWith "clk:" then
        clk ← need (pTimeOut (e.drop 4).toString); emit "-"
      else if e == "get" then emit (sOut sF (Gfh.get hist delta clk))
      else if e.startsWith "sd:" then
        delta ← need (e.drop 3).toString.toInt?; emit "-"
      else if e.startsWith "st:" then
        let r := Gfh.setTime delta clk (← need (e.drop 3).toString.toInt?)
        delta := r.1; emit (sUpd r.2)
      else if e == "upd" then emit "ok"
      else throw .bad

def runSe (_chk : Bool) (toks : List String) : M Unit := do
  match toks with
  | "rec" :: evs => runSeRec evs
  | "cg" :: init :: clk :: evs => runSeCg init clk evs
  | "gfh" :: lo :: ctor :: clk :: evs => runSeGfh lo ctor clk evs
  | _ => noimpl

end Rrtk.Drv
