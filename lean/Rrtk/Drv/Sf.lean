/- Driver, group `sf`: the kernel-transparent binary32 rounding model (`Rrtk.Soft`) on raw bit patterns.
The output is what `Rrtk.Soft` computes; when Lean's own (hardware) `Float32` disagrees with it the token carries a
`!float32=<bits>` suffix, so the three-way comparison (Rust f32, Lean Float32, `rne32`) is visible in one diff. -/
import Rrtk.Drv.Base
import Rrtk.SoftFloat
namespace Rrtk.Drv
open Rrtk Rrtk.Wire Rrtk.Soft

def f32Op (op : Op) (a b : Float32) : Float32 :=
  match op with | .add => a + b | .sub => a - b | .mul => a * b | .div => a / b

/-- `f32 as i64` on a finite rational value: truncate toward zero, saturate -/
def softToInt (x : Rat) : Int :=
  let t : Int := if 0 ≤ x then Int.ofNat (x.num.toNat / x.den) else - Int.ofNat ((-x.num).toNat / x.den)
  if t < -9223372036854775808 then -9223372036854775808 else if 9223372036854775807 < t then 9223372036854775807 else t

def runSf (toks : List String) : M Unit := do
  match toks with
  | [o, a, b] =>
    let op ← need (match o with | "add" => some Op.add | "sub" => some Op.sub | "mul" => some Op.mul | "div" => some Op.div | _ => none)
    let na ← need (if a.length == 8 then parseHex a else none)
    let nb ← need (if b.length == 8 then parseHex b else none)
    match binop op na nb with
    | none => emit "skip"
    | some r =>
      let h := (f32Op op (Float32.ofBits na.toUInt32) (Float32.ofBits nb.toUInt32)).toBits.toNat
      emit (if r == h then hex8 r else s!"{hex8 r}!float32={hex8 h}")
  | ["ofint", n] =>
    let n ← need n.toInt?
    if n < -9223372036854775808 ∨ 9223372036854775807 < n then throw .bad
    let r := ofInt n
    let h := ((Int64.ofInt n).toFloat32).toBits.toNat
    emit (if r == h then hex8 r else s!"{hex8 r}!float32={hex8 h}")
  | ["toint", a] =>
    let na ← need (if a.length == 8 then parseHex a else none)
    match decode na with
    | some x => emit (toString (softToInt x))
    | none =>   -- ±∞ saturate, NaN ↦ 0
      let man := na % 2 ^ 23
      emit (if man ≠ 0 then "0" else if (na / 2 ^ 31) % 2 = 1 then "-9223372036854775808" else "9223372036854775807")
  | _ => noimpl

end Rrtk.Drv
