/- Driver, group `ss`: stateful streams. One token `<update ret>/<get>` per event. -/
import Rrtk.Drv.Base
import Rrtk.Streams.Stateful
import Rrtk.Streams.Composed
namespace Rrtk.Drv
open Rrtk Rrtk.Wire

/-- generic runner: `step` may panic; `get` may panic -/
def runEvents {S I O : Type} (pI : String → Option I) (sO : O → String)
    (step : S → I → Except Panic (S × UpdRet)) (get : S → Except Panic (Output O))
    (s0 : S) (evs : List String) : M Unit := do
  let mut s := s0
  for e in evs do
    let i ← need (pI e)
    let (s', r) ← liftP (step s i)
    s := s'
    let g ← liftP (get s)
    emit s!"{sUpd r}/{sOut sO g}"

def splitSemi (s : String) : Option (String × String) :=
  match s.splitOn ";" with
  | [a, b] => some (a, b)
  | _ => none

def runCpid (chk : Bool) (cmd : Command F) (k : PIDK3 F) (evs : List String) : M Unit := do
  let mut s : CpidS F := Cpid.init cmd
  let mut script : Output (Command F) := .ok none
  let mut following := false
  for e in evs do
    if e.startsWith "in:" then
      let i ← need (pOut pState (e.drop 3).toString)
      let (s', r) := Cpid.step chk k s (if following then some script else none) i
      s := s'
      emit s!"{sUpd r}/{sOut sF (Cpid.get s)}"
    else if e.startsWith "set:" then
      let c ← need (pCmd (e.drop 4).toString)
      s := Cpid.set s c
      emit s!"ok/{sOut sF (Cpid.get s)}"
    else if e.startsWith "fol:" then
      script ← need (pOut pCmd (e.drop 4).toString)
      following := true
      emit s!"-/{sOut sF (Cpid.get s)}"
    else if e.startsWith "cs:" then
      script ← need (pOut pCmd (e.drop 3).toString)
      emit s!"-/{sOut sF (Cpid.get s)}"
    else if e == "unfol" then
      following := false
      emit s!"-/{sOut sF (Cpid.get s)}"
    else if e == "reset" then
      s := Cpid.reset s
      emit s!"-/{sOut sF (Cpid.get s)}"
    else if e == "lr" then
      emit s!"lr={sOpt sCmd s.lastRequest}/{sOut sF (Cpid.get s)}"
    else throw .bad

def runSs (chk : Bool) (toks : List String) : M Unit := do
  let cQ' := mkQc chk
  match toks with
  | "pid" :: sp :: kp :: ki :: kd :: evs =>
    let sp ← need (pF sp); let k : PIDK F := ⟨← need (pF kp), ← need (pF ki), ← need (pF kd)⟩
    runEvents (pOut pF) sF (fun s i => .ok (Pid.step sp k s i)) (fun s => .ok (Pid.get s)) Pid.init evs
  | "spid" :: sp :: kp :: ki :: kd :: evs =>
    let sp ← need (pF sp); let kp ← need (pF kp); let ki ← need (pF ki); let kd ← need (pF kd)
    runEvents (pOut cQ'.p) sF (Spid.step chk sp kp ki kd) (fun s => .ok (Spid.get s)) Spid.init evs
  | "ewma" :: ty :: sm :: evs =>
    let sm ← need (pF sm)
    match ← need (pTy ty) with
    | .f => runEvents (pOut pF) sF (Ewma.step scaleF addF sm) (fun s => .ok (Ewma.get s)) Ewma.init evs
    | .q => runEvents (pOut cQ'.p) sQ (Ewma.step (scaleQdl chk) (Quantity.add chk) sm) (fun s => .ok (Ewma.get s)) Ewma.init evs
    | _ => noimpl
  | "ma" :: ty :: w :: evs =>
    let w ← need w.toInt?
    match ← need (pTy ty) with
    | .f => runEvents (pOut pF) sF (Ma.step scaleF addF divF (some (c0 : F)) w) (fun s => .ok (Ma.get s)) Ma.init evs
    | .q => runEvents (pOut cQ'.p) sQ (Ma.step (scaleQs chk) (Quantity.add chk) (divQs chk) none w) (fun s => .ok (Ma.get s)) Ma.init evs
    | _ => noimpl
  | "int" :: evs => runEvents (pOut cQ'.p) sQ (Integral.step chk) (fun s => .ok (Integral.get s)) Integral.init evs
  | "drv" :: evs => runEvents (pOut cQ'.p) sQ (Derivative.step chk) (fun s => .ok (Derivative.get s)) Derivative.init evs
  | "a2s" :: evs => runEvents (pOut cQ'.p) sState (A2s.step chk) (A2s.get chk) A2s.init evs
  | "v2s" :: evs => runEvents (pOut cQ'.p) sState (V2s.step chk) (V2s.get chk) V2s.init evs
  | "p2s" :: evs => runEvents (pOut cQ'.p) sState (P2s.step chk) (P2s.get chk) P2s.init evs
  | "f2q" :: u :: evs =>
    let u0 ← need (pUnitExp u)
    let u := DUnit.new chk u0.mm u0.s
    runEvents (pOut pF) sQ (fun s i => .ok (F2q.step s i)) (fun s => .ok (F2q.get u s)) F2q.init evs
  | "q2f" :: evs =>
    runEvents (pOut cQ'.p) sF (fun s i => .ok (Q2f.step s i)) (fun s => .ok (Q2f.get s)) Q2f.init evs
  | "freeze" :: ty :: evs =>
    match ← need (pTy ty) with
    | .f =>
      runEvents (fun e => match splitSemi e with
          | some (c, i) => match pOut pB c, pOut pF i with
            | some c, some i => some (c, i) | _, _ => none
          | none => none) sF
        (fun s (ci : Output Bool × Output F) => .ok (Freeze.step s ci.1 ci.2)) (fun s => .ok (Freeze.get s)) Freeze.init evs
    | .q =>
      runEvents (fun e => match splitSemi e with
          | some (c, i) => match pOut pB c, pOut cQ'.p i with
            | some c, some i => some (c, i) | _, _ => none
          | none => none) sQ
        (fun s (ci : Output Bool × Output (Quantity F)) => .ok (Freeze.step s ci.1 ci.2)) (fun s => .ok (Freeze.get s)) Freeze.init evs
    | _ => noimpl
  | "cpid" :: cmd :: rest =>
    let cmd ← need (pCmd cmd)
    let k ← need (pK3 (rest.take 9))
    runCpid chk cmd k (rest.drop 9)
  | _ => noimpl

end Rrtk.Drv
