/- Driver, group `st`: stateless streams. Every result is printed twice (the harness reads twice). -/
import Rrtk.Drv.Base
import Rrtk.Streams.Stateless
namespace Rrtk.Drv
open Rrtk Rrtk.Wire

def emit2 (s : String) : M Unit := do emit s; emit s

def pOuts {α : Type} (c : Codec α) (l : List String) : M (List (Output α)) :=
  l.mapM (fun s => need (pOut c.p s))

/-- ops that are generic in the payload type -/
def stGeneric {α : Type} (c : Codec α) (op : String) (args : List String) : M Unit := do
  match op, args with
  | "latest", n :: ins =>
    let n ← need n.toNat?
    if ins.length != n then throw .bad
    if n < 1 then throw (.panic .arity)
    emit2 (sOut c.s (Stream.latest (← pOuts c ins)))
  | "if", [cond, i] =>
    emit2 (sOut c.s (Stream.ifStream (← need (pOut pB cond)) (← need (pOut c.p i))))
  | "ifelse", [cond, t, f] =>
    emit2 (sOut c.s (Stream.ifElse (← need (pOut pB cond)) (← need (pOut c.p t)) (← need (pOut c.p f))))
  | "ifelsemx", [cond, t, f] =>
    -- IfElse(armed, If(armed, a), If(Not(armed), b)) with ONE shared condition getter (behind a Mutex in the harness)
    let cnd ← need (pOut pB cond)
    emit2 (sOut c.s (Stream.ifElse cnd (Stream.ifStream cnd (← need (pOut c.p t))) (Stream.ifStream (Stream.notStream cnd) (← need (pOut c.p f)))))
  | "expirer", [i, now, md] =>
    emit2 (sOut c.s (Stream.expirer (← need (pOut c.p i)) (← need (pTimeOut now)) (← need md.toInt?)))
  | "n2e", [i] => emit2 (sOut c.s (Stream.noneToError (← need (pOut c.p i))))
  | "n2v", [i, now, v] =>
    emit2 (sOut c.s (Stream.noneToValue (← need (pOut c.p i)) (← need (pTimeOut now)) (← need (c.p v))))
  | "none", [] => emit2 (sOut c.s (Stream.noneGetter : Output α))
  | "const", [now, v] => emit2 (sOut c.s (Stream.constantGetter (← need (pTimeOut now)) (← need (c.p v))))
  | "tgfg", [i] => emit2 (sTimeOut (Stream.timeGetterFromGetter (← need (pOut c.p i))))
  | _, _ => noimpl

/-- arithmetic ops, for a payload with total operators -/
def stArith {α : Type} (c : Codec α) (add mul sub div : α → α → α) (op : String) (args : List String) : M Unit := do
  match op, args with
  | "sum", n :: ins =>
    let n ← need n.toNat?
    if ins.length != n then throw .bad
    if n < 1 then throw (.panic .arity)
    emit2 (sOut c.s (Stream.nary add (← pOuts c ins)))
  | "prod", n :: ins =>
    let n ← need n.toNat?
    if ins.length != n then throw .bad
    if n < 1 then throw (.panic .arity)
    emit2 (sOut c.s (Stream.nary mul (← pOuts c ins)))
  | "sum2", [a, b] => emit2 (sOut c.s (Stream.binary2 add (← need (pOut c.p a)) (← need (pOut c.p b))))
  | "prod2", [a, b] => emit2 (sOut c.s (Stream.binary2 mul (← need (pOut c.p a)) (← need (pOut c.p b))))
  | "diff", [a, b] => emit2 (sOut c.s (Stream.binaryPass sub (← need (pOut c.p a)) (← need (pOut c.p b))))
  | "quot", [a, b] => emit2 (sOut c.s (Stream.binaryPass div (← need (pOut c.p a)) (← need (pOut c.p b))))
  | _, _ => stGeneric c op args

/-- n-ary sum/product over Quantity payloads: the model's `collect`, then the `+=` / `*=` fold with the
(panicking) Quantity operators -/
def stNaryQ (chk : Bool) (mulOp : Bool) (ins : List (Output (Quantity F))) : M Unit := do
  match Stream.collect ins with
  | .error e => emit2 (sErr e)
  | .ok [] => emit2 "N"
  | .ok (d :: ds) =>
    let mut acc := d
    for x in ds do
      let v ← if mulOp then pure (Quantity.mul chk acc.value x.value) else liftP (Quantity.add chk acc.value x.value)
      acc := Datum.combine (fun _ _ => v) acc x
    emit2 (sOut sQ (.ok (some acc)))

def runSt (chk : Bool) (toks : List String) : M Unit := do
  match toks with
  | "and" :: [a, b] => emit2 (sOut sB (Stream.andStream (← need (pOut pB a)) (← need (pOut pB b))))
  | "or" :: [a, b] => emit2 (sOut sB (Stream.orStream (← need (pOut pB a)) (← need (pOut pB b))))
  | "not" :: [a] => emit2 (sOut sB (Stream.notStream (← need (pOut pB a))))
  | "exp" :: [a, b] =>
    emit2 (sOut sF (Stream.binaryPass (fun x y : F => FloatLike.powf x y) (← need (pOut pF a)) (← need (pOut pF b))))
  | op :: ty :: args =>
    match ← need (pTy ty) with
    | .f => stArith cF (· + ·) (· * ·) (· - ·) (· / ·) op args
    | .b => stGeneric cB op args
    | .q =>
      match op, args with
      | "sum", n :: ins =>
        let n ← need n.toNat?
        if ins.length != n then throw .bad
        if n < 1 then throw (.panic .arity)
        stNaryQ chk false (← pOuts (mkQc chk) ins)
      | "prod", n :: ins =>
        let n ← need n.toNat?
        if ins.length != n then throw .bad
        if n < 1 then throw (.panic .arity)
        stNaryQ chk true (← pOuts (mkQc chk) ins)
      | _, _ => stGeneric (mkQc chk) op args
    | .w => stArith ⟨pW, sW⟩ (wCat "") (wCat "x") (wCat "m") (wCat "d") op args
    | .s => stGeneric cS op args
    | .c => stGeneric cC op args
  | _ => noimpl

end Rrtk.Drv
