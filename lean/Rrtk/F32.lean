/-
The executable instance: IEEE binary32 through Lean's `Float32` (hardware arithmetic, glibc `powf`).
Used only by the driver; no theorem mentions it (the kernel treats `Float32` as opaque).
-/
import Rrtk.Scalar
namespace Rrtk

instance : FloatLike Float32 where
  ofInt n := (Int64.ofInt n).toFloat32
  toInt x := x.toInt64.toInt
  powf := Float32.pow
  absF := Float32.abs

end Rrtk
