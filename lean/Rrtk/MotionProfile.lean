/-
Model of `src/motion_profile.rs`: constructor (three asserts, unit panics, `expect`s), the five
accessors and `History::get`, written through the `Quantity` operators exactly as the source.
`Time` arithmetic inside the accessors is plain `Int` (no overflow for profiles within the stated
ranges: |t| ≤ t3 ≪ 2⁶³ on the moving pieces; outside them no arithmetic happens).
-/
import Rrtk.Core
namespace Rrtk

/-- `MotionProfilePiece` -/
inductive MpPiece where
  | beforeStart | initialAcceleration | constantVelocity | endAcceleration | complete
  deriving DecidableEq, Repr, Inhabited

/-- `impl TryFrom<MotionProfilePiece> for PositionDerivative` -/
def MpPiece.toPosDer : MpPiece → Option PosDer
  | .beforeStart | .complete => none
  | .initialAcceleration | .endAcceleration => some .acceleration
  | .constantVelocity => some .velocity

/-- order of the pieces along the time axis -/
def MpPiece.rank : MpPiece → Nat
  | .beforeStart => 0 | .initialAcceleration => 1 | .constantVelocity => 2
  | .endAcceleration => 3 | .complete => 4

/-- `MotionProfile` -/
structure MotionProfile (F : Type) where
  startPos : Quantity F
  startVel : Quantity F
  t1 : Int
  t2 : Int
  t3 : Int
  maxAcc : Quantity F
  endCommand : Command F

section
variable {F : Type} [Add F] [Sub F] [Mul F] [Div F] [Neg F] [LT F] [LE F] [BEq F]
  [DecidableLT F] [DecidableLE F] [FloatLike F]

namespace MotionProfile

/-- `MotionProfile::new` -/
def new (chk : Bool) (start end_ : State F) (maxVel maxAcc : Quantity F) :
    Except Panic (MotionProfile F) :=
  let sign : Quantity F := ⟨if end_.position < start.position then cm1 else c1, DIMENSIONLESS chk⟩
  let maxVel := Quantity.mul chk maxVel.abs sign
  let maxAcc := Quantity.mul chk maxAcc.abs sign
  match Quantity.sub chk maxVel (start.getVelocity chk) with
  | .error e => .error e
  | .ok dT1Vel =>
  let t1 := Quantity.div chk dT1Vel maxAcc
  if ¬ ((c0 : F) ≤ t1.value) then .error .mpT1 else
  match Quantity.add chk (start.getVelocity chk) maxVel with
  | .error e => .error e
  | .ok sv =>
  let dT1Pos := Quantity.mul chk (Quantity.div chk sv (Quantity.dimensionless chk c2)) t1
  match Quantity.sub chk (end_.getVelocity chk) maxVel with
  | .error e => .error e
  | .ok dT3Vel =>
  let dT3 := Quantity.div chk dT3Vel (Quantity.neg maxAcc)
  if ¬ ((c0 : F) ≤ dT3.value) then .error .mpT3 else
  match Quantity.add chk maxVel (end_.getVelocity chk) with
  | .error e => .error e
  | .ok ev =>
  let dT3Pos := Quantity.mul chk (Quantity.div chk ev (Quantity.dimensionless chk c2)) dT3
  match Quantity.sub chk (end_.getPosition chk) (start.getPosition chk) with
  | .error e => .error e
  | .ok dp =>
  match Quantity.add chk dT1Pos dT3Pos with
  | .error e => .error e
  | .ok d13 =>
  match Quantity.sub chk dp d13 with
  | .error e => .error e
  | .ok dT2Pos =>
  let dT2 := Quantity.div chk dT2Pos maxVel
  if ¬ ((c0 : F) ≤ dT2.value) then .error .mpT2 else
  match Quantity.add chk t1 dT2 with
  | .error e => .error e
  | .ok t2 =>
  match Quantity.add chk t2 dT3 with
  | .error e => .error e
  | .ok t3 =>
  match Time.tryOfQuantity chk t1, Time.tryOfQuantity chk t2, Time.tryOfQuantity chk t3 with
  | some a, some b, some c =>
    .ok ⟨start.getPosition chk, start.getVelocity chk, a, b, c, maxAcc, Command.ofState end_⟩
  | _, _, _ => .error .expect

/-- `get_piece` -/
def getPiece (mp : MotionProfile F) (t : Int) : MpPiece :=
  if t < 0 then .beforeStart
  else if t < mp.t1 then .initialAcceleration
  else if t < mp.t2 then .constantVelocity
  else if t < mp.t3 then .endAcceleration
  else .complete

/-- `get_mode` -/
def getMode (mp : MotionProfile F) (t : Int) : Option PosDer :=
  if t < 0 then none
  else if t < mp.t1 then some .acceleration
  else if t < mp.t2 then some .velocity
  else if t < mp.t3 then some .acceleration
  else some mp.endCommand.kind

/-- `get_acceleration` -/
def getAcceleration (chk : Bool) (mp : MotionProfile F) (t : Int) : Option (Quantity F) :=
  if t < 0 then none
  else if t < mp.t1 then some mp.maxAcc
  else if t < mp.t2 then some ⟨c0, MILLIMETER_PER_SECOND_SQUARED chk⟩
  else if t < mp.t3 then some (Quantity.neg mp.maxAcc)
  else some (mp.endCommand.getAcceleration chk)

/-- `get_velocity` -/
def getVelocity (chk : Bool) (mp : MotionProfile F) (t : Int) : Except Panic (Option (Quantity F)) :=
  if t < 0 then .ok none
  else if t < mp.t1 then
    (Quantity.add chk (Quantity.mul chk mp.maxAcc (Quantity.ofTime chk t)) mp.startVel).map some
  else if t < mp.t2 then
    (Quantity.add chk (Quantity.mul chk mp.maxAcc (Quantity.ofTime chk mp.t1)) mp.startVel).map some
  else if t < mp.t3 then
    (Quantity.add chk (Quantity.mul chk mp.maxAcc (Quantity.ofTime chk (mp.t1 + mp.t2 - t))) mp.startVel).map some
  else .ok (mp.endCommand.getVelocity chk)

/-- `a + b + c` on quantities -/
def add3 (chk : Bool) (a b c : Quantity F) : Except Panic (Quantity F) :=
  match Quantity.add chk a b with
  | .error e => .error e
  | .ok ab => Quantity.add chk ab c

/-- `get_position` -/
def getPosition (chk : Bool) (mp : MotionProfile F) (t : Int) : Except Panic (Option (Quantity F)) :=
  if t < 0 then .ok none
  else if t < mp.t1 then
    let tq : Quantity F := Quantity.ofTime chk t
    (add3 chk
      (Quantity.mul chk (Quantity.mul chk (Quantity.mul chk (Quantity.dimensionless chk chalf) mp.maxAcc) tq) tq)
      (Quantity.mul chk mp.startVel tq)
      mp.startPos).map some
  else if t < mp.t2 then
    (add3 chk
      (Quantity.mul chk mp.maxAcc (Time.mulTime chk mp.t1 (Int.tdiv (-mp.t1) 2 + t)))
      (Quantity.mul chk mp.startVel (Quantity.ofTime chk t))
      mp.startPos).map some
  else if t < mp.t3 then
    let a := Quantity.mul chk mp.maxAcc (Time.mulTime chk mp.t1 (Int.tdiv (-mp.t1) 2 + mp.t2))
    let b := Quantity.mul chk (Quantity.mul chk (Quantity.dimensionless chk chalf) mp.maxAcc)
      (Time.mulTime chk (t - mp.t2) (t - 2 * mp.t1 - mp.t2))
    match Quantity.sub chk a b with
    | .error e => .error e
    | .ok ab => (add3 chk ab (Quantity.mul chk mp.startVel (Quantity.ofTime chk t)) mp.startPos).map some
  else .ok (mp.endCommand.getPosition chk)

/-- `impl History<Command, E> for MotionProfile`: `get` -/
def historyGet (chk : Bool) (mp : MotionProfile F) (t : Int) : Except Panic (Option (Datum (Command F))) :=
  match mp.getMode t with
  | none => .ok none
  | some mode =>
    let v : Except Panic (Option (Quantity F)) := match mode with
      | .position => mp.getPosition chk t
      | .velocity => mp.getVelocity chk t
      | .acceleration => .ok (mp.getAcceleration chk t)
    match v with
    | .error e => .error e
    | .ok none => .error .expect
    | .ok (some q) => .ok (some ⟨t, Command.new mode q.value⟩)

end MotionProfile
end
end Rrtk
