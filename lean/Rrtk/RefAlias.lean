/-
More statements for the heap machine of `Rrtk/RefHeap.lean` (programs over `Reference` handles):

* `rawAlias`: a raw-pointer `Reference` to the object another handle points at, made the way `unsafe` user code makes one
  (`Reference::from_ptr_mutex(Arc::as_ptr(&arc))`, `from_ptr_rw_lock(Arc::as_ptr(..))`, `from_ptr(RefCell::as_ptr(..))`): same
  address, raw variant, NO share of the count;
* `cloneFrom`: `r_i.clone_from(&r_j)` — `Clone::clone_from` is not overridden in `src/reference.rs`, so it is
  `*self = source.clone()`: clone the source (a counted source gains a share), then the old value of `r_i` is dropped;
* `toDynMoveWith` / `toDynCloneWith`: `to_dyn!` with the arm table as a parameter, so that the driver can run the builds
  without `std` (another definition of the implementing macro) on the same machine.

Run by the driver for `rf` lines that contain `al:` / `cf:` / `dm:` events, compared with the real crate on every run.
-/
import Rrtk.RefHeap
namespace Rrtk

/-- the raw-pointer variant that points INTO an object of the given kind -/
def RefVariant.rawOf : RefVariant → RefVariant
  | .rcRefCell => .ptr
  | .arcRwLock => .ptrRwLock
  | .arcMutex => .ptrMutex
  | v => v

namespace Heap
/-- `to_dyn!` with an explicit arm table -/
def toDynWith (hasArm : RefVariant → Bool) (hp : Heap) (h : RHandle) : Except HFault (Heap × RHandle) :=
  if hasArm h.variant then .ok (hp, ⟨h.variant, h.addr, true⟩) else .error (.panic .unimpl)

/-- a raw pointer to the object `h` points at (the object must be alive to be pointed into); nothing is counted -/
def rawAlias (hp : Heap) (h : RHandle) : Except HFault RHandle :=
  match hp.cell h.addr with
  | .error e => .error e
  | .ok _ => .ok ⟨h.variant.rawOf, h.addr, h.isDyn⟩
end Heap

namespace RState

def toDynMoveWith (hasArm : RefVariant → Bool) (s : RState) (i : Nat) : Except HFault RState :=
  match s.slot i with
  | .error e => .error e
  | .ok h =>
    match Heap.toDynWith hasArm s.heap h with
    | .error e => .error e
    | .ok (hp, h') => .ok ⟨hp, s.table.set i none ++ [some h']⟩

def toDynCloneWith (hasArm : RefVariant → Bool) (s : RState) (i : Nat) : Except HFault RState :=
  match s.slot i with
  | .error e => .error e
  | .ok h =>
    match s.heap.clone h with
    | .error e => .error e
    | .ok (hp, h') =>
      match Heap.toDynWith hasArm hp h' with
      | .error e => .error e
      | .ok (hp', h'') => .ok ⟨hp', s.table ++ [some h'']⟩

/-- `let r_new = unsafe { Reference::from_ptr…(as_ptr(r_i)) };` -/
def rawAlias (s : RState) (i : Nat) : Except HFault RState :=
  match s.slot i with
  | .error e => .error e
  | .ok h =>
    match s.heap.rawAlias h with
    | .error e => .error e
    | .ok h' => .ok ⟨s.heap, s.table ++ [some h']⟩

/-- `r_i.clone_from(&r_j);` = `*r_i = r_j.clone()`: the clone is made first, then the old `r_i` is dropped -/
def cloneFrom (s : RState) (i j : Nat) : Except HFault RState :=
  match s.slot i with
  | .error e => .error e
  | .ok old =>
    match s.slot j with
    | .error e => .error e
    | .ok src =>
      match s.heap.clone src with
      | .error e => .error e
      | .ok (hp, h') =>
        match hp.drop old with
        | .error e => .error e
        | .ok hp' => .ok ⟨hp', s.table.set i (some h')⟩

/-- the first object (address 0) has not been deallocated -/
def live0 (s : RState) : Bool :=
  match s.heap[0]? with
  | some c => !c.freed
  | none => false

end RState
/-! ### the dynamic borrow state of a `RefCell` (the `rc` variant): borrows that a program keeps alive -/

/-- outstanding shared borrows and the outstanding exclusive borrow of the one `RefCell` of an `rf rc` line -/
structure CellBorrow where
  readers : Nat := 0
  writer : Bool := false
  deriving DecidableEq, Repr

namespace CellBorrow
/-- `RefCell::borrow()`: refused (panic) while an exclusive borrow is alive -/
def shared (b : CellBorrow) : Except Panic CellBorrow :=
  if b.writer then .error .borrow else .ok { b with readers := b.readers + 1 }
/-- `RefCell::borrow_mut()`: refused (panic) while ANY borrow is alive -/
def exclusive (b : CellBorrow) : Except Panic CellBorrow :=
  if b.writer || b.readers > 0 then .error .borrow else .ok { b with writer := true }
/-- a momentary read / write (`*r.borrow()`, `*r.borrow_mut() = v`) succeeds iff the corresponding borrow would -/
def canRead (b : CellBorrow) : Bool := !b.writer
def canWrite (b : CellBorrow) : Bool := !b.writer && b.readers == 0
def release (b : CellBorrow) (wasExclusive : Bool) : CellBorrow :=
  if wasExclusive then { b with writer := false } else { b with readers := b.readers - 1 }
end CellBorrow

end Rrtk
