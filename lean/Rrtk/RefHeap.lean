/-
Refined model of `src/reference.rs`: a HEAP of cells addressed by numbers, and `Reference`s as handles
`(variant, address)`.

`Rrtk/Reference.lean` (the model the driver runs) represents one allocation by ONE shared `value` and computes the
liveness of the target from the handle table, so "a clone aliases its source" and "an Arc clone takes a share of the
count" hold there by construction.  Here they are *not* built in:

* a cell (`HCell`) holds the payload, a `freed` flag and — used by the counted variants `RcRefCell`, `ArcRwLock`,
  `ArcMutex` — the strong count of the `Rc` / `Arc` box; `kind` records what sort of memory object the cell is
  (which constructor made it);
* a handle (`RHandle`) is a variant tag plus an address (plus whether it is a `Reference<dyn Trait>`); what a handle
  denotes is decided only by looking its address up in the heap;
* `Heap.clone` follows `impl Clone for ReferenceUnsafe` arm by arm: the raw-pointer arms copy the pointer, the
  `Rc::clone` / `Arc::clone` arms copy the pointer AND increment the strong count stored in the cell;
* `Heap.toDyn` follows the arms of `__to_dyn_impl!`: `$was.into_inner()` MOVES the payload, the pointer (or the `Rc`)
  is cast — same address, strong count untouched because the argument handle is consumed;
* `Heap.drop` follows the drop glue: raw pointers do nothing (their target is a `static` / owned elsewhere), `Rc` /
  `Arc` decrement the count and free the cell when it reaches 0;
* every access goes through `Heap.cell`, which FAULTS (`Except`) on an unallocated address or on a freed cell.

A deep-copying `clone`, a `clone` that forgets the count, a `to_dyn!` arm that builds a handle to some other address
are all expressible here (see the mutants in `Rrtk/Thm/Lemmas/C17Heap.lean`); the theorems there show that the functions
below do none of that, and that this machine refines the `RefCase` model the driver runs.
-/
import Rrtk.Reference
namespace Rrtk

/-- a memory object that `Reference`s point at -/
structure HCell where
  /-- what the object is: a bare `T` (`ptr`), an `RcBox<RefCell<T>>`, a `RwLock<T>` / `Mutex<T>` (static), an
  `ArcInner<RwLock<T>>` / `ArcInner<Mutex<T>>` -/
  kind : RefVariant
  /-- the payload `T` -/
  value : Int
  /-- the object has been deallocated -/
  freed : Bool
  /-- strong count of the `Rc` / `Arc` box (unused for the raw-pointer kinds) -/
  strong : Nat
  deriving DecidableEq, Repr

/-- a `Reference`: variant tag and the address its payload points at; `isDyn`: it is a `Reference<dyn Trait>` -/
structure RHandle where
  variant : RefVariant
  addr : Nat
  isDyn : Bool
  deriving DecidableEq, Repr

inductive HFault where
  /-- the address was never allocated -/
  | dangling
  /-- the cell has been freed -/
  | useAfterFree
  /-- the program named a slot of its handle table that holds no handle (never created, moved out, dropped) -/
  | deadHandle
  /-- a Rust panic (`unimplemented!()` in `to_dyn!`) -/
  | panic (p : Panic)
  deriving DecidableEq, Repr

/-- address `a` is index `a` -/
abbrev Heap := List HCell

namespace Heap

/-- every access: the cell must exist and must not have been freed -/
def cell (hp : Heap) (a : Nat) : Except HFault HCell :=
  match hp[a]? with
  | none => .error .dangling
  | some c => if c.freed then .error .useAfterFree else .ok c

/-- the constructor functions / macros (`static_reference!`, `rc_ref_cell_reference`, `static_rw_lock_reference!`,
`static_mutex_reference!`, `arc_rw_lock_reference`, `arc_mutex_reference`): a fresh object and the first handle to it;
`Rc::new` / `Arc::new` start the strong count at 1 -/
def alloc (hp : Heap) (k : RefVariant) (v : Int) : Heap × RHandle :=
  (hp ++ [⟨k, v, false, if k.counted then 1 else 0⟩], ⟨k, hp.length, false⟩)

/-- `impl Clone for ReferenceUnsafe` (`src/reference.rs:233-249`), arm by arm -/
def clone (hp : Heap) (h : RHandle) : Except HFault (Heap × RHandle) :=
  match h.variant with
  | .ptr => .ok (hp, ⟨.ptr, h.addr, h.isDyn⟩)                    -- `Self::Ptr(*ptr)`
  | .ptrRwLock => .ok (hp, ⟨.ptrRwLock, h.addr, h.isDyn⟩)        -- `Self::PtrRwLock(*ptr_rw_lock)`
  | .ptrMutex => .ok (hp, ⟨.ptrMutex, h.addr, h.isDyn⟩)          -- `Self::PtrMutex(*ptr_mutex)`
  | .rcRefCell =>                                               -- `Self::RcRefCell(Rc::clone(&rc_ref_cell))`
    match hp.cell h.addr with
    | .error e => .error e
    | .ok c => .ok (hp.set h.addr { c with strong := c.strong + 1 }, ⟨.rcRefCell, h.addr, h.isDyn⟩)
  | .arcRwLock =>                                               -- `Self::ArcRwLock(Arc::clone(&arc_rw_lock))`
    match hp.cell h.addr with
    | .error e => .error e
    | .ok c => .ok (hp.set h.addr { c with strong := c.strong + 1 }, ⟨.arcRwLock, h.addr, h.isDyn⟩)
  | .arcMutex =>                                                -- `Self::ArcMutex(Arc::clone(&arc_mutex))`
    match hp.cell h.addr with
    | .error e => .error e
    | .ok c => .ok (hp.set h.addr { c with strong := c.strong + 1 }, ⟨.arcMutex, h.addr, h.isDyn⟩)

/-- `to_dyn!(Trait, was)` expanded in a crate with features `callerFeats` (`src/reference.rs:345-425`): the argument is
MOVED (`$was.into_inner()`), so nothing is counted; each arm casts the pointer / the `Rc` and wraps it in the same
variant; every other variant — and a listed variant whose arm is not usable — reaches `_ => unimplemented!()` -/
def toDyn (callerFeats : List String) (hp : Heap) (h : RHandle) : Except HFault (Heap × RHandle) :=
  -- every arm the macro has (today: `Reference::from_ptr(ptr as *mut dyn _)`, `from_rc_ref_cell(rc as Rc<RefCell<dyn _>>)`,
  -- `from_ptr_rw_lock(p as *const RwLock<dyn _>)`) casts the pointer and wraps it in the SAME variant; WHICH variants have an arm is read
  -- from the regenerated table (`toDynHasArm`), so a macro that lists more variants is followed without touching this definition
  if toDynHasArm callerFeats h.variant then .ok (hp, ⟨h.variant, h.addr, true⟩)
  else .error (.panic .unimpl)

/-- `*reference.borrow()` -/
def read (hp : Heap) (h : RHandle) : Except HFault Int :=
  match hp.cell h.addr with
  | .error e => .error e
  | .ok c => .ok c.value

/-- `*reference.borrow_mut() = v` -/
def write (hp : Heap) (h : RHandle) (v : Int) : Except HFault Heap :=
  match hp.cell h.addr with
  | .error e => .error e
  | .ok c => .ok (hp.set h.addr { c with value := v })

/-- drop glue of `ReferenceUnsafe`: a raw pointer has none; `Rc` / `Arc` decrement the strong count and free the
object when it reaches 0 -/
def drop (hp : Heap) (h : RHandle) : Except HFault Heap :=
  if h.variant.counted then
    match hp.cell h.addr with
    | .error e => .error e
    | .ok c => .ok (hp.set h.addr { c with strong := c.strong - 1, freed := c.strong - 1 == 0 })
  else .ok hp

end Heap

/-! ### programs: a heap and a table of handles (the program's variables) -/

/-- slot `i` of `table` is the program's `i`-th `Reference` variable: `some h` while it holds a handle, `none` once it
has been dropped or moved out of -/
structure RState where
  heap : Heap
  table : List (Option RHandle)
  deriving DecidableEq, Repr

namespace RState

def empty : RState := ⟨[], []⟩

def slot (s : RState) (i : Nat) : Except HFault RHandle :=
  match s.table.getD i none with
  | none => .error .deadHandle
  | some h => .ok h

/-- `let r_new = <constructor>(v);` -/
def alloc (s : RState) (k : RefVariant) (v : Int) : RState :=
  ⟨(s.heap.alloc k v).1, s.table ++ [some (s.heap.alloc k v).2]⟩

/-- a fresh program with one object of variant `k` holding `0` (what `RefCase.init k` abstracts) -/
def init (k : RefVariant) : RState := empty.alloc k 0

/-- `let r_new = r_i.clone();` -/
def clone (s : RState) (i : Nat) : Except HFault RState :=
  match s.slot i with
  | .error e => .error e
  | .ok h =>
    match s.heap.clone h with
    | .error e => .error e
    | .ok (hp, h') => .ok ⟨hp, s.table ++ [some h']⟩

/-- `let r_new = to_dyn!(Trait, r_i);` — `r_i` is moved out of -/
def toDynMove (feats : List String) (s : RState) (i : Nat) : Except HFault RState :=
  match s.slot i with
  | .error e => .error e
  | .ok h =>
    match s.heap.toDyn feats h with
    | .error e => .error e
    | .ok (hp, h') => .ok ⟨hp, s.table.set i none ++ [some h']⟩

/-- `let r_new = to_dyn!(Trait, r_i.clone());` — the form the harness (and `RefCase.toDyn`) uses -/
def toDynClone (feats : List String) (s : RState) (i : Nat) : Except HFault RState :=
  match s.slot i with
  | .error e => .error e
  | .ok h =>
    match s.heap.clone h with
    | .error e => .error e
    | .ok (hp, h') =>
      match Heap.toDyn feats hp h' with
      | .error e => .error e
      | .ok (hp', h'') => .ok ⟨hp', s.table ++ [some h'']⟩

def read (s : RState) (i : Nat) : Except HFault Int :=
  match s.slot i with
  | .error e => .error e
  | .ok h => s.heap.read h

def write (s : RState) (i : Nat) (v : Int) : Except HFault RState :=
  match s.slot i with
  | .error e => .error e
  | .ok h =>
    match s.heap.write h v with
    | .error e => .error e
    | .ok hp => .ok ⟨hp, s.table⟩

/-- `drop(r_i);` -/
def drop (s : RState) (i : Nat) : Except HFault RState :=
  match s.slot i with
  | .error e => .error e
  | .ok h =>
    match s.heap.drop h with
    | .error e => .error e
    | .ok hp => .ok ⟨hp, s.table.set i none⟩

end RState

inductive HOp where
  | alloc (k : RefVariant) (v : Int)
  | clone (i : Nat)
  | toDynClone (i : Nat)
  | toDynMove (i : Nat)
  | read (i : Nat)
  | write (i : Nat) (v : Int)
  | drop (i : Nat)
  deriving DecidableEq, Repr

/-- one statement of a program expanded in a crate with features `feats`; a `read` only checks that it does not fault -/
def hexec (feats : List String) (s : RState) : HOp → Except HFault RState
  | .alloc k v => .ok (s.alloc k v)
  | .clone i => s.clone i
  | .toDynClone i => s.toDynClone feats i
  | .toDynMove i => s.toDynMove feats i
  | .read i =>
    match s.read i with
    | .error e => .error e
    | .ok _ => .ok s
  | .write i v => s.write i v
  | .drop i => s.drop i

/-- run a program with an arbitrary statement interpreter (the mutants of `Thm/Lemmas/C17Heap.lean` plug in theirs) -/
def hrunWith (ex : RState → HOp → Except HFault RState) : RState → List HOp → Except HFault RState
  | s, [] => .ok s
  | s, op :: rest =>
    match ex s op with
    | .error e => .error e
    | .ok s' => hrunWith ex s' rest

/-- run a program; the first fault / panic stops it -/
def hrun (feats : List String) : RState → List HOp → Except HFault RState := hrunWith (hexec feats)

end Rrtk
