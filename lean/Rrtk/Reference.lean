/-
Model of `src/reference.rs`.

(1) Handles: a case has one target object holding an `Int`. A `Reference` is a handle `(variant, dyn?)`; all
handles of a case alias the one target (that is what `clone` and `to_dyn!` are supposed to preserve, and what the
correspondence check observes through reads and writes). For the counted variants (Rc / Arc) the target is alive
exactly while some handle exists.
(2) `to_dyn!`: which variants have a match arm, under which `cfg(feature = …)` guard, evaluated against the
*calling* crate's features (the macro is `#[macro_export]`ed) — table regenerated in `Gen/ToDyn.lean`.
(3) The lock protocol followed by `borrow_mut` on the Mutex / RwLock variants, as a small-step interleaving semantics
(used by the "no lost update for every schedule" theorem).
-/
import Rrtk.Scalar
import Rrtk.Gen.ToDyn
namespace Rrtk

/-- `ReferenceUnsafe` variants -/
inductive RefVariant where
  | ptr | rcRefCell | ptrRwLock | ptrMutex | arcRwLock | arcMutex
  deriving DecidableEq, Repr

def RefVariant.name : RefVariant → String
  | .ptr => "Ptr" | .rcRefCell => "RcRefCell" | .ptrRwLock => "PtrRwLock"
  | .ptrMutex => "PtrMutex" | .arcRwLock => "ArcRwLock" | .arcMutex => "ArcMutex"

/-- reference-counted variants keep their target alive; pointer variants point at statics -/
def RefVariant.counted : RefVariant → Bool
  | .rcRefCell | .arcRwLock | .arcMutex => true
  | _ => false

/-- is a feature enabled in a crate's feature set (`""` = no guard) -/
def featOn (feats : List String) (f : String) : Bool := f == "" || feats.contains f

/-- is a feature on in an rrtk build with cargo features `feats` (`std` implies `alloc` in rrtk's Cargo.toml) -/
def rrtkFeatOn (feats : List String) (f : String) : Bool :=
  feats.contains f || (f == "alloc" && feats.contains "std")

/-- the `#[cfg]` on a macro definition (a conjunction), evaluated in rrtk -/
def itemCfgHolds (rrtkFeats : List String) (cfg : List (String × Bool)) : Bool :=
  cfg.all (fun c => rrtkFeatOn rrtkFeats c.1 == c.2)

/-- `to_dyn!` has a usable arm for this variant when rrtk is built with `rrtkFeats` and the macro is expanded in a
crate with features `callerFeats`: some definition of the implementing macro is compiled into rrtk (its item-level
`cfg` holds in rrtk) and has an arm for the variant whose in-body `cfg` guard — evaluated in the CALLER because the
macro is exported — is satisfied. -/
def toDynHasArmIn (callerFeats rrtkFeats : List String) (v : RefVariant) : Bool :=
  Gen.toDynDefs.any (fun d => itemCfgHolds rrtkFeats d.1 &&
    d.2.any (fun a => a.1 == v.name && featOn callerFeats a.2))

/-- the same for an rrtk built with `std` (the harness's default configuration) -/
def toDynHasArm (callerFeats : List String) (v : RefVariant) : Bool :=
  toDynHasArmIn callerFeats ["std", "alloc"] v

/-- the variant exists in an rrtk build with features `rrtkFeats` (guards on the enum, evaluated in rrtk) -/
def variantExists (rrtkFeats : List String) (v : RefVariant) : Bool :=
  Gen.refVariants.any (fun a => a.1 == v.name && (a.2 == "" || rrtkFeatOn rrtkFeats a.2))

/-- the variants the macro lists (has an arm for, whatever the guard) -/
def toDynLists (v : RefVariant) : Bool := Gen.toDynArms.any (fun a => a.1 == v.name)

/-! ### handles -/
structure RefCase where
  variant : RefVariant
  value : Int
  /-- `some isDyn` = live handle, `none` = dropped handle -/
  handles : List (Option Bool)
  /-- target has been dropped (counted variants only) -/
  dropped : Bool

namespace RefCase
def init (v : RefVariant) : RefCase := ⟨v, 0, [some false], false⟩
def handleLive (c : RefCase) (h : Nat) : Bool := (c.handles.getD h none).isSome
def anyLive (c : RefCase) : Bool := c.handles.any (·.isSome)
/-- `clone` -/
def clone (c : RefCase) (h : Nat) : Option RefCase :=
  match c.handles.getD h none with
  | some d => some { c with handles := c.handles ++ [some d] }
  | none => none
/-- `to_dyn!(Trait, clone of h)` expanded in a crate with features `callerFeats` -/
def toDyn (callerFeats : List String) (c : RefCase) (h : Nat) : Option (Except Panic RefCase) :=
  match c.handles.getD h none with
  | some _ =>
    if toDynHasArm callerFeats c.variant then some (.ok { c with handles := c.handles ++ [some true] })
    else some (.error .unimpl)
  | none => none
/-- the same when rrtk itself is built with features `rrtkFeats` (which definition of the macro exists is decided there) -/
def toDynIn (callerFeats rrtkFeats : List String) (c : RefCase) (h : Nat) : Option (Except Panic RefCase) :=
  match c.handles.getD h none with
  | some _ =>
    if toDynHasArmIn callerFeats rrtkFeats c.variant then some (.ok { c with handles := c.handles ++ [some true] })
    else some (.error .unimpl)
  | none => none
def read (c : RefCase) (h : Nat) : Option Int := if c.handleLive h then some c.value else none
def write (c : RefCase) (h : Nat) (v : Int) : Option RefCase :=
  if c.handleLive h then some { c with value := v } else none
def drop (c : RefCase) (h : Nat) : Option RefCase :=
  if c.handleLive h then
    let hs := c.handles.set h none
    some { c with handles := hs, dropped := c.dropped || (c.variant.counted && !(hs.any (·.isSome))) }
  else none
def live (c : RefCase) : Bool := !c.dropped
end RefCase

/-! ### lock protocol: `n` threads, each `k` times { acquire; read; write (read+1); release } -/
inductive LockPhase where
  | acquired
  | read (x : Int)
  | written
  deriving DecidableEq, Repr

structure LockState where
  value : Int
  holder : Option (Nat × LockPhase)
  /-- completed increments per thread -/
  done : List Nat

/-- one atomic step of thread `i` (`k` iterations per thread) -/
inductive LockStep (k : Nat) : LockState → LockState → Prop where
  | acquire (s : LockState) (i : Nat) (hi : i < s.done.length) (hfree : s.holder = none)
      (hk : s.done.getD i 0 < k) : LockStep k s { s with holder := some (i, .acquired) }
  | read (s : LockState) (i : Nat) (h : s.holder = some (i, .acquired)) :
      LockStep k s { s with holder := some (i, .read s.value) }
  | write (s : LockState) (i : Nat) (x : Int) (h : s.holder = some (i, .read x)) :
      LockStep k s { s with value := x + 1, holder := some (i, .written) }
  | release (s : LockState) (i : Nat) (h : s.holder = some (i, .written)) :
      LockStep k s { s with holder := none, done := s.done.set i (s.done.getD i 0 + 1) }

/-- reflexive-transitive closure: any schedule -/
inductive LockRun (k : Nat) : LockState → LockState → Prop where
  | refl (s : LockState) : LockRun k s s
  | step {a b c : LockState} : LockRun k a b → LockStep k b c → LockRun k a c

def LockState.init (n : Nat) : LockState := ⟨0, none, List.replicate n 0⟩

end Rrtk
