/-
Scalar abstraction for the rrtk model.

rrtk computes in IEEE binary32.  Every model function is generic in the scalar type `F`:
it only uses the notation classes `+ - * / -x < ≤ ==` plus the four operations of `FloatLike`.
* At `F = Float32` (file `F32.lean`) the model is executable and is compared bit-for-bit with the
  Rust implementation by the correspondence check.
* Tier-S theorems are stated for an arbitrary `F` with no laws, hence hold for real binary32.
* Tier-R theorems instantiate `F` with a linear ordered field and assume `FloatLike.ofInt` is the
  canonical cast (`ExactScalar`, in `Thm/Lemmas`).

No imports: everything a model file needs is in core Lean, so the driver links as a `lean_exe`.
-/
namespace Rrtk

/-- The operations of `f32` the crate uses beyond the arithmetic/comparison operators. -/
class FloatLike (F : Type) where
  /-- `n as f32` for an `i64` `n`. -/
  ofInt : Int → F
  /-- `x as i64` (saturating, NaN ↦ 0). -/
  toInt : F → Int
  /-- `powf` (std / libm / micromath, selected by cargo features). -/
  powf : F → F → F
  /-- `f32::abs`. -/
  absF : F → F

section lits
variable {F : Type} [FloatLike F] [Div F]
/-- f32 literals used by the crate; all are exactly representable integers or `1/2`. -/
@[reducible] def c0 : F := FloatLike.ofInt 0
@[reducible] def c1 : F := FloatLike.ofInt 1
@[reducible] def c2 : F := FloatLike.ofInt 2
@[reducible] def c3 : F := FloatLike.ofInt 3
@[reducible] def cm1 : F := FloatLike.ofInt (-1)
/-- `1_000_000_000.0` -/
@[reducible] def c1e9 : F := FloatLike.ofInt 1000000000
/-- `0.5` (= `1.0 / 2.0` exactly in binary32) -/
@[reducible] def chalf : F := (FloatLike.ofInt 1 : F) / FloatLike.ofInt 2
end lits

/-- Everything that makes the real code panic, kept apart so that no branch is defaulted away. -/
inductive Panic where
  | dim        -- unit mismatch assertion (`assert_eq_assume_ok`)
  | overflow   -- integer overflow in a debug build
  | div0       -- integer division by zero
  | kind       -- `assert_eq!` on command kinds
  | unimpl     -- `unimplemented!()`
  | expect     -- `Option::expect` / `Result::expect` on the wrong variant
  | borrow     -- RefCell double borrow
  | oob        -- index out of bounds
  | mpT1 | mpT3 | mpT2   -- the three asserts of `MotionProfile::new`
  | arity      -- `N < 1` / `N < 2` constructor panics
  deriving DecidableEq, Repr, Inhabited

def Panic.toString : Panic → String
  | .dim => "dim" | .overflow => "overflow" | .div0 => "div0" | .kind => "kind"
  | .unimpl => "unimpl" | .expect => "expect" | .borrow => "borrow" | .oob => "oob"
  | .mpT1 => "mpT1" | .mpT3 => "mpT3" | .mpT2 => "mpT2" | .arity => "arity"

instance : ToString Panic := ⟨Panic.toString⟩

/-- `i64` range. -/
def inI64 (n : Int) : Prop := -9223372036854775808 ≤ n ∧ n ≤ 9223372036854775807
instance (n : Int) : Decidable (inI64 n) := by unfold inI64; infer_instance

/-- An `i64` result of an arithmetic operation in a debug build: panics when out of range. -/
def chkI64 (n : Int) : Except Panic Int := if inI64 n then .ok n else .error .overflow

end Rrtk
