/-
Slot-level models of the four `MaybeUninit` scratch arrays (C16): `SumStream::get` / `ProductStream::get`
(`src/streams/math.rs`), `Terminal`'s state getter (`src/lib.rs`) and `Axle::new` (`src/devices.rs`).
Every slot is `Option` (`none` = uninitialised).  Reading an uninitialised slot or indexing out of range is a `Fault`
— what the `unsafe { assume_init() }` and the slice indexing of the real code would turn into undefined behaviour or
a panic.  The theorems (Thm/C16) show no fault is reachable and the results equal the list-level models.
-/
import Rrtk.Streams.Stateless
import Rrtk.Devices
namespace Rrtk

inductive Fault where
  | oob      -- index out of range
  | uninit   -- `assume_init` on a slot that was never written
  deriving DecidableEq, Repr

abbrev Slots (α : Type) := List (Option α)

namespace Slots
variable {α : Type}
def fresh (n : Nat) : Slots α := List.replicate n none
/-- `slots[i].write(x)` -/
def write (s : Slots α) (i : Nat) (x : α) : Except Fault (Slots α) :=
  if i < s.length then .ok (s.set i (some x)) else .error .oob
/-- `slots[i].assume_init()` -/
def read (s : Slots α) (i : Nat) : Except Fault α :=
  match s[i]? with
  | none => .error .oob
  | some none => .error .uninit
  | some (some x) => .ok x
end Slots

namespace Scratch
variable {α : Type}

/-- first loop of `SumStream::get`: returns the input error if one is met, else the slots and the fill counter -/
def fill : List (Output α) → Slots (Datum α) → Nat → Except Fault (Except Err (Slots (Datum α) × Nat))
  | [], s, k => .ok (.ok (s, k))
  | .error e :: _, _, _ => .ok (.error e)
  | .ok none :: rest, s, k => fill rest s k
  | .ok (some x) :: rest, s, k =>
    match s.write k x with
    | .error f => .error f
    | .ok s' => fill rest s' (k + 1)

/-- `for i in 0..filled-1 { value op= other_outputs[i].assume_init() }` where `other_outputs = outputs[1..]` -/
def foldFrom (op : α → α → α) (s : Slots (Datum α)) (value : Datum α) : (i : Nat) → (count : Nat) → Except Fault (Datum α)
  | _, 0 => .ok value
  | i, count + 1 =>
    match s.read (1 + i) with
    | .error f => .error f
    | .ok x => foldFrom op s (Datum.combine op value x) (i + 1) count

/-- `SumStream::get` / `ProductStream::get` at slot level, for `N = ins.length` -/
def nary (op : α → α → α) (ins : List (Output α)) : Except Fault (Output α) :=
  match fill ins (Slots.fresh ins.length) 0 with
  | .error f => .error f
  | .ok (.error e) => .ok (.error e)
  | .ok (.ok (s, filled)) =>
    if filled = 0 then .ok (.ok none)
    else
      match s.read 0 with
      | .error f => .error f
      | .ok v0 =>
        match foldFrom op s v0 0 (filled - 1) with
        | .error f => .error f
        | .ok v => .ok (.ok (some v))

/-- `Terminal`'s state getter at slot level: `addends: [MaybeUninit<Datum<State>>; 2]` -/
def terminalState {F : Type} [Add F] [Div F] [FloatLike F]
    (own partner : Option (Datum (State F))) : Except Fault (Option (Datum (State F))) :=
  let s0 : Slots (Datum (State F)) := Slots.fresh 2
  let r1 : Except Fault (Slots (Datum (State F)) × Nat) := match own with
    | some st => (s0.write 0 st).map (fun s => (s, 1))
    | none => .ok (s0, 0)
  match r1 with
  | .error f => .error f
  | .ok (s1, c1) =>
    let r2 : Except Fault (Slots (Datum (State F)) × Nat) := match partner with
      | some st => (s1.write c1 st).map (fun s => (s, c1 + 1))
      | none => .ok (s1, c1)
    match r2 with
    | .error f => .error f
    | .ok (s2, c2') =>
      match c2' with
      | 0 => .ok none
      | 1 => (s2.read 0).map some
      | 2 =>
        match s2.read 0, s2.read 1 with
        | .ok a, .ok b => .ok (some (Datum.scalar State.divF (Datum.combine State.add a b) c2))
        | .error f, _ => .error f
        | _, .error f => .error f
      | _ => .error .oob    -- `unimplemented!()`

/-- `Axle::new`: write every element, then read the whole array out -/
def axleNew (n : Nat) : Except Fault (List Unit) :=
  let written := (List.range n).foldl (fun (acc : Except Fault (Slots Unit)) i =>
    match acc with
    | .error f => .error f
    | .ok s => s.write i ()) (.ok (Slots.fresh n))
  match written with
  | .error f => .error f
  | .ok s => (List.range n).mapM (fun i => s.read i)

end Scratch
end Rrtk
