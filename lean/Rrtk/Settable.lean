/-
Model of `Settable` bookkeeping (`SettableData`, `set`, `follow`, `stop_following`, `update_following_data`),
`GetterFromHistory`, `ConstantGetter` (`src/lib.rs`).  The inner `impl_set` of a settable and the getters that can be
followed are scripted: what they return is an argument of the step (`gs : Nat → Output T`, one output per getter).
Clock arithmetic is plain `Int` (the property quantifies over clocks and offsets that do not overflow).
-/
import Rrtk.Core
namespace Rrtk

/-- `SettableData<S,E>` plus what the harness's recording settable remembers.
`following` is the IDENTITY of the followed getter (`SettableData::following : Option<Reference<dyn Getter>>`):
getters are numbered, `some i` = following getter number `i`, `none` = not following. -/
structure SettableS (T : Type) where
  lastRequest : Option T
  following : Option Nat

namespace SettableS
variable {T : Type}
def init : SettableS T := ⟨none, none⟩
/-- `Settable::set(v)` when `impl_set` returns `acc`: the request is stored only after success.
Result: new data, the value `impl_set` accepted (if any), return value. -/
def set (s : SettableS T) (v : T) (acc : UpdRet) : SettableS T × Option T × UpdRet :=
  match acc with
  | .ok _ => ({ s with lastRequest := some v }, some v, .ok ())
  | .error e => (s, none, .error e)
/-- `follow(getter)`: `data.following = Some(getter)` — REPLACES whatever was followed before -/
def follow (s : SettableS T) (g : Nat) : SettableS T := { s with following := some g }
def stopFollowing (s : SettableS T) : SettableS T := { s with following := none }
/-- `update_following_data` when getter number `i` currently returns `gs i`: only the followed getter is asked -/
def updateFollowingData (s : SettableS T) (gs : Nat → Output T) (acc : UpdRet) : SettableS T × Option T × UpdRet :=
  match s.following with
  | some i =>
    match gs i with
    | .error e => (s, none, .error e)
    | .ok none => (s, none, .ok ())
    | .ok (some d) => set s d.value acc
  | none => (s, none, .ok ())
/-- the harness's `Rec::update`: `update_following_data()?` then its own scripted result `iu` -/
def recUpdate (s : SettableS T) (gs : Nat → Output T) (acc iu : UpdRet) : SettableS T × Option T × UpdRet :=
  let r := updateFollowingData s gs acc
  match r.2.2 with
  | .error e => (r.1, r.2.1, .error e)
  | .ok _ => (r.1, r.2.1, iu)
end SettableS

/-- `ConstantGetter<T, TG, E>`: its value and its settable data -/
structure ConstGetterS (T : Type) where
  value : T
  sd : SettableS T

namespace ConstGetterS
variable {T : Type}
def init (v : T) : ConstGetterS T := ⟨v, SettableS.init⟩
def get (s : ConstGetterS T) (clk : TimeOutput) : Output T :=
  match clk with
  | .error e => .error e
  | .ok t => .ok (some ⟨t, s.value⟩)
/-- `set` (`impl_set` stores the value and always succeeds) -/
def set (s : ConstGetterS T) (v : T) : ConstGetterS T := ⟨v, { s.sd with lastRequest := some v }⟩
/-- `update` = `update_following_data` (getter number `i` currently returns `gs i`) -/
def update (s : ConstGetterS T) (gs : Nat → Output T) : ConstGetterS T × UpdRet :=
  match s.sd.following with
  | some i =>
    match gs i with
    | .error e => (s, .error e)
    | .ok none => (s, .ok ())
    | .ok (some d) => (set s d.value, .ok ())
  | none => (s, .ok ())
end ConstGetterS

/-! `GetterFromHistory`: only the offset is state -/
namespace Gfh
variable {T : Type}
/-- `new_no_delta` -/
def newNoDelta : Int := 0
/-- `new_start_at_zero`: `-now` -/
def newStartAtZero (clk : TimeOutput) : Except Err Int :=
  match clk with
  | .error e => .error e
  | .ok now => .ok (-now)
/-- `new_custom_start`: `start - now` -/
def newCustomStart (clk : TimeOutput) (start : Int) : Except Err Int :=
  match clk with
  | .error e => .error e
  | .ok now => .ok (start - now)
/-- `new_custom_delta` / `set_delta` -/
def newCustomDelta (d : Int) : Int := d
/-- `set_time`: on a clock error the offset is unchanged -/
def setTime (delta : Int) (clk : TimeOutput) (t : Int) : Int × UpdRet :=
  match clk with
  | .error e => (delta, .error e)
  | .ok now => (t - now, .ok ())
/-- `get`: the history's value at `now + delta`, restamped with `now` -/
def get (hist : Int → Option (Datum T)) (delta : Int) (clk : TimeOutput) : Output T :=
  match clk with
  | .error e => .error e
  | .ok now =>
    match hist (now + delta) with
    | some d => .ok (some ⟨now, d.value⟩)
    | none => .ok none
end Gfh

end Rrtk
