/-
A kernel-transparent model of IEEE-754 binary32 rounding on exact rationals (core `Rat`), import-free.

Why: Lean's `Float32` is opaque to the kernel, so no theorem can mention it.  `rne32 : Rat → Rat` is the function
"round to nearest, ties to even, precision 24, minimum exponent −126 (gradual underflow), NO upper exponent bound"
— the standard device of floating-point proofs: for `|rne32 x| < 2^128` it is exactly what binary32 hardware returns for the
exact real result `x` of `+ − * /` and of `i64 as f32`; where `|rne32 x| ≥ 2^128` the hardware returns ±∞ (`overflows`).

Tie to the implementation: the driver op group `sf` evaluates `rne32` on the exact rational result of `a ⊕ b` for operands given
as binary32 bit patterns (decoded exactly by `decode`) and prints the encoding of the result; the harness prints what the CPU
computed for the same operands (Rust `f32`), and what Lean's `Float32` computed is printed by the driver as well — three-way
bit-for-bit comparison on stratified operands (normal, subnormal, ties, near-overflow), part of the C18 check.

Theorems about `rne32` (relative error 2^-24 in the normal range, monotone, exact on representable values, `rne32 1e9 = 1e9`)
are in `Rrtk/Thm/Lemmas/SoftFloat.lean`; they discharge the `RoundingSpec` hypotheses of the C18 accuracy theorems.
-/
namespace Rrtk.Soft

/-- `2^k` as a rational for an integer exponent. -/
def pow2 (k : Int) : Rat := if 0 ≤ k then ((2 ^ k.toNat : Nat) : Rat) else 1 / ((2 ^ (-k).toNat : Nat) : Rat)

/-- `⌊log₂ (p/q)⌋` for positive naturals `p`, `q`. -/
def ilog2 (p q : Nat) : Int :=
  let d : Int := (Nat.log2 p : Int) - (Nat.log2 q : Int)
  -- 2^(d-1) < p/q < 2^(d+1): the floor is d or d-1
  if (if 0 ≤ d then q * 2 ^ d.toNat ≤ p else q ≤ p * 2 ^ (-d).toNat) then d else d - 1

/-- round a non-negative rational to the nearest natural, ties to even -/
def roundHalfEven (r : Rat) : Nat :=
  let n := r.num.toNat / r.den
  let rem2 := 2 * (r.num.toNat % r.den)
  if rem2 < r.den then n
  else if r.den < rem2 then n + 1
  else if n % 2 = 0 then n else n + 1

/-- exponent of the unit in the last place for a positive rational: `max ⌊log₂ x⌋ (−126) − 23` -/
def ulpExp (x : Rat) : Int := max (ilog2 x.num.toNat x.den) (-126) - 23

/-- binary32 round-to-nearest-even of a positive rational (unbounded upward) -/
def rnePos (x : Rat) : Rat :=
  let ue := ulpExp x
  (roundHalfEven (x / pow2 ue) : Rat) * pow2 ue

/-- binary32 round-to-nearest-even (unbounded upward), odd function, `rne32 0 = 0` -/
def rne32 (x : Rat) : Rat :=
  if x = 0 then 0 else if 0 < x then rnePos x else - rnePos (-x)

/-- the hardware result would be ±∞ -/
def overflows (x : Rat) : Bool := decide (pow2 128 ≤ (if 0 ≤ rne32 x then rne32 x else - rne32 x))

/-! ### bit patterns -/

/-- value of a finite binary32 bit pattern (`none` for ∞/NaN); `−0` and `+0` both decode to `0`. -/
def decode (b : Nat) : Option Rat :=
  let sign : Nat := (b / 2 ^ 31) % 2
  let ex : Nat := (b / 2 ^ 23) % 256
  let man : Nat := b % 2 ^ 23
  if ex = 255 then none else
  let mag : Rat := if ex = 0 then (man : Rat) * pow2 (-149) else (((2 ^ 23 + man : Nat)) : Rat) * pow2 ((ex : Int) - 150)
  some (if sign = 1 then -mag else mag)

/-- bit pattern of a representable positive rational below `2^128` (used on results of `rnePos`) -/
def encodePos (x : Rat) : Nat :=
  let e := ilog2 x.num.toNat x.den
  if e < -126 then
    (x / pow2 (-149)).num.toNat
  else
    let m := (x / pow2 (e - 23)).num.toNat   -- in [2^23, 2^24)
    (e + 127).toNat * 2 ^ 23 + (m - 2 ^ 23)

/-- encoding of a rounded result; `sign` supplies the sign of an exact zero.  `0x7f800000` is +∞. -/
def encode (x : Rat) (negZero : Bool) : Nat :=
  if x = 0 then (if negZero then 2 ^ 31 else 0)
  else if 0 < x then (if pow2 128 ≤ x then 0x7f800000 else encodePos x)
  else (if pow2 128 ≤ -x then 0xff800000 else 2 ^ 31 + encodePos (-x))

/-- `n as f32` -/
def ofInt (n : Int) : Nat := encode (rne32 (n : Rat)) false

inductive Op | add | sub | mul | div
  deriving DecidableEq, Repr

/-- exact rational result of a binary operation (division by zero is excluded by the caller) -/
def exact (op : Op) (a b : Rat) : Rat :=
  match op with
  | .add => a + b | .sub => a - b | .mul => a * b | .div => a / b

/-- binary32 operation on finite operands with a finite-or-overflowing, non-invalid result.
`none` = outside the modelled fragment (∞/NaN operand, division by zero). The sign of an exact zero result follows
IEEE-754 §6.3: product/quotient: xor of the signs; sum/difference: `+0` unless both addends are `−0`-signed zeros
(round-to-nearest), i.e. `x + (−x) = +0`. -/
def binop (op : Op) (a b : Nat) : Option Nat :=
  match decode a, decode b with
  | some x, some y =>
    if op = .div ∧ y = 0 then none else
    let sa := (a / 2 ^ 31) % 2 = 1
    let sb := (b / 2 ^ 31) % 2 = 1
    let negZero : Bool := match op with
      | .mul | .div => decide (sa ≠ sb)
      | .add => decide (sa ∧ sb)
      | .sub => decide (sa ∧ ¬ sb)
    let r := rne32 (exact op x y)
    -- an exact zero result of add/sub of nonzero operands is +0; of zero operands follows negZero
    let nz : Bool := match op with
      | .add | .sub => if x = 0 ∧ y = 0 then negZero else false
      | _ => negZero
    some (encode r nz)
  | _, _ => none

end Rrtk.Soft
