/-
Model of the PID controller ASSEMBLED from the crate's own streams, wired as in `examples/pid.rs`:
`TimeGetterFromGetter` over the input, `ConstantGetter`s for setpoint and gains, `DifferenceStream` → `IntegralStream` /
`DerivativeStream` → `NoneToValue(0)` → `ProductStream` with the gain → `QuantityToFloat` → `SumStream` of the three.
Every stateful node is updated on every round (int, drv, then the three converters); `get` reads the sum.
It is built only from the models of the individual streams.
-/
import Rrtk.Streams.Stateless
import Rrtk.Streams.Stateful
namespace Rrtk
section
variable {F : Type} [Add F] [Sub F] [Mul F] [Div F] [Neg F] [LT F] [LE F] [BEq F]
  [DecidableLT F] [DecidableLE F] [FloatLike F]

/-- `DifferenceStream<Quantity, …>::get` (`Stream.binaryPass` with the panicking `Quantity` subtraction) -/
def diffQ (chk : Bool) (a b : Output (Quantity F)) : Except Panic (Output (Quantity F)) :=
  match a with
  | .error e => .ok (.error e)
  | .ok ao =>
    match b with
    | .error e => .ok (.error e)
    | .ok bo =>
      match ao with
      | none => .ok (.ok none)
      | some x =>
        match bo with
        | none => .ok (.ok (some x))
        | some y =>
          match Quantity.sub chk x.value y.value with
          | .error p => .error p
          | .ok v => .ok (.ok (some ⟨if x.time > y.time then x.time else y.time, v⟩))

structure SpidS (F : Type) where
  int : DiS F
  drv : DiS F
  pro : Output F
  intF : Output F
  drvF : Output F

namespace Spid
def init : SpidS F := ⟨Integral.init, Derivative.init, Q2f.init, Q2f.init, Q2f.init⟩

/-- the error signal as the assembled controller sees it for the current input -/
def errorSignal (chk : Bool) (sp : F) (ev : Output (Quantity F)) : Except Panic (Output (Quantity F)) :=
  let tg := Stream.timeGetterFromGetter ev
  diffQ chk (Stream.constantGetter tg ⟨sp, MILLIMETER chk⟩) ev

def step (chk : Bool) (sp kp ki kd : F) (s : SpidS F) (ev : Output (Quantity F)) : Except Panic (SpidS F × UpdRet) :=
  let tg := Stream.timeGetterFromGetter ev
  let kpOut : Output (Quantity F) := Stream.constantGetter tg (Quantity.dimensionless chk kp)
  let kiOut : Output (Quantity F) := Stream.constantGetter tg (Quantity.dimensionless chk ki)
  let kdOut : Output (Quantity F) := Stream.constantGetter tg (Quantity.dimensionless chk kd)
  match errorSignal chk sp ev with
  | .error p => .error p
  | .ok err =>
    match Integral.step chk s.int err with
    | .error p => .error p
    | .ok (int', r1) =>
      match Derivative.step chk s.drv err with
      | .error p => .error p
      | .ok (drv', r2) =>
        let zero : Quantity F := ⟨c0, MILLIMETER chk⟩
        let intz := Stream.noneToValue (Integral.get int') tg zero
        let drvz := Stream.noneToValue (Derivative.get drv') tg zero
        let pro' := (Q2f.step s.pro (Stream.nary (Quantity.mul chk) [kpOut, err])).1
        let intF' := (Q2f.step s.intF (Stream.nary (Quantity.mul chk) [kiOut, intz])).1
        let drvF' := (Q2f.step s.drvF (Stream.nary (Quantity.mul chk) [kdOut, drvz])).1
        let ret : UpdRet := match r1 with
          | .error e => .error e
          | .ok _ => r2
        .ok (⟨int', drv', pro', intF', drvF'⟩, ret)

def get (s : SpidS F) : Output F :=
  Stream.nary (· + ·) [Q2f.get s.pro, Q2f.get s.intF, Q2f.get s.drvF]
end Spid
end
end Rrtk
