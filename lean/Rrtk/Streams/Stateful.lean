/-
Model of the stateful streams: `streams/control.rs` (PIDControllerStream, CommandPID, EWMAStream,
MovingAverageStream), `streams/math.rs` (DerivativeStream, IntegralStream), `streams/converters.rs`
(Acceleration/Velocity/PositionToState, FloatToQuantity, QuantityToFloat), `streams/flow.rs` (FreezeStream).

Each stream is `(State, init, step : State → input Output → State × update-return, get : State → Output)`.
`get` is a function of the state only. Steps that go through `Quantity` operators return `Except Panic`.
-/
import Rrtk.Core
namespace Rrtk
section
variable {F : Type} [Add F] [Sub F] [Mul F] [Div F] [Neg F] [LT F] [LE F] [BEq F]
  [DecidableLT F] [DecidableLE F] [FloatLike F]

/-- `f32::from(Quantity::from(Time(t)))`: nanoseconds to f32 seconds. -/
def secs (t : Int) : F := (FloatLike.ofInt t : F) / c1e9

/-! ### PIDControllerStream -/
structure PidS (F : Type) where
  prevError : Option (Datum F)
  intError : F
  output : Output F

namespace Pid
def init : PidS F := ⟨none, c0, .ok none⟩
def step (sp : F) (k : PIDK F) (s : PidS F) (inp : Output F) : PidS F × UpdRet :=
  match inp with
  | .ok none => (init, .ok ())
  | .error e => ({ (init : PidS F) with output := .error e }, .error e)
  | .ok (some p) =>
    let error := sp - p.value
    let ad : F × F := match s.prevError with
      | some pe =>
        let dt : F := secs (p.time - pe.time)
        (dt * (pe.value + error) / c2, (error - pe.value) / dt)
      | none => (c0, c0)
    let ie := s.intError + ad.1
    (⟨some ⟨p.time, error⟩, ie, .ok (some ⟨p.time, k.kp * error + k.ki * ie + k.kd * ad.2⟩)⟩, .ok ())
def get (s : PidS F) : Output F := s.output
end Pid

/-! ### CommandPID -/
structure CpU1 (F : Type) where
  outputInt : F
  errorInt : F
  outputIntInt : Option F
structure CpU0 (F : Type) where
  time : Int
  output : F
  error : F
  u1 : Option (CpU1 F)
structure CpidS (F : Type) where
  command : Command F
  us : Except Err (Option (CpU0 F))
  lastRequest : Option (Command F)

namespace Cpid
def init (c : Command F) : CpidS F := ⟨c, .ok none, none⟩
def reset (s : CpidS F) : CpidS F := { s with us := .ok none }
/-- `Settable::set` (= `impl_set` then record the request; `impl_set` never fails). -/
def set (s : CpidS F) (c : Command F) : CpidS F :=
  let s := if !(Command.beq c s.command) then { s with us := .ok none, command := c } else s
  { s with lastRequest := some c }
def get (s : CpidS F) : Output F :=
  match s.us with
  | .error e => .error e
  | .ok none => .ok none
  | .ok (some u0) =>
    match s.command.kind with
    | .position => .ok (some ⟨u0.time, u0.output⟩)
    | .velocity =>
      match u0.u1 with
      | none => .ok none
      | some u1 => .ok (some ⟨u0.time, u1.outputInt⟩)
    | .acceleration =>
      match u0.u1 with
      | none => .ok none
      | some u1 =>
        match u1.outputIntInt with
        | none => .ok none
        | some x => .ok (some ⟨u0.time, x⟩)
/-- the part of `update` after `update_following_data` -/
def stepInput (chk : Bool) (k : PIDK3 F) (s : CpidS F) (inp : Output (State F)) : CpidS F × UpdRet :=
  match inp with
  | .ok none => (reset s, .ok ())
  | .error e => ({ s with us := .error e }, .error e)
  | .ok (some ds) =>
    let kind := s.command.kind
    let error := s.command.raw - (ds.value.getValue chk kind).value
    match s.us with
    | .ok (some u0) =>
      let dt : F := secs (ds.time - u0.time)
      let errorDrv := (error - u0.error) / dt
      let errorIntAddend := (u0.error + error) / c2 * dt
      match u0.u1 with
      | none =>
        let output := k.evaluate kind error errorIntAddend errorDrv
        let outputInt := (u0.output + output) / c2 * dt
        ({ s with us := .ok (some ⟨ds.time, output, error, some ⟨outputInt, errorIntAddend, none⟩⟩) }, .ok ())
      | some u1 =>
        let errorInt := u1.errorInt + errorIntAddend
        let output := k.evaluate kind error errorInt errorDrv
        let outputInt := u1.outputInt + (u0.output + output) / c2 * dt
        let oiiAddend := (u1.outputInt + outputInt) / c2 * dt
        let oii := match u1.outputIntInt with
          | none => oiiAddend
          | some x => x + oiiAddend
        ({ s with us := .ok (some ⟨ds.time, output, error, some ⟨outputInt, errorInt, some oii⟩⟩) }, .ok ())
    | _ =>
      let output := k.evaluate kind error c0 c0
      ({ s with us := .ok (some ⟨ds.time, output, error, none⟩) }, .ok ())
/-- `update`: `fol` is what the followed command getter returns now (`none` = not following). -/
def step (chk : Bool) (k : PIDK3 F) (s : CpidS F) (fol : Option (Output (Command F)))
    (inp : Output (State F)) : CpidS F × UpdRet :=
  match fol with
  | some (.error e) => (s, .error e)
  | some (.ok (some d)) => stepInput chk k (set s d.value) inp
  | _ => stepInput chk k s inp
end Cpid

/-! ### EWMAStream (generic and Quantity impls share this shape; `scale`/`add` differ) -/
structure EwmaS (T : Type) where
  value : Output T
  updateTime : Option Int

namespace Ewma
variable {T : Type}
def init : EwmaS T := ⟨.ok none, none⟩
def step (scale : T → F → T) (add : T → T → Except Panic T) (smoothing : F)
    (s : EwmaS T) (inp : Output T) : Except Panic (EwmaS T × UpdRet) :=
  match inp with
  | .error e => .ok (⟨.error e, none⟩, .error e)
  | .ok none =>
    match s.value with
    | .error _ => .ok (⟨.ok none, none⟩, .ok ())
    | .ok _ => .ok (s, .ok ())
  | .ok (some o) =>
    let pv : Datum T × Option Int := match s.value with
      | .ok (some v) => (v, s.updateTime)
      | _ => (o, some o.time)
    match pv.2 with
    | none => .error .expect
    | some prevTime =>
      let dt : F := secs (o.time - prevTime)
      let lambda : F := c1 - FloatLike.powf (c1 - smoothing) dt
      match add (scale pv.1.value (c1 - lambda)) (scale o.value lambda) with
      | .error p => .error p
      | .ok v => .ok (⟨.ok (some ⟨o.time, v⟩), some o.time⟩, .ok ())
def get (s : EwmaS T) : Output T := s.value
end Ewma

/-! ### MovingAverageStream -/
structure MaS (T : Type) where
  value : Output T
  queue : List (Datum T)

namespace Ma
variable {T : Type}
def init : MaS T := ⟨.ok none, []⟩
/-- `while self.input_values[0].time <= cut { pop_front }` — indexing an empty deque panics. -/
def trim (cut : Int) : List (Datum T) → Except Panic (List (Datum T))
  | [] => .error .oob
  | d :: ds => if d.time ≤ cut then trim cut ds else .ok (d :: ds)
/-- interval weights in nanoseconds: `end_times[i] - start_times[i]`, `start = cut :: init ends`. -/
def weightsNs (cut : Int) : List (Datum T) → List Int
  | [] => []
  | d :: ds => (d.time - cut) :: weightsNs d.time ds
/-- `Σ value_i * w_i` accumulated left to right with `+=`, starting from `zero` if given
(`T::default()` in the generic impl) or from the first term (Quantity impl). -/
def accumulate (scale : T → F → T) (add : T → T → Except Panic T) :
    Option T → List (T × F) → Except Panic (Option T)
  | acc, [] => .ok acc
  | none, (v, w) :: rest => accumulate scale add (some (scale v w)) rest
  | some a, (v, w) :: rest =>
    match add a (scale v w) with
    | .error p => .error p
    | .ok a' => accumulate scale add (some a') rest
def step (scale : T → F → T) (add : T → T → Except Panic T) (fin : T → F → T) (zero : Option T)
    (window : Int) (s : MaS T) (inp : Output T) : Except Panic (MaS T × UpdRet) :=
  match inp with
  | .error e => .ok (⟨.error e, []⟩, .error e)
  | .ok none =>
    match s.value with
    | .error _ => .ok ({ s with value := .ok none }, .ok ())
    | .ok _ => .ok (s, .ok ())
  | .ok (some o) =>
    let cut := o.time - window
    match trim cut (s.queue ++ [o]) with
    | .error p => .error p
    | .ok q =>
      let ws : List F := (weightsNs cut q).map (fun n => (secs n : F))
      match accumulate scale add zero ((q.map (·.value)).zip ws) with
      | .error p => .error p
      | .ok none => .error .oob       -- Quantity impl indexes `[0]`; unreachable since `q ≠ []`
      | .ok (some v) => .ok (⟨.ok (some ⟨o.time, fin v (secs window)⟩), q⟩, .ok ())
def get (s : MaS T) : Output T := s.value
end Ma

/-- f32 instantiation helpers -/
def addF (a b : F) : Except Panic F := .ok (a + b)
def scaleF (a b : F) : F := a * b
def divF (a b : F) : F := a / b
/-- Quantity instantiation helpers: EWMA multiplies by a dimensionless quantity, the moving
average by a quantity in seconds and divides by the window in seconds. -/
def scaleQdl (chk : Bool) (q : Quantity F) (x : F) : Quantity F := Quantity.mul chk q (Quantity.dimensionless chk x)
def scaleQs (chk : Bool) (q : Quantity F) (x : F) : Quantity F := Quantity.mul chk q ⟨x, SECOND chk⟩
def divQs (chk : Bool) (q : Quantity F) (x : F) : Quantity F := Quantity.div chk q ⟨x, SECOND chk⟩

/-! ### DerivativeStream / IntegralStream (after the `fix:` commit: the first sample after a
reset clears a cached error) -/
structure DiS (F : Type) where
  value : Output (Quantity F)
  prev : Option (Datum (Quantity F))

namespace Derivative
def init : DiS F := ⟨.ok none, none⟩
def step (chk : Bool) (s : DiS F) (inp : Output (Quantity F)) : Except Panic (DiS F × UpdRet) :=
  match inp with
  | .error e => .ok (⟨.error e, none⟩, .error e)
  | .ok none => .ok (⟨.ok none, none⟩, .ok ())
  | .ok (some o) =>
    match s.prev with
    | none => .ok (⟨.ok none, some o⟩, .ok ())
    | some p =>
      match Quantity.sub chk o.value p.value with
      | .error e => .error e
      | .ok d =>
        let v := Quantity.div chk d (Quantity.ofTime chk (o.time - p.time))
        .ok (⟨.ok (some ⟨o.time, v⟩), some o⟩, .ok ())
def get (s : DiS F) : Output (Quantity F) := s.value
end Derivative

namespace Integral
def init : DiS F := ⟨.ok none, none⟩
def step (chk : Bool) (s : DiS F) (inp : Output (Quantity F)) : Except Panic (DiS F × UpdRet) :=
  match inp with
  | .error e => .ok (⟨.error e, none⟩, .error e)
  | .ok none => .ok (⟨.ok none, none⟩, .ok ())
  | .ok (some o) =>
    match s.prev with
    | none => .ok (⟨.ok none, some o⟩, .ok ())
    | some p =>
      match Quantity.add chk p.value o.value with
      | .error e => .error e
      | .ok sm =>
        let addend := Quantity.div chk (Quantity.mul chk (Quantity.ofTime chk (o.time - p.time)) sm)
          (Quantity.dimensionless chk c2)
        match s.value with
        | .ok (some real) =>
          match Quantity.add chk addend real.value with
          | .error e => .error e
          | .ok v => .ok (⟨.ok (some ⟨o.time, v⟩), some o⟩, .ok ())
        | _ => .ok (⟨.ok (some ⟨o.time, addend⟩), some o⟩, .ok ())
def get (s : DiS F) : Output (Quantity F) := s.value
end Integral

/-! ### to-state converters -/
structure A2sU1 (F : Type) where
  vel : Quantity F
  pos : Option (Quantity F)
structure A2sU0 (F : Type) where
  time : Int
  acc : Quantity F
  u1 : Option (A2sU1 F)

/-- helper: run three Quantity additions etc. in `Except` -/
def qHalfTimes (chk : Bool) (a b dt : Quantity F) : Except Panic (Quantity F) :=
  match Quantity.add chk a b with
  | .error e => .error e
  | .ok s => .ok (Quantity.mul chk (Quantity.div chk s (Quantity.dimensionless chk c2)) dt)

namespace A2s
def init : Option (A2sU0 F) := none
def step (chk : Bool) (s : Option (A2sU0 F)) (inp : Output (Quantity F)) :
    Except Panic (Option (A2sU0 F) × UpdRet) :=
  match inp with
  | .error e => .ok (none, .error e)
  | .ok none => .ok (s, .ok ())
  | .ok (some d) =>
    match DUnit.assertEqAssumeOk chk d.value.unit (MILLIMETER_PER_SECOND_SQUARED chk) with
    | .error e => .error e
    | .ok _ =>
    match s with
    | none => .ok (some ⟨d.time, d.value, none⟩, .ok ())
    | some u0 =>
      let dt := Quantity.ofTime chk (d.time - u0.time)
      match qHalfTimes chk u0.acc d.value dt with
      | .error e => .error e
      | .ok velAddend =>
      match u0.u1 with
      | none => .ok (some ⟨d.time, d.value, some ⟨velAddend, none⟩⟩, .ok ())
      | some u1 =>
        match Quantity.add chk u1.vel velAddend with
        | .error e => .error e
        | .ok newVel =>
        match qHalfTimes chk u1.vel newVel dt with
        | .error e => .error e
        | .ok posAddend =>
        match u1.pos with
        | none => .ok (some ⟨d.time, d.value, some ⟨newVel, some posAddend⟩⟩, .ok ())
        | some oldPos =>
          match Quantity.add chk oldPos posAddend with
          | .error e => .error e
          | .ok np => .ok (some ⟨d.time, d.value, some ⟨newVel, some np⟩⟩, .ok ())
def get (chk : Bool) (s : Option (A2sU0 F)) : Except Panic (Output (State F)) :=
  match s with
  | some u0 =>
    match u0.u1 with
    | some u1 =>
      match u1.pos with
      | some pos =>
        match State.new chk pos u1.vel u0.acc with
        | .error e => .error e
        | .ok st => .ok (.ok (some ⟨u0.time, st⟩))
      | none => .ok (.ok none)
    | none => .ok (.ok none)
  | none => .ok (.ok none)
end A2s

structure V2sU1 (F : Type) where
  acc : Quantity F
  pos : Quantity F
structure V2sU0 (F : Type) where
  time : Int
  vel : Quantity F
  u1 : Option (V2sU1 F)

namespace V2s
def init : Option (V2sU0 F) := none
def step (chk : Bool) (s : Option (V2sU0 F)) (inp : Output (Quantity F)) :
    Except Panic (Option (V2sU0 F) × UpdRet) :=
  match inp with
  | .error e => .ok (none, .error e)
  | .ok none => .ok (s, .ok ())
  | .ok (some d) =>
    match DUnit.assertEqAssumeOk chk d.value.unit (MILLIMETER_PER_SECOND chk) with
    | .error e => .error e
    | .ok _ =>
    match s with
    | none => .ok (some ⟨d.time, d.value, none⟩, .ok ())
    | some u0 =>
      let dt := Quantity.ofTime chk (d.time - u0.time)
      match Quantity.sub chk d.value u0.vel with
      | .error e => .error e
      | .ok dv =>
      let newAcc := Quantity.div chk dv dt
      match qHalfTimes chk u0.vel d.value dt with
      | .error e => .error e
      | .ok posAddend =>
      match u0.u1 with
      | none => .ok (some ⟨d.time, d.value, some ⟨newAcc, posAddend⟩⟩, .ok ())
      | some u1 =>
        match Quantity.add chk u1.pos posAddend with
        | .error e => .error e
        | .ok np => .ok (some ⟨d.time, d.value, some ⟨newAcc, np⟩⟩, .ok ())
def get (chk : Bool) (s : Option (V2sU0 F)) : Except Panic (Output (State F)) :=
  match s with
  | some u0 =>
    match u0.u1 with
    | some u1 =>
      match State.new chk u1.pos u0.vel u1.acc with
      | .error e => .error e
      | .ok st => .ok (.ok (some ⟨u0.time, st⟩))
    | none => .ok (.ok none)
  | none => .ok (.ok none)
end V2s

structure P2sU1 (F : Type) where
  vel : Quantity F
  acc : Option (Quantity F)
structure P2sU0 (F : Type) where
  time : Int
  pos : Quantity F
  u1 : Option (P2sU1 F)

namespace P2s
def init : Option (P2sU0 F) := none
def step (chk : Bool) (s : Option (P2sU0 F)) (inp : Output (Quantity F)) :
    Except Panic (Option (P2sU0 F) × UpdRet) :=
  match inp with
  | .error e => .ok (none, .error e)
  | .ok none => .ok (s, .ok ())
  | .ok (some d) =>
    match DUnit.assertEqAssumeOk chk d.value.unit (MILLIMETER chk) with
    | .error e => .error e
    | .ok _ =>
    match s with
    | none => .ok (some ⟨d.time, d.value, none⟩, .ok ())
    | some u0 =>
      let dt := Quantity.ofTime chk (d.time - u0.time)
      match Quantity.sub chk d.value u0.pos with
      | .error e => .error e
      | .ok dp =>
      let newVel := Quantity.div chk dp dt
      match u0.u1 with
      | none => .ok (some ⟨d.time, d.value, some ⟨newVel, none⟩⟩, .ok ())
      | some u1 =>
        match Quantity.sub chk newVel u1.vel with
        | .error e => .error e
        | .ok dv => .ok (some ⟨d.time, d.value, some ⟨newVel, some (Quantity.div chk dv dt)⟩⟩, .ok ())
def get (chk : Bool) (s : Option (P2sU0 F)) : Except Panic (Output (State F)) :=
  match s with
  | some u0 =>
    match u0.u1 with
    | some u1 =>
      match u1.acc with
      | some acc =>
        match State.new chk u0.pos u1.vel acc with
        | .error e => .error e
        | .ok st => .ok (.ok (some ⟨u0.time, st⟩))
      | none => .ok (.ok none)
    | none => .ok (.ok none)
  | none => .ok (.ok none)
end P2s

/-! ### FloatToQuantity / QuantityToFloat: `update` caches the input and always returns `Ok(())`. -/
namespace F2q
def init : Output F := .ok none
def step (_s : Output F) (inp : Output F) : Output F × UpdRet := (inp, .ok ())
def get (unit : DUnit) (s : Output F) : Output (Quantity F) :=
  match s with
  | .error e => .error e
  | .ok none => .ok none
  | .ok (some d) => .ok (some ⟨d.time, ⟨d.value, unit⟩⟩)
end F2q
namespace Q2f
def init : Output F := .ok none
def step (_s : Output F) (inp : Output (Quantity F)) : Output F × UpdRet :=
  (match inp with
   | .error e => .error e
   | .ok none => .ok none
   | .ok (some d) => .ok (some ⟨d.time, d.value.value⟩), .ok ())
def get (s : Output F) : Output F := s
end Q2f
end

/-! ### FreezeStream -/
namespace Freeze
variable {T : Type}
def init : Output T := .ok none
/-- the input is read only when the condition is present and false -/
def step (s : Output T) (cond : Output Bool) (inp : Output T) : Output T × UpdRet :=
  match cond with
  | .error e => (.error e, .error e)
  | .ok none => (.ok none, .ok ())
  | .ok (some c) =>
    if !c.value then
      match inp with
      | .ok v => (.ok v, .ok ())
      | .error e => (.error e, .error e)
    else (s, .ok ())
def get (s : Output T) : Output T := s
end Freeze

end Rrtk
