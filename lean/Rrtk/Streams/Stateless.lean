/-
Model of the stateless combinator streams: `src/streams.rs` (Latest, Expirer), `streams/math.rs`
(Sum, Sum2, Difference, Product, Product2, Quotient, Exponent), `streams/flow.rs` (If, IfElse),
`streams/logic.rs` (And, Or, Not), `streams/converters.rs` (NoneToError, NoneToValue) and
`lib.rs` (ConstantGetter::get, NoneGetter, TimeGetterFromGetter).

Each is a pure function of what its input getters return (`Output`), which is why "reading never changes
what a later read returns" holds of the model by construction; the harness reads twice.
-/
import Rrtk.Core
namespace Rrtk
namespace Stream
variable {α : Type}

/-- The first loop of `SumStream::get` / `ProductStream::get`: `?` on the first error, skip `None`,
collect the present data in order. -/
def collect : List (Output α) → Except Err (List (Datum α))
  | [] => .ok []
  | .error e :: _ => .error e
  | .ok none :: rest => collect rest
  | .ok (some d) :: rest =>
    match collect rest with
    | .ok ds => .ok (d :: ds)
    | .error e => .error e

/-- `value = first; for x in rest { value op= x }` with the `Datum` assign operator (`Datum.combine`). -/
def foldData (op : α → α → α) : List (Datum α) → Option (Datum α)
  | [] => none
  | d :: ds => some (ds.foldl (Datum.combine op) d)

/-- `SumStream::get` (`op = +`) and `ProductStream::get` (`op = *`). -/
def nary (op : α → α → α) (ins : List (Output α)) : Output α :=
  match collect ins with
  | .error e => .error e
  | .ok ds => .ok (foldData op ds)

/-- `Sum2::get` / `Product2::get` -/
def binary2 (op : α → α → α) (a b : Output α) : Output α :=
  match a with
  | .error e => .error e
  | .ok none => b
  | .ok (some x) =>
    match b with
    | .error e => .error e
    | .ok none => .ok (some x)
    | .ok (some y) => .ok (some (Datum.combine op x y))

/-- `DifferenceStream::get`, `QuotientStream::get`, `ExponentStream::get`: both inputs are read
(`?` on each, first operand first); time is `if a.time > b.time { a.time } else { b.time }`. -/
def binaryPass (op : α → α → α) (a b : Output α) : Output α :=
  match a with
  | .error e => .error e
  | .ok ao =>
    match b with
    | .error e => .error e
    | .ok bo =>
      match ao with
      | none => .ok none
      | some x =>
        match bo with
        | none => .ok (some x)
        | some y => .ok (some ⟨if x.time > y.time then x.time else y.time, op x.value y.value⟩)

/-- `Latest::get`: errors and `None` skipped; strictly newer replaces. -/
def latestStep (acc : Option (Datum α)) (i : Output α) : Option (Datum α) :=
  match i with
  | .ok (some g) =>
    match acc with
    | some t => if g.time > t.time then some g else some t
    | none => some g
  | _ => acc
def latest (ins : List (Output α)) : Output α := .ok (ins.foldl latestStep none)

/-- `Expirer::get` -/
def expirer (inp : Output α) (now : TimeOutput) (maxDelta : Int) : Output α :=
  match inp with
  | .error e => .error e
  | .ok none => .ok none
  | .ok (some d) =>
    match now with
    | .error e => .error e
    | .ok t => if t - d.time > maxDelta then .ok none else .ok (some d)

/-- `IfStream::get`: an absent condition counts as false. -/
def ifStream (cond : Output Bool) (inp : Output α) : Output α :=
  match cond with
  | .error e => .error e
  | .ok c =>
    let c := match c with | some d => d.value | none => false
    if c then inp else .ok none

/-- `IfElseStream::get`: an absent condition gives absent. -/
def ifElse (cond : Output Bool) (t f : Output α) : Output α :=
  match cond with
  | .error e => .error e
  | .ok none => .ok none
  | .ok (some d) => if d.value then t else f

/-- `NoneToError::get` -/
def noneToError (inp : Output α) : Output α :=
  match inp with
  | .error e => .error e
  | .ok (some d) => .ok (some d)
  | .ok none => .error .fromNone

/-- `NoneToValue::get` -/
def noneToValue (inp : Output α) (now : TimeOutput) (v : α) : Output α :=
  match inp with
  | .error e => .error e
  | .ok (some d) => .ok (some d)
  | .ok none =>
    match now with
    | .error e => .error e
    | .ok t => .ok (some ⟨t, v⟩)

/-- `NoneGetter::get` -/
def noneGetter : Output α := .ok none

/-- `ConstantGetter::get` -/
def constantGetter (now : TimeOutput) (v : α) : Output α :=
  match now with
  | .error e => .error e
  | .ok t => .ok (some ⟨t, v⟩)

/-- `TimeGetterFromGetter::get` (through its inner `NoneToError`) -/
def timeGetterFromGetter (inp : Output α) : TimeOutput :=
  match noneToError inp with
  | .error e => .error e
  | .ok (some d) => .ok d.time
  | .ok none => .error .fromNone   -- unreachable: `expect` in the source; `noneToError` never yields it

/-! ### Logic streams -/
inductive AndState | definitelyFalse | maybeTrue | returnableTrue
  deriving DecidableEq, Repr
def AndState.none : AndState → AndState
  | .returnableTrue => .maybeTrue
  | s => s
inductive OrState | definitelyTrue | maybeFalse | returnableFalse
  deriving DecidableEq, Repr
def OrState.none : OrState → OrState
  | .returnableFalse => .maybeFalse
  | s => s

/-- time bookkeeping shared by And/Or: first input's time, replaced by a strictly newer second. -/
def logicTime (g1 g2 : Option (Datum Bool)) : Option Int :=
  let t1 := match g1 with | some d => some d.time | none => none
  match g2 with
  | some d =>
    match t1 with
    | some existing => if d.time > existing then some d.time else some existing
    | none => some d.time
  | none => t1

/-- `AndStream::get` -/
def andStream (a b : Output Bool) : Output Bool :=
  match a with
  | .error e => .error e
  | .ok g1 =>
    match b with
    | .error e => .error e
    | .ok g2 =>
      let s0 := AndState.returnableTrue
      let s1 := match g1 with
        | some d => if !d.value then AndState.definitelyFalse else s0
        | none => s0.none
      let s2 := match g2 with
        | some d => if !d.value then AndState.definitelyFalse else s1
        | none => s1.none
      match logicTime g1 g2 with
      | none => .ok none
      | some t =>
        match s2 with
        | .definitelyFalse => .ok (some ⟨t, false⟩)
        | .maybeTrue => .ok none
        | .returnableTrue => .ok (some ⟨t, true⟩)

/-- `OrStream::get` -/
def orStream (a b : Output Bool) : Output Bool :=
  match a with
  | .error e => .error e
  | .ok g1 =>
    match b with
    | .error e => .error e
    | .ok g2 =>
      let s0 := OrState.returnableFalse
      let s1 := match g1 with
        | some d => if d.value then OrState.definitelyTrue else s0
        | none => s0.none
      let s2 := match g2 with
        | some d => if d.value then OrState.definitelyTrue else s1
        | none => s1.none
      match logicTime g1 g2 with
      | none => .ok none
      | some t =>
        match s2 with
        | .definitelyTrue => .ok (some ⟨t, true⟩)
        | .maybeFalse => .ok none
        | .returnableFalse => .ok (some ⟨t, false⟩)

/-- `NotStream::get` -/
def notStream (a : Output Bool) : Output Bool :=
  match a with
  | .error e => .error e
  | .ok none => .ok none
  | .ok (some d) => .ok (some ⟨d.time, !d.value⟩)

end Stream
end Rrtk
