/-
Terminals that FOLLOW getters (`src/lib.rs`: `impl Updatable for Terminal`, `Settable::follow/stop_following/
update_following_data` instantiated at `Terminal`), and what that does to the built-in devices of `src/devices.rs`:
every device `update()` starts with `self.update_terminals()?`, and `update_terminals` calls `Terminal::update` on the
owned terminals in declaration order with `?`.  Without followers those calls do nothing and cannot fail — that is the
fragment `Rrtk/Devices.lean` models (`Dev.update`); this file adds the rest:

* `World.terminalUpdate`: the COMMAND slot's `update_following_data` first, then the STATE slot's, the first error ends
  the update (a command already forwarded stays forwarded);
* `World.updateTerminals`: the owned terminals in order, the first error ends it (terminals already updated stay updated);
* `updateWithFollowers`: `update_terminals()?` then the device's own update.

The followed getters are scripted: what each returns now is an argument (`Followed`).  A terminal's `impl_set` always
succeeds, so a present value `d` of the followed getter makes `d.value` (itself a `Datum`) the slot's `last_request`;
the OUTER timestamp of `d` is dropped (`self.set(datum.value)`).
-/
import Rrtk.Devices
namespace Rrtk

/-- what the getters followed by one terminal return right now; `none` = that slot follows nothing -/
structure Followed (F : Type) where
  command : Option (Output (Datum (Command F)))
  state : Option (Output (Datum (State F)))

/-- follows nothing -/
def Followed.nothing {F : Type} : Followed F := ⟨none, none⟩

namespace World
variable {F : Type}

/-- `<Terminal as Settable<Datum<Command>>>::update_following_data` -/
def followCommand (w : World F) (i : Nat) (fc : Option (Output (Datum (Command F)))) : World F × UpdRet :=
  match fc with
  | none => (w, .ok ())
  | some (.error e) => (w, .error e)
  | some (.ok none) => (w, .ok ())
  | some (.ok (some d)) => (w.setCommand i d.value, .ok ())

/-- `<Terminal as Settable<Datum<State>>>::update_following_data` -/
def followState (w : World F) (i : Nat) (fs : Option (Output (Datum (State F)))) : World F × UpdRet :=
  match fs with
  | none => (w, .ok ())
  | some (.error e) => (w, .error e)
  | some (.ok none) => (w, .ok ())
  | some (.ok (some d)) => (w.setState i d.value, .ok ())

/-- `impl Updatable for Terminal`: command slot, `?`, state slot, `?` -/
def terminalUpdate (w : World F) (i : Nat) (fo : Followed F) : World F × UpdRet :=
  match w.followCommand i fo.command with
  | (w1, .error e) => (w1, .error e)
  | (w1, .ok _) => w1.followState i fo.state

/-- `Device::update_terminals` of Invert / GearTrain / Axle / Differential: owned terminals in order, `?` after each -/
def updateTerminals (w : World F) (fo : Nat → Followed F) : List Nat → World F × UpdRet
  | [] => (w, .ok ())
  | i :: is =>
    match w.terminalUpdate i (fo i) with
    | (w1, .error e) => (w1, .error e)
    | (w1, .ok _) => updateTerminals w1 fo is
end World

/-- a device `update()` in the presence of followers: `self.update_terminals()?` and then the device's own update `upd`
(`Invert.update`, `GearTrain.update r`, `Axle.update`, `Differential.update m` — none of which can fail) -/
def updateWithFollowers {F : Type} (upd : World F → World F) (terms : List Nat) (w : World F) (fo : Nat → Followed F) :
    World F × UpdRet :=
  match w.updateTerminals fo terms with
  | (w1, .error e) => (w1, .error e)
  | (w1, .ok _) => (upd w1, .ok ())

section
variable {F : Type} [Add F] [Sub F] [Mul F] [Div F] [Neg F] [LT F] [LE F] [BEq F]
  [DecidableLT F] [DecidableLE F] [FloatLike F]

/-- `ActuatorWrapper::update` when its terminal follows getters: `update_terminals()?`, then as in `Rrtk/Devices.lean` on the
world the terminal update left.  Result: (world, what the inner settable accepted, whether the inner `update` ran, return value). -/
def ActuatorWrapper.updateF (w : World F) (i : Nat) (fo : Followed F) (acc iu : UpdRet) :
    World F × Option (TerminalData F) × Bool × UpdRet :=
  match w.terminalUpdate i fo with
  | (w1, .error e) => (w1, none, false, .error e)
  | (w1, .ok _) =>
    let r := ActuatorWrapper.update w1 i acc iu
    (w1, r.1, r.2.1, r.2.2)

/-- `GetterStateDeviceWrapper::update`: `inner.update()?`, `update_terminals()?`, then `inner.get()?` is written to the terminal -/
def EncoderWrapper.updateF (w : World F) (i : Nat) (fo : Followed F) (iu : UpdRet) (g : Output (State F)) : World F × UpdRet :=
  match iu with
  | .error e => (w, .error e)
  | .ok _ =>
    match w.terminalUpdate i fo with
    | (w1, .error e) => (w1, .error e)
    | (w1, .ok _) => EncoderWrapper.update w1 i (.ok ()) g
end

end Rrtk
