/-
C01 — dimensional analysis: unit exponents compose additively, mismatches panic.
Tier S throughout: `F` is an arbitrary scalar type, so "the numeric part is exactly the f32 result of the same
operator on the raw values" holds for IEEE binary32 in particular. `chk = true` is "dimension checking enabled".
All exponents are arbitrary integers (not a 7×7 sample).
-/
import Rrtk.Core
import Rrtk.ConstNames
import Rrtk.Gen.CfgGates
set_option linter.unusedSectionVars false
namespace Rrtk.Thm.C01
open Rrtk

variable {F : Type} [Add F] [Sub F] [Mul F] [Div F] [Neg F] [LT F] [LE F] [BEq F]
  [DecidableLT F] [DecidableLE F] [FloatLike F]

theorem constEq_iff (a b : DUnit) : DUnit.constEq a b = true ↔ a = b := by
  cases a; cases b; simp [DUnit.constEq]

/-! ### multiplication adds, division subtracts -/
theorem unit_mul (a b : Quantity F) :
    (Quantity.mul true a b).unit = ⟨a.unit.mm + b.unit.mm, a.unit.s + b.unit.s⟩ := rfl
theorem unit_div (a b : Quantity F) :
    (Quantity.div true a b).unit = ⟨a.unit.mm - b.unit.mm, a.unit.s - b.unit.s⟩ := rfl
theorem value_mul (chk : Bool) (a b : Quantity F) : (Quantity.mul chk a b).value = a.value * b.value := rfl
theorem value_div (chk : Bool) (a b : Quantity F) : (Quantity.div chk a b).value = a.value / b.value := rfl

/-! ### negation and absolute value keep the unit -/
theorem neg_keeps (a : Quantity F) : (Quantity.neg a).unit = a.unit ∧ (Quantity.neg a).value = -a.value := ⟨rfl, rfl⟩
theorem abs_keeps (a : Quantity F) :
    (Quantity.abs a).unit = a.unit ∧ (Quantity.abs a).value = FloatLike.absF a.value := ⟨rfl, rfl⟩

/-! ### addition, subtraction, ordering: complete characterisation, hence "panics iff units differ" -/
theorem add_eq (a b : Quantity F) :
    Quantity.add true a b = if a.unit = b.unit then .ok ⟨a.value + b.value, a.unit⟩ else .error .dim := by
  simp only [Quantity.add, DUnit.add, DUnit.assertEqAssumeOk, DUnit.eqAssumeTrue, if_true]
  by_cases h : a.unit = b.unit
  · simp [h, (constEq_iff _ _).2 rfl]
  · have : DUnit.constEq a.unit b.unit = false := by
      cases hc : DUnit.constEq a.unit b.unit with
      | false => rfl
      | true => exact absurd ((constEq_iff _ _).1 hc) h
    simp [h, this]

theorem sub_eq (a b : Quantity F) :
    Quantity.sub true a b = if a.unit = b.unit then .ok ⟨a.value - b.value, a.unit⟩ else .error .dim := by
  simp only [Quantity.sub, DUnit.sub, DUnit.assertEqAssumeOk, DUnit.eqAssumeTrue, if_true]
  by_cases h : a.unit = b.unit
  · simp [h, (constEq_iff _ _).2 rfl]
  · have : DUnit.constEq a.unit b.unit = false := by
      cases hc : DUnit.constEq a.unit b.unit with
      | false => rfl
      | true => exact absurd ((constEq_iff _ _).1 hc) h
    simp [h, this]

theorem cmp_eq (a b : Quantity F) :
    Quantity.partialCmp true a b =
      if a.unit = b.unit then .ok (Quantity.cmpF a.value b.value) else .error .dim := by
  simp only [Quantity.partialCmp, DUnit.assertEqAssumeOk, DUnit.eqAssumeTrue, if_true]
  by_cases h : a.unit = b.unit
  · simp [h, (constEq_iff _ _).2 rfl]
  · have : DUnit.constEq a.unit b.unit = false := by
      cases hc : DUnit.constEq a.unit b.unit with
      | false => rfl
      | true => exact absurd ((constEq_iff _ _).1 hc) h
    simp [h, this]

theorem add_panics_iff (a b : Quantity F) :
    (∃ p, Quantity.add true a b = .error p) ↔ a.unit ≠ b.unit := by
  rw [add_eq]; by_cases h : a.unit = b.unit <;> simp [h]
theorem sub_panics_iff (a b : Quantity F) :
    (∃ p, Quantity.sub true a b = .error p) ↔ a.unit ≠ b.unit := by
  rw [sub_eq]; by_cases h : a.unit = b.unit <;> simp [h]
theorem cmp_panics_iff (a b : Quantity F) :
    (∃ p, Quantity.partialCmp true a b = .error p) ↔ a.unit ≠ b.unit := by
  rw [cmp_eq]; by_cases h : a.unit = b.unit <;> simp [h]

/-- the only panic these operators can raise is the dimension panic -/
theorem add_panic_is_dim (chk : Bool) (a b : Quantity F) (p : Panic) (h : Quantity.add chk a b = .error p) : p = .dim := by
  simp only [Quantity.add, DUnit.add, DUnit.assertEqAssumeOk] at h
  by_cases hc : DUnit.eqAssumeTrue chk a.unit b.unit = true
  · simp [hc] at h
  · simp [hc] at h; exact h.symm

/-! ### operating on bare units = operating on quantities carrying them -/
theorem unit_op_mul (chk : Bool) (a b : Quantity F) : DUnit.mul chk a.unit b.unit = (Quantity.mul chk a b).unit := rfl
theorem unit_op_div (chk : Bool) (a b : Quantity F) : DUnit.div chk a.unit b.unit = (Quantity.div chk a b).unit := rfl
theorem unit_op_neg (a : Quantity F) : DUnit.neg a.unit = (Quantity.neg a).unit := rfl
theorem unit_op_add (chk : Bool) (a b : Quantity F) :
    DUnit.add chk a.unit b.unit = (Quantity.add chk a b).map (·.unit) := by
  simp only [Quantity.add]; cases DUnit.add chk a.unit b.unit <;> rfl
theorem unit_op_sub (chk : Bool) (a b : Quantity F) :
    DUnit.sub chk a.unit b.unit = (Quantity.sub chk a b).map (·.unit) := by
  simp only [Quantity.sub]; cases DUnit.sub chk a.unit b.unit <;> rfl

/-! ### mixed operands: each impl equals the `Quantity` operator after `Quantity::from` -/
theorem ofTime_unit (t : Int) : (Quantity.ofTime true t : Quantity F).unit = ⟨0, 1⟩ := rfl
theorem ofDimInt_unit (n : Int) : (Quantity.ofDimInt true n : Quantity F).unit = ⟨0, 0⟩ := rfl
theorem q_add_time (chk : Bool) (q : Quantity F) (t : Int) : Quantity.addTime chk q t = Quantity.add chk q (Quantity.ofTime chk t) := rfl
theorem q_sub_time (chk : Bool) (q : Quantity F) (t : Int) : Quantity.subTime chk q t = Quantity.sub chk q (Quantity.ofTime chk t) := rfl
theorem q_mul_time (chk : Bool) (q : Quantity F) (t : Int) : Quantity.mulTime chk q t = Quantity.mul chk q (Quantity.ofTime chk t) := rfl
theorem q_div_time (chk : Bool) (q : Quantity F) (t : Int) : Quantity.divTime chk q t = Quantity.div chk q (Quantity.ofTime chk t) := rfl
theorem q_add_dimint (chk : Bool) (q : Quantity F) (n : Int) : Quantity.addDimInt chk q n = Quantity.add chk q (Quantity.ofDimInt chk n) := rfl
theorem q_mul_dimint (chk : Bool) (q : Quantity F) (n : Int) : Quantity.mulDimInt chk q n = Quantity.mul chk q (Quantity.ofDimInt chk n) := rfl
theorem q_div_dimint (chk : Bool) (q : Quantity F) (n : Int) : Quantity.divDimInt chk q n = Quantity.div chk q (Quantity.ofDimInt chk n) := rfl
theorem time_add_q (chk : Bool) (t : Int) (q : Quantity F) : Time.addQ chk t q = Quantity.add chk (Quantity.ofTime chk t) q := rfl
theorem time_div_q (chk : Bool) (t : Int) (q : Quantity F) : Time.divQ chk t q = Quantity.div chk (Quantity.ofTime chk t) q := rfl
theorem time_mul_time (chk : Bool) (a b : Int) : (Time.mulTime chk a b : Quantity F) = Quantity.mul chk (Quantity.ofTime chk a) (Quantity.ofTime chk b) := rfl
/-- `Time * Quantity` is written commuted in the source (`rhs * self`); it equals the converted form exactly when
f32 multiplication commutes (tier L: IEEE-754 `*` is commutative on non-NaN payload bits). -/
theorem time_mul_q (chk : Bool) (t : Int) (q : Quantity F) (hcomm : ∀ x y : F, x * y = y * x) :
    Time.mulQ chk t q = Quantity.mul chk (Quantity.ofTime chk t) q := by
  simp only [Time.mulQ, Quantity.mul, DUnit.mul, hcomm]
  cases chk <;> simp [Int.add_comm]
theorem dimint_mul_q (chk : Bool) (n : Int) (q : Quantity F) (hcomm : ∀ x y : F, x * y = y * x) :
    DimInt.mulQ chk n q = Quantity.mul chk (Quantity.ofDimInt chk n) q := by
  simp only [DimInt.mulQ, Quantity.mul, DUnit.mul, hcomm]
  cases chk <;> simp [Int.add_comm]
/-- resulting units of the mixed products, e.g. `mm/s · s = mm` -/
theorem q_mul_time_unit (q : Quantity F) (t : Int) :
    (Quantity.mulTime true q t).unit = ⟨q.unit.mm, q.unit.s + 1⟩ := by
  simp [Quantity.mulTime, Quantity.mul, DUnit.mul, Quantity.ofTime, SECOND, DUnit.new]
theorem q_div_time_unit (q : Quantity F) (t : Int) :
    (Quantity.divTime true q t).unit = ⟨q.unit.mm, q.unit.s - 1⟩ := by
  simp [Quantity.divTime, Quantity.div, DUnit.div, Quantity.ofTime, SECOND, DUnit.new]

/-! ### position / velocity / acceleration ↔ mm, mm/s, mm/s² -/
theorem posder_to_unit :
    DUnit.ofPosDer true .position = ⟨1, 0⟩ ∧ DUnit.ofPosDer true .velocity = ⟨1, -1⟩ ∧
    DUnit.ofPosDer true .acceleration = ⟨1, -2⟩ := ⟨rfl, rfl, rfl⟩
theorem posder_unit_roundtrip (pd : PosDer) : PosDer.tryOfUnit (DUnit.ofPosDer true pd) = some pd := by
  cases pd <;> decide
theorem unit_posder_roundtrip (u : DUnit) (pd : PosDer) (h : PosDer.tryOfUnit u = some pd) :
    u = DUnit.ofPosDer true pd := by
  simp only [PosDer.tryOfUnit] at h
  split at h
  · cases h; simp_all [DUnit.ofPosDer]
  · split at h
    · cases h; simp_all [DUnit.ofPosDer]
    · split at h
      · cases h; simp_all [DUnit.ofPosDer]
      · cases h
theorem command_to_quantity_unit (c : Command F) :
    (Command.toQuantity true c).unit = DUnit.ofPosDer true c.kind ∧ (Command.toQuantity true c).value = c.raw := by
  cases c <;> exact ⟨rfl, rfl⟩
theorem command_quantity_roundtrip (c : Command F) : Command.tryOfQuantity (Command.toQuantity true c) = some c := by
  cases c <;> rfl
theorem quantity_command_accepts_exactly (q : Quantity F) :
    (Command.tryOfQuantity q).isSome ↔ (q.unit = ⟨1, 0⟩ ∨ q.unit = ⟨1, -1⟩ ∨ q.unit = ⟨1, -2⟩) := by
  simp only [Command.tryOfQuantity, PosDer.tryOfUnit]
  by_cases h1 : q.unit = ⟨1, 0⟩
  · simp [h1]
  · by_cases h2 : q.unit = ⟨1, -1⟩
    · simp [h2]
    · by_cases h3 : q.unit = ⟨1, -2⟩
      · simp [h3]
      · simp [h1, h2, h3]

/-! ### the table of named constants (regenerated from the source on every run) -/
/-- every named unit constant has the exponents its name states -/
theorem constants_named_correctly :
    ∀ r ∈ Gen.constants, nameExponents r.toks = some (r.mm, r.s) := by decide
/-- the table covers the whole grid [-3,3]² … -/
theorem constants_cover_grid :
    ∀ m ∈ [-3, -2, -1, 0, 1, 2, 3], ∀ s ∈ [-3, -2, -1, 0, 1, 2, 3],
      (Gen.constants.any (fun r => r.mm == m && r.s == s)) = true := by decide
/-- the generator parsed every `pub const … : Unit` the file declares (nothing escaped the table). How MANY there are (49 today: the
7×7 grid) is a snapshot, not a requirement — a further, correctly named constant is conformant — and lives in Lemmas/C01Snapshot.lean -/
theorem constants_count : Gen.declaredCount = Gen.constants.length := by decide
/-- the constants the crate's own code relies on -/
theorem constants_used_by_code :
    (Gen.constants.any (fun r => r.name == "MILLIMETER" && r.mm == 1 && r.s == 0)) = true ∧
    (Gen.constants.any (fun r => r.name == "MILLIMETER_PER_SECOND" && r.mm == 1 && r.s == -1)) = true ∧
    (Gen.constants.any (fun r => r.name == "MILLIMETER_PER_SECOND_SQUARED" && r.mm == 1 && r.s == -2)) = true ∧
    (Gen.constants.any (fun r => r.name == "SECOND" && r.mm == 0 && r.s == 1)) = true ∧
    (Gen.constants.any (fun r => r.name == "DIMENSIONLESS" && r.mm == 0 && r.s == 0)) = true := by decide

/-- non-vacuity: a mismatch and a match -/
example : Quantity.add true (⟨1, ⟨1, 0⟩⟩ : Quantity Int) ⟨2, ⟨0, 1⟩⟩ = .error .dim := by rfl
example : (Quantity.mul true (⟨3, ⟨1, -1⟩⟩ : Quantity Int) ⟨2, ⟨0, 1⟩⟩).unit = ⟨1, 0⟩ := by rfl


/-! ### which builds have dimension checking: the cfg gates regenerated from the source -/
-- (C19: an unchecked build is one where every gate below is off; C01: a checked build is one where every gate is on)
theorem dim_gates_nonempty : Gen.dimGates ≠ [] := by decide
/-- Every `cfg` / `cfg_attr` predicate in the source that mentions dimension checking is, in every build (profile ×
`dim_check_release` × `dim_check_debug` × any other feature × whatever an unparsed sub-predicate evaluates to), exactly the
documented rule `dim_check_release ∨ (debug_assertions ∧ dim_check_debug)` or exactly its negation: no item is gated by a
different condition than the rest, so "checking on" and "checking off" are two consistent worlds and the model's single
switch `chk` is faithful. The table is regenerated from /repo on every run. -/
theorem dim_gates_uniform : ∀ g ∈ Gen.dimGates,
    (∀ dbg rel dbgF o unk : Bool, g.2.2.eval dbg (dimEnv rel dbgF o) unk = checkingOn dbg rel dbgF) ∨
    (∀ dbg rel dbgF o unk : Bool, g.2.2.eval dbg (dimEnv rel dbgF o) unk = !checkingOn dbg rel dbgF) := by decide
/-- both polarities occur (there are bodies for "on" and bodies for "off") -/
theorem dim_gates_both_polarities :
    (∃ g ∈ Gen.dimGates, g.2.2.eval true (dimEnv true true false) false = true) ∧
    (∃ g ∈ Gen.dimGates, g.2.2.eval true (dimEnv true true false) false = false) := by decide
/-- the rule itself: the release feature switches checking on in every profile; the debug feature only with debug
assertions; without either feature checking is off -/
theorem checkingOn_table :
    (∀ dbg dbgF, checkingOn dbg true dbgF = true) ∧ (∀ dbgF, checkingOn false false dbgF = false) ∧
    checkingOn true false true = true ∧ (∀ dbg, checkingOn dbg false false = false) := by decide

end Rrtk.Thm.C01
