/-
C02 — stateless streams honour their documented error / absent / present contract.
Tier S: payload type and operators arbitrary; n-ary statements are for input lists of **any** length.
"Reading never changes what a later read returns" holds of the model because each combinator is a pure
function of what its inputs return; the correspondence check reads every real combinator twice.
-/
import Rrtk.Streams.Stateless
set_option linter.unusedSectionVars false
set_option linter.unusedSimpArgs false
namespace Rrtk.Thm.C02
open Rrtk Rrtk.Stream

variable {α : Type}

/-- the present data of a list of input results, in input order -/
def presentData : List (Output α) → List (Datum α)
  | [] => []
  | .ok (some d) :: r => d :: presentData r
  | _ :: r => presentData r

/-- the first input result that is an error, if any -/
def firstError : List (Output α) → Option Err
  | [] => none
  | .error e :: _ => some e
  | _ :: r => firstError r

/-! ### n-ary sum / product (any arity) -/

/-- the collecting loop returns the earliest input error, otherwise the present data in order -/
theorem collect_eq (ins : List (Output α)) :
    collect ins = match firstError ins with
      | some e => .error e
      | none => .ok (presentData ins) := by
  induction ins with
  | nil => rfl
  | cons i rest ih =>
    cases i with
    | error e => rfl
    | ok o =>
      cases o with
      | none => simpa [collect, firstError, presentData] using ih
      | some d =>
        simp only [collect, firstError, presentData, ih]
        cases firstError rest <;> rfl

/-- an input error is returned unchanged, earliest input first -/
theorem nary_err_iff (op : α → α → α) (ins : List (Output α)) (e : Err) :
    nary op ins = .error e ↔ firstError ins = some e := by
  simp only [nary, collect_eq]
  cases h : firstError ins with
  | none => simp
  | some e' => simp

/-- `firstError` really is "the first non-Ok input": everything before it is `Ok` -/
theorem firstError_spec (ins : List (Output α)) (e : Err) :
    firstError ins = some e ↔ ∃ pre post, ins = pre ++ .error e :: post ∧ ∀ x ∈ pre, ∃ o, x = .ok o := by
  induction ins with
  | nil => simp [firstError]
  | cons i rest ih =>
    cases i with
    | error e' =>
      simp only [firstError, Option.some.injEq]
      constructor
      · rintro rfl; exact ⟨[], rest, rfl, by simp⟩
      · rintro ⟨pre, post, h, hp⟩
        cases pre with
        | nil => simp at h; exact h.1
        | cons p ps =>
          simp only [List.cons_append, List.cons.injEq] at h
          obtain ⟨o, ho⟩ := hp p List.mem_cons_self
          rw [← h.1] at ho; cases ho
    | ok o =>
      simp only [firstError, ih]
      constructor
      · rintro ⟨pre, post, h, hp⟩
        refine ⟨.ok o :: pre, post, by simp [h], ?_⟩
        intro x hx
        simp only [List.mem_cons] at hx
        rcases hx with rfl | hx
        · exact ⟨o, rfl⟩
        · exact hp x hx
      · rintro ⟨pre, post, h, hp⟩
        cases pre with
        | nil => simp at h
        | cons p ps =>
          simp only [List.cons_append, List.cons.injEq] at h
          exact ⟨ps, post, h.2, fun x hx => hp x (List.mem_cons_of_mem _ hx)⟩

/-- absent only when no input errs and all inputs are absent -/
theorem nary_none_iff (op : α → α → α) (ins : List (Output α)) :
    nary op ins = .ok none ↔ firstError ins = none ∧ presentData ins = [] := by
  simp only [nary, collect_eq]
  cases h : firstError ins with
  | some e => simp
  | none =>
    cases hp : presentData ins with
    | nil => simp [foldData]
    | cons d ds => simp [foldData]

theorem presentData_nil_iff (ins : List (Output α)) (h : firstError ins = none) :
    presentData ins = [] ↔ ∀ x ∈ ins, x = .ok none := by
  induction ins with
  | nil => simp [presentData]
  | cons i rest ih =>
    cases i with
    | error e => simp [firstError] at h
    | ok o =>
      cases o with
      | none =>
        simp only [firstError] at h
        simp [presentData, ih h]
      | some d => simp [presentData]

/-- otherwise: the left fold of the assign operator over the present inputs, in input order -/
theorem nary_some_eq_fold (op : α → α → α) (ins : List (Output α)) (d : Datum α) (ds : List (Datum α))
    (he : firstError ins = none) (hp : presentData ins = d :: ds) :
    nary op ins = .ok (some (ds.foldl (Datum.combine op) d)) := by
  simp [nary, collect_eq, he, hp, foldData]

/-- value part of that fold: `((v₀ ∘ v₁) ∘ v₂) ∘ …` with exactly `op`, in order -/
theorem fold_value (op : α → α → α) (ds : List (Datum α)) (d : Datum α) :
    (ds.foldl (Datum.combine op) d).value = (ds.map (·.value)).foldl op d.value := by
  induction ds generalizing d with
  | nil => rfl
  | cons x xs ih => simp only [List.foldl_cons, List.map_cons]; rw [ih]; rfl

/-! ### the two-input forms agree with the n-ary ones at n = 2 (values *and* timestamps) -/
theorem binary2_eq_nary2 (op : α → α → α) (a b : Output α) : binary2 op a b = nary op [a, b] := by
  cases a with
  | error e => rfl
  | ok ao =>
    cases ao with
    | none =>
      cases b with
      | error e => rfl
      | ok bo => cases bo <;> rfl
    | some x =>
      cases b with
      | error e => rfl
      | ok bo => cases bo <;> rfl

/-! ### difference / quotient / exponent -/
theorem binaryPass_err_first (op : α → α → α) (e : Err) (b : Output α) :
    binaryPass op (.error e) b = .error e := rfl
theorem binaryPass_err_second (op : α → α → α) (ao : Option (Datum α)) (e : Err) :
    binaryPass op (.ok ao) (.error e) = .error e := rfl
theorem binaryPass_none_first (op : α → α → α) (bo : Option (Datum α)) :
    binaryPass op (.ok none) (.ok bo) = .ok none := rfl
theorem binaryPass_pass_second (op : α → α → α) (x : Datum α) :
    binaryPass op (.ok (some x)) (.ok none) = .ok (some x) := rfl
theorem binaryPass_some (op : α → α → α) (x y : Datum α) :
    ∃ t, binaryPass op (.ok (some x)) (.ok (some y)) = .ok (some ⟨t, op x.value y.value⟩) := ⟨_, rfl⟩

/-! ### newest-of skips errors and absent inputs -/
theorem latest_never_errs (ins : List (Output α)) : ∃ o, latest ins = .ok o := ⟨_, rfl⟩
theorem latest_skips (ins : List (Output α)) (acc : Option (Datum α)) (e : Err) :
    (Except.error e :: ins).foldl latestStep acc = ins.foldl latestStep acc ∧
    ((Except.ok none : Output α) :: ins).foldl latestStep acc = ins.foldl latestStep acc := ⟨rfl, rfl⟩

/-! ### if / if-else / expirer / none-to-error / none-to-value / constant / none -/
theorem if_spec (cond : Output Bool) (inp : Output α) :
    ifStream cond inp = match cond with
      | .error e => .error e
      | .ok (some ⟨_, true⟩) => inp
      | .ok _ => .ok none := by
  cases cond with
  | error e => rfl
  | ok c =>
    cases c with
    | none => rfl
    | some d => obtain ⟨t, v⟩ := d; cases v <;> rfl

theorem ifElse_spec (cond : Output Bool) (t f : Output α) :
    ifElse cond t f = match cond with
      | .error e => .error e
      | .ok none => .ok none
      | .ok (some ⟨_, true⟩) => t
      | .ok (some ⟨_, false⟩) => f := by
  cases cond with
  | error e => rfl
  | ok c =>
    cases c with
    | none => rfl
    | some d => obtain ⟨t', v⟩ := d; cases v <;> rfl

/-- the expirer drops a datum exactly when `now − t > limit`; input errors come before clock errors;
an absent input is absent without consulting the clock -/
theorem expirer_spec (inp : Output α) (now : TimeOutput) (lim : Int) :
    expirer inp now lim = match inp, now with
      | .error e, _ => .error e
      | .ok none, _ => .ok none
      | .ok (some _), .error e => .error e
      | .ok (some d), .ok t => if t - d.time > lim then .ok none else .ok (some d) := by
  cases inp with
  | error e => rfl
  | ok o =>
    cases o with
    | none => rfl
    | some d => cases now <;> rfl

theorem noneToError_spec (inp : Output α) :
    noneToError inp = match inp with
      | .error e => .error e
      | .ok none => .error .fromNone
      | .ok (some d) => .ok (some d) := by
  cases inp with
  | error e => rfl
  | ok o => cases o <;> rfl

theorem noneToValue_spec (inp : Output α) (now : TimeOutput) (v : α) :
    noneToValue inp now v = match inp, now with
      | .error e, _ => .error e
      | .ok (some d), _ => .ok (some d)
      | .ok none, .error e => .error e
      | .ok none, .ok t => .ok (some ⟨t, v⟩) := by
  cases inp with
  | error e => rfl
  | ok o =>
    cases o with
    | some d => rfl
    | none => cases now <;> rfl

theorem constantGetter_spec (now : TimeOutput) (v : α) :
    constantGetter now v = match now with
      | .error e => .error e
      | .ok t => .ok (some ⟨t, v⟩) := by cases now <;> rfl
theorem noneGetter_spec : (noneGetter : Output α) = .ok none := rfl
/-- the time getter built from a getter never reaches its `expect` -/
theorem timeGetterFromGetter_spec (inp : Output α) :
    timeGetterFromGetter inp = match inp with
      | .error e => .error e
      | .ok none => .error .fromNone
      | .ok (some d) => .ok d.time := by
  cases inp with
  | error e => rfl
  | ok o => cases o <;> rfl

/-! ### and / or / not: strong Kleene logic with absent as unknown -/
def kAnd : Option Bool → Option Bool → Option Bool
  | some false, _ => some false
  | _, some false => some false
  | some true, some true => some true
  | _, _ => none
def kOr : Option Bool → Option Bool → Option Bool
  | some true, _ => some true
  | _, some true => some true
  | some false, some false => some false
  | _, _ => none
def kNot : Option Bool → Option Bool
  | some b => some (!b)
  | none => none

/-- value carried by an Ok output -/
def valOf (o : Option (Datum Bool)) : Option Bool := o.map (·.value)

/-- value part of a whole output -/
def valOut (o : Output Bool) : Except Err (Option Bool) :=
  match o with
  | .error e => .error e
  | .ok x => .ok (valOf x)

/-- and-stream on non-error inputs computes Kleene conjunction (the nine documented rows) -/
theorem and_table (g1 g2 : Option (Datum Bool)) :
    valOut (andStream (.ok g1) (.ok g2)) = .ok (kAnd (valOf g1) (valOf g2)) := by
  cases g1 with
  | none =>
    cases g2 with
    | none => rfl
    | some b => obtain ⟨tb, vb⟩ := b; cases vb <;> rfl
  | some a =>
    obtain ⟨ta, va⟩ := a
    cases g2 with
    | none => cases va <;> rfl
    | some b =>
      obtain ⟨tb, vb⟩ := b
      by_cases h : tb > ta <;> cases va <;> cases vb <;>
        simp [andStream, logicTime, AndState.none, h, valOf, valOut, kAnd]

theorem or_table (g1 g2 : Option (Datum Bool)) :
    valOut (orStream (.ok g1) (.ok g2)) = .ok (kOr (valOf g1) (valOf g2)) := by
  cases g1 with
  | none =>
    cases g2 with
    | none => rfl
    | some b => obtain ⟨tb, vb⟩ := b; cases vb <;> rfl
  | some a =>
    obtain ⟨ta, va⟩ := a
    cases g2 with
    | none => cases va <;> rfl
    | some b =>
      obtain ⟨tb, vb⟩ := b
      by_cases h : tb > ta <;> cases va <;> cases vb <;>
        simp [orStream, logicTime, OrState.none, h, valOf, valOut, kOr]

theorem not_table (a : Output Bool) :
    notStream a = match a with
      | .error e => .error e
      | .ok none => .ok none
      | .ok (some d) => .ok (some ⟨d.time, !d.value⟩) := by
  cases a with
  | error e => rfl
  | ok o => cases o <;> rfl

/-- errors: first input first -/
theorem and_err (e : Err) (b : Output Bool) : andStream (.error e) b = .error e := rfl
theorem and_err2 (g : Option (Datum Bool)) (e : Err) : andStream (.ok g) (.error e) = .error e := rfl
theorem or_err (e : Err) (b : Output Bool) : orStream (.error e) b = .error e := rfl
theorem or_err2 (g : Option (Datum Bool)) (e : Err) : orStream (.ok g) (.error e) = .error e := rfl

/-- De Morgan duality, for **all** inputs including errors, absent values and timestamps -/
theorem de_morgan_and (a b : Output Bool) :
    notStream (andStream a b) = orStream (notStream a) (notStream b) := by
  cases a with
  | error e => rfl
  | ok g1 =>
    cases b with
    | error e => cases g1 <;> rfl
    | ok g2 =>
      cases g1 with
      | none =>
        cases g2 with
        | none => rfl
        | some y => obtain ⟨ty, vy⟩ := y; cases vy <;> rfl
      | some x =>
        obtain ⟨tx, vx⟩ := x
        cases g2 with
        | none => cases vx <;> rfl
        | some y =>
          obtain ⟨ty, vy⟩ := y
          by_cases h : ty > tx <;> cases vx <;> cases vy <;>
            simp [andStream, orStream, notStream, logicTime, AndState.none, OrState.none, h]

theorem de_morgan_or (a b : Output Bool) :
    notStream (orStream a b) = andStream (notStream a) (notStream b) := by
  cases a with
  | error e => rfl
  | ok g1 =>
    cases b with
    | error e => cases g1 <;> rfl
    | ok g2 =>
      cases g1 with
      | none =>
        cases g2 with
        | none => rfl
        | some y => obtain ⟨ty, vy⟩ := y; cases vy <;> rfl
      | some x =>
        obtain ⟨tx, vx⟩ := x
        cases g2 with
        | none => cases vx <;> rfl
        | some y =>
          obtain ⟨ty, vy⟩ := y
          by_cases h : ty > tx <;> cases vx <;> cases vy <;>
            simp [andStream, orStream, notStream, logicTime, AndState.none, OrState.none, h]

/-- non-vacuity / sanity: a 5-input sum with an absent input in the middle and the error after a present value -/
example : nary (· + ·) [.ok (some (⟨1, 10⟩ : Datum Int)), .ok none, .ok (some ⟨3, 5⟩)] = .ok (some ⟨3, 15⟩) := by rfl
example : nary (· + ·) [.ok (some (⟨1, 10⟩ : Datum Int)), .error (.other 2), .error (.other 1)] = .error (.other 2) := by rfl

end Rrtk.Thm.C02
