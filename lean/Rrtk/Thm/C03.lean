/-
C03 — combined data carry the newest contributing timestamp; selection picks newest.
Tier S: timestamps are `Int`, payloads and operators are arbitrary.  Every theorem in this namespace is an
obligation counted by the check.
-/
import Rrtk.Core
import Rrtk.Streams.Stateless
namespace Rrtk.Thm.C03
open Rrtk

variable {α β γ : Type}

/-! ### datum arithmetic: every `impl Op for Datum<_>` and assign form is `Datum.combine` (datum ∘ datum)
or `Datum.scalar` (datum ∘ scalar) in the model -/

/-- datum ∘ datum: the result's time is the later of the two. -/
theorem combine_time_max (op : α → β → γ) (a : Datum α) (b : Datum β) :
    (Datum.combine op a b).time = max a.time b.time := by
  simp only [Datum.combine]; split <;> omega

/-- the result's time is one of the operands' times (nothing is invented) -/
theorem combine_time_mem (op : α → β → γ) (a : Datum α) (b : Datum β) :
    (Datum.combine op a b).time = a.time ∨ (Datum.combine op a b).time = b.time := by
  simp only [Datum.combine]; split <;> simp

/-- the value is the operator applied to the two values, in that order -/
theorem combine_value (op : α → β → γ) (a : Datum α) (b : Datum β) :
    (Datum.combine op a b).value = op a.value b.value := rfl

/-- datum ∘ bare scalar: timestamp unchanged. -/
theorem scalar_time_keep (op : α → β → γ) (a : Datum α) (b : β) :
    (Datum.scalar op a b).time = a.time := rfl

/-- `Neg` / `Not`: timestamp unchanged. -/
theorem map_time_keep (f : α → β) (a : Datum α) : (Datum.map f a).time = a.time := rfl

/-! ### replace-if-older helpers -/

/-- `replace_if_older_than` returns true exactly when the candidate is strictly newer … -/
theorem replaceIfOlderThan_flag (s c : Datum α) :
    (Datum.replaceIfOlderThan s c).2 = true ↔ c.time > s.time := by
  simp only [Datum.replaceIfOlderThan]; split <;> simp_all

/-- … and the slot afterwards is the candidate if it reported true, otherwise untouched. -/
theorem replaceIfOlderThan_slot (s c : Datum α) :
    (Datum.replaceIfOlderThan s c).1 = if (Datum.replaceIfOlderThan s c).2 then c else s := by
  simp only [Datum.replaceIfOlderThan]; split <;> simp

/-- `replace_if_none_or_older_than`: true iff the slot was empty or the candidate strictly newer. -/
theorem replaceIfNoneOrOlderThan_flag (s : Option (Datum α)) (c : Datum α) :
    (Datum.replaceIfNoneOrOlderThan s c).2 = true ↔ (s = none ∨ ∃ d, s = some d ∧ c.time > d.time) := by
  cases s with
  | none => simp [Datum.replaceIfNoneOrOlderThan]
  | some d =>
    simp only [Datum.replaceIfNoneOrOlderThan]
    split <;> simp_all <;> omega

theorem replaceIfNoneOrOlderThan_slot (s : Option (Datum α)) (c : Datum α) :
    (Datum.replaceIfNoneOrOlderThan s c).1 = if (Datum.replaceIfNoneOrOlderThan s c).2 then some c else s := by
  cases s with
  | none => simp [Datum.replaceIfNoneOrOlderThan]
  | some d => simp only [Datum.replaceIfNoneOrOlderThan]; split <;> simp

/-- the `Option` candidate form: an absent candidate never replaces and reports false. -/
theorem replaceIfNoneOrOlderThanOption_none (s : Option (Datum α)) :
    Datum.replaceIfNoneOrOlderThanOption s none = (s, false) := rfl

theorem replaceIfNoneOrOlderThanOption_some (s : Option (Datum α)) (c : Datum α) :
    Datum.replaceIfNoneOrOlderThanOption s (some c) = Datum.replaceIfNoneOrOlderThan s c := rfl

/-- after any of the helpers the slot holds a datum at least as new as both the old slot and the candidate
when it replaced, i.e. the slot's time never decreases. -/
theorem replaceIfNoneOrOlderThan_mono (d : Datum α) (c : Datum α) :
    ∃ r, (Datum.replaceIfNoneOrOlderThan (some d) c).1 = some r ∧ r.time = max d.time c.time := by
  simp only [Datum.replaceIfNoneOrOlderThan]
  split
  · exact ⟨d, rfl, by omega⟩
  · exact ⟨c, rfl, by omega⟩

/-! ### selection -/

/-- `latest()` returns one of its arguments and neither argument is strictly newer than the result. -/
theorem latest_fn_sel (a b : Datum α) :
    (Datum.latest a b = a ∨ Datum.latest a b = b) ∧
    a.time ≤ (Datum.latest a b).time ∧ b.time ≤ (Datum.latest a b).time := by
  simp only [Datum.latest]; split <;> simp <;> omega

/-- invariant of the `Latest` fold: the accumulator is a present input seen so far (or the initial
accumulator) and no present input seen so far is strictly newer. -/
theorem latestStep_foldl (ins : List (Output α)) (acc : Option (Datum α)) :
    match ins.foldl Stream.latestStep acc with
    | none => acc = none ∧ ∀ d, Except.ok (some d) ∉ ins
    | some r => (acc = some r ∨ Except.ok (some r) ∈ ins) ∧
        (∀ a, acc = some a → a.time ≤ r.time) ∧ (∀ d, Except.ok (some d) ∈ ins → d.time ≤ r.time) := by
  induction ins generalizing acc with
  | nil =>
    cases acc with
    | none => simp
    | some a => simp
  | cons i rest ih =>
    simp only [List.foldl_cons]
    have h := ih (Stream.latestStep acc i)
    revert h
    cases hres : List.foldl Stream.latestStep (Stream.latestStep acc i) rest with
    | none =>
      intro ⟨h1, h2⟩
      -- the step never turns `some` into `none`, and a present input makes it `some`
      cases i with
      | error e => simp only [Stream.latestStep] at h1; exact ⟨h1, by simpa using h2⟩
      | ok o =>
        cases o with
        | none => simp only [Stream.latestStep] at h1; exact ⟨h1, by simpa using h2⟩
        | some g =>
          cases acc with
          | none => simp [Stream.latestStep] at h1
          | some t => simp only [Stream.latestStep] at h1; split at h1 <;> simp at h1
    | some r =>
      intro ⟨h1, h2, h3⟩
      cases i with
      | error e =>
        simp only [Stream.latestStep] at h1 h2
        refine ⟨?_, h2, ?_⟩
        · rcases h1 with h1 | h1
          · exact Or.inl h1
          · exact Or.inr (List.mem_cons_of_mem _ h1)
        · intro d hd
          simp only [List.mem_cons] at hd
          rcases hd with hd | hd
          · cases hd
          · exact h3 d hd
      | ok o =>
        cases o with
        | none =>
          simp only [Stream.latestStep] at h1 h2
          refine ⟨?_, h2, ?_⟩
          · rcases h1 with h1 | h1
            · exact Or.inl h1
            · exact Or.inr (List.mem_cons_of_mem _ h1)
          · intro d hd
            simp only [List.mem_cons] at hd
            rcases hd with hd | hd
            · cases hd
            · exact h3 d hd
        | some g =>
          cases acc with
          | none =>
            simp only [Stream.latestStep] at h1 h2
            refine ⟨?_, by simp, ?_⟩
            · rcases h1 with h1 | h1
              · right; simp only [Option.some.injEq] at h1; subst h1; exact List.mem_cons_self
              · exact Or.inr (List.mem_cons_of_mem _ h1)
            · intro d hd
              simp only [List.mem_cons] at hd
              rcases hd with hd | hd
              · cases hd; exact h2 _ rfl
              · exact h3 d hd
          | some t =>
            simp only [Stream.latestStep] at h1 h2
            by_cases hgt : g.time > t.time
            · simp only [hgt, if_true] at h1 h2
              refine ⟨?_, ?_, ?_⟩
              · rcases h1 with h1 | h1
                · right; simp only [Option.some.injEq] at h1; subst h1; exact List.mem_cons_self
                · exact Or.inr (List.mem_cons_of_mem _ h1)
              · intro a ha; simp only [Option.some.injEq] at ha; subst ha
                have := h2 g rfl; omega
              · intro d hd
                simp only [List.mem_cons] at hd
                rcases hd with hd | hd
                · cases hd; exact h2 _ rfl
                · exact h3 d hd
            · simp only [hgt, if_false] at h1 h2
              refine ⟨?_, ?_, ?_⟩
              · rcases h1 with h1 | h1
                · exact Or.inl h1
                · exact Or.inr (List.mem_cons_of_mem _ h1)
              · intro a ha; simp only [Option.some.injEq] at ha; subst ha; exact h2 _ rfl
              · intro d hd
                simp only [List.mem_cons] at hd
                rcases hd with hd | hd
                · cases hd
                  have := h2 t rfl; omega
                · exact h3 d hd

/-- newest-of stream, any arity: never an error; the result is one of the present inputs and no present
input is strictly newer; absent exactly when no input is present. -/
theorem latest_stream_sel (ins : List (Output α)) :
    match Stream.latest ins with
    | .error _ => False
    | .ok none => ∀ d, Except.ok (some d) ∉ ins
    | .ok (some r) => Except.ok (some r) ∈ ins ∧ ∀ d, Except.ok (some d) ∈ ins → d.time ≤ r.time := by
  have h := latestStep_foldl ins none
  simp only [Stream.latest]
  cases hres : List.foldl Stream.latestStep none ins with
  | none => simp only [hres] at h; exact h.2
  | some r =>
    simp only [hres] at h
    obtain ⟨h1, _, h3⟩ := h
    refine ⟨?_, h3⟩
    rcases h1 with h1 | h1
    · cases h1
    · exact h1

/-! ### stream-level timestamps -/

/-- difference / quotient / exponent: both present ⇒ the later time (`>` instead of `>=` picks the same time). -/
theorem binaryPass_time_max (op : α → α → α) (x y : Datum α) :
    ∃ r, Stream.binaryPass op (.ok (some x)) (.ok (some y)) = .ok (some r) ∧ r.time = max x.time y.time ∧
      r.value = op x.value y.value := by
  refine ⟨_, rfl, ?_, rfl⟩
  show (if x.time > y.time then x.time else y.time) = _
  split <;> omega

/-- second operand absent ⇒ first passed through with its own timestamp -/
theorem binaryPass_pass (op : α → α → α) (x : Datum α) :
    Stream.binaryPass op (.ok (some x)) (.ok none) = .ok (some x) := rfl

/-- two-input sum/product: both present ⇒ later time -/
theorem binary2_time_max (op : α → α → α) (x y : Datum α) :
    ∃ r, Stream.binary2 op (.ok (some x)) (.ok (some y)) = .ok (some r) ∧ r.time = max x.time y.time := by
  exact ⟨_, rfl, combine_time_max op x y⟩

/-- the running fold of `+=`/`*=` over data: the time is the maximum of the times folded in -/
theorem foldl_combine_time (op : α → α → α) (ds : List (Datum α)) (d : Datum α) :
    (∀ e ∈ d :: ds, e.time ≤ (ds.foldl (Datum.combine op) d).time) ∧
    (∃ e ∈ d :: ds, (ds.foldl (Datum.combine op) d).time = e.time) := by
  induction ds generalizing d with
  | nil => simp
  | cons x xs ih =>
    simp only [List.foldl_cons]
    obtain ⟨h1, e, he, h2⟩ := ih (Datum.combine op d x)
    have hmax := combine_time_max op d x
    constructor
    · intro e' he'
      simp only [List.mem_cons] at he'
      have hc := h1 (Datum.combine op d x) List.mem_cons_self
      rcases he' with rfl | rfl | he'
      · omega
      · omega
      · exact h1 e' (List.mem_cons_of_mem _ he')
    · simp only [List.mem_cons] at he
      rcases he with rfl | he
      · rcases combine_time_mem op d x with h | h
        · exact ⟨d, by simp, by rw [h2, h]⟩
        · exact ⟨x, by simp, by rw [h2, h]⟩
      · exact ⟨e, by simp [he], h2⟩

/-- n-ary sum/product, any arity: when it yields a value, the timestamp is the newest among the present
inputs it combined (an upper bound that is attained). -/
theorem nary_time_max (op : α → α → α) (ins : List (Output α)) (ds : List (Datum α))
    (hc : Stream.collect ins = .ok ds) (r : Datum α) (hr : Stream.nary op ins = .ok (some r)) :
    (∀ e ∈ ds, e.time ≤ r.time) ∧ (∃ e ∈ ds, r.time = e.time) := by
  simp only [Stream.nary, hc] at hr
  cases ds with
  | nil => simp [Stream.foldData] at hr
  | cons d rest =>
    simp only [Stream.foldData] at hr
    injection hr with hr; injection hr with hr; subst hr
    exact foldl_combine_time op rest d

/-- and/or: the result's time (when there is a result) is the newest among the present inputs -/
theorem logicTime_max (g1 g2 : Option (Datum Bool)) :
    Stream.logicTime g1 g2 =
      match g1, g2 with
      | some a, some b => some (max a.time b.time)
      | some a, none => some a.time
      | none, some b => some b.time
      | none, none => none := by
  cases g1 <;> cases g2 <;> simp only [Stream.logicTime]
  rename_i a b
  split <;> congr 1 <;> omega

/-- non-vacuity: concrete data on which the theorems speak (a tie, where `>=` vs `>` matters) -/
example : (Datum.combine (· + ·) (⟨5, 1⟩ : Datum Int) ⟨5, 2⟩).time = 5 := by decide
example : (Datum.replaceIfOlderThan (⟨5, 1⟩ : Datum Int) ⟨5, 2⟩) = (⟨5, 1⟩, false) := by decide
example : Stream.latest [.ok (some (⟨5, 1⟩ : Datum Int)), .error (.other 1), .ok (some ⟨5, 2⟩), .ok none]
    = .ok (some ⟨5, 1⟩) := by rfl

end Rrtk.Thm.C03
