/-
C04 — PIDControllerStream output equals the textbook discrete PID of its input history.
Tier S for the main theorem (bit-exact for f32: the specification is written with the same operators in the same
order, but NON-incrementally, as a function of the run of present samples since the last reset);
tier R for the scaling law.
-/
import Rrtk.Streams.Stateful
import Rrtk.Thm.Lemmas.Exact
import Rrtk.Thm.Lemmas.IntScalar
import Rrtk.Thm.Lemmas.C04Composed
set_option linter.unusedSectionVars false
set_option linter.unusedSimpArgs false
namespace Rrtk.Thm.C04
open Rrtk

section S
variable {F : Type} [Add F] [Sub F] [Mul F] [Div F] [Neg F] [LT F] [LE F] [BEq F]
  [DecidableLT F] [DecidableLE F] [FloatLike F]

/-! ### the textbook specification, over the run of present samples (NEWEST FIRST) -/

/-- trapezoidal integral of the error `e = sp − x` over the run: `0` accumulated with `0` on the first sample,
then `+ dt·(e_prev + e)/2` per sample -/
def specI (sp : F) : List (Datum F) → F
  | [] => c0
  | [_] => c0 + c0
  | x :: p :: rest => specI sp (p :: rest) + secs (x.time - p.time) * ((sp - p.value) + (sp - x.value)) / c2

/-- backward difference of the error over the last two samples; `0` on the first sample -/
def specD (sp : F) : List (Datum F) → F
  | x :: p :: _ => ((sp - x.value) - (sp - p.value)) / secs (x.time - p.time)
  | _ => c0

/-- `kp·e + ki·I + kd·D`, stamped with the newest sample's time; absent for an empty run -/
def specOut (sp : F) (k : PIDK F) : List (Datum F) → Output F
  | [] => .ok none
  | x :: rest => .ok (some ⟨x.time, k.kp * (sp - x.value) + k.ki * specI sp (x :: rest) + k.kd * specD sp (x :: rest)⟩)

/-- the run of present samples since the stream was created or last saw an absent or errored input (newest first) -/
def segStep (acc : List (Datum F)) (ev : Output F) : List (Datum F) :=
  match ev with
  | .ok (some d) => d :: acc
  | _ => []
def segment (evs : List (Output F)) : List (Datum F) := evs.foldl segStep []

/-- the stream run over a history -/
def run (sp : F) (k : PIDK F) (s : PidS F) (evs : List (Output F)) : PidS F :=
  evs.foldl (fun s ev => (Pid.step sp k s ev).1) s

/-- invariant linking the controller's only memory to the current run -/
structure Inv (sp : F) (k : PIDK F) (s : PidS F) (seg : List (Datum F)) : Prop where
  prev : s.prevError = match seg with
    | [] => none
    | x :: _ => some ⟨x.time, sp - x.value⟩
  int : s.intError = specI sp seg
  out : seg ≠ [] → s.output = specOut sp k seg

theorem inv_init (sp : F) (k : PIDK F) : Inv sp k Pid.init [] := ⟨rfl, rfl, fun h => absurd rfl h⟩

theorem inv_step (sp : F) (k : PIDK F) (s : PidS F) (seg : List (Datum F)) (h : Inv sp k s seg) (ev : Output F) :
    Inv sp k (Pid.step sp k s ev).1 (segStep seg ev) := by
  cases ev with
  | error e => exact ⟨rfl, rfl, fun h => absurd rfl h⟩
  | ok o =>
    cases o with
    | none => exact ⟨rfl, rfl, fun h => absurd rfl h⟩
    | some p =>
      obtain ⟨hp, hi, _⟩ := h
      cases seg with
      | nil =>
        simp only at hp
        refine ⟨rfl, ?_, fun _ => ?_⟩
        · simp only [Pid.step, hp, hi, segStep, specI]
        · simp only [Pid.step, hp, hi, segStep, specOut, specI, specD]
      | cons x rest =>
        simp only at hp
        refine ⟨rfl, ?_, fun _ => ?_⟩
        · simp only [Pid.step, hp, hi, segStep, specI]
        · simp only [Pid.step, hp, hi, segStep, specOut, specI, specD]

theorem inv_run (sp : F) (k : PIDK F) (evs : List (Output F)) (s : PidS F) (seg : List (Datum F))
    (h : Inv sp k s seg) : Inv sp k (run sp k s evs) (evs.foldl segStep seg) := by
  induction evs generalizing s seg with
  | nil => exact h
  | cons ev rest ih => exact ih _ _ (inv_step sp k s seg h ev)

/-- what the getter shows right after one update, as a function of that update's input category -/
theorem step_output (sp : F) (k : PIDK F) (s : PidS F) (ev : Output F) :
    (match ev with
     | .error e => (Pid.step sp k s ev).1.output = .error e
     | .ok none => (Pid.step sp k s ev).1.output = .ok none
     | .ok (some _) => True) := by
  cases ev with
  | error e => rfl
  | ok o => cases o <;> trivial

/-- **Main theorem.** For every finite history of input events: after an update that saw a present input the output is the
textbook PID of the run of present samples since creation or the last absent/errored input, stamped with the input's time;
after an absent input it is absent; after an error it is that error. -/
theorem pid_eq_spec (sp : F) (k : PIDK F) (evs : List (Output F)) :
    Pid.get (run sp k Pid.init evs) =
      match evs.getLast? with
      | some (.error e) => .error e
      | _ => specOut sp k (segment evs) := by
  rcases List.eq_nil_or_concat evs with rfl | ⟨pre, last, rfl⟩
  · rfl
  · rw [List.concat_eq_append]
    have hinv := inv_run sp k pre Pid.init [] (inv_init sp k)
    simp only [List.getLast?_append, List.getLast?_singleton, Option.some_or, run, segment,
      List.foldl_append, List.foldl_cons, List.foldl_nil]
    have hs := inv_step sp k _ _ hinv last
    cases last with
    | error e => rfl
    | ok o =>
      cases o with
      | none => rfl
      | some p =>
        have := hs.out (by simp [segStep])
        simpa [Pid.get, run] using this

/-- `update()` returns the input's error, otherwise Ok -/
theorem pid_update_ret (sp : F) (k : PIDK F) (s : PidS F) (ev : Output F) :
    (Pid.step sp k s ev).2 = match ev with | .error e => .error e | .ok _ => .ok () := by
  cases ev with
  | error e => rfl
  | ok o => cases o <;> rfl

/-- after an absent or errored input the controller is exactly as new (apart from showing the error) -/
theorem pid_after_none (sp : F) (k : PIDK F) (s : PidS F) : (Pid.step sp k s (.ok none)).1 = Pid.init := rfl
theorem pid_after_err (sp : F) (k : PIDK F) (s : PidS F) (e : Err) :
    (Pid.step sp k s (.error e)).1 = { (Pid.init : PidS F) with output := .error e } := rfl

/-- the first sample of a run: `e = sp − x`, integral `0 + 0`, derivative `0` (tier L: with `0 + 0 = 0` the integral is `0`) -/
theorem pid_first_sample (sp : F) (k : PIDK F) (x : Datum F) :
    specOut sp k [x] = .ok (some ⟨x.time, k.kp * (sp - x.value) + k.ki * (c0 + c0) + k.kd * c0⟩) := rfl

/-! ### timestamp-shift invariance (tier S: `dt` is formed in `Int`) -/
def shiftD (c : Int) (d : Datum F) : Datum F := ⟨d.time + c, d.value⟩
def shiftOut (c : Int) (o : Output F) : Output F :=
  match o with
  | .ok (some d) => .ok (some (shiftD c d))
  | x => x

theorem specI_shift (sp : F) (c : Int) (l : List (Datum F)) : specI sp (l.map (shiftD c)) = specI sp l := by
  induction l with
  | nil => rfl
  | cons x rest ih =>
    cases rest with
    | nil => rfl
    | cons p r =>
      simp only [List.map_cons, specI, shiftD] at ih ⊢
      rw [ih]
      have : x.time + c - (p.time + c) = x.time - p.time := by omega
      rw [this]
theorem specD_shift (sp : F) (c : Int) (l : List (Datum F)) : specD sp (l.map (shiftD c)) = specD sp l := by
  cases l with
  | nil => rfl
  | cons x rest =>
    cases rest with
    | nil => rfl
    | cons p r =>
      simp only [List.map_cons, specD, shiftD]
      have : x.time + c - (p.time + c) = x.time - p.time := by omega
      rw [this]
theorem specOut_shift (sp : F) (k : PIDK F) (c : Int) (l : List (Datum F)) :
    specOut sp k (l.map (shiftD c)) = shiftOut c (specOut sp k l) := by
  cases l with
  | nil => rfl
  | cons x rest =>
    have hI := specI_shift sp c (x :: rest)
    have hD := specD_shift sp c (x :: rest)
    simp only [List.map_cons] at hI hD
    simp only [List.map_cons, specOut, shiftOut, hI, hD]
    rfl
theorem segment_shift (c : Int) (evs : List (Output F)) (acc : List (Datum F)) :
    (evs.map (shiftOut c)).foldl segStep (acc.map (shiftD c)) = (evs.foldl segStep acc).map (shiftD c) := by
  induction evs generalizing acc with
  | nil => rfl
  | cons ev rest ih =>
    cases ev with
    | error e => simpa [shiftOut, segStep] using ih []
    | ok o =>
      cases o with
      | none => simpa [shiftOut, segStep] using ih []
      | some d => simpa [shiftOut, segStep] using ih (d :: acc)
/-- shifting all timestamps by a constant leaves every output value unchanged (and shifts its time) -/
theorem pid_shift_invariant (sp : F) (k : PIDK F) (c : Int) (evs : List (Output F)) :
    Pid.get (run sp k Pid.init (evs.map (shiftOut c))) = shiftOut c (Pid.get (run sp k Pid.init evs)) := by
  rw [pid_eq_spec, pid_eq_spec]
  have hseg : segment (evs.map (shiftOut c)) = (segment evs).map (shiftD c) := by
    simpa [segment] using segment_shift c evs []
  rcases List.eq_nil_or_concat evs with rfl | ⟨pre, last, rfl⟩
  · rfl
  · rw [List.concat_eq_append] at *
    simp only [List.map_append, List.map_cons, List.map_nil, List.getLast?_append, List.getLast?_singleton,
      Option.some_or]
    rw [show (pre.map (shiftOut c) ++ [shiftOut c last]) = (pre ++ [last]).map (shiftOut c) by simp] at *
    cases last with
    | error e => rfl
    | ok o =>
      cases o with
      | none => simp only [shiftOut, hseg, specOut_shift]
      | some d => simp only [shiftOut, hseg, specOut_shift]
end S

/-! ### tier R: the output scales with setpoint and inputs -/
section R
variable {F : Type} [Field F] [LinearOrder F] [IsStrictOrderedRing F] [FloatLike F] [ExactScalar F]

def scaleD (c : F) (d : Datum F) : Datum F := ⟨d.time, c * d.value⟩

theorem specI_scale (sp c : F) (l : List (Datum F)) : specI (c * sp) (l.map (scaleD c)) = c * specI sp l := by
  induction l with
  | nil => show (c0 : F) = c * c0; simp
  | cons x rest ih =>
    cases rest with
    | nil => show (c0 : F) + c0 = c * (c0 + c0); simp
    | cons p r =>
      simp only [List.map_cons, specI] at ih ⊢
      rw [ih]; simp only [scaleD]; ring
theorem specD_scale (sp c : F) (l : List (Datum F)) : specD (c * sp) (l.map (scaleD c)) = c * specD sp l := by
  cases l with
  | nil => show (c0 : F) = c * c0; simp
  | cons x rest =>
    cases rest with
    | nil => show (c0 : F) = c * c0; simp
    | cons p r => simp only [List.map_cons, specD, scaleD]; ring
/-- scaling the setpoint and all inputs by `c` scales the output by `c` (in exact arithmetic; for a power of two this is
also exact in binary32 barring over/underflow, which the correspondence check exercises) -/
theorem pid_scale (sp c : F) (k : PIDK F) (x : Datum F) (rest : List (Datum F)) :
    specOut (c * sp) k ((x :: rest).map (scaleD c)) =
      .ok (some ⟨x.time, c * (k.kp * (sp - x.value) + k.ki * specI sp (x :: rest) + k.kd * specD sp (x :: rest))⟩) := by
  have hI := specI_scale sp c (x :: rest)
  have hD := specD_scale sp c (x :: rest)
  simp only [List.map_cons] at hI hD
  simp only [List.map_cons, specOut]
  rw [hI, hD]
  simp only [scaleD]
  congr 3; ring
/-- in exact arithmetic the integral term is the usual trapezoid sum starting from 0 -/
theorem specI_first_zero (sp : F) (x : Datum F) : specI sp [x] = 0 := by show (c0 : F) + c0 = 0; simp
end R

/-- non-vacuity: the test-suite's own two-sample scenario over `Int`-scaled numbers: sp 5, gains (1,1,1),
samples 0@0 s and 1@2 s (time unit chosen so that `secs` is exact on `Int`: see `IntScalar`) -/
example : segment [.ok (some (⟨0, 0⟩ : Datum Int)), .error (.other 1), .ok (some ⟨5, 1⟩), .ok (some ⟨7, 2⟩)] = [⟨7, 2⟩, ⟨5, 1⟩] := rfl

end Rrtk.Thm.C04
