/-
C05 — stateful streams: no stale errors, reset erases history, get is pure.
Tier S.  For each stream the facts are proved for ONE step from an ARBITRARY state; `Lemmas/Run.lean` lifts them to
every history (any length).  "get is pure" holds because every `get` is a function of the state alone
(`*.get : State → Output`), which the correspondence check confirms on the real objects by reading twice.
The model is of the tree after the `fix:` commit for Integral/DerivativeStream (stale cached error).
-/
import Rrtk.Streams.Stateful
import Rrtk.Thm.Lemmas.Run
import Rrtk.Thm.Lemmas.IntScalar
set_option linter.unusedSectionVars false
set_option linter.unusedSimpArgs false
namespace Rrtk.Thm.C05
open Rrtk

variable {F : Type} [Add F] [Sub F] [Mul F] [Div F] [Neg F] [LT F] [LE F] [BEq F]
  [DecidableLT F] [DecidableLE F] [FloatLike F]

/-- an output is the error `e` -/
def IsErr {α : Type} (o : Output α) (e : Err) : Prop := o = .error e
/-- an input event is the error `e` -/
def InErr {α : Type} (i : Output α) (e : Err) : Prop := i = .error e

/-! ### PIDControllerStream: absent and error both reset -/
def pidStep (sp : F) (k : PIDK F) (s : PidS F) (i : Output F) : Except Panic (PidS F × UpdRet) := .ok (Pid.step sp k s i)

theorem pid_no_stale_err_step (sp : F) (k : PIDK F) (s : PidS F) (i : Output F) (e : Err)
    (h : Pid.get (Pid.step sp k s i).1 = .error e) : i = .error e := by
  cases i with
  | error e' => simp [Pid.step, Pid.get, Pid.init] at h; rw [h]
  | ok o => cases o <;> simp [Pid.step, Pid.get, Pid.init] at h
theorem pid_reset_absent (sp : F) (k : PIDK F) (s : PidS F) :
    Pid.step sp k s (.ok none) = Pid.step sp k Pid.init (.ok none) := rfl
theorem pid_reset_err (sp : F) (k : PIDK F) (s : PidS F) (e : Err) :
    Pid.step sp k s (.error e) = Pid.step sp k Pid.init (.error e) := rfl
/-- update returns the input's error, otherwise ok -/
theorem pid_update_ret (sp : F) (k : PIDK F) (s : PidS F) (i : Output F) :
    (Pid.step sp k s i).2 = match i with | .error e => .error e | .ok _ => .ok () := by
  cases i with
  | error e => rfl
  | ok o => cases o <;> rfl
/-- history level: no stale error -/
theorem pid_no_stale_err (sp : F) (k : PIDK F) (evs : List (Output F)) (s : PidS F)
    (h : runE (pidStep sp k) Pid.init evs = .ok s) (e : Err) (he : Pid.get s = .error e) :
    evs.getLast? = some (.error e) := by
  have := no_stale_err_of_step (pidStep sp k) Pid.get IsErr InErr
    (fun s i r hr e he => by
      simp only [pidStep] at hr; cases hr
      exact pid_no_stale_err_step sp k s i e he) Pid.init evs s h e he
  rcases this with ⟨_, h0⟩ | ⟨i, hi, hie⟩
  · simp [IsErr, Pid.get, Pid.init] at h0
  · simp only [InErr] at hie; rw [hi, hie]
/-- history level: after a reset event every later state equals that of a new stream fed the events from the reset on -/
theorem pid_reset_erases_history (sp : F) (k : PIDK F) (pre post : List (Output F)) (r : Output F)
    (hr : r = .ok none ∨ ∃ e, r = .error e) :
    runE (pidStep sp k) Pid.init (pre ++ r :: post) = runE (pidStep sp k) Pid.init (r :: post) := by
  have hpre : ∃ s, runE (pidStep sp k) Pid.init pre = .ok s := by
    generalize (Pid.init : PidS F) = s0
    induction pre generalizing s0 with
    | nil => exact ⟨s0, rfl⟩
    | cons i is ih => simp only [runE_cons, pidStep]; exact ih _
  obtain ⟨s, hs⟩ := hpre
  refine runE_reset (pidStep sp k) Pid.init r ?_ pre post s hs
  intro s'
  rcases hr with rfl | ⟨e, rfl⟩ <;> rfl

/-! ### Integral / Derivative: absent and error both reset (fixed code) -/
theorem derivative_no_stale_err_step (chk : Bool) (s : DiS F) (i : Output (Quantity F)) (r : DiS F × UpdRet)
    (h : Derivative.step chk s i = .ok r) (e : Err) (he : Derivative.get r.1 = .error e) : i = .error e := by
  cases i with
  | error e' => simp [Derivative.step] at h; subst h; simp [Derivative.get] at he; rw [he]
  | ok o =>
    cases o with
    | none => simp [Derivative.step] at h; subst h; simp [Derivative.get] at he
    | some d =>
      simp only [Derivative.step] at h
      cases hp : s.prev with
      | none => simp [hp] at h; subst h; simp [Derivative.get] at he
      | some p =>
        simp only [hp] at h
        cases hq : Quantity.sub chk d.value p.value with
        | error x => simp [hq] at h
        | ok v => simp [hq] at h; subst h; simp [Derivative.get] at he
theorem integral_no_stale_err_step (chk : Bool) (s : DiS F) (i : Output (Quantity F)) (r : DiS F × UpdRet)
    (h : Integral.step chk s i = .ok r) (e : Err) (he : Integral.get r.1 = .error e) : i = .error e := by
  cases i with
  | error e' => simp [Integral.step] at h; subst h; simp [Integral.get] at he; rw [he]
  | ok o =>
    cases o with
    | none => simp [Integral.step] at h; subst h; simp [Integral.get] at he
    | some d =>
      simp only [Integral.step] at h
      cases hp : s.prev with
      | none => simp [hp] at h; subst h; simp [Integral.get] at he
      | some p =>
        simp only [hp] at h
        cases hq : Quantity.add chk p.value d.value with
        | error x => simp [hq] at h
        | ok v =>
          simp only [hq] at h
          split at h
          · split at h
            · simp at h
            · simp at h; subst h; simp [Integral.get] at he
          · simp at h; subst h; simp [Integral.get] at he
theorem derivative_reset (chk : Bool) (s : DiS F) (r : Output (Quantity F)) (hr : r = .ok none ∨ ∃ e, r = .error e) :
    Derivative.step chk s r = Derivative.step chk Derivative.init r := by
  rcases hr with rfl | ⟨e, rfl⟩ <;> rfl
theorem integral_reset (chk : Bool) (s : DiS F) (r : Output (Quantity F)) (hr : r = .ok none ∨ ∃ e, r = .error e) :
    Integral.step chk s r = Integral.step chk Integral.init r := by
  rcases hr with rfl | ⟨e, rfl⟩ <;> rfl
theorem derivative_no_stale_err (chk : Bool) (evs : List (Output (Quantity F))) (s : DiS F)
    (h : runE (Derivative.step chk) Derivative.init evs = .ok s) (e : Err) (he : Derivative.get s = .error e) :
    evs.getLast? = some (.error e) := by
  have := no_stale_err_of_step (Derivative.step chk) Derivative.get IsErr InErr
    (fun s i r hr e he => derivative_no_stale_err_step chk s i r hr e he) Derivative.init evs s h e he
  rcases this with ⟨_, h0⟩ | ⟨i, hi, hie⟩
  · simp [IsErr, Derivative.get, Derivative.init] at h0
  · simp only [InErr] at hie; rw [hi, hie]
theorem integral_no_stale_err (chk : Bool) (evs : List (Output (Quantity F))) (s : DiS F)
    (h : runE (Integral.step chk) Integral.init evs = .ok s) (e : Err) (he : Integral.get s = .error e) :
    evs.getLast? = some (.error e) := by
  have := no_stale_err_of_step (Integral.step chk) Integral.get IsErr InErr
    (fun s i r hr e he => integral_no_stale_err_step chk s i r hr e he) Integral.init evs s h e he
  rcases this with ⟨_, h0⟩ | ⟨i, hi, hie⟩
  · simp [IsErr, Integral.get, Integral.init] at h0
  · simp only [InErr] at hie; rw [hi, hie]
theorem derivative_reset_erases_history (chk : Bool) (pre post : List (Output (Quantity F))) (r : Output (Quantity F))
    (hr : r = .ok none ∨ ∃ e, r = .error e) (s : DiS F) (hpre : runE (Derivative.step chk) Derivative.init pre = .ok s) :
    runE (Derivative.step chk) Derivative.init (pre ++ r :: post) = runE (Derivative.step chk) Derivative.init (r :: post) :=
  runE_reset _ _ r (fun s' => derivative_reset chk s' r hr) pre post s hpre
theorem integral_reset_erases_history (chk : Bool) (pre post : List (Output (Quantity F))) (r : Output (Quantity F))
    (hr : r = .ok none ∨ ∃ e, r = .error e) (s : DiS F) (hpre : runE (Integral.step chk) Integral.init pre = .ok s) :
    runE (Integral.step chk) Integral.init (pre ++ r :: post) = runE (Integral.step chk) Integral.init (r :: post) :=
  runE_reset _ _ r (fun s' => integral_reset chk s' r hr) pre post s hpre

/-- the stale-error defect of the ORIGINAL code, kept as a documented regression: there the first sample after a
reset left `value` untouched.  `stepPrefix` is that code; after `Err(1), Some(x)` its getter still shows `Err(1)`. -/
def integralStepPrefix (chk : Bool) (s : DiS F) (inp : Output (Quantity F)) : Except Panic (DiS F × UpdRet) :=
  match inp, s.prev with
  | .ok (some o), none => .ok (⟨s.value, some o⟩, .ok ())
  | _, _ => Integral.step chk s inp
example : ∃ s, runE (integralStepPrefix (F := Int) true) Integral.init
      [.error (.other 1), .ok (some ⟨1, ⟨5, ⟨1, 0⟩⟩⟩)] = .ok s ∧ Integral.get s = .error (.other 1) := ⟨_, rfl, rfl⟩
example : ∃ s, runE (Integral.step (F := Int) true) Integral.init
      [.error (.other 1), .ok (some ⟨1, ⟨5, ⟨1, 0⟩⟩⟩)] = .ok s ∧ Integral.get s = .ok none := ⟨_, rfl, rfl⟩

/-! ### EWMA / moving average: error resets; absent is ignored (but clears a cached error) -/
section generic
variable {T : Type}
theorem ewma_no_stale_err_step (scale : T → F → T) (add : T → T → Except Panic T) (sm : F)
    (s : EwmaS T) (i : Output T) (r : EwmaS T × UpdRet)
    (h : Ewma.step scale add sm s i = .ok r) (e : Err) (he : Ewma.get r.1 = .error e) : i = .error e := by
  cases i with
  | error e' => simp [Ewma.step] at h; subst h; simp [Ewma.get] at he; rw [he]
  | ok o =>
    cases o with
    | none =>
      simp only [Ewma.step] at h
      cases hv : s.value with
      | error x => simp [hv] at h; subst h; simp [Ewma.get] at he
      | ok v =>
        simp [hv] at h; subst h
        -- NOTE: an absent input leaves an `Ok` value untouched, so no error can be showing
        simp [Ewma.get, hv] at he
    | some d =>
      simp only [Ewma.step] at h
      split at h
      · simp at h
      · split at h
        · simp at h
        · simp at h; subst h; simp [Ewma.get] at he
theorem ewma_reset (scale : T → F → T) (add : T → T → Except Panic T) (sm : F) (s : EwmaS T) (e : Err) :
    Ewma.step scale add sm s (.error e) = Ewma.step scale add sm Ewma.init (.error e) := rfl
theorem ma_no_stale_err_step (scale : T → F → T) (add : T → T → Except Panic T) (fin : T → F → T) (z : Option T) (w : Int)
    (s : MaS T) (i : Output T) (r : MaS T × UpdRet)
    (h : Ma.step scale add fin z w s i = .ok r) (e : Err) (he : Ma.get r.1 = .error e) : i = .error e := by
  cases i with
  | error e' => simp [Ma.step] at h; subst h; simp [Ma.get] at he; rw [he]
  | ok o =>
    cases o with
    | none =>
      simp only [Ma.step] at h
      cases hv : s.value with
      | error x => simp [hv] at h; subst h; simp [Ma.get] at he
      | ok v => simp [hv] at h; subst h; simp [Ma.get, hv] at he
    | some d =>
      simp only [Ma.step] at h
      split at h
      · simp at h
      · split at h
        · simp at h
        · simp at h
        · simp at h; subst h; simp [Ma.get] at he
theorem ma_reset (scale : T → F → T) (add : T → T → Except Panic T) (fin : T → F → T) (z : Option T) (w : Int)
    (s : MaS T) (e : Err) :
    Ma.step scale add fin z w s (.error e) = Ma.step scale add fin z w Ma.init (.error e) := rfl

/-- the relation "equal, or the first carries a cached error that the second has already cleared" -/
def EwmaSim (a b : EwmaS T) : Prop :=
  a = b ∨ ((∃ e, a.value = .error e) ∧ b = ⟨.ok none, none⟩)
/-- an absent event moves a state to a related one … -/
theorem ewma_absent_sim (scale : T → F → T) (add : T → T → Except Panic T) (sm : F) (s : EwmaS T) :
    ∃ s', Ewma.step scale add sm s (.ok none) = .ok (s', .ok ()) ∧ EwmaSim s s' := by
  simp only [Ewma.step]
  cases hv : s.value with
  | error x => exact ⟨_, rfl, Or.inr ⟨⟨x, hv⟩, rfl⟩⟩
  | ok v => exact ⟨s, rfl, Or.inl rfl⟩
/-- … and related states react identically to every non-absent event: deleting absent events does not change later
outputs. -/
theorem ewma_sim_step (scale : T → F → T) (add : T → T → Except Panic T) (sm : F) (a b : EwmaS T)
    (h : EwmaSim a b) (i : Output T) (hi : i ≠ .ok none) :
    Ewma.step scale add sm a i = Ewma.step scale add sm b i := by
  rcases h with rfl | ⟨⟨e, hae⟩, rfl⟩
  · rfl
  · cases i with
    | error e' => rfl
    | ok o =>
      cases o with
      | none => exact absurd rfl hi
      | some d => simp [Ewma.step, hae]

def MaSim (a b : MaS T) : Prop :=
  a = b ∨ ((∃ e, a.value = .error e) ∧ b = { a with value := .ok none })
theorem ma_absent_sim (scale : T → F → T) (add : T → T → Except Panic T) (fin : T → F → T) (z : Option T) (w : Int)
    (s : MaS T) : ∃ s', Ma.step scale add fin z w s (.ok none) = .ok (s', .ok ()) ∧ MaSim s s' := by
  simp only [Ma.step]
  cases hv : s.value with
  | error x => exact ⟨_, rfl, Or.inr ⟨⟨x, hv⟩, rfl⟩⟩
  | ok v => exact ⟨s, rfl, Or.inl rfl⟩
theorem ma_sim_step (scale : T → F → T) (add : T → T → Except Panic T) (fin : T → F → T) (z : Option T) (w : Int)
    (a b : MaS T) (h : MaSim a b) (i : Output T) (hi : i ≠ .ok none) :
    Ma.step scale add fin z w a i = Ma.step scale add fin z w b i := by
  rcases h with rfl | ⟨⟨e, hae⟩, rfl⟩
  · rfl
  · cases i with
    | error e' => rfl
    | ok o =>
      cases o with
      | none => exact absurd rfl hi
      | some d => simp [Ma.step]
end generic

/-! ### to-state converters: error resets, absent is ignored outright; `get` never shows an error -/
theorem a2s_absent_noop (chk : Bool) (s : Option (A2sU0 F)) : A2s.step chk s (.ok none) = .ok (s, .ok ()) := rfl
theorem v2s_absent_noop (chk : Bool) (s : Option (V2sU0 F)) : V2s.step chk s (.ok none) = .ok (s, .ok ()) := rfl
theorem p2s_absent_noop (chk : Bool) (s : Option (P2sU0 F)) : P2s.step chk s (.ok none) = .ok (s, .ok ()) := rfl
theorem a2s_reset (chk : Bool) (s : Option (A2sU0 F)) (e : Err) : A2s.step chk s (.error e) = A2s.step chk A2s.init (.error e) := rfl
theorem v2s_reset (chk : Bool) (s : Option (V2sU0 F)) (e : Err) : V2s.step chk s (.error e) = V2s.step chk V2s.init (.error e) := rfl
theorem p2s_reset (chk : Bool) (s : Option (P2sU0 F)) (e : Err) : P2s.step chk s (.error e) = P2s.step chk P2s.init (.error e) := rfl
theorem a2s_get_never_err (chk : Bool) (s : Option (A2sU0 F)) (o : Output (State F)) (h : A2s.get chk s = .ok o) (e : Err) :
    o ≠ .error e := by
  simp only [A2s.get] at h
  split at h
  · split at h
    · split at h
      · split at h
        · simp at h
        · simp at h; subst h; simp
      · simp at h; subst h; simp
    · simp at h; subst h; simp
  · simp at h; subst h; simp
theorem v2s_get_never_err (chk : Bool) (s : Option (V2sU0 F)) (o : Output (State F)) (h : V2s.get chk s = .ok o) (e : Err) :
    o ≠ .error e := by
  simp only [V2s.get] at h
  split at h
  · split at h
    · split at h
      · simp at h
      · simp at h; subst h; simp
    · simp at h; subst h; simp
  · simp at h; subst h; simp
theorem p2s_get_never_err (chk : Bool) (s : Option (P2sU0 F)) (o : Output (State F)) (h : P2s.get chk s = .ok o) (e : Err) :
    o ≠ .error e := by
  simp only [P2s.get] at h
  split at h
  · split at h
    · split at h
      · split at h
        · simp at h
        · simp at h; subst h; simp
      · simp at h; subst h; simp
    · simp at h; subst h; simp
  · simp at h; subst h; simp
/-- deleting absent events from any history leaves the final state (hence every later output) unchanged -/
theorem a2s_absent_deletion (chk : Bool) (s0 : Option (A2sU0 F)) (evs : List (Output (Quantity F))) :
    runE (A2s.step chk) s0 (evs.filter (fun i => !(match i with | .ok none => true | _ => false))) = runE (A2s.step chk) s0 evs :=
  runE_filter_noop (A2s.step chk) (fun i => match i with | .ok none => true | _ => false)
    (fun s i hi => by
      cases i with
      | error e => simp at hi
      | ok o => cases o with
        | none => exact ⟨_, rfl⟩
        | some d => simp at hi) s0 evs
theorem v2s_absent_deletion (chk : Bool) (s0 : Option (V2sU0 F)) (evs : List (Output (Quantity F))) :
    runE (V2s.step chk) s0 (evs.filter (fun i => !(match i with | .ok none => true | _ => false))) = runE (V2s.step chk) s0 evs :=
  runE_filter_noop (V2s.step chk) (fun i => match i with | .ok none => true | _ => false)
    (fun s i hi => by
      cases i with
      | error e => simp at hi
      | ok o => cases o with
        | none => exact ⟨_, rfl⟩
        | some d => simp at hi) s0 evs
theorem p2s_absent_deletion (chk : Bool) (s0 : Option (P2sU0 F)) (evs : List (Output (Quantity F))) :
    runE (P2s.step chk) s0 (evs.filter (fun i => !(match i with | .ok none => true | _ => false))) = runE (P2s.step chk) s0 evs :=
  runE_filter_noop (P2s.step chk) (fun i => match i with | .ok none => true | _ => false)
    (fun s i hi => by
      cases i with
      | error e => simp at hi
      | ok o => cases o with
        | none => exact ⟨_, rfl⟩
        | some d => simp at hi) s0 evs

/-! ### pass-through converters: the state is exactly the last input, every event "resets" -/
theorem f2q_step (s : Output F) (i : Output F) : F2q.step s i = (i, .ok ()) := rfl
theorem f2q_no_stale_err (unit : DUnit) (s : Output F) (i : Output F) (e : Err)
    (h : F2q.get unit (F2q.step s i).1 = .error e) : i = .error e := by
  cases i with
  | error e' => simp [F2q.step, F2q.get] at h; rw [h]
  | ok o => cases o <;> simp [F2q.step, F2q.get] at h
theorem q2f_no_stale_err (s : Output F) (i : Output (Quantity F)) (e : Err)
    (h : Q2f.get (Q2f.step s i).1 = .error e) : i = .error e := by
  cases i with
  | error e' => simp [Q2f.step, Q2f.get] at h; rw [h]
  | ok o => cases o <;> simp [Q2f.step, Q2f.get] at h
theorem q2f_memoryless (s s' : Output F) (i : Output (Quantity F)) : Q2f.step s i = Q2f.step s' i := rfl
theorem f2q_memoryless (s s' : Output F) (i : Output F) : F2q.step s i = F2q.step s' i := rfl

/-! ### CommandPID -/
theorem cpid_no_stale_err_step (chk : Bool) (k : PIDK3 F) (s : CpidS F) (i : Output (State F)) (e : Err)
    (h : Cpid.get (Cpid.stepInput chk k s i).1 = .error e) : i = .error e := by
  cases i with
  | error e' => simp [Cpid.stepInput, Cpid.get] at h; rw [h]
  | ok o =>
    cases o with
    | none => simp [Cpid.stepInput, Cpid.get, Cpid.reset] at h
    | some d =>
      simp only [Cpid.stepInput] at h
      split at h
      · split at h
        · simp only [Cpid.get] at h; split at h <;> simp_all
        · simp only [Cpid.get] at h; split at h <;> simp_all
      · simp only [Cpid.get] at h; split at h <;> simp_all
/-- an absent input resets the staged computation from any state (command and bookkeeping are kept) -/
theorem cpid_absent_resets (chk : Bool) (k : PIDK3 F) (s : CpidS F) :
    Cpid.stepInput chk k s (.ok none) = ({ s with us := .ok none }, .ok ()) := rfl
/-- after an error the next present sample starts afresh: same as from the reset state -/
theorem cpid_err_then_fresh (chk : Bool) (k : PIDK3 F) (s : CpidS F) (e : Err) (x : Datum (State F)) :
    Cpid.stepInput chk k { s with us := .error e } (.ok (some x)) =
    Cpid.stepInput chk k { s with us := .ok none } (.ok (some x)) := rfl
/-- the whole state after an absent or errored input depends on the past only through the command and the last request -/
theorem cpid_reset_state (chk : Bool) (k : PIDK3 F) (s s' : CpidS F) (r : Output (State F))
    (hr : r = .ok none ∨ ∃ e, r = .error e) (hc : s.command = s'.command) (hl : s.lastRequest = s'.lastRequest) :
    Cpid.stepInput chk k s r = Cpid.stepInput chk k s' r := by
  cases s; cases s'; simp only at hc hl; subst hc; subst hl
  rcases hr with rfl | ⟨e, rfl⟩ <;> rfl

/-! ### FreezeStream: complete characterisation of one update, hence of every history -/
section freeze
variable {T : Type}
theorem freeze_characterisation (s : Output T) (cond : Output Bool) (inp : Output T) :
    Freeze.step s cond inp = match cond with
      | .error e => (.error e, .error e)
      | .ok none => (.ok none, .ok ())
      | .ok (some ⟨_, true⟩) => (s, .ok ())
      | .ok (some ⟨_, false⟩) => (inp, match inp with | .ok _ => .ok () | .error e => .error e) := by
  cases cond with
  | error e => rfl
  | ok c =>
    cases c with
    | none => rfl
    | some d =>
      obtain ⟨t, v⟩ := d
      cases v
      · cases inp <;> rfl
      · rfl
/-- absent whenever the condition is absent -/
theorem freeze_absent_condition (s : Output T) (inp : Output T) :
    Freeze.get (Freeze.step s (.ok none) inp).1 = .ok none := rfl
/-- run over a history of (condition, input) pairs -/
def freezeRun (s : Output T) : List (Output Bool × Output T) → Output T
  | [] => s
  | (c, i) :: rest => freezeRun (Freeze.step s c i).1 rest
/-- boolean condition histories (every condition present): the value is what the input returned at the last update
whose condition was false; with no such update it is the initial value. -/
def lastFalseInput (init : Output T) : List (Bool × Output T) → Output T
  | [] => init
  | (c, i) :: rest => lastFalseInput (if c then init else i) rest
theorem freeze_last_false (s : Output T) (h : List (Bool × Int × Output T)) :
    freezeRun s (h.map (fun x => (.ok (some ⟨x.2.1, x.1⟩), x.2.2))) = lastFalseInput s (h.map (fun x => (x.1, x.2.2))) := by
  induction h generalizing s with
  | nil => rfl
  | cons x xs ih =>
    obtain ⟨c, t, i⟩ := x
    simp only [List.map_cons, freezeRun, lastFalseInput]
    cases c
    · have : (Freeze.step s (.ok (some ⟨t, false⟩)) i).1 = i := by cases i <;> rfl
      rw [this]; simpa using ih i
    · have : (Freeze.step s (.ok (some ⟨t, true⟩)) i).1 = s := rfl
      rw [this]; simpa using ih s
end freeze

/-- non-vacuity: a PID history with an error in the middle -/
example : Pid.get (Pid.step (3 : Int) ⟨1, 1, 1⟩ Pid.init (.error (.other 2))).1 = .error (.other 2) := rfl

end Rrtk.Thm.C05
