/-
C06 — motion-profile accessors agree at every instant.

Tier S (arbitrary scalar `F`, no algebraic law, every `t : Int`, every `MotionProfile` value unless a
hypothesis is stated) for everything except `new_times_ordered`, which is tier L: it names the four
order facts about the scalar it uses (all true of every IEEE binary32 value, NaN included).

`WF`, the value-level formulas (`velF`, `pos1F`, …, `velOpt`, `posOpt`) and the inversion of the
constructor (`newSpec`, `newResult`) are defined in `Rrtk/Thm/Lemmas/C06Profile.lean` (namespace
`Rrtk.Thm.MpL`, opened here) because `Thm/C07.lean` uses them too.
-/
import Rrtk.Thm.Lemmas.C06Profile
import Rrtk.Thm.Lemmas.Exact
import Mathlib.Data.Rat.Floor
set_option linter.unusedSectionVars false
set_option linter.unusedSimpArgs false
namespace Rrtk.Thm.C06
open Rrtk Rrtk.Thm.MpL MotionProfile

section S
variable {F : Type} [Add F] [Sub F] [Mul F] [Div F] [Neg F] [LT F] [LE F] [BEq F]
  [DecidableLT F] [DecidableLE F] [FloatLike F]

/-! ### 0. the five pieces as conditions on `t` (any `t1, t2, t3`, in any order) -/

/-- the if-chain of `get_piece`, read off as conditions on `t` -/
theorem piece_cases (mp : MotionProfile F) (t : Int) :
    (t < 0 ∧ getPiece mp t = .beforeStart) ∨
    (0 ≤ t ∧ t < mp.t1 ∧ getPiece mp t = .initialAcceleration) ∨
    (0 ≤ t ∧ mp.t1 ≤ t ∧ t < mp.t2 ∧ getPiece mp t = .constantVelocity) ∨
    (0 ≤ t ∧ mp.t1 ≤ t ∧ mp.t2 ≤ t ∧ t < mp.t3 ∧ getPiece mp t = .endAcceleration) ∨
    (0 ≤ t ∧ mp.t1 ≤ t ∧ mp.t2 ≤ t ∧ mp.t3 ≤ t ∧ getPiece mp t = .complete) := by
  unfold getPiece
  by_cases h0 : t < 0
  · simp [h0]
  by_cases h1 : t < mp.t1
  · simp [h0, h1]; omega
  by_cases h2 : t < mp.t2
  · simp [h0, h1, h2]; omega
  by_cases h3 : t < mp.t3
  · simp [h0, h1, h2, h3]; omega
  · simp [h0, h1, h2, h3]; omega

theorem piece_initial_iff (mp : MotionProfile F) (t : Int) :
    getPiece mp t = .initialAcceleration ↔ 0 ≤ t ∧ t < mp.t1 := by
  rcases piece_cases mp t with h | h | h | h | h <;> simp [h]
theorem piece_constant_iff (mp : MotionProfile F) (t : Int) :
    getPiece mp t = .constantVelocity ↔ 0 ≤ t ∧ mp.t1 ≤ t ∧ t < mp.t2 := by
  rcases piece_cases mp t with h | h | h | h | h <;> simp [h]
theorem piece_end_iff (mp : MotionProfile F) (t : Int) :
    getPiece mp t = .endAcceleration ↔ 0 ≤ t ∧ mp.t1 ≤ t ∧ mp.t2 ≤ t ∧ t < mp.t3 := by
  rcases piece_cases mp t with h | h | h | h | h <;> simp [h]
theorem piece_complete_iff (mp : MotionProfile F) (t : Int) :
    getPiece mp t = .complete ↔ 0 ≤ t ∧ mp.t1 ≤ t ∧ mp.t2 ≤ t ∧ mp.t3 ≤ t := by
  rcases piece_cases mp t with h | h | h | h | h <;> simp [h]
/-- for a profile with ordered times (what the constructor yields) "complete" is simply `t ≥ t3` -/
theorem piece_complete_iff_ordered (mp : MotionProfile F) (t : Int)
    (hord : 0 ≤ mp.t1 ∧ mp.t1 ≤ mp.t2 ∧ mp.t2 ≤ mp.t3) :
    getPiece mp t = .complete ↔ mp.t3 ≤ t := by
  rw [piece_complete_iff]; omega
/-- for a profile with ordered times the move is `[0, t3)` -/
theorem piece_moving_iff_ordered (mp : MotionProfile F) (t : Int)
    (hord : 0 ≤ mp.t1 ∧ mp.t1 ≤ mp.t2 ∧ mp.t2 ≤ mp.t3) :
    (getPiece mp t ≠ .beforeStart ∧ getPiece mp t ≠ .complete) ↔ (0 ≤ t ∧ t < mp.t3) := by
  rcases piece_cases mp t with h | h | h | h | h <;> simp [h] <;> omega

/-! ### 1. before-start ⇔ `t < 0` ⇔ mode / acceleration / history absent -/

theorem before_start_iff (mp : MotionProfile F) (t : Int) : getPiece mp t = .beforeStart ↔ t < 0 := by
  rcases piece_cases mp t with h | h | h | h | h <;> simp [h]

theorem mode_none_iff (mp : MotionProfile F) (t : Int) : getMode mp t = none ↔ t < 0 := by
  unfold getMode
  by_cases h0 : t < 0
  · simp [h0]
  · simp only [h0, if_false, iff_false]
    repeat' split
    all_goals simp

theorem acc_none_iff (chk : Bool) (mp : MotionProfile F) (t : Int) : getAcceleration chk mp t = none ↔ t < 0 := by
  unfold getAcceleration
  by_cases h0 : t < 0
  · simp [h0]
  · simp only [h0, if_false, iff_false]
    repeat' split
    all_goals simp

/-- the acceleration accessor is present exactly from `t = 0` on -/
theorem acc_present_iff (chk : Bool) (mp : MotionProfile F) (t : Int) :
    (∃ q, getAcceleration chk mp t = some q) ↔ 0 ≤ t := by
  have := acc_none_iff chk mp t
  cases h : getAcceleration chk mp t with
  | none => simp [h] at this ⊢; omega
  | some q => simp [h] at this ⊢; omega

/-- `History::get` answers `None` exactly when `t < 0` — for EVERY profile value (no well-formedness needed:
the other branches end in `Some` or in a panic, never in `None`) -/
theorem hist_none_iff (chk : Bool) (mp : MotionProfile F) (t : Int) : historyGet chk mp t = .ok none ↔ t < 0 := by
  rw [← mode_none_iff mp t]
  unfold historyGet
  cases hm : getMode mp t with
  | none => simp
  | some mode =>
    simp only [reduceCtorEq, iff_false]
    split
    · intro h; cases h
    · intro h; cases h
    · intro h; cases h
/-- the unconditional direction, spelled out -/
theorem hist_none_of_neg (chk : Bool) (mp : MotionProfile F) (t : Int) (h : t < 0) : historyGet chk mp t = .ok none :=
  (hist_none_iff chk mp t).2 h
/-- before the start every accessor is absent and nothing panics -/
theorem all_absent_before_start (chk : Bool) (mp : MotionProfile F) (t : Int) (h : t < 0) :
    getPiece mp t = .beforeStart ∧ getMode mp t = none ∧ getAcceleration chk mp t = none ∧
    getVelocity chk mp t = .ok none ∧ getPosition chk mp t = .ok none ∧ historyGet chk mp t = .ok none := by
  refine ⟨(before_start_iff mp t).2 h, (mode_none_iff mp t).2 h, (acc_none_iff chk mp t).2 h, ?_, ?_,
    hist_none_of_neg chk mp t h⟩
  · simp [getVelocity, h]
  · simp [getPosition, h]

/-! ### 2. pieces occur in order and never go back -/

/-- monotone for ANY `t1, t2, t3` (ordered or not): a property of the if-chain -/
theorem piece_rank_mono (mp : MotionProfile F) (t t' : Int) (h : t ≤ t') :
    (getPiece mp t).rank ≤ (getPiece mp t').rank := by
  rcases piece_cases mp t with a | a | a | a | a <;> rcases piece_cases mp t' with b | b | b | b | b <;>
    simp only [a, b, MpPiece.rank] <;> omega

/-- … hence once complete, complete forever, and before-start only in the past -/
theorem complete_forever (mp : MotionProfile F) (t t' : Int) (h : t ≤ t') (hc : getPiece mp t = .complete) :
    getPiece mp t' = .complete := by
  have := piece_rank_mono mp t t' h
  rw [hc] at this
  cases hp : getPiece mp t' <;> simp [hp, MpPiece.rank] at this ⊢

/-- every piece that has room occurs: with `0 < t1 < t2 < t3` all five ranks are attained, in order -/
theorem pieces_in_order (mp : MotionProfile F) (h1 : 0 < mp.t1) (h2 : mp.t1 < mp.t2) (h3 : mp.t2 < mp.t3) :
    getPiece mp (-1) = .beforeStart ∧ getPiece mp 0 = .initialAcceleration ∧
    getPiece mp mp.t1 = .constantVelocity ∧ getPiece mp mp.t2 = .endAcceleration ∧ getPiece mp mp.t3 = .complete := by
  refine ⟨(before_start_iff _ _).2 (by omega), (piece_initial_iff _ _).2 (by omega),
    (piece_constant_iff _ _).2 (by omega), (piece_end_iff _ _).2 (by omega), (piece_complete_iff _ _).2 (by omega)⟩

/-! ### 3. the mode is determined by the piece -/

theorem mode_matches_piece (mp : MotionProfile F) (t : Int) :
    getMode mp t =
      match getPiece mp t with
      | .beforeStart => none
      | .initialAcceleration => some .acceleration
      | .constantVelocity => some .velocity
      | .endAcceleration => some .acceleration
      | .complete => some mp.endCommand.kind := by
  unfold getMode getPiece
  repeat' split
  all_goals first | rfl | simp_all

/-- on the three moving pieces the mode is the crate's own `TryFrom<MotionProfilePiece>` conversion -/
theorem mode_eq_toPosDer (mp : MotionProfile F) (t : Int)
    (hb : getPiece mp t ≠ .beforeStart) (hc : getPiece mp t ≠ .complete) :
    getMode mp t = (getPiece mp t).toPosDer := by
  rw [mode_matches_piece]
  cases hp : getPiece mp t <;> simp_all [MpPiece.toPosDer]

/-- … and the conversion is undefined exactly on the two pieces outside the move -/
theorem toPosDer_none_iff (mp : MotionProfile F) (t : Int) :
    (getPiece mp t).toPosDer = none ↔ (getPiece mp t = .beforeStart ∨ getPiece mp t = .complete) := by
  cases hp : getPiece mp t <;> simp [MpPiece.toPosDer]

/-! ### 4. presence of velocity and position -/

theorem endcmd_vel_some_iff (chk : Bool) (c : Command F) :
    (∃ q, c.getVelocity chk = some q) ↔ (c.kind = .position ∨ c.kind = .velocity) := by
  cases c <;> simp [Command.getVelocity, Command.kind]
theorem endcmd_pos_some_iff (chk : Bool) (c : Command F) :
    (∃ q, c.getPosition chk = some q) ↔ c.kind = .position := by
  cases c <;> simp [Command.getPosition, Command.kind]

/-- once complete, velocity is the end command's: no arithmetic, no panic, any profile value -/
theorem vel_complete (chk : Bool) (mp : MotionProfile F) (t : Int) (hc : getPiece mp t = .complete) :
    getVelocity chk mp t = .ok (mp.endCommand.getVelocity chk) := by
  obtain ⟨h0, h1, h2, h3⟩ := (piece_complete_iff mp t).1 hc
  simp [getVelocity, Int.not_lt.2 h0, Int.not_lt.2 h1, Int.not_lt.2 h2, Int.not_lt.2 h3]
theorem pos_complete (chk : Bool) (mp : MotionProfile F) (t : Int) (hc : getPiece mp t = .complete) :
    getPosition chk mp t = .ok (mp.endCommand.getPosition chk) := by
  obtain ⟨h0, h1, h2, h3⟩ := (piece_complete_iff mp t).1 hc
  simp [getPosition, Int.not_lt.2 h0, Int.not_lt.2 h1, Int.not_lt.2 h2, Int.not_lt.2 h3]

/-- for EVERY profile value: the velocity accessor answers `None` exactly before the start, or after completion
when the end command is an acceleration command. (During the move it is `Some` or a unit panic, never `None`.) -/
theorem vel_absent_iff (chk : Bool) (mp : MotionProfile F) (t : Int) :
    getVelocity chk mp t = .ok none ↔
      (t < 0 ∨ (getPiece mp t = .complete ∧ mp.endCommand.kind = .acceleration)) := by
  rcases piece_cases mp t with h | h | h | h | h
  · simp [getVelocity, h]
  · have e : getVelocity chk mp t =
        (Quantity.add chk (Quantity.mul chk mp.maxAcc (Quantity.ofTime chk t)) mp.startVel).map some := by
      simp [getVelocity, Int.not_lt.2 h.1, h.2.1]
    rw [e, h.2.2]
    cases Quantity.add chk (Quantity.mul chk mp.maxAcc (Quantity.ofTime chk t)) mp.startVel <;>
      simp [Except.map] <;> omega
  · have e : getVelocity chk mp t =
        (Quantity.add chk (Quantity.mul chk mp.maxAcc (Quantity.ofTime chk mp.t1)) mp.startVel).map some := by
      simp [getVelocity, Int.not_lt.2 h.1, Int.not_lt.2 h.2.1, h.2.2.1]
    rw [e, h.2.2.2]
    cases Quantity.add chk (Quantity.mul chk mp.maxAcc (Quantity.ofTime chk mp.t1)) mp.startVel <;>
      simp [Except.map] <;> omega
  · have e : getVelocity chk mp t =
        (Quantity.add chk (Quantity.mul chk mp.maxAcc (Quantity.ofTime chk (mp.t1 + mp.t2 - t))) mp.startVel).map some := by
      simp [getVelocity, Int.not_lt.2 h.1, Int.not_lt.2 h.2.1, Int.not_lt.2 h.2.2.1, h.2.2.2.1]
    rw [e, h.2.2.2.2]
    cases Quantity.add chk (Quantity.mul chk mp.maxAcc (Quantity.ofTime chk (mp.t1 + mp.t2 - t))) mp.startVel <;>
      simp [Except.map] <;> omega
  · rw [vel_complete chk mp t h.2.2.2.2, h.2.2.2.2]
    have h0 : ¬ t < 0 := by omega
    cases hc : mp.endCommand <;> simp [Command.getVelocity, Command.kind, h0]

/-- for a well-dimensioned profile (in particular every profile the constructor returns, `new_wf`): velocity is
present throughout the move and afterwards exactly when the end command fixes it (position or velocity command) -/
theorem vel_present_iff (chk : Bool) (mp : MotionProfile F) (hwf : WF chk mp) (t : Int) :
    (∃ q, getVelocity chk mp t = .ok (some q)) ↔
      (0 ≤ t ∧ (getPiece mp t = .complete → (mp.endCommand.kind = .position ∨ mp.endCommand.kind = .velocity))) := by
  rw [getVelocity_wf hwf t]
  unfold velOpt
  rcases piece_cases mp t with h | h | h | h | h
  · simp [h]
  · simp [h]
  · simp [h]
  · simp [h]
  · simp only [h, true_and, forall_const, Except.ok.injEq]
    exact endcmd_vel_some_iff chk mp.endCommand

/-- for EVERY profile value: the position accessor answers `None` exactly before the start, or after completion
when the end command is not a position command -/
theorem pos_absent_iff (chk : Bool) (mp : MotionProfile F) (t : Int) :
    getPosition chk mp t = .ok none ↔
      (t < 0 ∨ (getPiece mp t = .complete ∧ mp.endCommand.kind ≠ .position)) := by
  rcases piece_cases mp t with h | h | h | h | h
  · simp [getPosition, h]
  · have h0 : ¬ t < 0 := by omega
    simp only [getPosition, h0, h.2.1, if_true, if_false, h.2.2, false_or, reduceCtorEq, false_and, iff_false]
    cases add3 chk _ _ mp.startPos <;> simp [Except.map]
  · have h0 : ¬ t < 0 := by omega
    have h1 : ¬ t < mp.t1 := by omega
    simp only [getPosition, h0, h1, h.2.2.1, if_true, if_false, h.2.2.2, false_or, reduceCtorEq, false_and, iff_false]
    cases add3 chk _ _ mp.startPos <;> simp [Except.map]
  · have h0 : ¬ t < 0 := by omega
    have h1 : ¬ t < mp.t1 := by omega
    have h2 : ¬ t < mp.t2 := by omega
    simp only [getPosition, h0, h1, h2, h.2.2.2.1, if_true, if_false, h.2.2.2.2, false_or, reduceCtorEq, false_and,
      iff_false]
    split
    · simp
    · cases add3 chk _ _ mp.startPos <;> simp [Except.map]
  · rw [pos_complete chk mp t h.2.2.2.2, h.2.2.2.2]
    have h0 : ¬ t < 0 := by omega
    cases hc : mp.endCommand <;> simp [Command.getPosition, Command.kind, h0]

/-- for a well-dimensioned profile: position is present throughout the move and afterwards exactly when the end
command is a position command -/
theorem pos_present_iff (chk : Bool) (mp : MotionProfile F) (hwf : WF chk mp) (t : Int) :
    (∃ q, getPosition chk mp t = .ok (some q)) ↔
      (0 ≤ t ∧ (getPiece mp t = .complete → mp.endCommand.kind = .position)) := by
  rw [getPosition_wf hwf t]
  unfold posOpt
  rcases piece_cases mp t with h | h | h | h | h
  · simp [h]
  · simp [h]
  · simp [h]
  · simp [h]
  · simp only [h, true_and, forall_const, Except.ok.injEq]
    exact endcmd_pos_some_iff chk mp.endCommand

/-! ### 5. the history returns the matching accessor's value, stamped with `t` -/

/-- If `History::get` answers `Some d`, then the mode is present, the accessor *of that mode* answered `Some q`
at the same `t`, and `d` is literally `Datum::new(t, Command::new(mode, q.value))`: the payload is the same term
as the accessor's value (bit-identical in binary32). Any profile value. -/
theorem history_eq_accessor (chk : Bool) (mp : MotionProfile F) (t : Int) (d : Datum (Command F))
    (h : historyGet chk mp t = .ok (some d)) :
    ∃ mode q, getMode mp t = some mode ∧
      (match mode with
        | .position => getPosition chk mp t = .ok (some q)
        | .velocity => getVelocity chk mp t = .ok (some q)
        | .acceleration => getAcceleration chk mp t = some q) ∧
      d = ⟨t, Command.new mode q.value⟩ := by
  unfold historyGet at h
  cases hm : getMode mp t with
  | none => simp [hm] at h
  | some mode =>
    simp only [hm] at h
    cases mode with
    | position =>
      simp only at h
      cases hv : getPosition chk mp t with
      | error e => simp [hv] at h
      | ok o =>
        cases o with
        | none => simp [hv] at h
        | some q =>
          simp only [hv, Except.ok.injEq, Option.some.injEq] at h
          exact ⟨.position, q, rfl, by simp [hv], h.symm⟩
    | velocity =>
      simp only at h
      cases hv : getVelocity chk mp t with
      | error e => simp [hv] at h
      | ok o =>
        cases o with
        | none => simp [hv] at h
        | some q =>
          simp only [hv, Except.ok.injEq, Option.some.injEq] at h
          exact ⟨.velocity, q, rfl, by simp [hv], h.symm⟩
    | acceleration =>
      simp only at h
      cases hv : getAcceleration chk mp t with
      | none => simp [hv] at h
      | some q =>
        simp only [hv, Except.ok.injEq, Option.some.injEq] at h
        exact ⟨.acceleration, q, rfl, by simp [hv], h.symm⟩

/-- the three read-offs: time stamp, kind, raw value -/
theorem history_stamp_kind_value (chk : Bool) (mp : MotionProfile F) (t : Int) (d : Datum (Command F))
    (h : historyGet chk mp t = .ok (some d)) :
    d.time = t ∧ getMode mp t = some d.value.kind ∧
      (match d.value.kind with
        | .position => ∃ q, getPosition chk mp t = .ok (some q) ∧ q.value = d.value.raw
        | .velocity => ∃ q, getVelocity chk mp t = .ok (some q) ∧ q.value = d.value.raw
        | .acceleration => ∃ q, getAcceleration chk mp t = some q ∧ q.value = d.value.raw) := by
  obtain ⟨mode, q, hm, hacc, rfl⟩ := history_eq_accessor chk mp t d h
  refine ⟨rfl, by simp [hm, kind_new], ?_⟩
  simp only [kind_new, raw_new]
  cases mode <;> exact ⟨q, hacc, rfl⟩

/-! ### 6. well-formedness, no `expect` is ever hit, behaviour after completion -/

/-- every profile the constructor returns is well-dimensioned (both with and without dimension checking; with
checking this uses that the final `Time::try_from(t1)` succeeded, which pins `max_acc`'s unit) -/
theorem new_wf (chk : Bool) (s e : State F) (mv ma : Quantity F) (mp : MotionProfile F)
    (h : MotionProfile.new chk s e mv ma = .ok mp) : WF chk mp := MpL.new_wf h

/-- with checking on, the constructor only accepts limits in mm/s and mm/s² -/
theorem new_true_limits_units (s e : State F) (mv ma : Quantity F) (mp : MotionProfile F)
    (h : MotionProfile.new true s e mv ma = .ok mp) : mv.unit = ⟨1, -1⟩ ∧ ma.unit = ⟨1, -2⟩ := MpL.new_true_units h

/-- the end command stored by the constructor is `Command::from(end_state)`: the lowest non-zero derivative -/
theorem new_end_command (chk : Bool) (s e : State F) (mv ma : Quantity F) (mp : MotionProfile F)
    (h : MotionProfile.new chk s e mv ma = .ok mp) :
    mp.endCommand = Command.ofState e ∧
    Command.ofState e =
      (if e.acceleration == c0 then (if e.velocity == c0 then .position e.position else .velocity e.velocity)
       else .acceleration e.acceleration) := by
  obtain ⟨-, -, -, rfl⟩ := newSpec_ok (new_ok_spec h)
  exact ⟨rfl, rfl⟩

/-- the complete description of `History::get` on a well-dimensioned profile: never a panic, and
piece by piece the command it returns -/
theorem history_wf (chk : Bool) (mp : MotionProfile F) (hwf : WF chk mp) (t : Int) :
    historyGet chk mp t = .ok
      (match getPiece mp t with
        | .beforeStart => none
        | .initialAcceleration => some ⟨t, .acceleration mp.maxAcc.value⟩
        | .constantVelocity => some ⟨t, .velocity (velF mp mp.t1)⟩
        | .endAcceleration => some ⟨t, .acceleration (-mp.maxAcc.value)⟩
        | .complete => some ⟨t, mp.endCommand⟩) := by
  unfold historyGet
  rw [mode_matches_piece, getVelocity_wf hwf t, getPosition_wf hwf t]
  unfold velOpt posOpt getAcceleration
  rcases piece_cases mp t with h | h | h | h | h
  · simp [h]
  · have h0 : ¬ t < 0 := by omega
    simp [h, h0]; rfl
  · have h0 : ¬ t < 0 := by omega
    simp [h, h0]; rfl
  · have h0 : ¬ t < 0 := by omega
    have h1 : ¬ t < mp.t1 := by omega
    have h2 : ¬ t < mp.t2 := by omega
    simp [h, h0, h1, h2]; rfl
  · have h0 : ¬ t < 0 := by omega
    have h1 : ¬ t < mp.t1 := by omega
    have h2 : ¬ t < mp.t2 := by omega
    have h3 : ¬ t < mp.t3 := by omega
    simp only [h, h0, h1, h2, h3, if_false]
    cases hc : mp.endCommand <;> rfl

/-- on a well-dimensioned profile no accessor panics at any `t`: in particular none of the three `expect`s of
`History::get` is ever hit, and no unit assertion fires -/
theorem history_no_panic (chk : Bool) (mp : MotionProfile F) (hwf : WF chk mp) (t : Int) :
    (∃ r, getVelocity chk mp t = .ok r) ∧ (∃ r, getPosition chk mp t = .ok r) ∧ (∃ r, historyGet chk mp t = .ok r) :=
  ⟨⟨_, getVelocity_wf hwf t⟩, ⟨_, getPosition_wf hwf t⟩, ⟨_, history_wf chk mp hwf t⟩⟩

/-- … hence for every profile the constructor returns -/
theorem new_history_no_panic (chk : Bool) (s e : State F) (mv ma : Quantity F) (mp : MotionProfile F)
    (h : MotionProfile.new chk s e mv ma = .ok mp) (t : Int) : ∃ r, historyGet chk mp t = .ok r :=
  (history_no_panic chk mp (MpL.new_wf h) t).2.2

/-- from completion on (for ANY profile value, no well-formedness needed: no arithmetic happens) the history returns
the end command, stamped with the query time -/
theorem history_after_complete (chk : Bool) (mp : MotionProfile F) (t : Int) (hc : getPiece mp t = .complete) :
    historyGet chk mp t = .ok (some ⟨t, Command.new mp.endCommand.kind mp.endCommand.raw⟩) ∧
    historyGet chk mp t = .ok (some ⟨t, mp.endCommand⟩) := by
  rw [new_kind_raw]
  refine ⟨?_, ?_⟩ <;>
  · unfold historyGet
    rw [mode_matches_piece, vel_complete chk mp t hc, pos_complete chk mp t hc, hc]
    obtain ⟨h0, h1, h2, h3⟩ := (piece_complete_iff mp t).1 hc
    simp only [getAcceleration, Int.not_lt.2 h0, Int.not_lt.2 h1, Int.not_lt.2 h2, Int.not_lt.2 h3, if_false]
    cases hcmd : mp.endCommand <;> rfl

/-- for a constructed profile with ordered times: from `t3` onward, forever, the end state's lowest non-zero derivative -/
theorem new_history_after_complete (chk : Bool) (s e : State F) (mv ma : Quantity F) (mp : MotionProfile F)
    (h : MotionProfile.new chk s e mv ma = .ok mp) (hord : 0 ≤ mp.t1 ∧ mp.t1 ≤ mp.t2 ∧ mp.t2 ≤ mp.t3)
    (t : Int) (ht : mp.t3 ≤ t) :
    historyGet chk mp t = .ok (some ⟨t, Command.ofState e⟩) := by
  have hc := (piece_complete_iff_ordered mp t hord).2 ht
  rw [(history_after_complete chk mp t hc).2, (new_end_command chk s e mv ma mp h).1]

/-! ### 7. the constructor: panics or returns; ordered times -/

/-- `new` either returns or panics with one of: the three asserts, a unit mismatch, a failed `Time::try_from` -/
theorem new_panics_or_returns (chk : Bool) (s e : State F) (mv ma : Quantity F) :
    (∃ mp, MotionProfile.new chk s e mv ma = .ok mp) ∨
    (∃ p, MotionProfile.new chk s e mv ma = .error p ∧
      (p = .mpT1 ∨ p = .mpT3 ∨ p = .mpT2 ∨ p = .dim ∨ p = .expect)) := by
  cases h : MotionProfile.new chk s e mv ma with
  | ok mp => exact Or.inl ⟨mp, rfl⟩
  | error p => exact Or.inr ⟨p, rfl, new_err h⟩

/-- without dimension checking only the three asserts can fire -/
theorem new_false_panics (s e : State F) (mv ma : Quantity F) (p : Panic)
    (h : MotionProfile.new false s e mv ma = .error p) : p = .mpT1 ∨ p = .mpT3 ∨ p = .mpT2 := by
  rw [new_false] at h
  unfold newSpec at h
  repeat' split at h
  all_goals first | (injection h with h; simp [← h]) | cases h

/-- the stored times are the three real-valued instants, each converted by `(x * 1e9) as i64`; the three asserts
passed. (Value-level content of a successful construction.) -/
theorem new_times_values (chk : Bool) (s e : State F) (mv ma : Quantity F) (mp : MotionProfile F)
    (h : MotionProfile.new chk s e mv ma = .ok mp) :
    (c0 : F) ≤ T1 s e mv.value ma.value ∧ (c0 : F) ≤ D3 s e mv.value ma.value ∧ (c0 : F) ≤ D2 s e mv.value ma.value ∧
    mp.t1 = FloatLike.toInt (T1 s e mv.value ma.value * c1e9) ∧
    mp.t2 = FloatLike.toInt ((T1 s e mv.value ma.value + D2 s e mv.value ma.value) * c1e9) ∧
    mp.t3 = FloatLike.toInt ((T1 s e mv.value ma.value + D2 s e mv.value ma.value + D3 s e mv.value ma.value) * c1e9) := by
  obtain ⟨h1, h3, h2, rfl⟩ := newSpec_ok (new_ok_spec h)
  exact ⟨h1, h3, h2, rfl, rfl, rfl⟩

/-- **tier L**: `0 ≤ t1 ≤ t2 ≤ t3` for every returned profile, given that on the scalar
* `hmul`: multiplying by `1e9` is monotone,
* `hto`: the cast to `i64` is monotone,
* `hadd`: adding a non-negative number to a non-negative number does not decrease it,
* `htrans`: `≤` is transitive,
* `hz`: `(0.0 * 1e9) as i64 = 0`.
Each of the five holds for every IEEE binary32 value (a true `≤` excludes NaN operands) and for every ordered field
with a monotone integer cast. -/
theorem new_times_ordered (chk : Bool) (s e : State F) (mv ma : Quantity F) (mp : MotionProfile F)
    (hmul : ∀ a b : F, a ≤ b → a * c1e9 ≤ b * c1e9)
    (hto : ∀ a b : F, a ≤ b → FloatLike.toInt a ≤ FloatLike.toInt b)
    (hadd : ∀ a b : F, (c0 : F) ≤ a → (c0 : F) ≤ b → a ≤ a + b)
    (htrans : ∀ a b c : F, a ≤ b → b ≤ c → a ≤ c)
    (hz : FloatLike.toInt ((c0 : F) * c1e9) = 0)
    (h : MotionProfile.new chk s e mv ma = .ok mp) :
    0 ≤ mp.t1 ∧ mp.t1 ≤ mp.t2 ∧ mp.t2 ≤ mp.t3 := by
  obtain ⟨h1, h3, h2, e1, e2, e3⟩ := new_times_values chk s e mv ma mp h
  rw [e1, e2, e3]
  have h12 := hadd _ _ h1 h2
  refine ⟨?_, hto _ _ (hmul _ _ h12), hto _ _ (hmul _ _ (hadd _ _ (htrans _ _ _ h1 h12) h3))⟩
  rw [← hz]
  exact hto _ _ (hmul _ _ h1)

end S

/-! ### non-vacuity -/
section Examples

/-- an executable integer scalar for the tier-S examples (1 unit = 1; `c1e9 = 10⁹`) -/
local instance : FloatLike Int := ⟨id, id, fun _ _ => 1, fun x => if x < 0 then -x else x⟩

/-- a well-dimensioned profile with all five pieces: t1 = 10, t2 = 30, t3 = 40 (ns), end command: position -/
def mpI : MotionProfile Int :=
  ⟨⟨0, MILLIMETER true⟩, ⟨5, MILLIMETER_PER_SECOND true⟩, 10, 30, 40, ⟨3, MILLIMETER_PER_SECOND_SQUARED true⟩, .position 7⟩

example : WF true mpI := ⟨rfl, rfl, rfl⟩
example : 0 ≤ mpI.t1 ∧ mpI.t1 ≤ mpI.t2 ∧ mpI.t2 ≤ mpI.t3 := by decide
example : 0 < mpI.t1 ∧ mpI.t1 < mpI.t2 ∧ mpI.t2 < mpI.t3 := by decide
example : getPiece mpI 45 = .complete := by decide
example : getPiece mpI 20 ≠ .beforeStart ∧ getPiece mpI 20 ≠ .complete := by decide
example : historyGet true mpI 20 = .ok (some ⟨20, .velocity (3 * (10 / 1000000000) + 5)⟩) := by rfl
example : historyGet true mpI 45 = .ok (some ⟨45, .position 7⟩) := by rfl
/-- a profile that is NOT well-dimensioned does panic in the history (so `WF` is a real hypothesis) -/
example : historyGet true ({ mpI with startVel := ⟨5, MILLIMETER true⟩ } : MotionProfile Int) 20 = .error .dim := by rfl

/-- the test-suite's first profile (0 → 3 mm, 0.1 mm/s, 0.01 mm/s²) over `ℚ`: accepted, with t1 = 10 s, t2 = 30 s, t3 = 40 s -/
theorem new_example :
    MotionProfile.new true (⟨0, 0, 0⟩ : State ℚ) ⟨3, 0, 0⟩ ⟨1/10, ⟨1, -1⟩⟩ ⟨1/100, ⟨1, -2⟩⟩ =
      .ok ⟨⟨0, MILLIMETER true⟩, ⟨0, MILLIMETER_PER_SECOND true⟩, 10000000000, 30000000000, 40000000000,
        ⟨1/100, MILLIMETER_PER_SECOND_SQUARED true⟩, .position 3⟩ := by
  rw [new_true_good]
  have hs : sgn (⟨0, 0, 0⟩ : State ℚ) ⟨3, 0, 0⟩ = 1 := by simp [sgn, c1, FloatLike.ofInt]
  have hv : vMax (⟨0, 0, 0⟩ : State ℚ) ⟨3, 0, 0⟩ (1/10) = 1/10 := by
    simp only [vMax, hs, FloatLike.absF]; norm_num
  have ha : aMax (⟨0, 0, 0⟩ : State ℚ) ⟨3, 0, 0⟩ (1/100) = 1/100 := by
    simp only [aMax, hs, FloatLike.absF]; norm_num
  have h1 : T1 (⟨0, 0, 0⟩ : State ℚ) ⟨3, 0, 0⟩ (1/10) (1/100) = 10 := by
    simp only [T1, hv, ha]; norm_num
  have h3 : D3 (⟨0, 0, 0⟩ : State ℚ) ⟨3, 0, 0⟩ (1/10) (1/100) = 10 := by
    simp only [D3, hv, ha]; norm_num
  have h2 : D2 (⟨0, 0, 0⟩ : State ℚ) ⟨3, 0, 0⟩ (1/10) (1/100) = 20 := by
    simp only [D2, hv, h1, h3, c2, FloatLike.ofInt]; norm_num
  have hc : Command.ofState (⟨3, 0, 0⟩ : State ℚ) = .position 3 := by
    simp [Command.ofState, c0, FloatLike.ofInt]
  have i1 : FloatLike.toInt ((10 : ℚ) * c1e9) = 10000000000 := by
    simp only [c1e9, FloatLike.ofInt, FloatLike.toInt]; norm_num
  have i2 : FloatLike.toInt (((10 : ℚ) + 20) * c1e9) = 30000000000 := by
    simp only [c1e9, FloatLike.ofInt, FloatLike.toInt]; norm_num
  have i3 : FloatLike.toInt (((10 : ℚ) + 20 + 10) * c1e9) = 40000000000 := by
    simp only [c1e9, FloatLike.ofInt, FloatLike.toInt]; norm_num
  simp only [newSpec, newResult, T2, T3, h1, h2, h3, ha, hc, i1, i2, i3, c0, FloatLike.ofInt]
  norm_num

/-- the scalar hypotheses of `new_times_ordered` hold over `ℚ` with the floor cast -/
example :
    (∀ a b : ℚ, a ≤ b → a * c1e9 ≤ b * c1e9) ∧
    (∀ a b : ℚ, a ≤ b → FloatLike.toInt a ≤ FloatLike.toInt b) ∧
    (∀ a b : ℚ, (c0 : ℚ) ≤ a → (c0 : ℚ) ≤ b → a ≤ a + b) ∧
    (∀ a b c : ℚ, a ≤ b → b ≤ c → a ≤ c) ∧
    FloatLike.toInt ((c0 : ℚ) * c1e9) = 0 := by
  refine ⟨?_, ?_, ?_, fun a b c => le_trans, ?_⟩
  · intro a b h
    have : (0 : ℚ) ≤ c1e9 := by simp [c1e9, FloatLike.ofInt]
    exact mul_le_mul_of_nonneg_right h this
  · intro a b h
    show a.num / (a.den : Int) ≤ b.num / (b.den : Int)
    rw [← Rat.floor_def', ← Rat.floor_def']
    exact Int.floor_le_floor h
  · intro a b _ hb
    have : (0 : ℚ) ≤ b := by simpa [c0, FloatLike.ofInt] using hb
    linarith
  · simp [c0, c1e9, FloatLike.ofInt, FloatLike.toInt]

/-- the `new … = ok mp` hypothesis of `new_wf`, `new_end_command`, `new_history_no_panic`, `new_times_ordered`, … is met
by `new_example`; what they give for it -/
example :
    WF true (⟨⟨0, MILLIMETER true⟩, ⟨0, MILLIMETER_PER_SECOND true⟩, 10000000000, 30000000000, 40000000000,
      ⟨1/100, MILLIMETER_PER_SECOND_SQUARED true⟩, .position 3⟩ : MotionProfile ℚ) :=
  new_wf true _ _ _ _ _ new_example

end Examples
end Rrtk.Thm.C06
