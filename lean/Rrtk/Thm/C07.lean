/-
C07 — the profile is a valid trapezoid.

* Tier S (arbitrary scalar): the commanded acceleration and its sign, velocity continuity at `t1`, `t2` as identity
  of terms, the three velocity formulas as ONE formula evaluated at a tent-shaped integer time.
* Tier R (`F` an ordered field with exact `ofInt`/`absF`): closed forms, values at `t = 0`, position as the exact
  integral of velocity on each piece, the velocity bound, continuity of position at the joins, arrival at the end
  state (under the hypothesis that the stored nanosecond times are the exact real durations), acceptance of moves
  with room, and mirror symmetry for `start.position ≠ end.position` with the counterexample at equality.
  Units are carried (any `chk`, hypothesis `WF chk mp`, which `C06.new_wf` provides for every constructed profile);
  the statements are about the `.value` fields the accessors return.

NOT proved here (and not provable in exact arithmetic): the truncation of `t1, t2, t3` to whole nanoseconds and the
binary32 rounding, i.e. the "within a rounding tolerance" part of the property. The `_partial` theorems say
precisely which exactness hypothesis they use.
-/
import Rrtk.Thm.Lemmas.C06Profile
import Rrtk.Thm.Lemmas.Exact
import Rrtk.Thm.C06
import Mathlib.Algebra.Order.Ring.Abs
set_option linter.unusedSectionVars false
set_option linter.unusedSimpArgs false
namespace Rrtk.Thm.C07
open Rrtk Rrtk.Thm.MpL MotionProfile

/-! ## tier S -/
section S
variable {F : Type} [Add F] [Sub F] [Mul F] [Div F] [Neg F] [LT F] [LE F] [BEq F]
  [DecidableLT F] [DecidableLE F] [FloatLike F]

/-- commanded acceleration on the three moving pieces: `max_acc`, `0 mm/s²`, `-max_acc` (any profile value) -/
theorem acc_values (chk : Bool) (mp : MotionProfile F) (t : Int) :
    (getPiece mp t = .initialAcceleration → getAcceleration chk mp t = some mp.maxAcc) ∧
    (getPiece mp t = .constantVelocity →
      getAcceleration chk mp t = some ⟨c0, MILLIMETER_PER_SECOND_SQUARED chk⟩) ∧
    (getPiece mp t = .endAcceleration → getAcceleration chk mp t = some (Quantity.neg mp.maxAcc)) := by
  refine ⟨fun h => ?_, fun h => ?_, fun h => ?_⟩
  · obtain ⟨h0, h1⟩ := (C06.piece_initial_iff mp t).1 h
    simp [getAcceleration, Int.not_lt.2 h0, h1]
  · obtain ⟨h0, h1, h2⟩ := (C06.piece_constant_iff mp t).1 h
    simp [getAcceleration, Int.not_lt.2 h0, Int.not_lt.2 h1, h2]
  · obtain ⟨h0, h1, h2, h3⟩ := (C06.piece_end_iff mp t).1 h
    simp [getAcceleration, Int.not_lt.2 h0, Int.not_lt.2 h1, Int.not_lt.2 h2, h3]

/-- the stored `max_acc` is `|max_acc| · sign` with `sign = -1` exactly when the end position is below the start
position (so the acceleration has the sign of the displacement; `+` when the displacement is zero), in mm/s² -/
theorem acc_sign (chk : Bool) (s e : State F) (mv ma : Quantity F) (mp : MotionProfile F)
    (h : MotionProfile.new chk s e mv ma = .ok mp) :
    mp.maxAcc.value = FloatLike.absF ma.value * (if e.position < s.position then cm1 else c1) ∧
    mp.maxAcc.unit = MILLIMETER_PER_SECOND_SQUARED chk := by
  obtain ⟨-, -, -, rfl⟩ := newSpec_ok (new_ok_spec h)
  exact ⟨rfl, rfl⟩

/-- the other stored fields: start position and velocity are the start state's, verbatim -/
theorem new_start_fields (chk : Bool) (s e : State F) (mv ma : Quantity F) (mp : MotionProfile F)
    (h : MotionProfile.new chk s e mv ma = .ok mp) :
    mp.startPos = s.getPosition chk ∧ mp.startVel = s.getVelocity chk := by
  obtain ⟨-, -, -, rfl⟩ := newSpec_ok (new_ok_spec h)
  exact ⟨rfl, rfl⟩

/-- the initial-acceleration velocity formula `max_acc * t + start_vel`, as the `Quantity` code computes it -/
def velFormula (chk : Bool) (mp : MotionProfile F) (τ : Int) : Except Panic (Option (Quantity F)) :=
  (Quantity.add chk (Quantity.mul chk mp.maxAcc (Quantity.ofTime chk τ)) mp.startVel).map some

/-- the integer time at which the ONE velocity formula is evaluated: `t`, then `t1`, then `t1 + t2 - t` -/
def velArg (mp : MotionProfile F) (t : Int) : Int :=
  if t < mp.t1 then t else if t < mp.t2 then mp.t1 else mp.t1 + mp.t2 - t

/-- during the move the velocity accessor is the same formula at the tent-shaped time `velArg` (any profile value;
same term, so bit-identical) -/
theorem vel_tent (chk : Bool) (mp : MotionProfile F) (t : Int)
    (hb : getPiece mp t ≠ .beforeStart) (hc : getPiece mp t ≠ .complete) :
    getVelocity chk mp t = velFormula chk mp (velArg mp t) := by
  rcases C06.piece_cases mp t with h | h | h | h | h
  · exact absurd h.2 hb
  · simp [getVelocity, velFormula, velArg, Int.not_lt.2 h.1, h.2.1]
  · simp [getVelocity, velFormula, velArg, Int.not_lt.2 h.1, Int.not_lt.2 h.2.1, h.2.2.1]
  · simp [getVelocity, velFormula, velArg, Int.not_lt.2 h.1, Int.not_lt.2 h.2.1, Int.not_lt.2 h.2.2.1, h.2.2.2.1]
  · exact absurd h.2.2.2.2 hc

/-- the tent is 1-Lipschitz on the integer grid when `t1 ≤ t2`: from one nanosecond to the next the formula's time
argument moves by at most one nanosecond, across the joins included (no jump of velocity at `t1` or `t2`) -/
theorem velArg_step (mp : MotionProfile F) (t : Int) (h12 : mp.t1 ≤ mp.t2) :
    velArg mp (t + 1) - velArg mp t = 1 ∨ velArg mp (t + 1) - velArg mp t = 0 ∨
    velArg mp (t + 1) - velArg mp t = -1 := by
  unfold velArg
  repeat' split
  all_goals omega

/-- continuity at `t1`: the value the accessor returns AT `t1` (constant-velocity piece, or end-acceleration piece
when `t1 = t2`) is the initial-acceleration formula evaluated at `t = t1` — the same term -/
theorem vel_cont_t1 (chk : Bool) (mp : MotionProfile F)
    (h0 : 0 ≤ mp.t1) (h12 : mp.t1 ≤ mp.t2) (h13 : mp.t1 < mp.t3) :
    getVelocity chk mp mp.t1 = velFormula chk mp mp.t1 := by
  have hb : getPiece mp mp.t1 ≠ .beforeStart := by
    rw [Ne, C06.before_start_iff]; omega
  have hc : getPiece mp mp.t1 ≠ .complete := by
    rw [Ne, C06.piece_complete_iff]; omega
  rw [vel_tent chk mp _ hb hc]
  congr 1
  unfold velArg
  repeat' split
  all_goals omega

/-- continuity at `t2`: the end-acceleration formula evaluated at `t = t2` is the constant-velocity value, as the
same term (`t1 + t2 - t2 = t1` in `Int`) -/
theorem vel_cont_t2 (chk : Bool) (mp : MotionProfile F)
    (h0 : 0 ≤ mp.t1) (h12 : mp.t1 ≤ mp.t2) (h23 : mp.t2 < mp.t3) :
    getVelocity chk mp mp.t2 = velFormula chk mp mp.t1 ∧
    (∀ t, getPiece mp t = .constantVelocity → getVelocity chk mp t = velFormula chk mp mp.t1) := by
  have hb : getPiece mp mp.t2 ≠ .beforeStart := by
    rw [Ne, C06.before_start_iff]; omega
  have hc : getPiece mp mp.t2 ≠ .complete := by
    rw [Ne, C06.piece_complete_iff]; omega
  refine ⟨?_, fun t ht => ?_⟩
  · rw [vel_tent chk mp _ hb hc]
    congr 1
    unfold velArg
    repeat' split
    all_goals omega
  · rw [vel_tent chk mp t (by simp [ht]) (by simp [ht])]
    obtain ⟨_, h1, h2⟩ := (C06.piece_constant_iff mp t).1 ht
    simp [velArg, Int.not_lt.2 h1, h2]

end S

/-! ## tier R -/
section R
variable {F : Type} [Field F] [LinearOrder F] [IsStrictOrderedRing F] [FloatLike F] [ExactScalar F]

/-- seconds in `t` nanoseconds -/
def sec (t : Int) : F := (t : F) / 1000000000

theorem secF_eq (t : Int) : (secF t : F) = sec t := by
  simp only [secF, sec, ExactScalar.ofInt_eq]; push_cast; rfl
private theorem sec_zero : (sec 0 : F) = 0 := by simp [sec]
private theorem sec_add (a b : Int) : (sec (a + b) : F) = sec a + sec b := by simp only [sec]; push_cast; ring
private theorem sec_sub (a b : Int) : (sec (a - b) : F) = sec a - sec b := by simp only [sec]; push_cast; ring
private theorem sec_two_mul (a : Int) : (sec (2 * a) : F) = 2 * sec a := by simp only [sec]; push_cast; ring
private theorem sec_mono {a b : Int} (h : a ≤ b) : (sec a : F) ≤ sec b := by
  simp only [sec]
  exact div_le_div_of_nonneg_right (by exact_mod_cast h) (by norm_num)
/-- for even `t1` the truncating halving is exact -/
theorem sec_half_even (t1 : Int) (h : 2 ∣ t1) : (sec (Int.tdiv (-t1) 2) : F) = - sec t1 / 2 := by
  obtain ⟨k, rfl⟩ := h
  have : Int.tdiv (-(2 * k)) 2 = -k := by
    rw [show -(2 * k) = 2 * (-k) by ring]
    exact Int.mul_tdiv_cancel_left _ (by norm_num)
  rw [this]; simp only [sec]; push_cast; ring

/-! ### closed forms of the value-level formulas -/
theorem velF_closed (mp : MotionProfile F) (τ : Int) :
    velF mp τ = mp.startVel.value + mp.maxAcc.value * sec τ := by
  simp only [velF, secF_eq]; ring
theorem pos1F_closed (mp : MotionProfile F) (t : Int) :
    pos1F mp t = mp.startPos.value + mp.startVel.value * sec t + mp.maxAcc.value * sec t ^ 2 / 2 := by
  simp only [pos1F, secF_eq, chalf_eq]; ring
theorem pos2F_closed (mp : MotionProfile F) (t : Int) :
    pos2F mp t = mp.startPos.value + mp.startVel.value * sec t +
      mp.maxAcc.value * sec mp.t1 * (sec (Int.tdiv (-mp.t1) 2) + sec t) := by
  simp only [pos2F, secF_eq, sec_add]; ring
theorem pos3F_closed (mp : MotionProfile F) (t : Int) :
    pos3F mp t = mp.startPos.value + mp.startVel.value * sec t +
      mp.maxAcc.value * sec mp.t1 * (sec (Int.tdiv (-mp.t1) 2) + sec mp.t2) -
      mp.maxAcc.value * (sec t - sec mp.t2) * (sec t - 2 * sec mp.t1 - sec mp.t2) / 2 := by
  simp only [pos3F, secF_eq, sec_add, sec_sub, sec_two_mul, chalf_eq]; ring

/-- closed form of the velocity accessor on each moving piece: `v₀ + a·τ` with `τ = t`, `t1`, `t1 + t2 − t` (seconds) -/
theorem vel_closed_form (chk : Bool) (mp : MotionProfile F) (hwf : WF chk mp) (t : Int) :
    (getPiece mp t = .initialAcceleration → getVelocity chk mp t =
      .ok (some ⟨mp.startVel.value + mp.maxAcc.value * sec t, MILLIMETER_PER_SECOND chk⟩)) ∧
    (getPiece mp t = .constantVelocity → getVelocity chk mp t =
      .ok (some ⟨mp.startVel.value + mp.maxAcc.value * sec mp.t1, MILLIMETER_PER_SECOND chk⟩)) ∧
    (getPiece mp t = .endAcceleration → getVelocity chk mp t =
      .ok (some ⟨mp.startVel.value + mp.maxAcc.value * (sec mp.t1 + sec mp.t2 - sec t),
        MILLIMETER_PER_SECOND chk⟩)) := by
  rw [getVelocity_wf hwf t]
  unfold velOpt
  refine ⟨fun h => ?_, fun h => ?_, fun h => ?_⟩ <;> simp only [h, velF_closed, sec_add, sec_sub]

/-- closed form of the position accessor on each moving piece; `h = sec (−t1 / 2)` with the truncating `i64`
division kept explicit -/
theorem pos_closed_form (chk : Bool) (mp : MotionProfile F) (hwf : WF chk mp) (t : Int) :
    (getPiece mp t = .initialAcceleration → getPosition chk mp t =
      .ok (some ⟨mp.startPos.value + mp.startVel.value * sec t + mp.maxAcc.value * sec t ^ 2 / 2,
        MILLIMETER chk⟩)) ∧
    (getPiece mp t = .constantVelocity → getPosition chk mp t =
      .ok (some ⟨mp.startPos.value + mp.startVel.value * sec t +
        mp.maxAcc.value * sec mp.t1 * (sec (Int.tdiv (-mp.t1) 2) + sec t), MILLIMETER chk⟩)) ∧
    (getPiece mp t = .endAcceleration → getPosition chk mp t =
      .ok (some ⟨mp.startPos.value + mp.startVel.value * sec t +
        mp.maxAcc.value * sec mp.t1 * (sec (Int.tdiv (-mp.t1) 2) + sec mp.t2) -
        mp.maxAcc.value * (sec t - sec mp.t2) * (sec t - 2 * sec mp.t1 - sec mp.t2) / 2, MILLIMETER chk⟩)) := by
  rw [getPosition_wf hwf t]
  unfold posOpt
  refine ⟨fun h => ?_, fun h => ?_, fun h => ?_⟩ <;>
    simp only [h, pos1F_closed, pos2F_closed, pos3F_closed]

/-- with an even `t1` the constant-velocity piece is the textbook `p(t1) + v_max·(t − t1)` -/
theorem pos_closed_form_piece2_even (chk : Bool) (mp : MotionProfile F) (hwf : WF chk mp) (t : Int)
    (heven : 2 ∣ mp.t1) (hp : getPiece mp t = .constantVelocity) :
    getPosition chk mp t = .ok (some
      ⟨(mp.startPos.value + mp.startVel.value * sec mp.t1 + mp.maxAcc.value * sec mp.t1 ^ 2 / 2) +
        (mp.startVel.value + mp.maxAcc.value * sec mp.t1) * (sec t - sec mp.t1), MILLIMETER chk⟩) := by
  rw [(pos_closed_form chk mp hwf t).2.1 hp, sec_half_even _ heven]
  congr 3; ring

/-! ### values at `t = 0` -/
/-- the velocity at `t = 0` is the start velocity, whichever piece `t = 0` falls in (`0 ≤ t1 ≤ t2`, `0 < t3`) -/
theorem vel_at_zero (chk : Bool) (mp : MotionProfile F) (hwf : WF chk mp)
    (h1 : 0 ≤ mp.t1) (h12 : mp.t1 ≤ mp.t2) (h3 : 0 < mp.t3) :
    getVelocity chk mp 0 = .ok (some mp.startVel) := by
  have e : mp.startVel = ⟨mp.startVel.value, MILLIMETER_PER_SECOND chk⟩ := by
    rw [← hwf.2.1]
  obtain ⟨c1, c2, c3⟩ := vel_closed_form chk mp hwf 0
  rcases C06.piece_cases mp 0 with h | h | h | h | h
  · omega
  · rw [c1 h.2.2, e]; simp [sec_zero]
  · have : mp.t1 = 0 := by omega
    rw [c2 h.2.2.2, e, this]; simp [sec_zero]
  · have a1 : mp.t1 = 0 := by omega
    have a2 : mp.t2 = 0 := by omega
    rw [c3 h.2.2.2.2, e, a1, a2]; simp [sec_zero]
  · omega

/-- the position at `t = 0` is the start position -/
theorem pos_at_zero (chk : Bool) (mp : MotionProfile F) (hwf : WF chk mp)
    (h1 : 0 ≤ mp.t1) (h12 : mp.t1 ≤ mp.t2) (h3 : 0 < mp.t3) :
    getPosition chk mp 0 = .ok (some mp.startPos) := by
  have e : mp.startPos = ⟨mp.startPos.value, MILLIMETER chk⟩ := by
    rw [← hwf.1]
  obtain ⟨c1, c2, c3⟩ := pos_closed_form chk mp hwf 0
  rcases C06.piece_cases mp 0 with h | h | h | h | h
  · omega
  · rw [c1 h.2.2, e]; simp [sec_zero]
  · have : mp.t1 = 0 := by omega
    rw [c2 h.2.2.2, e, this]; simp [sec_zero]
  · have a1 : mp.t1 = 0 := by omega
    have a2 : mp.t2 = 0 := by omega
    rw [c3 h.2.2.2.2, e, a1, a2]; simp [sec_zero]
  · omega

/-! ### position is the exact integral of the (piecewise linear) velocity -/
/-- initial acceleration: for any two grid times `s`, `t` of the piece, `p(t) − p(s) = (t − s)·(v(s) + v(t))/2`
(trapezoid rule = exact integral of a linear function) -/
theorem pos_integral_piece1 (chk : Bool) (mp : MotionProfile F) (hwf : WF chk mp) (s t : Int)
    (hs : getPiece mp s = .initialAcceleration) (ht : getPiece mp t = .initialAcceleration) :
    ∃ ps pt vs vt : F,
      getPosition chk mp s = .ok (some ⟨ps, MILLIMETER chk⟩) ∧ getPosition chk mp t = .ok (some ⟨pt, MILLIMETER chk⟩) ∧
      getVelocity chk mp s = .ok (some ⟨vs, MILLIMETER_PER_SECOND chk⟩) ∧
      getVelocity chk mp t = .ok (some ⟨vt, MILLIMETER_PER_SECOND chk⟩) ∧
      pt - ps = (sec t - sec s) * (vs + vt) / 2 :=
  ⟨_, _, _, _, (pos_closed_form chk mp hwf s).1 hs, (pos_closed_form chk mp hwf t).1 ht,
    (vel_closed_form chk mp hwf s).1 hs, (vel_closed_form chk mp hwf t).1 ht, by ring⟩

/-- constant velocity: the integer halving `−t1/2` cancels in the difference -/
theorem pos_integral_piece2 (chk : Bool) (mp : MotionProfile F) (hwf : WF chk mp) (s t : Int)
    (hs : getPiece mp s = .constantVelocity) (ht : getPiece mp t = .constantVelocity) :
    ∃ ps pt vs vt : F,
      getPosition chk mp s = .ok (some ⟨ps, MILLIMETER chk⟩) ∧ getPosition chk mp t = .ok (some ⟨pt, MILLIMETER chk⟩) ∧
      getVelocity chk mp s = .ok (some ⟨vs, MILLIMETER_PER_SECOND chk⟩) ∧
      getVelocity chk mp t = .ok (some ⟨vt, MILLIMETER_PER_SECOND chk⟩) ∧
      pt - ps = (sec t - sec s) * (vs + vt) / 2 :=
  ⟨_, _, _, _, (pos_closed_form chk mp hwf s).2.1 hs, (pos_closed_form chk mp hwf t).2.1 ht,
    (vel_closed_form chk mp hwf s).2.1 hs, (vel_closed_form chk mp hwf t).2.1 ht, by ring⟩

/-- end acceleration -/
theorem pos_integral_piece3 (chk : Bool) (mp : MotionProfile F) (hwf : WF chk mp) (s t : Int)
    (hs : getPiece mp s = .endAcceleration) (ht : getPiece mp t = .endAcceleration) :
    ∃ ps pt vs vt : F,
      getPosition chk mp s = .ok (some ⟨ps, MILLIMETER chk⟩) ∧ getPosition chk mp t = .ok (some ⟨pt, MILLIMETER chk⟩) ∧
      getVelocity chk mp s = .ok (some ⟨vs, MILLIMETER_PER_SECOND chk⟩) ∧
      getVelocity chk mp t = .ok (some ⟨vt, MILLIMETER_PER_SECOND chk⟩) ∧
      pt - ps = (sec t - sec s) * (vs + vt) / 2 :=
  ⟨_, _, _, _, (pos_closed_form chk mp hwf s).2.2 hs, (pos_closed_form chk mp hwf t).2.2 ht,
    (vel_closed_form chk mp hwf s).2.2 hs, (vel_closed_form chk mp hwf t).2.2 ht, by ring⟩

/-! ### continuity of position at the joins -/
/-- at `t2`, unconditionally: the end-acceleration formula at `t = t2` equals the constant-velocity formula at `t2`
(the product term vanishes) -/
theorem pos_cont_t2 (mp : MotionProfile F) : pos3F mp mp.t2 = pos2F mp mp.t2 := by
  rw [pos3F_closed, pos2F_closed]; ring

/-- accessor form of `pos_cont_t2`: what `get_position(t2)` returns (end-acceleration piece) is the constant-velocity
formula evaluated at `t2` -/
theorem pos_cont_t2_accessor (chk : Bool) (mp : MotionProfile F) (hwf : WF chk mp)
    (hp : getPiece mp mp.t2 = .endAcceleration) :
    getPosition chk mp mp.t2 = .ok (some ⟨pos2F mp mp.t2, MILLIMETER chk⟩) := by
  rw [getPosition_wf hwf, posOpt, hp, pos_cont_t2]

/-- the exact jump of the position formulas at `t1`, for any `t1` -/
theorem pos_jump_t1 (mp : MotionProfile F) :
    pos2F mp mp.t1 - pos1F mp mp.t1 =
      mp.maxAcc.value * sec mp.t1 * (sec (Int.tdiv (-mp.t1) 2) + sec mp.t1 / 2) := by
  rw [pos1F_closed, pos2F_closed]; ring

/-- at `t1`: the formulas agree when `t1` is EVEN (then `−t1/2` is exact).
MISSING for the full claim: for odd `t1 > 0` the truncating `i64` division gives `−(t1−1)/2`, and the two formulas
differ by exactly `max_acc · t1 · 0.5 ns` (`pos_jump_t1_odd`), a genuine (tiny) discontinuity of the code. -/
theorem pos_cont_t1_partial (mp : MotionProfile F) (heven : 2 ∣ mp.t1) : pos2F mp mp.t1 = pos1F mp mp.t1 := by
  have := pos_jump_t1 mp
  rw [sec_half_even _ heven] at this
  have z : pos2F mp mp.t1 - pos1F mp mp.t1 = 0 := by rw [this]; ring
  exact sub_eq_zero.1 z

/-- accessor form: with `t1` even and a non-empty constant-velocity piece, `get_position(t1)` is the
initial-acceleration formula evaluated at `t1` -/
theorem pos_cont_t1_accessor_partial (chk : Bool) (mp : MotionProfile F) (hwf : WF chk mp) (heven : 2 ∣ mp.t1)
    (hp : getPiece mp mp.t1 = .constantVelocity) :
    getPosition chk mp mp.t1 = .ok (some ⟨pos1F mp mp.t1, MILLIMETER chk⟩) := by
  rw [getPosition_wf hwf, posOpt, hp, pos_cont_t1_partial mp heven]

/-- for odd positive `t1` the jump at `t1` is exactly `a · t1 · (0.5 ns)` -/
theorem pos_jump_t1_odd (mp : MotionProfile F) (hpos : 0 ≤ mp.t1) (hodd : ¬ 2 ∣ mp.t1) :
    pos2F mp mp.t1 - pos1F mp mp.t1 = mp.maxAcc.value * sec mp.t1 * (1 / 2000000000) := by
  rw [pos_jump_t1]
  obtain ⟨k, hk⟩ : ∃ k, mp.t1 = 2 * k + 1 := ⟨mp.t1 / 2, by omega⟩
  have hk0 : 0 ≤ k := by omega
  have : Int.tdiv (-mp.t1) 2 = -k := by
    rw [hk, Int.neg_tdiv, Int.tdiv_eq_ediv_of_nonneg (by omega)]
    omega
  rw [this, hk]
  simp only [sec]; push_cast; ring

/-! ### the velocity never leaves the hull of its corner values -/
omit [FloatLike F] [ExactScalar F] in
/-- a linear function on an interval lies between its end values -/
private theorem lin_between (v0 a lo hi x : F) (h1 : lo ≤ x) (h2 : x ≤ hi) :
    min (v0 + a * lo) (v0 + a * hi) ≤ v0 + a * x ∧ v0 + a * x ≤ max (v0 + a * lo) (v0 + a * hi) := by
  rcases le_total 0 a with ha | ha
  · have e1 : a * lo ≤ a * x := mul_le_mul_of_nonneg_left h1 ha
    have e2 : a * x ≤ a * hi := mul_le_mul_of_nonneg_left h2 ha
    exact ⟨(min_le_left _ _).trans (by linarith), le_trans (by linarith) (le_max_right _ _)⟩
  · have e1 : a * x ≤ a * lo := mul_le_mul_of_nonpos_left h1 ha
    have e2 : a * hi ≤ a * x := mul_le_mul_of_nonpos_left h2 ha
    exact ⟨(min_le_right _ _).trans (by linarith), le_trans (by linarith) (le_max_left _ _)⟩

omit [FloatLike F] [ExactScalar F] in
private theorem abs_le_of_between (p q x : F) (h1 : min p q ≤ x) (h2 : x ≤ max p q) : |x| ≤ max |p| |q| := by
  have lp : -(max |p| |q|) ≤ p := by
    have := neg_abs_le p; have := le_max_left |p| |q|; linarith
  have lq : -(max |p| |q|) ≤ q := by
    have := neg_abs_le q; have := le_max_right |p| |q|; linarith
  have up : p ≤ max |p| |q| := (le_abs_self p).trans (le_max_left _ _)
  have uq : q ≤ max |p| |q| := (le_abs_self q).trans (le_max_right _ _)
  rw [abs_le]
  constructor
  · rcases min_choice p q with h | h <;> rw [h] at h1 <;> linarith
  · rcases max_choice p q with h | h <;> rw [h] at h2 <;> linarith

/-- with ordered times: on pieces 1–2 `|v(t)| ≤ max |v₀| |v₀ + a·t1|`; on piece 3 `v(t)` lies between
`v₀ + a·t1` (the cruise velocity) and `v₀ + a·(t1 + t2 − t3)` (the value the formula reaches at `t3`) -/
theorem vel_bound (chk : Bool) (mp : MotionProfile F) (hwf : WF chk mp)
    (hord : 0 ≤ mp.t1 ∧ mp.t1 ≤ mp.t2 ∧ mp.t2 ≤ mp.t3) (t : Int) (ht0 : 0 ≤ t) (ht3 : t < mp.t3) :
    ∃ v : F, getVelocity chk mp t = .ok (some ⟨v, MILLIMETER_PER_SECOND chk⟩) ∧
      (t < mp.t2 → |v| ≤ max |mp.startVel.value| |mp.startVel.value + mp.maxAcc.value * sec mp.t1|) ∧
      (mp.t2 ≤ t →
        min (mp.startVel.value + mp.maxAcc.value * sec mp.t1)
            (mp.startVel.value + mp.maxAcc.value * sec (mp.t1 + mp.t2 - mp.t3)) ≤ v ∧
        v ≤ max (mp.startVel.value + mp.maxAcc.value * sec mp.t1)
            (mp.startVel.value + mp.maxAcc.value * sec (mp.t1 + mp.t2 - mp.t3))) := by
  obtain ⟨c1, c2, c3⟩ := vel_closed_form chk mp hwf t
  have hv0 : mp.startVel.value = mp.startVel.value + mp.maxAcc.value * sec 0 := by simp [sec_zero]
  rcases C06.piece_cases mp t with h | h | h | h | h
  · omega
  · refine ⟨_, c1 h.2.2, fun _ => ?_, fun _ => by omega⟩
    have := lin_between mp.startVel.value mp.maxAcc.value (sec 0) (sec mp.t1) (sec t) (sec_mono h.1) (sec_mono (le_of_lt h.2.1))
    have b := abs_le_of_between _ _ _ this.1 this.2
    rwa [← hv0] at b
  · refine ⟨_, c2 h.2.2.2, fun _ => le_max_right _ _, fun _ => by omega⟩
  · refine ⟨_, c3 h.2.2.2.2, fun _ => by omega, fun _ => ?_⟩
    have hx : (sec mp.t1 + sec mp.t2 - sec t : F) = sec (mp.t1 + mp.t2 - t) := by rw [sec_sub, sec_add]
    rw [hx]
    have := lin_between mp.startVel.value mp.maxAcc.value (sec (mp.t1 + mp.t2 - mp.t3)) (sec mp.t1) (sec (mp.t1 + mp.t2 - t))
      (sec_mono (by omega)) (sec_mono (by omega))
    rw [min_comm, max_comm]
    exact this
  · omega

/-- hence on the whole move `|v(t)|` is at most the largest of the three corner speeds -/
theorem vel_bound_abs (chk : Bool) (mp : MotionProfile F) (hwf : WF chk mp)
    (hord : 0 ≤ mp.t1 ∧ mp.t1 ≤ mp.t2 ∧ mp.t2 ≤ mp.t3) (t : Int) (ht0 : 0 ≤ t) (ht3 : t < mp.t3) :
    ∃ v : F, getVelocity chk mp t = .ok (some ⟨v, MILLIMETER_PER_SECOND chk⟩) ∧
      |v| ≤ max (max |mp.startVel.value| |mp.startVel.value + mp.maxAcc.value * sec mp.t1|)
        |mp.startVel.value + mp.maxAcc.value * sec (mp.t1 + mp.t2 - mp.t3)| := by
  obtain ⟨v, hv, b12, b3⟩ := vel_bound chk mp hwf hord t ht0 ht3
  refine ⟨v, hv, ?_⟩
  rcases lt_or_ge t mp.t2 with h | h
  · exact (b12 h).trans (le_max_left _ _)
  · obtain ⟨l, u⟩ := b3 h
    exact (abs_le_of_between _ _ _ l u).trans (max_le_max (le_max_right _ _) (le_refl _))

/-! ### the constructor's signed quantities -/
theorem sgn_cases (s e : State F) :
    (e.position < s.position ∧ sgn s e = -1) ∨ (¬ e.position < s.position ∧ sgn s e = 1) := by
  unfold sgn
  by_cases h : e.position < s.position <;> simp [h]
private theorem sgn_ne_zero (s e : State F) : sgn s e ≠ 0 := by
  rcases sgn_cases s e with h | h <;> rw [h.2] <;> norm_num
private theorem vMax_eq (s e : State F) (mv : F) : vMax s e mv = |mv| * sgn s e := by
  simp only [vMax, ExactScalar.absF_eq]
private theorem aMax_eq (s e : State F) (ma : F) : aMax s e ma = |ma| * sgn s e := by
  simp only [aMax, ExactScalar.absF_eq]
private theorem aMax_ne_zero (s e : State F) (ma : F) (h : ma ≠ 0) : aMax s e ma ≠ 0 := by
  rw [aMax_eq]; exact mul_ne_zero (abs_ne_zero.2 h) (sgn_ne_zero s e)
private theorem vMax_ne_zero (s e : State F) (mv : F) (h : mv ≠ 0) : vMax s e mv ≠ 0 := by
  rw [vMax_eq]; exact mul_ne_zero (abs_ne_zero.2 h) (sgn_ne_zero s e)

/-! ### arrival at the end state -/
/-- **arrival, velocity.** Full claim: `v(t3⁻) = v_end`. Proved under the hypothesis that the stored integer
nanosecond times reproduce the real-valued durations exactly: `sec t1 = T1` and `sec t3 − sec t2 = D3`
(`T1 = (v_max − v₀)/a`, `D3 = (v_end − v_max)/(−a)` with the signed `v_max`, `a` that `new` computes), and `max_acc ≠ 0`.
MISSING: `t1..t3` are truncated to whole ns by `as i64`, so in general the equality holds only up to
`|a|·1 ns` (plus binary32 rounding); that error bound is tested, not proved. -/
theorem arrival_vel_partial (chk : Bool) (s e : State F) (mv ma : Quantity F) (mp : MotionProfile F)
    (h : MotionProfile.new chk s e mv ma = .ok mp) (hma : ma.value ≠ 0)
    (hex1 : (sec mp.t1 : F) = T1 s e mv.value ma.value)
    (hex3 : (sec mp.t3 : F) - sec mp.t2 = D3 s e mv.value ma.value) :
    velF mp (mp.t1 + mp.t2 - mp.t3) = e.velocity := by
  obtain ⟨-, -, -, hmp⟩ := newSpec_ok (new_ok_spec h)
  have hA : mp.maxAcc.value = aMax s e ma.value := by rw [hmp]; rfl
  have hv0 : mp.startVel.value = s.velocity := by rw [hmp]; rfl
  have hne := aMax_ne_zero s e ma.value hma
  rw [velF_closed, sec_sub, sec_add, hA, hv0]
  have : (sec mp.t1 : F) + sec mp.t2 - sec mp.t3 = T1 s e mv.value ma.value - D3 s e mv.value ma.value := by
    rw [← hex1, ← hex3]; ring
  rw [this]
  unfold T1 D3
  generalize aMax s e ma.value = A at hne
  generalize vMax s e mv.value = V
  field_simp
  ring

/-- **arrival, position.** Full claim: `p(t3⁻) = p_end`. Proved under: `sec t1 = T1`, `sec t2 = T2`, `sec t3 = T3`
(stored times are the exact real instants), `t1` even (so the integer halving is exact), `max_vel ≠ 0`, `max_acc ≠ 0`.
MISSING: truncation to ns / the odd-`t1` half-nanosecond / binary32 rounding (tested, not proved). -/
theorem arrival_pos_partial (chk : Bool) (s e : State F) (mv ma : Quantity F) (mp : MotionProfile F)
    (h : MotionProfile.new chk s e mv ma = .ok mp) (hmv : mv.value ≠ 0) (hma : ma.value ≠ 0)
    (heven : 2 ∣ mp.t1)
    (hex1 : (sec mp.t1 : F) = T1 s e mv.value ma.value)
    (hex2 : (sec mp.t2 : F) = T2 s e mv.value ma.value)
    (hex3 : (sec mp.t3 : F) = T3 s e mv.value ma.value) :
    pos3F mp mp.t3 = e.position := by
  obtain ⟨-, -, -, hmp⟩ := newSpec_ok (new_ok_spec h)
  have hA : mp.maxAcc.value = aMax s e ma.value := by rw [hmp]; rfl
  have hv0 : mp.startVel.value = s.velocity := by rw [hmp]; rfl
  have hp0 : mp.startPos.value = s.position := by rw [hmp]; rfl
  have hne := aMax_ne_zero s e ma.value hma
  have hnv := vMax_ne_zero s e mv.value hmv
  rw [pos3F_closed, sec_half_even _ heven, hA, hv0, hp0, hex1, hex2, hex3]
  unfold T3 T2 D2 T1 D3
  simp only [c2_eq]
  generalize aMax s e ma.value = A at hne
  generalize vMax s e mv.value = V at hnv
  field_simp
  ring

/-- **speed limit.** Full claim: during the move `|v(t)| ≤ max(|v₀|, |max_vel|, |v_end|)`. Proved under ordered times and
the same exactness hypotheses as `arrival_vel_partial` (then the corner values of `vel_bound` are exactly `v₀`,
`±|max_vel|`, `v_end`). MISSING: truncation of the times to ns and binary32 rounding. -/
theorem vel_bound_limits_partial (chk : Bool) (s e : State F) (mv ma : Quantity F) (mp : MotionProfile F)
    (h : MotionProfile.new chk s e mv ma = .ok mp) (hma : ma.value ≠ 0)
    (hord : 0 ≤ mp.t1 ∧ mp.t1 ≤ mp.t2 ∧ mp.t2 ≤ mp.t3)
    (hex1 : (sec mp.t1 : F) = T1 s e mv.value ma.value)
    (hex3 : (sec mp.t3 : F) - sec mp.t2 = D3 s e mv.value ma.value)
    (t : Int) (ht0 : 0 ≤ t) (ht3 : t < mp.t3) :
    ∃ v : F, getVelocity chk mp t = .ok (some ⟨v, MILLIMETER_PER_SECOND chk⟩) ∧
      |v| ≤ max (max |s.velocity| |mv.value|) |e.velocity| := by
  obtain ⟨v, hv, hb⟩ := vel_bound_abs chk mp (MpL.new_wf h) hord t ht0 ht3
  refine ⟨v, hv, ?_⟩
  obtain ⟨-, -, -, hmp⟩ := newSpec_ok (new_ok_spec h)
  have hA : mp.maxAcc.value = aMax s e ma.value := by rw [hmp]; rfl
  have hv0 : mp.startVel.value = s.velocity := by rw [hmp]; rfl
  have hne := aMax_ne_zero s e ma.value hma
  have c3 : mp.startVel.value + mp.maxAcc.value * sec (mp.t1 + mp.t2 - mp.t3) = e.velocity := by
    rw [← velF_closed]; exact arrival_vel_partial chk s e mv ma mp h hma hex1 hex3
  have c2 : mp.startVel.value + mp.maxAcc.value * sec mp.t1 = vMax s e mv.value := by
    rw [hA, hv0, hex1]; unfold T1; field_simp; ring
  have habs : |vMax s e mv.value| = |mv.value| := by
    rw [vMax_eq, abs_mul, abs_abs]
    rcases sgn_cases s e with hs | hs <;> rw [hs.2] <;> simp
  rw [c3, c2, habs, hv0] at hb
  exact hb

section
variable {F' : Type} [Add F'] [Sub F'] [Mul F'] [Div F'] [Neg F'] [LT F'] [LE F'] [BEq F']
  [DecidableLT F'] [DecidableLE F'] [FloatLike F']
/-- (tier S) when the end state is at rest (`acceleration == 0`, `velocity == 0`) the accessors AT and after
completion return the end position and zero velocity exactly, whatever the rounding of the times -/
theorem arrival_exact_when_end_at_rest (chk : Bool) (s e : State F') (mv ma : Quantity F') (mp : MotionProfile F')
    (h : MotionProfile.new chk s e mv ma = .ok mp)
    (ha : (e.acceleration == c0) = true) (hv : (e.velocity == c0) = true)
    (t : Int) (hc : getPiece mp t = .complete) :
    getPosition chk mp t = .ok (some ⟨e.position, MILLIMETER chk⟩) ∧
    getVelocity chk mp t = .ok (some ⟨c0, MILLIMETER_PER_SECOND chk⟩) := by
  have hec := (C06.new_end_command chk s e mv ma mp h).1
  have : Command.ofState e = .position e.position := by simp [Command.ofState, ha, hv]
  rw [this] at hec
  rw [C06.pos_complete chk mp t hc, C06.vel_complete chk mp t hc, hec]
  exact ⟨rfl, rfl⟩
end

/-! ### acceptance -/
/-- **a move with room is accepted.** With `max_vel ≠ 0`, `max_acc ≠ 0`, start and end speeds within `|max_vel|`, and
`|Δp| ≥ |d_acc| + |d_dec|` (the acceleration and deceleration distances exactly as `new` computes them, signs
included), none of the three asserts fires: the value-level constructor returns, and so does `new` itself without
dimension checking (any units) and with dimension checking for limits in mm/s and mm/s².
The hypothesis `hmv : mv ≠ 0` was ADDED after an audit: without it the statement is still true in a field, but at
`mv = 0` only because a field has `x / 0 = 0` (`d_t2 = … / max_vel`), whereas the Rust computes `0.0 / 0.0 = NaN`
and the third assert panics; a field says nothing about that case, so it is excluded.  With `hmv` and `hma` the two
divisors of the constructor are non-zero (first conjunct), so every division in it is a genuine one. -/
theorem accepted_when_room (s e : State F) (mv ma : F) (hmv : mv ≠ 0) (hma : ma ≠ 0)
    (hv0 : |s.velocity| ≤ |mv|) (hve : |e.velocity| ≤ |mv|)
    (hroom : |(s.velocity + vMax s e mv) / 2 * T1 s e mv ma| + |(vMax s e mv + e.velocity) / 2 * D3 s e mv ma|
      ≤ |e.position - s.position|) :
    (vMax s e mv ≠ 0 ∧ aMax s e ma ≠ 0) ∧
    ((0 : F) ≤ T1 s e mv ma ∧ (0 : F) ≤ D3 s e mv ma ∧ (0 : F) ≤ D2 s e mv ma) ∧
    (∀ chk, newSpec chk s e mv ma = .ok (newResult chk s e mv ma)) ∧
    (∀ u u' : DUnit, MotionProfile.new false s e ⟨mv, u⟩ ⟨ma, u'⟩ = .ok (newResult false s e mv ma)) ∧
    MotionProfile.new true s e ⟨mv, ⟨1, -1⟩⟩ ⟨ma, ⟨1, -2⟩⟩ = .ok (newResult true s e mv ma) := by
  have hpos : 0 < |ma| := abs_pos.2 hma
  obtain ⟨l0, u0⟩ := abs_le.1 hv0
  obtain ⟨le, ue⟩ := abs_le.1 hve
  have k1 : (0 : F) ≤ T1 s e mv ma := by
    unfold T1
    rw [vMax_eq, aMax_eq]
    rcases sgn_cases s e with ⟨_, hs⟩ | ⟨_, hs⟩ <;> rw [hs]
    · exact div_nonneg_of_nonpos (by linarith) (by linarith)
    · exact div_nonneg (by linarith) (by linarith)
  have k3 : (0 : F) ≤ D3 s e mv ma := by
    unfold D3
    rw [vMax_eq, aMax_eq]
    rcases sgn_cases s e with ⟨_, hs⟩ | ⟨_, hs⟩ <;> rw [hs]
    · exact div_nonneg (by linarith) (by linarith)
    · exact div_nonneg_of_nonpos (by linarith) (by linarith)
  have k2 : (0 : F) ≤ D2 s e mv ma := by
    unfold D2
    simp only [c2_eq]
    set d1 := (s.velocity + vMax s e mv) / 2 * T1 s e mv ma with hd1
    set d3 := (vMax s e mv + e.velocity) / 2 * D3 s e mv ma with hd3
    have a1 := abs_le.1 (le_refl |d1|)
    have a3 := abs_le.1 (le_refl |d3|)
    have hmvn : 0 ≤ |mv| := abs_nonneg mv
    rw [vMax_eq]
    rcases sgn_cases s e with ⟨hlt, hs⟩ | ⟨hlt, hs⟩ <;> rw [hs]
    · have : |e.position - s.position| = -(e.position - s.position) := abs_of_neg (by linarith)
      rw [this] at hroom
      exact div_nonneg_of_nonpos (by linarith) (by linarith)
    · have : |e.position - s.position| = e.position - s.position := abs_of_nonneg (by linarith [not_lt.1 hlt])
      rw [this] at hroom
      exact div_nonneg (by linarith) (by linarith)
  have hspec : ∀ chk, newSpec chk s e mv ma = .ok (newResult chk s e mv ma) := by
    intro chk
    simp only [newSpec, c0_eq, k1, k3, k2, not_true_eq_false, if_false]
  exact ⟨⟨vMax_ne_zero s e mv hmv, aMax_ne_zero s e ma hma⟩, ⟨k1, k3, k2⟩, hspec,
    fun u u' => by rw [new_false]; exact hspec false, by rw [new_true_good]; exact hspec true⟩

/-! ### mirror symmetry -/
/-- the mirrored profile: positions, velocities and accelerations negated, times kept -/
def negProfile (mp : MotionProfile F) : MotionProfile F :=
  ⟨Quantity.neg mp.startPos, Quantity.neg mp.startVel, mp.t1, mp.t2, mp.t3, Quantity.neg mp.maxAcc,
    Command.neg mp.endCommand⟩

theorem sgn_neg (s e : State F) (hne : s.position ≠ e.position) :
    sgn (State.neg s) (State.neg e) = - sgn s e := by
  simp only [sgn, State.neg, cm1_eq, c1_eq, neg_lt_neg_iff]
  rcases lt_trichotomy e.position s.position with h | h | h
  · simp [h, not_lt.2 (le_of_lt h)]
  · exact absurd h.symm hne
  · simp [h, not_lt.2 (le_of_lt h)]
private theorem vMax_neg (s e : State F) (mv : F) (hne : s.position ≠ e.position) :
    vMax (State.neg s) (State.neg e) mv = - vMax s e mv := by
  simp only [vMax, sgn_neg s e hne, mul_neg]
private theorem aMax_neg (s e : State F) (ma : F) (hne : s.position ≠ e.position) :
    aMax (State.neg s) (State.neg e) ma = - aMax s e ma := by
  simp only [aMax, sgn_neg s e hne, mul_neg]
private theorem T1_neg (s e : State F) (mv ma : F) (hne : s.position ≠ e.position) :
    T1 (State.neg s) (State.neg e) mv ma = T1 s e mv ma := by
  simp only [T1, vMax_neg s e mv hne, aMax_neg s e ma hne]
  rw [show (-vMax s e mv - (State.neg s).velocity) = -(vMax s e mv - s.velocity) by simp only [State.neg]; ring,
    neg_div_neg_eq]
private theorem D3_neg (s e : State F) (mv ma : F) (hne : s.position ≠ e.position) :
    D3 (State.neg s) (State.neg e) mv ma = D3 s e mv ma := by
  simp only [D3, vMax_neg s e mv hne, aMax_neg s e ma hne]
  rw [show ((State.neg e).velocity - -vMax s e mv) = -(e.velocity - vMax s e mv) by simp only [State.neg]; ring,
    neg_div_neg_eq]
private theorem D2_neg (s e : State F) (mv ma : F) (hne : s.position ≠ e.position) :
    D2 (State.neg s) (State.neg e) mv ma = D2 s e mv ma := by
  simp only [D2, T1_neg s e mv ma hne, D3_neg s e mv ma hne, vMax_neg s e mv hne]
  rw [show ((State.neg e).position - (State.neg s).position -
        (((State.neg s).velocity + -vMax s e mv) / c2 * T1 s e mv ma +
          (-vMax s e mv + (State.neg e).velocity) / c2 * D3 s e mv ma)) =
      -((e.position - s.position) -
        ((s.velocity + vMax s e mv) / c2 * T1 s e mv ma + (vMax s e mv + e.velocity) / c2 * D3 s e mv ma)) by
    simp only [State.neg]; ring, neg_div_neg_eq]
theorem ofState_neg (e : State F) : Command.ofState (State.neg e) = Command.neg (Command.ofState e) := by
  simp only [Command.ofState, State.neg, c0_eq]
  by_cases ha : e.acceleration = 0 <;> by_cases hv : e.velocity = 0 <;> simp [ha, hv, Command.neg]

theorem newResult_neg (chk : Bool) (s e : State F) (mv ma : F) (hne : s.position ≠ e.position) :
    newResult chk (State.neg s) (State.neg e) mv ma = negProfile (newResult chk s e mv ma) := by
  simp only [newResult, negProfile, T2, T3, T1_neg s e mv ma hne, D3_neg s e mv ma hne, D2_neg s e mv ma hne,
    aMax_neg s e ma hne, ofState_neg]
  rfl

theorem newSpec_neg (chk : Bool) (s e : State F) (mv ma : F) (hne : s.position ≠ e.position) :
    newSpec chk (State.neg s) (State.neg e) mv ma = (newSpec chk s e mv ma).map negProfile := by
  simp only [newSpec, T1_neg s e mv ma hne, D3_neg s e mv ma hne, D2_neg s e mv ma hne,
    newResult_neg chk s e mv ma hne]
  repeat' split
  all_goals rfl

/-- **mirror symmetry of the constructor**, for `start.position ≠ end.position`: negating both states yields the
profile with the same `t1, t2, t3` and negated `start_pos`, `start_vel`, `max_acc`, end command; without dimension
checking even the panics coincide.
MISSING for the full claim ("negating all positions and velocities negates every output"): the case
`start.position = end.position`, where the claim is FALSE for the code (`mirror_fails_at_equal_positions`): `sign` is
`+1` for a move and for its mirror. -/
theorem mirror_partial (chk : Bool) (s e : State F) (mv ma : Quantity F) (mp : MotionProfile F)
    (hne : s.position ≠ e.position) (h : MotionProfile.new chk s e mv ma = .ok mp) :
    MotionProfile.new chk (State.neg s) (State.neg e) mv ma = .ok (negProfile mp) := by
  have hs := new_ok_spec h
  have hm : newSpec chk (State.neg s) (State.neg e) mv.value ma.value = .ok (negProfile mp) := by
    rw [newSpec_neg chk s e _ _ hne, hs]; rfl
  cases chk with
  | false => rw [new_false]; exact hm
  | true =>
    obtain ⟨h1, h2⟩ := new_true_units h
    obtain ⟨mvv, mvu⟩ := mv
    obtain ⟨mav, mau⟩ := ma
    simp only at h1 h2
    subst h1 h2
    rw [new_true_good]; exact hm

theorem mirror_false_partial (s e : State F) (mv ma : Quantity F) (hne : s.position ≠ e.position) :
    MotionProfile.new false (State.neg s) (State.neg e) mv ma =
      (MotionProfile.new false s e mv ma).map negProfile := by
  rw [new_false, new_false, newSpec_neg false s e _ _ hne]

/-! #### every accessor of the mirrored profile is the negation -/
theorem negProfile_wf (chk : Bool) (mp : MotionProfile F) (hwf : WF chk mp) : WF chk (negProfile mp) := hwf
theorem negProfile_piece (mp : MotionProfile F) (t : Int) : getPiece (negProfile mp) t = getPiece mp t := rfl
theorem negProfile_mode (mp : MotionProfile F) (t : Int) : getMode (negProfile mp) t = getMode mp t := by
  have : (Command.neg mp.endCommand).kind = mp.endCommand.kind := by cases mp.endCommand <;> rfl
  simp only [getMode, negProfile, this]
private theorem velF_neg (mp : MotionProfile F) (τ : Int) : velF (negProfile mp) τ = - velF mp τ := by
  simp only [velF, negProfile, Quantity.neg]; ring
private theorem pos1F_neg (mp : MotionProfile F) (t : Int) : pos1F (negProfile mp) t = - pos1F mp t := by
  simp only [pos1F, negProfile, Quantity.neg]; ring
private theorem pos2F_neg (mp : MotionProfile F) (t : Int) : pos2F (negProfile mp) t = - pos2F mp t := by
  simp only [pos2F, negProfile, Quantity.neg]; ring
private theorem pos3F_neg (mp : MotionProfile F) (t : Int) : pos3F (negProfile mp) t = - pos3F mp t := by
  simp only [pos3F, negProfile, Quantity.neg]; ring

theorem mirror_acceleration (chk : Bool) (mp : MotionProfile F) (t : Int) :
    getAcceleration chk (negProfile mp) t = (getAcceleration chk mp t).map Quantity.neg := by
  have hz : (⟨c0, MILLIMETER_PER_SECOND_SQUARED chk⟩ : Quantity F) =
      Quantity.neg ⟨c0, MILLIMETER_PER_SECOND_SQUARED chk⟩ := by simp [Quantity.neg]
  have hc : (Command.neg mp.endCommand).getAcceleration chk = Quantity.neg (mp.endCommand.getAcceleration chk) := by
    cases mp.endCommand <;> simp [Command.neg, Command.getAcceleration, Quantity.neg]
  unfold getAcceleration
  by_cases h0 : t < 0
  · simp [h0]
  by_cases h1 : t < mp.t1
  · simp [h0, h1, negProfile]
  by_cases h2 : t < mp.t2
  · simp [h0, h1, h2, negProfile, Quantity.neg]
  by_cases h3 : t < mp.t3
  · simp [h0, h1, h2, h3, negProfile]
  · simp [h0, h1, h2, h3, negProfile, hc]

theorem mirror_velocity (chk : Bool) (mp : MotionProfile F) (hwf : WF chk mp) (t : Int) :
    getVelocity chk (negProfile mp) t = (getVelocity chk mp t).map (Option.map Quantity.neg) := by
  rw [getVelocity_wf (negProfile_wf chk mp hwf), getVelocity_wf hwf]
  simp only [velOpt, negProfile_piece, velF_neg]
  have hc : (Command.neg mp.endCommand).getVelocity chk = (mp.endCommand.getVelocity chk).map Quantity.neg := by
    cases mp.endCommand <;> simp [Command.neg, Command.getVelocity, Quantity.neg]
  cases getPiece mp t <;> simp [Except.map, Quantity.neg, negProfile, hc]

theorem mirror_position (chk : Bool) (mp : MotionProfile F) (hwf : WF chk mp) (t : Int) :
    getPosition chk (negProfile mp) t = (getPosition chk mp t).map (Option.map Quantity.neg) := by
  rw [getPosition_wf (negProfile_wf chk mp hwf), getPosition_wf hwf]
  simp only [posOpt, negProfile_piece, pos1F_neg, pos2F_neg, pos3F_neg]
  have hc : (Command.neg mp.endCommand).getPosition chk = (mp.endCommand.getPosition chk).map Quantity.neg := by
    cases mp.endCommand <;> simp [Command.neg, Command.getPosition, Quantity.neg]
  cases getPiece mp t <;> simp [Except.map, Quantity.neg, negProfile, hc]

theorem mirror_history (chk : Bool) (mp : MotionProfile F) (hwf : WF chk mp) (t : Int) :
    historyGet chk (negProfile mp) t =
      (historyGet chk mp t).map (Option.map (fun d => ⟨d.time, Command.neg d.value⟩)) := by
  rw [C06.history_wf chk _ (negProfile_wf chk mp hwf), C06.history_wf chk mp hwf]
  simp only [negProfile_piece, velF_neg]
  cases getPiece mp t <;> simp [Except.map, Command.neg, negProfile, Quantity.neg]

end R

/-! ## non-vacuity and the counterexample at `start.position = end.position` -/
section Examples
open Rrtk.Thm.C06 in
/-- the test-suite profile 0 → 3 mm over `ℚ` (from `C06.new_example`): all hypotheses used above are satisfiable -/
def mpQ : MotionProfile ℚ :=
  ⟨⟨0, MILLIMETER true⟩, ⟨0, MILLIMETER_PER_SECOND true⟩, 10000000000, 30000000000, 40000000000,
    ⟨1/100, MILLIMETER_PER_SECOND_SQUARED true⟩, .position 3⟩

example : MotionProfile.new true (⟨0, 0, 0⟩ : State ℚ) ⟨3, 0, 0⟩ ⟨1/10, ⟨1, -1⟩⟩ ⟨1/100, ⟨1, -2⟩⟩ = .ok mpQ :=
  C06.new_example
example : WF true mpQ := ⟨rfl, rfl, rfl⟩
example : 0 ≤ mpQ.t1 ∧ mpQ.t1 ≤ mpQ.t2 ∧ mpQ.t2 ≤ mpQ.t3 ∧ 0 < mpQ.t3 ∧ (2 : Int) ∣ mpQ.t1 := by
  simp only [mpQ]; refine ⟨by norm_num, by norm_num, by norm_num, by norm_num, by norm_num⟩
example : getPiece mpQ 5 = .initialAcceleration ∧ getPiece mpQ 7 = .initialAcceleration ∧
    getPiece mpQ 10000000000 = .constantVelocity ∧ getPiece mpQ 20000000000 = .constantVelocity ∧
    getPiece mpQ 30000000000 = .endAcceleration ∧ getPiece mpQ 35000000000 = .endAcceleration ∧
    getPiece mpQ 40000000000 = .complete := by decide
/-- the exactness hypotheses of the arrival theorems hold for this profile: 10 s, 30 s, 40 s are whole nanoseconds -/
example : (sec mpQ.t1 : ℚ) = 10 ∧ (sec mpQ.t2 : ℚ) = 30 ∧ (sec mpQ.t3 : ℚ) = 40 := by
  simp only [sec, mpQ]; norm_num
/-- `accepted_when_room`'s hypotheses at the same inputs: distances 0.5 + 0.5 ≤ 3 -/
example : (1/10 : ℚ) ≠ 0 ∧ (1/100 : ℚ) ≠ 0 ∧ |(0 : ℚ)| ≤ |(1/10 : ℚ)| := by norm_num

/-- evaluating the value-level constructor from its intermediate values (tier S) -/
private theorem newSpec_of_values {F : Type} [Add F] [Sub F] [Mul F] [Div F] [Neg F] [LT F] [LE F] [BEq F]
    [DecidableLT F] [DecidableLE F] [FloatLike F]
    (chk : Bool) (s e : State F) (mv ma : F) {v a t1 d3 d2 : F}
    (hv : vMax s e mv = v) (ha : aMax s e ma = a)
    (h1 : (v - s.velocity) / a = t1) (h3 : (e.velocity - v) / (-a) = d3)
    (h2 : ((e.position - s.position) - ((s.velocity + v) / c2 * t1 + (v + e.velocity) / c2 * d3)) / v = d2)
    (p1 : (c0 : F) ≤ t1) (p3 : (c0 : F) ≤ d3) (p2 : (c0 : F) ≤ d2) :
    newSpec chk s e mv ma = .ok ⟨⟨s.position, MILLIMETER chk⟩, ⟨s.velocity, MILLIMETER_PER_SECOND chk⟩,
      FloatLike.toInt (t1 * c1e9), FloatLike.toInt ((t1 + d2) * c1e9), FloatLike.toInt ((t1 + d2 + d3) * c1e9),
      ⟨a, MILLIMETER_PER_SECOND_SQUARED chk⟩, Command.ofState e⟩ := by
  have e1 : T1 s e mv ma = t1 := by simp only [T1, hv, ha, h1]
  have e3 : D3 s e mv ma = d3 := by simp only [D3, hv, ha, h3]
  have e2 : D2 s e mv ma = d2 := by simp only [D2, hv, e1, e3, h2]
  simp only [newSpec, newResult, T2, T3, e1, e2, e3, ha, p1, p2, p3, not_true_eq_false, if_false]

/-- the zero-displacement "move" of finding F5 and its mirror image -/
def sF5 : State ℚ := ⟨0, 1/10, 0⟩
def sF5m : State ℚ := ⟨0, -1/10, 0⟩
def mpF5 : MotionProfile ℚ :=
  ⟨⟨0, MILLIMETER false⟩, ⟨1/10, MILLIMETER_PER_SECOND false⟩, 0, 0, 0,
    ⟨1/100, MILLIMETER_PER_SECOND_SQUARED false⟩, .velocity (1/10)⟩
def mpF5m : MotionProfile ℚ :=
  ⟨⟨0, MILLIMETER false⟩, ⟨-1/10, MILLIMETER_PER_SECOND false⟩, 20000000000, 20000000000, 40000000000,
    ⟨1/100, MILLIMETER_PER_SECOND_SQUARED false⟩, .velocity (-1/10)⟩

private theorem sF5_neg : State.neg sF5 = sF5m := by simp [State.neg, sF5, sF5m]; norm_num

private theorem new_F5 (u u' : DUnit) : MotionProfile.new false sF5 sF5 ⟨1/10, u⟩ ⟨1/100, u'⟩ = .ok mpF5 := by
  rw [new_false]
  have hs : sgn sF5 sF5 = 1 := by simp [sgn, sF5, c1, FloatLike.ofInt]
  have hv : vMax sF5 sF5 (1/10) = 1/10 := by simp only [vMax, hs, FloatLike.absF]; norm_num
  have ha : aMax sF5 sF5 (1/100) = 1/100 := by simp only [aMax, hs, FloatLike.absF]; norm_num
  have hc : Command.ofState sF5 = .velocity (1/10) := by
    simp [Command.ofState, sF5, c0, FloatLike.ofInt]
  rw [newSpec_of_values false sF5 sF5 (1/10) (1/100) hv ha (t1 := 0) (d3 := 0) (d2 := 0)
    (by simp [sF5]) (by simp [sF5]) (by simp [sF5])
    (by simp [c0, FloatLike.ofInt]) (by simp [c0, FloatLike.ofInt]) (by simp [c0, FloatLike.ofInt]), hc]
  simp [mpF5, sF5, FloatLike.toInt]

private theorem new_F5m (u u' : DUnit) : MotionProfile.new false sF5m sF5m ⟨1/10, u⟩ ⟨1/100, u'⟩ = .ok mpF5m := by
  rw [new_false]
  have hs : sgn sF5m sF5m = 1 := by simp [sgn, sF5m, c1, FloatLike.ofInt]
  have hv : vMax sF5m sF5m (1/10) = 1/10 := by simp only [vMax, hs, FloatLike.absF]; norm_num
  have ha : aMax sF5m sF5m (1/100) = 1/100 := by simp only [aMax, hs, FloatLike.absF]; norm_num
  have hc : Command.ofState sF5m = .velocity (-1/10) := by
    simp [Command.ofState, sF5m, c0, FloatLike.ofInt]
  rw [newSpec_of_values false sF5m sF5m (1/10) (1/100) hv ha (t1 := 20) (d3 := 20) (d2 := 0)
    (by simp only [sF5m]; norm_num) (by simp only [sF5m]; norm_num)
    (by simp only [sF5m, c2, FloatLike.ofInt]; norm_num)
    (by simp [c0, FloatLike.ofInt]) (by simp [c0, FloatLike.ofInt]) (by simp [c0, FloatLike.ofInt]), hc]
  have i1 : FloatLike.toInt ((20 : ℚ) * c1e9) = 20000000000 := by
    simp only [c1e9, FloatLike.ofInt, FloatLike.toInt]; norm_num
  have i2 : FloatLike.toInt (((20 : ℚ) + 0) * c1e9) = 20000000000 := by
    simp only [c1e9, FloatLike.ofInt, FloatLike.toInt]; norm_num
  have i3 : FloatLike.toInt (((20 : ℚ) + 0 + 20) * c1e9) = 40000000000 := by
    simp only [c1e9, FloatLike.ofInt, FloatLike.toInt]; norm_num
  rw [i1, i2, i3]
  rfl

/-- **the mirror clause fails at `start.position = end.position`** (finding F5). Start `(0 mm, +0.1 mm/s)` → end
`(0 mm, +0.1 mm/s)` with limits `0.1 mm/s`, `0.01 mm/s²` is accepted with `t1 = t2 = t3 = 0`; the mirrored input
`(0, −0.1) → (0, −0.1)` is accepted with `t1 = t2 = 20 s`, `t3 = 40 s`. So the mirrored profile is not the negation:
at `t = 5 s` the velocity is `+0.1` for the move and `−0.05` (not `−0.1`) for its mirror. -/
theorem mirror_fails_at_equal_positions :
    sF5.position = sF5.position ∧
    MotionProfile.new false sF5 sF5 ⟨1/10, ⟨0, 0⟩⟩ ⟨1/100, ⟨0, 0⟩⟩ = .ok mpF5 ∧
    MotionProfile.new false (State.neg sF5) (State.neg sF5) ⟨1/10, ⟨0, 0⟩⟩ ⟨1/100, ⟨0, 0⟩⟩ = .ok mpF5m ∧
    (mpF5.t1, mpF5.t2, mpF5.t3) = (0, 0, 0) ∧
    (mpF5m.t1, mpF5m.t2, mpF5m.t3) = (20000000000, 20000000000, 40000000000) ∧
    mpF5m.t3 ≠ (negProfile mpF5).t3 ∧
    getVelocity false mpF5 5000000000 = .ok (some ⟨1/10, MILLIMETER_PER_SECOND false⟩) ∧
    getVelocity false mpF5m 5000000000 = .ok (some ⟨-1/20, MILLIMETER_PER_SECOND false⟩) := by
  refine ⟨rfl, new_F5 _ _, ?_, rfl, rfl, by decide, ?_, ?_⟩
  · rw [sF5_neg]; exact new_F5m _ _
  · rfl
  · rw [((vel_closed_form false mpF5m ⟨rfl, rfl, rfl⟩ 5000000000).1 (by decide))]
    simp only [mpF5m, sec]; norm_num

/-- non-vacuity of `mirror_partial`: the 0 → 3 mm move has distinct end points and is accepted -/
example : (⟨0, 0, 0⟩ : State ℚ).position ≠ (⟨3, 0, 0⟩ : State ℚ).position := by norm_num

/-- the constructor's intermediate values for the 0 → 3 mm move -/
private theorem vals_Q :
    vMax (⟨0, 0, 0⟩ : State ℚ) ⟨3, 0, 0⟩ (1/10) = 1/10 ∧ aMax (⟨0, 0, 0⟩ : State ℚ) ⟨3, 0, 0⟩ (1/100) = 1/100 ∧
    T1 (⟨0, 0, 0⟩ : State ℚ) ⟨3, 0, 0⟩ (1/10) (1/100) = 10 ∧ D3 (⟨0, 0, 0⟩ : State ℚ) ⟨3, 0, 0⟩ (1/10) (1/100) = 10 ∧
    D2 (⟨0, 0, 0⟩ : State ℚ) ⟨3, 0, 0⟩ (1/10) (1/100) = 20 := by
  have hs : sgn (⟨0, 0, 0⟩ : State ℚ) ⟨3, 0, 0⟩ = 1 := by simp [sgn, c1, FloatLike.ofInt]
  have hv : vMax (⟨0, 0, 0⟩ : State ℚ) ⟨3, 0, 0⟩ (1/10) = 1/10 := by
    simp only [vMax, hs, FloatLike.absF]; norm_num
  have ha : aMax (⟨0, 0, 0⟩ : State ℚ) ⟨3, 0, 0⟩ (1/100) = 1/100 := by
    simp only [aMax, hs, FloatLike.absF]; norm_num
  have h1 : T1 (⟨0, 0, 0⟩ : State ℚ) ⟨3, 0, 0⟩ (1/10) (1/100) = 10 := by
    simp only [T1, hv, ha]; norm_num
  have h3 : D3 (⟨0, 0, 0⟩ : State ℚ) ⟨3, 0, 0⟩ (1/10) (1/100) = 10 := by
    simp only [D3, hv, ha]; norm_num
  have h2 : D2 (⟨0, 0, 0⟩ : State ℚ) ⟨3, 0, 0⟩ (1/10) (1/100) = 20 := by
    simp only [D2, hv, h1, h3, c2, FloatLike.ofInt]; norm_num
  exact ⟨hv, ha, h1, h3, h2⟩

/-- the hypotheses of `accepted_when_room` at the 0 → 3 mm move: both limits non-zero, `0.5 + 0.5 ≤ 3` -/
example :
    (1/10 : ℚ) ≠ 0 ∧ (1/100 : ℚ) ≠ 0 ∧ |(⟨0, 0, 0⟩ : State ℚ).velocity| ≤ |(1/10 : ℚ)| ∧ |(⟨3, 0, 0⟩ : State ℚ).velocity| ≤ |(1/10 : ℚ)| ∧
    |((⟨0, 0, 0⟩ : State ℚ).velocity + vMax (⟨0, 0, 0⟩ : State ℚ) ⟨3, 0, 0⟩ (1/10)) / 2 *
        T1 (⟨0, 0, 0⟩ : State ℚ) ⟨3, 0, 0⟩ (1/10) (1/100)| +
      |(vMax (⟨0, 0, 0⟩ : State ℚ) ⟨3, 0, 0⟩ (1/10) + (⟨3, 0, 0⟩ : State ℚ).velocity) / 2 *
        D3 (⟨0, 0, 0⟩ : State ℚ) ⟨3, 0, 0⟩ (1/10) (1/100)|
      ≤ |(⟨3, 0, 0⟩ : State ℚ).position - (⟨0, 0, 0⟩ : State ℚ).position| := by
  obtain ⟨hv, _, h1, h3, _⟩ := vals_Q
  rw [hv, h1, h3]
  norm_num

/-- the exactness hypotheses of `arrival_vel_partial` / `arrival_pos_partial` at the 0 → 3 mm move -/
example :
    (sec mpQ.t1 : ℚ) = T1 (⟨0, 0, 0⟩ : State ℚ) ⟨3, 0, 0⟩ (1/10) (1/100) ∧
    (sec mpQ.t2 : ℚ) = T2 (⟨0, 0, 0⟩ : State ℚ) ⟨3, 0, 0⟩ (1/10) (1/100) ∧
    (sec mpQ.t3 : ℚ) = T3 (⟨0, 0, 0⟩ : State ℚ) ⟨3, 0, 0⟩ (1/10) (1/100) ∧
    (sec mpQ.t3 : ℚ) - sec mpQ.t2 = D3 (⟨0, 0, 0⟩ : State ℚ) ⟨3, 0, 0⟩ (1/10) (1/100) := by
  obtain ⟨_, _, h1, h3, h2⟩ := vals_Q
  simp only [T2, T3, h1, h2, h3, sec, mpQ]
  norm_num

/-- … and what the arrival theorems then give for it: the end-acceleration formulas reach `v = 0`, `p = 3` at `t3` -/
example : velF mpQ (mpQ.t1 + mpQ.t2 - mpQ.t3) = 0 ∧ pos3F mpQ mpQ.t3 = 3 := by
  obtain ⟨_, _, h1, h3, h2⟩ := vals_Q
  have e1 : (sec mpQ.t1 : ℚ) = T1 (⟨0, 0, 0⟩ : State ℚ) ⟨3, 0, 0⟩ (1/10) (1/100) := by
    simp only [h1, sec, mpQ]; norm_num
  have e2 : (sec mpQ.t2 : ℚ) = T2 (⟨0, 0, 0⟩ : State ℚ) ⟨3, 0, 0⟩ (1/10) (1/100) := by
    simp only [T2, h1, h2, sec, mpQ]; norm_num
  have e3 : (sec mpQ.t3 : ℚ) = T3 (⟨0, 0, 0⟩ : State ℚ) ⟨3, 0, 0⟩ (1/10) (1/100) := by
    simp only [T2, T3, h1, h2, h3, sec, mpQ]; norm_num
  have e3' : (sec mpQ.t3 : ℚ) - sec mpQ.t2 = D3 (⟨0, 0, 0⟩ : State ℚ) ⟨3, 0, 0⟩ (1/10) (1/100) := by
    simp only [h3, sec, mpQ]; norm_num
  exact ⟨arrival_vel_partial true _ _ ⟨1/10, ⟨1, -1⟩⟩ ⟨1/100, ⟨1, -2⟩⟩ mpQ C06.new_example (by norm_num) e1 e3',
    arrival_pos_partial true _ _ ⟨1/10, ⟨1, -1⟩⟩ ⟨1/100, ⟨1, -2⟩⟩ mpQ C06.new_example (by norm_num) (by norm_num)
      (by simp only [mpQ]; norm_num) e1 e2 e3⟩

/-- an odd `t1` really breaks position continuity at `t1` (so the evenness hypothesis of `pos_cont_t1_partial`
cannot be dropped): `t1 = 1 ns`, `a = 1`: the two formulas differ by `1 ns · 0.5 ns` -/
example :
    pos2F (⟨⟨0, ⟨0, 0⟩⟩, ⟨0, ⟨0, 0⟩⟩, 1, 2, 3, ⟨1, ⟨0, 0⟩⟩, .position 0⟩ : MotionProfile ℚ) 1 -
    pos1F (⟨⟨0, ⟨0, 0⟩⟩, ⟨0, ⟨0, 0⟩⟩, 1, 2, 3, ⟨1, ⟨0, 0⟩⟩, .position 0⟩ : MotionProfile ℚ) 1 =
      1 / 1000000000 * (1 / 2000000000) := by
  have := pos_jump_t1_odd (⟨⟨0, ⟨0, 0⟩⟩, ⟨0, ⟨0, 0⟩⟩, 1, 2, 3, ⟨1, ⟨0, 0⟩⟩, .position 0⟩ : MotionProfile ℚ)
    (by norm_num) (by norm_num)
  rw [this]; simp only [sec]; norm_num

end Examples

end Rrtk.Thm.C07
