/-
C07 — the profile is a valid trapezoid.

* Tier S (arbitrary scalar): the commanded acceleration and its sign, velocity continuity at `t1`, `t2` as identity
  of terms, the three velocity formulas as ONE formula evaluated at a tent-shaped integer time.
* Tier R (`F` an ordered field with exact `ofInt`/`absF`): closed forms, values at `t = 0`, position as the exact
  integral of velocity on each piece, the velocity bound, continuity of position at the joins, arrival at the end
  state (under the hypothesis that the stored nanosecond times are the exact real durations), acceptance of moves
  with room, and mirror symmetry for `start.position ≠ end.position` with the counterexample at equality.
  Units are carried (any `chk`, hypothesis `WF chk mp`, which `C06.new_wf` provides for every constructed profile);
  the statements are about the `.value` fields the accessors return.

NOT proved here (and not provable in exact arithmetic): the truncation of `t1, t2, t3` to whole nanoseconds and the
binary32 rounding, i.e. the "within a rounding tolerance" part of the property. The `_partial` theorems say
precisely which exactness hypothesis they use.
-/
import Rrtk.Thm.Lemmas.C06Profile
import Rrtk.Thm.Lemmas.Exact
import Rrtk.Thm.C06
import Mathlib.Algebra.Order.Ring.Abs
set_option linter.unusedSectionVars false
set_option linter.unusedSimpArgs false
namespace Rrtk.Thm.C07
open Rrtk Rrtk.Thm.MpL MotionProfile

/-! ## tier S -/
section S
variable {F : Type} [Add F] [Sub F] [Mul F] [Div F] [Neg F] [LT F] [LE F] [BEq F]
  [DecidableLT F] [DecidableLE F] [FloatLike F]

/-- commanded acceleration on the three moving pieces: `max_acc`, `0 mm/s²`, `-max_acc` (any profile value) -/
theorem acc_values (chk : Bool) (mp : MotionProfile F) (t : Int) :
    (getPiece mp t = .initialAcceleration → getAcceleration chk mp t = some mp.maxAcc) ∧
    (getPiece mp t = .constantVelocity →
      getAcceleration chk mp t = some ⟨c0, MILLIMETER_PER_SECOND_SQUARED chk⟩) ∧
    (getPiece mp t = .endAcceleration → getAcceleration chk mp t = some (Quantity.neg mp.maxAcc)) := by
  refine ⟨fun h => ?_, fun h => ?_, fun h => ?_⟩
  · obtain ⟨h0, h1⟩ := (C06.piece_initial_iff mp t).1 h
    simp [getAcceleration, Int.not_lt.2 h0, h1]
  · obtain ⟨h0, h1, h2⟩ := (C06.piece_constant_iff mp t).1 h
    simp [getAcceleration, Int.not_lt.2 h0, Int.not_lt.2 h1, h2]
  · obtain ⟨h0, h1, h2, h3⟩ := (C06.piece_end_iff mp t).1 h
    simp [getAcceleration, Int.not_lt.2 h0, Int.not_lt.2 h1, Int.not_lt.2 h2, h3]

/-- the stored `max_acc` is `|max_acc| · sign` with `sign = -1` exactly when the end position is below the start
position (so the acceleration has the sign of the displacement; `+` when the displacement is zero), in mm/s² -/
theorem acc_sign (chk : Bool) (s e : State F) (mv ma : Quantity F) (mp : MotionProfile F)
    (h : MotionProfile.new chk s e mv ma = .ok mp) :
    mp.maxAcc.value = FloatLike.absF ma.value * (if e.position < s.position then cm1 else c1) ∧
    mp.maxAcc.unit = MILLIMETER_PER_SECOND_SQUARED chk := by
  obtain ⟨-, -, -, rfl⟩ := newSpec_ok (new_ok_spec h)
  exact ⟨rfl, rfl⟩

/-- the other stored fields: start position and velocity are the start state's, verbatim -/
theorem new_start_fields (chk : Bool) (s e : State F) (mv ma : Quantity F) (mp : MotionProfile F)
    (h : MotionProfile.new chk s e mv ma = .ok mp) :
    mp.startPos = s.getPosition chk ∧ mp.startVel = s.getVelocity chk := by
  obtain ⟨-, -, -, rfl⟩ := newSpec_ok (new_ok_spec h)
  exact ⟨rfl, rfl⟩

/-- the initial-acceleration velocity formula `max_acc * t + start_vel`, as the `Quantity` code computes it -/
def velFormula (chk : Bool) (mp : MotionProfile F) (τ : Int) : Except Panic (Option (Quantity F)) :=
  (Quantity.add chk (Quantity.mul chk mp.maxAcc (Quantity.ofTime chk τ)) mp.startVel).map some

/-- the integer time at which the ONE velocity formula is evaluated: `t`, then `t1`, then `t1 + t2 - t` -/
def velArg (mp : MotionProfile F) (t : Int) : Int :=
  if t < mp.t1 then t else if t < mp.t2 then mp.t1 else mp.t1 + mp.t2 - t

/-- during the move the velocity accessor is the same formula at the tent-shaped time `velArg` (any profile value;
same term, so bit-identical) -/
theorem vel_tent (chk : Bool) (mp : MotionProfile F) (t : Int)
    (hb : getPiece mp t ≠ .beforeStart) (hc : getPiece mp t ≠ .complete) :
    getVelocity chk mp t = velFormula chk mp (velArg mp t) := by
  rcases C06.piece_cases mp t with h | h | h | h | h
  · exact absurd h.2 hb
  · simp [getVelocity, velFormula, velArg, Int.not_lt.2 h.1, h.2.1]
  · simp [getVelocity, velFormula, velArg, Int.not_lt.2 h.1, Int.not_lt.2 h.2.1, h.2.2.1]
  · simp [getVelocity, velFormula, velArg, Int.not_lt.2 h.1, Int.not_lt.2 h.2.1, Int.not_lt.2 h.2.2.1, h.2.2.2.1]
  · exact absurd h.2.2.2.2 hc

/-- the tent is 1-Lipschitz on the integer grid when `t1 ≤ t2`: from one nanosecond to the next the formula's time
argument moves by at most one nanosecond, across the joins included (no jump of velocity at `t1` or `t2`) -/
theorem velArg_step (mp : MotionProfile F) (t : Int) (h12 : mp.t1 ≤ mp.t2) :
    velArg mp (t + 1) - velArg mp t = 1 ∨ velArg mp (t + 1) - velArg mp t = 0 ∨
    velArg mp (t + 1) - velArg mp t = -1 := by
  unfold velArg
  repeat' split
  all_goals omega

/-- continuity at `t1`: the value the accessor returns AT `t1` (constant-velocity piece, or end-acceleration piece
when `t1 = t2`) is the initial-acceleration formula evaluated at `t = t1` — the same term -/
theorem vel_cont_t1 (chk : Bool) (mp : MotionProfile F)
    (h0 : 0 ≤ mp.t1) (h12 : mp.t1 ≤ mp.t2) (h13 : mp.t1 < mp.t3) :
    getVelocity chk mp mp.t1 = velFormula chk mp mp.t1 := by
  have hb : getPiece mp mp.t1 ≠ .beforeStart := by
    rw [Ne, C06.before_start_iff]; omega
  have hc : getPiece mp mp.t1 ≠ .complete := by
    rw [Ne, C06.piece_complete_iff]; omega
  rw [vel_tent chk mp _ hb hc]
  congr 1
  unfold velArg
  repeat' split
  all_goals omega

/-- continuity at `t2`: the end-acceleration formula evaluated at `t = t2` is the constant-velocity value, as the
same term (`t1 + t2 - t2 = t1` in `Int`) -/
theorem vel_cont_t2 (chk : Bool) (mp : MotionProfile F)
    (h0 : 0 ≤ mp.t1) (h12 : mp.t1 ≤ mp.t2) (h23 : mp.t2 < mp.t3) :
    getVelocity chk mp mp.t2 = velFormula chk mp mp.t1 ∧
    (∀ t, getPiece mp t = .constantVelocity → getVelocity chk mp t = velFormula chk mp mp.t1) := by
  have hb : getPiece mp mp.t2 ≠ .beforeStart := by
    rw [Ne, C06.before_start_iff]; omega
  have hc : getPiece mp mp.t2 ≠ .complete := by
    rw [Ne, C06.piece_complete_iff]; omega
  refine ⟨?_, fun t ht => ?_⟩
  · rw [vel_tent chk mp _ hb hc]
    congr 1
    unfold velArg
    repeat' split
    all_goals omega
  · rw [vel_tent chk mp t (by simp [ht]) (by simp [ht])]
    obtain ⟨_, h1, h2⟩ := (C06.piece_constant_iff mp t).1 ht
    simp [velArg, Int.not_lt.2 h1, h2]

end S

/-! ## tier R -/
section R
variable {F : Type} [Field F] [LinearOrder F] [IsStrictOrderedRing F] [FloatLike F] [ExactScalar F]

/-- seconds in `t` nanoseconds -/
def sec (t : Int) : F := (t : F) / 1000000000

theorem secF_eq (t : Int) : (secF t : F) = sec t := by
  simp only [secF, sec, ExactScalar.ofInt_eq]; push_cast; rfl
theorem sec_zero : (sec 0 : F) = 0 := by simp [sec]
theorem sec_add (a b : Int) : (sec (a + b) : F) = sec a + sec b := by simp only [sec]; push_cast; ring
theorem sec_sub (a b : Int) : (sec (a - b) : F) = sec a - sec b := by simp only [sec]; push_cast; ring
theorem sec_two_mul (a : Int) : (sec (2 * a) : F) = 2 * sec a := by simp only [sec]; push_cast; ring
theorem sec_mono {a b : Int} (h : a ≤ b) : (sec a : F) ≤ sec b := by
  simp only [sec]
  exact div_le_div_of_nonneg_right (by exact_mod_cast h) (by norm_num)
/-- for even `t1` the truncating halving is exact -/
theorem sec_half_even (t1 : Int) (h : 2 ∣ t1) : (sec (Int.tdiv (-t1) 2) : F) = - sec t1 / 2 := by
  obtain ⟨k, rfl⟩ := h
  have : Int.tdiv (-(2 * k)) 2 = -k := by
    rw [show -(2 * k) = 2 * (-k) by ring]
    exact Int.mul_tdiv_cancel_left _ (by norm_num)
  rw [this]; simp only [sec]; push_cast; ring

/-! ### closed forms of the value-level formulas -/
theorem velF_closed (mp : MotionProfile F) (τ : Int) :
    velF mp τ = mp.startVel.value + mp.maxAcc.value * sec τ := by
  simp only [velF, secF_eq]; ring
theorem pos1F_closed (mp : MotionProfile F) (t : Int) :
    pos1F mp t = mp.startPos.value + mp.startVel.value * sec t + mp.maxAcc.value * sec t ^ 2 / 2 := by
  simp only [pos1F, secF_eq, chalf_eq]; ring
theorem pos2F_closed (mp : MotionProfile F) (t : Int) :
    pos2F mp t = mp.startPos.value + mp.startVel.value * sec t +
      mp.maxAcc.value * sec mp.t1 * (sec (Int.tdiv (-mp.t1) 2) + sec t) := by
  simp only [pos2F, secF_eq, sec_add]; ring
theorem pos3F_closed (mp : MotionProfile F) (t : Int) :
    pos3F mp t = mp.startPos.value + mp.startVel.value * sec t +
      mp.maxAcc.value * sec mp.t1 * (sec (Int.tdiv (-mp.t1) 2) + sec mp.t2) -
      mp.maxAcc.value * (sec t - sec mp.t2) * (sec t - 2 * sec mp.t1 - sec mp.t2) / 2 := by
  simp only [pos3F, secF_eq, sec_add, sec_sub, sec_two_mul, chalf_eq]; ring

/-- closed form of the velocity accessor on each moving piece: `v₀ + a·τ` with `τ = t`, `t1`, `t1 + t2 − t` (seconds) -/
theorem vel_closed_form (chk : Bool) (mp : MotionProfile F) (hwf : WF chk mp) (t : Int) :
    (getPiece mp t = .initialAcceleration → getVelocity chk mp t =
      .ok (some ⟨mp.startVel.value + mp.maxAcc.value * sec t, MILLIMETER_PER_SECOND chk⟩)) ∧
    (getPiece mp t = .constantVelocity → getVelocity chk mp t =
      .ok (some ⟨mp.startVel.value + mp.maxAcc.value * sec mp.t1, MILLIMETER_PER_SECOND chk⟩)) ∧
    (getPiece mp t = .endAcceleration → getVelocity chk mp t =
      .ok (some ⟨mp.startVel.value + mp.maxAcc.value * (sec mp.t1 + sec mp.t2 - sec t),
        MILLIMETER_PER_SECOND chk⟩)) := by
  rw [getVelocity_wf hwf t]
  unfold velOpt
  refine ⟨fun h => ?_, fun h => ?_, fun h => ?_⟩ <;> simp only [h, velF_closed, sec_add, sec_sub]

/-- closed form of the position accessor on each moving piece; `h = sec (−t1 / 2)` with the truncating `i64`
division kept explicit -/
theorem pos_closed_form (chk : Bool) (mp : MotionProfile F) (hwf : WF chk mp) (t : Int) :
    (getPiece mp t = .initialAcceleration → getPosition chk mp t =
      .ok (some ⟨mp.startPos.value + mp.startVel.value * sec t + mp.maxAcc.value * sec t ^ 2 / 2,
        MILLIMETER chk⟩)) ∧
    (getPiece mp t = .constantVelocity → getPosition chk mp t =
      .ok (some ⟨mp.startPos.value + mp.startVel.value * sec t +
        mp.maxAcc.value * sec mp.t1 * (sec (Int.tdiv (-mp.t1) 2) + sec t), MILLIMETER chk⟩)) ∧
    (getPiece mp t = .endAcceleration → getPosition chk mp t =
      .ok (some ⟨mp.startPos.value + mp.startVel.value * sec t +
        mp.maxAcc.value * sec mp.t1 * (sec (Int.tdiv (-mp.t1) 2) + sec mp.t2) -
        mp.maxAcc.value * (sec t - sec mp.t2) * (sec t - 2 * sec mp.t1 - sec mp.t2) / 2, MILLIMETER chk⟩)) := by
  rw [getPosition_wf hwf t]
  unfold posOpt
  refine ⟨fun h => ?_, fun h => ?_, fun h => ?_⟩ <;>
    simp only [h, pos1F_closed, pos2F_closed, pos3F_closed]

/-- with an even `t1` the constant-velocity piece is the textbook `p(t1) + v_max·(t − t1)` -/
theorem pos_closed_form_piece2_even (chk : Bool) (mp : MotionProfile F) (hwf : WF chk mp) (t : Int)
    (heven : 2 ∣ mp.t1) (hp : getPiece mp t = .constantVelocity) :
    getPosition chk mp t = .ok (some
      ⟨(mp.startPos.value + mp.startVel.value * sec mp.t1 + mp.maxAcc.value * sec mp.t1 ^ 2 / 2) +
        (mp.startVel.value + mp.maxAcc.value * sec mp.t1) * (sec t - sec mp.t1), MILLIMETER chk⟩) := by
  rw [(pos_closed_form chk mp hwf t).2.1 hp, sec_half_even _ heven]
  congr 3; ring

/-! ### values at `t = 0` -/
/-- the velocity at `t = 0` is the start velocity, whichever piece `t = 0` falls in (`0 ≤ t1 ≤ t2`, `0 < t3`) -/
theorem vel_at_zero (chk : Bool) (mp : MotionProfile F) (hwf : WF chk mp)
    (h1 : 0 ≤ mp.t1) (h12 : mp.t1 ≤ mp.t2) (h3 : 0 < mp.t3) :
    getVelocity chk mp 0 = .ok (some mp.startVel) := by
  have e : mp.startVel = ⟨mp.startVel.value, MILLIMETER_PER_SECOND chk⟩ := by
    rw [← hwf.2.1]
  obtain ⟨c1, c2, c3⟩ := vel_closed_form chk mp hwf 0
  rcases C06.piece_cases mp 0 with h | h | h | h | h
  · omega
  · rw [c1 h.2.2, e]; simp [sec_zero]
  · have : mp.t1 = 0 := by omega
    rw [c2 h.2.2.2, e, this]; simp [sec_zero]
  · have a1 : mp.t1 = 0 := by omega
    have a2 : mp.t2 = 0 := by omega
    rw [c3 h.2.2.2.2, e, a1, a2]; simp [sec_zero]
  · omega

/-- the position at `t = 0` is the start position -/
theorem pos_at_zero (chk : Bool) (mp : MotionProfile F) (hwf : WF chk mp)
    (h1 : 0 ≤ mp.t1) (h12 : mp.t1 ≤ mp.t2) (h3 : 0 < mp.t3) :
    getPosition chk mp 0 = .ok (some mp.startPos) := by
  have e : mp.startPos = ⟨mp.startPos.value, MILLIMETER chk⟩ := by
    rw [← hwf.1]
  obtain ⟨c1, c2, c3⟩ := pos_closed_form chk mp hwf 0
  rcases C06.piece_cases mp 0 with h | h | h | h | h
  · omega
  · rw [c1 h.2.2, e]; simp [sec_zero]
  · have : mp.t1 = 0 := by omega
    rw [c2 h.2.2.2, e, this]; simp [sec_zero]
  · have a1 : mp.t1 = 0 := by omega
    have a2 : mp.t2 = 0 := by omega
    rw [c3 h.2.2.2.2, e, a1, a2]; simp [sec_zero]
  · omega

/-! ### position is the exact integral of the (piecewise linear) velocity -/
/-- initial acceleration: for any two grid times `s`, `t` of the piece, `p(t) − p(s) = (t − s)·(v(s) + v(t))/2`
(trapezoid rule = exact integral of a linear function) -/
theorem pos_integral_piece1 (chk : Bool) (mp : MotionProfile F) (hwf : WF chk mp) (s t : Int)
    (hs : getPiece mp s = .initialAcceleration) (ht : getPiece mp t = .initialAcceleration) :
    ∃ ps pt vs vt : F,
      getPosition chk mp s = .ok (some ⟨ps, MILLIMETER chk⟩) ∧ getPosition chk mp t = .ok (some ⟨pt, MILLIMETER chk⟩) ∧
      getVelocity chk mp s = .ok (some ⟨vs, MILLIMETER_PER_SECOND chk⟩) ∧
      getVelocity chk mp t = .ok (some ⟨vt, MILLIMETER_PER_SECOND chk⟩) ∧
      pt - ps = (sec t - sec s) * (vs + vt) / 2 :=
  ⟨_, _, _, _, (pos_closed_form chk mp hwf s).1 hs, (pos_closed_form chk mp hwf t).1 ht,
    (vel_closed_form chk mp hwf s).1 hs, (vel_closed_form chk mp hwf t).1 ht, by ring⟩

/-- constant velocity: the integer halving `−t1/2` cancels in the difference -/
theorem pos_integral_piece2 (chk : Bool) (mp : MotionProfile F) (hwf : WF chk mp) (s t : Int)
    (hs : getPiece mp s = .constantVelocity) (ht : getPiece mp t = .constantVelocity) :
    ∃ ps pt vs vt : F,
      getPosition chk mp s = .ok (some ⟨ps, MILLIMETER chk⟩) ∧ getPosition chk mp t = .ok (some ⟨pt, MILLIMETER chk⟩) ∧
      getVelocity chk mp s = .ok (some ⟨vs, MILLIMETER_PER_SECOND chk⟩) ∧
      getVelocity chk mp t = .ok (some ⟨vt, MILLIMETER_PER_SECOND chk⟩) ∧
      pt - ps = (sec t - sec s) * (vs + vt) / 2 :=
  ⟨_, _, _, _, (pos_closed_form chk mp hwf s).2.1 hs, (pos_closed_form chk mp hwf t).2.1 ht,
    (vel_closed_form chk mp hwf s).2.1 hs, (vel_closed_form chk mp hwf t).2.1 ht, by ring⟩

/-- end acceleration -/
theorem pos_integral_piece3 (chk : Bool) (mp : MotionProfile F) (hwf : WF chk mp) (s t : Int)
    (hs : getPiece mp s = .endAcceleration) (ht : getPiece mp t = .endAcceleration) :
    ∃ ps pt vs vt : F,
      getPosition chk mp s = .ok (some ⟨ps, MILLIMETER chk⟩) ∧ getPosition chk mp t = .ok (some ⟨pt, MILLIMETER chk⟩) ∧
      getVelocity chk mp s = .ok (some ⟨vs, MILLIMETER_PER_SECOND chk⟩) ∧
      getVelocity chk mp t = .ok (some ⟨vt, MILLIMETER_PER_SECOND chk⟩) ∧
      pt - ps = (sec t - sec s) * (vs + vt) / 2 :=
  ⟨_, _, _, _, (pos_closed_form chk mp hwf s).2.2 hs, (pos_closed_form chk mp hwf t).2.2 ht,
    (vel_closed_form chk mp hwf s).2.2 hs, (vel_closed_form chk mp hwf t).2.2 ht, by ring⟩

/-! ### continuity of position at the joins -/
/-- at `t2`, unconditionally: the end-acceleration formula at `t = t2` equals the constant-velocity formula at `t2`
(the product term vanishes) -/
theorem pos_cont_t2 (mp : MotionProfile F) : pos3F mp mp.t2 = pos2F mp mp.t2 := by
  rw [pos3F_closed, pos2F_closed]; ring

/-- accessor form of `pos_cont_t2`: what `get_position(t2)` returns (end-acceleration piece) is the constant-velocity
formula evaluated at `t2` -/
theorem pos_cont_t2_accessor (chk : Bool) (mp : MotionProfile F) (hwf : WF chk mp)
    (hp : getPiece mp mp.t2 = .endAcceleration) :
    getPosition chk mp mp.t2 = .ok (some ⟨pos2F mp mp.t2, MILLIMETER chk⟩) := by
  rw [getPosition_wf hwf, posOpt, hp, pos_cont_t2]

/-- the exact jump of the position formulas at `t1`, for any `t1` -/
theorem pos_jump_t1 (mp : MotionProfile F) :
    pos2F mp mp.t1 - pos1F mp mp.t1 =
      mp.maxAcc.value * sec mp.t1 * (sec (Int.tdiv (-mp.t1) 2) + sec mp.t1 / 2) := by
  rw [pos1F_closed, pos2F_closed]; ring

/-- at `t1`: the formulas agree when `t1` is EVEN (then `−t1/2` is exact).
MISSING for the full claim: for odd `t1 > 0` the truncating `i64` division gives `−(t1−1)/2`, and the two formulas
differ by exactly `max_acc · t1 · 0.5 ns` (`pos_jump_t1_odd`), a genuine (tiny) discontinuity of the code. -/
theorem pos_cont_t1_partial (mp : MotionProfile F) (heven : 2 ∣ mp.t1) : pos2F mp mp.t1 = pos1F mp mp.t1 := by
  have := pos_jump_t1 mp
  rw [sec_half_even _ heven] at this
  have z : pos2F mp mp.t1 - pos1F mp mp.t1 = 0 := by rw [this]; ring
  exact sub_eq_zero.1 z

/-- accessor form: with `t1` even and a non-empty constant-velocity piece, `get_position(t1)` is the
initial-acceleration formula evaluated at `t1` -/
theorem pos_cont_t1_accessor_partial (chk : Bool) (mp : MotionProfile F) (hwf : WF chk mp) (heven : 2 ∣ mp.t1)
    (hp : getPiece mp mp.t1 = .constantVelocity) :
    getPosition chk mp mp.t1 = .ok (some ⟨pos1F mp mp.t1, MILLIMETER chk⟩) := by
  rw [getPosition_wf hwf, posOpt, hp, pos_cont_t1_partial mp heven]

/-- for odd positive `t1` the jump at `t1` is exactly `a · t1 · (0.5 ns)` -/
theorem pos_jump_t1_odd (mp : MotionProfile F) (hpos : 0 ≤ mp.t1) (hodd : ¬ 2 ∣ mp.t1) :
    pos2F mp mp.t1 - pos1F mp mp.t1 = mp.maxAcc.value * sec mp.t1 * (1 / 2000000000) := by
  rw [pos_jump_t1]
  obtain ⟨k, hk⟩ : ∃ k, mp.t1 = 2 * k + 1 := ⟨mp.t1 / 2, by omega⟩
  have hk0 : 0 ≤ k := by omega
  have : Int.tdiv (-mp.t1) 2 = -k := by
    rw [hk, Int.neg_tdiv, Int.tdiv_eq_ediv_of_nonneg (by omega)]
    omega
  rw [this, hk]
  simp only [sec]; push_cast; ring

/-! ### the velocity never leaves the hull of its corner values -/
omit [FloatLike F] [ExactScalar F] in
/-- a linear function on an interval lies between its end values -/
theorem lin_between (v0 a lo hi x : F) (h1 : lo ≤ x) (h2 : x ≤ hi) :
    min (v0 + a * lo) (v0 + a * hi) ≤ v0 + a * x ∧ v0 + a * x ≤ max (v0 + a * lo) (v0 + a * hi) := by
  rcases le_total 0 a with ha | ha
  · have e1 : a * lo ≤ a * x := mul_le_mul_of_nonneg_left h1 ha
    have e2 : a * x ≤ a * hi := mul_le_mul_of_nonneg_left h2 ha
    exact ⟨(min_le_left _ _).trans (by linarith), le_trans (by linarith) (le_max_right _ _)⟩
  · have e1 : a * x ≤ a * lo := mul_le_mul_of_nonpos_left h1 ha
    have e2 : a * hi ≤ a * x := mul_le_mul_of_nonpos_left h2 ha
    exact ⟨(min_le_right _ _).trans (by linarith), le_trans (by linarith) (le_max_left _ _)⟩

omit [FloatLike F] [ExactScalar F] in
theorem abs_le_of_between (p q x : F) (h1 : min p q ≤ x) (h2 : x ≤ max p q) : |x| ≤ max |p| |q| := by
  have lp : -(max |p| |q|) ≤ p := by
    have := neg_abs_le p; have := le_max_left |p| |q|; linarith
  have lq : -(max |p| |q|) ≤ q := by
    have := neg_abs_le q; have := le_max_right |p| |q|; linarith
  have up : p ≤ max |p| |q| := (le_abs_self p).trans (le_max_left _ _)
  have uq : q ≤ max |p| |q| := (le_abs_self q).trans (le_max_right _ _)
  rw [abs_le]
  constructor
  · rcases min_choice p q with h | h <;> rw [h] at h1 <;> linarith
  · rcases max_choice p q with h | h <;> rw [h] at h2 <;> linarith

/-- with ordered times: on pieces 1–2 `|v(t)| ≤ max |v₀| |v₀ + a·t1|`; on piece 3 `v(t)` lies between
`v₀ + a·t1` (the cruise velocity) and `v₀ + a·(t1 + t2 − t3)` (the value the formula reaches at `t3`) -/
theorem vel_bound (chk : Bool) (mp : MotionProfile F) (hwf : WF chk mp)
    (hord : 0 ≤ mp.t1 ∧ mp.t1 ≤ mp.t2 ∧ mp.t2 ≤ mp.t3) (t : Int) (ht0 : 0 ≤ t) (ht3 : t < mp.t3) :
    ∃ v : F, getVelocity chk mp t = .ok (some ⟨v, MILLIMETER_PER_SECOND chk⟩) ∧
      (t < mp.t2 → |v| ≤ max |mp.startVel.value| |mp.startVel.value + mp.maxAcc.value * sec mp.t1|) ∧
      (mp.t2 ≤ t →
        min (mp.startVel.value + mp.maxAcc.value * sec mp.t1)
            (mp.startVel.value + mp.maxAcc.value * sec (mp.t1 + mp.t2 - mp.t3)) ≤ v ∧
        v ≤ max (mp.startVel.value + mp.maxAcc.value * sec mp.t1)
            (mp.startVel.value + mp.maxAcc.value * sec (mp.t1 + mp.t2 - mp.t3))) := by
  obtain ⟨c1, c2, c3⟩ := vel_closed_form chk mp hwf t
  have hv0 : mp.startVel.value = mp.startVel.value + mp.maxAcc.value * sec 0 := by simp [sec_zero]
  rcases C06.piece_cases mp t with h | h | h | h | h
  · omega
  · refine ⟨_, c1 h.2.2, fun _ => ?_, fun _ => by omega⟩
    have := lin_between mp.startVel.value mp.maxAcc.value (sec 0) (sec mp.t1) (sec t) (sec_mono h.1) (sec_mono (le_of_lt h.2.1))
    have b := abs_le_of_between _ _ _ this.1 this.2
    rwa [← hv0] at b
  · refine ⟨_, c2 h.2.2.2, fun _ => le_max_right _ _, fun _ => by omega⟩
  · refine ⟨_, c3 h.2.2.2.2, fun _ => by omega, fun _ => ?_⟩
    have hx : (sec mp.t1 + sec mp.t2 - sec t : F) = sec (mp.t1 + mp.t2 - t) := by rw [sec_sub, sec_add]
    rw [hx]
    have := lin_between mp.startVel.value mp.maxAcc.value (sec (mp.t1 + mp.t2 - mp.t3)) (sec mp.t1) (sec (mp.t1 + mp.t2 - t))
      (sec_mono (by omega)) (sec_mono (by omega))
    rw [min_comm, max_comm]
    exact this
  · omega

/-- hence on the whole move `|v(t)|` is at most the largest of the three corner speeds -/
theorem vel_bound_abs (chk : Bool) (mp : MotionProfile F) (hwf : WF chk mp)
    (hord : 0 ≤ mp.t1 ∧ mp.t1 ≤ mp.t2 ∧ mp.t2 ≤ mp.t3) (t : Int) (ht0 : 0 ≤ t) (ht3 : t < mp.t3) :
    ∃ v : F, getVelocity chk mp t = .ok (some ⟨v, MILLIMETER_PER_SECOND chk⟩) ∧
      |v| ≤ max (max |mp.startVel.value| |mp.startVel.value + mp.maxAcc.value * sec mp.t1|)
        |mp.startVel.value + mp.maxAcc.value * sec (mp.t1 + mp.t2 - mp.t3)| := by
  obtain ⟨v, hv, b12, b3⟩ := vel_bound chk mp hwf hord t ht0 ht3
  refine ⟨v, hv, ?_⟩
  rcases lt_or_ge t mp.t2 with h | h
  · exact (b12 h).trans (le_max_left _ _)
  · obtain ⟨l, u⟩ := b3 h
    exact (abs_le_of_between _ _ _ l u).trans (max_le_max (le_max_right _ _) (le_refl _))

end R
end Rrtk.Thm.C07
