/-
C08 — a device update projects the states read at its terminals onto the mechanical constraint.

Tier S (any scalar, no laws): which own state slots an `update` of an inverter, gear train, axle or differential
writes, with which value expression and which timestamp, for every presence pattern of the reads; everything
else (the `other` links, the number of terminals, every terminal that is not the device's) is untouched;
tooth-count constructor.
Tier R (ordered field, exact scalars): the written states satisfy the device's constraint, are the least-squares
projection of the reads onto it, and reproduce reads that already satisfy it.

Setting: the device's terminals are indices into a `World F`, assumed pairwise distinct where it matters.
"Held by terminal i after the update" is `(w'.t i).state` (the own slot), "read at terminal i" is `w.getState i`.
-/
import Rrtk.Devices
import Rrtk.Thm.Lemmas.Exact
set_option linter.unusedSectionVars false
set_option linter.unusedSimpArgs false
namespace Rrtk.Thm.C08
open Rrtk

/-- `if a ≥ b then a else b` (the timestamp rule of every `Datum` operator) is `max` -/
theorem ite_ge_eq_max (a b : Int) {inst : Decidable (a ≥ b)} : (@ite Int (a ≥ b) inst a b) = max a b := by
  split <;> omega

theorem combine_time {α β γ : Type} (op : α → β → γ) (a : Datum α) (b : Datum β) :
    (Datum.combine op a b).time = max a.time b.time := by
  simp only [Datum.combine]; split <;> omega
theorem scalar_time {α β γ : Type} (op : α → β → γ) (a : Datum α) (b : β) :
    (Datum.scalar op a b).time = a.time := rfl
theorem map_time {α β : Type} (f : α → β) (a : Datum α) : (Datum.map f a).time = a.time := rfl
theorem datum_eq {α : Type} (d : Datum α) (t : Int) (v : α) (ht : d.time = t) (hv : d.value = v) :
    d = ⟨t, v⟩ := by
  cases d; simp only at ht hv; subst ht hv; rfl

/-- component `k` of a state -/
def comp {F : Type} (k : PosDer) (s : State F) : F :=
  match k with
  | .position => s.position
  | .velocity => s.velocity
  | .acceleration => s.acceleration

theorem state_ext {F : Type} (a b : State F) (h : ∀ k, comp k a = comp k b) : a = b := by
  cases a; cases b
  have h1 := h .position; have h2 := h .velocity; have h3 := h .acceleration
  simp only [comp] at h1 h2 h3
  subst h1 h2 h3; rfl

/-! ## frame: what an update never touches -/
section S
variable {F : Type} [Add F] [Sub F] [Mul F] [Div F] [Neg F] [LT F] [LE F] [BEq F]
  [DecidableLT F] [DecidableLE F] [FloatLike F]

/-- `w'` has the same number of terminals and the same links as `w`, and every terminal outside `dev`
is identical (state slot, command slot, link). -/
def Frame (dev : List Nat) (w w' : World F) : Prop :=
  w'.n = w.n ∧ (∀ j, (w'.t j).other = (w.t j).other) ∧ (∀ j, j ∉ dev → w'.t j = w.t j)

/-- `w'` differs from `w` only in command slots of terminals in `dev` -/
def CmdOnly (dev : List Nat) (w w' : World F) : Prop :=
  Frame dev w w' ∧ ∀ j, (w'.t j).state = (w.t j).state

theorem frame_refl (dev : List Nat) (w : World F) : Frame dev w w := ⟨rfl, fun _ => rfl, fun _ _ => rfl⟩
theorem cmdOnly_refl (dev : List Nat) (w : World F) : CmdOnly dev w w := ⟨frame_refl dev w, fun _ => rfl⟩

theorem frame_trans {dev : List Nat} {w w1 w2 : World F} (h1 : Frame dev w w1) (h2 : Frame dev w1 w2) :
    Frame dev w w2 :=
  ⟨h2.1.trans h1.1, fun j => (h2.2.1 j).trans (h1.2.1 j), fun j hj => (h2.2.2 j hj).trans (h1.2.2 j hj)⟩

theorem setState_slot (w : World F) (i j : Nat) (d : Datum (State F)) :
    ((w.setState i d).t j).state = if j = i then some d else (w.t j).state := by
  simp only [World.setState, World.setT]; split <;> simp_all
theorem setState_other (w : World F) (i j : Nat) (d : Datum (State F)) :
    ((w.setState i d).t j).other = (w.t j).other := by
  simp only [World.setState, World.setT]; split <;> simp_all
theorem setState_ne (w : World F) (i j : Nat) (d : Datum (State F)) (h : j ≠ i) :
    (w.setState i d).t j = w.t j := by
  simp [World.setState, World.setT, h]
theorem setCommand_slot (w : World F) (i j : Nat) (d : Datum (Command F)) :
    ((w.setCommand i d).t j).state = (w.t j).state := by
  simp only [World.setCommand, World.setT]; split <;> simp_all
theorem setCommand_other (w : World F) (i j : Nat) (d : Datum (Command F)) :
    ((w.setCommand i d).t j).other = (w.t j).other := by
  simp only [World.setCommand, World.setT]; split <;> simp_all
theorem setCommand_ne (w : World F) (i j : Nat) (d : Datum (Command F)) (h : j ≠ i) :
    (w.setCommand i d).t j = w.t j := by
  simp [World.setCommand, World.setT, h]

theorem frame_setState {dev : List Nat} {w w' : World F} (i : Nat) (d : Datum (State F)) (hi : i ∈ dev)
    (h : Frame dev w w') : Frame dev w (w'.setState i d) :=
  ⟨h.1, fun j => (setState_other w' i j d).trans (h.2.1 j),
   fun j hj => (setState_ne w' i j d (fun e => hj (e ▸ hi))).trans (h.2.2 j hj)⟩

theorem cmdOnly_setCommand {dev : List Nat} {w w' : World F} (i : Nat) (d : Datum (Command F)) (hi : i ∈ dev)
    (h : CmdOnly dev w w') : CmdOnly dev w (w'.setCommand i d) :=
  ⟨⟨h.1.1, fun j => (setCommand_other w' i j d).trans (h.1.2.1 j),
    fun j hj => (setCommand_ne w' i j d (fun e => hj (e ▸ hi))).trans (h.1.2.2 j hj)⟩,
   fun j => (setCommand_slot w' i j d).trans (h.2 j)⟩

theorem cmdOnly_foldl_setCommand {dev : List Nat} (d : Datum (Command F)) (l : List Nat) :
    ∀ {w w' : World F}, (∀ i ∈ l, i ∈ dev) → CmdOnly dev w w' →
      CmdOnly dev w (l.foldl (fun w'' i => w''.setCommand i d) w') := by
  induction l with
  | nil => intro w w' _ h; exact h
  | cons a l ih =>
    intro w w' hl h
    simp only [List.foldl_cons]
    exact ih (fun i hi => hl i (List.mem_cons_of_mem a hi))
      (cmdOnly_setCommand a d (hl a (List.mem_cons_self ..)) h)

/-! ## inverter -/

/-- the state half of `Invert::update` -/
def invStates (w : World F) (i1 i2 : Nat) : World F :=
  match w.getState i1, w.getState i2 with
  | none, none => w
  | none, some d2 => w.setState i1 ⟨d2.time, State.neg d2.value⟩
  | some d1, none => w.setState i2 ⟨d1.time, State.neg d1.value⟩
  | some d1, some d2 =>
    let time := if d1.time ≥ d2.time then d1.time else d2.time
    let ns := State.divF (State.sub d1.value d2.value) c2
    (w.setState i1 ⟨time, ns⟩).setState i2 ⟨time, State.neg ns⟩

/-- the command half of `Invert::update` only touches the command slots of the two terminals -/
theorem invert_update_cmdOnly (w : World F) (i1 i2 : Nat) :
    CmdOnly [i1, i2] (invStates w i1 i2) (Invert.update w i1 i2) := by
  show CmdOnly [i1, i2] (invStates w i1 i2)
    (match (match (invStates w i1 i2).getCommand i2 with
      | some x => (Datum.replaceIfNoneOrOlderThan
          (Datum.replaceIfNoneOrOlderThanOption none ((invStates w i1 i2).getCommand i1)).1 (Datum.map Command.neg x)).1
      | none => (Datum.replaceIfNoneOrOlderThanOption none ((invStates w i1 i2).getCommand i1)).1) with
    | some dc => ((invStates w i1 i2).setCommand i1 dc).setCommand i2 (Datum.map Command.neg dc)
    | none => invStates w i1 i2)
  split
  · exact cmdOnly_setCommand i2 _ (by simp) (cmdOnly_setCommand i1 _ (by simp) (cmdOnly_refl _ _))
  · exact cmdOnly_refl _ _

/-- neither side reads a state: no state slot is written -/
theorem invert_update_none (w : World F) (i1 i2 : Nat)
    (h1 : w.getState i1 = none) (h2 : w.getState i2 = none) :
    Frame [i1, i2] w (Invert.update w i1 i2) ∧
    ∀ j, ((Invert.update w i1 i2).t j).state = (w.t j).state := by
  have h := invert_update_cmdOnly w i1 i2
  have e : invStates w i1 i2 = w := by simp only [invStates, h1, h2]
  rw [e] at h
  exact h

/-- only side 2 reads a state `d2`: slot 1 := `⟨d2.time, −d2.value⟩`, every other state slot (slot 2 included)
untouched -/
theorem invert_update_one_right (w : World F) (i1 i2 : Nat) (d2 : Datum (State F))
    (h1 : w.getState i1 = none) (h2 : w.getState i2 = some d2) :
    Frame [i1, i2] w (Invert.update w i1 i2) ∧
    ((Invert.update w i1 i2).t i1).state = some ⟨d2.time, State.neg d2.value⟩ ∧
    ∀ j, j ≠ i1 → ((Invert.update w i1 i2).t j).state = (w.t j).state := by
  have h := invert_update_cmdOnly w i1 i2
  have e : invStates w i1 i2 = w.setState i1 ⟨d2.time, State.neg d2.value⟩ := by
    simp only [invStates, h1, h2]
  rw [e] at h
  refine ⟨frame_trans (frame_setState i1 _ (by simp) (frame_refl _ w)) h.1, ?_, ?_⟩
  · rw [h.2, setState_slot]; simp
  · intro j hj; rw [h.2, setState_slot]; simp [hj]

/-- only side 1 reads a state `d1`: slot 2 := `⟨d1.time, −d1.value⟩`, every other state slot untouched -/
theorem invert_update_one_left (w : World F) (i1 i2 : Nat) (d1 : Datum (State F))
    (h1 : w.getState i1 = some d1) (h2 : w.getState i2 = none) :
    Frame [i1, i2] w (Invert.update w i1 i2) ∧
    ((Invert.update w i1 i2).t i2).state = some ⟨d1.time, State.neg d1.value⟩ ∧
    ∀ j, j ≠ i2 → ((Invert.update w i1 i2).t j).state = (w.t j).state := by
  have h := invert_update_cmdOnly w i1 i2
  have e : invStates w i1 i2 = w.setState i2 ⟨d1.time, State.neg d1.value⟩ := by
    simp only [invStates, h1, h2]
  rw [e] at h
  refine ⟨frame_trans (frame_setState i2 _ (by simp) (frame_refl _ w)) h.1, ?_, ?_⟩
  · rw [h.2, setState_slot]; simp
  · intro j hj; rw [h.2, setState_slot]; simp [hj]

/-- one side reads, the other has no information (both directions): the empty side receives the negated read
with the read's time and the side that had the information is **not** rewritten -/
theorem invert_update_one (w : World F) (i1 i2 : Nat) (d : Datum (State F)) :
    (w.getState i1 = none → w.getState i2 = some d →
      ((Invert.update w i1 i2).t i1).state = some ⟨d.time, State.neg d.value⟩ ∧
      ((Invert.update w i1 i2).t i2).state = (w.t i2).state) ∧
    (w.getState i1 = some d → w.getState i2 = none →
      ((Invert.update w i1 i2).t i2).state = some ⟨d.time, State.neg d.value⟩ ∧
      ((Invert.update w i1 i2).t i1).state = (w.t i1).state) := by
  constructor
  · intro h1 h2
    have hne : i2 ≠ i1 := by intro e; rw [e, h1] at h2; cases h2
    obtain ⟨_, ha, hb⟩ := invert_update_one_right w i1 i2 d h1 h2
    exact ⟨ha, hb i2 hne⟩
  · intro h1 h2
    have hne : i1 ≠ i2 := by intro e; rw [e, h2] at h1; cases h1
    obtain ⟨_, ha, hb⟩ := invert_update_one_left w i1 i2 d h1 h2
    exact ⟨ha, hb i1 hne⟩

/-- both sides read: both slots are written, stamped with the newer time, with `n = (s1 − s2)/2` and `−n` -/
theorem invert_update_both (w : World F) (i1 i2 : Nat) (d1 d2 : Datum (State F)) (hd : i1 ≠ i2)
    (h1 : w.getState i1 = some d1) (h2 : w.getState i2 = some d2) :
    Frame [i1, i2] w (Invert.update w i1 i2) ∧
    ((Invert.update w i1 i2).t i1).state
      = some ⟨max d1.time d2.time, State.divF (State.sub d1.value d2.value) c2⟩ ∧
    ((Invert.update w i1 i2).t i2).state
      = some ⟨max d1.time d2.time, State.neg (State.divF (State.sub d1.value d2.value) c2)⟩ ∧
    ∀ j, j ≠ i1 → j ≠ i2 → ((Invert.update w i1 i2).t j).state = (w.t j).state := by
  have h := invert_update_cmdOnly w i1 i2
  have e : invStates w i1 i2 =
      (w.setState i1 ⟨max d1.time d2.time, State.divF (State.sub d1.value d2.value) c2⟩).setState i2
        ⟨max d1.time d2.time, State.neg (State.divF (State.sub d1.value d2.value) c2)⟩ := by
    simp only [invStates, h1, h2, ite_ge_eq_max]
  rw [e] at h
  refine ⟨frame_trans (frame_setState i2 _ (by simp) (frame_setState i1 _ (by simp) (frame_refl _ w))) h.1,
    ?_, ?_, ?_⟩
  · rw [h.2, setState_slot, setState_slot]; simp [hd]
  · rw [h.2, setState_slot]; simp
  · intro j hj1 hj2; rw [h.2, setState_slot, setState_slot]; simp [hj1, hj2]

/-! ## gear train -/

/-- the state half of `GearTrain::update` -/
def gearStates (ratio : F) (w : World F) (i1 i2 : Nat) : World F :=
  match w.getState i1, w.getState i2 with
  | some d1, some d2 =>
    let time := if d1.time ≥ d2.time then d1.time else d2.time
    let r2p1 := ratio * ratio + c1
    let xpry := State.add d1.value (State.mulF d2.value ratio)
    let n1 := State.divF xpry r2p1
    let n2 := State.divF (State.mulF xpry ratio) r2p1
    (w.setState i1 ⟨time, n1⟩).setState i2 ⟨time, n2⟩
  | some d1, none => w.setState i2 (Datum.scalar State.mulF d1 ratio)
  | none, some d2 => w.setState i1 (Datum.scalar State.divF d2 ratio)
  | none, none => w

/-- the command half of `GearTrain::update` only touches the command slots of the two terminals -/
theorem gear_update_cmdOnly (ratio : F) (w : World F) (i1 i2 : Nat) :
    CmdOnly [i1, i2] (gearStates ratio w i1 i2) (GearTrain.update ratio w i1 i2) := by
  show CmdOnly [i1, i2] (gearStates ratio w i1 i2)
    (match (gearStates ratio w i1 i2).getCommand i1, (gearStates ratio w i1 i2).getCommand i2 with
    | some d1, some d2 =>
      if d1.time ≥ d2.time then (gearStates ratio w i1 i2).setCommand i2 (Datum.scalar Command.mulF d1 ratio)
      else (gearStates ratio w i1 i2).setCommand i1 (Datum.scalar Command.divF d2 ratio)
    | some d1, none => (gearStates ratio w i1 i2).setCommand i2 (Datum.scalar Command.mulF d1 ratio)
    | none, some d2 => (gearStates ratio w i1 i2).setCommand i1 (Datum.scalar Command.divF d2 ratio)
    | none, none => gearStates ratio w i1 i2)
  split
  · split
    · exact cmdOnly_setCommand i2 _ (by simp) (cmdOnly_refl _ _)
    · exact cmdOnly_setCommand i1 _ (by simp) (cmdOnly_refl _ _)
  · exact cmdOnly_setCommand i2 _ (by simp) (cmdOnly_refl _ _)
  · exact cmdOnly_setCommand i1 _ (by simp) (cmdOnly_refl _ _)
  · exact cmdOnly_refl _ _

/-- neither side reads a state: no state slot is written -/
theorem gear_update_none (ratio : F) (w : World F) (i1 i2 : Nat)
    (h1 : w.getState i1 = none) (h2 : w.getState i2 = none) :
    Frame [i1, i2] w (GearTrain.update ratio w i1 i2) ∧
    ∀ j, ((GearTrain.update ratio w i1 i2).t j).state = (w.t j).state := by
  have h := gear_update_cmdOnly ratio w i1 i2
  have e : gearStates ratio w i1 i2 = w := by simp only [gearStates, h1, h2]
  rw [e] at h
  exact h

/-- only side 2 reads `d2`: slot 1 := `⟨d2.time, d2.value / ratio⟩`, every other state slot untouched -/
theorem gear_update_one_right (ratio : F) (w : World F) (i1 i2 : Nat) (d2 : Datum (State F))
    (h1 : w.getState i1 = none) (h2 : w.getState i2 = some d2) :
    Frame [i1, i2] w (GearTrain.update ratio w i1 i2) ∧
    ((GearTrain.update ratio w i1 i2).t i1).state = some ⟨d2.time, State.divF d2.value ratio⟩ ∧
    ∀ j, j ≠ i1 → ((GearTrain.update ratio w i1 i2).t j).state = (w.t j).state := by
  have h := gear_update_cmdOnly ratio w i1 i2
  have e : gearStates ratio w i1 i2 = w.setState i1 ⟨d2.time, State.divF d2.value ratio⟩ := by
    simp only [gearStates, h1, h2, Datum.scalar]
  rw [e] at h
  refine ⟨frame_trans (frame_setState i1 _ (by simp) (frame_refl _ w)) h.1, ?_, ?_⟩
  · rw [h.2, setState_slot]; simp
  · intro j hj; rw [h.2, setState_slot]; simp [hj]

/-- only side 1 reads `d1`: slot 2 := `⟨d1.time, d1.value * ratio⟩`, every other state slot untouched -/
theorem gear_update_one_left (ratio : F) (w : World F) (i1 i2 : Nat) (d1 : Datum (State F))
    (h1 : w.getState i1 = some d1) (h2 : w.getState i2 = none) :
    Frame [i1, i2] w (GearTrain.update ratio w i1 i2) ∧
    ((GearTrain.update ratio w i1 i2).t i2).state = some ⟨d1.time, State.mulF d1.value ratio⟩ ∧
    ∀ j, j ≠ i2 → ((GearTrain.update ratio w i1 i2).t j).state = (w.t j).state := by
  have h := gear_update_cmdOnly ratio w i1 i2
  have e : gearStates ratio w i1 i2 = w.setState i2 ⟨d1.time, State.mulF d1.value ratio⟩ := by
    simp only [gearStates, h1, h2, Datum.scalar]
  rw [e] at h
  refine ⟨frame_trans (frame_setState i2 _ (by simp) (frame_refl _ w)) h.1, ?_, ?_⟩
  · rw [h.2, setState_slot]; simp
  · intro j hj; rw [h.2, setState_slot]; simp [hj]

/-- one side reads, the other has no information (both directions): side 2 receives `read·ratio`, resp. side 1
receives `read/ratio`, with the read's time; the side that had the information is **not** rewritten -/
theorem gear_update_one (ratio : F) (w : World F) (i1 i2 : Nat) (d : Datum (State F)) :
    (w.getState i1 = some d → w.getState i2 = none →
      ((GearTrain.update ratio w i1 i2).t i2).state = some ⟨d.time, State.mulF d.value ratio⟩ ∧
      ((GearTrain.update ratio w i1 i2).t i1).state = (w.t i1).state) ∧
    (w.getState i1 = none → w.getState i2 = some d →
      ((GearTrain.update ratio w i1 i2).t i1).state = some ⟨d.time, State.divF d.value ratio⟩ ∧
      ((GearTrain.update ratio w i1 i2).t i2).state = (w.t i2).state) := by
  constructor
  · intro h1 h2
    have hne : i1 ≠ i2 := by intro e; rw [e, h2] at h1; cases h1
    obtain ⟨_, ha, hb⟩ := gear_update_one_left ratio w i1 i2 d h1 h2
    exact ⟨ha, hb i1 hne⟩
  · intro h1 h2
    have hne : i2 ≠ i1 := by intro e; rw [e, h1] at h2; cases h2
    obtain ⟨_, ha, hb⟩ := gear_update_one_right ratio w i1 i2 d h1 h2
    exact ⟨ha, hb i2 hne⟩

/-- the two values a gear train writes when both sides read: with `s = x + y·r`,
`(s / (r·r + 1), (s·r) / (r·r + 1))` -/
def gearNew1 (ratio : F) (x y : State F) : State F :=
  State.divF (State.add x (State.mulF y ratio)) (ratio * ratio + c1)
def gearNew2 (ratio : F) (x y : State F) : State F :=
  State.divF (State.mulF (State.add x (State.mulF y ratio)) ratio) (ratio * ratio + c1)

/-- both sides read: both slots written, stamped with the newer time -/
theorem gear_update_both (ratio : F) (w : World F) (i1 i2 : Nat) (d1 d2 : Datum (State F)) (hd : i1 ≠ i2)
    (h1 : w.getState i1 = some d1) (h2 : w.getState i2 = some d2) :
    Frame [i1, i2] w (GearTrain.update ratio w i1 i2) ∧
    ((GearTrain.update ratio w i1 i2).t i1).state
      = some ⟨max d1.time d2.time, gearNew1 ratio d1.value d2.value⟩ ∧
    ((GearTrain.update ratio w i1 i2).t i2).state
      = some ⟨max d1.time d2.time, gearNew2 ratio d1.value d2.value⟩ ∧
    ∀ j, j ≠ i1 → j ≠ i2 → ((GearTrain.update ratio w i1 i2).t j).state = (w.t j).state := by
  have h := gear_update_cmdOnly ratio w i1 i2
  have e : gearStates ratio w i1 i2 =
      (w.setState i1 ⟨max d1.time d2.time, gearNew1 ratio d1.value d2.value⟩).setState i2
        ⟨max d1.time d2.time, gearNew2 ratio d1.value d2.value⟩ := by
    simp only [gearStates, h1, h2, ite_ge_eq_max, gearNew1, gearNew2]
  rw [e] at h
  refine ⟨frame_trans (frame_setState i2 _ (by simp) (frame_setState i1 _ (by simp) (frame_refl _ w))) h.1,
    ?_, ?_, ?_⟩
  · rw [h.2, setState_slot, setState_slot]; simp [hd]
  · rw [h.2, setState_slot]; simp
  · intro j hj1 hj2; rw [h.2, setState_slot, setState_slot]; simp [hj1, hj2]

/-! ## axle -/

/-- the states read at the terminals of the list, in order, terminals without information skipped -/
def presentReads (w : World F) (is : List Nat) : List (Datum (State F)) := is.filterMap w.getState
/-- running maximum of the timestamps, from `t0` -/
def maxTime {α : Type} (t0 : Int) (ds : List (Datum α)) : Int := ds.foldl (fun t d => max t d.time) t0
/-- left-to-right sum of the values, from `s0` (the order in which the code adds) -/
def sumFrom (s0 : State F) (ds : List (Datum (State F))) : State F :=
  ds.foldl (fun s d => State.add s d.value) s0
/-- `i64::MIN`, the time the accumulator starts with -/
def i64Min : Int := -9223372036854775808

/-- the datum an axle broadcasts: newest time, `(0 + x₁ + … + x_k) / k` over the `k` present reads -/
def axleDatum (ds : List (Datum (State F))) : Datum (State F) :=
  ⟨maxTime i64Min ds, State.divF (sumFrom ⟨c0, c0, c0⟩ ds) (FloatLike.ofInt (ds.length : Int) : F)⟩

/-- the accumulation loop of `Axle::update`, for any list length and any starting accumulator -/
theorem axle_acc (w : World F) (is : List Nat) : ∀ (a : Datum (State F) × Nat),
    is.foldl (fun (a : Datum (State F) × Nat) i =>
      match w.getState i with
      | some g => (Datum.combine State.add a.1 g, a.2 + 1)
      | none => a) a
    = (⟨maxTime a.1.time (presentReads w is), sumFrom a.1.value (presentReads w is)⟩,
       a.2 + (presentReads w is).length) := by
  induction is with
  | nil => intro a; rfl
  | cons i is ih =>
    intro a
    simp only [List.foldl_cons]
    cases h : w.getState i with
    | none =>
      have e : presentReads w (i :: is) = presentReads w is := by
        simp only [presentReads, List.filterMap_cons, h]
      rw [e]; exact ih a
    | some g =>
      have e : presentReads w (i :: is) = g :: presentReads w is := by
        simp only [presentReads, List.filterMap_cons, h]
      rw [e, ih]
      simp only [Datum.combine, ite_ge_eq_max, maxTime, sumFrom, List.foldl_cons, List.length_cons]
      congr 1
      omega

/-- the state half of `Axle::update` -/
def axleStates (w : World F) (is : List Nat) : World F :=
  let start : Datum (State F) × Nat := (⟨-9223372036854775808, ⟨c0, c0, c0⟩⟩, 0)
  let acc := is.foldl (fun (a : Datum (State F) × Nat) i =>
    match w.getState i with
    | some g => (Datum.combine State.add a.1 g, a.2 + 1)
    | none => a) start
  if acc.2 ≥ 1 then
    let d := Datum.scalar State.divF acc.1 (FloatLike.ofInt (acc.2 : Int) : F)
    is.foldl (fun w' i => w'.setState i d) w
  else w

/-- closed form of the state half: broadcast `axleDatum` iff some terminal reads a state -/
theorem axleStates_eq (w : World F) (is : List Nat) :
    axleStates w is =
      if (presentReads w is).length ≥ 1 then is.foldl (fun w' i => w'.setState i (axleDatum (presentReads w is))) w
      else w := by
  simp only [axleStates, axle_acc, Nat.zero_add, Datum.scalar, axleDatum, i64Min]

/-- the command half of `Axle::update` only touches command slots of the axle's terminals -/
theorem axle_update_cmdOnly (w : World F) (is : List Nat) :
    CmdOnly is (axleStates w is) (Axle.update w is) := by
  show CmdOnly is (axleStates w is)
    (match is.foldl (fun (m : Option (Datum (Command F))) i =>
        (Datum.replaceIfNoneOrOlderThanOption m ((axleStates w is).getCommand i)).1) none with
    | some dc => is.foldl (fun w' i => w'.setCommand i dc) (axleStates w is)
    | none => axleStates w is)
  split
  · exact cmdOnly_foldl_setCommand _ is (fun _ h => h) (cmdOnly_refl _ _)
  · exact cmdOnly_refl _ _

/-- broadcasting one datum over a list of terminals -/
theorem foldl_setState (d : Datum (State F)) (l : List Nat) : ∀ (w : World F),
    (∀ j, ((l.foldl (fun w' i => w'.setState i d) w).t j).state = if j ∈ l then some d else (w.t j).state) ∧
    (∀ j, ((l.foldl (fun w' i => w'.setState i d) w).t j).other = (w.t j).other) ∧
    (∀ j, j ∉ l → (l.foldl (fun w' i => w'.setState i d) w).t j = w.t j) ∧
    (l.foldl (fun w' i => w'.setState i d) w).n = w.n := by
  induction l with
  | nil => intro w; simp
  | cons a l ih =>
    intro w
    simp only [List.foldl_cons]
    obtain ⟨h1, h2, h3, h4⟩ := ih (w.setState a d)
    refine ⟨?_, ?_, ?_, ?_⟩
    · intro j; rw [h1, setState_slot]
      by_cases hjl : j ∈ l
      · simp [hjl]
      · by_cases hja : j = a <;> simp [hjl, hja]
    · intro j; rw [h2, setState_other]
    · intro j hj
      have hja : j ≠ a := fun e => hj (e ▸ List.mem_cons_self ..)
      have hjl : j ∉ l := fun e => hj (List.mem_cons_of_mem a e)
      rw [h3 j hjl, setState_ne _ _ _ _ hja]
    · rw [h4]; rfl

/-- no terminal of the axle reads a state: no state slot is written -/
theorem axle_update_none (w : World F) (is : List Nat) (h : ∀ i ∈ is, w.getState i = none) :
    Frame is w (Axle.update w is) ∧ ∀ j, ((Axle.update w is).t j).state = (w.t j).state := by
  have hc := axle_update_cmdOnly w is
  have hp : presentReads w is = [] := by
    simp only [presentReads, List.filterMap_eq_nil_iff]; exact h
  have e : axleStates w is = w := by rw [axleStates_eq, hp]; simp
  rw [e] at hc
  exact hc

/-- some terminal of the axle reads a state: **every** terminal of the axle (those without information
included) receives the same datum `axleDatum (presentReads w is)`; nothing else changes.  Any list length;
the list need not even be duplicate-free (a terminal listed twice is read and counted twice, as in the code). -/
theorem axle_update_broadcast (w : World F) (is : List Nat) (h : ∃ i ∈ is, w.getState i ≠ none) :
    Frame is w (Axle.update w is) ∧
    (∀ i ∈ is, ((Axle.update w is).t i).state = some (axleDatum (presentReads w is))) ∧
    (∀ j, j ∉ is → ((Axle.update w is).t j).state = (w.t j).state) := by
  have hc := axle_update_cmdOnly w is
  have hp : (presentReads w is).length ≥ 1 := by
    obtain ⟨i, hi, hne⟩ := h
    cases hg : w.getState i with
    | none => exact absurd hg hne
    | some g =>
      have : g ∈ presentReads w is := by
        simp only [presentReads, List.mem_filterMap]; exact ⟨i, hi, hg⟩
      exact List.length_pos_of_mem this
  have e : axleStates w is = is.foldl (fun w' i => w'.setState i (axleDatum (presentReads w is))) w := by
    rw [axleStates_eq]; simp [hp]
  rw [e] at hc
  obtain ⟨f1, f2, f3, f4⟩ := foldl_setState (axleDatum (presentReads w is)) is w
  refine ⟨frame_trans ⟨f4, f2, f3⟩ hc.1, ?_, ?_⟩
  · intro i hi; rw [hc.2, f1]; simp [hi]
  · intro j hj; rw [hc.2, f1]; simp [hj]

/-- the count the sum is divided by is the number of terminals that read a state, and the time is the running
maximum, which dominates the start value and every contributing read and is one of them -/
theorem maxTime_spec {α : Type} (ds : List (Datum α)) : ∀ (t0 : Int),
    t0 ≤ maxTime t0 ds ∧ (∀ d ∈ ds, d.time ≤ maxTime t0 ds) ∧
    (maxTime t0 ds = t0 ∨ ∃ d ∈ ds, maxTime t0 ds = d.time) := by
  induction ds with
  | nil => intro t0; simp [maxTime]
  | cons a ds ih =>
    intro t0
    obtain ⟨h1, h2, h3⟩ := ih (max t0 a.time)
    have e : maxTime t0 (a :: ds) = maxTime (max t0 a.time) ds := rfl
    rw [e]
    refine ⟨by omega, ?_, ?_⟩
    · intro d hd
      rcases List.mem_cons.1 hd with rfl | hd
      · omega
      · exact h2 d hd
    · rcases h3 with h3 | ⟨d, hd, h3⟩
      · by_cases hle : a.time ≤ t0
        · left; omega
        · right; exact ⟨a, List.mem_cons_self .., by omega⟩
      · right; exact ⟨d, List.mem_cons_of_mem a hd, h3⟩

/-- the axle's timestamp is the newest contributing time: with at least one read (all `i64` times),
it is the time of some present read and no present read is newer -/
theorem axle_time_is_newest (ds : List (Datum (State F))) (hne : ds ≠ [])
    (hmin : ∀ d ∈ ds, i64Min ≤ d.time) :
    (∃ d ∈ ds, (axleDatum ds).time = d.time) ∧ ∀ d ∈ ds, d.time ≤ (axleDatum ds).time := by
  obtain ⟨h1, h2, h3⟩ := maxTime_spec ds i64Min
  refine ⟨?_, h2⟩
  rcases h3 with h3 | h3
  · cases ds with
    | nil => exact absurd rfl hne
    | cons a ds =>
      refine ⟨a, List.mem_cons_self .., ?_⟩
      have ha := hmin a (List.mem_cons_self ..)
      have hb := h2 a (List.mem_cons_self ..)
      show maxTime i64Min (a :: ds) = a.time
      omega
  · exact h3

/-- the number of present reads is at most the number of terminals -/
theorem presentReads_length_le (w : World F) (is : List Nat) : (presentReads w is).length ≤ is.length :=
  List.length_filterMap_le _ _

/-! ## differential -/

/-- the branches a differential reads (trusts) in each mode -/
def trusted (mode : Distrust) (i1 i2 isum : Nat) : List Nat :=
  match mode with
  | .side1 => [isum, i2]
  | .side2 => [isum, i1]
  | .sum => [i1, i2]
  | .equal => [isum, i1, i2]

/-- a differential does nothing at all until every branch it trusts reads a state -/
theorem diff_waits_for_trusted (mode : Distrust) (w : World F) (i1 i2 isum : Nat)
    (h : ∃ i ∈ trusted mode i1 i2 isum, w.getState i = none) :
    Differential.update mode w i1 i2 isum = w := by
  obtain ⟨i, hi, hn⟩ := h
  cases mode <;> simp only [trusted, List.mem_cons, List.not_mem_nil, or_false] at hi <;>
    simp only [Differential.update]
  · rcases hi with rfl | rfl
    · simp only [hn]
    · cases w.getState isum <;> simp only [hn]
  · rcases hi with rfl | rfl
    · simp only [hn]
    · cases w.getState isum <;> simp only [hn]
  · rcases hi with rfl | rfl
    · simp only [hn]
    · cases w.getState i1 <;> simp only [hn]
  · rcases hi with rfl | rfl | rfl
    · simp only [hn]
    · cases w.getState isum <;> simp only [hn]
    · cases w.getState isum <;> cases w.getState i1 <;> simp only [hn]

/-- a single `setState` in frame form -/
theorem setState_frame (dev : List Nat) (w : World F) (i : Nat) (d : Datum (State F)) (hi : i ∈ dev) :
    Frame dev w (w.setState i d) ∧ ((w.setState i d).t i).state = some d ∧
    ∀ j, j ≠ i → ((w.setState i d).t j).state = (w.t j).state := by
  refine ⟨frame_setState i d hi (frame_refl _ w), ?_, ?_⟩
  · rw [setState_slot]; simp
  · intro j hj; rw [setState_slot]; simp [hj]

/-- distrust side 1: only slot `i1` is written, with `sum − side2` stamped with the newer of the two reads;
the read (and the old slot) of side 1 plays no role -/
theorem diff_update_side1 (w : World F) (i1 i2 isum : Nat) (s b : Datum (State F))
    (hs : w.getState isum = some s) (h2 : w.getState i2 = some b) :
    Differential.update .side1 w i1 i2 isum
      = w.setState i1 ⟨max s.time b.time, State.sub s.value b.value⟩ ∧
    Frame [i1, i2, isum] w (Differential.update .side1 w i1 i2 isum) ∧
    ((Differential.update .side1 w i1 i2 isum).t i1).state
      = some ⟨max s.time b.time, State.sub s.value b.value⟩ ∧
    ∀ j, j ≠ i1 → ((Differential.update .side1 w i1 i2 isum).t j).state = (w.t j).state := by
  have e : Differential.update .side1 w i1 i2 isum
      = w.setState i1 ⟨max s.time b.time, State.sub s.value b.value⟩ := by
    simp only [Differential.update, hs, h2, Datum.combine, ite_ge_eq_max]
  rw [e]
  exact ⟨rfl, setState_frame _ w i1 _ (by simp)⟩

/-- distrust side 2: only slot `i2` is written, with `sum − side1` -/
theorem diff_update_side2 (w : World F) (i1 i2 isum : Nat) (s a : Datum (State F))
    (hs : w.getState isum = some s) (h1 : w.getState i1 = some a) :
    Differential.update .side2 w i1 i2 isum
      = w.setState i2 ⟨max s.time a.time, State.sub s.value a.value⟩ ∧
    Frame [i1, i2, isum] w (Differential.update .side2 w i1 i2 isum) ∧
    ((Differential.update .side2 w i1 i2 isum).t i2).state
      = some ⟨max s.time a.time, State.sub s.value a.value⟩ ∧
    ∀ j, j ≠ i2 → ((Differential.update .side2 w i1 i2 isum).t j).state = (w.t j).state := by
  have e : Differential.update .side2 w i1 i2 isum
      = w.setState i2 ⟨max s.time a.time, State.sub s.value a.value⟩ := by
    simp only [Differential.update, hs, h1, Datum.combine, ite_ge_eq_max]
  rw [e]
  exact ⟨rfl, setState_frame _ w i2 _ (by simp)⟩

/-- distrust sum: only slot `isum` is written, with `side1 + side2` -/
theorem diff_update_sum (w : World F) (i1 i2 isum : Nat) (a b : Datum (State F))
    (h1 : w.getState i1 = some a) (h2 : w.getState i2 = some b) :
    Differential.update .sum w i1 i2 isum
      = w.setState isum ⟨max a.time b.time, State.add a.value b.value⟩ ∧
    Frame [i1, i2, isum] w (Differential.update .sum w i1 i2 isum) ∧
    ((Differential.update .sum w i1 i2 isum).t isum).state
      = some ⟨max a.time b.time, State.add a.value b.value⟩ ∧
    ∀ j, j ≠ isum → ((Differential.update .sum w i1 i2 isum).t j).state = (w.t j).state := by
  have e : Differential.update .sum w i1 i2 isum
      = w.setState isum ⟨max a.time b.time, State.add a.value b.value⟩ := by
    simp only [Differential.update, h1, h2, Datum.combine, ite_ge_eq_max]
  rw [e]
  exact ⟨rfl, setState_frame _ w isum _ (by simp)⟩

/-- the three values of the `Equal` mode, as the code computes them from reads `x` (side 1), `y` (side 2), `z` (sum) -/
def eqNew1 (x y z : State F) : State F := State.divF (State.add (State.sub (State.mulF x c2) y) z) c3
def eqNew2 (x y z : State F) : State F := State.divF (State.add (State.add (State.neg x) (State.mulF y c2)) z) c3
def eqNewSum (x y z : State F) : State F := State.divF (State.add (State.add x y) (State.mulF z c2)) c3

/-- trust all three: all three slots written, each stamped with the newest of the three reads -/
theorem diff_update_equal (w : World F) (i1 i2 isum : Nat) (a b s : Datum (State F))
    (h12 : i1 ≠ i2) (h1s : i1 ≠ isum) (h2s : i2 ≠ isum)
    (h1 : w.getState i1 = some a) (h2 : w.getState i2 = some b) (hs : w.getState isum = some s) :
    Frame [i1, i2, isum] w (Differential.update .equal w i1 i2 isum) ∧
    ((Differential.update .equal w i1 i2 isum).t i1).state
      = some ⟨max (max a.time b.time) s.time, eqNew1 a.value b.value s.value⟩ ∧
    ((Differential.update .equal w i1 i2 isum).t i2).state
      = some ⟨max (max a.time b.time) s.time, eqNew2 a.value b.value s.value⟩ ∧
    ((Differential.update .equal w i1 i2 isum).t isum).state
      = some ⟨max (max a.time b.time) s.time, eqNewSum a.value b.value s.value⟩ ∧
    ∀ j, j ≠ i1 → j ≠ i2 → j ≠ isum → ((Differential.update .equal w i1 i2 isum).t j).state = (w.t j).state := by
  have e1 : Datum.scalar State.divF (Datum.combine State.add (Datum.combine State.add a b)
      (Datum.scalar State.mulF s (c2 : F))) (c3 : F)
      = ⟨max (max a.time b.time) s.time, eqNewSum a.value b.value s.value⟩ :=
    datum_eq _ _ _ (by simp only [scalar_time, combine_time, map_time]) rfl
  have e2 : Datum.scalar State.divF (Datum.combine State.add (Datum.combine State.sub
      (Datum.scalar State.mulF a (c2 : F)) b) s) (c3 : F)
      = ⟨max (max a.time b.time) s.time, eqNew1 a.value b.value s.value⟩ :=
    datum_eq _ _ _ (by simp only [scalar_time, combine_time, map_time]) rfl
  have e3 : Datum.scalar State.divF (Datum.combine State.add (Datum.combine State.add
      (Datum.map State.neg a) (Datum.scalar State.mulF b (c2 : F))) s) (c3 : F)
      = ⟨max (max a.time b.time) s.time, eqNew2 a.value b.value s.value⟩ :=
    datum_eq _ _ _ (by simp only [scalar_time, combine_time, map_time]) rfl
  have e : Differential.update .equal w i1 i2 isum
      = ((w.setState isum ⟨max (max a.time b.time) s.time, eqNewSum a.value b.value s.value⟩).setState i1
          ⟨max (max a.time b.time) s.time, eqNew1 a.value b.value s.value⟩).setState i2
          ⟨max (max a.time b.time) s.time, eqNew2 a.value b.value s.value⟩ := by
    simp only [Differential.update, h1, h2, hs, e1, e2, e3]
  rw [e]
  refine ⟨frame_setState i2 _ (by simp) (frame_setState i1 _ (by simp) (frame_setState isum _ (by simp)
    (frame_refl _ w))), ?_, ?_, ?_, ?_⟩
  · rw [setState_slot, setState_slot]; simp [h12]
  · rw [setState_slot]; simp
  · rw [setState_slot, setState_slot, setState_slot]; simp [Ne.symm h1s, Ne.symm h2s]
  · intro j hj1 hj2 hjs; rw [setState_slot, setState_slot, setState_slot]; simp [hj1, hj2, hjs]

/-! ## gear train from tooth counts -/

/-- `GearTrain::new(teeth)` for any `N ≥ 2`: ratio `first / last`, times `−1` for an even number of gears
and `+1` for an odd number -/
theorem gear_ratio_from_teeth (teeth : List F) (h : teeth.length ≥ 2) :
    ∃ first last, teeth.head? = some first ∧ teeth.getLast? = some last ∧
      GearTrain.ratioOfTeeth teeth = .ok (first / last * (if teeth.length % 2 = 0 then cm1 else c1)) := by
  match teeth, h with
  | first :: second :: rest, _ =>
    cases hl : (first :: second :: rest).getLast? with
    | none => simp at hl
    | some last =>
      refine ⟨first, last, rfl, rfl, ?_⟩
      simp only [GearTrain.ratioOfTeeth, hl]

/-- fewer than two gears: the constructor panics -/
theorem gear_ratio_too_few (teeth : List F) (h : teeth.length < 2) :
    GearTrain.ratioOfTeeth teeth = .error .arity := by
  match teeth, h with
  | [], _ => rfl
  | [a], _ => rfl

/-! ## components of the `State` operators (used to lift scalar facts to states) -/
theorem comp_add (k : PosDer) (a b : State F) : comp k (State.add a b) = comp k a + comp k b := by cases k <;> rfl
theorem comp_sub (k : PosDer) (a b : State F) : comp k (State.sub a b) = comp k a - comp k b := by cases k <;> rfl
theorem comp_neg (k : PosDer) (a : State F) : comp k (State.neg a) = - comp k a := by cases k <;> rfl
theorem comp_mulF (k : PosDer) (a : State F) (x : F) : comp k (State.mulF a x) = comp k a * x := by cases k <;> rfl
theorem comp_divF (k : PosDer) (a : State F) (x : F) : comp k (State.divF a x) = comp k a / x := by cases k <;> rfl

/-- inverter, both reads present: the two states held afterwards are exact negatives of each other
(`side2 = −side1`), true for any scalar type because the code negates the value it has just written -/
theorem invert_satisfies_constraint (w : World F) (i1 i2 : Nat) (d1 d2 : Datum (State F)) (hd : i1 ≠ i2)
    (h1 : w.getState i1 = some d1) (h2 : w.getState i2 = some d2) :
    ∃ s1 s2 : State F,
      ((Invert.update w i1 i2).t i1).state = some ⟨max d1.time d2.time, s1⟩ ∧
      ((Invert.update w i1 i2).t i2).state = some ⟨max d1.time d2.time, s2⟩ ∧
      s2 = State.neg s1 ∧ ∀ k, comp k s2 = - comp k s1 := by
  obtain ⟨_, ha, hb, _⟩ := invert_update_both w i1 i2 d1 d2 hd h1 h2
  exact ⟨_, _, ha, hb, rfl, fun k => comp_neg k _⟩

/-- axle: after an update in which some terminal read a state, all terminals of the axle hold the same datum -/
theorem axle_satisfies_constraint (w : World F) (is : List Nat) (h : ∃ i ∈ is, w.getState i ≠ none) :
    ∀ i ∈ is, ∀ j ∈ is, ((Axle.update w is).t i).state = ((Axle.update w is).t j).state ∧
      ((Axle.update w is).t i).state ≠ none := by
  obtain ⟨_, hb, _⟩ := axle_update_broadcast w is h
  intro i hi j hj
  rw [hb i hi, hb j hj]; simp

end S

/-! # Tier R: ordered field, exact scalars -/
section R
variable {F : Type} [Field F] [LinearOrder F] [IsStrictOrderedRing F] [FloatLike F] [ExactScalar F]

/-! ## scalar optimisation lemmas -/

/-- inverter: `(a, −a)` with `a = (x − y)/2` is the point of the line `{(a', −a')}` closest to `(x, y)` -/
theorem scalar_invert_ls (x y a' : F) :
    (x - (x - y) / 2) ^ 2 + (y - -((x - y) / 2)) ^ 2 ≤ (x - a') ^ 2 + (y - -a') ^ 2 := by
  nlinarith [sq_nonneg (a' - (x - y) / 2)]

/-- gear train: `(a, r·a)` with `a = (x + y·r)/(r·r + 1)` is the point of the line `{(a', r·a')}` closest to `(x, y)` -/
theorem scalar_gear_ls (r x y a' : F) :
    (x - (x + y * r) / (r * r + 1)) ^ 2 + (y - (x + y * r) * r / (r * r + 1)) ^ 2
      ≤ (x - a') ^ 2 + (y - r * a') ^ 2 := by
  have hD : (0 : F) < r * r + 1 := by have := mul_self_nonneg r; linarith
  have key : (x - a') ^ 2 + (y - r * a') ^ 2
      = (x - (x + y * r) / (r * r + 1)) ^ 2 + (y - (x + y * r) * r / (r * r + 1)) ^ 2
        + (r * r + 1) * (a' - (x + y * r) / (r * r + 1)) ^ 2 := by
    field_simp
    ring
  rw [key]
  have : 0 ≤ (r * r + 1) * (a' - (x + y * r) / (r * r + 1)) ^ 2 := by positivity
  linarith

/-- differential, all branches trusted: the written triple is the point of the plane `{(a', b', a' + b')}`
closest to `(x, y, z)` -/
theorem scalar_diff_ls (x y z a' b' : F) :
    (x - (x * 2 - y + z) / 3) ^ 2 + (y - (-x + y * 2 + z) / 3) ^ 2 + (z - (x + y + z * 2) / 3) ^ 2
      ≤ (x - a') ^ 2 + (y - b') ^ 2 + (z - (a' + b')) ^ 2 := by
  have key : (x - a') ^ 2 + (y - b') ^ 2 + (z - (a' + b')) ^ 2
      = (x - (x * 2 - y + z) / 3) ^ 2 + (y - (-x + y * 2 + z) / 3) ^ 2 + (z - (x + y + z * 2) / 3) ^ 2
        + ((a' - (x * 2 - y + z) / 3) ^ 2 + (b' - (-x + y * 2 + z) / 3) ^ 2
           + ((a' - (x * 2 - y + z) / 3) + (b' - (-x + y * 2 + z) / 3)) ^ 2) := by
    ring
  rw [key]
  have : 0 ≤ (a' - (x * 2 - y + z) / 3) ^ 2 + (b' - (-x + y * 2 + z) / 3) ^ 2
           + ((a' - (x * 2 - y + z) / 3) + (b' - (-x + y * 2 + z) / 3)) ^ 2 := by positivity
  linarith

/-- sum of squared deviations of a list of scalars from `m` -/
def sqDev (xs : List F) (m : F) : F := (xs.map (fun x => (x - m) ^ 2)).sum

theorem sqDev_cons (x : F) (xs : List F) (m : F) : sqDev (x :: xs) m = (x - m) ^ 2 + sqDev xs m := by
  simp [sqDev]

/-- for every list length: moving the centre from `m` to `m'` -/
theorem sqDev_shift (xs : List F) (m m' : F) :
    sqDev xs m' = sqDev xs m + 2 * (m - m') * (xs.sum - xs.length * m) + xs.length * (m - m') ^ 2 := by
  induction xs with
  | nil => simp [sqDev]
  | cons x xs ih =>
    rw [sqDev_cons, sqDev_cons, ih]
    simp only [List.sum_cons, List.length_cons, Nat.cast_succ]
    ring

/-- axle: the mean minimises the sum of squared deviations, for a list of any positive length;
the excess of any other centre is exactly `n·(m − m')²` -/
theorem scalar_mean_ls (xs : List F) (hne : xs ≠ []) (m' : F) :
    sqDev xs m' = sqDev xs (xs.sum / xs.length) + xs.length * (xs.sum / xs.length - m') ^ 2 ∧
    sqDev xs (xs.sum / xs.length) ≤ sqDev xs m' := by
  have hn : (0 : F) < xs.length := by
    have : 0 < xs.length := List.length_pos_iff.2 hne
    exact_mod_cast this
  have h0 : xs.sum - xs.length * (xs.sum / xs.length) = 0 := by
    field_simp; ring
  have key := sqDev_shift xs (xs.sum / xs.length) m'
  rw [h0] at key
  have hk : sqDev xs m' = sqDev xs (xs.sum / xs.length) + xs.length * (xs.sum / xs.length - m') ^ 2 := by
    rw [key]; ring
  refine ⟨hk, ?_⟩
  have : 0 ≤ (xs.length : F) * (xs.sum / xs.length - m') ^ 2 := by positivity
  linarith

/-- squared distance of two states (sum over position, velocity, acceleration) -/
def sqDist (a b : State F) : F :=
  (a.position - b.position) ^ 2 + (a.velocity - b.velocity) ^ 2 + (a.acceleration - b.acceleration) ^ 2

theorem sqDist_eq (a b : State F) :
    sqDist a b = (comp .position a - comp .position b) ^ 2 + (comp .velocity a - comp .velocity b) ^ 2
      + (comp .acceleration a - comp .acceleration b) ^ 2 := rfl

/-! ## inverter (tier R) -/

/-- B2, inverter: the pair of states held after the update is `(s1, −s1)` and, in every component, is the
least-squares projection of the pair of reads onto the constraint `side2 = −side1`. -/
theorem invert_least_squares (w : World F) (i1 i2 : Nat) (d1 d2 : Datum (State F)) (hd : i1 ≠ i2)
    (h1 : w.getState i1 = some d1) (h2 : w.getState i2 = some d2) :
    ∃ s1 s2 : State F,
      ((Invert.update w i1 i2).t i1).state = some ⟨max d1.time d2.time, s1⟩ ∧
      ((Invert.update w i1 i2).t i2).state = some ⟨max d1.time d2.time, s2⟩ ∧
      (∀ k, comp k s2 = - comp k s1) ∧
      (∀ k, comp k s1 = (comp k d1.value - comp k d2.value) / 2) ∧
      (∀ (k : PosDer) (a' : F),
        (comp k d1.value - comp k s1) ^ 2 + (comp k d2.value - comp k s2) ^ 2
          ≤ (comp k d1.value - a') ^ 2 + (comp k d2.value - -a') ^ 2) ∧
      (∀ p1 p2 : State F, p2 = State.neg p1 →
        sqDist d1.value s1 + sqDist d2.value s2 ≤ sqDist d1.value p1 + sqDist d2.value p2) := by
  obtain ⟨_, ha, hb, _⟩ := invert_update_both w i1 i2 d1 d2 hd h1 h2
  have hc : ∀ (k : PosDer) (a' : F),
      (comp k d1.value - comp k (State.divF (State.sub d1.value d2.value) c2)) ^ 2
        + (comp k d2.value - comp k (State.neg (State.divF (State.sub d1.value d2.value) c2))) ^ 2
        ≤ (comp k d1.value - a') ^ 2 + (comp k d2.value - -a') ^ 2 := by
    intro k a'
    simp only [comp_neg, comp_divF, comp_sub, c2_eq]
    exact scalar_invert_ls _ _ _
  refine ⟨_, _, ha, hb, fun k => comp_neg k _, ?_, hc, ?_⟩
  · intro k; simp only [comp_divF, comp_sub, c2_eq]
  · intro p1 p2 hp
    subst hp
    have e1 := hc .position (comp .position p1)
    have e2 := hc .velocity (comp .velocity p1)
    have e3 := hc .acceleration (comp .acceleration p1)
    simp only [sqDist_eq, comp_neg] at *
    linarith

/-- B3, inverter: reads that already satisfy `side2 = −side1` are reproduced unchanged -/
theorem invert_fixed_on_constraint (w : World F) (i1 i2 : Nat) (d1 d2 : Datum (State F)) (hd : i1 ≠ i2)
    (h1 : w.getState i1 = some d1) (h2 : w.getState i2 = some d2) (hc : d2.value = State.neg d1.value) :
    ((Invert.update w i1 i2).t i1).state = some ⟨max d1.time d2.time, d1.value⟩ ∧
    ((Invert.update w i1 i2).t i2).state = some ⟨max d1.time d2.time, d2.value⟩ := by
  obtain ⟨_, ha, hb, _⟩ := invert_update_both w i1 i2 d1 d2 hd h1 h2
  have e : State.divF (State.sub d1.value d2.value) (c2 : F) = d1.value := by
    apply state_ext; intro k
    simp only [hc, comp_neg, comp_divF, comp_sub, c2_eq]; ring
  rw [ha, hb, e, hc]
  exact ⟨rfl, rfl⟩

/-- one-sided propagation through an inverter: the value written on the empty side together with the read
on the other side satisfies the constraint in both directions -/
theorem invert_one_sided_constraint (w : World F) (i1 i2 : Nat) (d : Datum (State F)) :
    (w.getState i1 = none → w.getState i2 = some d →
      ∃ s1, ((Invert.update w i1 i2).t i1).state = some ⟨d.time, s1⟩ ∧ s1 = State.neg d.value ∧
        d.value = State.neg s1) ∧
    (w.getState i1 = some d → w.getState i2 = none →
      ∃ s2, ((Invert.update w i1 i2).t i2).state = some ⟨d.time, s2⟩ ∧ s2 = State.neg d.value) := by
  constructor
  · intro h1 h2
    obtain ⟨_, ha, _⟩ := invert_update_one_right w i1 i2 d h1 h2
    refine ⟨_, ha, rfl, ?_⟩
    apply state_ext; intro k; simp only [comp_neg, neg_neg]
  · intro h1 h2
    obtain ⟨_, ha, _⟩ := invert_update_one_left w i1 i2 d h1 h2
    exact ⟨_, ha, rfl⟩

/-! ## gear train (tier R) -/

/-- B1 + B2, gear train: the states held after the update satisfy `side2 = ratio·side1` and, in every
component, are the least-squares projection of the pair of reads onto that line. -/
theorem gear_least_squares (ratio : F) (w : World F) (i1 i2 : Nat) (d1 d2 : Datum (State F)) (hd : i1 ≠ i2)
    (h1 : w.getState i1 = some d1) (h2 : w.getState i2 = some d2) :
    ∃ s1 s2 : State F,
      ((GearTrain.update ratio w i1 i2).t i1).state = some ⟨max d1.time d2.time, s1⟩ ∧
      ((GearTrain.update ratio w i1 i2).t i2).state = some ⟨max d1.time d2.time, s2⟩ ∧
      (∀ k, comp k s2 = ratio * comp k s1) ∧
      (∀ k, comp k s1 = (comp k d1.value + ratio * comp k d2.value) / (ratio ^ 2 + 1)) ∧
      (∀ (k : PosDer) (a' : F),
        (comp k d1.value - comp k s1) ^ 2 + (comp k d2.value - comp k s2) ^ 2
          ≤ (comp k d1.value - a') ^ 2 + (comp k d2.value - ratio * a') ^ 2) ∧
      (∀ p1 p2 : State F, p2 = State.mulF p1 ratio →
        sqDist d1.value s1 + sqDist d2.value s2 ≤ sqDist d1.value p1 + sqDist d2.value p2) := by
  obtain ⟨_, ha, hb, _⟩ := gear_update_both ratio w i1 i2 d1 d2 hd h1 h2
  have hc : ∀ (k : PosDer) (a' : F),
      (comp k d1.value - comp k (gearNew1 ratio d1.value d2.value)) ^ 2
        + (comp k d2.value - comp k (gearNew2 ratio d1.value d2.value)) ^ 2
        ≤ (comp k d1.value - a') ^ 2 + (comp k d2.value - ratio * a') ^ 2 := by
    intro k a'
    simp only [gearNew1, gearNew2, comp_divF, comp_mulF, comp_add, c1_eq]
    exact scalar_gear_ls _ _ _ _
  refine ⟨_, _, ha, hb, ?_, ?_, hc, ?_⟩
  · intro k
    simp only [gearNew1, gearNew2, comp_divF, comp_mulF, comp_add, c1_eq]; ring
  · intro k
    simp only [gearNew1, comp_divF, comp_mulF, comp_add, c1_eq]; ring
  · intro p1 p2 hp
    subst hp
    have e1 := hc .position (comp .position p1)
    have e2 := hc .velocity (comp .velocity p1)
    have e3 := hc .acceleration (comp .acceleration p1)
    simp only [sqDist_eq, comp_mulF] at *
    have c1' : ∀ u : F, u * ratio = ratio * u := fun u => mul_comm _ _
    simp only [c1'] at *
    linarith

/-- B1, gear train -/
theorem gear_satisfies_constraint (ratio : F) (w : World F) (i1 i2 : Nat) (d1 d2 : Datum (State F))
    (hd : i1 ≠ i2) (h1 : w.getState i1 = some d1) (h2 : w.getState i2 = some d2) :
    ∃ s1 s2 : State F,
      ((GearTrain.update ratio w i1 i2).t i1).state = some ⟨max d1.time d2.time, s1⟩ ∧
      ((GearTrain.update ratio w i1 i2).t i2).state = some ⟨max d1.time d2.time, s2⟩ ∧
      s2 = State.mulF s1 ratio := by
  obtain ⟨s1, s2, ha, hb, hc, _⟩ := gear_least_squares ratio w i1 i2 d1 d2 hd h1 h2
  refine ⟨s1, s2, ha, hb, ?_⟩
  apply state_ext; intro k; rw [hc k, comp_mulF, mul_comm]

/-- B3, gear train: reads that already satisfy `side2 = ratio·side1` are reproduced unchanged -/
theorem gear_fixed_on_constraint (ratio : F) (w : World F) (i1 i2 : Nat) (d1 d2 : Datum (State F))
    (hd : i1 ≠ i2) (h1 : w.getState i1 = some d1) (h2 : w.getState i2 = some d2)
    (hc : d2.value = State.mulF d1.value ratio) :
    ((GearTrain.update ratio w i1 i2).t i1).state = some ⟨max d1.time d2.time, d1.value⟩ ∧
    ((GearTrain.update ratio w i1 i2).t i2).state = some ⟨max d1.time d2.time, d2.value⟩ := by
  obtain ⟨_, ha, hb, _⟩ := gear_update_both ratio w i1 i2 d1 d2 hd h1 h2
  have hD : (ratio * ratio + 1 : F) ≠ 0 := by have := mul_self_nonneg ratio; intro h; linarith
  have e1 : gearNew1 ratio d1.value d2.value = d1.value := by
    apply state_ext; intro k
    simp only [gearNew1, hc, comp_divF, comp_mulF, comp_add, c1_eq]
    field_simp
    ring
  have e2 : gearNew2 ratio d1.value d2.value = d2.value := by
    apply state_ext; intro k
    simp only [gearNew2, hc, comp_divF, comp_mulF, comp_add, c1_eq]
    field_simp
    ring
  rw [ha, hb, e1, e2]
  exact ⟨rfl, rfl⟩

/-- B4, one-sided propagation through a gear train (`ratio ≠ 0`): the value written on the empty side and
the read on the other side satisfy `side2 = ratio·side1`, and the two directions are mutually inverse. -/
theorem gear_one_sided_constraint (ratio : F) (hr : ratio ≠ 0) (w : World F) (i1 i2 : Nat) (d : Datum (State F)) :
    (w.getState i1 = some d → w.getState i2 = none →
      ∃ s2, ((GearTrain.update ratio w i1 i2).t i2).state = some ⟨d.time, s2⟩ ∧
        s2 = State.mulF d.value ratio ∧ State.divF s2 ratio = d.value) ∧
    (w.getState i1 = none → w.getState i2 = some d →
      ∃ s1, ((GearTrain.update ratio w i1 i2).t i1).state = some ⟨d.time, s1⟩ ∧
        s1 = State.divF d.value ratio ∧ d.value = State.mulF s1 ratio) := by
  constructor
  · intro h1 h2
    obtain ⟨_, ha, _⟩ := gear_update_one_left ratio w i1 i2 d h1 h2
    refine ⟨_, ha, rfl, ?_⟩
    apply state_ext; intro k; simp only [comp_divF, comp_mulF]; field_simp
  · intro h1 h2
    obtain ⟨_, ha, _⟩ := gear_update_one_right ratio w i1 i2 d h1 h2
    refine ⟨_, ha, rfl, ?_⟩
    apply state_ext; intro k; simp only [comp_divF, comp_mulF]; field_simp

/-! ## differential (tier R) -/

/-- B1/B3, distrust side 1: the recomputed branch together with the two reads it was computed from satisfies
`side1 + side2 = sum`; hence if the reads are consistent with some value `x` of side 1 (`sum = x + side2`),
exactly `x` is written. -/
theorem diff_side1_satisfies_constraint (w : World F) (i1 i2 isum : Nat) (s b : Datum (State F))
    (hs : w.getState isum = some s) (h2 : w.getState i2 = some b) :
    ∃ n1 : State F,
      ((Differential.update .side1 w i1 i2 isum).t i1).state = some ⟨max s.time b.time, n1⟩ ∧
      State.add n1 b.value = s.value ∧
      ∀ x : State F, s.value = State.add x b.value → n1 = x := by
  obtain ⟨_, _, ha, _⟩ := diff_update_side1 w i1 i2 isum s b hs h2
  refine ⟨_, ha, ?_, ?_⟩
  · apply state_ext; intro k; simp only [comp_add, comp_sub]; ring
  · intro x hx; apply state_ext; intro k; simp only [hx, comp_add, comp_sub]; ring

/-- B1/B3, distrust side 2 -/
theorem diff_side2_satisfies_constraint (w : World F) (i1 i2 isum : Nat) (s a : Datum (State F))
    (hs : w.getState isum = some s) (h1 : w.getState i1 = some a) :
    ∃ n2 : State F,
      ((Differential.update .side2 w i1 i2 isum).t i2).state = some ⟨max s.time a.time, n2⟩ ∧
      State.add a.value n2 = s.value ∧
      ∀ y : State F, s.value = State.add a.value y → n2 = y := by
  obtain ⟨_, _, ha, _⟩ := diff_update_side2 w i1 i2 isum s a hs h1
  refine ⟨_, ha, ?_, ?_⟩
  · apply state_ext; intro k; simp only [comp_add, comp_sub]; ring
  · intro y hy; apply state_ext; intro k; simp only [hy, comp_add, comp_sub]; ring

/-- B1/B3, distrust sum: the sum slot receives exactly `side1 + side2` (true for any scalar type) -/
theorem diff_sum_satisfies_constraint (w : World F) (i1 i2 isum : Nat) (a b : Datum (State F))
    (h1 : w.getState i1 = some a) (h2 : w.getState i2 = some b) :
    ∃ ns : State F,
      ((Differential.update .sum w i1 i2 isum).t isum).state = some ⟨max a.time b.time, ns⟩ ∧
      State.add a.value b.value = ns := by
  obtain ⟨_, _, ha, _⟩ := diff_update_sum w i1 i2 isum a b h1 h2
  exact ⟨_, ha, rfl⟩

/-- B1 + B2, all branches trusted: the three states held after the update satisfy `side1 + side2 = sum` and,
in every component, are the least-squares projection of the three reads onto that plane. -/
theorem diff_equal_least_squares (w : World F) (i1 i2 isum : Nat) (a b s : Datum (State F))
    (h12 : i1 ≠ i2) (h1s : i1 ≠ isum) (h2s : i2 ≠ isum)
    (h1 : w.getState i1 = some a) (h2 : w.getState i2 = some b) (hs : w.getState isum = some s) :
    ∃ n1 n2 ns : State F,
      ((Differential.update .equal w i1 i2 isum).t i1).state = some ⟨max (max a.time b.time) s.time, n1⟩ ∧
      ((Differential.update .equal w i1 i2 isum).t i2).state = some ⟨max (max a.time b.time) s.time, n2⟩ ∧
      ((Differential.update .equal w i1 i2 isum).t isum).state = some ⟨max (max a.time b.time) s.time, ns⟩ ∧
      State.add n1 n2 = ns ∧
      (∀ k, comp k n1 = (2 * comp k a.value - comp k b.value + comp k s.value) / 3 ∧
            comp k n2 = (- comp k a.value + 2 * comp k b.value + comp k s.value) / 3 ∧
            comp k ns = (comp k a.value + comp k b.value + 2 * comp k s.value) / 3) ∧
      (∀ (k : PosDer) (a' b' : F),
        (comp k a.value - comp k n1) ^ 2 + (comp k b.value - comp k n2) ^ 2 + (comp k s.value - comp k ns) ^ 2
          ≤ (comp k a.value - a') ^ 2 + (comp k b.value - b') ^ 2 + (comp k s.value - (a' + b')) ^ 2) ∧
      (∀ p1 p2 ps : State F, ps = State.add p1 p2 →
        sqDist a.value n1 + sqDist b.value n2 + sqDist s.value ns
          ≤ sqDist a.value p1 + sqDist b.value p2 + sqDist s.value ps) := by
  obtain ⟨_, ha, hb, hc, _⟩ := diff_update_equal w i1 i2 isum a b s h12 h1s h2s h1 h2 hs
  have hls : ∀ (k : PosDer) (a' b' : F),
      (comp k a.value - comp k (eqNew1 a.value b.value s.value)) ^ 2
        + (comp k b.value - comp k (eqNew2 a.value b.value s.value)) ^ 2
        + (comp k s.value - comp k (eqNewSum a.value b.value s.value)) ^ 2
        ≤ (comp k a.value - a') ^ 2 + (comp k b.value - b') ^ 2 + (comp k s.value - (a' + b')) ^ 2 := by
    intro k a' b'
    simp only [eqNew1, eqNew2, eqNewSum, comp_divF, comp_mulF, comp_add, comp_sub, comp_neg, c2_eq, c3_eq]
    exact scalar_diff_ls _ _ _ _ _
  refine ⟨_, _, _, ha, hb, hc, ?_, ?_, hls, ?_⟩
  · apply state_ext; intro k
    simp only [eqNew1, eqNew2, eqNewSum, comp_divF, comp_mulF, comp_add, comp_sub, comp_neg, c2_eq, c3_eq]
    ring
  · intro k
    simp only [eqNew1, eqNew2, eqNewSum, comp_divF, comp_mulF, comp_add, comp_sub, comp_neg, c2_eq, c3_eq]
    refine ⟨by ring, by ring, by ring⟩
  · intro p1 p2 ps hp
    subst hp
    have e1 := hls .position (comp .position p1) (comp .position p2)
    have e2 := hls .velocity (comp .velocity p1) (comp .velocity p2)
    have e3 := hls .acceleration (comp .acceleration p1) (comp .acceleration p2)
    simp only [sqDist_eq, comp_add] at *
    linarith

/-- B3, all branches trusted: reads with `sum = side1 + side2` are reproduced unchanged -/
theorem diff_equal_fixed_on_constraint (w : World F) (i1 i2 isum : Nat) (a b s : Datum (State F))
    (h12 : i1 ≠ i2) (h1s : i1 ≠ isum) (h2s : i2 ≠ isum)
    (h1 : w.getState i1 = some a) (h2 : w.getState i2 = some b) (hs : w.getState isum = some s)
    (hc : s.value = State.add a.value b.value) :
    ((Differential.update .equal w i1 i2 isum).t i1).state = some ⟨max (max a.time b.time) s.time, a.value⟩ ∧
    ((Differential.update .equal w i1 i2 isum).t i2).state = some ⟨max (max a.time b.time) s.time, b.value⟩ ∧
    ((Differential.update .equal w i1 i2 isum).t isum).state = some ⟨max (max a.time b.time) s.time, s.value⟩ := by
  obtain ⟨_, ha, hb, hsm, _⟩ := diff_update_equal w i1 i2 isum a b s h12 h1s h2s h1 h2 hs
  have e1 : eqNew1 a.value b.value s.value = a.value := by
    apply state_ext; intro k
    simp only [eqNew1, hc, comp_divF, comp_mulF, comp_add, comp_sub, comp_neg, c2_eq, c3_eq]; ring
  have e2 : eqNew2 a.value b.value s.value = b.value := by
    apply state_ext; intro k
    simp only [eqNew2, hc, comp_divF, comp_mulF, comp_add, comp_sub, comp_neg, c2_eq, c3_eq]; ring
  have e3 : eqNewSum a.value b.value s.value = s.value := by
    apply state_ext; intro k
    simp only [eqNewSum, hc, comp_divF, comp_mulF, comp_add, comp_sub, comp_neg, c2_eq, c3_eq]; ring
  rw [ha, hb, hsm, e1, e2, e3]
  exact ⟨rfl, rfl, rfl⟩

/-! ## axle (tier R) -/

/-- component `k` of the code's left-to-right sum is the starting value plus the list sum -/
theorem comp_sumFrom (k : PosDer) (ds : List (Datum (State F))) : ∀ s0 : State F,
    comp k (sumFrom s0 ds) = comp k s0 + (ds.map (fun d => comp k d.value)).sum := by
  induction ds with
  | nil => intro s0; simp [sumFrom]
  | cons d ds ih =>
    intro s0
    have e : sumFrom s0 (d :: ds) = sumFrom (State.add s0 d.value) ds := rfl
    rw [e, ih, comp_add]
    simp only [List.map_cons, List.sum_cons]
    ring

/-- component `k` of the broadcast datum is the arithmetic mean of that component of the present reads -/
theorem comp_axleDatum (k : PosDer) (ds : List (Datum (State F))) :
    comp k (axleDatum ds).value
      = (ds.map (fun d => comp k d.value)).sum / ((ds.map (fun d => comp k d.value)).length : F) := by
  simp only [axleDatum, comp_divF, comp_sumFrom, List.length_map]
  have : comp k (⟨c0, c0, c0⟩ : State F) = 0 := by cases k <;> simp [comp]
  rw [this, zero_add, ExactScalar.ofInt_eq, Int.cast_natCast]

/-- B1 + B2, axle of any size: every terminal of the axle holds the same datum, stamped with the running
maximum of the read times, whose value is in every component the mean of the present reads, and the mean
minimises the sum of squared deviations from the reads. -/
theorem axle_least_squares (w : World F) (is : List Nat) (h : ∃ i ∈ is, w.getState i ≠ none) :
    ∃ d : Datum (State F),
      (∀ i ∈ is, ((Axle.update w is).t i).state = some d) ∧
      d.time = maxTime i64Min (presentReads w is) ∧
      (∀ k, comp k d.value = ((presentReads w is).map (fun r => comp k r.value)).sum
                              / ((presentReads w is).length : F)) ∧
      (∀ (k : PosDer) (m' : F),
        sqDev ((presentReads w is).map (fun r => comp k r.value)) (comp k d.value)
          ≤ sqDev ((presentReads w is).map (fun r => comp k r.value)) m') := by
  obtain ⟨_, hb, _⟩ := axle_update_broadcast w is h
  have hne : presentReads w is ≠ [] := by
    obtain ⟨i, hi, hn⟩ := h
    cases hg : w.getState i with
    | none => exact absurd hg hn
    | some g =>
      have : g ∈ presentReads w is := by
        simp only [presentReads, List.mem_filterMap]; exact ⟨i, hi, hg⟩
      exact List.ne_nil_of_mem this
  refine ⟨axleDatum (presentReads w is), hb, rfl, ?_, ?_⟩
  · intro k; rw [comp_axleDatum, List.length_map]
  · intro k m'
    rw [comp_axleDatum]
    exact (scalar_mean_ls _ (by simpa using hne) m').2

/-- B3, axle: if all present reads carry the same state `v`, that state is what every terminal receives -/
theorem axle_fixed_on_constraint (w : World F) (is : List Nat) (h : ∃ i ∈ is, w.getState i ≠ none)
    (v : State F) (hv : ∀ r ∈ presentReads w is, r.value = v) :
    ∀ i ∈ is, ((Axle.update w is).t i).state = some ⟨maxTime i64Min (presentReads w is), v⟩ := by
  obtain ⟨d, hb, ht, hm, _⟩ := axle_least_squares w is h
  have hne : (presentReads w is).length ≠ 0 := by
    obtain ⟨i, hi, hn⟩ := h
    cases hg : w.getState i with
    | none => exact absurd hg hn
    | some g =>
      have : g ∈ presentReads w is := by
        simp only [presentReads, List.mem_filterMap]; exact ⟨i, hi, hg⟩
      exact Nat.ne_of_gt (List.length_pos_of_mem this)
  have hsum : ∀ (k : PosDer) (ds : List (Datum (State F))), (∀ r ∈ ds, r.value = v) →
      (ds.map (fun r => comp k r.value)).sum = (ds.length : F) * comp k v := by
    intro k ds
    induction ds with
    | nil => intro _; simp
    | cons r ds ih =>
      intro hr
      simp only [List.map_cons, List.sum_cons, List.length_cons, Nat.cast_succ]
      rw [ih (fun r' hr' => hr r' (List.mem_cons_of_mem r hr')), hr r (List.mem_cons_self ..)]
      ring
  have hval : d.value = v := by
    apply state_ext; intro k
    rw [hm k, hsum k _ hv]
    have : ((presentReads w is).length : F) ≠ 0 := by exact_mod_cast hne
    field_simp
  intro i hi
  rw [hb i hi]
  cases d with
  | mk t x =>
    simp only at ht hval
    rw [ht, hval]

/-! ## tooth counts (tier R) -/

/-- the sign factor of `GearTrain::new` is `(−1)^(N−1)` -/
theorem gear_ratio_sign (N : Nat) (hN : N ≥ 1) :
    (if N % 2 = 0 then (cm1 : F) else c1) = (-1) ^ (N - 1) := by
  obtain ⟨m, rfl⟩ : ∃ m, N = m + 1 := ⟨N - 1, by omega⟩
  simp only [Nat.add_sub_cancel, cm1_eq, c1_eq]
  rcases Nat.even_or_odd m with he | ho
  · have : ¬ (m + 1) % 2 = 0 := by have := Nat.even_iff.1 he; omega
    rw [if_neg this, he.neg_one_pow]
  · have : (m + 1) % 2 = 0 := by have := Nat.odd_iff.1 ho; omega
    rw [if_pos this, ho.neg_one_pow]

/-- `GearTrain::new(teeth)`, `N ≥ 2`: ratio `first / last · (−1)^(N−1)` -/
theorem gear_ratio_from_teeth_pow (teeth : List F) (h : teeth.length ≥ 2) :
    ∃ first last, teeth.head? = some first ∧ teeth.getLast? = some last ∧
      GearTrain.ratioOfTeeth teeth = .ok (first / last * (-1) ^ (teeth.length - 1)) := by
  obtain ⟨f, l, h1, h2, h3⟩ := gear_ratio_from_teeth teeth h
  exact ⟨f, l, h1, h2, by rw [h3, gear_ratio_sign _ (by omega)]⟩

end R
/-! # Non-vacuity: every hypothesis pattern above is met by a concrete world over `ℚ` -/
section Examples

/-- terminals 0, 1, 2 hold states (times 5, 7, 6); terminal 3 is empty; terminal 2 is linked to terminal 4,
which holds a newer state, so the state *read* at 2 (mean of both, time 9) differs from the one *held* by 2 -/
def wq : World ℚ := ⟨6, fun j =>
  if j = 0 then ⟨some ⟨5, ⟨1, 2, 3⟩⟩, none, none⟩
  else if j = 1 then ⟨some ⟨7, ⟨3, 0, 1⟩⟩, none, none⟩
  else if j = 2 then ⟨some ⟨6, ⟨2, 2, 2⟩⟩, none, some 4⟩
  else if j = 4 then ⟨some ⟨9, ⟨4, 0, 0⟩⟩, none, some 2⟩
  else ⟨none, none, none⟩⟩

/-- a world whose reads already satisfy all the constraints used below:
`s1 = −s0`, `s2 = 2·s0`, `s3 = s0`, `s4 = s0 + s2` -/
def wc : World ℚ := ⟨6, fun j =>
  if j = 0 then ⟨some ⟨5, ⟨1, 2, 3⟩⟩, none, none⟩
  else if j = 1 then ⟨some ⟨7, ⟨-1, -2, -3⟩⟩, none, none⟩
  else if j = 2 then ⟨some ⟨6, ⟨2, 4, 6⟩⟩, none, none⟩
  else if j = 3 then ⟨some ⟨2, ⟨1, 2, 3⟩⟩, none, none⟩
  else if j = 4 then ⟨some ⟨4, ⟨3, 6, 9⟩⟩, none, none⟩
  else ⟨none, none, none⟩⟩

example : wq.getState 0 = some ⟨5, ⟨1, 2, 3⟩⟩ := rfl
example : wq.getState 3 = none := rfl
example : (wq.getState 2).map (·.time) = some 9 := rfl

-- inverter
example := invert_update_none wq 3 5 rfl rfl
example := invert_update_one_right wq 3 0 _ rfl rfl
example := invert_update_one_left wq 0 3 _ rfl rfl
example := (invert_update_one wq 3 0 _).1 rfl rfl
example := (invert_update_one wq 0 3 _).2 rfl rfl
example := invert_update_both wq 0 2 _ _ (by decide) rfl rfl
example := invert_satisfies_constraint wq 0 2 _ _ (by decide) rfl rfl
example := invert_least_squares wq 0 2 _ _ (by decide) rfl rfl
example := invert_fixed_on_constraint wc 0 1 _ _ (by decide) rfl rfl (by simp [State.neg])
example := (invert_one_sided_constraint wq 3 0 _).1 rfl rfl
example := (invert_one_sided_constraint wq 0 3 _).2 rfl rfl
-- gear train
example := gear_update_none (2 : ℚ) wq 3 5 rfl rfl
example := gear_update_one_right (2 : ℚ) wq 3 0 _ rfl rfl
example := gear_update_one_left (2 : ℚ) wq 0 3 _ rfl rfl
example := (gear_update_one (2 : ℚ) wq 0 3 _).1 rfl rfl
example := (gear_update_one (2 : ℚ) wq 3 0 _).2 rfl rfl
example := gear_update_both (2 : ℚ) wq 0 2 _ _ (by decide) rfl rfl
example := gear_least_squares (2 : ℚ) wq 0 2 _ _ (by decide) rfl rfl
example := gear_satisfies_constraint (2 : ℚ) wq 0 2 _ _ (by decide) rfl rfl
example := gear_fixed_on_constraint (2 : ℚ) wc 0 2 _ _ (by decide) rfl rfl (by norm_num [State.mulF])
example := (gear_one_sided_constraint (2 : ℚ) (by norm_num) wq 0 3 _).1 rfl rfl
example := (gear_one_sided_constraint (2 : ℚ) (by norm_num) wq 3 0 _).2 rfl rfl
-- axle (terminal 3 has no information and still receives the datum)
example := axle_update_none wq [3, 5] (by intro i hi; simp at hi; rcases hi with rfl | rfl <;> rfl)
example := axle_update_broadcast wq [0, 3, 2, 1] ⟨0, by simp, by simp [show wq.getState 0 = some _ from rfl]⟩
example := axle_satisfies_constraint wq [0, 3, 2, 1] ⟨0, by simp, by simp [show wq.getState 0 = some _ from rfl]⟩
example := axle_least_squares wq [0, 3, 2, 1] ⟨0, by simp, by simp [show wq.getState 0 = some _ from rfl]⟩
example : presentReads wc [0, 5, 3] = [⟨5, ⟨1, 2, 3⟩⟩, ⟨2, ⟨1, 2, 3⟩⟩] := rfl
example := axle_fixed_on_constraint wc [0, 5, 3] ⟨0, by simp, by simp [show wc.getState 0 = some _ from rfl]⟩
  ⟨1, 2, 3⟩ (by
    intro r hr
    rw [show presentReads wc [0, 5, 3] = [⟨5, ⟨1, 2, 3⟩⟩, ⟨2, ⟨1, 2, 3⟩⟩] from rfl] at hr
    simp at hr; rcases hr with rfl | rfl <;> rfl)
example := axle_time_is_newest (F := ℚ) [⟨5, ⟨1, 2, 3⟩⟩, ⟨2, ⟨1, 2, 3⟩⟩] (by simp)
  (by intro d hd; simp at hd; rcases hd with rfl | rfl <;> simp [i64Min])
/-- the axle's datum on a concrete world: time 9 (newest read), mean of the three present reads -/
example : (axleDatum (presentReads wq [0, 3, 2, 1])).time = 9 := by decide
example : comp .position (axleDatum (presentReads wq [0, 3, 2, 1])).value = (1 + 3 + 3) / 3 := by
  rw [comp_axleDatum]
  rw [show presentReads wq [0, 3, 2, 1] = [⟨5, ⟨1, 2, 3⟩⟩,
      Datum.scalar State.divF (Datum.combine State.add ⟨6, ⟨2, 2, 2⟩⟩ ⟨9, ⟨4, 0, 0⟩⟩) c2, ⟨7, ⟨3, 0, 1⟩⟩] from rfl]
  simp [comp, Datum.scalar, Datum.combine, State.add, State.divF]
  norm_num
-- differential
example := diff_waits_for_trusted .side1 wq 0 3 1 ⟨3, by simp [trusted], rfl⟩
example := diff_waits_for_trusted .side2 wq 3 0 1 ⟨3, by simp [trusted], rfl⟩
example := diff_waits_for_trusted .sum wq 0 3 1 ⟨3, by simp [trusted], rfl⟩
example := diff_waits_for_trusted .equal wq 0 1 3 ⟨3, by simp [trusted], rfl⟩
example := diff_update_side1 wq 3 0 2 _ _ rfl rfl
example := diff_update_side2 wq 0 3 2 _ _ rfl rfl
example := diff_update_sum wq 0 1 3 _ _ rfl rfl
example := diff_update_equal wq 0 1 2 _ _ _ (by decide) (by decide) (by decide) rfl rfl rfl
example := diff_side1_satisfies_constraint wq 3 0 2 _ _ rfl rfl
example := diff_side2_satisfies_constraint wq 0 3 2 _ _ rfl rfl
example := diff_sum_satisfies_constraint wq 0 1 3 _ _ rfl rfl
example := diff_equal_least_squares wq 0 1 2 _ _ _ (by decide) (by decide) (by decide) rfl rfl rfl
example := diff_equal_fixed_on_constraint wc 0 2 4 _ _ _ (by decide) (by decide) (by decide) rfl rfl rfl
  (by norm_num [State.add])
-- tooth counts
example := gear_ratio_from_teeth ([20, 40, 10] : List ℚ) (by decide)
example := gear_ratio_too_few ([20] : List ℚ) (by decide)
example := gear_ratio_from_teeth_pow ([20, 40, 10, 5] : List ℚ) (by decide)
example : GearTrain.ratioOfTeeth ([20, 40, 10, 5] : List ℚ) = .ok (-4) := by
  simp [GearTrain.ratioOfTeeth]; norm_num
example : GearTrain.ratioOfTeeth ([20, 40, 10] : List ℚ) = .ok 2 := by
  simp [GearTrain.ratioOfTeeth]; norm_num
-- scalar lemmas
example := scalar_mean_ls ([1, 3, 3] : List ℚ) (by simp) 2

end Examples
end Rrtk.Thm.C08
