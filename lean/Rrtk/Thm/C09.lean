/-
C09 — the terminal graph: `connect` / `disconnect` keep the links a symmetric matching and never panic
(for distinct terminals), and the three terminal reads (`Getter<State>`, `Getter<Command>`,
`Getter<TerminalData>`) are the mean / the newer / the combination of own and partner's slots.

Tier S throughout (`F` arbitrary, no algebraic law), except `connected_read_same_state`, which is tier L:
it needs commutativity of `+` on `F` (hypothesis `hadd`), because one end computes `(own + partner) / 2` and the
other `(partner + own) / 2`.

The model (`Rrtk/Devices.lean`) is of the tree AFTER the `fix:` commit in which `connect` disconnects each
terminal before taking both mutable borrows.  `connectPrefix` below models the ORIGINAL order and
`connect_prefix_counterexample` exhibits the `RefCell` double borrow the fix removed.

Nothing here restricts terminal indices to `i < w.n`: every statement holds for all `Nat` indices, hence for any
number of terminals.
-/
import Rrtk.Devices
set_option linter.unusedSectionVars false
set_option linter.unusedSimpArgs false
namespace Rrtk.Thm.C09
open Rrtk Rrtk.World

/-! ## A. links -/
section Links
variable {F : Type}

/-- The links form a symmetric matching without self-loops ("at most one partner" is built into `Option`;
that no two terminals point at the same one is `inv_partner_unique`). -/
def Inv (w : World F) : Prop := ∀ i j, (w.t i).other = some j → i ≠ j ∧ (w.t j).other = some i

/-! ### elementary facts about the setters -/
theorem setOther_other (w : World F) (i : Nat) (o : Option Nat) (k : Nat) :
    ((w.setOther i o).t k).other = if k = i then o else (w.t k).other := by
  simp only [setOther, setT]; split <;> rfl
theorem setOther_state (w : World F) (i : Nat) (o : Option Nat) (k : Nat) :
    ((w.setOther i o).t k).state = (w.t k).state := by
  simp only [setOther, setT]; split
  · next h => subst h; rfl
  · rfl
theorem setOther_command (w : World F) (i : Nat) (o : Option Nat) (k : Nat) :
    ((w.setOther i o).t k).command = (w.t k).command := by
  simp only [setOther, setT]; split
  · next h => subst h; rfl
  · rfl
theorem setOther_n (w : World F) (i : Nat) (o : Option Nat) : (w.setOther i o).n = w.n := rfl

/-- `setState` does not touch any link -/
theorem setState_other (w : World F) (i : Nat) (d : Datum (State F)) (k : Nat) :
    ((w.setState i d).t k).other = (w.t k).other := by
  simp only [setState, setT]; split
  · next h => subst h; rfl
  · rfl
/-- `setCommand` does not touch any link -/
theorem setCommand_other (w : World F) (i : Nat) (d : Datum (Command F)) (k : Nat) :
    ((w.setCommand i d).t k).other = (w.t k).other := by
  simp only [setCommand, setT]; split
  · next h => subst h; rfl
  · rfl
/-- `setState i d` writes exactly the state slot of `i` -/
theorem setState_state (w : World F) (i : Nat) (d : Datum (State F)) (k : Nat) :
    ((w.setState i d).t k).state = if k = i then some d else (w.t k).state := by
  simp only [setState, setT]; split <;> rfl
theorem setState_command (w : World F) (i : Nat) (d : Datum (State F)) (k : Nat) :
    ((w.setState i d).t k).command = (w.t k).command := by
  simp only [setState, setT]; split
  · next h => subst h; rfl
  · rfl
/-- `setCommand i d` writes exactly the command slot of `i` -/
theorem setCommand_command (w : World F) (i : Nat) (d : Datum (Command F)) (k : Nat) :
    ((w.setCommand i d).t k).command = if k = i then some d else (w.t k).command := by
  simp only [setCommand, setT]; split <;> rfl
theorem setCommand_state (w : World F) (i : Nat) (d : Datum (Command F)) (k : Nat) :
    ((w.setCommand i d).t k).state = (w.t k).state := by
  simp only [setCommand, setT]; split
  · next h => subst h; rfl
  · rfl

/-! ### A1. the invariant holds initially -/
/-- no terminal of the empty world (nor any index beyond it) is linked -/
theorem inv_empty : Inv (World.empty : World F) := by
  intro i j h; simp [World.empty, freshTerm] at h
/-- adding fresh terminals keeps the invariant (it changes no link) -/
theorem inv_fresh (w : World F) (k : Nat) (h : Inv w) : Inv (w.addTerms k) := h
/-- every terminal of a world made of fresh terminals is unlinked, has no state and no command -/
theorem fresh_unlinked (n k : Nat) :
    (((World.empty : World F).addTerms n).t k).other = none ∧
    (((World.empty : World F).addTerms n).t k).state = none ∧
    (((World.empty : World F).addTerms n).t k).command = none := ⟨rfl, rfl, rfl⟩

/-- under the invariant no two terminals are linked to the same terminal -/
theorem inv_partner_unique (w : World F) (h : Inv w) (a b i : Nat)
    (ha : (w.t a).other = some i) (hb : (w.t b).other = some i) : a = b := by
  have h1 := (h a i ha).2
  have h2 := (h b i hb).2
  rw [h1] at h2; exact Option.some.inj h2
/-- the link is mutual -/
theorem inv_mutual (w : World F) (h : Inv w) (i j : Nat) :
    (w.t i).other = some j ↔ (w.t j).other = some i := ⟨fun e => (h i j e).2, fun e => (h j i e).2⟩
/-- no terminal is linked to itself -/
theorem inv_no_self (w : World F) (h : Inv w) (i : Nat) : (w.t i).other ≠ some i :=
  fun e => (h i i e).1 rfl

/-! ### A2. disconnect -/
/-- What a successful `disconnect i` does, with no assumption on the world: `i` and its partner lose their
link, every other link, every state and command slot and the terminal count are unchanged. -/
theorem disconnect_spec (w w' : World F) (i : Nat) (hd : disconnect w i = .ok w') :
    (∀ k, (w'.t k).other = if k = i ∨ (w.t i).other = some k then none else (w.t k).other) ∧
    (∀ k, (w'.t k).state = (w.t k).state) ∧ (∀ k, (w'.t k).command = (w.t k).command) ∧ w'.n = w.n := by
  unfold disconnect at hd
  cases ho : (w.t i).other with
  | none =>
    simp only [ho] at hd
    cases hd
    refine ⟨fun k => ?_, fun _ => rfl, fun _ => rfl, rfl⟩
    by_cases hk : k = i
    · subst hk; simp [ho]
    · simp [hk]
  | some p =>
    simp only [ho] at hd
    split at hd
    · cases hd
    · next hp =>
      cases hd
      refine ⟨fun k => ?_, fun k => ?_, fun k => ?_, rfl⟩
      · rw [setOther_other, setOther_other]
        by_cases hk : k = i
        · simp [hk]
        · by_cases hkp : k = p
          · subst hkp; simp [hk]
          · have : ¬ (some p = some k) := fun e => hkp (Option.some.inj e).symm
            simp [hk, hkp, this]
      · rw [setOther_state, setOther_state]
      · rw [setOther_command, setOther_command]

/-- `disconnect` panics exactly on a self-loop -/
theorem disconnect_panics_iff (w : World F) (i : Nat) :
    (∃ e, disconnect w i = .error e) ↔ (w.t i).other = some i := by
  unfold disconnect
  cases ho : (w.t i).other with
  | none => simp
  | some p =>
    by_cases hp : p = i
    · simp [hp]
    · simp [hp]

/-- under the invariant `disconnect` never panics -/
theorem disconnect_no_panic (w : World F) (h : Inv w) (i : Nat) : ∃ w', disconnect w i = .ok w' := by
  cases hd : disconnect w i with
  | ok w' => exact ⟨w', rfl⟩
  | error e => exact absurd ((disconnect_panics_iff w i).1 ⟨e, hd⟩) (inv_no_self w h i)

/-- a successful `disconnect` preserves the invariant -/
theorem disconnect_preserves_inv (w w' : World F) (i : Nat) (h : Inv w) (hd : disconnect w i = .ok w') :
    Inv w' := by
  obtain ⟨ho, -, -, -⟩ := disconnect_spec w w' i hd
  intro a b hab
  rw [ho a] at hab
  split at hab
  · cases hab
  · next hn =>
    have hai : a ≠ i := fun e => hn (Or.inl e)
    have hia : (w.t i).other ≠ some a := fun e => hn (Or.inr e)
    obtain ⟨hne, hba⟩ := h a b hab
    refine ⟨hne, ?_⟩
    rw [ho b]
    have hbi : b ≠ i := fun e => hia (e ▸ hba)
    have hib : (w.t i).other ≠ some b := fun e => by
      have := (h i b e).2
      rw [hba] at this
      exact hai (Option.some.inj this)
    simp [hbi, hib, hba]

/-- A2: under the invariant, `disconnect i` returns normally and the invariant still holds -/
theorem inv_disconnect (w : World F) (h : Inv w) (i : Nat) : ∃ w', disconnect w i = .ok w' ∧ Inv w' := by
  obtain ⟨w', hd⟩ := disconnect_no_panic w h i
  exact ⟨w', hd, disconnect_preserves_inv w w' i h hd⟩

/-- `disconnect i` unlinks both ends: `i` itself and whatever `i` was linked to -/
theorem disconnect_unlinks_both (w w' : World F) (i : Nat) (hd : disconnect w i = .ok w') :
    (w'.t i).other = none ∧ ∀ p, (w.t i).other = some p → (w'.t p).other = none := by
  obtain ⟨ho, -, -, -⟩ := disconnect_spec w w' i hd
  refine ⟨by rw [ho i]; simp, fun p hp => ?_⟩
  rw [ho p]; simp [hp]

/-- `disconnect i` leaves every terminal other than `i` and its partner linked as before -/
theorem disconnect_keeps_others (w w' : World F) (i k : Nat) (hd : disconnect w i = .ok w')
    (hk : k ≠ i) (hp : (w.t i).other ≠ some k) : (w'.t k).other = (w.t k).other := by
  obtain ⟨ho, -, -, -⟩ := disconnect_spec w w' i hd
  rw [ho k]; simp [hk, hp]

/-- `disconnect` on an unlinked terminal does nothing -/
theorem disconnect_unlinked (w : World F) (i : Nat) (h : (w.t i).other = none) : disconnect w i = .ok w := by
  simp [disconnect, h]

/-! ### A3. connect -/
/-- linking two distinct unlinked terminals keeps the invariant -/
theorem inv_link (w : World F) (i j : Nat) (h : Inv w) (hij : i ≠ j)
    (hi : (w.t i).other = none) (hj : (w.t j).other = none) :
    Inv ((w.setOther i (some j)).setOther j (some i)) := by
  intro a b hab
  rw [setOther_other, setOther_other] at hab
  rw [setOther_other, setOther_other]
  by_cases haj : a = j
  · subst haj
    simp only [if_true] at hab
    have hb : b = i := (Option.some.inj hab).symm
    subst hb
    exact ⟨fun e => hij e.symm, by simp [hij]⟩
  · by_cases hai : a = i
    · subst hai
      simp only [haj, if_false, if_true] at hab
      have hb : b = j := (Option.some.inj hab).symm
      subst hb
      exact ⟨hij, by simp⟩
    · simp only [haj, hai, if_false] at hab
      obtain ⟨hne, hba⟩ := h a b hab
      have hbi : b ≠ i := fun e => by subst e; rw [hi] at hba; cases hba
      have hbj : b ≠ j := fun e => by subst e; rw [hj] at hba; cases hba
      exact ⟨hne, by simp [hbi, hbj, hba]⟩

/-- `connect` of a terminal with itself always panics (both `borrow_mut` on the same cell) -/
theorem connect_self_panics (w : World F) (i : Nat) : connect w i i = .error .borrow := by
  unfold connect
  have key : ∀ (v : World F) (e : Panic), disconnect v i = .error e → e = .borrow := by
    intro v e hv
    unfold disconnect at hv
    split at hv
    · cases hv
    · split at hv
      · cases hv; rfl
      · cases hv
  cases h1 : disconnect w i with
  | error e => simp [key w e h1]
  | ok w1 =>
    cases h2 : disconnect w1 i with
    | error e => simp [h2, key w1 e h2]
    | ok w2 => simp [h2]

/-- Full description of `connect i j` for distinct `i`, `j` under the invariant: it returns normally, the
invariant holds afterwards, `i` and `j` are linked to each other, every former partner of `i` or `j` is
unlinked, every other terminal keeps its link, and no state or command slot changes. -/
theorem connect_spec (w : World F) (h : Inv w) (i j : Nat) (hij : i ≠ j) :
    ∃ w', connect w i j = .ok w' ∧ Inv w' ∧ (w'.t i).other = some j ∧ (w'.t j).other = some i ∧
      (∀ k, k ≠ i → k ≠ j → (w'.t k).other =
        if (w.t i).other = some k ∨ (w.t j).other = some k then none else (w.t k).other) ∧
      (∀ k, (w'.t k).state = (w.t k).state) ∧ (∀ k, (w'.t k).command = (w.t k).command) ∧ w'.n = w.n := by
  obtain ⟨w1, hd1, hI1⟩ := inv_disconnect w h i
  obtain ⟨w2, hd2, hI2⟩ := inv_disconnect w1 hI1 j
  obtain ⟨ho1, hs1, hc1, hn1⟩ := disconnect_spec w w1 i hd1
  obtain ⟨ho2, hs2, hc2, hn2⟩ := disconnect_spec w1 w2 j hd2
  have hji : j ≠ i := fun e => hij e.symm
  have h1i : (w1.t i).other = none := by rw [ho1 i]; simp
  have h2i : (w2.t i).other = none := by
    rw [ho2 i]; split
    · rfl
    · exact h1i
  have h2j : (w2.t j).other = none := by rw [ho2 j]; simp
  refine ⟨(w2.setOther i (some j)).setOther j (some i), ?_, inv_link w2 i j hI2 hij h2i h2j, ?_, ?_, ?_, ?_, ?_, ?_⟩
  · simp [connect, hd1, hd2, hij]
  · rw [setOther_other, setOther_other]; simp [hij]
  · rw [setOther_other]; simp
  · intro k hki hkj
    rw [setOther_other, setOther_other, ho2 k, ho1 k, ho1 j]
    simp only [hki, hkj, hji, if_false, false_or]
    by_cases hik : (w.t i).other = some k
    · simp [hik]
    · by_cases hjk : (w.t j).other = some k
      · have hnij : (w.t i).other ≠ some j := fun e => by
          have := (h i j e).2
          rw [hjk] at this
          exact hki (Option.some.inj this)
        simp [hik, hjk, hnij]
      · by_cases hnij : (w.t i).other = some j
        · simp [hik, hjk, hnij]
        · simp [hik, hjk, hnij]
  · intro k; rw [setOther_state, setOther_state, hs2, hs1]
  · intro k; rw [setOther_command, setOther_command, hc2, hc1]
  · show w2.n = w.n
    rw [hn2, hn1]

/-- `connect` of two distinct terminals never panics (whatever either was linked to, including each other) -/
theorem connect_no_panic (w : World F) (h : Inv w) (i j : Nat) (hij : i ≠ j) : ∃ w', connect w i j = .ok w' := by
  obtain ⟨w', hc, -⟩ := connect_spec w h i j hij
  exact ⟨w', hc⟩

/-- A3: `connect` of two distinct terminals returns normally and keeps the invariant -/
theorem inv_connect (w : World F) (h : Inv w) (i j : Nat) (hij : i ≠ j) :
    ∃ w', connect w i j = .ok w' ∧ Inv w' := by
  obtain ⟨w', hc, hI, -⟩ := connect_spec w h i j hij
  exact ⟨w', hc, hI⟩

/-- after `connect i j` the two terminals are linked to each other -/
theorem connect_links (w w' : World F) (h : Inv w) (i j : Nat) (hij : i ≠ j) (hc : connect w i j = .ok w') :
    (w'.t i).other = some j ∧ (w'.t j).other = some i := by
  obtain ⟨w'', hc', -, hl1, hl2, -⟩ := connect_spec w h i j hij
  rw [hc] at hc'; cases hc'
  exact ⟨hl1, hl2⟩

/-- a former partner (other than `i`, `j` themselves) of either terminal is unlinked by `connect i j` -/
theorem connect_frees_old_partners (w w' : World F) (h : Inv w) (i j p : Nat) (hij : i ≠ j)
    (hc : connect w i j = .ok w') (hpi : p ≠ i) (hpj : p ≠ j)
    (hp : (w.t i).other = some p ∨ (w.t j).other = some p) : (w'.t p).other = none := by
  obtain ⟨w'', hc', -, -, -, hk, -⟩ := connect_spec w h i j hij
  rw [hc] at hc'; cases hc'
  rw [hk p hpi hpj]; simp [hp]

/-- every terminal other than `i`, `j` and their former partners keeps its link -/
theorem connect_keeps_others (w w' : World F) (h : Inv w) (i j k : Nat) (hij : i ≠ j)
    (hc : connect w i j = .ok w') (hki : k ≠ i) (hkj : k ≠ j)
    (hpi : (w.t i).other ≠ some k) (hpj : (w.t j).other ≠ some k) : (w'.t k).other = (w.t k).other := by
  obtain ⟨w'', hc', -, -, -, hk, -⟩ := connect_spec w h i j hij
  rw [hc] at hc'; cases hc'
  rw [hk k hki hkj]; simp [hpi, hpj]

/-- `connect` changes no state slot and no command slot -/
theorem connect_keeps_slots (w w' : World F) (h : Inv w) (i j k : Nat) (hij : i ≠ j)
    (hc : connect w i j = .ok w') : (w'.t k).state = (w.t k).state ∧ (w'.t k).command = (w.t k).command := by
  obtain ⟨w'', hc', -, -, -, -, hs, hcm, -⟩ := connect_spec w h i j hij
  rw [hc] at hc'; cases hc'
  exact ⟨hs k, hcm k⟩

/-- re-connecting two terminals that are already linked to each other succeeds and leaves every link as it was -/
theorem connect_reconnect (w : World F) (h : Inv w) (i j : Nat) (hl : (w.t i).other = some j) :
    ∃ w', connect w i j = .ok w' ∧ ∀ k, (w'.t k).other = (w.t k).other := by
  have hij : i ≠ j := (h i j hl).1
  have hlj : (w.t j).other = some i := (h i j hl).2
  obtain ⟨w', hc, -, hl1, hl2, hk, -⟩ := connect_spec w h i j hij
  refine ⟨w', hc, fun k => ?_⟩
  by_cases hki : k = i
  · subst hki; rw [hl1, hl]
  · by_cases hkj : k = j
    · subst hkj; rw [hl2, hlj]
    · rw [hk k hki hkj, hl, hlj]
      have a1 : ¬ (some j = some k) := fun e => hkj (Option.some.inj e).symm
      have a2 : ¬ (some i = some k) := fun e => hki (Option.some.inj e).symm
      simp [a1, a2]

/-! ### A4. the setters keep the invariant -/
theorem inv_setState (w : World F) (h : Inv w) (i : Nat) (d : Datum (State F)) : Inv (w.setState i d) := by
  intro a b hab
  rw [setState_other] at hab ⊢
  exact h a b hab
theorem inv_setCommand (w : World F) (h : Inv w) (i : Nat) (d : Datum (Command F)) : Inv (w.setCommand i d) := by
  intro a b hab
  rw [setCommand_other] at hab ⊢
  exact h a b hab

/-! ### A5. all operation sequences -/
/-- the operations a program can perform on the terminal graph -/
inductive Op (F : Type) where
  | connect (i j : Nat)
  | disconnect (i : Nat)
  | setState (i : Nat) (d : Datum (State F))
  | setCommand (i : Nat) (d : Datum (Command F))
  | addTerms (k : Nat)

/-- the quantifier of the property: `connect` is only applied to two distinct terminals -/
def Op.wf : Op F → Prop
  | .connect i j => i ≠ j
  | _ => True

def step (w : World F) : Op F → Except Panic (World F)
  | .connect i j => World.connect w i j
  | .disconnect i => World.disconnect w i
  | .setState i d => .ok (w.setState i d)
  | .setCommand i d => .ok (w.setCommand i d)
  | .addTerms k => .ok (w.addTerms k)

def runOps (w : World F) : List (Op F) → Except Panic (World F)
  | [] => .ok w
  | op :: ops =>
    match step w op with
    | .error e => .error e
    | .ok w' => runOps w' ops

/-- one operation: no panic, invariant kept -/
theorem inv_step (w : World F) (h : Inv w) (op : Op F) (hop : op.wf) : ∃ w', step w op = .ok w' ∧ Inv w' := by
  cases op with
  | connect i j => exact inv_connect w h i j hop
  | disconnect i => exact inv_disconnect w h i
  | setState i d => exact ⟨_, rfl, inv_setState w h i d⟩
  | setCommand i d => exact ⟨_, rfl, inv_setCommand w h i d⟩
  | addTerms k => exact ⟨_, rfl, inv_fresh w k h⟩

/-- A5: every sequence (any length, any terminal indices) of `connect i j` with `i ≠ j`, `disconnect`, state and
command writes and additions of fresh terminals, started in a world satisfying the invariant, runs without a
panic and ends in a world satisfying the invariant. -/
theorem inv_all_sequences (ops : List (Op F)) (w : World F) (h : Inv w) (hops : ∀ op ∈ ops, op.wf) :
    ∃ w', runOps w ops = .ok w' ∧ Inv w' := by
  induction ops generalizing w with
  | nil => exact ⟨w, rfl, h⟩
  | cons op ops ih =>
    obtain ⟨w1, hs, hI1⟩ := inv_step w h op (hops op (List.mem_cons_self ..))
    obtain ⟨w', hr, hI'⟩ := ih w1 hI1 (fun o ho => hops o (List.mem_cons_of_mem _ ho))
    exact ⟨w', by simp [runOps, hs, hr], hI'⟩

/-- in particular from `n` fresh terminals -/
theorem inv_reachable (n : Nat) (ops : List (Op F)) (hops : ∀ op ∈ ops, op.wf) :
    ∃ w', runOps ((World.empty : World F).addTerms n) ops = .ok w' ∧ Inv w' :=
  inv_all_sequences ops _ (inv_fresh _ n inv_empty) hops

/-! ### A6. the code before the fix -/
/-- `Terminal::disconnect` on terminal `i` while terminal `held` is also mutably borrowed by the caller -/
def disconnectHeld (w : World F) (i held : Nat) : Except Panic (World F) :=
  match (w.t i).other with
  | none => .ok w
  | some p => if p = i ∨ p = held then .error .borrow else .ok ((w.setOther p none).setOther i none)

/-- `rrtk::connect` BEFORE the fix: `let mut b1 = term1.borrow_mut(); let mut b2 = term2.borrow_mut();
b1.disconnect(); b2.disconnect(); b1.other = Some(term2); b2.other = Some(term1);` -/
def connectPrefix (w : World F) (i j : Nat) : Except Panic (World F) :=
  if i = j then .error .borrow
  else
    match disconnectHeld w i j with
    | .error e => .error e
    | .ok w1 =>
      match disconnectHeld w1 j i with
      | .error e => .error e
      | .ok w2 => .ok ((w2.setOther i (some j)).setOther j (some i))

/-- the original `connect` panicked whenever the first terminal was linked to the second -/
theorem connect_prefix_panics (w : World F) (i j : Nat) (hl : (w.t i).other = some j) :
    connectPrefix w i j = .error .borrow := by
  unfold connectPrefix
  split
  · rfl
  · simp [disconnectHeld, hl]

/-- … and under the invariant that was its only failure: otherwise it did what the fixed `connect` does -/
theorem connect_prefix_agrees (w : World F) (h : Inv w) (i j : Nat) (hij : i ≠ j)
    (hl : (w.t i).other ≠ some j) : connectPrefix w i j = connect w i j := by
  have hheld : ∀ (v : World F) (a b : Nat), (v.t a).other ≠ some b → disconnectHeld v a b = disconnect v a := by
    intro v a b hv
    unfold disconnectHeld disconnect
    cases ho : (v.t a).other with
    | none => rfl
    | some p =>
      have hpb : p ≠ b := fun e => hv (by rw [ho, e])
      simp [hpb]
  obtain ⟨w1, hd1, hI1⟩ := inv_disconnect w h i
  have h1i : (w1.t i).other = none := (disconnect_unlinks_both w w1 i hd1).1
  have h1j : (w1.t j).other ≠ some i := fun e => by
    have := (hI1 j i e).2
    rw [h1i] at this; cases this
  unfold connectPrefix connect
  rw [hheld w i j hl, hd1]
  simp only [hij, if_false]
  rw [hheld w1 j i h1j]
  cases disconnect w1 j <;> rfl

end Links

/-! ## B. reads -/
section Reads
variable {F : Type} [Add F] [Sub F] [Mul F] [Div F] [Neg F] [LT F] [LE F] [BEq F]
  [DecidableLT F] [DecidableLE F] [FloatLike F]

/-- the partner's slot is read through the link -/
theorem partnerState_eq (w : World F) (i : Nat) :
    partnerState w i = match (w.t i).other with | some p => (w.t p).state | none => none := rfl
theorem partnerCommand_eq (w : World F) (i : Nat) :
    partnerCommand w i = match (w.t i).other with | some p => (w.t p).command | none => none := rfl
theorem partnerState_linked (w : World F) (i j : Nat) (h : (w.t i).other = some j) :
    partnerState w i = (w.t j).state := by simp [partnerState, h]
theorem partnerCommand_linked (w : World F) (i j : Nat) (h : (w.t i).other = some j) :
    partnerCommand w i = (w.t j).command := by simp [partnerCommand, h]
theorem partner_unlinked (w : World F) (i : Nat) (h : (w.t i).other = none) :
    partnerState w i = none ∧ partnerCommand w i = none := by simp [partnerState, partnerCommand, h]

/-- the timestamp rule of `Datum + Datum` is the maximum -/
theorem combine_time_max {α β γ : Type} (op : α → β → γ) (a : Datum α) (b : Datum β) :
    (Datum.combine op a b).time = max a.time b.time := by
  simp only [Datum.combine]; split <;> omega

/-- B1: the state read is nothing / the own state / the partner's state / the mean `(own + partner) / 2`
stamped with the later of the two times, according to which of the two slots are filled. -/
theorem state_read_eq (w : World F) (i : Nat) :
    getState w i =
      match (w.t i).state, partnerState w i with
      | none, none => none
      | some a, none => some a
      | none, some b => some b
      | some a, some b => some ⟨max a.time b.time, State.divF (State.add a.value b.value) c2⟩ := by
  unfold getState
  cases (w.t i).state <;> cases partnerState w i <;> simp [Datum.scalar, combine_time_max] <;> rfl

theorem state_read_none (w : World F) (i : Nat) (ha : (w.t i).state = none) (hb : partnerState w i = none) :
    getState w i = none := by rw [state_read_eq, ha, hb]
theorem state_read_own (w : World F) (i : Nat) (a : Datum (State F)) (ha : (w.t i).state = some a)
    (hb : partnerState w i = none) : getState w i = some a := by rw [state_read_eq, ha, hb]
theorem state_read_partner (w : World F) (i : Nat) (b : Datum (State F)) (ha : (w.t i).state = none)
    (hb : partnerState w i = some b) : getState w i = some b := by rw [state_read_eq, ha, hb]
/-- both present: component-wise `(own + partner) / 2.0`, in this operand order -/
theorem state_read_mean (w : World F) (i : Nat) (a b : Datum (State F)) (ha : (w.t i).state = some a)
    (hb : partnerState w i = some b) :
    getState w i = some ⟨max a.time b.time,
      ⟨(a.value.position + b.value.position) / c2, (a.value.velocity + b.value.velocity) / c2,
       (a.value.acceleration + b.value.acceleration) / c2⟩⟩ := by
  rw [state_read_eq, ha, hb]; rfl
/-- the state read is absent exactly when both slots are empty -/
theorem state_read_none_iff (w : World F) (i : Nat) :
    getState w i = none ↔ (w.t i).state = none ∧ partnerState w i = none := by
  rw [state_read_eq]
  cases (w.t i).state <;> cases partnerState w i <;> simp

/-- the command read as a formula: the partner's command only when it is strictly newer (or the own is absent) -/
theorem command_read_formula (w : World F) (i : Nat) :
    getCommand w i =
      match (w.t i).command, partnerCommand w i with
      | none, g => g
      | some c, none => some c
      | some c, some g => if c.time < g.time then some g else some c := rfl

/-- B2: the command read is absent iff both commands are; otherwise it is one of the two candidates, no
candidate is strictly newer than it, and the own command wins unless the partner's is strictly newer. -/
theorem command_read_eq (w : World F) (i : Nat) :
    (getCommand w i = none ↔ (w.t i).command = none ∧ partnerCommand w i = none) ∧
    ∀ r, getCommand w i = some r →
      ((w.t i).command = some r ∨ partnerCommand w i = some r) ∧
      (∀ c, (w.t i).command = some c → c.time ≤ r.time) ∧
      (∀ g, partnerCommand w i = some g → g.time ≤ r.time) ∧
      (∀ c, (w.t i).command = some c → (∀ g, partnerCommand w i = some g → g.time ≤ c.time) → r = c) ∧
      (∀ c g, (w.t i).command = some c → partnerCommand w i = some g → c.time < g.time → r = g) := by
  unfold getCommand
  cases hc : (w.t i).command with
  | none =>
    cases hg : partnerCommand w i with
    | none => simp
    | some g =>
      refine ⟨by simp, fun r hr => ?_⟩
      simp only [Option.some.injEq] at hr
      subst hr
      simp
  | some c =>
    cases hg : partnerCommand w i with
    | none =>
      refine ⟨by simp, fun r hr => ?_⟩
      simp only [Option.some.injEq] at hr
      subst hr
      simp
    | some g =>
      by_cases ht : g.time > c.time
      · refine ⟨by simp [ht], fun r hr => ?_⟩
        simp only [ht, if_true, Option.some.injEq] at hr
        subst hr
        refine ⟨Or.inr rfl, ?_, ?_, ?_, ?_⟩
        · intro c' e; cases e; omega
        · intro g' e; cases e; omega
        · intro c' e hall; cases e; have := hall _ rfl; omega
        · intro c' g' e1 e2 _; cases e2; rfl
      · refine ⟨by simp [ht], fun r hr => ?_⟩
        simp only [ht, if_false, Option.some.injEq] at hr
        subst hr
        refine ⟨Or.inl rfl, ?_, ?_, ?_, ?_⟩
        · intro c' e; cases e; omega
        · intro g' e; cases e; omega
        · intro c' e _; cases e; rfl
        · intro c' g' e1 e2 hlt; cases e1; cases e2; omega

/-- B3: the combined read is absent iff neither a state nor a command is read; otherwise it reports the value of
the command read and the value of the state read, and both its timestamps are the state read's time when there
is a state, else the command read's time. -/
theorem combined_read_eq (w : World F) (i : Nat) :
    (getTerminalData w i = none ↔ getState w i = none ∧ getCommand w i = none) ∧
    ∀ r, getTerminalData w i = some r →
      r.value.command = (getCommand w i).map (·.value) ∧
      r.value.state = (getState w i).map (·.value) ∧
      r.value.time = r.time ∧
      (∀ s, getState w i = some s → r.time = s.time) ∧
      (getState w i = none → ∀ c, getCommand w i = some c → r.time = c.time) := by
  unfold getTerminalData
  cases hs : getState w i with
  | none =>
    cases hc : getCommand w i with
    | none => simp
    | some c =>
      refine ⟨by simp, fun r hr => ?_⟩
      simp only [Option.some.injEq] at hr
      subst hr
      simp
  | some s =>
    cases hc : getCommand w i with
    | none =>
      refine ⟨by simp, fun r hr => ?_⟩
      simp only [Option.some.injEq] at hr
      subst hr
      simp
    | some c =>
      refine ⟨by simp, fun r hr => ?_⟩
      simp only [Option.some.injEq] at hr
      subst hr
      simp

/-- the combined read as a formula -/
theorem combined_read_formula (w : World F) (i : Nat) :
    getTerminalData w i =
      match getState w i, getCommand w i with
      | some s, c => some ⟨s.time, ⟨s.time, c.map (·.value), some s.value⟩⟩
      | none, some c => some ⟨c.time, ⟨c.time, some c.value, none⟩⟩
      | none, none => none := by
  unfold getTerminalData
  cases getState w i <;> cases getCommand w i <;> rfl

/-- B4, the part that needs no law of arithmetic: two connected terminals' state reads are present or absent
together and carry the same timestamp; their values are `(x + y) / 2` and `(y + x) / 2` of the same two states. -/
theorem connected_read_same_time (w : World F) (h : Inv w) (i j : Nat) (hl : (w.t i).other = some j) :
    (getState w i).map (·.time) = (getState w j).map (·.time) ∧
    ((getState w i).isSome = (getState w j).isSome) ∧
    (∀ a b, (w.t i).state = some a → (w.t j).state = some b →
      getState w i = some ⟨max a.time b.time, State.divF (State.add a.value b.value) c2⟩ ∧
      getState w j = some ⟨max a.time b.time, State.divF (State.add b.value a.value) c2⟩) ∧
    ((w.t i).state = none ∨ (w.t j).state = none → getState w i = getState w j) := by
  have hlj : (w.t j).other = some i := (h i j hl).2
  rw [state_read_eq w i, state_read_eq w j, partnerState_linked w i j hl, partnerState_linked w j i hlj]
  cases (w.t i).state with
  | none => cases (w.t j).state <;> simp
  | some a =>
    cases (w.t j).state with
    | none => simp
    | some b =>
      have hm : max b.time a.time = max a.time b.time := by omega
      simp [hm]

/-- B4 (tier L, needs `hadd`: addition of the scalar type is commutative): two connected terminals always read
the same state. -/
theorem connected_read_same_state (hadd : ∀ x y : F, x + y = y + x)
    (w : World F) (h : Inv w) (i j : Nat) (hl : (w.t i).other = some j) : getState w i = getState w j := by
  obtain ⟨-, -, hboth, hnone⟩ := connected_read_same_time w h i j hl
  cases ha : (w.t i).state with
  | none => exact hnone (Or.inl ha)
  | some a =>
    cases hb : (w.t j).state with
    | none => exact hnone (Or.inr hb)
    | some b =>
      obtain ⟨e1, e2⟩ := hboth a b ha hb
      rw [e1, e2]
      have : State.add a.value b.value = State.add b.value a.value := by
        simp only [State.add]
        rw [hadd a.value.position, hadd a.value.velocity, hadd a.value.acceleration]
      rw [this]

/-- two connected terminals' command reads are present together and carry the same timestamp (the values can
differ only when the two commands have equal timestamps: each end then reports its own) -/
theorem connected_read_same_command_time (w : World F) (h : Inv w) (i j : Nat) (hl : (w.t i).other = some j) :
    (getCommand w i).map (·.time) = (getCommand w j).map (·.time) := by
  have hlj : (w.t j).other = some i := (h i j hl).2
  rw [command_read_formula w i, command_read_formula w j, partnerCommand_linked w i j hl,
    partnerCommand_linked w j i hlj]
  cases (w.t i).command with
  | none => cases (w.t j).command <;> rfl
  | some c =>
    cases (w.t j).command with
    | none => rfl
    | some g =>
      simp only
      split <;> split <;> simp <;> omega

/-- writing a state into terminal `i` is seen by a read of `i` and, through the link, by a read of its partner -/
theorem setState_seen_by_partner (w : World F) (h : Inv w) (i j : Nat) (d : Datum (State F))
    (hl : (w.t i).other = some j) : partnerState (w.setState i d) j = some d := by
  have hlj : (w.t j).other = some i := (h i j hl).2
  have : ((w.setState i d).t j).other = some i := by rw [setState_other]; exact hlj
  rw [partnerState_linked _ j i this, setState_state]; simp

end Reads

/-! ### non-vacuity and the concrete scenarios (payload type `Int`) -/
section Examples
/-- four terminals, `0` and `1` linked to each other, `2` and `3` free -/
def wPair : World Int := ((World.empty.addTerms 4).setOther 0 (some 1)).setOther 1 (some 0)
/-- four terminals, `0`–`2` linked and `1`–`3` linked -/
def wCross : World Int :=
  (((wPair.setOther 0 (some 2)).setOther 2 (some 0)).setOther 1 (some 3)).setOther 3 (some 1)

theorem inv_wPair : Inv wPair := inv_link _ 0 1 (inv_fresh _ 4 inv_empty) (by decide) rfl rfl
theorem inv_wCross : Inv wCross := by
  have h0 : Inv ((World.empty : World Int).addTerms 4) := inv_fresh _ 4 inv_empty
  have h1 : Inv (((World.empty : World Int).addTerms 4).setOther 0 (some 2) |>.setOther 2 (some 0)) :=
    inv_link _ 0 2 h0 (by decide) rfl rfl
  have h2 := inv_link _ 1 3 h1 (by decide) rfl rfl
  intro i j hij
  have e : ∀ k, (wCross.t k).other =
      (((((((World.empty : World Int).addTerms 4).setOther 0 (some 2)).setOther 2 (some 0)).setOther 1
        (some 3)).setOther 3 (some 1)).t k).other := by
    intro k
    simp only [wCross, wPair, setOther_other]
    by_cases k3 : k = 3
    · simp [k3]
    · by_cases k1 : k = 1
      · simp [k1]
      · by_cases k2 : k = 2
        · simp [k2]
        · by_cases k0 : k = 0
          · simp [k0]
          · simp [k0, k1, k2, k3]
  rw [e] at hij ⊢
  exact h2 i j hij

/-- the invariant is not trivially true: a one-way link violates it -/
example : ¬ Inv ((World.empty : World Int).setOther 0 (some 1)) := by
  intro h
  have := (h 0 1 rfl).2
  cases this

/-- `disconnect` on a linked pair: no panic, both ends unlinked -/
example : ∃ w', disconnect wPair 0 = .ok w' ∧ (w'.t 0).other = none ∧ (w'.t 1).other = none := ⟨_, rfl, rfl, rfl⟩
/-- re-connect of two terminals linked to each other (the scenario the fix is about) -/
example : ∃ w', connect wPair 0 1 = .ok w' ∧ (w'.t 0).other = some 1 ∧ (w'.t 1).other = some 0 :=
  ⟨_, rfl, rfl, rfl⟩
/-- `connect` where the first terminal was linked to a third one: the third one is freed -/
example : ∃ w', connect wPair 0 2 = .ok w' ∧ (w'.t 0).other = some 2 ∧ (w'.t 2).other = some 0 ∧
    (w'.t 1).other = none := ⟨_, rfl, rfl, rfl, rfl⟩
/-- `connect` where both terminals were linked elsewhere: both former partners are freed -/
example : ∃ w', connect wCross 0 1 = .ok w' ∧ (w'.t 0).other = some 1 ∧ (w'.t 1).other = some 0 ∧
    (w'.t 2).other = none ∧ (w'.t 3).other = none := ⟨_, rfl, rfl, rfl, rfl, rfl⟩
/-- hypotheses of `connect_frees_old_partners` / `connect_keeps_others` are satisfiable -/
example : (2 : Nat) ≠ 0 ∧ (2 : Nat) ≠ 1 ∧ ((wCross.t 0).other = some 2 ∨ (wCross.t 1).other = some 2) :=
  ⟨by decide, by decide, Or.inl rfl⟩
example : (2 : Nat) ≠ 0 ∧ (2 : Nat) ≠ 1 ∧ (wPair.t 0).other ≠ some 2 ∧ (wPair.t 1).other ≠ some 2 :=
  ⟨by decide, by decide, by decide, by decide⟩
/-- hypothesis of `connect_reconnect` -/
example : (wPair.t 0).other = some 1 := rfl
/-- hypothesis of `connect_prefix_agrees` -/
example : (0 : Nat) ≠ 2 ∧ (wPair.t 0).other ≠ some 2 := ⟨by decide, by decide⟩
/-- a well-formed operation sequence -/
example : ∀ op ∈ [Op.connect 0 1, Op.setState 0 ⟨5, ⟨1, 2, 3⟩⟩, Op.connect 1 2, Op.disconnect 0,
    Op.addTerms 2, Op.connect 4 1, (Op.setCommand 4 ⟨7, .velocity 3⟩ : Op Int)], op.wf := by
  intro op hop
  simp only [List.mem_cons, List.mem_nil_iff, or_false] at hop
  rcases hop with rfl | rfl | rfl | rfl | rfl | rfl | rfl <;> simp [Op.wf]

/-- A6: a world satisfying the invariant (two terminals linked to each other) on which the ORIGINAL `connect`
panics with a `RefCell` double borrow while the fixed one succeeds. -/
theorem connect_prefix_counterexample :
    ∃ w : World Int, Inv w ∧ connectPrefix w 0 1 = .error .borrow ∧ ∃ w', connect w 0 1 = .ok w' :=
  ⟨wPair, inv_wPair, rfl, _, rfl⟩

/-! reads on concrete worlds -/
/-- the scalar operations of `Int` for the examples (`ofInt` is the identity) -/
local instance : FloatLike Int := ⟨id, id, fun _ _ => 1, fun x => if x < 0 then -x else x⟩

/-- `0`–`1` linked; `0` holds state (10, 20, 30)@5 and command velocity 3@7, `1` holds state (30, 40, 50)@9
and command position 8@7 (a tie) -/
def wRead : World Int :=
  (((wPair.setState 0 ⟨5, ⟨10, 20, 30⟩⟩).setState 1 ⟨9, ⟨30, 40, 50⟩⟩).setCommand 0 ⟨7, .velocity 3⟩).setCommand 1
    ⟨7, .position 8⟩
theorem inv_wRead : Inv wRead :=
  inv_setCommand _ (inv_setCommand _ (inv_setState _ (inv_setState _ inv_wPair _ _) _ _) _ _) _ _

/-- hypotheses of `connected_read_same_state` hold here (`Int` addition commutes) and the mean is (20, 30, 40)@9 -/
example : (∀ x y : Int, x + y = y + x) ∧ Inv wRead ∧ (wRead.t 0).other = some 1 := ⟨Int.add_comm, inv_wRead, rfl⟩
example : getState wRead 0 = some ⟨9, ⟨20, 30, 40⟩⟩ ∧ getState wRead 1 = some ⟨9, ⟨20, 30, 40⟩⟩ := ⟨rfl, rfl⟩
/-- on a timestamp tie each end reads its own command -/
example : getCommand wRead 0 = some ⟨7, .velocity 3⟩ ∧ getCommand wRead 1 = some ⟨7, .position 8⟩ := ⟨rfl, rfl⟩
/-- the combined read takes the state's timestamp -/
example : (getTerminalData wRead 0).map (·.time) = some 9 := rfl
/-- `state_read_own`, `state_read_partner`, `state_read_none` hypotheses -/
example : ((wPair.setState 0 ⟨5, ⟨1, 2, 3⟩⟩).t 0).state = some ⟨5, ⟨1, 2, 3⟩⟩ ∧
    partnerState (wPair.setState 0 ⟨5, ⟨1, 2, 3⟩⟩) 0 = none := ⟨rfl, rfl⟩
example : ((wPair.setState 0 ⟨5, ⟨1, 2, 3⟩⟩).t 1).state = none ∧
    partnerState (wPair.setState 0 ⟨5, ⟨1, 2, 3⟩⟩) 1 = some ⟨5, ⟨1, 2, 3⟩⟩ := ⟨rfl, rfl⟩
example : (wPair.t 0).state = none ∧ partnerState wPair 0 = none := ⟨rfl, rfl⟩
example : (wRead.t 0).state = some ⟨5, ⟨10, 20, 30⟩⟩ ∧ partnerState wRead 0 = some ⟨9, ⟨30, 40, 50⟩⟩ := ⟨rfl, rfl⟩
/-- a combined read with a command but no state takes the command's timestamp -/
example : getTerminalData (wPair.setCommand 1 ⟨4, .position 2⟩) 0 = some ⟨4, ⟨4, some (.position 2), none⟩⟩ := rfl
end Examples

end Rrtk.Thm.C09
