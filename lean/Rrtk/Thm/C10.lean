/-
C10 — integral / derivative streams and the acceleration-, velocity-, position-to-state converters.

Tier S (no algebraic law on the scalar) for everything structural: which samples are used, in which order, with
which operator, the timestamps, resets, panics, units, timestamp-shift invariance.  Tier R (ordered field) only for the
two sanity corollaries `trapsum_linear_exact`, `backdiff_linear_exact`.
-/
import Rrtk.Streams.Stateful
import Rrtk.Thm.Lemmas.Exact
set_option linter.unusedSectionVars false
set_option linter.unusedSimpArgs false
namespace Rrtk.Thm.C10
open Rrtk

/-! ## A. histories, runs -/
section Run
variable {S I α : Type}

/-- run a step function over a history of inputs; stops at the first panic -/
def runE (step : S → I → Except Panic (S × UpdRet)) (s : S) : List I → Except Panic S
  | [] => .ok s
  | e :: es =>
    match step s e with
    | .error p => .error p
    | .ok (s', _) => runE step s' es

theorem runE_append (step : S → I → Except Panic (S × UpdRet)) (s : S) (l₁ l₂ : List I) :
    runE step s (l₁ ++ l₂) =
      match runE step s l₁ with
      | .error p => .error p
      | .ok s' => runE step s' l₂ := by
  induction l₁ generalizing s with
  | nil => rfl
  | cons e es ih =>
    simp only [List.cons_append, runE]
    cases step s e with
    | error p => rfl
    | ok r => cases r with | mk s' u => exact ih s'

theorem runE_snoc (step : S → I → Except Panic (S × UpdRet)) (s : S) (l : List I) (e : I) :
    runE step s (l ++ [e]) =
      match runE step s l with
      | .error p => .error p
      | .ok s' =>
        match step s' e with
        | .error p => .error p
        | .ok (s'', _) => .ok s'' := by
  rw [runE_append]
  cases runE step s l with
  | error p => rfl
  | ok s' =>
    simp only [runE]

theorem runE_snoc_ok (step : S → I → Except Panic (S × UpdRet)) (s s' : S) (l : List I) (e : I)
    (h : runE step s l = .ok s') :
    runE step s (l ++ [e]) = match step s' e with
      | .error p => .error p
      | .ok (s'', _) => .ok s'' := by
  rw [runE_snoc, h]

theorem runE_snoc_error (step : S → I → Except Panic (S × UpdRet)) (s : S) (l : List I) (e : I) (p : Panic)
    (h : runE step s l = .error p) : runE step s (l ++ [e]) = .error p := by
  rw [runE_snoc, h]

/-- induction from the right -/
theorem snoc_induction {P : List α → Prop} (nil : P []) (snoc : ∀ l a, P l → P (l ++ [a])) : ∀ l, P l := by
  intro l
  rw [← List.reverse_reverse l]
  induction l.reverse with
  | nil => exact nil
  | cons a t ih => rw [List.reverse_cons]; exact snoc _ _ ih

/-- the leading present samples of a list of events -/
def presentPrefix : List (Output α) → List (Datum α)
  | [] => []
  | .ok (some d) :: es => d :: presentPrefix es
  | .ok none :: _ => []
  | .error _ :: _ => []

/-- the leading present samples, skipping absent events, up to the first error -/
def presentPrefixIgn : List (Output α) → List (Datum α)
  | [] => []
  | .ok (some d) :: es => d :: presentPrefixIgn es
  | .ok none :: es => presentPrefixIgn es
  | .error _ :: _ => []

/-- newest-first: the present samples back to the last absent/error event -/
def rrun (evs : List (Output α)) : List (Datum α) := presentPrefix evs.reverse
/-- newest-first: the present samples back to the last error event (absent events skipped) -/
def rrunIgn (evs : List (Output α)) : List (Datum α) := presentPrefixIgn evs.reverse

/-- "the run of present samples since the last reset" where a reset is an absent or an error event:
the samples (oldest first) of the longest all-present suffix of the history -/
def lastRun (evs : List (Output α)) : List (Datum α) := (rrun evs).reverse
/-- the same where only an error event resets and absent events are ignored -/
def lastRunIgnoringAbsent (evs : List (Output α)) : List (Datum α) := (rrunIgn evs).reverse

@[simp] theorem rrun_nil : rrun ([] : List (Output α)) = [] := rfl
@[simp] theorem rrun_snoc_present (l : List (Output α)) (d : Datum α) :
    rrun (l ++ [.ok (some d)]) = d :: rrun l := by simp [rrun, presentPrefix]
@[simp] theorem rrun_snoc_absent (l : List (Output α)) : rrun (l ++ [.ok none]) = [] := by
  simp [rrun, presentPrefix]
@[simp] theorem rrun_snoc_error (l : List (Output α)) (e : Err) : rrun (l ++ [.error e]) = [] := by
  simp [rrun, presentPrefix]
@[simp] theorem rrunIgn_nil : rrunIgn ([] : List (Output α)) = [] := rfl
@[simp] theorem rrunIgn_snoc_present (l : List (Output α)) (d : Datum α) :
    rrunIgn (l ++ [.ok (some d)]) = d :: rrunIgn l := by simp [rrunIgn, presentPrefixIgn]
@[simp] theorem rrunIgn_snoc_absent (l : List (Output α)) : rrunIgn (l ++ [.ok none]) = rrunIgn l := by
  simp [rrunIgn, presentPrefixIgn]
@[simp] theorem rrunIgn_snoc_error (l : List (Output α)) (e : Err) : rrunIgn (l ++ [.error e]) = [] := by
  simp [rrunIgn, presentPrefixIgn]

/-- `lastRun` appends a present sample and is emptied by anything else -/
theorem lastRun_snoc (l : List (Output α)) (e : Output α) :
    lastRun (l ++ [e]) = match e with
      | .ok (some d) => lastRun l ++ [d]
      | _ => [] := by
  match e with
  | .ok (some d) => simp [lastRun]
  | .ok none => simp [lastRun]
  | .error x => simp [lastRun]

theorem lastRunIgnoringAbsent_snoc (l : List (Output α)) (e : Output α) :
    lastRunIgnoringAbsent (l ++ [e]) = match e with
      | .ok (some d) => lastRunIgnoringAbsent l ++ [d]
      | .ok none => lastRunIgnoringAbsent l
      | .error _ => [] := by
  match e with
  | .ok (some d) => simp [lastRunIgnoringAbsent]
  | .ok none => simp [lastRunIgnoringAbsent]
  | .error x => simp [lastRunIgnoringAbsent]

/-- `lastRun` really is the all-present tail of the history: the history is some `pre` followed by exactly these
samples, and `pre` is empty or ends with a non-present event -/
theorem lastRun_decomp (evs : List (Output α)) :
    ∃ pre, evs = pre ++ (lastRun evs).map (fun d => (.ok (some d) : Output α)) ∧
      ∀ e, pre.getLast? = some e → ∀ d, e ≠ .ok (some d) := by
  induction evs using snoc_induction with
  | nil => exact ⟨[], rfl, by simp⟩
  | snoc l e ih =>
    obtain ⟨pre, h1, h2⟩ := ih
    match e with
    | .ok (some d) =>
      refine ⟨pre, ?_, h2⟩
      rw [lastRun_snoc]; simp only [List.map_append, List.map_cons, List.map_nil]
      rw [← List.append_assoc, ← h1]
    | .ok none =>
      refine ⟨l ++ [.ok none], by rw [lastRun_snoc]; simp, ?_⟩
      intro e he d; simp at he; subst he; simp
    | .error x =>
      refine ⟨l ++ [.error x], by rw [lastRun_snoc]; simp, ?_⟩
      intro e he d; simp at he; subst he; simp

/-- every sample of the last run is a present event of the history -/
theorem mem_rrun (evs : List (Output α)) (d : Datum α) (h : d ∈ rrun evs) : (.ok (some d) : Output α) ∈ evs := by
  induction evs using snoc_induction with
  | nil => simp at h
  | snoc l e ih =>
    match e with
    | .ok (some d') =>
      simp only [rrun_snoc_present, List.mem_cons] at h
      rcases h with h | h
      · subst h; simp
      · simp [ih h]
    | .ok none => simp at h
    | .error x => simp at h

theorem mem_rrunIgn (evs : List (Output α)) (d : Datum α) (h : d ∈ rrunIgn evs) :
    (.ok (some d) : Output α) ∈ evs := by
  induction evs using snoc_induction with
  | nil => simp at h
  | snoc l e ih =>
    match e with
    | .ok (some d') =>
      simp only [rrunIgn_snoc_present, List.mem_cons] at h
      rcases h with h | h
      · subst h; simp
      · simp [ih h]
    | .ok none => simp only [rrunIgn_snoc_absent] at h; simp [ih h]
    | .error x => simp at h
/-- an event that is not "absent" -/
def notAbsent : Output α → Bool
  | .ok none => false
  | _ => true

/-- "ignoring absent events" is literally that: the last run of the history with the absent events deleted -/
theorem lastRunIgnoringAbsent_eq_filter (evs : List (Output α)) :
    lastRunIgnoringAbsent evs = lastRun (evs.filter notAbsent) := by
  induction evs using snoc_induction with
  | nil => rfl
  | snoc l e ih =>
    rw [lastRunIgnoringAbsent_snoc, List.filter_append]
    match e with
    | .ok (some d) =>
      have : List.filter notAbsent [(.ok (some d) : Output α)] = [.ok (some d)] := rfl
      rw [this, lastRun_snoc, ih]
    | .ok none =>
      have : List.filter notAbsent [(.ok none : Output α)] = [] := rfl
      rw [this, List.append_nil, ih]
    | .error x =>
      have : List.filter notAbsent [(.error x : Output α)] = [.error x] := rfl
      rw [this, lastRun_snoc]
end Run

/-! ## B, C. integral and derivative streams -/
section S
variable {F : Type} [Add F] [Sub F] [Mul F] [Div F] [Neg F] [LT F] [LE F] [BEq F]
  [DecidableLT F] [DecidableLE F] [FloatLike F]

/-- what `update` returns for an input event: the input's error, otherwise `Ok(())` -/
def updRetOf {α : Type} : Output α → UpdRet
  | .error x => .error x
  | .ok _ => .ok ()

/-- what `get` returns after the history `evs` when the specification of the last run evaluates to `r`:
nothing yet → absent; last event an error → that error; last event absent → absent; last event a sample → `r` -/
def expectedGet (evs : List (Output (Quantity F))) (r : Option (Datum (Quantity F))) : Output (Quantity F) :=
  match evs.getLast? with
  | none => .ok none
  | some (.error e) => .error e
  | some (.ok none) => .ok none
  | some (.ok (some _)) => .ok r

/-! ### generic part shared by the two streams (state = cached value + previous sample) -/
/-- invariant tying a state to the (newest-first) run of samples since the last reset -/
def DiInv (specRev : List (Datum (Quantity F)) → Except Panic (Option (Datum (Quantity F))))
    (s : DiS F) (rr : List (Datum (Quantity F))) : Prop :=
  s.prev = rr.head? ∧ (rr ≠ [] → ∃ r, specRev rr = .ok r ∧ s.value = .ok r)

/-- what we need of a step function to relate it to a specification on runs -/
structure DiLaws (step : DiS F → Output (Quantity F) → Except Panic (DiS F × UpdRet))
    (specRev : List (Datum (Quantity F)) → Except Panic (Option (Datum (Quantity F)))) : Prop where
  nil : specRev [] = .ok none
  err : ∀ s e, step s (.error e) = .ok (⟨.error e, none⟩, .error e)
  absent : ∀ s, step s (.ok none) = .ok (⟨.ok none, none⟩, .ok ())
  present : ∀ s rr d, DiInv specRev s rr →
    step s (.ok (some d)) = match specRev (d :: rr) with
      | .error p => .error p
      | .ok r => .ok (⟨.ok r, some d⟩, .ok ())

theorem di_run_ok {step : DiS F → Output (Quantity F) → Except Panic (DiS F × UpdRet)}
    {specRev : List (Datum (Quantity F)) → Except Panic (Option (Datum (Quantity F)))}
    (L : DiLaws step specRev) (evs : List (Output (Quantity F))) (s : DiS F)
    (h : runE step ⟨.ok none, none⟩ evs = .ok s) :
    DiInv specRev s (rrun evs) ∧ ∃ r, specRev (rrun evs) = .ok r ∧ s.value = expectedGet evs r := by
  induction evs using snoc_induction generalizing s with
  | nil =>
    simp only [runE, Except.ok.injEq] at h
    subst h
    exact ⟨⟨rfl, fun h => absurd rfl h⟩, none, L.nil, rfl⟩
  | snoc l e ih =>
    cases hl : runE step ⟨.ok none, none⟩ l with
    | error p => rw [runE_snoc_error _ _ _ _ _ hl] at h; cases h
    | ok s0 =>
      rw [runE_snoc_ok _ _ _ _ _ hl] at h
      have ih' := ih s0 hl
      match e with
      | .error x =>
        simp only [L.err, Except.ok.injEq] at h
        subst h
        refine ⟨⟨by simp, by simp⟩, none, by simp [L.nil], ?_⟩
        simp [expectedGet]
      | .ok none =>
        simp only [L.absent, Except.ok.injEq] at h
        subst h
        refine ⟨⟨by simp, by simp⟩, none, by simp [L.nil], ?_⟩
        simp [expectedGet]
      | .ok (some d) =>
        rw [L.present s0 (rrun l) d ih'.1] at h
        cases hs : specRev (d :: rrun l) with
        | error p => rw [hs] at h; cases h
        | ok r =>
          rw [hs] at h
          simp only [Except.ok.injEq] at h
          subst h
          refine ⟨⟨by simp, fun _ => ⟨r, by simpa using hs, rfl⟩⟩, r, by simpa using hs, ?_⟩
          simp [expectedGet]

theorem di_run_snoc_error {step : DiS F → Output (Quantity F) → Except Panic (DiS F × UpdRet)}
    {specRev : List (Datum (Quantity F)) → Except Panic (Option (Datum (Quantity F)))}
    (L : DiLaws step specRev) (l : List (Output (Quantity F))) (e : Output (Quantity F)) (s0 : DiS F)
    (hl : runE step ⟨.ok none, none⟩ l = .ok s0) (p : Panic) :
    runE step ⟨.ok none, none⟩ (l ++ [e]) = .error p ↔ specRev (rrun (l ++ [e])) = .error p := by
  rw [runE_snoc_ok _ _ _ _ _ hl]
  match e with
  | .error x => simp [L.err, L.nil]
  | .ok none => simp [L.absent, L.nil]
  | .ok (some d) =>
    simp only [L.present s0 (rrun l) d (di_run_ok L l s0 hl).1, rrun_snoc_present]
    cases specRev (d :: rrun l) with
    | error q => simp
    | ok r => simp

theorem di_run_panic {step : DiS F → Output (Quantity F) → Except Panic (DiS F × UpdRet)}
    {specRev : List (Datum (Quantity F)) → Except Panic (Option (Datum (Quantity F)))}
    (L : DiLaws step specRev) (evs : List (Output (Quantity F))) :
    (∃ p, runE step ⟨.ok none, none⟩ evs = .error p) ↔
      ∃ pre, pre <+: evs ∧ ∃ p, specRev (rrun pre) = .error p := by
  induction evs using snoc_induction with
  | nil =>
    constructor
    · rintro ⟨p, h⟩; cases h
    · rintro ⟨pre, hpre, p, h⟩
      have : pre = [] := by simpa using hpre
      subst this; rw [rrun_nil, L.nil] at h; cases h
  | snoc l e ih =>
    constructor
    · rintro ⟨p, h⟩
      cases hl : runE step ⟨.ok none, none⟩ l with
      | error q =>
        obtain ⟨pre, hpre, hq⟩ := ih.1 ⟨q, hl⟩
        exact ⟨pre, hpre.trans (List.prefix_append _ _), hq⟩
      | ok s0 =>
        exact ⟨l ++ [e], List.prefix_refl _, p, (di_run_snoc_error L l e s0 hl p).1 h⟩
    · rintro ⟨pre, hpre, p, h⟩
      rcases List.prefix_concat_iff.1 hpre with rfl | hpre
      · cases hl : runE step ⟨.ok none, none⟩ l with
        | error q => exact ⟨q, runE_snoc_error _ _ _ _ _ hl⟩
        | ok s0 => exact ⟨p, (di_run_snoc_error L l e s0 hl p).2 h⟩
      · obtain ⟨q, hq⟩ := ih.2 ⟨pre, hpre, p, h⟩
        exact ⟨q, runE_snoc_error _ _ _ _ _ hq⟩

/-! ### B. the integral stream -/

/-- one trapezoid, exactly as the code writes it: `Quantity::from(o.time - p.time) * (p.value + o.value) /
Quantity::dimensionless(2.0)` (panics if the two samples' units differ and checking is on) -/
def trapAddend (chk : Bool) (p o : Datum (Quantity F)) : Except Panic (Quantity F) :=
  match Quantity.add chk p.value o.value with
  | .error e => .error e
  | .ok sm => .ok (Quantity.div chk (Quantity.mul chk (Quantity.ofTime chk (o.time - p.time)) sm)
      (Quantity.dimensionless chk c2))

/-- trapezoidal sum of a run given newest-first: nothing for fewer than two samples, otherwise (newest `o`, before
it `p`) `addend(p,o)` for exactly two samples and `addend(p,o) + (sum of the run up to p)` for more — the addend is
the *left* operand of the addition, as in the code.  Carries the newest sample's time. -/
def trapRev (chk : Bool) : List (Datum (Quantity F)) → Except Panic (Option (Datum (Quantity F)))
  | [] => .ok none
  | [_] => .ok none
  | o :: p :: rest =>
    match trapRev chk (p :: rest) with
    | .error e => .error e
    | .ok prevSum =>
      match trapAddend chk p o with
      | .error e => .error e
      | .ok a =>
        match prevSum with
        | none => .ok (some ⟨o.time, a⟩)
        | some r =>
          match Quantity.add chk a r.value with
          | .error e => .error e
          | .ok v => .ok (some ⟨o.time, v⟩)

/-- NON-incremental specification of the integral stream on a run `d₀ … dₙ` (oldest first): absent for `n = 0` or the
empty run; for `n ≥ 1` the time is `dₙ.time` and the value is `aₙ + (aₙ₋₁ + (… + a₁))` with
`aᵢ = ofTime(tᵢ − tᵢ₋₁) * (vᵢ₋₁ + vᵢ) / dimensionless 2` -/
def trapSpec (chk : Bool) (run : List (Datum (Quantity F))) : Except Panic (Option (Datum (Quantity F))) :=
  trapRev chk run.reverse

/-- the specification unfolded: empty and one-sample runs -/
theorem trapSpec_nil (chk : Bool) : trapSpec chk ([] : List (Datum (Quantity F))) = .ok none := rfl
theorem trapSpec_one (chk : Bool) (d : Datum (Quantity F)) : trapSpec chk [d] = .ok none := rfl
/-- two samples: one trapezoid -/
theorem trapSpec_two (chk : Bool) (d₀ d₁ : Datum (Quantity F)) :
    trapSpec chk [d₀, d₁] = match trapAddend chk d₀ d₁ with
      | .error e => .error e
      | .ok a => .ok (some ⟨d₁.time, a⟩) := by
  simp only [trapSpec, List.reverse_cons, List.reverse_nil, List.nil_append, List.cons_append, trapRev]
/-- recurrence: appending a sample `o` after `… p` adds the trapezoid over `(p, o)` on the left of the old sum -/
theorem trapSpec_snoc (chk : Bool) (run : List (Datum (Quantity F))) (q p o : Datum (Quantity F)) :
    trapSpec chk (run ++ [q, p, o]) =
      match trapSpec chk (run ++ [q, p]) with
      | .error e => .error e
      | .ok none => .ok none
      | .ok (some r) =>
        match trapAddend chk p o with
        | .error e => .error e
        | .ok a =>
          match Quantity.add chk a r.value with
          | .error e => .error e
          | .ok v => .ok (some ⟨o.time, v⟩) := by
  have e1 : (run ++ [q, p, o]).reverse = o :: p :: q :: run.reverse := by simp
  have e2 : (run ++ [q, p]).reverse = p :: q :: run.reverse := by simp
  simp only [trapSpec, e1, e2]
  rw [trapRev]
  cases h : trapRev chk (p :: q :: run.reverse) with
  | error e => rfl
  | ok r =>
    cases r with
    | some r => rfl
    | none =>
      exfalso
      rw [trapRev] at h
      cases h1 : trapRev chk (q :: run.reverse) with
      | error e => rw [h1] at h; cases h
      | ok r1 =>
        rw [h1] at h
        cases h2 : trapAddend chk q p with
        | error e => rw [h2] at h; cases h
        | ok a =>
          rw [h2] at h
          cases r1 with
          | none => cases h
          | some r =>
            simp only at h
            cases h3 : Quantity.add chk a r.value with
            | error e => rw [h3] at h; cases h
            | ok v => rw [h3] at h; cases h

theorem integral_laws (chk : Bool) : DiLaws (Integral.step (F := F) chk) (trapRev chk) where
  nil := rfl
  err := fun _ _ => rfl
  absent := fun _ => rfl
  present := by
    intro s rr d ⟨hp, hv⟩
    cases rr with
    | nil =>
      simp only [List.head?_nil] at hp
      simp only [Integral.step, hp, trapRev]
    | cons p rest =>
      obtain ⟨r, hr, hval⟩ := hv (by simp)
      simp only [List.head?_cons] at hp
      simp only [Integral.step, hp, trapRev, hr, trapAddend]
      cases Quantity.add chk p.value d.value with
      | error e => rfl
      | ok sm =>
        simp only [hval]
        cases r with
        | none => rfl
        | some real =>
          simp only
          cases Quantity.add chk (Quantity.div chk (Quantity.mul chk (Quantity.ofTime chk (d.time - p.time)) sm)
            (Quantity.dimensionless chk c2)) real.value <;> rfl

/-- **Integral = trapezoidal sum.**  After any history that did not panic, `get` returns: absent before the first
event; the error if the last event was an error; absent if the last event was absent; otherwise the trapezoidal sum
(non-incremental `trapSpec`) of the run of present samples since the last absent/error event — absent when that run has
one sample, and carrying the newest sample's time. -/
theorem integral_eq_trapsum (chk : Bool) (evs : List (Output (Quantity F))) (s : DiS F)
    (h : runE (Integral.step chk) Integral.init evs = .ok s) :
    ∃ r, trapSpec chk (lastRun evs) = .ok r ∧ Integral.get s = expectedGet evs r := by
  obtain ⟨_, r, hr, hv⟩ := di_run_ok (integral_laws chk) evs s h
  exact ⟨r, by simpa [trapSpec, lastRun] using hr, hv⟩

/-- the previous-sample slot holds the newest sample of the current run (nothing after a reset) -/
theorem integral_prev (chk : Bool) (evs : List (Output (Quantity F))) (s : DiS F)
    (h : runE (Integral.step chk) Integral.init evs = .ok s) : s.prev = (lastRun evs).getLast? := by
  have := (di_run_ok (integral_laws chk) evs s h).1.1
  simpa [lastRun] using this

/-- **Panics.**  Running a history panics exactly when the trapezoidal-sum specification of the current run panics
at some point of the history (i.e. for some prefix). -/
theorem integral_panics_iff (chk : Bool) (evs : List (Output (Quantity F))) :
    (∃ p, runE (Integral.step chk) Integral.init evs = .error p) ↔
      ∃ pre, pre <+: evs ∧ ∃ p, trapSpec chk (lastRun pre) = .error p := by
  have := di_run_panic (integral_laws chk) evs
  simp only [trapSpec, lastRun, List.reverse_reverse]; exact this

/-- `update`'s return value: the error on an error event, `Ok(())` otherwise -/
theorem integral_update_ret (chk : Bool) (s s' : DiS F) (e : Output (Quantity F)) (r : UpdRet)
    (h : Integral.step chk s e = .ok (s', r)) :
    r = updRetOf e := by
  match e with
  | .error x => simp only [Integral.step, Except.ok.injEq, Prod.mk.injEq] at h; exact h.2.symm
  | .ok none => simp only [Integral.step, Except.ok.injEq, Prod.mk.injEq] at h; exact h.2.symm
  | .ok (some d) =>
    simp only [Integral.step] at h
    split at h
    · simp only [Except.ok.injEq, Prod.mk.injEq] at h; exact h.2.symm
    · split at h
      · cases h
      · split at h
        · split at h
          · cases h
          · simp only [Except.ok.injEq, Prod.mk.injEq] at h; exact h.2.symm
        · simp only [Except.ok.injEq, Prod.mk.injEq] at h; exact h.2.symm

/-! ### C. the derivative stream -/

/-- backward difference quotient of the two newest samples of a run given newest-first -/
def backdiffRev (chk : Bool) : List (Datum (Quantity F)) → Except Panic (Option (Datum (Quantity F)))
  | [] => .ok none
  | [_] => .ok none
  | o :: p :: _ =>
    match Quantity.sub chk o.value p.value with
    | .error e => .error e
    | .ok d => .ok (some ⟨o.time, Quantity.div chk d (Quantity.ofTime chk (o.time - p.time))⟩)

/-- NON-incremental specification of the derivative stream on a run (oldest first): absent with fewer than two
samples, otherwise `(vₙ − vₙ₋₁) / ofTime(tₙ − tₙ₋₁)` at time `tₙ` -/
def backdiffSpec (chk : Bool) (run : List (Datum (Quantity F))) : Except Panic (Option (Datum (Quantity F))) :=
  backdiffRev chk run.reverse

theorem backdiffSpec_nil (chk : Bool) : backdiffSpec chk ([] : List (Datum (Quantity F))) = .ok none := rfl
theorem backdiffSpec_one (chk : Bool) (d : Datum (Quantity F)) : backdiffSpec chk [d] = .ok none := rfl
/-- the specification only looks at the last two samples of the run -/
theorem backdiffSpec_snoc (chk : Bool) (run : List (Datum (Quantity F))) (p o : Datum (Quantity F)) :
    backdiffSpec chk (run ++ [p, o]) =
      match Quantity.sub chk o.value p.value with
      | .error e => .error e
      | .ok d => .ok (some ⟨o.time, Quantity.div chk d (Quantity.ofTime chk (o.time - p.time))⟩) := by
  have e1 : (run ++ [p, o]).reverse = o :: p :: run.reverse := by simp
  simp only [backdiffSpec, e1, backdiffRev]

theorem derivative_laws (chk : Bool) : DiLaws (Derivative.step (F := F) chk) (backdiffRev chk) where
  nil := rfl
  err := fun _ _ => rfl
  absent := fun _ => rfl
  present := by
    intro s rr d ⟨hp, _⟩
    cases rr with
    | nil =>
      simp only [List.head?_nil] at hp
      simp only [Derivative.step, hp, backdiffRev]
    | cons p rest =>
      simp only [List.head?_cons] at hp
      simp only [Derivative.step, hp, backdiffRev]
      cases Quantity.sub chk d.value p.value <;> rfl

/-- **Derivative = backward difference quotient of the last two samples.**  Same shape as `integral_eq_trapsum`. -/
theorem derivative_eq_backdiff (chk : Bool) (evs : List (Output (Quantity F))) (s : DiS F)
    (h : runE (Derivative.step chk) Derivative.init evs = .ok s) :
    ∃ r, backdiffSpec chk (lastRun evs) = .ok r ∧ Derivative.get s = expectedGet evs r := by
  obtain ⟨_, r, hr, hv⟩ := di_run_ok (derivative_laws chk) evs s h
  exact ⟨r, by simpa [backdiffSpec, lastRun] using hr, hv⟩

theorem derivative_prev (chk : Bool) (evs : List (Output (Quantity F))) (s : DiS F)
    (h : runE (Derivative.step chk) Derivative.init evs = .ok s) : s.prev = (lastRun evs).getLast? := by
  have := (di_run_ok (derivative_laws chk) evs s h).1.1
  simpa [lastRun] using this

theorem derivative_panics_iff (chk : Bool) (evs : List (Output (Quantity F))) :
    (∃ p, runE (Derivative.step chk) Derivative.init evs = .error p) ↔
      ∃ pre, pre <+: evs ∧ ∃ p, backdiffSpec chk (lastRun pre) = .error p := by
  have := di_run_panic (derivative_laws chk) evs
  simp only [backdiffSpec, lastRun, List.reverse_reverse]; exact this

theorem derivative_update_ret (chk : Bool) (s s' : DiS F) (e : Output (Quantity F)) (r : UpdRet)
    (h : Derivative.step chk s e = .ok (s', r)) :
    r = updRetOf e := by
  match e with
  | .error x => simp only [Derivative.step, Except.ok.injEq, Prod.mk.injEq] at h; exact h.2.symm
  | .ok none => simp only [Derivative.step, Except.ok.injEq, Prod.mk.injEq] at h; exact h.2.symm
  | .ok (some d) =>
    simp only [Derivative.step] at h
    split at h
    · simp only [Except.ok.injEq, Prod.mk.injEq] at h; exact h.2.symm
    · split at h
      · cases h
      · simp only [Except.ok.injEq, Prod.mk.injEq] at h; exact h.2.symm

/-- outputs carry the newest sample's time (both streams) -/
theorem trapSpec_time (chk : Bool) (run : List (Datum (Quantity F))) (r : Datum (Quantity F))
    (h : trapSpec chk run = .ok (some r)) : ∃ dn, run.getLast? = some dn ∧ r.time = dn.time := by
  unfold trapSpec at h
  rw [← List.head?_reverse]
  match hrr : run.reverse with
  | [] => rw [hrr] at h; cases h
  | [_] => rw [hrr] at h; cases h
  | o :: p :: rest =>
    rw [hrr, trapRev] at h
    refine ⟨o, rfl, ?_⟩
    split at h
    · cases h
    · split at h
      · cases h
      · split at h
        · cases h; rfl
        · split at h
          · cases h
          · cases h; rfl

theorem backdiffSpec_time (chk : Bool) (run : List (Datum (Quantity F))) (r : Datum (Quantity F))
    (h : backdiffSpec chk run = .ok (some r)) : ∃ dn, run.getLast? = some dn ∧ r.time = dn.time := by
  unfold backdiffSpec at h
  rw [← List.head?_reverse]
  match hrr : run.reverse with
  | [] => rw [hrr] at h; cases h
  | [_] => rw [hrr] at h; cases h
  | o :: p :: rest =>
    rw [hrr, backdiffRev] at h
    refine ⟨o, rfl, ?_⟩
    split at h
    · cases h
    · cases h; rfl

/-- absent until two samples exist; present (if no panic) from two samples on -/
theorem trapSpec_none_iff (chk : Bool) (run : List (Datum (Quantity F))) :
    trapSpec chk run = .ok none ↔ run.length < 2 := by
  unfold trapSpec
  rw [← List.length_reverse]
  match run.reverse with
  | [] => simp [trapRev]
  | [_] => simp [trapRev]
  | o :: p :: rest =>
    simp only [trapRev, List.length_cons]
    constructor
    · intro h
      split at h
      · cases h
      · split at h
        · cases h
        · split at h
          · cases h
          · split at h <;> cases h
    · intro h; omega

theorem backdiffSpec_none_iff (chk : Bool) (run : List (Datum (Quantity F))) :
    backdiffSpec chk run = .ok none ↔ run.length < 2 := by
  unfold backdiffSpec
  rw [← List.length_reverse]
  match run.reverse with
  | [] => simp [backdiffRev]
  | [_] => simp [backdiffRev]
  | o :: p :: rest =>
    simp only [backdiffRev, List.length_cons]
    constructor
    · intro h
      split at h <;> cases h
    · intro h; omega

/-! ## F. invariance under a constant shift of all timestamps (tier S: `dt` is formed in `Int`) -/

/-- shift a datum's / an event's timestamp by `c` nanoseconds -/
def shiftDatum {α : Type} (c : Int) (d : Datum α) : Datum α := ⟨d.time + c, d.value⟩
def shiftOut {α : Type} (c : Int) : Output α → Output α
  | .ok (some d) => .ok (some (shiftDatum c d))
  | .ok none => .ok none
  | .error e => .error e
/-- shift every sample of a history -/
def shiftHist {α : Type} (c : Int) (evs : List (Output α)) : List (Output α) := evs.map (shiftOut c)
/-- induced shift on the integral/derivative state -/
def shiftDiS (c : Int) (s : DiS F) : DiS F := ⟨shiftOut c s.value, s.prev.map (shiftDatum c)⟩

/-- a step function commuting with maps on states and inputs gives runs that commute -/
theorem runE_map {S I : Type} (step : S → I → Except Panic (S × UpdRet)) (fS : S → S) (fI : I → I)
    (hstep : ∀ s e, step (fS s) (fI e) = (step s e).map (fun r => (fS r.1, r.2)))
    (s : S) (evs : List I) : runE step (fS s) (evs.map fI) = (runE step s evs).map fS := by
  induction evs generalizing s with
  | nil => rfl
  | cons e es ih =>
    simp only [List.map_cons, runE, hstep]
    cases step s e with
    | error p => rfl
    | ok r => cases r with | mk s' u => exact ih s'

theorem integral_step_shift (chk : Bool) (c : Int) (s : DiS F) (e : Output (Quantity F)) :
    Integral.step chk (shiftDiS c s) (shiftOut c e) =
      (Integral.step chk s e).map (fun r => (shiftDiS c r.1, r.2)) := by
  match e with
  | .error x => rfl
  | .ok none => rfl
  | .ok (some d) =>
    cases hp : s.prev with
    | none => simp only [Integral.step, shiftDiS, shiftOut, hp, shiftDatum, Option.map]; rfl
    | some p =>
      have ht : d.time + c - (p.time + c) = d.time - p.time := by omega
      simp only [Integral.step, shiftDiS, shiftOut, hp, shiftDatum, Option.map, ht]
      cases Quantity.add chk p.value d.value with
      | error q => rfl
      | ok sm =>
        simp only
        match s.value with
        | .error x => rfl
        | .ok none => rfl
        | .ok (some real) =>
          simp only [shiftOut, shiftDatum]
          cases Quantity.add chk (Quantity.div chk (Quantity.mul chk (Quantity.ofTime chk (d.time - p.time)) sm)
            (Quantity.dimensionless chk c2)) real.value <;> rfl

theorem derivative_step_shift (chk : Bool) (c : Int) (s : DiS F) (e : Output (Quantity F)) :
    Derivative.step chk (shiftDiS c s) (shiftOut c e) =
      (Derivative.step chk s e).map (fun r => (shiftDiS c r.1, r.2)) := by
  match e with
  | .error x => rfl
  | .ok none => rfl
  | .ok (some d) =>
    cases hp : s.prev with
    | none => simp only [Derivative.step, shiftDiS, shiftOut, hp, shiftDatum, Option.map]; rfl
    | some p =>
      have ht : d.time + c - (p.time + c) = d.time - p.time := by omega
      simp only [Derivative.step, shiftDiS, shiftOut, hp, shiftDatum, Option.map, ht]
      cases Quantity.sub chk d.value p.value <;> rfl

/-- **Shift invariance, integral.**  Shifting every timestamp of a history by `c` gives the same run with all
stored times shifted by `c` (values bit-identical), including the same panics. -/
theorem integral_shift_invariant (chk : Bool) (c : Int) (evs : List (Output (Quantity F))) :
    runE (Integral.step chk) Integral.init (shiftHist c evs) =
      (runE (Integral.step chk) Integral.init evs).map (shiftDiS c) :=
  runE_map (Integral.step chk) (shiftDiS c) (shiftOut c) (integral_step_shift (F := F) chk c) Integral.init evs

theorem derivative_shift_invariant (chk : Bool) (c : Int) (evs : List (Output (Quantity F))) :
    runE (Derivative.step chk) Derivative.init (shiftHist c evs) =
      (runE (Derivative.step chk) Derivative.init evs).map (shiftDiS c) :=
  runE_map (Derivative.step chk) (shiftDiS c) (shiftOut c) (derivative_step_shift (F := F) chk c) Derivative.init evs

/-- `get` commutes with the shift -/
theorem integral_get_shift (c : Int) (s : DiS F) : Integral.get (shiftDiS c s) = shiftOut c (Integral.get s) := rfl
theorem derivative_get_shift (c : Int) (s : DiS F) :
    Derivative.get (shiftDiS c s) = shiftOut c (Derivative.get s) := rfl

/-- hence: the observable output after a shifted history is the shifted output -/
theorem integral_output_shift (chk : Bool) (c : Int) (evs : List (Output (Quantity F))) :
    (runE (Integral.step chk) Integral.init (shiftHist c evs)).map Integral.get =
      (runE (Integral.step chk) Integral.init evs).map (fun s => shiftOut c (Integral.get s)) := by
  rw [integral_shift_invariant]
  cases runE (Integral.step chk) Integral.init evs <;> rfl
theorem derivative_output_shift (chk : Bool) (c : Int) (evs : List (Output (Quantity F))) :
    (runE (Derivative.step chk) Derivative.init (shiftHist c evs)).map Derivative.get =
      (runE (Derivative.step chk) Derivative.init evs).map (fun s => shiftOut c (Derivative.get s)) := by
  rw [derivative_shift_invariant]
  cases runE (Derivative.step chk) Derivative.init evs <;> rfl

/-! ## E. units -/

theorem constEq_iff (a b : DUnit) : DUnit.constEq a b = true ↔ a = b := by
  cases a; cases b; simp [DUnit.constEq]

theorem assertEq_true (a b : DUnit) :
    DUnit.assertEqAssumeOk true a b = if a = b then .ok () else .error .dim := by
  simp only [DUnit.assertEqAssumeOk, DUnit.eqAssumeTrue, if_true]
  by_cases h : a = b
  · simp [h, (constEq_iff b b).2 rfl]
  · have : DUnit.constEq a b = false := by
      cases hc : DUnit.constEq a b with
      | false => rfl
      | true => exact absurd ((constEq_iff _ _).1 hc) h
    simp [h, this]

theorem assertEq_false (a b : DUnit) : DUnit.assertEqAssumeOk false a b = .ok () := rfl

/-- with checking on, `+` and `-` on quantities succeed exactly on equal units and keep the unit -/
theorem qadd_true (a b : Quantity F) :
    Quantity.add true a b = if a.unit = b.unit then .ok ⟨a.value + b.value, a.unit⟩ else .error .dim := by
  simp only [Quantity.add, DUnit.add, assertEq_true]
  by_cases h : a.unit = b.unit <;> simp [h]
theorem qsub_true (a b : Quantity F) :
    Quantity.sub true a b = if a.unit = b.unit then .ok ⟨a.value - b.value, a.unit⟩ else .error .dim := by
  simp only [Quantity.sub, DUnit.sub, assertEq_true]
  by_cases h : a.unit = b.unit <;> simp [h]
/-- with checking off they never panic -/
theorem qadd_false (a b : Quantity F) : Quantity.add false a b = .ok ⟨a.value + b.value, a.unit⟩ := rfl
theorem qsub_false (a b : Quantity F) : Quantity.sub false a b = .ok ⟨a.value - b.value, a.unit⟩ := rfl
/-- the only panic of quantity arithmetic is the dimension assertion -/
theorem qadd_panic_dim (chk : Bool) (a b : Quantity F) (p : Panic) (h : Quantity.add chk a b = .error p) :
    p = .dim := by
  cases chk with
  | false => rw [qadd_false] at h; cases h
  | true => rw [qadd_true] at h; split at h <;> cases h; rfl
theorem qsub_panic_dim (chk : Bool) (a b : Quantity F) (p : Panic) (h : Quantity.sub chk a b = .error p) :
    p = .dim := by
  cases chk with
  | false => rw [qsub_false] at h; cases h
  | true => rw [qsub_true] at h; split at h <;> cases h; rfl
/-- values computed by `+`/`-` do not depend on the checking mode -/
theorem qadd_value (chk : Bool) (a b r : Quantity F) (h : Quantity.add chk a b = .ok r) :
    r.value = a.value + b.value := by
  cases chk with
  | false => rw [qadd_false] at h; cases h; rfl
  | true => rw [qadd_true] at h; split at h <;> cases h; rfl
theorem qsub_value (chk : Bool) (a b r : Quantity F) (h : Quantity.sub chk a b = .ok r) :
    r.value = a.value - b.value := by
  cases chk with
  | false => rw [qsub_false] at h; cases h; rfl
  | true => rw [qsub_true] at h; split at h <;> cases h; rfl

/-- one trapezoid of two samples of unit `u` has unit `u·s` -/
theorem trapAddend_unit (u : DUnit) (p o : Datum (Quantity F)) (hp : p.value.unit = u) (ho : o.value.unit = u) :
    ∃ a, trapAddend true p o = .ok a ∧ a.unit = ⟨u.mm, u.s + 1⟩ := by
  simp only [trapAddend, qadd_true, hp, ho, if_true]
  refine ⟨_, rfl, ?_⟩
  simp only [Quantity.div, Quantity.mul, Quantity.ofTime, Quantity.dimensionless, DUnit.div, DUnit.mul, SECOND,
    DIMENSIONLESS, DUnit.new, if_true, DUnit.mk.injEq]
  omega

theorem trapRev_unit (u : DUnit) (rr : List (Datum (Quantity F))) (hall : ∀ d ∈ rr, d.value.unit = u) :
    ∃ r, trapRev true rr = .ok r ∧ ∀ d, r = some d → d.value.unit = ⟨u.mm, u.s + 1⟩ := by
  induction rr with
  | nil => exact ⟨none, rfl, by simp⟩
  | cons o tl ih =>
    cases tl with
    | nil => exact ⟨none, rfl, by simp⟩
    | cons p rest =>
      obtain ⟨r0, h0, hu0⟩ := ih (fun d hd => hall d (List.mem_cons_of_mem _ hd))
      obtain ⟨a, ha, hau⟩ := trapAddend_unit u p o (hall p (by simp)) (hall o (by simp))
      rw [trapRev, h0]
      simp only [ha]
      cases r0 with
      | none => exact ⟨_, rfl, by intro d hd; cases hd; exact hau⟩
      | some r =>
        have hr := hu0 r rfl
        simp only [qadd_true, hau, hr, if_true]
        exact ⟨_, rfl, by intro d hd; cases hd; rfl⟩

theorem trapRev_nochk_ok (rr : List (Datum (Quantity F))) : ∃ r, trapRev false rr = .ok r := by
  induction rr with
  | nil => exact ⟨none, rfl⟩
  | cons o tl ih =>
    cases tl with
    | nil => exact ⟨none, rfl⟩
    | cons p rest =>
      obtain ⟨r0, h0⟩ := ih
      rw [trapRev, h0]
      simp only [trapAddend, qadd_false]
      cases r0 with
      | none => exact ⟨_, rfl⟩
      | some r => exact ⟨_, rfl⟩

/-- all present samples of a history have unit `u` -/
def AllUnit (u : DUnit) (evs : List (Output (Quantity F))) : Prop :=
  ∀ d : Datum (Quantity F), (.ok (some d) : Output (Quantity F)) ∈ evs → d.value.unit = u

/-- **Integral never panics on uniformly dimensioned input** (checking on) -/
theorem integral_same_unit_never_panics (u : DUnit) (evs : List (Output (Quantity F))) (hu : AllUnit u evs) :
    ∃ s, runE (Integral.step true) Integral.init evs = .ok s := by
  cases h : runE (Integral.step true) Integral.init evs with
  | ok s => exact ⟨s, rfl⟩
  | error p =>
    exfalso
    obtain ⟨pre, hpre, q, hq⟩ := (integral_panics_iff true evs).1 ⟨p, h⟩
    obtain ⟨r, hr, _⟩ := trapRev_unit u (rrun pre) (fun d hd => hu d (hpre.subset (mem_rrun pre d hd)))
    simp only [trapSpec, lastRun, List.reverse_reverse] at hq
    rw [hr] at hq; cases hq

/-- … nor at all when checking is off -/
theorem integral_nochk_never_panics (evs : List (Output (Quantity F))) :
    ∃ s, runE (Integral.step false) Integral.init evs = .ok s := by
  cases h : runE (Integral.step false) Integral.init evs with
  | ok s => exact ⟨s, rfl⟩
  | error p =>
    exfalso
    obtain ⟨pre, hpre, q, hq⟩ := (integral_panics_iff false evs).1 ⟨p, h⟩
    obtain ⟨r, hr⟩ := trapRev_nochk_ok (F := F) (rrun pre)
    simp only [trapSpec, lastRun, List.reverse_reverse] at hq
    rw [hr] at hq; cases hq

/-- **Integral output unit** = input unit × second -/
theorem integral_output_unit (u : DUnit) (evs : List (Output (Quantity F))) (hu : AllUnit u evs) (s : DiS F)
    (h : runE (Integral.step true) Integral.init evs = .ok s) (d : Datum (Quantity F))
    (hg : Integral.get s = .ok (some d)) : d.value.unit = ⟨u.mm, u.s + 1⟩ := by
  obtain ⟨r, hr, hget⟩ := integral_eq_trapsum true evs s h
  obtain ⟨r', hr', hunit⟩ := trapRev_unit u (rrun evs) (fun d hd => hu d (mem_rrun evs d hd))
  simp only [trapSpec, lastRun, List.reverse_reverse] at hr
  rw [hr'] at hr; cases hr
  rw [hg] at hget
  unfold expectedGet at hget
  split at hget
  · cases hget
  · cases hget
  · cases hget
  · cases hget; exact hunit d rfl

/-- two consecutive present samples of different units: the step panics with the dimension assertion -/
theorem integral_unit_mismatch_panics (s : DiS F) (p o : Datum (Quantity F)) (hp : s.prev = some p)
    (hne : p.value.unit ≠ o.value.unit) : Integral.step true s (.ok (some o)) = .error .dim := by
  simp only [Integral.step, hp, qadd_true, hne, if_false]

/-- the integral stream's only panic is the dimension assertion -/
theorem integral_panic_is_dim (chk : Bool) (s : DiS F) (e : Output (Quantity F)) (p : Panic)
    (h : Integral.step chk s e = .error p) : p = .dim := by
  match e with
  | .error x => cases h
  | .ok none => cases h
  | .ok (some d) =>
    simp only [Integral.step] at h
    split at h
    · cases h
    · split at h
      · next e he => cases h; exact qadd_panic_dim _ _ _ _ he
      · split at h
        · split at h
          · next e he => cases h; exact qadd_panic_dim _ _ _ _ he
          · cases h
        · cases h

/-! derivative -/
theorem backdiffRev_unit (u : DUnit) (rr : List (Datum (Quantity F))) (hall : ∀ d ∈ rr, d.value.unit = u) :
    ∃ r, backdiffRev true rr = .ok r ∧ ∀ d, r = some d → d.value.unit = ⟨u.mm, u.s - 1⟩ := by
  match rr with
  | [] => exact ⟨none, rfl, by simp⟩
  | [_] => exact ⟨none, rfl, by simp⟩
  | o :: p :: rest =>
    have ho := hall o (by simp)
    have hp := hall p (by simp)
    simp only [backdiffRev, qsub_true, ho, hp, if_true]
    refine ⟨_, rfl, ?_⟩
    intro d hd; cases hd
    simp only [Quantity.div, Quantity.ofTime, DUnit.div, SECOND, DUnit.new, if_true, DUnit.mk.injEq]
    exact ⟨by omega, trivial⟩

theorem backdiffRev_nochk_ok (rr : List (Datum (Quantity F))) : ∃ r, backdiffRev false rr = .ok r := by
  match rr with
  | [] => exact ⟨none, rfl⟩
  | [_] => exact ⟨none, rfl⟩
  | o :: p :: rest => exact ⟨_, rfl⟩

theorem derivative_same_unit_never_panics (u : DUnit) (evs : List (Output (Quantity F))) (hu : AllUnit u evs) :
    ∃ s, runE (Derivative.step true) Derivative.init evs = .ok s := by
  cases h : runE (Derivative.step true) Derivative.init evs with
  | ok s => exact ⟨s, rfl⟩
  | error p =>
    exfalso
    obtain ⟨pre, hpre, q, hq⟩ := (derivative_panics_iff true evs).1 ⟨p, h⟩
    obtain ⟨r, hr, _⟩ := backdiffRev_unit u (rrun pre) (fun d hd => hu d (hpre.subset (mem_rrun pre d hd)))
    simp only [backdiffSpec, lastRun, List.reverse_reverse] at hq
    rw [hr] at hq; cases hq

theorem derivative_nochk_never_panics (evs : List (Output (Quantity F))) :
    ∃ s, runE (Derivative.step false) Derivative.init evs = .ok s := by
  cases h : runE (Derivative.step false) Derivative.init evs with
  | ok s => exact ⟨s, rfl⟩
  | error p =>
    exfalso
    obtain ⟨pre, hpre, q, hq⟩ := (derivative_panics_iff false evs).1 ⟨p, h⟩
    obtain ⟨r, hr⟩ := backdiffRev_nochk_ok (F := F) (rrun pre)
    simp only [backdiffSpec, lastRun, List.reverse_reverse] at hq
    rw [hr] at hq; cases hq

/-- **Derivative output unit** = input unit / second -/
theorem derivative_output_unit (u : DUnit) (evs : List (Output (Quantity F))) (hu : AllUnit u evs) (s : DiS F)
    (h : runE (Derivative.step true) Derivative.init evs = .ok s) (d : Datum (Quantity F))
    (hg : Derivative.get s = .ok (some d)) : d.value.unit = ⟨u.mm, u.s - 1⟩ := by
  obtain ⟨r, hr, hget⟩ := derivative_eq_backdiff true evs s h
  obtain ⟨r', hr', hunit⟩ := backdiffRev_unit u (rrun evs) (fun d hd => hu d (mem_rrun evs d hd))
  simp only [backdiffSpec, lastRun, List.reverse_reverse] at hr
  rw [hr'] at hr; cases hr
  rw [hg] at hget
  unfold expectedGet at hget
  split at hget
  · cases hget
  · cases hget
  · cases hget
  · cases hget; exact hunit d rfl

theorem derivative_unit_mismatch_panics (s : DiS F) (p o : Datum (Quantity F)) (hp : s.prev = some p)
    (hne : o.value.unit ≠ p.value.unit) : Derivative.step true s (.ok (some o)) = .error .dim := by
  simp only [Derivative.step, hp, qsub_true, hne, if_false]

theorem derivative_panic_is_dim (chk : Bool) (s : DiS F) (e : Output (Quantity F)) (p : Panic)
    (h : Derivative.step chk s e = .error p) : p = .dim := by
  match e with
  | .error x => cases h
  | .ok none => cases h
  | .ok (some d) =>
    simp only [Derivative.step] at h
    split at h
    · cases h
    · split at h
      · next e he => cases h; exact qsub_panic_dim _ _ _ _ he
      · cases h

/-! ## D. to-state converters -/

/-- what a to-state converter reports: time and the three quantities handed to `State::new` -/
structure StateSpec (F : Type) where
  time : Int
  pos : Quantity F
  vel : Quantity F
  acc : Quantity F

/-- the converter's `get` from a specification value: absent, or `State::new(pos, vel, acc)` (with its three unit
assertions) stamped with the time -/
def stateOut (chk : Bool) : Option (StateSpec F) → Except Panic (Output (State F))
  | none => .ok (.ok none)
  | some sp =>
    match State.new chk sp.pos sp.vel sp.acc with
    | .error e => .error e
    | .ok st => .ok (.ok (some ⟨sp.time, st⟩))

/-- running trapezoid sum as the converters write it, on a run given newest-first: nothing for fewer than two
samples; `h(p,o) = ((p + o) / 2) * ofTime(o.time − p.time)` (`qHalfTimes`) for two; `old + h(p,o)` after that
(the old sum is the *left* operand) -/
def trapRunRev (chk : Bool) : List (Datum (Quantity F)) → Except Panic (Option (Quantity F))
  | [] => .ok none
  | [_] => .ok none
  | o :: p :: rest =>
    match trapRunRev chk (p :: rest) with
    | .error e => .error e
    | .ok prev =>
      match qHalfTimes chk p.value o.value (Quantity.ofTime chk (o.time - p.time)) with
      | .error e => .error e
      | .ok h =>
        match prev with
        | none => .ok (some h)
        | some v =>
          match Quantity.add chk v h with
          | .error e => .error e
          | .ok nv => .ok (some nv)

/-! ### AccelerationToState -/
/-- position for the acceleration converter: the trapezoid sum of the velocities `velᵢ = trapRun(d₀…dᵢ)`:
nothing for fewer than three samples, `((vel₁ + vel₂)/2)·dt₂` for three, `old + ((velᵢ₋₁ + velᵢ)/2)·dtᵢ` after. -/
def a2sPosRev (chk : Bool) : List (Datum (Quantity F)) → Except Panic (Option (Quantity F))
  | [] => .ok none
  | [_] => .ok none
  | o :: p :: rest =>
    match a2sPosRev chk (p :: rest) with
    | .error e => .error e
    | .ok prevPos =>
      match trapRunRev chk (p :: rest) with
      | .error e => .error e
      | .ok none => .ok none
      | .ok (some v0) =>
        match trapRunRev chk (o :: p :: rest) with
        | .error e => .error e
        | .ok none => .ok none
        | .ok (some v1) =>
          match qHalfTimes chk v0 v1 (Quantity.ofTime chk (o.time - p.time)) with
          | .error e => .error e
          | .ok h =>
            match prevPos with
            | none => .ok (some h)
            | some x =>
              match Quantity.add chk x h with
              | .error e => .error e
              | .ok np => .ok (some np)

def a2sSpecRev (chk : Bool) : List (Datum (Quantity F)) → Except Panic (Option (StateSpec F))
  | [] => .ok none
  | o :: rest =>
    match trapRunRev chk (o :: rest) with
    | .error e => .error e
    | .ok vel =>
      match a2sPosRev chk (o :: rest) with
      | .error e => .error e
      | .ok pos =>
        match vel, pos with
        | some v, some x => .ok (some ⟨o.time, x, v, o.value⟩)
        | _, _ => .ok none

/-- NON-incremental specification of `AccelerationToState` on the run `d₀ … dₙ` of present samples since the last
error: acceleration = the newest sample, velocity = running trapezoid sum of the accelerations, position = running
trapezoid sum of those velocities; absent until both exist; time of the newest sample -/
def a2sSpec (chk : Bool) (run : List (Datum (Quantity F))) : Except Panic (Option (StateSpec F)) :=
  a2sSpecRev chk run.reverse

/-- state invariant w.r.t. the newest-first run -/
def A2sInv (chk : Bool) (s : Option (A2sU0 F)) : List (Datum (Quantity F)) → Prop
  | [] => s = none
  | o :: rest => ∃ vel pos, trapRunRev chk (o :: rest) = .ok vel ∧ a2sPosRev chk (o :: rest) = .ok pos ∧
      s = some ⟨o.time, o.value, vel.map (fun v => ⟨v, pos⟩)⟩

theorem a2s_step_inv (chk : Bool) (s s' : Option (A2sU0 F)) (rr : List (Datum (Quantity F)))
    (d : Datum (Quantity F)) (r : UpdRet) (hinv : A2sInv chk s rr)
    (h : A2s.step chk s (.ok (some d)) = .ok (s', r)) : A2sInv chk s' (d :: rr) := by
  simp only [A2s.step] at h
  cases ha : DUnit.assertEqAssumeOk chk d.value.unit (MILLIMETER_PER_SECOND_SQUARED chk) with
  | error e => rw [ha] at h; cases h
  | ok _ =>
    rw [ha] at h; simp only at h
    match rr, hinv with
    | [], hinv =>
      simp only [A2sInv] at hinv; subst hinv
      simp only [Except.ok.injEq, Prod.mk.injEq] at h
      exact ⟨none, none, rfl, rfl, h.1.symm⟩
    | p :: rest, hinv =>
      obtain ⟨vel, pos, hv, hp, hs⟩ := hinv
      subst hs
      simp only at h
      cases hq : qHalfTimes chk p.value d.value (Quantity.ofTime chk (d.time - p.time)) with
      | error e => rw [hq] at h; cases h
      | ok velAddend =>
        rw [hq] at h; simp only at h
        cases vel with
        | none =>
          simp only [Option.map, Except.ok.injEq, Prod.mk.injEq] at h
          refine ⟨some velAddend, none, ?_, ?_, h.1.symm⟩
          · rw [trapRunRev, hv]; simp only [hq]
          · rw [a2sPosRev, hp]; simp only [hv]
        | some v =>
          simp only [Option.map] at h
          cases hadd : Quantity.add chk v velAddend with
          | error e => rw [hadd] at h; cases h
          | ok newVel =>
            rw [hadd] at h; simp only at h
            have hv' : trapRunRev chk (d :: p :: rest) = .ok (some newVel) := by
              rw [trapRunRev, hv]; simp only [hq, hadd]
            cases hq2 : qHalfTimes chk v newVel (Quantity.ofTime chk (d.time - p.time)) with
            | error e => rw [hq2] at h; cases h
            | ok posAddend =>
              rw [hq2] at h; simp only at h
              cases pos with
              | none =>
                simp only [Except.ok.injEq, Prod.mk.injEq] at h
                refine ⟨some newVel, some posAddend, hv', ?_, h.1.symm⟩
                rw [a2sPosRev, hp]; simp only [hv, hv', hq2]
              | some oldPos =>
                simp only at h
                cases hadd2 : Quantity.add chk oldPos posAddend with
                | error e => rw [hadd2] at h; cases h
                | ok np =>
                  rw [hadd2] at h
                  simp only [Except.ok.injEq, Prod.mk.injEq] at h
                  refine ⟨some newVel, some np, hv', ?_, h.1.symm⟩
                  rw [a2sPosRev, hp]; simp only [hv, hv', hq2, hadd2]

theorem a2s_run_inv (chk : Bool) (evs : List (Output (Quantity F))) (s : Option (A2sU0 F))
    (h : runE (A2s.step chk) A2s.init evs = .ok s) : A2sInv chk s (rrunIgn evs) := by
  induction evs using snoc_induction generalizing s with
  | nil => simp only [runE, Except.ok.injEq] at h; subst h; rfl
  | snoc l e ih =>
    cases hl : runE (A2s.step chk) A2s.init l with
    | error p => rw [runE_snoc_error _ _ _ _ _ hl] at h; cases h
    | ok s0 =>
      rw [runE_snoc_ok _ _ _ _ _ hl] at h
      have ih' := ih s0 hl
      match e with
      | .error x =>
        simp only [A2s.step, Except.ok.injEq] at h; subst h
        simp [A2sInv]
      | .ok none =>
        simp only [A2s.step, Except.ok.injEq] at h; subst h
        simpa using ih'
      | .ok (some d) =>
        cases hst : A2s.step chk s0 (.ok (some d)) with
        | error p => rw [hst] at h; cases h
        | ok sr =>
          cases sr with
          | mk s1 r =>
            rw [hst] at h; simp only [Except.ok.injEq] at h; subst h
            rw [rrunIgn_snoc_present]
            exact a2s_step_inv chk s0 s1 _ d r ih' hst

/-- **AccelerationToState = its specification.**  After any history that did not panic, `get` is the converter
output (`State::new` + time) of the specification applied to the present samples since the last error event
(absent events ignored).  In particular right after an error event `get` is absent, not the error. -/
theorem a2s_eq_spec (chk : Bool) (evs : List (Output (Quantity F))) (s : Option (A2sU0 F))
    (h : runE (A2s.step chk) A2s.init evs = .ok s) :
    ∃ r, a2sSpec chk (lastRunIgnoringAbsent evs) = .ok r ∧ A2s.get chk s = stateOut chk r := by
  have hinv := a2s_run_inv chk evs s h
  simp only [a2sSpec, lastRunIgnoringAbsent, List.reverse_reverse]
  match hrr : rrunIgn evs, hinv with
  | [], hinv => simp only [A2sInv] at hinv; subst hinv; exact ⟨none, rfl, rfl⟩
  | o :: rest, hinv =>
    obtain ⟨vel, pos, hv, hp, hs⟩ := hinv
    subst hs
    simp only [a2sSpecRev, hv, hp]
    cases vel with
    | none => exact ⟨none, rfl, rfl⟩
    | some v =>
      cases pos with
      | none => exact ⟨none, rfl, rfl⟩
      | some x => exact ⟨_, rfl, rfl⟩

theorem trapRunRev_some (chk : Bool) (o p : Datum (Quantity F)) (rest : List (Datum (Quantity F)))
    (v : Option (Quantity F)) (h : trapRunRev chk (o :: p :: rest) = .ok v) : ∃ x, v = some x := by
  rw [trapRunRev] at h
  split at h
  · cases h
  · split at h
    · cases h
    · split at h
      · cases h; exact ⟨_, rfl⟩
      · split at h
        · cases h
        · cases h; exact ⟨_, rfl⟩

theorem a2sPosRev_some (chk : Bool) (o p q : Datum (Quantity F)) (rest : List (Datum (Quantity F)))
    (x : Option (Quantity F)) (h : a2sPosRev chk (o :: p :: q :: rest) = .ok x) : ∃ y, x = some y := by
  rw [a2sPosRev] at h
  split at h
  · cases h
  · split at h
    · cases h
    · next hv => obtain ⟨_, hx⟩ := trapRunRev_some chk p q rest _ hv; cases hx
    · split at h
      · cases h
      · next hv => obtain ⟨_, hx⟩ := trapRunRev_some chk o p (q :: rest) _ hv; cases hx
      · split at h
        · cases h
        · split at h
          · cases h; exact ⟨_, rfl⟩
          · split at h
            · cases h
            · cases h; exact ⟨_, rfl⟩

/-- the specification is absent for fewer than three samples … -/
theorem a2sSpec_short (chk : Bool) (run : List (Datum (Quantity F))) (r : Option (StateSpec F))
    (hlen : run.length < 3) (h : a2sSpec chk run = .ok r) : r = none := by
  unfold a2sSpec at h
  rw [← List.length_reverse] at hlen
  match hrr : run.reverse with
  | [] => rw [hrr] at h; cases h; rfl
  | [o] => rw [hrr] at h; cases h; rfl
  | [o, p] =>
    rw [hrr] at h
    simp only [a2sSpecRev, a2sPosRev, trapRunRev] at h
    split at h
    · cases h
    · cases h; rfl
  | o :: p :: q :: rest => rw [hrr] at hlen; simp at hlen; omega

/-- … and present from three samples on -/
theorem a2sSpec_long (chk : Bool) (run : List (Datum (Quantity F))) (r : Option (StateSpec F))
    (hlen : 3 ≤ run.length) (h : a2sSpec chk run = .ok r) : ∃ sp, r = some sp := by
  unfold a2sSpec at h
  rw [← List.length_reverse] at hlen
  match hrr : run.reverse with
  | [] => rw [hrr] at hlen; simp at hlen
  | [o] => rw [hrr] at hlen; simp at hlen
  | [o, p] => rw [hrr] at hlen; simp at hlen
  | o :: p :: q :: rest =>
    rw [hrr, a2sSpecRev] at h
    split at h
    · cases h
    · next vel hv =>
      obtain ⟨v, rfl⟩ := trapRunRev_some chk o p (q :: rest) _ hv
      split at h
      · cases h
      · next pos hp =>
        obtain ⟨x, rfl⟩ := a2sPosRev_some chk o p q rest _ hp
        cases h; exact ⟨_, rfl⟩

/-- the reported time is the newest sample's, the reported acceleration is the newest sample -/
theorem a2sSpec_time_newest (chk : Bool) (run : List (Datum (Quantity F))) (sp : StateSpec F)
    (h : a2sSpec chk run = .ok (some sp)) :
    ∃ dn, run.getLast? = some dn ∧ sp.time = dn.time ∧ sp.acc = dn.value := by
  unfold a2sSpec at h
  rw [← List.head?_reverse]
  match hrr : run.reverse with
  | [] => rw [hrr] at h; cases h
  | o :: rest =>
    rw [hrr, a2sSpecRev] at h
    refine ⟨o, rfl, ?_⟩
    split at h
    · cases h
    · split at h
      · cases h
      · split at h
        · cases h; exact ⟨rfl, rfl⟩
        · cases h

/-- **absent until three samples since the last error** -/
theorem a2s_absent_until (chk : Bool) (evs : List (Output (Quantity F))) (s : Option (A2sU0 F))
    (h : runE (A2s.step chk) A2s.init evs = .ok s) (hlen : (lastRunIgnoringAbsent evs).length < 3) :
    A2s.get chk s = .ok (.ok none) := by
  obtain ⟨r, hr, hg⟩ := a2s_eq_spec chk evs s h
  rw [hg, a2sSpec_short chk _ r hlen hr]; rfl

/-- **output time = newest sample's time** -/
theorem a2s_time_newest (chk : Bool) (evs : List (Output (Quantity F))) (s : Option (A2sU0 F))
    (h : runE (A2s.step chk) A2s.init evs = .ok s) (d : Datum (State F))
    (hg : A2s.get chk s = .ok (.ok (some d))) :
    ∃ dn, (lastRunIgnoringAbsent evs).getLast? = some dn ∧ d.time = dn.time := by
  obtain ⟨r, hr, hg'⟩ := a2s_eq_spec chk evs s h
  rw [hg] at hg'
  cases r with
  | none => cases hg'
  | some sp =>
    obtain ⟨dn, h1, h2, _⟩ := a2sSpec_time_newest chk _ sp hr
    refine ⟨dn, h1, ?_⟩
    simp only [stateOut] at hg'
    split at hg'
    · cases hg'
    · cases hg'; exact h2

/-- an error event is returned by `update` (and resets); everything else returns `Ok(())` -/
theorem a2s_update_ret (chk : Bool) (s s' : Option (A2sU0 F)) (e : Output (Quantity F)) (r : UpdRet)
    (h : A2s.step chk s e = .ok (s', r)) :
    r = updRetOf e := by
  revert h
  match e with
  | .error x => intro h; simp only [A2s.step, Except.ok.injEq, Prod.mk.injEq] at h; exact h.2.symm
  | .ok none => intro h; simp only [A2s.step, Except.ok.injEq, Prod.mk.injEq] at h; exact h.2.symm
  | .ok (some d) =>
    intro h
    simp only [A2s.step] at h
    repeat' split at h
    all_goals (cases h <;> rfl)

/-- after an error event the converter is reset and `get` is absent (the error is not cached) -/
theorem a2s_error_resets (chk : Bool) (s : Option (A2sU0 F)) (x : Err) :
    A2s.step chk s (.error x) = .ok (none, .error x) ∧ A2s.get chk (none : Option (A2sU0 F)) = .ok (.ok none) :=
  ⟨rfl, rfl⟩

/-! ### VelocityToState -/
/-- NON-incremental specification (newest-first run): absent for fewer than two samples; otherwise velocity = newest
sample, acceleration = backward difference quotient of the last two samples, position = running trapezoid sum -/
def v2sSpecRev (chk : Bool) : List (Datum (Quantity F)) → Except Panic (Option (StateSpec F))
  | [] => .ok none
  | [_] => .ok none
  | o :: p :: rest =>
    match trapRunRev chk (o :: p :: rest) with
    | .error e => .error e
    | .ok none => .ok none
    | .ok (some pos) =>
      match Quantity.sub chk o.value p.value with
      | .error e => .error e
      | .ok dv => .ok (some ⟨o.time, pos, o.value, Quantity.div chk dv (Quantity.ofTime chk (o.time - p.time))⟩)

def v2sSpec (chk : Bool) (run : List (Datum (Quantity F))) : Except Panic (Option (StateSpec F)) :=
  v2sSpecRev chk run.reverse

def V2sInv (chk : Bool) (s : Option (V2sU0 F)) : List (Datum (Quantity F)) → Prop
  | [] => s = none
  | [o] => s = some ⟨o.time, o.value, none⟩
  | o :: p :: rest => ∃ pos dv, trapRunRev chk (o :: p :: rest) = .ok (some pos) ∧
      Quantity.sub chk o.value p.value = .ok dv ∧
      s = some ⟨o.time, o.value, some ⟨Quantity.div chk dv (Quantity.ofTime chk (o.time - p.time)), pos⟩⟩

theorem v2s_step_inv (chk : Bool) (s s' : Option (V2sU0 F)) (rr : List (Datum (Quantity F)))
    (d : Datum (Quantity F)) (r : UpdRet) (hinv : V2sInv chk s rr)
    (h : V2s.step chk s (.ok (some d)) = .ok (s', r)) : V2sInv chk s' (d :: rr) := by
  simp only [V2s.step] at h
  cases ha : DUnit.assertEqAssumeOk chk d.value.unit (MILLIMETER_PER_SECOND chk) with
  | error e => rw [ha] at h; cases h
  | ok _ =>
    rw [ha] at h; simp only at h
    match rr, hinv with
    | [], hinv =>
      simp only [V2sInv] at hinv; subst hinv
      simp only [Except.ok.injEq, Prod.mk.injEq] at h
      exact h.1.symm
    | [p], hinv =>
      simp only [V2sInv] at hinv; subst hinv
      simp only at h
      cases hsub : Quantity.sub chk d.value p.value with
      | error e => rw [hsub] at h; cases h
      | ok dv =>
        rw [hsub] at h; simp only at h
        cases hq : qHalfTimes chk p.value d.value (Quantity.ofTime chk (d.time - p.time)) with
        | error e => rw [hq] at h; cases h
        | ok posAddend =>
          rw [hq] at h
          simp only [Except.ok.injEq, Prod.mk.injEq] at h
          refine ⟨posAddend, dv, ?_, hsub, h.1.symm⟩
          simp only [trapRunRev, hq]
    | p :: q :: rest, hinv =>
      obtain ⟨pos, dv0, hpos, _, hs⟩ := hinv
      subst hs
      simp only at h
      cases hsub : Quantity.sub chk d.value p.value with
      | error e => rw [hsub] at h; cases h
      | ok dv =>
        rw [hsub] at h; simp only at h
        cases hq : qHalfTimes chk p.value d.value (Quantity.ofTime chk (d.time - p.time)) with
        | error e => rw [hq] at h; cases h
        | ok posAddend =>
          rw [hq] at h; simp only at h
          cases hadd : Quantity.add chk pos posAddend with
          | error e => rw [hadd] at h; cases h
          | ok np =>
            rw [hadd] at h
            simp only [Except.ok.injEq, Prod.mk.injEq] at h
            refine ⟨np, dv, ?_, hsub, h.1.symm⟩
            rw [trapRunRev, hpos]; simp only [hq, hadd]

theorem v2s_run_inv (chk : Bool) (evs : List (Output (Quantity F))) (s : Option (V2sU0 F))
    (h : runE (V2s.step chk) V2s.init evs = .ok s) : V2sInv chk s (rrunIgn evs) := by
  induction evs using snoc_induction generalizing s with
  | nil => simp only [runE, Except.ok.injEq] at h; subst h; rfl
  | snoc l e ih =>
    cases hl : runE (V2s.step chk) V2s.init l with
    | error p => rw [runE_snoc_error _ _ _ _ _ hl] at h; cases h
    | ok s0 =>
      rw [runE_snoc_ok _ _ _ _ _ hl] at h
      have ih' := ih s0 hl
      match e with
      | .error x =>
        simp only [V2s.step, Except.ok.injEq] at h; subst h
        simp [V2sInv]
      | .ok none =>
        simp only [V2s.step, Except.ok.injEq] at h; subst h
        simpa using ih'
      | .ok (some d) =>
        cases hst : V2s.step chk s0 (.ok (some d)) with
        | error p => rw [hst] at h; cases h
        | ok sr =>
          cases sr with
          | mk s1 r =>
            rw [hst] at h; simp only [Except.ok.injEq] at h; subst h
            rw [rrunIgn_snoc_present]
            exact v2s_step_inv chk s0 s1 _ d r ih' hst

/-- **VelocityToState = its specification** -/
theorem v2s_eq_spec (chk : Bool) (evs : List (Output (Quantity F))) (s : Option (V2sU0 F))
    (h : runE (V2s.step chk) V2s.init evs = .ok s) :
    ∃ r, v2sSpec chk (lastRunIgnoringAbsent evs) = .ok r ∧ V2s.get chk s = stateOut chk r := by
  have hinv := v2s_run_inv chk evs s h
  simp only [v2sSpec, lastRunIgnoringAbsent, List.reverse_reverse]
  match hrr : rrunIgn evs, hinv with
  | [], hinv => simp only [V2sInv] at hinv; subst hinv; exact ⟨none, rfl, rfl⟩
  | [o], hinv => simp only [V2sInv] at hinv; subst hinv; exact ⟨none, rfl, rfl⟩
  | o :: p :: rest, hinv =>
    obtain ⟨pos, dv, hpos, hsub, hs⟩ := hinv
    subst hs
    simp only [v2sSpecRev, hpos, hsub]
    exact ⟨_, rfl, rfl⟩

theorem v2sSpec_short (chk : Bool) (run : List (Datum (Quantity F))) (r : Option (StateSpec F))
    (hlen : run.length < 2) (h : v2sSpec chk run = .ok r) : r = none := by
  unfold v2sSpec at h
  rw [← List.length_reverse] at hlen
  match hrr : run.reverse with
  | [] => rw [hrr] at h; cases h; rfl
  | [o] => rw [hrr] at h; cases h; rfl
  | o :: p :: rest => rw [hrr] at hlen; simp at hlen; omega

theorem v2sSpec_long (chk : Bool) (run : List (Datum (Quantity F))) (r : Option (StateSpec F))
    (hlen : 2 ≤ run.length) (h : v2sSpec chk run = .ok r) : ∃ sp, r = some sp := by
  unfold v2sSpec at h
  rw [← List.length_reverse] at hlen
  match hrr : run.reverse with
  | [] => rw [hrr] at hlen; simp at hlen
  | [o] => rw [hrr] at hlen; simp at hlen
  | o :: p :: rest =>
    rw [hrr, v2sSpecRev] at h
    split at h
    · cases h
    · next hv => obtain ⟨_, hx⟩ := trapRunRev_some chk o p rest _ hv; cases hx
    · split at h
      · cases h
      · cases h; exact ⟨_, rfl⟩

theorem v2sSpec_time_newest (chk : Bool) (run : List (Datum (Quantity F))) (sp : StateSpec F)
    (h : v2sSpec chk run = .ok (some sp)) :
    ∃ dn, run.getLast? = some dn ∧ sp.time = dn.time ∧ sp.vel = dn.value := by
  unfold v2sSpec at h
  rw [← List.head?_reverse]
  match hrr : run.reverse with
  | [] => rw [hrr] at h; cases h
  | [o] => rw [hrr] at h; cases h
  | o :: p :: rest =>
    rw [hrr, v2sSpecRev] at h
    refine ⟨o, rfl, ?_⟩
    split at h
    · cases h
    · cases h
    · split at h
      · cases h
      · cases h; exact ⟨rfl, rfl⟩

/-- **absent until two samples since the last error** -/
theorem v2s_absent_until (chk : Bool) (evs : List (Output (Quantity F))) (s : Option (V2sU0 F))
    (h : runE (V2s.step chk) V2s.init evs = .ok s) (hlen : (lastRunIgnoringAbsent evs).length < 2) :
    V2s.get chk s = .ok (.ok none) := by
  obtain ⟨r, hr, hg⟩ := v2s_eq_spec chk evs s h
  rw [hg, v2sSpec_short chk _ r hlen hr]; rfl

theorem v2s_time_newest (chk : Bool) (evs : List (Output (Quantity F))) (s : Option (V2sU0 F))
    (h : runE (V2s.step chk) V2s.init evs = .ok s) (d : Datum (State F))
    (hg : V2s.get chk s = .ok (.ok (some d))) :
    ∃ dn, (lastRunIgnoringAbsent evs).getLast? = some dn ∧ d.time = dn.time := by
  obtain ⟨r, hr, hg'⟩ := v2s_eq_spec chk evs s h
  rw [hg] at hg'
  cases r with
  | none => cases hg'
  | some sp =>
    obtain ⟨dn, h1, h2, _⟩ := v2sSpec_time_newest chk _ sp hr
    refine ⟨dn, h1, ?_⟩
    simp only [stateOut] at hg'
    split at hg'
    · cases hg'
    · cases hg'; exact h2

theorem v2s_update_ret (chk : Bool) (s s' : Option (V2sU0 F)) (e : Output (Quantity F)) (r : UpdRet)
    (h : V2s.step chk s e = .ok (s', r)) : r = updRetOf e := by
  revert h
  match e with
  | .error x => intro h; simp only [V2s.step, Except.ok.injEq, Prod.mk.injEq] at h; exact h.2.symm
  | .ok none => intro h; simp only [V2s.step, Except.ok.injEq, Prod.mk.injEq] at h; exact h.2.symm
  | .ok (some d) =>
    intro h
    simp only [V2s.step] at h
    repeat' split at h
    all_goals (cases h <;> rfl)

theorem v2s_error_resets (chk : Bool) (s : Option (V2sU0 F)) (x : Err) :
    V2s.step chk s (.error x) = .ok (none, .error x) ∧ V2s.get chk (none : Option (V2sU0 F)) = .ok (.ok none) :=
  ⟨rfl, rfl⟩

/-! ### PositionToState -/
/-- backward difference quotient of two samples -/
def backdiffQ (chk : Bool) (o p : Datum (Quantity F)) : Except Panic (Quantity F) :=
  match Quantity.sub chk o.value p.value with
  | .error e => .error e
  | .ok dp => .ok (Quantity.div chk dp (Quantity.ofTime chk (o.time - p.time)))

/-- NON-incremental specification (newest-first run `o, p, q, …`): absent for fewer than three samples; position =
newest sample, velocity = backward difference of the last two samples, acceleration = (that velocity − the previous
backward-difference velocity) / ofTime(o.time − p.time) -/
def p2sSpecRev (chk : Bool) : List (Datum (Quantity F)) → Except Panic (Option (StateSpec F))
  | [] => .ok none
  | [_] => .ok none
  | [_, _] => .ok none
  | o :: p :: q :: _ =>
    match backdiffQ chk p q with
    | .error e => .error e
    | .ok v0 =>
      match backdiffQ chk o p with
      | .error e => .error e
      | .ok v1 =>
        match Quantity.sub chk v1 v0 with
        | .error e => .error e
        | .ok dv => .ok (some ⟨o.time, o.value, v1, Quantity.div chk dv (Quantity.ofTime chk (o.time - p.time))⟩)

def p2sSpec (chk : Bool) (run : List (Datum (Quantity F))) : Except Panic (Option (StateSpec F)) :=
  p2sSpecRev chk run.reverse

def P2sInv (chk : Bool) (s : Option (P2sU0 F)) : List (Datum (Quantity F)) → Prop
  | [] => s = none
  | [o] => s = some ⟨o.time, o.value, none⟩
  | [o, p] => ∃ v1, backdiffQ chk o p = .ok v1 ∧ s = some ⟨o.time, o.value, some ⟨v1, none⟩⟩
  | o :: p :: q :: _ => ∃ v0 v1 dv, backdiffQ chk p q = .ok v0 ∧ backdiffQ chk o p = .ok v1 ∧
      Quantity.sub chk v1 v0 = .ok dv ∧
      s = some ⟨o.time, o.value, some ⟨v1, some (Quantity.div chk dv (Quantity.ofTime chk (o.time - p.time)))⟩⟩

theorem p2s_step_inv (chk : Bool) (s s' : Option (P2sU0 F)) (rr : List (Datum (Quantity F)))
    (d : Datum (Quantity F)) (r : UpdRet) (hinv : P2sInv chk s rr)
    (h : P2s.step chk s (.ok (some d)) = .ok (s', r)) : P2sInv chk s' (d :: rr) := by
  simp only [P2s.step] at h
  cases ha : DUnit.assertEqAssumeOk chk d.value.unit (MILLIMETER chk) with
  | error e => rw [ha] at h; cases h
  | ok _ =>
    rw [ha] at h; simp only at h
    match rr, hinv with
    | [], hinv =>
      simp only [P2sInv] at hinv; subst hinv
      simp only [Except.ok.injEq, Prod.mk.injEq] at h
      exact h.1.symm
    | [p], hinv =>
      simp only [P2sInv] at hinv; subst hinv
      simp only at h
      cases hsub : Quantity.sub chk d.value p.value with
      | error e => rw [hsub] at h; cases h
      | ok dp =>
        rw [hsub] at h
        simp only [Except.ok.injEq, Prod.mk.injEq] at h
        exact ⟨_, by simp only [backdiffQ, hsub], h.1.symm⟩
    | [p, q], hinv =>
      obtain ⟨v0, hv0, hs⟩ := hinv
      subst hs
      simp only at h
      cases hsub : Quantity.sub chk d.value p.value with
      | error e => rw [hsub] at h; cases h
      | ok dp =>
        rw [hsub] at h; simp only at h
        cases hsub2 : Quantity.sub chk (Quantity.div chk dp (Quantity.ofTime chk (d.time - p.time))) v0 with
        | error e => rw [hsub2] at h; cases h
        | ok dv =>
          rw [hsub2] at h
          simp only [Except.ok.injEq, Prod.mk.injEq] at h
          exact ⟨v0, _, dv, hv0, by simp only [backdiffQ, hsub], hsub2, h.1.symm⟩
    | p :: q :: q' :: rest, hinv =>
      obtain ⟨_, v0, _, _, hv0, _, hs⟩ := hinv
      subst hs
      simp only at h
      cases hsub : Quantity.sub chk d.value p.value with
      | error e => rw [hsub] at h; cases h
      | ok dp =>
        rw [hsub] at h; simp only at h
        cases hsub2 : Quantity.sub chk (Quantity.div chk dp (Quantity.ofTime chk (d.time - p.time))) v0 with
        | error e => rw [hsub2] at h; cases h
        | ok dv =>
          rw [hsub2] at h
          simp only [Except.ok.injEq, Prod.mk.injEq] at h
          exact ⟨v0, _, dv, hv0, by simp only [backdiffQ, hsub], hsub2, h.1.symm⟩

theorem p2s_run_inv (chk : Bool) (evs : List (Output (Quantity F))) (s : Option (P2sU0 F))
    (h : runE (P2s.step chk) P2s.init evs = .ok s) : P2sInv chk s (rrunIgn evs) := by
  induction evs using snoc_induction generalizing s with
  | nil => simp only [runE, Except.ok.injEq] at h; subst h; rfl
  | snoc l e ih =>
    cases hl : runE (P2s.step chk) P2s.init l with
    | error p => rw [runE_snoc_error _ _ _ _ _ hl] at h; cases h
    | ok s0 =>
      rw [runE_snoc_ok _ _ _ _ _ hl] at h
      have ih' := ih s0 hl
      match e with
      | .error x =>
        simp only [P2s.step, Except.ok.injEq] at h; subst h
        simp [P2sInv]
      | .ok none =>
        simp only [P2s.step, Except.ok.injEq] at h; subst h
        simpa using ih'
      | .ok (some d) =>
        cases hst : P2s.step chk s0 (.ok (some d)) with
        | error p => rw [hst] at h; cases h
        | ok sr =>
          cases sr with
          | mk s1 r =>
            rw [hst] at h; simp only [Except.ok.injEq] at h; subst h
            rw [rrunIgn_snoc_present]
            exact p2s_step_inv chk s0 s1 _ d r ih' hst

/-- **PositionToState = its specification** -/
theorem p2s_eq_spec (chk : Bool) (evs : List (Output (Quantity F))) (s : Option (P2sU0 F))
    (h : runE (P2s.step chk) P2s.init evs = .ok s) :
    ∃ r, p2sSpec chk (lastRunIgnoringAbsent evs) = .ok r ∧ P2s.get chk s = stateOut chk r := by
  have hinv := p2s_run_inv chk evs s h
  simp only [p2sSpec, lastRunIgnoringAbsent, List.reverse_reverse]
  match hrr : rrunIgn evs, hinv with
  | [], hinv => simp only [P2sInv] at hinv; subst hinv; exact ⟨none, rfl, rfl⟩
  | [o], hinv => simp only [P2sInv] at hinv; subst hinv; exact ⟨none, rfl, rfl⟩
  | [o, p], hinv => obtain ⟨v1, _, hs⟩ := hinv; subst hs; exact ⟨none, rfl, rfl⟩
  | o :: p :: q :: rest, hinv =>
    obtain ⟨v0, v1, dv, hv0, hv1, hsub, hs⟩ := hinv
    subst hs
    simp only [p2sSpecRev, hv0, hv1, hsub]
    exact ⟨_, rfl, rfl⟩

theorem p2sSpec_short (chk : Bool) (run : List (Datum (Quantity F))) (r : Option (StateSpec F))
    (hlen : run.length < 3) (h : p2sSpec chk run = .ok r) : r = none := by
  unfold p2sSpec at h
  rw [← List.length_reverse] at hlen
  match hrr : run.reverse with
  | [] => rw [hrr] at h; cases h; rfl
  | [o] => rw [hrr] at h; cases h; rfl
  | [o, p] => rw [hrr] at h; cases h; rfl
  | o :: p :: q :: rest => rw [hrr] at hlen; simp at hlen; omega

theorem p2sSpec_long (chk : Bool) (run : List (Datum (Quantity F))) (r : Option (StateSpec F))
    (hlen : 3 ≤ run.length) (h : p2sSpec chk run = .ok r) : ∃ sp, r = some sp := by
  unfold p2sSpec at h
  rw [← List.length_reverse] at hlen
  match hrr : run.reverse with
  | [] => rw [hrr] at hlen; simp at hlen
  | [o] => rw [hrr] at hlen; simp at hlen
  | [o, p] => rw [hrr] at hlen; simp at hlen
  | o :: p :: q :: rest =>
    rw [hrr, p2sSpecRev] at h
    repeat' split at h
    all_goals (cases h <;> exact ⟨_, rfl⟩)

theorem p2sSpec_time_newest (chk : Bool) (run : List (Datum (Quantity F))) (sp : StateSpec F)
    (h : p2sSpec chk run = .ok (some sp)) :
    ∃ dn, run.getLast? = some dn ∧ sp.time = dn.time ∧ sp.pos = dn.value := by
  unfold p2sSpec at h
  rw [← List.head?_reverse]
  match hrr : run.reverse with
  | [] => rw [hrr] at h; cases h
  | [o] => rw [hrr] at h; cases h
  | [o, p] => rw [hrr] at h; cases h
  | o :: p :: q :: rest =>
    rw [hrr, p2sSpecRev] at h
    refine ⟨o, rfl, ?_⟩
    repeat' split at h
    all_goals (cases h <;> exact ⟨rfl, rfl⟩)

/-- **absent until three samples since the last error** -/
theorem p2s_absent_until (chk : Bool) (evs : List (Output (Quantity F))) (s : Option (P2sU0 F))
    (h : runE (P2s.step chk) P2s.init evs = .ok s) (hlen : (lastRunIgnoringAbsent evs).length < 3) :
    P2s.get chk s = .ok (.ok none) := by
  obtain ⟨r, hr, hg⟩ := p2s_eq_spec chk evs s h
  rw [hg, p2sSpec_short chk _ r hlen hr]; rfl

theorem p2s_time_newest (chk : Bool) (evs : List (Output (Quantity F))) (s : Option (P2sU0 F))
    (h : runE (P2s.step chk) P2s.init evs = .ok s) (d : Datum (State F))
    (hg : P2s.get chk s = .ok (.ok (some d))) :
    ∃ dn, (lastRunIgnoringAbsent evs).getLast? = some dn ∧ d.time = dn.time := by
  obtain ⟨r, hr, hg'⟩ := p2s_eq_spec chk evs s h
  rw [hg] at hg'
  cases r with
  | none => cases hg'
  | some sp =>
    obtain ⟨dn, h1, h2, _⟩ := p2sSpec_time_newest chk _ sp hr
    refine ⟨dn, h1, ?_⟩
    simp only [stateOut] at hg'
    split at hg'
    · cases hg'
    · cases hg'; exact h2

theorem p2s_update_ret (chk : Bool) (s s' : Option (P2sU0 F)) (e : Output (Quantity F)) (r : UpdRet)
    (h : P2s.step chk s e = .ok (s', r)) : r = updRetOf e := by
  revert h
  match e with
  | .error x => intro h; simp only [P2s.step, Except.ok.injEq, Prod.mk.injEq] at h; exact h.2.symm
  | .ok none => intro h; simp only [P2s.step, Except.ok.injEq, Prod.mk.injEq] at h; exact h.2.symm
  | .ok (some d) =>
    intro h
    simp only [P2s.step] at h
    repeat' split at h
    all_goals (cases h <;> rfl)

theorem p2s_error_resets (chk : Bool) (s : Option (P2sU0 F)) (x : Err) :
    P2s.step chk s (.error x) = .ok (none, .error x) ∧ P2s.get chk (none : Option (P2sU0 F)) = .ok (.ok none) :=
  ⟨rfl, rfl⟩

/-! ### wrongly dimensioned input panics; correctly dimensioned input never does -/

/-- **wrong unit ⇒ panic**, from any state (checking on) -/
theorem a2s_wrong_unit_panics (s : Option (A2sU0 F)) (d : Datum (Quantity F)) (h : d.value.unit ≠ ⟨1, -2⟩) :
    A2s.step true s (.ok (some d)) = .error .dim := by
  simp [A2s.step, assertEq_true, MILLIMETER_PER_SECOND_SQUARED, DUnit.new, h]
theorem v2s_wrong_unit_panics (s : Option (V2sU0 F)) (d : Datum (Quantity F)) (h : d.value.unit ≠ ⟨1, -1⟩) :
    V2s.step true s (.ok (some d)) = .error .dim := by
  simp [V2s.step, assertEq_true, MILLIMETER_PER_SECOND, DUnit.new, h]
theorem p2s_wrong_unit_panics (s : Option (P2sU0 F)) (d : Datum (Quantity F)) (h : d.value.unit ≠ ⟨1, 0⟩) :
    P2s.step true s (.ok (some d)) = .error .dim := by
  simp [P2s.step, assertEq_true, MILLIMETER, DUnit.new, h]

/-- an invariant preserved by every non-panicking step on good inputs holds after any history of good inputs,
and the run does not panic -/
theorem runE_inv {S I : Type} (step : S → I → Except Panic (S × UpdRet)) (Inv : S → Prop) (Good : I → Prop)
    (hstep : ∀ s e, Inv s → Good e → ∃ s' r, step s e = .ok (s', r) ∧ Inv s')
    (s : S) (hs : Inv s) (evs : List I) (hg : ∀ e ∈ evs, Good e) :
    ∃ s', runE step s evs = .ok s' ∧ Inv s' := by
  induction evs generalizing s with
  | nil => exact ⟨s, rfl, hs⟩
  | cons e es ih =>
    obtain ⟨s1, r, h1, hi1⟩ := hstep s e hs (hg e (by simp))
    obtain ⟨s2, h2, hi2⟩ := ih s1 hi1 (fun e he => hg e (List.mem_cons_of_mem _ he))
    exact ⟨s2, by simp only [runE, h1, h2], hi2⟩

/-- `((a + b) / 2) * dt` of two equally dimensioned quantities: succeeds, unit × second -/
theorem qHalfTimes_unit (m k : Int) (a b : Quantity F) (t : Int) (ha : a.unit = ⟨m, k⟩) (hb : b.unit = ⟨m, k⟩) :
    ∃ q, qHalfTimes true a b (Quantity.ofTime true t) = .ok q ∧ q.unit = ⟨m, k + 1⟩ := by
  simp only [qHalfTimes, qadd_true, ha, hb, if_true]
  refine ⟨_, rfl, ?_⟩
  simp only [Quantity.mul, Quantity.div, Quantity.ofTime, Quantity.dimensionless, DUnit.mul, DUnit.div, SECOND,
    DIMENSIONLESS, DUnit.new, if_true, DUnit.mk.injEq]
  omega

theorem state_new_ok (p v a : Quantity F) (hp : p.unit = ⟨1, 0⟩) (hv : v.unit = ⟨1, -1⟩) (ha : a.unit = ⟨1, -2⟩) :
    State.new true p v a = .ok ⟨p.value, v.value, a.value⟩ := by
  simp [State.new, assertEq_true, MILLIMETER, MILLIMETER_PER_SECOND, MILLIMETER_PER_SECOND_SQUARED, DUnit.new,
    hp, hv, ha]

/-- a history all of whose present samples have unit `u` (as a predicate on single events) -/
def GoodUnit (u : DUnit) (e : Output (Quantity F)) : Prop := ∀ d, e = .ok (some d) → d.value.unit = u

/-- unit invariant of the acceleration converter's state (checking on) -/
def A2sUnits (s : Option (A2sU0 F)) : Prop :=
  ∀ u0, s = some u0 → u0.acc.unit = ⟨1, -2⟩ ∧
    ∀ u1, u0.u1 = some u1 → u1.vel.unit = ⟨1, -1⟩ ∧ ∀ x, u1.pos = some x → x.unit = ⟨1, 0⟩

theorem a2s_step_units (s : Option (A2sU0 F)) (e : Output (Quantity F)) (hinv : A2sUnits s)
    (hg : GoodUnit ⟨1, -2⟩ e) : ∃ s' r, A2s.step true s e = .ok (s', r) ∧ A2sUnits s' := by
  match e with
  | .error x => exact ⟨none, _, rfl, by intro u0 h; cases h⟩
  | .ok none => exact ⟨s, _, rfl, hinv⟩
  | .ok (some d) =>
    have hd := hg d rfl
    simp only [A2s.step, assertEq_true, MILLIMETER_PER_SECOND_SQUARED, DUnit.new, hd, if_true]
    match s, hinv with
    | none, _ =>
      refine ⟨_, _, rfl, ?_⟩
      intro u0 h; cases h
      exact ⟨hd, by intro u1 h; cases h⟩
    | some ⟨t0, acc, u1o⟩, hinv =>
      obtain ⟨hacc, hu1⟩ := hinv _ rfl
      simp only at hacc hu1
      obtain ⟨va, hva, hvau⟩ := qHalfTimes_unit 1 (-2) acc d.value (d.time - t0) hacc hd
      have hvau' : va.unit = ⟨1, -1⟩ := hvau
      simp only [hva]
      match u1o, hu1 with
      | none, _ =>
        refine ⟨_, _, rfl, ?_⟩
        intro u0 h; cases h
        refine ⟨hd, ?_⟩
        intro u1 h; cases h
        exact ⟨hvau', by intro x h; cases h⟩
      | some ⟨vel, poso⟩, hu1 =>
        obtain ⟨hvel, hpos⟩ := hu1 _ rfl
        simp only at hvel hpos
        simp only [qadd_true, hvel, hvau', if_true]
        obtain ⟨pa, hpa, hpau⟩ := qHalfTimes_unit 1 (-1) vel ⟨vel.value + va.value, ⟨1, -1⟩⟩ (d.time - t0) hvel rfl
        have hpau' : pa.unit = ⟨1, 0⟩ := hpau
        simp only [hpa]
        match poso, hpos with
        | none, _ =>
          refine ⟨_, _, rfl, ?_⟩
          intro u0 h; cases h
          refine ⟨hd, ?_⟩
          intro u1 h; cases h
          refine ⟨rfl, ?_⟩
          intro x h; cases h; exact hpau'
        | some oldPos, hpos =>
          have hop := hpos _ rfl
          simp only [qadd_true, hop, hpau', if_true]
          refine ⟨_, _, rfl, ?_⟩
          intro u0 h; cases h
          refine ⟨hd, ?_⟩
          intro u1 h; cases h
          refine ⟨rfl, ?_⟩
          intro x h; cases h; rfl

theorem a2s_get_units (s : Option (A2sU0 F)) (hinv : A2sUnits s) : ∃ o, A2s.get true s = .ok o := by
  match s, hinv with
  | none, _ => exact ⟨_, rfl⟩
  | some ⟨t0, acc, none⟩, _ => exact ⟨_, rfl⟩
  | some ⟨t0, acc, some ⟨vel, none⟩⟩, _ => exact ⟨_, rfl⟩
  | some ⟨t0, acc, some ⟨vel, some pos⟩⟩, hinv =>
    obtain ⟨hacc, hu1⟩ := hinv _ rfl
    obtain ⟨hvel, hpos⟩ := hu1 _ rfl
    have hp := hpos _ rfl
    simp only at hacc hvel hp
    simp only [A2s.get, state_new_ok pos vel acc hp hvel hacc]
    exact ⟨_, rfl⟩

/-- **correctly dimensioned input never panics** (checking on): neither `update` nor `get`, after any history whose
present samples are all in mm/s²; all intermediate unit arithmetic is consistent -/
theorem a2s_right_unit_never_panics (evs : List (Output (Quantity F))) (hu : ∀ e ∈ evs, GoodUnit ⟨1, -2⟩ e) :
    ∃ s, runE (A2s.step true) A2s.init evs = .ok s ∧ A2sUnits s ∧ ∃ o, A2s.get true s = .ok o := by
  obtain ⟨s, h, hi⟩ := runE_inv (A2s.step (F := F) true) A2sUnits (GoodUnit ⟨1, -2⟩) a2s_step_units A2s.init
    (by intro u0 h; cases h) evs hu
  exact ⟨s, h, hi, a2s_get_units s hi⟩

/-- unit invariant of the velocity converter's state -/
def V2sUnits (s : Option (V2sU0 F)) : Prop :=
  ∀ u0, s = some u0 → u0.vel.unit = ⟨1, -1⟩ ∧
    ∀ u1, u0.u1 = some u1 → u1.acc.unit = ⟨1, -2⟩ ∧ u1.pos.unit = ⟨1, 0⟩

theorem v2s_step_units (s : Option (V2sU0 F)) (e : Output (Quantity F)) (hinv : V2sUnits s)
    (hg : GoodUnit ⟨1, -1⟩ e) : ∃ s' r, V2s.step true s e = .ok (s', r) ∧ V2sUnits s' := by
  match e with
  | .error x => exact ⟨none, _, rfl, by intro u0 h; cases h⟩
  | .ok none => exact ⟨s, _, rfl, hinv⟩
  | .ok (some d) =>
    have hd := hg d rfl
    simp only [V2s.step, assertEq_true, MILLIMETER_PER_SECOND, DUnit.new, hd, if_true]
    match s, hinv with
    | none, _ =>
      refine ⟨_, _, rfl, ?_⟩
      intro u0 h; cases h
      exact ⟨hd, by intro u1 h; cases h⟩
    | some ⟨t0, vel, u1o⟩, hinv =>
      obtain ⟨hvel, hu1⟩ := hinv _ rfl
      simp only at hvel hu1
      simp only [qsub_true, hd, hvel, if_true]
      obtain ⟨pa, hpa, hpau⟩ := qHalfTimes_unit 1 (-1) vel d.value (d.time - t0) hvel hd
      have hpau' : pa.unit = ⟨1, 0⟩ := hpau
      simp only [hpa]
      have hacc : (Quantity.div true (⟨d.value.value - vel.value, ⟨1, -1⟩⟩ : Quantity F)
          (Quantity.ofTime true (d.time - t0))).unit = ⟨1, -2⟩ := rfl
      match u1o, hu1 with
      | none, _ =>
        refine ⟨_, _, rfl, ?_⟩
        intro u0 h; cases h
        refine ⟨hd, ?_⟩
        intro u1 h; cases h
        exact ⟨hacc, hpau'⟩
      | some ⟨acc0, pos0⟩, hu1 =>
        obtain ⟨_, hpos⟩ := hu1 _ rfl
        simp only at hpos
        simp only [qadd_true, hpos, hpau', if_true]
        refine ⟨_, _, rfl, ?_⟩
        intro u0 h; cases h
        refine ⟨hd, ?_⟩
        intro u1 h; cases h
        exact ⟨hacc, rfl⟩

theorem v2s_get_units (s : Option (V2sU0 F)) (hinv : V2sUnits s) : ∃ o, V2s.get true s = .ok o := by
  match s, hinv with
  | none, _ => exact ⟨_, rfl⟩
  | some ⟨t0, vel, none⟩, _ => exact ⟨_, rfl⟩
  | some ⟨t0, vel, some ⟨acc, pos⟩⟩, hinv =>
    obtain ⟨hvel, hu1⟩ := hinv _ rfl
    obtain ⟨hacc, hpos⟩ := hu1 _ rfl
    simp only at hacc hvel hpos
    simp only [V2s.get, state_new_ok pos vel acc hpos hvel hacc]
    exact ⟨_, rfl⟩

theorem v2s_right_unit_never_panics (evs : List (Output (Quantity F))) (hu : ∀ e ∈ evs, GoodUnit ⟨1, -1⟩ e) :
    ∃ s, runE (V2s.step true) V2s.init evs = .ok s ∧ V2sUnits s ∧ ∃ o, V2s.get true s = .ok o := by
  obtain ⟨s, h, hi⟩ := runE_inv (V2s.step (F := F) true) V2sUnits (GoodUnit ⟨1, -1⟩) v2s_step_units V2s.init
    (by intro u0 h; cases h) evs hu
  exact ⟨s, h, hi, v2s_get_units s hi⟩

/-- unit invariant of the position converter's state -/
def P2sUnits (s : Option (P2sU0 F)) : Prop :=
  ∀ u0, s = some u0 → u0.pos.unit = ⟨1, 0⟩ ∧
    ∀ u1, u0.u1 = some u1 → u1.vel.unit = ⟨1, -1⟩ ∧ ∀ x, u1.acc = some x → x.unit = ⟨1, -2⟩

theorem p2s_step_units (s : Option (P2sU0 F)) (e : Output (Quantity F)) (hinv : P2sUnits s)
    (hg : GoodUnit ⟨1, 0⟩ e) : ∃ s' r, P2s.step true s e = .ok (s', r) ∧ P2sUnits s' := by
  match e with
  | .error x => exact ⟨none, _, rfl, by intro u0 h; cases h⟩
  | .ok none => exact ⟨s, _, rfl, hinv⟩
  | .ok (some d) =>
    have hd := hg d rfl
    simp only [P2s.step, assertEq_true, MILLIMETER, DUnit.new, hd, if_true]
    match s, hinv with
    | none, _ =>
      refine ⟨_, _, rfl, ?_⟩
      intro u0 h; cases h
      exact ⟨hd, by intro u1 h; cases h⟩
    | some ⟨t0, pos, u1o⟩, hinv =>
      obtain ⟨hpos, hu1⟩ := hinv _ rfl
      simp only at hpos hu1
      simp only [qsub_true, hd, hpos, if_true]
      have hvel : (Quantity.div true (⟨d.value.value - pos.value, ⟨1, 0⟩⟩ : Quantity F)
          (Quantity.ofTime true (d.time - t0))).unit = ⟨1, -1⟩ := rfl
      match u1o, hu1 with
      | none, _ =>
        refine ⟨_, _, rfl, ?_⟩
        intro u0 h; cases h
        refine ⟨hd, ?_⟩
        intro u1 h; cases h
        exact ⟨hvel, by intro x h; cases h⟩
      | some ⟨vel0, acc0⟩, hu1 =>
        obtain ⟨hv0, _⟩ := hu1 _ rfl
        simp only at hv0
        simp only [hvel, hv0, if_true]
        refine ⟨_, _, rfl, ?_⟩
        intro u0 h; cases h
        refine ⟨hd, ?_⟩
        intro u1 h; cases h
        refine ⟨hvel, ?_⟩
        intro x h; cases h; rfl

theorem p2s_get_units (s : Option (P2sU0 F)) (hinv : P2sUnits s) : ∃ o, P2s.get true s = .ok o := by
  match s, hinv with
  | none, _ => exact ⟨_, rfl⟩
  | some ⟨t0, pos, none⟩, _ => exact ⟨_, rfl⟩
  | some ⟨t0, pos, some ⟨vel, none⟩⟩, _ => exact ⟨_, rfl⟩
  | some ⟨t0, pos, some ⟨vel, some acc⟩⟩, hinv =>
    obtain ⟨hpos, hu1⟩ := hinv _ rfl
    obtain ⟨hvel, hacc⟩ := hu1 _ rfl
    have ha := hacc _ rfl
    simp only at ha hvel hpos
    simp only [P2s.get, state_new_ok pos vel acc hpos hvel ha]
    exact ⟨_, rfl⟩

theorem p2s_right_unit_never_panics (evs : List (Output (Quantity F))) (hu : ∀ e ∈ evs, GoodUnit ⟨1, 0⟩ e) :
    ∃ s, runE (P2s.step true) P2s.init evs = .ok s ∧ P2sUnits s ∧ ∃ o, P2s.get true s = .ok o := by
  obtain ⟨s, h, hi⟩ := runE_inv (P2s.step (F := F) true) P2sUnits (GoodUnit ⟨1, 0⟩) p2s_step_units P2s.init
    (by intro u0 h; cases h) evs hu
  exact ⟨s, h, hi, p2s_get_units s hi⟩

/-! ### F (continued): shift invariance of the three converters -/
def shiftA2s (c : Int) (s : Option (A2sU0 F)) : Option (A2sU0 F) :=
  s.map (fun u0 => ⟨u0.time + c, u0.acc, u0.u1⟩)
def shiftV2s (c : Int) (s : Option (V2sU0 F)) : Option (V2sU0 F) :=
  s.map (fun u0 => ⟨u0.time + c, u0.vel, u0.u1⟩)
def shiftP2s (c : Int) (s : Option (P2sU0 F)) : Option (P2sU0 F) :=
  s.map (fun u0 => ⟨u0.time + c, u0.pos, u0.u1⟩)

theorem a2s_step_shift (chk : Bool) (c : Int) (s : Option (A2sU0 F)) (e : Output (Quantity F)) :
    A2s.step chk (shiftA2s c s) (shiftOut c e) = (A2s.step chk s e).map (fun r => (shiftA2s c r.1, r.2)) := by
  match e with
  | .error x => rfl
  | .ok none => rfl
  | .ok (some d) =>
    match s with
    | none =>
      simp only [A2s.step, shiftOut, shiftDatum, shiftA2s, Option.map]
      cases DUnit.assertEqAssumeOk chk d.value.unit (MILLIMETER_PER_SECOND_SQUARED chk) <;> rfl
    | some ⟨t0, acc, u1o⟩ =>
      have ht : d.time + c - (t0 + c) = d.time - t0 := by omega
      simp only [A2s.step, shiftOut, shiftDatum, shiftA2s, Option.map, ht]
      cases DUnit.assertEqAssumeOk chk d.value.unit (MILLIMETER_PER_SECOND_SQUARED chk) with
      | error q => rfl
      | ok _ =>
        simp only
        cases qHalfTimes chk acc d.value (Quantity.ofTime chk (d.time - t0)) with
        | error q => rfl
        | ok va =>
          simp only
          match u1o with
          | none => rfl
          | some ⟨vel, poso⟩ =>
            simp only
            cases Quantity.add chk vel va with
            | error q => rfl
            | ok nv =>
              simp only
              cases qHalfTimes chk vel nv (Quantity.ofTime chk (d.time - t0)) with
              | error q => rfl
              | ok pa =>
                simp only
                match poso with
                | none => rfl
                | some op =>
                  simp only
                  cases Quantity.add chk op pa <;> rfl

theorem v2s_step_shift (chk : Bool) (c : Int) (s : Option (V2sU0 F)) (e : Output (Quantity F)) :
    V2s.step chk (shiftV2s c s) (shiftOut c e) = (V2s.step chk s e).map (fun r => (shiftV2s c r.1, r.2)) := by
  match e with
  | .error x => rfl
  | .ok none => rfl
  | .ok (some d) =>
    match s with
    | none =>
      simp only [V2s.step, shiftOut, shiftDatum, shiftV2s, Option.map]
      cases DUnit.assertEqAssumeOk chk d.value.unit (MILLIMETER_PER_SECOND chk) <;> rfl
    | some ⟨t0, vel, u1o⟩ =>
      have ht : d.time + c - (t0 + c) = d.time - t0 := by omega
      simp only [V2s.step, shiftOut, shiftDatum, shiftV2s, Option.map, ht]
      cases DUnit.assertEqAssumeOk chk d.value.unit (MILLIMETER_PER_SECOND chk) with
      | error q => rfl
      | ok _ =>
        simp only
        cases Quantity.sub chk d.value vel with
        | error q => rfl
        | ok dv =>
          simp only
          cases qHalfTimes chk vel d.value (Quantity.ofTime chk (d.time - t0)) with
          | error q => rfl
          | ok pa =>
            simp only
            match u1o with
            | none => rfl
            | some ⟨acc0, pos0⟩ =>
              simp only
              cases Quantity.add chk pos0 pa <;> rfl

theorem p2s_step_shift (chk : Bool) (c : Int) (s : Option (P2sU0 F)) (e : Output (Quantity F)) :
    P2s.step chk (shiftP2s c s) (shiftOut c e) = (P2s.step chk s e).map (fun r => (shiftP2s c r.1, r.2)) := by
  match e with
  | .error x => rfl
  | .ok none => rfl
  | .ok (some d) =>
    match s with
    | none =>
      simp only [P2s.step, shiftOut, shiftDatum, shiftP2s, Option.map]
      cases DUnit.assertEqAssumeOk chk d.value.unit (MILLIMETER chk) <;> rfl
    | some ⟨t0, pos, u1o⟩ =>
      have ht : d.time + c - (t0 + c) = d.time - t0 := by omega
      simp only [P2s.step, shiftOut, shiftDatum, shiftP2s, Option.map, ht]
      cases DUnit.assertEqAssumeOk chk d.value.unit (MILLIMETER chk) with
      | error q => rfl
      | ok _ =>
        simp only
        cases Quantity.sub chk d.value pos with
        | error q => rfl
        | ok dp =>
          simp only
          match u1o with
          | none => rfl
          | some ⟨vel0, acc0⟩ =>
            simp only
            cases Quantity.sub chk (Quantity.div chk dp (Quantity.ofTime chk (d.time - t0))) vel0 <;> rfl

/-- **Shift invariance, converters**: same values, same panics, stored time shifted -/
theorem a2s_shift_invariant (chk : Bool) (c : Int) (evs : List (Output (Quantity F))) :
    runE (A2s.step chk) A2s.init (shiftHist c evs) = (runE (A2s.step chk) A2s.init evs).map (shiftA2s c) :=
  runE_map (A2s.step chk) (shiftA2s c) (shiftOut c) (a2s_step_shift (F := F) chk c) A2s.init evs
theorem v2s_shift_invariant (chk : Bool) (c : Int) (evs : List (Output (Quantity F))) :
    runE (V2s.step chk) V2s.init (shiftHist c evs) = (runE (V2s.step chk) V2s.init evs).map (shiftV2s c) :=
  runE_map (V2s.step chk) (shiftV2s c) (shiftOut c) (v2s_step_shift (F := F) chk c) V2s.init evs
theorem p2s_shift_invariant (chk : Bool) (c : Int) (evs : List (Output (Quantity F))) :
    runE (P2s.step chk) P2s.init (shiftHist c evs) = (runE (P2s.step chk) P2s.init evs).map (shiftP2s c) :=
  runE_map (P2s.step chk) (shiftP2s c) (shiftOut c) (p2s_step_shift (F := F) chk c) P2s.init evs

/-- `get` commutes with the shift: the reported state is identical, its time is shifted -/
theorem a2s_get_shift (chk : Bool) (c : Int) (s : Option (A2sU0 F)) :
    A2s.get chk (shiftA2s c s) = (A2s.get chk s).map (shiftOut c) := by
  match s with
  | none => rfl
  | some ⟨t0, acc, none⟩ => rfl
  | some ⟨t0, acc, some ⟨vel, none⟩⟩ => rfl
  | some ⟨t0, acc, some ⟨vel, some pos⟩⟩ =>
    simp only [A2s.get, shiftA2s, Option.map]
    cases State.new chk pos vel acc <;> rfl
theorem v2s_get_shift (chk : Bool) (c : Int) (s : Option (V2sU0 F)) :
    V2s.get chk (shiftV2s c s) = (V2s.get chk s).map (shiftOut c) := by
  match s with
  | none => rfl
  | some ⟨t0, vel, none⟩ => rfl
  | some ⟨t0, vel, some ⟨acc, pos⟩⟩ =>
    simp only [V2s.get, shiftV2s, Option.map]
    cases State.new chk pos vel acc <;> rfl
theorem p2s_get_shift (chk : Bool) (c : Int) (s : Option (P2sU0 F)) :
    P2s.get chk (shiftP2s c s) = (P2s.get chk s).map (shiftOut c) := by
  match s with
  | none => rfl
  | some ⟨t0, pos, none⟩ => rfl
  | some ⟨t0, pos, some ⟨vel, none⟩⟩ => rfl
  | some ⟨t0, pos, some ⟨vel, some acc⟩⟩ =>
    simp only [P2s.get, shiftP2s, Option.map]
    cases State.new chk pos vel acc <;> rfl

theorem state_new_value (chk : Bool) (p v a : Quantity F) (st : State F) (h : State.new chk p v a = .ok st) :
    st = ⟨p.value, v.value, a.value⟩ := by
  simp only [State.new] at h
  repeat' split at h
  all_goals (cases h <;> rfl)
/-- whenever `State::new` does not panic the converter output is just the three numbers and the time -/
theorem stateOut_value (chk : Bool) (sp : StateSpec F) (o : Output (State F))
    (h : stateOut chk (some sp) = .ok o) :
    o = .ok (some ⟨sp.time, ⟨sp.pos.value, sp.vel.value, sp.acc.value⟩⟩) := by
  simp only [stateOut] at h
  cases hn : State.new chk sp.pos sp.vel sp.acc with
  | error e => rw [hn] at h; cases h
  | ok st =>
    rw [hn] at h; cases h
    rw [state_new_value chk _ _ _ st hn]
/-- with checking off it never panics -/
theorem stateOut_nochk (sp : StateSpec F) :
    stateOut false (some sp) = .ok (.ok (some ⟨sp.time, ⟨sp.pos.value, sp.vel.value, sp.acc.value⟩⟩)) := rfl
/-- the number computed by `qHalfTimes` (any checking mode): `(a + b) / 2 * dt` -/
theorem qHalfTimes_value (chk : Bool) (a b dt q : Quantity F) (h : qHalfTimes chk a b dt = .ok q) :
    q.value = (a.value + b.value) / c2 * dt.value := by
  simp only [qHalfTimes] at h
  cases hs : Quantity.add chk a b with
  | error e => rw [hs] at h; cases h
  | ok sm =>
    rw [hs] at h; cases h
    simp only [Quantity.mul, Quantity.div, Quantity.dimensionless, qadd_value chk _ _ _ hs]

/-- right after an error event the converters report absent (they do not cache the error) -/
theorem a2s_get_after_error (chk : Bool) (l : List (Output (Quantity F))) (x : Err) (s : Option (A2sU0 F))
    (h : runE (A2s.step chk) A2s.init (l ++ [.error x]) = .ok s) : A2s.get chk s = .ok (.ok none) :=
  a2s_absent_until chk _ s h (by simp [lastRunIgnoringAbsent])
theorem v2s_get_after_error (chk : Bool) (l : List (Output (Quantity F))) (x : Err) (s : Option (V2sU0 F))
    (h : runE (V2s.step chk) V2s.init (l ++ [.error x]) = .ok s) : V2s.get chk s = .ok (.ok none) :=
  v2s_absent_until chk _ s h (by simp [lastRunIgnoringAbsent])
theorem p2s_get_after_error (chk : Bool) (l : List (Output (Quantity F))) (x : Err) (s : Option (P2sU0 F))
    (h : runE (P2s.step chk) P2s.init (l ++ [.error x]) = .ok s) : P2s.get chk s = .ok (.ok none) :=
  p2s_absent_until chk _ s h (by simp [lastRunIgnoringAbsent])

end S

/-! ## tier R sanity corollaries: on a linear signal the formulas are exact -/
section S
variable {F : Type} [Add F] [Sub F] [Mul F] [Div F] [Neg F] [LT F] [LE F] [BEq F]
  [DecidableLT F] [DecidableLE F] [FloatLike F]

/-- the number computed by one trapezoid (any checking mode) -/
theorem trapAddend_value (chk : Bool) (p o : Datum (Quantity F)) (a : Quantity F)
    (h : trapAddend chk p o = .ok a) :
    a.value = (FloatLike.ofInt (o.time - p.time) : F) / c1e9 * (p.value.value + o.value.value) / c2 := by
  simp only [trapAddend] at h
  cases hs : Quantity.add chk p.value o.value with
  | error e => rw [hs] at h; cases h
  | ok sm =>
    rw [hs] at h; cases h
    simp only [Quantity.div, Quantity.mul, Quantity.ofTime, Quantity.dimensionless, qadd_value chk _ _ _ hs]

theorem trapRev_none_iff (chk : Bool) (rr : List (Datum (Quantity F))) :
    trapRev chk rr = .ok none ↔ rr.length < 2 := by
  have := trapSpec_none_iff chk rr.reverse
  simpa [trapSpec] using this

/-- with checking off, a run of at least two samples always has a trapezoidal sum -/
theorem trapSpec_nochk_some (run : List (Datum (Quantity F))) (hlen : 2 ≤ run.length) :
    ∃ r, trapSpec false run = .ok (some r) := by
  obtain ⟨r, hr⟩ := trapRev_nochk_ok (F := F) run.reverse
  cases r with
  | some r => exact ⟨r, hr⟩
  | none =>
    have := (trapSpec_none_iff false run).1 hr
    omega
end S

section R
variable {F : Type} [Field F] [LinearOrder F] [IsStrictOrderedRing F] [FloatLike F] [ExactScalar F]

theorem trapRev_linear (chk : Bool) (m c : F) (tl : List (Datum (Quantity F))) :
    ∀ (o r l : Datum (Quantity F)),
      (∀ d ∈ o :: tl, d.value.value = m * ((d.time : F) / 1000000000) + c) →
      (o :: tl).getLast? = some l → trapRev chk (o :: tl) = .ok (some r) →
      r.value.value = ((o.time - l.time : Int) : F) / 1000000000 * (l.value.value + o.value.value) / 2 := by
  induction tl with
  | nil => intro o r l _ _ h; cases h
  | cons p rest ih =>
    intro o r l hlin hl h
    rw [trapRev] at h
    cases h1 : trapRev chk (p :: rest) with
    | error e => rw [h1] at h; cases h
    | ok prevSum =>
      rw [h1] at h; simp only at h
      cases h2 : trapAddend chk p o with
      | error e => rw [h2] at h; cases h
      | ok a =>
        rw [h2] at h; simp only at h
        have ha := trapAddend_value chk p o a h2
        simp only [ExactScalar.ofInt_eq, Int.cast_ofNat] at ha
        rw [List.getLast?_cons_cons] at hl
        cases prevSum with
        | none =>
          have hlen := (trapRev_none_iff chk (p :: rest)).1 h1
          have hrest : rest = [] := by
            cases rest with
            | nil => rfl
            | cons q r' => simp at hlen; omega
          subst hrest
          simp only [List.getLast?_singleton, Option.some.injEq] at hl
          subst hl
          cases h
          exact ha
        | some r' =>
          simp only at h
          cases h3 : Quantity.add chk a r'.value with
          | error e => rw [h3] at h; cases h
          | ok v =>
            rw [h3] at h; cases h
            have hv := qadd_value chk _ _ _ h3
            have hih := ih p r' l (fun d hd => hlin d (List.mem_cons_of_mem _ hd)) hl h1
            have ho := hlin o (by simp)
            have hp := hlin p (by simp)
            have hll := hlin l (List.mem_cons_of_mem _ (List.mem_of_getLast? hl))
            show v.value = _
            rw [hv, ha, hih, ho, hp, hll]
            push_cast
            ring

/-- **Trapezoid rule is exact on linear signals** (this distinguishes it from a rectangle rule): for samples of
`v(t) = m·t + c` (t in seconds = ns/10⁹) at arbitrary times — increasing or not — the specification's value is
`(tₙ − t₀)·(v₀ + vₙ)/2`, the exact integral.  Holds in either checking mode whenever the specification yields a
value (it always does with checking off, `trapSpec_nochk_some`, or with one common unit, `trapRev_unit`). -/
theorem trapsum_linear_exact (chk : Bool) (m c : F) (run : List (Datum (Quantity F)))
    (hlin : ∀ d ∈ run, d.value.value = m * ((d.time : F) / 1000000000) + c)
    (d0 dn r : Datum (Quantity F)) (h0 : run.head? = some d0) (hn : run.getLast? = some dn)
    (h : trapSpec chk run = .ok (some r)) :
    r.value.value = ((dn.time - d0.time : Int) : F) / 1000000000 * (d0.value.value + dn.value.value) / 2 ∧
      r.time = dn.time := by
  refine ⟨?_, ?_⟩
  · unfold trapSpec at h
    rw [← List.head?_reverse] at hn
    rw [← List.getLast?_reverse] at h0
    match hrr : run.reverse with
    | [] => rw [hrr] at h; cases h
    | o :: tl =>
      rw [hrr] at h h0 hn
      simp only [List.head?_cons, Option.some.injEq] at hn
      subst hn
      exact trapRev_linear chk m c tl o r d0
        (fun d hd => hlin d (by rw [← List.mem_reverse, hrr]; exact hd)) h0 h
  · obtain ⟨dn', h1, h2⟩ := trapSpec_time chk run r h
    rw [hn] at h1; cases h1; exact h2

/-- **Backward difference is exact on linear signals**: the value is the slope -/
theorem backdiff_linear_exact (chk : Bool) (m c : F) (pre : List (Datum (Quantity F))) (p o r : Datum (Quantity F))
    (hp : p.value.value = m * ((p.time : F) / 1000000000) + c)
    (ho : o.value.value = m * ((o.time : F) / 1000000000) + c)
    (hne : o.time ≠ p.time)
    (h : backdiffSpec chk (pre ++ [p, o]) = .ok (some r)) : r.value.value = m ∧ r.time = o.time := by
  rw [backdiffSpec_snoc] at h
  cases hs : Quantity.sub chk o.value p.value with
  | error e => rw [hs] at h; cases h
  | ok d =>
    rw [hs] at h; cases h
    refine ⟨?_, rfl⟩
    have hd := qsub_value chk _ _ _ hs
    simp only [Quantity.div, Quantity.ofTime, hd, ho, hp, ExactScalar.ofInt_eq, Int.cast_ofNat]
    have hne' : ((o.time - p.time : Int) : F) ≠ 0 := by
      intro h0
      have : o.time - p.time = 0 := by exact_mod_cast h0
      omega
    push_cast at hne' ⊢
    field_simp
    ring
end R

/-! ## non-vacuity: concrete histories (integer payloads; times in whole seconds so that `/ 10⁹` is exact) -/
section Examples
/-- an integer "scalar" only used to evaluate the examples below -/
local instance : FloatLike Int := ⟨id, id, fun _ _ => 1, fun x => (x.natAbs : Int)⟩

/-- sample in mm at `t` seconds -/
private def smp (t v : Int) (u : DUnit) : Output (Quantity Int) := .ok (some ⟨t * 1000000000, ⟨v, u⟩⟩)
private def MM : DUnit := ⟨1, 0⟩
private def MMS : DUnit := ⟨1, -1⟩
private def MMS2 : DUnit := ⟨1, -2⟩
private def histI : List (Output (Quantity Int)) :=
  [smp 0 7 MM, .error (.other 3), smp 1 1 MM, .ok none, smp 2 1 MM, smp 3 3 MM, smp 5 5 MM]

/-- `lastRun` / `lastRunIgnoringAbsent` on a history with an error and an absent event -/
example : lastRun histI = [⟨2000000000, ⟨1, MM⟩⟩, ⟨3000000000, ⟨3, MM⟩⟩, ⟨5000000000, ⟨5, MM⟩⟩] := by rfl
example : lastRunIgnoringAbsent histI =
    [⟨1000000000, ⟨1, MM⟩⟩, ⟨2000000000, ⟨1, MM⟩⟩, ⟨3000000000, ⟨3, MM⟩⟩, ⟨5000000000, ⟨5, MM⟩⟩] := by rfl

/-- integral (checking on): the run after the reset is (2s,1) (3s,3) (5s,5): 1·(1+3)/2 + 2·(3+5)/2 = 10 mm·s at 5 s;
this is the hypothesis `runE … = .ok s` of `integral_eq_trapsum`, `integral_prev`, `integral_output_unit` -/
example : ∃ s, runE (Integral.step true) Integral.init histI = .ok s ∧
    Integral.get s = .ok (some ⟨5000000000, ⟨10, ⟨1, 1⟩⟩⟩) := ⟨_, rfl, rfl⟩
example : trapSpec true (lastRun histI) = .ok (some ⟨5000000000, ⟨10, ⟨1, 1⟩⟩⟩) := by rfl
/-- a rectangle rule would give 1·3 + 2·5 = 13 or 1·1 + 2·3 = 7 -/
example : AllUnit MM histI := by
  intro d hd
  simp [histI, smp] at hd
  rcases hd with rfl | rfl | rfl | rfl | rfl <;> rfl
/-- derivative: (5 − 3) / 2 s = 1 mm/s -/
example : ∃ s, runE (Derivative.step true) Derivative.init histI = .ok s ∧
    Derivative.get s = .ok (some ⟨5000000000, ⟨1, ⟨1, -1⟩⟩⟩) := ⟨_, rfl, rfl⟩
example : backdiffSpec true (lastRun histI) = .ok (some ⟨5000000000, ⟨1, ⟨1, -1⟩⟩⟩) := by rfl
/-- last event an error / absent -/
example : ∃ s, runE (Integral.step true) Integral.init [smp 0 1 MM, smp 1 1 MM, .error .fromNone] = .ok s ∧
    Integral.get s = .error .fromNone := ⟨_, rfl, rfl⟩
example : ∃ s, runE (Derivative.step true) Derivative.init [smp 0 1 MM, smp 1 1 MM, .ok none] = .ok s ∧
    Derivative.get s = .ok none := ⟨_, rfl, rfl⟩
/-- a unit mismatch between consecutive samples panics (hypotheses of `*_unit_mismatch_panics`, right-hand side of
`integral_panics_iff`) -/
example : runE (Integral.step true) Integral.init [smp 0 1 MM, smp 1 1 MMS] = .error .dim := by rfl
example : runE (Derivative.step true) Derivative.init [smp 0 1 MM, smp 1 1 MMS] = .error .dim := by rfl
example : trapSpec true (lastRun [smp 0 1 MM, smp 1 1 MMS]) = .error .dim := by rfl
/-- … but not with checking off -/
example : ∃ s, runE (Integral.step false) Integral.init [smp 0 1 MM, smp 1 1 MMS] = .ok s := ⟨_, rfl⟩

/-- acceleration converter: constant 2 mm/s² at 0,1,2,3 s (an absent event in between is ignored):
vel = 2, 4, 6; pos = 3, 8 -/
private def histA : List (Output (Quantity Int)) := [smp 0 2 MMS2, .ok none, smp 1 2 MMS2, smp 2 2 MMS2, smp 3 2 MMS2]
example : ∃ s, runE (A2s.step true) A2s.init histA = .ok s ∧
    A2s.get true s = .ok (.ok (some ⟨3000000000, ⟨8, 6, 2⟩⟩)) := ⟨_, rfl, rfl⟩
example : ∃ sp, a2sSpec true (lastRunIgnoringAbsent histA) = .ok (some sp) ∧
    sp.pos = ⟨8, ⟨1, 0⟩⟩ ∧ sp.vel = ⟨6, ⟨1, -1⟩⟩ ∧ sp.acc = ⟨2, ⟨1, -2⟩⟩ ∧ sp.time = 3000000000 :=
  ⟨_, rfl, rfl, rfl, rfl, rfl⟩
example : ∀ e ∈ histA, GoodUnit MMS2 e := by
  intro e he d hd
  subst hd
  simp [histA, smp] at he
  rcases he with rfl | rfl | rfl | rfl <;> rfl
/-- fewer than three samples since the last error: absent (hypothesis of `a2s_absent_until`) -/
example : ∃ s, runE (A2s.step true) A2s.init (histA ++ [.error .fromNone, smp 4 2 MMS2, smp 5 2 MMS2]) = .ok s ∧
    (lastRunIgnoringAbsent (histA ++ [.error .fromNone, smp 4 2 MMS2, smp 5 2 MMS2])).length < 3 ∧
    A2s.get true s = .ok (.ok none) := ⟨_, rfl, by decide, rfl⟩
/-- wrong unit -/
example : A2s.step true (none : Option (A2sU0 Int)) (smp 0 2 MM) = .error .dim := by rfl
example : V2s.step true (none : Option (V2sU0 Int)) (smp 0 2 MM) = .error .dim := by rfl
example : P2s.step true (none : Option (P2sU0 Int)) (smp 0 2 MMS) = .error .dim := by rfl

/-- velocity converter: v = 0, 2, 6 mm/s at 0, 1, 3 s: pos = 1, 1 + 8 = 9; acc = (6 − 2)/2 = 2 -/
private def histV : List (Output (Quantity Int)) := [smp 0 0 MMS, smp 1 2 MMS, .ok none, smp 3 6 MMS]
example : ∃ s, runE (V2s.step true) V2s.init histV = .ok s ∧
    V2s.get true s = .ok (.ok (some ⟨3000000000, ⟨9, 6, 2⟩⟩)) := ⟨_, rfl, rfl⟩
example : ∃ sp, v2sSpec true (lastRunIgnoringAbsent histV) = .ok (some sp) ∧
    sp.pos = ⟨9, ⟨1, 0⟩⟩ ∧ sp.vel = ⟨6, ⟨1, -1⟩⟩ ∧ sp.acc = ⟨2, ⟨1, -2⟩⟩ ∧ sp.time = 3000000000 :=
  ⟨_, rfl, rfl, rfl, rfl, rfl⟩
example : ∃ s, runE (V2s.step true) V2s.init [smp 0 0 MMS] = .ok s ∧
    (lastRunIgnoringAbsent [smp 0 0 MMS]).length < 2 ∧ V2s.get true s = .ok (.ok none) := ⟨_, rfl, by decide, rfl⟩

/-- position converter: p = 0, 1, 4, 10 mm at 0, 1, 2, 4 s: vel = 1, 3, 3; acc = (3 − 3)/2 = 0 -/
private def histP : List (Output (Quantity Int)) := [smp 0 0 MM, smp 1 1 MM, smp 2 4 MM, smp 4 10 MM]
example : ∃ s, runE (P2s.step true) P2s.init histP = .ok s ∧
    P2s.get true s = .ok (.ok (some ⟨4000000000, ⟨10, 3, 0⟩⟩)) := ⟨_, rfl, rfl⟩
example : ∃ s, runE (P2s.step true) P2s.init (histP.take 3) = .ok s ∧
    P2s.get true s = .ok (.ok (some ⟨2000000000, ⟨4, 3, 2⟩⟩)) := ⟨_, rfl, rfl⟩
example : ∃ sp, p2sSpec true (lastRunIgnoringAbsent histP) = .ok (some sp) ∧
    sp.pos = ⟨10, ⟨1, 0⟩⟩ ∧ sp.vel = ⟨3, ⟨1, -1⟩⟩ ∧ sp.acc = ⟨0, ⟨1, -2⟩⟩ ∧ sp.time = 4000000000 :=
  ⟨_, rfl, rfl, rfl, rfl, rfl⟩
example : ∃ s, runE (P2s.step true) P2s.init (histP.take 2) = .ok s ∧
    (lastRunIgnoringAbsent (histP.take 2)).length < 3 ∧ P2s.get true s = .ok (.ok none) := ⟨_, rfl, by decide, rfl⟩

/-- shift invariance instance: the same history one hour later -/
example : ∃ s, runE (Integral.step true) Integral.init (shiftHist 3600000000000 histI) = .ok s ∧
    Integral.get s = .ok (some ⟨3605000000000, ⟨10, ⟨1, 1⟩⟩⟩) := ⟨_, rfl, rfl⟩

/-- tier R, over ℚ: samples of v(t) = 2t + 1 at 0 s, 1 s, 3 s.  Hypotheses of `trapsum_linear_exact` and
`backdiff_linear_exact` hold and the exact integral is 3·(1 + 7)/2 = 12, the slope 2. -/
private def runQ : List (Datum (Quantity ℚ)) :=
  [⟨0, ⟨1, ⟨1, 0⟩⟩⟩, ⟨1000000000, ⟨3, ⟨1, 0⟩⟩⟩, ⟨3000000000, ⟨7, ⟨1, 0⟩⟩⟩]
example : ∀ d ∈ runQ, d.value.value = 2 * ((d.time : ℚ) / 1000000000) + 1 := by
  intro d hd
  simp only [runQ, List.mem_cons, List.not_mem_nil, or_false] at hd
  rcases hd with rfl | rfl | rfl <;> norm_num
example : ∃ r, trapSpec false runQ = .ok (some r) ∧ r.value.value = 12 := by
  obtain ⟨r, hr⟩ := trapSpec_nochk_some runQ (by decide)
  refine ⟨r, hr, ?_⟩
  have := (trapsum_linear_exact false 2 1 runQ (by
    intro d hd
    simp only [runQ, List.mem_cons, List.not_mem_nil, or_false] at hd
    rcases hd with rfl | rfl | rfl <;> norm_num) _ _ r rfl rfl hr).1
  rw [this]; norm_num
end Examples

end Rrtk.Thm.C10
