/-
C10 — integral / derivative streams and the acceleration-, velocity-, position-to-state converters.

Tier S (no algebraic law on the scalar) for everything structural: which samples are used, in which order, with
which operator, the timestamps, resets, panics, units, timestamp-shift invariance.  Tier R (ordered field) only for the
two sanity corollaries `trapsum_linear_exact`, `backdiff_linear_exact`.
-/
import Rrtk.Streams.Stateful
import Rrtk.Thm.Lemmas.Exact
set_option linter.unusedSectionVars false
set_option linter.unusedSimpArgs false
namespace Rrtk.Thm.C10
open Rrtk

/-! ## A. histories, runs -/
section Run
variable {S I α : Type}

/-- run a step function over a history of inputs; stops at the first panic -/
def runE (step : S → I → Except Panic (S × UpdRet)) (s : S) : List I → Except Panic S
  | [] => .ok s
  | e :: es =>
    match step s e with
    | .error p => .error p
    | .ok (s', _) => runE step s' es

theorem runE_append (step : S → I → Except Panic (S × UpdRet)) (s : S) (l₁ l₂ : List I) :
    runE step s (l₁ ++ l₂) =
      match runE step s l₁ with
      | .error p => .error p
      | .ok s' => runE step s' l₂ := by
  induction l₁ generalizing s with
  | nil => rfl
  | cons e es ih =>
    simp only [List.cons_append, runE]
    cases step s e with
    | error p => rfl
    | ok r => cases r with | mk s' u => exact ih s'

theorem runE_snoc (step : S → I → Except Panic (S × UpdRet)) (s : S) (l : List I) (e : I) :
    runE step s (l ++ [e]) =
      match runE step s l with
      | .error p => .error p
      | .ok s' =>
        match step s' e with
        | .error p => .error p
        | .ok (s'', _) => .ok s'' := by
  rw [runE_append]
  cases runE step s l with
  | error p => rfl
  | ok s' =>
    simp only [runE]

theorem runE_snoc_ok (step : S → I → Except Panic (S × UpdRet)) (s s' : S) (l : List I) (e : I)
    (h : runE step s l = .ok s') :
    runE step s (l ++ [e]) = match step s' e with
      | .error p => .error p
      | .ok (s'', _) => .ok s'' := by
  rw [runE_snoc, h]

theorem runE_snoc_error (step : S → I → Except Panic (S × UpdRet)) (s : S) (l : List I) (e : I) (p : Panic)
    (h : runE step s l = .error p) : runE step s (l ++ [e]) = .error p := by
  rw [runE_snoc, h]

/-- induction from the right -/
theorem snoc_induction {P : List α → Prop} (nil : P []) (snoc : ∀ l a, P l → P (l ++ [a])) : ∀ l, P l := by
  intro l
  rw [← List.reverse_reverse l]
  induction l.reverse with
  | nil => exact nil
  | cons a t ih => rw [List.reverse_cons]; exact snoc _ _ ih

/-- the leading present samples of a list of events -/
def presentPrefix : List (Output α) → List (Datum α)
  | [] => []
  | .ok (some d) :: es => d :: presentPrefix es
  | .ok none :: _ => []
  | .error _ :: _ => []

/-- the leading present samples, skipping absent events, up to the first error -/
def presentPrefixIgn : List (Output α) → List (Datum α)
  | [] => []
  | .ok (some d) :: es => d :: presentPrefixIgn es
  | .ok none :: es => presentPrefixIgn es
  | .error _ :: _ => []

/-- newest-first: the present samples back to the last absent/error event -/
def rrun (evs : List (Output α)) : List (Datum α) := presentPrefix evs.reverse
/-- newest-first: the present samples back to the last error event (absent events skipped) -/
def rrunIgn (evs : List (Output α)) : List (Datum α) := presentPrefixIgn evs.reverse

/-- "the run of present samples since the last reset" where a reset is an absent or an error event:
the samples (oldest first) of the longest all-present suffix of the history -/
def lastRun (evs : List (Output α)) : List (Datum α) := (rrun evs).reverse
/-- the same where only an error event resets and absent events are ignored -/
def lastRunIgnoringAbsent (evs : List (Output α)) : List (Datum α) := (rrunIgn evs).reverse

@[simp] theorem rrun_nil : rrun ([] : List (Output α)) = [] := rfl
@[simp] theorem rrun_snoc_present (l : List (Output α)) (d : Datum α) :
    rrun (l ++ [.ok (some d)]) = d :: rrun l := by simp [rrun, presentPrefix]
@[simp] theorem rrun_snoc_absent (l : List (Output α)) : rrun (l ++ [.ok none]) = [] := by
  simp [rrun, presentPrefix]
@[simp] theorem rrun_snoc_error (l : List (Output α)) (e : Err) : rrun (l ++ [.error e]) = [] := by
  simp [rrun, presentPrefix]
@[simp] theorem rrunIgn_nil : rrunIgn ([] : List (Output α)) = [] := rfl
@[simp] theorem rrunIgn_snoc_present (l : List (Output α)) (d : Datum α) :
    rrunIgn (l ++ [.ok (some d)]) = d :: rrunIgn l := by simp [rrunIgn, presentPrefixIgn]
@[simp] theorem rrunIgn_snoc_absent (l : List (Output α)) : rrunIgn (l ++ [.ok none]) = rrunIgn l := by
  simp [rrunIgn, presentPrefixIgn]
@[simp] theorem rrunIgn_snoc_error (l : List (Output α)) (e : Err) : rrunIgn (l ++ [.error e]) = [] := by
  simp [rrunIgn, presentPrefixIgn]

/-- `lastRun` appends a present sample and is emptied by anything else -/
theorem lastRun_snoc (l : List (Output α)) (e : Output α) :
    lastRun (l ++ [e]) = match e with
      | .ok (some d) => lastRun l ++ [d]
      | _ => [] := by
  match e with
  | .ok (some d) => simp [lastRun]
  | .ok none => simp [lastRun]
  | .error x => simp [lastRun]

theorem lastRunIgnoringAbsent_snoc (l : List (Output α)) (e : Output α) :
    lastRunIgnoringAbsent (l ++ [e]) = match e with
      | .ok (some d) => lastRunIgnoringAbsent l ++ [d]
      | .ok none => lastRunIgnoringAbsent l
      | .error _ => [] := by
  match e with
  | .ok (some d) => simp [lastRunIgnoringAbsent]
  | .ok none => simp [lastRunIgnoringAbsent]
  | .error x => simp [lastRunIgnoringAbsent]

/-- `lastRun` really is the all-present tail of the history: the history is some `pre` followed by exactly these
samples, and `pre` is empty or ends with a non-present event -/
theorem lastRun_decomp (evs : List (Output α)) :
    ∃ pre, evs = pre ++ (lastRun evs).map (fun d => (.ok (some d) : Output α)) ∧
      ∀ e, pre.getLast? = some e → ∀ d, e ≠ .ok (some d) := by
  induction evs using snoc_induction with
  | nil => exact ⟨[], rfl, by simp⟩
  | snoc l e ih =>
    obtain ⟨pre, h1, h2⟩ := ih
    match e with
    | .ok (some d) =>
      refine ⟨pre, ?_, h2⟩
      rw [lastRun_snoc]; simp only [List.map_append, List.map_cons, List.map_nil]
      rw [← List.append_assoc, ← h1]
    | .ok none =>
      refine ⟨l ++ [.ok none], by rw [lastRun_snoc]; simp, ?_⟩
      intro e he d; simp at he; subst he; simp
    | .error x =>
      refine ⟨l ++ [.error x], by rw [lastRun_snoc]; simp, ?_⟩
      intro e he d; simp at he; subst he; simp

/-- every sample of the last run is a present event of the history -/
theorem mem_rrun (evs : List (Output α)) (d : Datum α) (h : d ∈ rrun evs) : (.ok (some d) : Output α) ∈ evs := by
  induction evs using snoc_induction with
  | nil => simp at h
  | snoc l e ih =>
    match e with
    | .ok (some d') =>
      simp only [rrun_snoc_present, List.mem_cons] at h
      rcases h with h | h
      · subst h; simp
      · simp [ih h]
    | .ok none => simp at h
    | .error x => simp at h

theorem mem_rrunIgn (evs : List (Output α)) (d : Datum α) (h : d ∈ rrunIgn evs) :
    (.ok (some d) : Output α) ∈ evs := by
  induction evs using snoc_induction with
  | nil => simp at h
  | snoc l e ih =>
    match e with
    | .ok (some d') =>
      simp only [rrunIgn_snoc_present, List.mem_cons] at h
      rcases h with h | h
      · subst h; simp
      · simp [ih h]
    | .ok none => simp only [rrunIgn_snoc_absent] at h; simp [ih h]
    | .error x => simp at h
end Run

/-! ## B, C. integral and derivative streams -/
section S
variable {F : Type} [Add F] [Sub F] [Mul F] [Div F] [Neg F] [LT F] [LE F] [BEq F]
  [DecidableLT F] [DecidableLE F] [FloatLike F]

/-- what `get` returns after the history `evs` when the specification of the last run evaluates to `r`:
nothing yet → absent; last event an error → that error; last event absent → absent; last event a sample → `r` -/
def expectedGet (evs : List (Output (Quantity F))) (r : Option (Datum (Quantity F))) : Output (Quantity F) :=
  match evs.getLast? with
  | none => .ok none
  | some (.error e) => .error e
  | some (.ok none) => .ok none
  | some (.ok (some _)) => .ok r

/-! ### generic part shared by the two streams (state = cached value + previous sample) -/
/-- invariant tying a state to the (newest-first) run of samples since the last reset -/
def DiInv (specRev : List (Datum (Quantity F)) → Except Panic (Option (Datum (Quantity F))))
    (s : DiS F) (rr : List (Datum (Quantity F))) : Prop :=
  s.prev = rr.head? ∧ (rr ≠ [] → ∃ r, specRev rr = .ok r ∧ s.value = .ok r)

/-- what we need of a step function to relate it to a specification on runs -/
structure DiLaws (step : DiS F → Output (Quantity F) → Except Panic (DiS F × UpdRet))
    (specRev : List (Datum (Quantity F)) → Except Panic (Option (Datum (Quantity F)))) : Prop where
  nil : specRev [] = .ok none
  err : ∀ s e, step s (.error e) = .ok (⟨.error e, none⟩, .error e)
  absent : ∀ s, step s (.ok none) = .ok (⟨.ok none, none⟩, .ok ())
  present : ∀ s rr d, DiInv specRev s rr →
    step s (.ok (some d)) = match specRev (d :: rr) with
      | .error p => .error p
      | .ok r => .ok (⟨.ok r, some d⟩, .ok ())

theorem di_run_ok {step : DiS F → Output (Quantity F) → Except Panic (DiS F × UpdRet)}
    {specRev : List (Datum (Quantity F)) → Except Panic (Option (Datum (Quantity F)))}
    (L : DiLaws step specRev) (evs : List (Output (Quantity F))) (s : DiS F)
    (h : runE step ⟨.ok none, none⟩ evs = .ok s) :
    DiInv specRev s (rrun evs) ∧ ∃ r, specRev (rrun evs) = .ok r ∧ s.value = expectedGet evs r := by
  induction evs using snoc_induction generalizing s with
  | nil =>
    simp only [runE, Except.ok.injEq] at h
    subst h
    exact ⟨⟨rfl, fun h => absurd rfl h⟩, none, L.nil, rfl⟩
  | snoc l e ih =>
    cases hl : runE step ⟨.ok none, none⟩ l with
    | error p => rw [runE_snoc_error _ _ _ _ _ hl] at h; cases h
    | ok s0 =>
      rw [runE_snoc_ok _ _ _ _ _ hl] at h
      have ih' := ih s0 hl
      match e with
      | .error x =>
        simp only [L.err, Except.ok.injEq] at h
        subst h
        refine ⟨⟨by simp, by simp⟩, none, by simp [L.nil], ?_⟩
        simp [expectedGet]
      | .ok none =>
        simp only [L.absent, Except.ok.injEq] at h
        subst h
        refine ⟨⟨by simp, by simp⟩, none, by simp [L.nil], ?_⟩
        simp [expectedGet]
      | .ok (some d) =>
        rw [L.present s0 (rrun l) d ih'.1] at h
        cases hs : specRev (d :: rrun l) with
        | error p => rw [hs] at h; cases h
        | ok r =>
          rw [hs] at h
          simp only [Except.ok.injEq] at h
          subst h
          refine ⟨⟨by simp, fun _ => ⟨r, by simpa using hs, rfl⟩⟩, r, by simpa using hs, ?_⟩
          simp [expectedGet]

theorem di_run_snoc_error {step : DiS F → Output (Quantity F) → Except Panic (DiS F × UpdRet)}
    {specRev : List (Datum (Quantity F)) → Except Panic (Option (Datum (Quantity F)))}
    (L : DiLaws step specRev) (l : List (Output (Quantity F))) (e : Output (Quantity F)) (s0 : DiS F)
    (hl : runE step ⟨.ok none, none⟩ l = .ok s0) (p : Panic) :
    runE step ⟨.ok none, none⟩ (l ++ [e]) = .error p ↔ specRev (rrun (l ++ [e])) = .error p := by
  rw [runE_snoc_ok _ _ _ _ _ hl]
  match e with
  | .error x => simp [L.err, L.nil]
  | .ok none => simp [L.absent, L.nil]
  | .ok (some d) =>
    simp only [L.present s0 (rrun l) d (di_run_ok L l s0 hl).1, rrun_snoc_present]
    cases specRev (d :: rrun l) with
    | error q => simp
    | ok r => simp

theorem di_run_panic {step : DiS F → Output (Quantity F) → Except Panic (DiS F × UpdRet)}
    {specRev : List (Datum (Quantity F)) → Except Panic (Option (Datum (Quantity F)))}
    (L : DiLaws step specRev) (evs : List (Output (Quantity F))) :
    (∃ p, runE step ⟨.ok none, none⟩ evs = .error p) ↔
      ∃ pre, pre <+: evs ∧ ∃ p, specRev (rrun pre) = .error p := by
  induction evs using snoc_induction with
  | nil =>
    constructor
    · rintro ⟨p, h⟩; cases h
    · rintro ⟨pre, hpre, p, h⟩
      have : pre = [] := by simpa using hpre
      subst this; rw [rrun_nil, L.nil] at h; cases h
  | snoc l e ih =>
    constructor
    · rintro ⟨p, h⟩
      cases hl : runE step ⟨.ok none, none⟩ l with
      | error q =>
        obtain ⟨pre, hpre, hq⟩ := ih.1 ⟨q, hl⟩
        exact ⟨pre, hpre.trans (List.prefix_append _ _), hq⟩
      | ok s0 =>
        exact ⟨l ++ [e], List.prefix_refl _, p, (di_run_snoc_error L l e s0 hl p).1 h⟩
    · rintro ⟨pre, hpre, p, h⟩
      rcases List.prefix_concat_iff.1 hpre with rfl | hpre
      · cases hl : runE step ⟨.ok none, none⟩ l with
        | error q => exact ⟨q, runE_snoc_error _ _ _ _ _ hl⟩
        | ok s0 => exact ⟨p, (di_run_snoc_error L l e s0 hl p).2 h⟩
      · obtain ⟨q, hq⟩ := ih.2 ⟨pre, hpre, p, h⟩
        exact ⟨q, runE_snoc_error _ _ _ _ _ hq⟩

/-! ### B. the integral stream -/

/-- one trapezoid, exactly as the code writes it: `Quantity::from(o.time - p.time) * (p.value + o.value) /
Quantity::dimensionless(2.0)` (panics if the two samples' units differ and checking is on) -/
def trapAddend (chk : Bool) (p o : Datum (Quantity F)) : Except Panic (Quantity F) :=
  match Quantity.add chk p.value o.value with
  | .error e => .error e
  | .ok sm => .ok (Quantity.div chk (Quantity.mul chk (Quantity.ofTime chk (o.time - p.time)) sm)
      (Quantity.dimensionless chk c2))

/-- trapezoidal sum of a run given newest-first: nothing for fewer than two samples, otherwise (newest `o`, before
it `p`) `addend(p,o)` for exactly two samples and `addend(p,o) + (sum of the run up to p)` for more — the addend is
the *left* operand of the addition, as in the code.  Carries the newest sample's time. -/
def trapRev (chk : Bool) : List (Datum (Quantity F)) → Except Panic (Option (Datum (Quantity F)))
  | [] => .ok none
  | [_] => .ok none
  | o :: p :: rest =>
    match trapRev chk (p :: rest) with
    | .error e => .error e
    | .ok prevSum =>
      match trapAddend chk p o with
      | .error e => .error e
      | .ok a =>
        match prevSum with
        | none => .ok (some ⟨o.time, a⟩)
        | some r =>
          match Quantity.add chk a r.value with
          | .error e => .error e
          | .ok v => .ok (some ⟨o.time, v⟩)

/-- NON-incremental specification of the integral stream on a run `d₀ … dₙ` (oldest first): absent for `n = 0` or the
empty run; for `n ≥ 1` the time is `dₙ.time` and the value is `aₙ + (aₙ₋₁ + (… + a₁))` with
`aᵢ = ofTime(tᵢ − tᵢ₋₁) * (vᵢ₋₁ + vᵢ) / dimensionless 2` -/
def trapSpec (chk : Bool) (run : List (Datum (Quantity F))) : Except Panic (Option (Datum (Quantity F))) :=
  trapRev chk run.reverse

/-- the specification unfolded: empty and one-sample runs -/
theorem trapSpec_nil (chk : Bool) : trapSpec chk ([] : List (Datum (Quantity F))) = .ok none := rfl
theorem trapSpec_one (chk : Bool) (d : Datum (Quantity F)) : trapSpec chk [d] = .ok none := rfl
/-- two samples: one trapezoid -/
theorem trapSpec_two (chk : Bool) (d₀ d₁ : Datum (Quantity F)) :
    trapSpec chk [d₀, d₁] = match trapAddend chk d₀ d₁ with
      | .error e => .error e
      | .ok a => .ok (some ⟨d₁.time, a⟩) := by
  simp only [trapSpec, List.reverse_cons, List.reverse_nil, List.nil_append, List.cons_append, trapRev]
/-- recurrence: appending a sample `o` after `… p` adds the trapezoid over `(p, o)` on the left of the old sum -/
theorem trapSpec_snoc (chk : Bool) (run : List (Datum (Quantity F))) (q p o : Datum (Quantity F)) :
    trapSpec chk (run ++ [q, p, o]) =
      match trapSpec chk (run ++ [q, p]) with
      | .error e => .error e
      | .ok none => .ok none
      | .ok (some r) =>
        match trapAddend chk p o with
        | .error e => .error e
        | .ok a =>
          match Quantity.add chk a r.value with
          | .error e => .error e
          | .ok v => .ok (some ⟨o.time, v⟩) := by
  have e1 : (run ++ [q, p, o]).reverse = o :: p :: q :: run.reverse := by simp
  have e2 : (run ++ [q, p]).reverse = p :: q :: run.reverse := by simp
  simp only [trapSpec, e1, e2]
  rw [trapRev]
  cases h : trapRev chk (p :: q :: run.reverse) with
  | error e => rfl
  | ok r =>
    cases r with
    | some r => rfl
    | none =>
      exfalso
      rw [trapRev] at h
      cases h1 : trapRev chk (q :: run.reverse) with
      | error e => rw [h1] at h; cases h
      | ok r1 =>
        rw [h1] at h
        cases h2 : trapAddend chk q p with
        | error e => rw [h2] at h; cases h
        | ok a =>
          rw [h2] at h
          cases r1 with
          | none => cases h
          | some r =>
            simp only at h
            cases h3 : Quantity.add chk a r.value with
            | error e => rw [h3] at h; cases h
            | ok v => rw [h3] at h; cases h

theorem integral_laws (chk : Bool) : DiLaws (Integral.step (F := F) chk) (trapRev chk) where
  nil := rfl
  err := fun _ _ => rfl
  absent := fun _ => rfl
  present := by
    intro s rr d ⟨hp, hv⟩
    cases rr with
    | nil =>
      simp only [List.head?_nil] at hp
      simp only [Integral.step, hp, trapRev]
    | cons p rest =>
      obtain ⟨r, hr, hval⟩ := hv (by simp)
      simp only [List.head?_cons] at hp
      simp only [Integral.step, hp, trapRev, hr, trapAddend]
      cases Quantity.add chk p.value d.value with
      | error e => rfl
      | ok sm =>
        simp only [hval]
        cases r with
        | none => rfl
        | some real =>
          simp only
          cases Quantity.add chk (Quantity.div chk (Quantity.mul chk (Quantity.ofTime chk (d.time - p.time)) sm)
            (Quantity.dimensionless chk c2)) real.value <;> rfl

/-- **Integral = trapezoidal sum.**  After any history that did not panic, `get` returns: absent before the first
event; the error if the last event was an error; absent if the last event was absent; otherwise the trapezoidal sum
(non-incremental `trapSpec`) of the run of present samples since the last absent/error event — absent when that run has
one sample, and carrying the newest sample's time. -/
theorem integral_eq_trapsum (chk : Bool) (evs : List (Output (Quantity F))) (s : DiS F)
    (h : runE (Integral.step chk) Integral.init evs = .ok s) :
    ∃ r, trapSpec chk (lastRun evs) = .ok r ∧ Integral.get s = expectedGet evs r := by
  obtain ⟨_, r, hr, hv⟩ := di_run_ok (integral_laws chk) evs s h
  exact ⟨r, by simpa [trapSpec, lastRun] using hr, hv⟩

/-- the previous-sample slot holds the newest sample of the current run (nothing after a reset) -/
theorem integral_prev (chk : Bool) (evs : List (Output (Quantity F))) (s : DiS F)
    (h : runE (Integral.step chk) Integral.init evs = .ok s) : s.prev = (lastRun evs).getLast? := by
  have := (di_run_ok (integral_laws chk) evs s h).1.1
  simpa [lastRun] using this

/-- **Panics.**  Running a history panics exactly when the trapezoidal-sum specification of the current run panics
at some point of the history (i.e. for some prefix). -/
theorem integral_panics_iff (chk : Bool) (evs : List (Output (Quantity F))) :
    (∃ p, runE (Integral.step chk) Integral.init evs = .error p) ↔
      ∃ pre, pre <+: evs ∧ ∃ p, trapSpec chk (lastRun pre) = .error p := by
  have := di_run_panic (integral_laws chk) evs
  simp only [trapSpec, lastRun, List.reverse_reverse]; exact this

/-- `update`'s return value: the error on an error event, `Ok(())` otherwise -/
theorem integral_update_ret (chk : Bool) (s s' : DiS F) (e : Output (Quantity F)) (r : UpdRet)
    (h : Integral.step chk s e = .ok (s', r)) :
    r = match e with | .error x => .error x | .ok _ => .ok () := by
  match e with
  | .error x => simp only [Integral.step, Except.ok.injEq, Prod.mk.injEq] at h; exact h.2.symm
  | .ok none => simp only [Integral.step, Except.ok.injEq, Prod.mk.injEq] at h; exact h.2.symm
  | .ok (some d) =>
    simp only [Integral.step] at h
    split at h
    · simp only [Except.ok.injEq, Prod.mk.injEq] at h; exact h.2.symm
    · split at h
      · cases h
      · split at h
        · split at h
          · cases h
          · simp only [Except.ok.injEq, Prod.mk.injEq] at h; exact h.2.symm
        · simp only [Except.ok.injEq, Prod.mk.injEq] at h; exact h.2.symm

/-! ### C. the derivative stream -/

/-- backward difference quotient of the two newest samples of a run given newest-first -/
def backdiffRev (chk : Bool) : List (Datum (Quantity F)) → Except Panic (Option (Datum (Quantity F)))
  | [] => .ok none
  | [_] => .ok none
  | o :: p :: _ =>
    match Quantity.sub chk o.value p.value with
    | .error e => .error e
    | .ok d => .ok (some ⟨o.time, Quantity.div chk d (Quantity.ofTime chk (o.time - p.time))⟩)

/-- NON-incremental specification of the derivative stream on a run (oldest first): absent with fewer than two
samples, otherwise `(vₙ − vₙ₋₁) / ofTime(tₙ − tₙ₋₁)` at time `tₙ` -/
def backdiffSpec (chk : Bool) (run : List (Datum (Quantity F))) : Except Panic (Option (Datum (Quantity F))) :=
  backdiffRev chk run.reverse

theorem backdiffSpec_nil (chk : Bool) : backdiffSpec chk ([] : List (Datum (Quantity F))) = .ok none := rfl
theorem backdiffSpec_one (chk : Bool) (d : Datum (Quantity F)) : backdiffSpec chk [d] = .ok none := rfl
/-- the specification only looks at the last two samples of the run -/
theorem backdiffSpec_snoc (chk : Bool) (run : List (Datum (Quantity F))) (p o : Datum (Quantity F)) :
    backdiffSpec chk (run ++ [p, o]) =
      match Quantity.sub chk o.value p.value with
      | .error e => .error e
      | .ok d => .ok (some ⟨o.time, Quantity.div chk d (Quantity.ofTime chk (o.time - p.time))⟩) := by
  have e1 : (run ++ [p, o]).reverse = o :: p :: run.reverse := by simp
  simp only [backdiffSpec, e1, backdiffRev]

theorem derivative_laws (chk : Bool) : DiLaws (Derivative.step (F := F) chk) (backdiffRev chk) where
  nil := rfl
  err := fun _ _ => rfl
  absent := fun _ => rfl
  present := by
    intro s rr d ⟨hp, _⟩
    cases rr with
    | nil =>
      simp only [List.head?_nil] at hp
      simp only [Derivative.step, hp, backdiffRev]
    | cons p rest =>
      simp only [List.head?_cons] at hp
      simp only [Derivative.step, hp, backdiffRev]
      cases Quantity.sub chk d.value p.value <;> rfl

/-- **Derivative = backward difference quotient of the last two samples.**  Same shape as `integral_eq_trapsum`. -/
theorem derivative_eq_backdiff (chk : Bool) (evs : List (Output (Quantity F))) (s : DiS F)
    (h : runE (Derivative.step chk) Derivative.init evs = .ok s) :
    ∃ r, backdiffSpec chk (lastRun evs) = .ok r ∧ Derivative.get s = expectedGet evs r := by
  obtain ⟨_, r, hr, hv⟩ := di_run_ok (derivative_laws chk) evs s h
  exact ⟨r, by simpa [backdiffSpec, lastRun] using hr, hv⟩

theorem derivative_prev (chk : Bool) (evs : List (Output (Quantity F))) (s : DiS F)
    (h : runE (Derivative.step chk) Derivative.init evs = .ok s) : s.prev = (lastRun evs).getLast? := by
  have := (di_run_ok (derivative_laws chk) evs s h).1.1
  simpa [lastRun] using this

theorem derivative_panics_iff (chk : Bool) (evs : List (Output (Quantity F))) :
    (∃ p, runE (Derivative.step chk) Derivative.init evs = .error p) ↔
      ∃ pre, pre <+: evs ∧ ∃ p, backdiffSpec chk (lastRun pre) = .error p := by
  have := di_run_panic (derivative_laws chk) evs
  simp only [backdiffSpec, lastRun, List.reverse_reverse]; exact this

theorem derivative_update_ret (chk : Bool) (s s' : DiS F) (e : Output (Quantity F)) (r : UpdRet)
    (h : Derivative.step chk s e = .ok (s', r)) :
    r = match e with | .error x => .error x | .ok _ => .ok () := by
  match e with
  | .error x => simp only [Derivative.step, Except.ok.injEq, Prod.mk.injEq] at h; exact h.2.symm
  | .ok none => simp only [Derivative.step, Except.ok.injEq, Prod.mk.injEq] at h; exact h.2.symm
  | .ok (some d) =>
    simp only [Derivative.step] at h
    split at h
    · simp only [Except.ok.injEq, Prod.mk.injEq] at h; exact h.2.symm
    · split at h
      · cases h
      · simp only [Except.ok.injEq, Prod.mk.injEq] at h; exact h.2.symm

/-- outputs carry the newest sample's time (both streams) -/
theorem trapSpec_time (chk : Bool) (run : List (Datum (Quantity F))) (r : Datum (Quantity F))
    (h : trapSpec chk run = .ok (some r)) : ∃ dn, run.getLast? = some dn ∧ r.time = dn.time := by
  unfold trapSpec at h
  rw [← List.head?_reverse]
  match hrr : run.reverse with
  | [] => rw [hrr] at h; cases h
  | [_] => rw [hrr] at h; cases h
  | o :: p :: rest =>
    rw [hrr, trapRev] at h
    refine ⟨o, rfl, ?_⟩
    split at h
    · cases h
    · split at h
      · cases h
      · split at h
        · cases h; rfl
        · split at h
          · cases h
          · cases h; rfl

theorem backdiffSpec_time (chk : Bool) (run : List (Datum (Quantity F))) (r : Datum (Quantity F))
    (h : backdiffSpec chk run = .ok (some r)) : ∃ dn, run.getLast? = some dn ∧ r.time = dn.time := by
  unfold backdiffSpec at h
  rw [← List.head?_reverse]
  match hrr : run.reverse with
  | [] => rw [hrr] at h; cases h
  | [_] => rw [hrr] at h; cases h
  | o :: p :: rest =>
    rw [hrr, backdiffRev] at h
    refine ⟨o, rfl, ?_⟩
    split at h
    · cases h
    · cases h; rfl

/-- absent until two samples exist; present (if no panic) from two samples on -/
theorem trapSpec_none_iff (chk : Bool) (run : List (Datum (Quantity F))) :
    trapSpec chk run = .ok none ↔ run.length < 2 := by
  unfold trapSpec
  rw [← List.length_reverse]
  match run.reverse with
  | [] => simp [trapRev]
  | [_] => simp [trapRev]
  | o :: p :: rest =>
    simp only [trapRev, List.length_cons]
    constructor
    · intro h
      split at h
      · cases h
      · split at h
        · cases h
        · split at h
          · cases h
          · split at h <;> cases h
    · intro h; omega

theorem backdiffSpec_none_iff (chk : Bool) (run : List (Datum (Quantity F))) :
    backdiffSpec chk run = .ok none ↔ run.length < 2 := by
  unfold backdiffSpec
  rw [← List.length_reverse]
  match run.reverse with
  | [] => simp [backdiffRev]
  | [_] => simp [backdiffRev]
  | o :: p :: rest =>
    simp only [backdiffRev, List.length_cons]
    constructor
    · intro h
      split at h <;> cases h
    · intro h; omega

/-! ## F. invariance under a constant shift of all timestamps (tier S: `dt` is formed in `Int`) -/

/-- shift a datum's / an event's timestamp by `c` nanoseconds -/
def shiftDatum {α : Type} (c : Int) (d : Datum α) : Datum α := ⟨d.time + c, d.value⟩
def shiftOut {α : Type} (c : Int) : Output α → Output α
  | .ok (some d) => .ok (some (shiftDatum c d))
  | .ok none => .ok none
  | .error e => .error e
/-- shift every sample of a history -/
def shiftHist {α : Type} (c : Int) (evs : List (Output α)) : List (Output α) := evs.map (shiftOut c)
/-- induced shift on the integral/derivative state -/
def shiftDiS (c : Int) (s : DiS F) : DiS F := ⟨shiftOut c s.value, s.prev.map (shiftDatum c)⟩

/-- a step function commuting with maps on states and inputs gives runs that commute -/
theorem runE_map {S I : Type} (step : S → I → Except Panic (S × UpdRet)) (fS : S → S) (fI : I → I)
    (hstep : ∀ s e, step (fS s) (fI e) = match step s e with
      | .error p => .error p
      | .ok (s', r) => .ok (fS s', r))
    (s : S) (evs : List I) : runE step (fS s) (evs.map fI) = (runE step s evs).map fS := by
  induction evs generalizing s with
  | nil => rfl
  | cons e es ih =>
    simp only [List.map_cons, runE, hstep]
    cases step s e with
    | error p => rfl
    | ok r => cases r with | mk s' u => exact ih s'

theorem integral_step_shift (chk : Bool) (c : Int) (s : DiS F) (e : Output (Quantity F)) :
    Integral.step chk (shiftDiS c s) (shiftOut c e) = match Integral.step chk s e with
      | .error p => .error p
      | .ok (s', r) => .ok (shiftDiS c s', r) := by
  match e with
  | .error x => rfl
  | .ok none => rfl
  | .ok (some d) =>
    cases hp : s.prev with
    | none => simp [Integral.step, shiftDiS, shiftOut, hp, shiftDatum]
    | some p =>
      have ht : d.time + c - (p.time + c) = d.time - p.time := by omega
      simp only [Integral.step, shiftDiS, shiftOut, hp, shiftDatum, Option.map, ht]
      cases Quantity.add chk p.value d.value with
      | error q => rfl
      | ok sm =>
        simp only
        match s.value with
        | .error x => rfl
        | .ok none => rfl
        | .ok (some real) =>
          simp only [shiftOut, shiftDatum]
          cases Quantity.add chk (Quantity.div chk (Quantity.mul chk (Quantity.ofTime chk (d.time - p.time)) sm)
            (Quantity.dimensionless chk c2)) real.value <;> rfl

theorem derivative_step_shift (chk : Bool) (c : Int) (s : DiS F) (e : Output (Quantity F)) :
    Derivative.step chk (shiftDiS c s) (shiftOut c e) = match Derivative.step chk s e with
      | .error p => .error p
      | .ok (s', r) => .ok (shiftDiS c s', r) := by
  match e with
  | .error x => rfl
  | .ok none => rfl
  | .ok (some d) =>
    cases hp : s.prev with
    | none => simp [Derivative.step, shiftDiS, shiftOut, hp, shiftDatum]
    | some p =>
      have ht : d.time + c - (p.time + c) = d.time - p.time := by omega
      simp only [Derivative.step, shiftDiS, shiftOut, hp, shiftDatum, Option.map, ht]
      cases Quantity.sub chk d.value p.value <;> rfl

/-- **Shift invariance, integral.**  Shifting every timestamp of a history by `c` gives the same run with all
stored times shifted by `c` (values bit-identical), including the same panics. -/
theorem integral_shift_invariant (chk : Bool) (c : Int) (evs : List (Output (Quantity F))) :
    runE (Integral.step chk) Integral.init (shiftHist c evs) =
      (runE (Integral.step chk) Integral.init evs).map (shiftDiS c) :=
  runE_map (Integral.step chk) (shiftDiS c) (shiftOut c) (integral_step_shift (F := F) chk c) Integral.init evs

theorem derivative_shift_invariant (chk : Bool) (c : Int) (evs : List (Output (Quantity F))) :
    runE (Derivative.step chk) Derivative.init (shiftHist c evs) =
      (runE (Derivative.step chk) Derivative.init evs).map (shiftDiS c) :=
  runE_map (Derivative.step chk) (shiftDiS c) (shiftOut c) (derivative_step_shift (F := F) chk c) Derivative.init evs

/-- `get` commutes with the shift -/
theorem integral_get_shift (c : Int) (s : DiS F) : Integral.get (shiftDiS c s) = shiftOut c (Integral.get s) := rfl
theorem derivative_get_shift (c : Int) (s : DiS F) :
    Derivative.get (shiftDiS c s) = shiftOut c (Derivative.get s) := rfl

/-- hence: the observable output after a shifted history is the shifted output -/
theorem integral_output_shift (chk : Bool) (c : Int) (evs : List (Output (Quantity F))) :
    (runE (Integral.step chk) Integral.init (shiftHist c evs)).map Integral.get =
      (runE (Integral.step chk) Integral.init evs).map (fun s => shiftOut c (Integral.get s)) := by
  rw [integral_shift_invariant]
  cases runE (Integral.step chk) Integral.init evs <;> rfl
theorem derivative_output_shift (chk : Bool) (c : Int) (evs : List (Output (Quantity F))) :
    (runE (Derivative.step chk) Derivative.init (shiftHist c evs)).map Derivative.get =
      (runE (Derivative.step chk) Derivative.init evs).map (fun s => shiftOut c (Derivative.get s)) := by
  rw [derivative_shift_invariant]
  cases runE (Derivative.step chk) Derivative.init evs <;> rfl

end S

end Rrtk.Thm.C10
