/-
C11 — `CommandPID`: the staged PID-with-integration computation equals a non-incremental (textbook) specification;
set / reset / absent / error / follow semantics.
Tier S throughout: `F` is arbitrary (no algebraic laws), timestamps are `Int`.  Nothing here assumes that the
timestamps increase: every statement holds for every finite sequence of samples / events.
-/
import Rrtk.Core
import Rrtk.Streams.Stateful
set_option linter.unusedSectionVars false
set_option linter.unusedSimpArgs false
namespace Rrtk.Thm.C11
open Rrtk

/-- `Int` as a scalar, used only by the non-vacuity `example`s below (`/` is integer division, so the example
timestamps are multiples of 2·10⁹ ns) -/
local instance : FloatLike Int := ⟨fun n => n, fun n => n, fun _ _ => 1, fun n => n.natAbs⟩

section S
variable {F : Type} [Add F] [Sub F] [Mul F] [Div F] [Neg F] [LT F] [LE F] [BEq F]
  [DecidableLT F] [DecidableLE F] [FloatLike F]

/-! ### event alphabet -/

/-- One thing that can happen to a `CommandPID`. -/
inductive Ev (F : Type) where
  /-- one `update()`: `o` is what the input getter returns, `fol` what the followed command getter returns
  (`none` = not following anything) -/
  | input (o : Output (State F)) (fol : Option (Output (Command F)))
  /-- `Settable::set(c)` -/
  | set (c : Command F)
  /-- `reset()` -/
  | reset

/-- state after an event -/
def applyEv (chk : Bool) (k : PIDK3 F) (s : CpidS F) : Ev F → CpidS F
  | .input o fol => (Cpid.step chk k s fol o).1
  | .set c => Cpid.set s c
  | .reset => Cpid.reset s

/-- what the call returns (`set` and `reset` cannot fail) -/
def retEv (chk : Bool) (k : PIDK3 F) (s : CpidS F) : Ev F → UpdRet
  | .input o fol => (Cpid.step chk k s fol o).2
  | .set _ => .ok ()
  | .reset => .ok ()

def run (chk : Bool) (k : PIDK3 F) (s : CpidS F) (evs : List (Ev F)) : CpidS F :=
  evs.foldl (applyEv chk k) s

/-- feeding a run of present samples (oldest first), not following -/
def feed (chk : Bool) (k : PIDK3 F) (s : CpidS F) (xs : List (Datum (State F))) : CpidS F :=
  xs.foldl (fun s x => (Cpid.stepInput chk k s (.ok (some x))).1) s

/-- "fresh": just constructed / reset / after an absent input / after a differing `set`, or holding an input error -/
def Fresh (s : CpidS F) : Prop := s.us = .ok none ∨ ∃ e, s.us = .error e

/-! ### A. the non-incremental specification

All functions below take the history of samples **newest first** (`x :: p :: …`: `x` is the current sample `xᵢ`,
`p` the previous one `xᵢ₋₁`).  For a run `xs` given oldest first the history is `xs.reverse`. -/

/-- `eᵢ = r − (component of xᵢ matching the command kind)` -/
def err (chk : Bool) (c : Command F) (x : Datum (State F)) : F :=
  c.raw - (x.value.getValue chk c.kind).value

/-- `dtᵢ = secs (tᵢ − tᵢ₋₁)`; the difference is formed in `Int` (nanoseconds) -/
def dts (x p : Datum (State F)) : F := secs (x.time - p.time)

/-- `I₀ = 0`, `I₁ = (e₀+e₁)/2·dt₁`, `Iᵢ = Iᵢ₋₁ + (eᵢ₋₁+eᵢ)/2·dtᵢ` -/
def errInt (chk : Bool) (c : Command F) : List (Datum (State F)) → F
  | [] => c0
  | [_] => c0
  | [x, p] => (err chk c p + err chk c x) / c2 * dts x p
  | x :: p :: q :: r => errInt chk c (p :: q :: r) + (err chk c p + err chk c x) / c2 * dts x p

/-- `D₀ = 0`, `Dᵢ = (eᵢ − eᵢ₋₁)/dtᵢ` -/
def errDrv (chk : Bool) (c : Command F) : List (Datum (State F)) → F
  | x :: p :: _ => (err chk c x - err chk c p) / dts x p
  | _ => c0

/-- `uᵢ = evaluate κ eᵢ Iᵢ Dᵢ` -/
def ctl (chk : Bool) (k : PIDK3 F) (c : Command F) : List (Datum (State F)) → F
  | [] => c0
  | x :: r => k.evaluate c.kind (err chk c x) (errInt chk c (x :: r)) (errDrv chk c (x :: r))

/-- `U₁ = (u₀+u₁)/2·dt₁`, `Uᵢ = Uᵢ₋₁ + (uᵢ₋₁+uᵢ)/2·dtᵢ` (meaningful from two samples on) -/
def ctlInt (chk : Bool) (k : PIDK3 F) (c : Command F) : List (Datum (State F)) → F
  | [] => c0
  | [_] => c0
  | [x, p] => (ctl chk k c [p] + ctl chk k c [x, p]) / c2 * dts x p
  | x :: p :: q :: r =>
    ctlInt chk k c (p :: q :: r) + (ctl chk k c (p :: q :: r) + ctl chk k c (x :: p :: q :: r)) / c2 * dts x p

/-- `W₂ = (U₁+U₂)/2·dt₂`, `Wᵢ = Wᵢ₋₁ + (Uᵢ₋₁+Uᵢ)/2·dtᵢ` (meaningful from three samples on) -/
def ctlIntInt (chk : Bool) (k : PIDK3 F) (c : Command F) : List (Datum (State F)) → F
  | [x, p, q] => (ctlInt chk k c [p, q] + ctlInt chk k c [x, p, q]) / c2 * dts x p
  | x :: p :: q :: r :: t =>
    ctlIntInt chk k c (p :: q :: r :: t) +
      (ctlInt chk k c (p :: q :: r :: t) + ctlInt chk k c (x :: p :: q :: r :: t)) / c2 * dts x p
  | _ => c0

/-- the specified output after the history `h` (newest first) under command `c` -/
def specOut (chk : Bool) (k : PIDK3 F) (c : Command F) : List (Datum (State F)) → Output F
  | [] => .ok none
  | x :: r =>
    match c.kind with
    | .position => .ok (some ⟨x.time, ctl chk k c (x :: r)⟩)
    | .velocity => if 2 ≤ (x :: r).length then .ok (some ⟨x.time, ctlInt chk k c (x :: r)⟩) else .ok none
    | .acceleration => if 3 ≤ (x :: r).length then .ok (some ⟨x.time, ctlIntInt chk k c (x :: r)⟩) else .ok none

/-- the specified internal record after the history `h` (the invariant of the induction) -/
def specU0 (chk : Bool) (k : PIDK3 F) (c : Command F) : List (Datum (State F)) → Option (CpU0 F)
  | [] => none
  | [x] => some ⟨x.time, ctl chk k c [x], err chk c x, none⟩
  | [x, p] => some ⟨x.time, ctl chk k c [x, p], err chk c x,
      some ⟨ctlInt chk k c [x, p], errInt chk c [x, p], none⟩⟩
  | x :: p :: q :: r => some ⟨x.time, ctl chk k c (x :: p :: q :: r), err chk c x,
      some ⟨ctlInt chk k c (x :: p :: q :: r), errInt chk c (x :: p :: q :: r),
        some (ctlIntInt chk k c (x :: p :: q :: r))⟩⟩

/-- first present sample from a fresh state -/
theorem step_fresh (chk : Bool) (k : PIDK3 F) (s : CpidS F) (hs : Fresh s) (x : Datum (State F)) :
    Cpid.stepInput chk k s (.ok (some x)) = ({ s with us := .ok (specU0 chk k s.command [x]) }, .ok ()) := by
  rcases hs with h | ⟨e, h⟩ <;>
    simp only [Cpid.stepInput, h, specU0, ctl, err, errInt, errDrv]

/-- a further present sample: the record for history `l` becomes the record for `x :: l` -/
theorem step_spec (chk : Bool) (k : PIDK3 F) (s : CpidS F) (l : List (Datum (State F))) (hl : l ≠ [])
    (h : s.us = .ok (specU0 chk k s.command l)) (x : Datum (State F)) :
    Cpid.stepInput chk k s (.ok (some x)) = ({ s with us := .ok (specU0 chk k s.command (x :: l)) }, .ok ()) := by
  match l, hl with
  | [p], _ =>
    simp only [specU0] at h
    simp only [Cpid.stepInput, h, specU0, ctl, err, errInt, errDrv, ctlInt, dts]
  | [p, q], _ =>
    simp only [specU0] at h
    simp only [Cpid.stepInput, h, specU0, ctl, err, errInt, errDrv, ctlInt, ctlIntInt, dts]
  | p :: q :: r :: t, _ =>
    simp only [specU0] at h
    simp only [Cpid.stepInput, h, specU0, ctl, err, errInt, errDrv, ctlInt, ctlIntInt, dts]

/-! bookkeeping: `stepInput` never touches `command` or `lastRequest` -/
theorem stepInput_command (chk : Bool) (k : PIDK3 F) (s : CpidS F) (inp : Output (State F)) :
    (Cpid.stepInput chk k s inp).1.command = s.command := by
  simp only [Cpid.stepInput]
  split
  · rfl
  · rfl
  · split
    · split <;> rfl
    · rfl

theorem stepInput_lastRequest (chk : Bool) (k : PIDK3 F) (s : CpidS F) (inp : Output (State F)) :
    (Cpid.stepInput chk k s inp).1.lastRequest = s.lastRequest := by
  simp only [Cpid.stepInput]
  split
  · rfl
  · rfl
  · split
    · split <;> rfl
    · rfl

theorem feed_snoc (chk : Bool) (k : PIDK3 F) (s : CpidS F) (xs : List (Datum (State F))) (x : Datum (State F)) :
    feed chk k s (xs ++ [x]) = (Cpid.stepInput chk k (feed chk k s xs) (.ok (some x))).1 := by
  simp [feed, List.foldl_append]

/-- `feed` is `run` on the corresponding events -/
theorem feed_eq_run (chk : Bool) (k : PIDK3 F) (s : CpidS F) (xs : List (Datum (State F))) :
    feed chk k s xs = run chk k s (xs.map fun x => Ev.input (.ok (some x)) none) := by
  induction xs generalizing s with
  | nil => rfl
  | cons x xs ih => simp only [feed, List.foldl_cons, List.map_cons, run, applyEv, Cpid.step] at ih ⊢; exact ih _

/-- **Invariant of the main theorem.**  After the samples `h.reverse` (oldest first) from a fresh state, the whole
state is the initial one with the internal record replaced by the specified record for the history `h`. -/
theorem cpid_state_eq_spec (chk : Bool) (k : PIDK3 F) (s : CpidS F) (hs : Fresh s)
    (h : List (Datum (State F))) (hne : h ≠ []) :
    feed chk k s h.reverse = { s with us := .ok (specU0 chk k s.command h) } := by
  induction h with
  | nil => exact absurd rfl hne
  | cons x l ih =>
    by_cases hl : l = []
    · subst hl
      simp only [List.reverse_cons, List.reverse_nil, List.nil_append, feed, List.foldl_cons, List.foldl_nil]
      rw [step_fresh chk k s hs x]
    · rw [List.reverse_cons, feed_snoc, ih hl]
      rw [step_spec chk k { s with us := .ok (specU0 chk k s.command l) } l hl rfl x]

/-- reading the specified record gives the specified output -/
theorem get_specU0 (chk : Bool) (k : PIDK3 F) (c : Command F) (lr : Option (Command F))
    (h : List (Datum (State F))) :
    Cpid.get ⟨c, .ok (specU0 chk k c h), lr⟩ = specOut chk k c h := by
  match h with
  | [] => rfl
  | [x] => simp only [Cpid.get, specU0, specOut]; cases c.kind <;> simp
  | [x, p] => simp only [Cpid.get, specU0, specOut]; cases c.kind <;> simp
  | x :: p :: q :: r => simp only [Cpid.get, specU0, specOut]; cases c.kind <;> simp

/-- **C11, main theorem.**  From any fresh state (after construction, `reset`, an absent input, a differing `set`,
or while an input error is cached), after a non-empty run `xs` of present samples (oldest first) the getter returns
exactly the specified output for the history `xs.reverse`: `uₙ` / `Uₙ` / `Wₙ` stamped with the time of the newest
sample, or nothing while `U`/`W` are not yet defined. -/
theorem cpid_eq_spec (chk : Bool) (k : PIDK3 F) (s : CpidS F) (hs : Fresh s)
    (xs : List (Datum (State F))) (hne : xs ≠ []) :
    Cpid.get (feed chk k s xs) = specOut chk k s.command xs.reverse := by
  have h := cpid_state_eq_spec chk k s hs xs.reverse (by simpa using hne)
  rw [List.reverse_reverse] at h
  rw [h]
  exact get_specU0 chk k s.command s.lastRequest xs.reverse

/-- position command: `uₙ` from the very first sample -/
theorem cpid_eq_spec_position (chk : Bool) (k : PIDK3 F) (s : CpidS F) (hs : Fresh s)
    (hk : s.command.kind = .position) (xs : List (Datum (State F))) (x : Datum (State F)) :
    Cpid.get (feed chk k s (xs ++ [x])) = .ok (some ⟨x.time, ctl chk k s.command (x :: xs.reverse)⟩) := by
  rw [cpid_eq_spec chk k s hs (xs ++ [x]) (by simp)]
  simp [specOut, hk]

/-- velocity command: nothing after one sample, `Uₙ` from the second sample on -/
theorem cpid_eq_spec_velocity (chk : Bool) (k : PIDK3 F) (s : CpidS F) (hs : Fresh s)
    (hk : s.command.kind = .velocity) :
    (∀ x : Datum (State F), Cpid.get (feed chk k s [x]) = .ok none) ∧
    (∀ (xs : List (Datum (State F))) (p x : Datum (State F)),
      Cpid.get (feed chk k s (xs ++ [p, x])) =
        .ok (some ⟨x.time, ctlInt chk k s.command (x :: p :: xs.reverse)⟩)) := by
  constructor
  · intro x
    rw [cpid_eq_spec chk k s hs [x] (by simp)]
    simp [specOut, hk]
  · intro xs p x
    rw [cpid_eq_spec chk k s hs (xs ++ [p, x]) (by simp)]
    simp [specOut, hk]

/-- acceleration command: nothing after one or two samples, `Wₙ` from the third sample on -/
theorem cpid_eq_spec_acceleration (chk : Bool) (k : PIDK3 F) (s : CpidS F) (hs : Fresh s)
    (hk : s.command.kind = .acceleration) :
    (∀ x : Datum (State F), Cpid.get (feed chk k s [x]) = .ok none) ∧
    (∀ p x : Datum (State F), Cpid.get (feed chk k s [p, x]) = .ok none) ∧
    (∀ (xs : List (Datum (State F))) (q p x : Datum (State F)),
      Cpid.get (feed chk k s (xs ++ [q, p, x])) =
        .ok (some ⟨x.time, ctlIntInt chk k s.command (x :: p :: q :: xs.reverse)⟩)) := by
  refine ⟨?_, ?_, ?_⟩
  · intro x
    rw [cpid_eq_spec chk k s hs [x] (by simp)]
    simp [specOut, hk]
  · intro p x
    rw [cpid_eq_spec chk k s hs [p, x] (by simp)]
    simp [specOut, hk]
  · intro xs q p x
    rw [cpid_eq_spec chk k s hs (xs ++ [q, p, x]) (by simp)]
    simp [specOut, hk]

/-- the output is never an error during a run of present samples, and is stamped with the newest sample's time -/
theorem cpid_run_output_time (chk : Bool) (k : PIDK3 F) (s : CpidS F) (hs : Fresh s)
    (xs : List (Datum (State F))) (x : Datum (State F)) :
    Cpid.get (feed chk k s (xs ++ [x])) = .ok none ∨
      ∃ v, Cpid.get (feed chk k s (xs ++ [x])) = .ok (some ⟨x.time, v⟩) := by
  rw [cpid_eq_spec chk k s hs (xs ++ [x]) (by simp)]
  simp only [List.reverse_append, List.reverse_cons, List.reverse_nil, List.nil_append, List.cons_append, specOut]
  cases s.command.kind <;> simp only [] <;> (try split) <;> simp

/-- position: absent for exactly the first 0 samples — present after every non-empty run -/
theorem cpid_absent_prefix_position (chk : Bool) (k : PIDK3 F) (s : CpidS F) (hs : Fresh s)
    (hk : s.command.kind = .position) (xs : List (Datum (State F))) (hne : xs ≠ []) :
    Cpid.get (feed chk k s xs) ≠ .ok none ∧ ∃ d, Cpid.get (feed chk k s xs) = .ok (some d) := by
  rw [cpid_eq_spec chk k s hs xs hne]
  cases hr : xs.reverse with
  | nil => exact absurd (by simpa using hr) hne
  | cons x r => simp [specOut, hk]

/-- velocity: absent for exactly the first sample — after `n ≥ 1` samples the output is absent iff `n = 1`,
and present otherwise -/
theorem cpid_absent_prefix_velocity (chk : Bool) (k : PIDK3 F) (s : CpidS F) (hs : Fresh s)
    (hk : s.command.kind = .velocity) (xs : List (Datum (State F))) (hne : xs ≠ []) :
    (Cpid.get (feed chk k s xs) = .ok none ↔ xs.length = 1) ∧
    ((∃ d, Cpid.get (feed chk k s xs) = .ok (some d)) ↔ 2 ≤ xs.length) := by
  rw [cpid_eq_spec chk k s hs xs hne]
  have hlen : xs.reverse.length = xs.length := List.length_reverse
  cases hr : xs.reverse with
  | nil => exact absurd (by simpa using hr) hne
  | cons x r =>
    rw [hr] at hlen
    simp only [specOut, hk, hlen]
    simp only [List.length_cons] at hlen
    by_cases h2 : 2 ≤ xs.length
    · simp [h2]; omega
    · simp [h2]; omega

/-- acceleration: absent for exactly the first two samples -/
theorem cpid_absent_prefix_acceleration (chk : Bool) (k : PIDK3 F) (s : CpidS F) (hs : Fresh s)
    (hk : s.command.kind = .acceleration) (xs : List (Datum (State F))) (hne : xs ≠ []) :
    (Cpid.get (feed chk k s xs) = .ok none ↔ xs.length ≤ 2) ∧
    ((∃ d, Cpid.get (feed chk k s xs) = .ok (some d)) ↔ 3 ≤ xs.length) := by
  rw [cpid_eq_spec chk k s hs xs hne]
  have hlen : xs.reverse.length = xs.length := List.length_reverse
  cases hr : xs.reverse with
  | nil => exact absurd (by simpa using hr) hne
  | cons x r =>
    rw [hr] at hlen
    simp only [specOut, hk, hlen]
    by_cases h3 : 3 ≤ xs.length
    · simp [h3]; omega
    · simp [h3]; omega

/-! non-vacuity / concrete instances for part A (payloads in `Int`) -/
def exK : PIDK3 Int := ⟨⟨1, 2, 3⟩, ⟨2, 1, 4⟩, ⟨3, 1, 2⟩⟩
def exXs : List (Datum (State Int)) :=
  [⟨0, ⟨1, 2, 3⟩⟩, ⟨2000000000, ⟨3, 4, 1⟩⟩, ⟨4000000000, ⟨6, 5, 2⟩⟩, ⟨6000000000, ⟨8, 9, 4⟩⟩]
example : Fresh (Cpid.init (.position (10 : Int))) := .inl rfl
example : Fresh (⟨.velocity (10 : Int), .error (.other 3), none⟩ : CpidS Int) := .inr ⟨_, rfl⟩
example : exXs ≠ [] := by decide
example : (Cpid.init (.position (10 : Int))).command.kind = .position := rfl
example : (Cpid.init (.velocity (10 : Int))).command.kind = .velocity := rfl
example : (Cpid.init (.acceleration (10 : Int))).command.kind = .acceleration := rfl
/-- hypotheses of `step_spec` hold after the first sample -/
example : (Cpid.stepInput true exK (Cpid.init (.velocity 10)) (.ok (some ⟨0, ⟨1, 2, 3⟩⟩))).1.us =
    .ok (specU0 true exK (.velocity 10) [⟨0, ⟨1, 2, 3⟩⟩]) := rfl
/-- position: e = 9,7,4,2; dt = 2; I₃ = 32, D₃ = −1, u₃ = 1·2 + 2·32 + 3·(−1) = 63 -/
example : Cpid.get (feed true exK (Cpid.init (.position 10)) exXs) = .ok (some ⟨6000000000, 63⟩) := by rfl
example : specOut true exK (.position 10) exXs.reverse = .ok (some ⟨6000000000, 63⟩) := by rfl
example : Cpid.get (feed true exK (Cpid.init (.velocity 10)) exXs) = .ok (some ⟨6000000000, 144⟩) := by rfl
example : specOut true exK (.velocity 10) exXs.reverse = .ok (some ⟨6000000000, 144⟩) := by rfl
example : Cpid.get (feed true exK (Cpid.init (.acceleration 10)) exXs) = .ok (some ⟨6000000000, 674⟩) := by rfl
example : specOut true exK (.acceleration 10) exXs.reverse = .ok (some ⟨6000000000, 674⟩) := by rfl
example : Cpid.get (feed true exK (Cpid.init (.acceleration 10)) (exXs.take 2)) = .ok none := by rfl
example : Cpid.get (feed true exK (Cpid.init (.velocity 10)) (exXs.take 1)) = .ok none := by rfl

/-! ### B. `set` -/

/-- `lastRequest` is write-only for `update`: changing it commutes with `stepInput` -/
theorem stepInput_setLR (chk : Bool) (k : PIDK3 F) (s : CpidS F) (l : Option (Command F)) (inp : Output (State F)) :
    Cpid.stepInput chk k { s with lastRequest := l } inp =
      ({ (Cpid.stepInput chk k s inp).1 with lastRequest := l }, (Cpid.stepInput chk k s inp).2) := by
  cases s with
  | mk c u lr =>
  cases inp with
  | error e => rfl
  | ok o =>
    cases o with
    | none => rfl
    | some x =>
      cases u with
      | error e => rfl
      | ok ou =>
        cases ou with
        | none => rfl
        | some u0 =>
          cases u0 with
          | mk t o e u1 => cases u1 <;> rfl

theorem set_setLR (s : CpidS F) (l : Option (Command F)) (c : Command F) :
    Cpid.set { s with lastRequest := l } c = Cpid.set s c := by
  simp only [Cpid.set]; split <;> rfl

theorem get_setLR (s : CpidS F) (l : Option (Command F)) : Cpid.get { s with lastRequest := l } = Cpid.get s := rfl

/-- Setting a command equal (w.r.t. the derived `PartialEq`, `Command.beq`) to the current one changes nothing but
the recorded last request: internal record and command are untouched. -/
theorem cpid_set_same_noop (s : CpidS F) (c : Command F) (h : Command.beq c s.command = true) :
    Cpid.set s c = { s with lastRequest := some c } ∧
    (Cpid.set s c).us = s.us ∧ (Cpid.set s c).command = s.command ∧ Cpid.get (Cpid.set s c) = Cpid.get s := by
  have : Cpid.set s c = { s with lastRequest := some c } := by simp [Cpid.set, h]
  rw [this]; exact ⟨rfl, rfl, rfl, rfl⟩

/-- one event from two states differing only in `lastRequest`: same return value, and the successor states again
differ only in `lastRequest` -/
theorem applyEv_setLR (chk : Bool) (k : PIDK3 F) (s : CpidS F) (l : Option (Command F)) (ev : Ev F) :
    retEv chk k { s with lastRequest := l } ev = retEv chk k s ev ∧
    ∃ l', applyEv chk k { s with lastRequest := l } ev = { applyEv chk k s ev with lastRequest := l' } := by
  cases ev with
  | set c => exact ⟨rfl, some c, by simp only [applyEv, set_setLR]; simp [Cpid.set]⟩
  | reset => exact ⟨rfl, l, rfl⟩
  | input o fol =>
    cases fol with
    | none => simp only [retEv, applyEv, Cpid.step, stepInput_setLR]; exact ⟨trivial, l, rfl⟩
    | some f =>
      cases f with
      | error e => exact ⟨rfl, l, rfl⟩
      | ok od =>
        cases od with
        | none => simp only [retEv, applyEv, Cpid.step, stepInput_setLR]; exact ⟨trivial, l, rfl⟩
        | some d => simp only [retEv, applyEv, Cpid.step, set_setLR]; exact ⟨trivial, _, rfl⟩

/-- the whole future (every later output and every later return value) is independent of `lastRequest` -/
theorem cpid_lastRequest_irrelevant (chk : Bool) (k : PIDK3 F) (evs : List (Ev F)) :
    ∀ (s : CpidS F) (l : Option (Command F)),
      ∃ l', run chk k { s with lastRequest := l } evs = { run chk k s evs with lastRequest := l' } := by
  induction evs with
  | nil => intro s l; exact ⟨l, rfl⟩
  | cons ev evs ih =>
    intro s l
    obtain ⟨l', h'⟩ := (applyEv_setLR chk k s l ev).2
    simp only [run, List.foldl_cons] at ih ⊢
    rw [h']
    exact ih _ l'

/-- … hence setting an equal command leaves every later output unchanged, whatever happens afterwards, and the
return value of every later call too. -/
theorem cpid_set_same_later_outputs (chk : Bool) (k : PIDK3 F) (s : CpidS F) (c : Command F)
    (h : Command.beq c s.command = true) (evs : List (Ev F)) :
    Cpid.get (run chk k (Cpid.set s c) evs) = Cpid.get (run chk k s evs) ∧
    ∀ ev, retEv chk k (run chk k (Cpid.set s c) evs) ev = retEv chk k (run chk k s evs) ev := by
  rw [(cpid_set_same_noop s c h).1]
  obtain ⟨l', h'⟩ := cpid_lastRequest_irrelevant chk k evs s (some c)
  rw [h']
  exact ⟨rfl, fun ev => (applyEv_setLR chk k _ l' ev).1⟩

/-- Setting a different command (`Command.beq` false — includes NaN payloads, which differ from themselves) makes the
state fresh with the new command: the output is absent right away and the following samples are processed as after
construction with `c` (main theorem). -/
theorem cpid_set_diff_restarts (chk : Bool) (k : PIDK3 F) (s : CpidS F) (c : Command F)
    (h : Command.beq c s.command = false) :
    Cpid.set s c = ⟨c, .ok none, some c⟩ ∧ Fresh (Cpid.set s c) ∧ Cpid.get (Cpid.set s c) = .ok none ∧
    ∀ xs : List (Datum (State F)), xs ≠ [] →
      Cpid.get (feed chk k (Cpid.set s c) xs) = specOut chk k c xs.reverse := by
  have : Cpid.set s c = ⟨c, .ok none, some c⟩ := by simp [Cpid.set, h]
  rw [this]
  refine ⟨rfl, .inl rfl, rfl, fun xs hne => ?_⟩
  exact cpid_eq_spec chk k ⟨c, .ok none, some c⟩ (.inl rfl) xs hne

/-- after `set c` the recorded request is `c`, in both cases -/
theorem set_lastRequest (s : CpidS F) (c : Command F) : (Cpid.set s c).lastRequest = some c := rfl

/-- `reset` is a fresh start with the same command -/
theorem cpid_reset_restarts (chk : Bool) (k : PIDK3 F) (s : CpidS F) :
    Cpid.reset s = { s with us := .ok none } ∧ Fresh (Cpid.reset s) ∧ Cpid.get (Cpid.reset s) = .ok none ∧
    ∀ xs : List (Datum (State F)), xs ≠ [] →
      Cpid.get (feed chk k (Cpid.reset s) xs) = specOut chk k s.command xs.reverse :=
  ⟨rfl, .inl rfl, rfl, fun xs hne => cpid_eq_spec chk k (Cpid.reset s) (.inl rfl) xs hne⟩

/-- a newly constructed controller is fresh -/
theorem cpid_init_fresh (c : Command F) : Fresh (Cpid.init c) ∧ Cpid.get (Cpid.init c) = .ok none := ⟨.inl rfl, rfl⟩

/-! non-vacuity for part B -/
example : Command.beq (.velocity (10 : Int)) (Cpid.init (.velocity (10 : Int))).command = true := by decide
example : Command.beq (.velocity (11 : Int)) (Cpid.init (.velocity (10 : Int))).command = false := by decide
example : Command.beq (.position (10 : Int)) (Cpid.init (.velocity (10 : Int))).command = false := by decide
/-- a same-command `set` in the middle of a run does not disturb it; a differing one restarts it -/
example : Cpid.get (feed true exK (Cpid.set (feed true exK (Cpid.init (.velocity 10)) (exXs.take 2)) (.velocity 10))
    (exXs.drop 2)) = .ok (some ⟨6000000000, 144⟩) := by rfl
example : Cpid.get (feed true exK (Cpid.set (feed true exK (Cpid.init (.velocity 10)) (exXs.take 2)) (.velocity 11))
    (exXs.drop 2)) = specOut true exK (.velocity 11) (exXs.drop 2).reverse := by rfl

/-! ### C. absent input -/

/-- an absent input resets the computation from any state: `update` returns `Ok`, the output is absent, and the state
is fresh (so the next samples start afresh by the main theorem) -/
theorem cpid_absent_resets (chk : Bool) (k : PIDK3 F) (s : CpidS F) :
    Cpid.stepInput chk k s (.ok none) = ({ s with us := .ok none }, .ok ()) ∧
    Fresh (Cpid.stepInput chk k s (.ok none)).1 ∧
    Cpid.get (Cpid.stepInput chk k s (.ok none)).1 = .ok none ∧
    ∀ xs : List (Datum (State F)), xs ≠ [] →
      Cpid.get (feed chk k (Cpid.stepInput chk k s (.ok none)).1 xs) = specOut chk k s.command xs.reverse :=
  ⟨rfl, .inl rfl, rfl, fun xs hne => cpid_eq_spec chk k (Cpid.reset s) (.inl rfl) xs hne⟩

/-! ### D. input error -/

/-- events under which a cached input error persists (relative to the current command `cmd`): setting an equal
command, and updates aborted by an error of the followed command getter -/
def Keeps (cmd : Command F) : Ev F → Prop
  | .set c => Command.beq c cmd = true
  | .input _ (some (.error _)) => True
  | _ => False

/-- an input error is stored and returned -/
theorem cpid_err_stored (chk : Bool) (k : PIDK3 F) (s : CpidS F) (e : Err) :
    Cpid.stepInput chk k s (.error e) = ({ s with us := .error e }, .error e) ∧
    Cpid.get (Cpid.stepInput chk k s (.error e)).1 = .error e := ⟨rfl, rfl⟩

theorem applyEv_keeps (chk : Bool) (k : PIDK3 F) (s : CpidS F) (ev : Ev F) (hk : Keeps s.command ev) :
    (applyEv chk k s ev).us = s.us ∧ (applyEv chk k s ev).command = s.command := by
  cases ev with
  | set c => have := cpid_set_same_noop s c hk; exact ⟨this.2.1, this.2.2.1⟩
  | reset => exact absurd hk id
  | input o fol =>
    cases fol with
    | none => exact absurd hk id
    | some f =>
      cases f with
      | error e => exact ⟨rfl, rfl⟩
      | ok od => exact absurd hk id

/-- the error stays cached (and is what `get` reports) through any number of equal-command `set`s and of updates
aborted by the follower; an aborted update leaves the state untouched and returns the follower's error -/
theorem cpid_err_cached_until (chk : Bool) (k : PIDK3 F) (e : Err) (evs : List (Ev F)) :
    ∀ s : CpidS F, s.us = .error e → (∀ ev ∈ evs, Keeps s.command ev) →
      (run chk k s evs).us = .error e ∧ (run chk k s evs).command = s.command ∧
      Cpid.get (run chk k s evs) = .error e := by
  induction evs with
  | nil => intro s hs _; exact ⟨hs, rfl, by simp [run, Cpid.get, hs]⟩
  | cons ev evs ih =>
    intro s hs hall
    have h1 := applyEv_keeps chk k s ev (hall ev (by simp))
    have := ih (applyEv chk k s ev) (by rw [h1.1, hs]) (fun ev' hev' => by
      rw [h1.2]; exact hall ev' (by simp [hev']))
    simp only [run, List.foldl_cons] at this ⊢
    exact ⟨this.1, by rw [this.2.1, h1.2], this.2.2⟩

/-- the same, starting from the erroring update itself -/
theorem cpid_err_cached_after_error (chk : Bool) (k : PIDK3 F) (s : CpidS F) (e : Err)
    (fol : Option (Output (Command F))) (hf : ∀ e', fol ≠ some (.error e'))
    (evs : List (Ev F)) (hall : ∀ ev ∈ evs, Keeps (applyEv chk k s (.input (.error e) fol)).command ev) :
    retEv chk k s (.input (.error e) fol) = .error e ∧
    Cpid.get (run chk k s (.input (.error e) fol :: evs)) = .error e := by
  have hus : (applyEv chk k s (.input (.error e) fol)).us = .error e ∧
      retEv chk k s (.input (.error e) fol) = .error e := by
    cases fol with
    | none => exact ⟨rfl, rfl⟩
    | some f =>
      cases f with
      | error e' => exact absurd rfl (hf e')
      | ok od => cases od <;> exact ⟨rfl, rfl⟩
  refine ⟨hus.2, ?_⟩
  have := cpid_err_cached_until chk k e evs _ hus.1 hall
  simpa only [run, List.foldl_cons] using this.2.2

/-- an update in which the followed getter errors aborts before the input is read -/
theorem cpid_follow_error_aborts (chk : Bool) (k : PIDK3 F) (s : CpidS F) (e : Err) (inp : Output (State F)) :
    Cpid.step chk k s (some (.error e)) inp = (s, .error e) := rfl

/-- the cached error ends with the next present sample, which is treated exactly as from a fresh state -/
theorem cpid_err_then_sample_fresh (chk : Bool) (k : PIDK3 F) (s : CpidS F) (e : Err) (x : Datum (State F)) :
    Cpid.stepInput chk k { s with us := .error e } (.ok (some x)) =
      Cpid.stepInput chk k { s with us := .ok none } (.ok (some x)) := rfl

/-- … and so do all the samples after it -/
theorem cpid_err_then_run_fresh (chk : Bool) (k : PIDK3 F) (s : CpidS F) (e : Err)
    (xs : List (Datum (State F))) (hne : xs ≠ []) :
    feed chk k { s with us := .error e } xs = feed chk k { s with us := .ok none } xs := by
  cases xs with
  | nil => exact absurd rfl hne
  | cons x xs => simp only [feed, List.foldl_cons]; rw [cpid_err_then_sample_fresh]

/-- the other three ways out of a cached error: absent input, differing `set`, `reset` — all give `us = Ok(None)` -/
theorem cpid_err_ended_by (chk : Bool) (k : PIDK3 F) (s : CpidS F) (c : Command F)
    (hc : Command.beq c s.command = false) :
    (Cpid.stepInput chk k s (.ok none)).1.us = .ok none ∧ (Cpid.set s c).us = .ok none ∧
    (Cpid.reset s).us = .ok none :=
  ⟨rfl, by simp [Cpid.set, hc], rfl⟩

/-! non-vacuity for part D -/
example : ∀ ev ∈ ([.set (.velocity 10), .input (.ok none) (some (.error .fromNone)), .set (.velocity 10)] : List (Ev Int)),
    Keeps (⟨.velocity 10, .error (.other 3), none⟩ : CpidS Int).command ev := by
  intro ev hev
  simp only [List.mem_cons, List.not_mem_nil, or_false] at hev
  rcases hev with rfl | rfl | rfl
  · show Command.beq _ _ = true; decide
  · exact trivial
  · show Command.beq _ _ = true; decide
example : ∀ e', (none : Option (Output (Command Int))) ≠ some (.error e') := by intro e' h; cases h
example : Cpid.get (run true exK (Cpid.init (.velocity 10))
    [.input (.ok (some ⟨0, ⟨1, 2, 3⟩⟩)) none, .input (.error (.other 3)) none, .set (.velocity 10),
     .input (.ok none) (some (.error .fromNone))]) = .error (.other 3) := by rfl

/-! ### E. following -/

/-- following a present command is `set` of its value followed by the plain update; following an absent value, or not
following, is the plain update; a follower error aborts without touching the state -/
theorem cpid_follow_is_set (chk : Bool) (k : PIDK3 F) (s : CpidS F) (inp : Output (State F)) :
    (∀ d : Datum (Command F),
      Cpid.step chk k s (some (.ok (some d))) inp = Cpid.stepInput chk k (Cpid.set s d.value) inp) ∧
    Cpid.step chk k s (some (.ok none)) inp = Cpid.stepInput chk k s inp ∧
    Cpid.step chk k s none inp = Cpid.stepInput chk k s inp ∧
    (∀ e, Cpid.step chk k s (some (.error e)) inp = (s, .error e)) :=
  ⟨fun _ => rfl, rfl, rfl, fun _ => rfl⟩

/-- as events: an update that follows a present command is the two events `set`, `update` -/
theorem cpid_follow_is_set_run (chk : Bool) (k : PIDK3 F) (s : CpidS F) (d : Datum (Command F))
    (inp : Output (State F)) (evs : List (Ev F)) :
    run chk k s (.input inp (some (.ok (some d))) :: evs) = run chk k s (.set d.value :: .input inp none :: evs) := rfl

/-- `last_request` bookkeeping: a followed command is recorded like an explicit `set`; the plain update never changes
`lastRequest` or `command`; the timestamp of the followed datum is not used -/
theorem cpid_follow_bookkeeping (chk : Bool) (k : PIDK3 F) (s : CpidS F) (inp : Output (State F)) :
    (∀ d : Datum (Command F), (Cpid.step chk k s (some (.ok (some d))) inp).1.lastRequest = some d.value) ∧
    (Cpid.stepInput chk k s inp).1.lastRequest = s.lastRequest ∧
    (Cpid.stepInput chk k s inp).1.command = s.command ∧
    (∀ d d' : Datum (Command F), d.value = d'.value →
      Cpid.step chk k s (some (.ok (some d))) inp = Cpid.step chk k s (some (.ok (some d'))) inp) := by
  refine ⟨fun d => ?_, stepInput_lastRequest chk k s inp, stepInput_command chk k s inp, fun d d' h => ?_⟩
  · simp only [Cpid.step, stepInput_lastRequest]; rfl
  · simp only [Cpid.step, h]

/-! ### F. gains and state component are selected by the command kind -/

/-- explicit form of the error and of the control signal for the three kinds: a position command compares with the
position and uses the position gains, and so on -/
theorem cpid_gains_by_kind (chk : Bool) (k : PIDK3 F) (r : F) (x : Datum (State F)) (l : List (Datum (State F))) :
    (err chk (.position r) x = r - x.value.position ∧
      ctl chk k (.position r) (x :: l) =
        k.position.kp * (r - x.value.position) + k.position.ki * errInt chk (.position r) (x :: l)
          + k.position.kd * errDrv chk (.position r) (x :: l)) ∧
    (err chk (.velocity r) x = r - x.value.velocity ∧
      ctl chk k (.velocity r) (x :: l) =
        k.velocity.kp * (r - x.value.velocity) + k.velocity.ki * errInt chk (.velocity r) (x :: l)
          + k.velocity.kd * errDrv chk (.velocity r) (x :: l)) ∧
    (err chk (.acceleration r) x = r - x.value.acceleration ∧
      ctl chk k (.acceleration r) (x :: l) =
        k.acceleration.kp * (r - x.value.acceleration) + k.acceleration.ki * errInt chk (.acceleration r) (x :: l)
          + k.acceleration.kd * errDrv chk (.acceleration r) (x :: l)) :=
  ⟨⟨rfl, rfl⟩, ⟨rfl, rfl⟩, ⟨rfl, rfl⟩⟩

/-- the first control signal after a (re)start, fully explicit, for the three kinds -/
theorem cpid_first_output_by_kind (chk : Bool) (k : PIDK3 F) (r : F) (x : Datum (State F)) (lr : Option (Command F)) :
    Cpid.get (Cpid.stepInput chk k ⟨.position r, .ok none, lr⟩ (.ok (some x))).1 =
      .ok (some ⟨x.time, k.position.kp * (r - x.value.position) + k.position.ki * c0 + k.position.kd * c0⟩) ∧
    Cpid.get (Cpid.stepInput chk k ⟨.velocity r, .ok none, lr⟩ (.ok (some x))).1 = .ok none ∧
    Cpid.get (Cpid.stepInput chk k ⟨.acceleration r, .ok none, lr⟩ (.ok (some x))).1 = .ok none :=
  ⟨rfl, rfl, rfl⟩

/-- one update depends on the gains only through the triple selected by the command kind -/
theorem cpid_step_gains_only (chk : Bool) (k k' : PIDK3 F) (s : CpidS F) (inp : Output (State F))
    (h : k.get s.command.kind = k'.get s.command.kind) :
    Cpid.stepInput chk k s inp = Cpid.stepInput chk k' s inp := by
  simp only [Cpid.stepInput, PIDK3.evaluate, h]

/-- one update depends on the input state only through the component selected by the command kind (and the time) -/
theorem cpid_step_component_only (chk : Bool) (k : PIDK3 F) (s : CpidS F) (x x' : Datum (State F))
    (ht : x.time = x'.time)
    (hv : (x.value.getValue chk s.command.kind).value = (x'.value.getValue chk s.command.kind).value) :
    Cpid.stepInput chk k s (.ok (some x)) = Cpid.stepInput chk k s (.ok (some x')) := by
  simp only [Cpid.stepInput, ht, hv]

/-- whole runs: the specified output depends on the gains only through `k.get c.kind` -/
theorem cpid_run_gains_only (chk : Bool) (k k' : PIDK3 F) (s : CpidS F) (xs : List (Datum (State F)))
    (h : k.get s.command.kind = k'.get s.command.kind) :
    feed chk k s xs = feed chk k' s xs := by
  induction xs generalizing s with
  | nil => rfl
  | cons x xs ih =>
    simp only [feed, List.foldl_cons] at ih ⊢
    rw [cpid_step_gains_only chk k k' s _ h]
    exact ih _ (by rw [stepInput_command]; exact h)

/-- the unit-checking feature does not influence the computation -/
theorem cpid_chk_irrelevant (k : PIDK3 F) (s : CpidS F) (inp : Output (State F)) :
    Cpid.stepInput true k s inp = Cpid.stepInput false k s inp := by
  have hv : ∀ (x : Datum (State F)) (kd : PosDer),
      (x.value.getValue true kd).value = (x.value.getValue false kd).value := by
    intro x kd; cases kd <;> rfl
  simp only [Cpid.stepInput, hv]

/-! non-vacuity for part F: different gain tables agreeing on the selected triple; different states agreeing on the
selected component -/
example : exK.get (Cpid.init (.velocity (10 : Int))).command.kind =
    (⟨⟨7, 7, 7⟩, ⟨2, 1, 4⟩, ⟨9, 9, 9⟩⟩ : PIDK3 Int).get (Cpid.init (.velocity (10 : Int))).command.kind := rfl
example : ((⟨5, ⟨1, 2, 3⟩⟩ : Datum (State Int)).value.getValue true (Cpid.init (.velocity (10 : Int))).command.kind).value =
    ((⟨5, ⟨8, 2, 9⟩⟩ : Datum (State Int)).value.getValue true (Cpid.init (.velocity (10 : Int))).command.kind).value := rfl

/-! ### G. time-shift invariance -/

def shiftD {α : Type} (d : Int) (x : Datum α) : Datum α := ⟨x.time + d, x.value⟩
def shiftO {α : Type} (d : Int) : Output α → Output α
  | .ok (some x) => .ok (some (shiftD d x))
  | o => o
def shiftUs (d : Int) : Except Err (Option (CpU0 F)) → Except Err (Option (CpU0 F))
  | .ok (some u0) => .ok (some { u0 with time := u0.time + d })
  | u => u
/-- the state with its stored timestamp shifted -/
def shiftS (d : Int) (s : CpidS F) : CpidS F := { s with us := shiftUs d s.us }
/-- the event with the input sample's timestamp shifted -/
def shiftEv (d : Int) : Ev F → Ev F
  | .input o fol => .input (shiftO d o) fol
  | e => e

theorem shiftS_fresh (d : Int) (s : CpidS F) (hs : Fresh s) : shiftS d s = s := by
  cases s with
  | mk c u lr =>
    rcases hs with h | ⟨e, h⟩ <;> simp only at h <;> subst h <;> rfl

theorem get_shiftS (d : Int) (s : CpidS F) : Cpid.get (shiftS d s) = shiftO d (Cpid.get s) := by
  cases s with
  | mk c u lr =>
  cases u with
  | error e => rfl
  | ok ou =>
    cases ou with
    | none => rfl
    | some u0 =>
      cases u0 with
      | mk t o e u1 =>
        cases hk : c.kind with
        | position => simp [Cpid.get, shiftS, shiftUs, shiftO, shiftD, hk]
        | velocity => cases u1 <;> simp [Cpid.get, shiftS, shiftUs, shiftO, shiftD, hk]
        | acceleration =>
          cases u1 with
          | none => simp [Cpid.get, shiftS, shiftUs, shiftO, shiftD, hk]
          | some u1 =>
            cases u1 with
            | mk oi ei oii => cases oii <;> simp [Cpid.get, shiftS, shiftUs, shiftO, shiftD, hk]

theorem stepInput_shift (chk : Bool) (k : PIDK3 F) (d : Int) (s : CpidS F) (inp : Output (State F)) :
    Cpid.stepInput chk k (shiftS d s) (shiftO d inp) =
      (shiftS d (Cpid.stepInput chk k s inp).1, (Cpid.stepInput chk k s inp).2) := by
  cases s with
  | mk c u lr =>
  cases inp with
  | error e => rfl
  | ok o =>
    cases o with
    | none => rfl
    | some x =>
      cases u with
      | error e => rfl
      | ok ou =>
        cases ou with
        | none => rfl
        | some u0 =>
          cases u0 with
          | mk t o e u1 =>
            have ht : x.time + d - (t + d) = x.time - t := by omega
            cases u1 <;> simp only [Cpid.stepInput, shiftS, shiftUs, shiftO, shiftD, ht]

theorem set_shift (d : Int) (s : CpidS F) (c : Command F) : Cpid.set (shiftS d s) c = shiftS d (Cpid.set s c) := by
  cases hb : Command.beq c s.command <;> simp [Cpid.set, shiftS, shiftUs, hb]

theorem applyEv_shift (chk : Bool) (k : PIDK3 F) (d : Int) (s : CpidS F) (ev : Ev F) :
    applyEv chk k (shiftS d s) (shiftEv d ev) = shiftS d (applyEv chk k s ev) ∧
    retEv chk k (shiftS d s) (shiftEv d ev) = retEv chk k s ev := by
  cases ev with
  | set c => exact ⟨set_shift d s c, rfl⟩
  | reset => exact ⟨rfl, rfl⟩
  | input o fol =>
    cases fol with
    | none => simp only [shiftEv, applyEv, retEv, Cpid.step, stepInput_shift]; exact ⟨trivial, trivial⟩
    | some f =>
      cases f with
      | error e => exact ⟨rfl, rfl⟩
      | ok od =>
        cases od with
        | none => simp only [shiftEv, applyEv, retEv, Cpid.step, stepInput_shift]; exact ⟨trivial, trivial⟩
        | some dc =>
          simp only [shiftEv, applyEv, retEv, Cpid.step, set_shift, stepInput_shift]; exact ⟨trivial, trivial⟩

/-- **Shift invariance, arbitrary histories.**  Shifting the timestamp stored in the state and the timestamps of all
input samples by the same `d : Int` shifts the stored timestamp of the final state and changes nothing else. -/
theorem cpid_shift_invariant_run (chk : Bool) (k : PIDK3 F) (d : Int) (evs : List (Ev F)) :
    ∀ s : CpidS F, run chk k (shiftS d s) (evs.map (shiftEv d)) = shiftS d (run chk k s evs) := by
  induction evs with
  | nil => intro s; rfl
  | cons ev evs ih =>
    intro s
    simp only [run, List.map_cons, List.foldl_cons] at ih ⊢
    rw [(applyEv_shift chk k d s ev).1]
    exact ih _

/-- **C11 shift invariance.**  For every event history from a fresh state (in particular from construction): shifting
all sample timestamps by `d` leaves every output value unchanged and shifts the output timestamp by `d`; every
`update` returns the same. -/
theorem cpid_shift_invariant (chk : Bool) (k : PIDK3 F) (d : Int) (s : CpidS F) (hs : Fresh s) (evs : List (Ev F)) :
    Cpid.get (run chk k s (evs.map (shiftEv d))) = shiftO d (Cpid.get (run chk k s evs)) ∧
    ∀ ev, retEv chk k (run chk k s (evs.map (shiftEv d))) (shiftEv d ev) = retEv chk k (run chk k s evs) ev := by
  have h := cpid_shift_invariant_run chk k d evs s
  rw [shiftS_fresh d s hs] at h
  rw [h]
  exact ⟨get_shiftS d _, fun ev => (applyEv_shift chk k d _ ev).2⟩

/-- the run-of-samples form -/
theorem cpid_shift_invariant_feed (chk : Bool) (k : PIDK3 F) (d : Int) (s : CpidS F) (hs : Fresh s)
    (xs : List (Datum (State F))) :
    Cpid.get (feed chk k s (xs.map (shiftD d))) = shiftO d (Cpid.get (feed chk k s xs)) := by
  have h := (cpid_shift_invariant chk k d s hs (xs.map fun x => Ev.input (.ok (some x)) none)).1
  rw [feed_eq_run, feed_eq_run]
  simpa only [List.map_map, Function.comp_def, shiftEv, shiftO] using h

/-- the specification itself is shift invariant: same values, time stamps moved by `d` -/
theorem cpid_spec_shift_invariant (chk : Bool) (k : PIDK3 F) (c : Command F) (d : Int)
    (h : List (Datum (State F))) :
    specOut chk k c (h.map (shiftD d)) = shiftO d (specOut chk k c h) := by
  by_cases hne : h = []
  · subst hne; rfl
  · have h1 := cpid_eq_spec chk k (Cpid.init c) (.inl rfl) (h.reverse.map (shiftD d)) (by simpa using hne)
    have h2 := cpid_eq_spec chk k (Cpid.init c) (.inl rfl) h.reverse (by simpa using hne)
    have h3 := cpid_shift_invariant_feed chk k d (Cpid.init c) (.inl rfl) h.reverse
    rw [h1, h2] at h3
    simpa only [List.map_reverse, List.reverse_reverse, Cpid.init] using h3

/-! ### the whole property for arbitrary event histories

A bookkeeping-only abstraction (no arithmetic): the current command, and either a cached error or the list of present
samples received since the last (re)start, newest first.  The theorem says that after *any* finite event history the
real state is the specified record of that list — i.e. the output is the textbook formula applied to exactly the
samples since the last start / reset / absent input / differing `set` / error. -/

inductive Phase (F : Type) where
  | failed (e : Err)
  | running (h : List (Datum (State F)))

structure Abs (F : Type) where
  command : Command F
  phase : Phase F

def absInput (a : Abs F) : Output (State F) → Abs F
  | .ok none => ⟨a.command, .running []⟩
  | .error e => ⟨a.command, .failed e⟩
  | .ok (some x) =>
    match a.phase with
    | .running h => ⟨a.command, .running (x :: h)⟩
    | .failed _ => ⟨a.command, .running [x]⟩

def absSet (a : Abs F) (c : Command F) : Abs F :=
  if Command.beq c a.command then a else ⟨c, .running []⟩

def absEv (a : Abs F) : Ev F → Abs F
  | .set c => absSet a c
  | .reset => ⟨a.command, .running []⟩
  | .input _ (some (.error _)) => a
  | .input o (some (.ok (some d))) => absInput (absSet a d.value) o
  | .input o (some (.ok none)) => absInput a o
  | .input o none => absInput a o

def absUs (chk : Bool) (k : PIDK3 F) (a : Abs F) : Except Err (Option (CpU0 F)) :=
  match a.phase with
  | .failed e => .error e
  | .running h => .ok (specU0 chk k a.command h)

/-- the specified output for an abstract state -/
def absOut (chk : Bool) (k : PIDK3 F) (a : Abs F) : Output F :=
  match a.phase with
  | .failed e => .error e
  | .running h => specOut chk k a.command h

/-- the specified return value of an event -/
def absRet : Ev F → UpdRet
  | .input _ (some (.error e)) => .error e
  | .input (.error e) _ => .error e
  | _ => .ok ()

def Rel (chk : Bool) (k : PIDK3 F) (s : CpidS F) (a : Abs F) : Prop :=
  s.command = a.command ∧ s.us = absUs chk k a

theorem rel_stepInput (chk : Bool) (k : PIDK3 F) (s : CpidS F) (a : Abs F) (h : Rel chk k s a)
    (inp : Output (State F)) : Rel chk k (Cpid.stepInput chk k s inp).1 (absInput a inp) := by
  obtain ⟨hc, hu⟩ := h
  cases inp with
  | error e => exact ⟨hc, rfl⟩
  | ok o =>
    cases o with
    | none => exact ⟨hc, rfl⟩
    | some x =>
      cases a with
      | mk ac ph =>
      simp only at hc
      cases ph with
      | failed e =>
        simp only [absUs] at hu
        rw [step_fresh chk k s (.inr ⟨e, hu⟩) x]
        exact ⟨hc, by simp only [absInput, absUs, hc]⟩
      | running l =>
        simp only [absUs] at hu
        by_cases hl : l = []
        · subst hl
          rw [step_fresh chk k s (.inl hu) x]
          exact ⟨hc, by simp only [absInput, absUs, hc]⟩
        · rw [step_spec chk k s l hl (by rw [hu, hc]) x]
          exact ⟨hc, by simp only [absInput, absUs, hc]⟩

theorem rel_set (chk : Bool) (k : PIDK3 F) (s : CpidS F) (a : Abs F) (h : Rel chk k s a) (c : Command F) :
    Rel chk k (Cpid.set s c) (absSet a c) := by
  obtain ⟨hc, hu⟩ := h
  cases hb : Command.beq c a.command with
  | true =>
    have hb' : Command.beq c s.command = true := by rw [hc]; exact hb
    have := cpid_set_same_noop s c hb'
    exact ⟨by rw [this.2.2.1]; simp [absSet, hb, hc], by rw [this.2.1]; simp [absSet, hb, hu]⟩
  | false =>
    have hb' : Command.beq c s.command = false := by rw [hc]; exact hb
    rw [(cpid_set_diff_restarts chk k s c hb').1]
    simp only [absSet, hb]
    exact ⟨rfl, rfl⟩

theorem rel_applyEv (chk : Bool) (k : PIDK3 F) (s : CpidS F) (a : Abs F) (h : Rel chk k s a) (ev : Ev F) :
    Rel chk k (applyEv chk k s ev) (absEv a ev) := by
  cases ev with
  | set c => exact rel_set chk k s a h c
  | reset => exact ⟨h.1, rfl⟩
  | input o fol =>
    cases fol with
    | none => exact rel_stepInput chk k s a h o
    | some f =>
      cases f with
      | error e => exact h
      | ok od =>
        cases od with
        | none => exact rel_stepInput chk k s a h o
        | some d => exact rel_stepInput chk k _ _ (rel_set chk k s a h d.value) o

theorem get_of_rel (chk : Bool) (k : PIDK3 F) (s : CpidS F) (a : Abs F) (h : Rel chk k s a) :
    Cpid.get s = absOut chk k a := by
  obtain ⟨hc, hu⟩ := h
  cases s with
  | mk c u lr =>
  cases a with
  | mk ac ph =>
  simp only at hc hu
  subst hc
  cases ph with
  | failed e => simp only [absUs] at hu; subst hu; rfl
  | running l => simp only [absUs] at hu; subst hu; exact get_specU0 chk k c lr l

/-- the return value of any event is: the follower's error, else the input's error, else `Ok` -/
theorem retEv_eq (chk : Bool) (k : PIDK3 F) (s : CpidS F) (ev : Ev F) : retEv chk k s ev = absRet ev := by
  cases ev with
  | set c => rfl
  | reset => rfl
  | input o fol =>
    have hsi : ∀ s' : CpidS F, (Cpid.stepInput chk k s' o).2 = absRet (.input o none) := by
      intro s'
      cases o with
      | error e => rfl
      | ok oo =>
        cases oo with
        | none => rfl
        | some x =>
          simp only [Cpid.stepInput, absRet]
          split
          · split <;> rfl
          · rfl
    cases fol with
    | none => exact hsi s
    | some f =>
      cases f with
      | error e => rfl
      | ok od =>
        cases od with
        | none => simp only [retEv, Cpid.step, hsi]; cases o with
          | error e => rfl
          | ok oo => rfl
        | some d => simp only [retEv, Cpid.step, hsi]; cases o with
          | error e => rfl
          | ok oo => rfl

/-- **C11 for every finite event history.**  From a newly constructed controller with command `c`, after any events
`evs` the real state corresponds to the abstract state obtained by pure bookkeeping, hence `get` is the specified
(non-incremental) output for the samples received since the last restart, or the cached error. -/
theorem cpid_eq_spec_events (chk : Bool) (k : PIDK3 F) (c : Command F) (evs : List (Ev F)) :
    Rel chk k (run chk k (Cpid.init c) evs) (evs.foldl absEv ⟨c, .running []⟩) ∧
    Cpid.get (run chk k (Cpid.init c) evs) = absOut chk k (evs.foldl absEv ⟨c, .running []⟩) := by
  have key : ∀ (evs : List (Ev F)) (s : CpidS F) (a : Abs F), Rel chk k s a →
      Rel chk k (run chk k s evs) (evs.foldl absEv a) := by
    intro evs
    induction evs with
    | nil => intro s a h; exact h
    | cons ev evs ih =>
      intro s a h
      simp only [run, List.foldl_cons] at ih ⊢
      exact ih _ _ (rel_applyEv chk k s a h ev)
  have h := key evs (Cpid.init c) ⟨c, .running []⟩ ⟨rfl, rfl⟩
  exact ⟨h, get_of_rel chk k _ _ h⟩

/-! concrete instance for part G and for the event-level theorem -/
example : Cpid.get (feed true exK (Cpid.init (.acceleration 10)) (exXs.map (shiftD 12345))) =
    .ok (some ⟨6000012345, 674⟩) := by rfl
example : absOut true exK (([.input (.ok (some ⟨0, ⟨1, 2, 3⟩⟩)) none, .input (.error (.other 3)) none,
    .set (.velocity 10), .input (.ok none) (some (.error .fromNone))] : List (Ev Int)).foldl absEv
      ⟨.velocity 10, .running []⟩) = .error (.other 3) := by rfl

end S
end Rrtk.Thm.C11
