/-
C12 — moving-average and EWMA streams: time-weighted average over the window, convexity, constants, first
sample, variants agree, no panics.
Tier S for everything structural (queue, weights in nanoseconds, which formula, panics), tier R for the
convexity consequences, tier L (one law) for the agreement of the f32 and Quantity moving averages.
-/
import Rrtk.Streams.Stateful
import Rrtk.Thm.Lemmas.Exact
set_option linter.unusedSectionVars false
set_option linter.unusedSimpArgs false
namespace Rrtk.Thm.C12
open Rrtk

/-! ## histories -/

/-- run a stream over a history of events, stopping at the first panic -/
def runE {S I : Type} (step : S → I → Except Panic (S × UpdRet)) : S → List I → Except Panic S
  | s, [] => .ok s
  | s, i :: is =>
    match step s i with
    | .error p => .error p
    | .ok r => runE step r.1 is

/-- timestamps of the present samples of a history, in order -/
def presentTimes {T : Type} : List (Output T) → List Int
  | [] => []
  | .ok (some d) :: es => d.time :: presentTimes es
  | .ok none :: es => presentTimes es
  | .error _ :: es => presentTimes es

/-- the quantifier of the property: timestamps of the present samples never decrease (repeats allowed) -/
def NonDecr {T : Type} (evs : List (Output T)) : Prop := (presentTimes evs).Pairwise (· ≤ ·)

/-- present samples since the last error event (what the moving average may still hold) -/
def sinceReset {T : Type} : List (Datum T) → List (Output T) → List (Datum T)
  | acc, [] => acc
  | acc, .ok (some d) :: es => sinceReset (acc ++ [d]) es
  | acc, .ok none :: es => sinceReset acc es
  | _, .error _ :: es => sinceReset [] es

theorem runE_append {S I : Type} (step : S → I → Except Panic (S × UpdRet)) (s : S) (l₁ l₂ : List I) :
    runE step s (l₁ ++ l₂) = match runE step s l₁ with
      | .error p => .error p
      | .ok s' => runE step s' l₂ := by
  induction l₁ generalizing s with
  | nil => rfl
  | cons i is ih =>
    simp only [List.cons_append, runE]
    cases h : step s i with
    | error p => rfl
    | ok r => exact ih r.1

theorem presentTimes_append {T : Type} (l₁ l₂ : List (Output T)) :
    presentTimes (l₁ ++ l₂) = presentTimes l₁ ++ presentTimes l₂ := by
  induction l₁ with
  | nil => rfl
  | cons e es ih =>
    match e with
    | .ok (some d) => simp [presentTimes, ih]
    | .ok none => simpa [presentTimes] using ih
    | .error _ => simpa [presentTimes] using ih

theorem mem_presentTimes {T : Type} (evs : List (Output T)) (t : Int) :
    t ∈ presentTimes evs ↔ ∃ d, Except.ok (some d) ∈ evs ∧ d.time = t := by
  induction evs with
  | nil => simp [presentTimes]
  | cons e es ih =>
    match e with
    | .ok (some d) =>
      simp only [presentTimes, List.mem_cons, ih]
      constructor
      · rintro (h | ⟨d', h1, h2⟩)
        · exact ⟨d, Or.inl rfl, h.symm⟩
        · exact ⟨d', Or.inr h1, h2⟩
      · rintro ⟨d', h1 | h1, h2⟩
        · left; cases h1; exact h2.symm
        · exact Or.inr ⟨d', h1, h2⟩
    | .ok none => simp [presentTimes, ih]
    | .error _ => simp [presentTimes, ih]


/-! ## tier S: moving average -/
section S
variable {F : Type} [Add F] [Sub F] [Mul F] [Div F] [Neg F] [LT F] [LE F] [BEq F]
  [DecidableLT F] [DecidableLE F] [FloatLike F] {T : Type}

/-- sorted by non-decreasing time -/
def Sorted (q : List (Datum T)) : Prop := q.Pairwise (fun a b => a.time ≤ b.time)

/-- what the queue looks like right after the present sample `o` has been processed -/
def WinQueue (window : Int) (o : Datum T) (q : List (Datum T)) : Prop :=
  q ≠ [] ∧ Sorted q ∧ (∀ d ∈ q, o.time - window < d.time ∧ d.time ≤ o.time) ∧ ∃ q', q = q' ++ [o]

/-- the pairs `(value_i, weight_i in f32 seconds)` the accumulation loop runs over -/
def maTerms (cut : Int) (q : List (Datum T)) : List (T × F) :=
  (q.map (·.value)).zip ((Ma.weightsNs cut q).map (fun n => (secs n : F)))

/-- the window as a non-incremental function: push, then drop the front while it is not newer than the cut -/
def maWindow (window : Int) (queue : List (Datum T)) (o : Datum T) : List (Datum T) :=
  (queue ++ [o]).dropWhile (fun d => decide (d.time ≤ o.time - window))

/-- `trim` is `dropWhile`, panicking when nothing is left -/
theorem trim_eq_dropWhile (cut : Int) (l : List (Datum T)) :
    Ma.trim cut l = match l.dropWhile (fun d => decide (d.time ≤ cut)) with
      | [] => .error .oob
      | d :: ds => .ok (d :: ds) := by
  induction l with
  | nil => rfl
  | cons d ds ih =>
    simp only [Ma.trim, List.dropWhile_cons]
    by_cases h : d.time ≤ cut
    · simp [h, ih]
    · simp [h]

theorem trim_ok_eq_dropWhile (cut : Int) (l q : List (Datum T)) (h : Ma.trim cut l = .ok q) :
    q = l.dropWhile (fun d => decide (d.time ≤ cut)) := by
  rw [trim_eq_dropWhile] at h
  split at h
  · cases h
  · rename_i d ds hdd
    injection h with h
    rw [hdd, h]

/-- the just-pushed sample is never trimmed: the result is a suffix of the old queue followed by `o`,
everything dropped is not newer than the cut, the new front is newer than the cut -/
theorem trim_snoc (cut : Int) (l : List (Datum T)) (o : Datum T) (h : cut < o.time) :
    ∃ pre q', l = pre ++ q' ∧ Ma.trim cut (l ++ [o]) = .ok (q' ++ [o]) ∧
      (∀ d ∈ pre, d.time ≤ cut) ∧ (∀ d, (q' ++ [o]).head? = some d → cut < d.time) := by
  induction l with
  | nil =>
    refine ⟨[], [], rfl, ?_, by simp, ?_⟩
    · simp [Ma.trim, Int.not_le.2 h]
    · intro d hd
      simp at hd
      subst hd
      exact h
  | cons d ds ih =>
    by_cases hd : d.time ≤ cut
    · obtain ⟨pre, q', e, ht, hp, hh⟩ := ih
      refine ⟨d :: pre, q', by simp [e], ?_, ?_, hh⟩
      · simp only [List.cons_append, Ma.trim, hd, if_true]
        exact ht
      · intro x hx
        rcases List.mem_cons.1 hx with hx | hx
        · subst hx; exact hd
        · exact hp x hx
    · refine ⟨[], d :: ds, rfl, by simp [Ma.trim, hd], by simp, ?_⟩
      intro x hx
      simp at hx
      subst hx
      omega

/-- unfolding of one update on a present sample, given the trimmed queue and the accumulated sum -/
theorem ma_step_present_eq (scale : T → F → T) (add : T → T → Except Panic T) (fin : T → F → T)
    (zero : Option T) (window : Int) (s : MaS T) (o : Datum T) (q : List (Datum T)) (v : T)
    (ht : Ma.trim (o.time - window) (s.queue ++ [o]) = .ok q)
    (hacc : Ma.accumulate scale add zero (maTerms (o.time - window) q) = .ok (some v)) :
    Ma.step scale add fin zero window s (.ok (some o)) =
      .ok (⟨.ok (some ⟨o.time, fin v (secs window)⟩), q⟩, .ok ()) := by
  simp only [maTerms] at hacc
  simp only [Ma.step, ht, hacc]

/-- accumulation never fails when `add` is total on a class `Pacc` closed under `add` that contains all terms -/
theorem accumulate_some (scale : T → F → T) (add : T → T → Except Panic T) (Pacc : T → Prop)
    (ha : ∀ a b, Pacc a → Pacc b → ∃ c, add a b = .ok c ∧ Pacc c) :
    ∀ (l : List (T × F)) (a : T), Pacc a → (∀ p ∈ l, Pacc (scale p.1 p.2)) →
      ∃ v, Ma.accumulate scale add (some a) l = .ok (some v) ∧ Pacc v := by
  intro l
  induction l with
  | nil => intro a pa _; exact ⟨a, rfl, pa⟩
  | cons p rest ih =>
    intro a pa hl
    obtain ⟨v, w⟩ := p
    obtain ⟨c, hc, pc⟩ := ha a (scale v w) pa (hl (v, w) (List.mem_cons_self ..))
    simp only [Ma.accumulate, hc]
    exact ih c pc (fun p hp => hl p (List.mem_cons_of_mem _ hp))

theorem accumulate_some' (scale : T → F → T) (add : T → T → Except Panic T) (Pacc : T → Prop)
    (ha : ∀ a b, Pacc a → Pacc b → ∃ c, add a b = .ok c ∧ Pacc c)
    (zero : Option T) (hz : ∀ z, zero = some z → Pacc z) (l : List (T × F)) (hne : l ≠ [])
    (hl : ∀ p ∈ l, Pacc (scale p.1 p.2)) :
    ∃ v, Ma.accumulate scale add zero l = .ok (some v) ∧ Pacc v := by
  cases zero with
  | some z => exact accumulate_some scale add Pacc ha l z (hz z rfl) hl
  | none =>
    cases l with
    | nil => exact absurd rfl hne
    | cons p rest =>
      obtain ⟨v, w⟩ := p
      simp only [Ma.accumulate]
      exact accumulate_some scale add Pacc ha rest (scale v w) (hl (v, w) (List.mem_cons_self ..))
        (fun p hp => hl p (List.mem_cons_of_mem _ hp))

theorem weightsNs_length (cut : Int) (q : List (Datum T)) : (Ma.weightsNs cut q).length = q.length := by
  induction q generalizing cut with
  | nil => rfl
  | cons d ds ih => simp [Ma.weightsNs, ih]

theorem maTerms_ne_nil (cut : Int) (q : List (Datum T)) (h : q ≠ []) : (maTerms (F := F) cut q) ≠ [] := by
  cases q with
  | nil => exact absurd rfl h
  | cons d ds => simp [maTerms, Ma.weightsNs]

theorem mem_maTerms (cut : Int) (q : List (Datum T)) (p : T × F) (h : p ∈ maTerms (F := F) cut q) :
    ∃ d ∈ q, p.1 = d.value := by
  have h1 := (List.of_mem_zip h).1
  obtain ⟨d, hd, e⟩ := List.mem_map.1 h1
  exact ⟨d, hd, e.symm⟩

/-! ### A1: no update panics -/

/-- One update on a present sample never panics, for ANY previous queue (sorted or not) and any
`window > 0`: the `.oob` branches are unreachable.  `Pin` is a class containing the sample values, `Pacc`
a class containing the scaled terms on which `add` is total (for f32: everything). -/
theorem ma_step_present_ok (scale : T → F → T) (add : T → T → Except Panic T) (fin : T → F → T)
    (zero : Option T) (window : Int) (hw : 0 < window) (Pin Pacc : T → Prop)
    (hs : ∀ v w, Pin v → Pacc (scale v w))
    (ha : ∀ a b, Pacc a → Pacc b → ∃ c, add a b = .ok c ∧ Pacc c)
    (hz : ∀ z, zero = some z → Pacc z)
    (s : MaS T) (o : Datum T) (hq : ∀ d ∈ s.queue, Pin d.value) (ho : Pin o.value) :
    ∃ pre q' v, s.queue = pre ++ q' ∧
      Ma.accumulate scale add zero (maTerms (o.time - window) (q' ++ [o])) = .ok (some v) ∧
      Ma.step scale add fin zero window s (.ok (some o)) =
        .ok (⟨.ok (some ⟨o.time, fin v (secs window)⟩), q' ++ [o]⟩, .ok ()) ∧
      (∀ d ∈ pre, d.time ≤ o.time - window) ∧
      (∀ d, (q' ++ [o]).head? = some d → o.time - window < d.time) ∧
      q' ++ [o] = maWindow window s.queue o := by
  obtain ⟨pre, q', e, ht, hp, hh⟩ := trim_snoc (o.time - window) s.queue o (by omega)
  have hwin : q' ++ [o] = maWindow window s.queue o := trim_ok_eq_dropWhile _ _ _ ht
  have hne : q' ++ [o] ≠ [] := by simp
  have hall : ∀ d ∈ q' ++ [o], Pin d.value := by
    intro d hd
    rcases List.mem_append.1 hd with hd | hd
    · exact hq d (by rw [e]; exact List.mem_append_right _ hd)
    · simp at hd; subst hd; exact ho
  obtain ⟨v, hv, _⟩ := accumulate_some' scale add Pacc ha zero hz
    (maTerms (o.time - window) (q' ++ [o])) (maTerms_ne_nil _ _ hne)
    (by
      intro p hp
      obtain ⟨d, hd, e'⟩ := mem_maTerms _ _ p hp
      rw [e']
      exact hs _ _ (hall d hd))
  exact ⟨pre, q', v, e, hv, ma_step_present_eq scale add fin zero window s o _ v ht hv, hp, hh, hwin⟩

/-- error and absent events never panic, and keep the queue a sub-queue of the old one -/
theorem ma_step_other_ok (scale : T → F → T) (add : T → T → Except Panic T) (fin : T → F → T)
    (zero : Option T) (window : Int) (s : MaS T) (inp : Output T) (h : ∀ d, inp ≠ .ok (some d)) :
    ∃ s' r, Ma.step scale add fin zero window s inp = .ok (s', r) ∧ (s'.queue = s.queue ∨ s'.queue = []) := by
  match inp, h with
  | .error e, _ => exact ⟨_, _, rfl, Or.inr rfl⟩
  | .ok (some d), h => exact absurd rfl (h d)
  | .ok none, _ =>
    simp only [Ma.step]
    cases s.value with
    | error e => exact ⟨_, _, rfl, Or.inl rfl⟩
    | ok v => exact ⟨_, _, rfl, Or.inl rfl⟩

/-- **No moving-average update panics**, for every history of events of any length (timestamps need not
even be monotone), every `window > 0`, whenever `add` cannot fail on the terms (`Pin`/`Pacc` as above). -/
theorem ma_no_panic_closed (scale : T → F → T) (add : T → T → Except Panic T) (fin : T → F → T)
    (zero : Option T) (window : Int) (hw : 0 < window) (Pin Pacc : T → Prop)
    (hs : ∀ v w, Pin v → Pacc (scale v w))
    (ha : ∀ a b, Pacc a → Pacc b → ∃ c, add a b = .ok c ∧ Pacc c)
    (hz : ∀ z, zero = some z → Pacc z)
    (evs : List (Output T)) (hin : ∀ d, Except.ok (some d) ∈ evs → Pin d.value)
    (s : MaS T) (hq : ∀ d ∈ s.queue, Pin d.value) :
    ∃ s', runE (Ma.step scale add fin zero window) s evs = .ok s' := by
  induction evs generalizing s with
  | nil => exact ⟨s, rfl⟩
  | cons e es ih =>
    have hin' : ∀ d, Except.ok (some d) ∈ es → Pin d.value := fun d hd => hin d (List.mem_cons_of_mem _ hd)
    by_cases hp : ∃ d, e = .ok (some d)
    · obtain ⟨o, rfl⟩ := hp
      obtain ⟨pre, q', v, e1, _, hstep, _, _⟩ := ma_step_present_ok scale add fin zero window hw Pin Pacc hs ha hz
        s o hq (hin o (List.mem_cons_self ..))
      simp only [runE, hstep]
      apply ih hin'
      intro d hd
      rcases List.mem_append.1 hd with hd | hd
      · exact hq d (by rw [e1]; exact List.mem_append_right _ hd)
      · simp at hd; subst hd; exact hin _ (List.mem_cons_self ..)
    · obtain ⟨s', r, hstep, hq'⟩ := ma_step_other_ok scale add fin zero window s e
        (fun d hd => hp ⟨d, hd⟩)
      simp only [runE, hstep]
      apply ih hin'
      rcases hq' with hq' | hq'
      · rw [hq']; exact hq
      · rw [hq']; intro d hd; cases hd

/-- A1, f32 shape: `add` never fails. -/
theorem ma_no_panic (scale : T → F → T) (add : T → T → Except Panic T) (fin : T → F → T)
    (zero : Option T) (window : Int) (hw : 0 < window) (hadd : ∀ a b, ∃ c, add a b = .ok c)
    (evs : List (Output T)) :
    ∃ s', runE (Ma.step scale add fin zero window) Ma.init evs = .ok s' :=
  ma_no_panic_closed scale add fin zero window hw (fun _ => True) (fun _ => True) (fun _ _ _ => trivial)
    (fun a b _ _ => by obtain ⟨c, hc⟩ := hadd a b; exact ⟨c, hc, trivial⟩) (fun _ _ => trivial)
    evs (fun _ _ => trivial) Ma.init (fun _ _ => trivial)

/-- A1 for the f32 instantiation used by the driver -/
theorem ma_no_panic_f32 (window : Int) (hw : 0 < window) (evs : List (Output F)) :
    ∃ s', runE (Ma.step scaleF addF divF (some (c0 : F)) window) Ma.init evs = .ok s' :=
  ma_no_panic scaleF addF divF _ window hw (fun a b => ⟨a + b, rfl⟩) evs

theorem qadd_same_unit (chk : Bool) (a b : Quantity F) (h : chk = true → a.unit = b.unit) :
    Quantity.add chk a b = .ok ⟨a.value + b.value, a.unit⟩ := by
  cases chk with
  | false => rfl
  | true =>
    have h' := h rfl
    simp [Quantity.add, DUnit.add, DUnit.assertEqAssumeOk, DUnit.eqAssumeTrue, DUnit.constEq, h']

/-- A1 for the Quantity instantiation: all samples carry the same unit `u` (`chk` arbitrary; with
`chk = false` the hypothesis is not even needed, the class is then trivial). -/
theorem ma_no_panic_quantity (chk : Bool) (window : Int) (hw : 0 < window) (u : DUnit)
    (evs : List (Output (Quantity F))) (hin : ∀ d, Except.ok (some d) ∈ evs → d.value.unit = u) :
    ∃ s', runE (Ma.step (scaleQs chk) (Quantity.add chk) (divQs chk) none window) Ma.init evs = .ok s' := by
  refine ma_no_panic_closed (scaleQs chk) (Quantity.add chk) (divQs chk) none window hw
    (fun q => q.unit = u) (fun q => q.unit = DUnit.mul chk u (SECOND chk)) ?_ ?_ (fun _ h => by cases h)
    evs hin Ma.init (fun _ h => by cases h)
  · intro v w hv
    simp only [scaleQs, Quantity.mul, hv]
  · intro a b pa pb
    refine ⟨_, qadd_same_unit chk a b (fun _ => pa.trans pb.symm), pa⟩

/-! ### A2: the queue invariant -/

theorem sorted_head_lt (cut : Int) (q : List (Datum T)) (hs : Sorted q)
    (hh : ∀ d, q.head? = some d → cut < d.time) : ∀ d ∈ q, cut < d.time := by
  cases q with
  | nil => intro d hd; cases hd
  | cons x xs =>
    intro d hd
    have hx : cut < x.time := hh x rfl
    rcases List.mem_cons.1 hd with hd | hd
    · subst hd; exact hx
    · have := (List.pairwise_cons.1 hs).1 d hd
      omega

/-- one update on a present sample not older than anything in a sorted queue establishes `WinQueue` -/
theorem ma_step_present_inv (scale : T → F → T) (add : T → T → Except Panic T) (fin : T → F → T)
    (zero : Option T) (window : Int) (hw : 0 < window) (Pin Pacc : T → Prop)
    (hs : ∀ v w, Pin v → Pacc (scale v w))
    (ha : ∀ a b, Pacc a → Pacc b → ∃ c, add a b = .ok c ∧ Pacc c)
    (hz : ∀ z, zero = some z → Pacc z)
    (s : MaS T) (o : Datum T) (hq : ∀ d ∈ s.queue, Pin d.value) (ho : Pin o.value)
    (hsort : Sorted s.queue) (hle : ∀ d ∈ s.queue, d.time ≤ o.time) :
    ∃ q v, Ma.accumulate scale add zero (maTerms (o.time - window) q) = .ok (some v) ∧
      Ma.step scale add fin zero window s (.ok (some o)) =
        .ok (⟨.ok (some ⟨o.time, fin v (secs window)⟩), q⟩, .ok ()) ∧
      WinQueue window o q ∧ q = maWindow window s.queue o ∧ (∀ d ∈ q, d ∈ s.queue ∨ d = o) := by
  obtain ⟨pre, q', v, e, hacc, hstep, hpre, hhead, hwin⟩ :=
    ma_step_present_ok scale add fin zero window hw Pin Pacc hs ha hz s o hq ho
  have hsub : ∀ d ∈ q', d ∈ s.queue := fun d hd => by rw [e]; exact List.mem_append_right _ hd
  have hsorted : Sorted (q' ++ [o]) := by
    rw [e] at hsort
    have h2 := (List.pairwise_append.1 hsort).2.1
    refine List.pairwise_append.2 ⟨h2, List.pairwise_singleton _ _, ?_⟩
    intro a ha' b hb
    simp at hb
    subst hb
    exact hle a (hsub a ha')
  have hgt := sorted_head_lt (o.time - window) (q' ++ [o]) hsorted hhead
  have hmem : ∀ d ∈ q' ++ [o], d ∈ s.queue ∨ d = o := by
    intro d hd
    rcases List.mem_append.1 hd with hd | hd
    · exact Or.inl (hsub d hd)
    · simp at hd; exact Or.inr hd
  refine ⟨q' ++ [o], v, hacc, hstep, ⟨by simp, hsorted, ?_, q', rfl⟩, hwin, hmem⟩
  intro d hd
  refine ⟨hgt d hd, ?_⟩
  rcases hmem d hd with h | h
  · exact hle d h
  · subst h; exact Int.le_refl _

/-- general inductive form: from any state whose queue is sorted and not newer than all coming samples (and
not newer than `B`), a non-decreasing history bounded by `B` runs without panic into such a state -/
theorem ma_run_inv (scale : T → F → T) (add : T → T → Except Panic T) (fin : T → F → T)
    (zero : Option T) (window : Int) (hw : 0 < window) (Pin Pacc : T → Prop)
    (hs : ∀ v w, Pin v → Pacc (scale v w))
    (ha : ∀ a b, Pacc a → Pacc b → ∃ c, add a b = .ok c ∧ Pacc c)
    (hz : ∀ z, zero = some z → Pacc z) (B : Int)
    (evs : List (Output T)) (hin : ∀ d, Except.ok (some d) ∈ evs → Pin d.value) (hmono : NonDecr evs)
    (hB : ∀ t ∈ presentTimes evs, t ≤ B)
    (s : MaS T) (hq : ∀ d ∈ s.queue, Pin d.value) (hsort : Sorted s.queue)
    (hfut : ∀ d ∈ s.queue, ∀ t ∈ presentTimes evs, d.time ≤ t) (hsB : ∀ d ∈ s.queue, d.time ≤ B) :
    ∃ s', runE (Ma.step scale add fin zero window) s evs = .ok s' ∧ Sorted s'.queue ∧
      (∀ d ∈ s'.queue, Pin d.value) ∧ (∀ d ∈ s'.queue, d.time ≤ B) := by
  induction evs generalizing s with
  | nil => exact ⟨s, rfl, hsort, hq, hsB⟩
  | cons e es ih =>
    have hin' : ∀ d, Except.ok (some d) ∈ es → Pin d.value := fun d hd => hin d (List.mem_cons_of_mem _ hd)
    by_cases hp : ∃ d, e = .ok (some d)
    · obtain ⟨o, rfl⟩ := hp
      simp only [NonDecr, presentTimes, List.pairwise_cons] at hmono
      simp only [presentTimes, List.mem_cons, forall_eq_or_imp] at hB hfut
      obtain ⟨q, v, _, hstep, hwq, _, hmem⟩ := ma_step_present_inv scale add fin zero window hw Pin Pacc hs ha hz
        s o hq (hin o (List.mem_cons_self ..)) hsort (fun d hd => (hfut d hd).1)
      simp only [runE, hstep]
      apply ih hin' hmono.2 hB.2
      · intro d hd
        rcases hmem d hd with h | h
        · exact hq d h
        · subst h; exact hin _ (List.mem_cons_self ..)
      · exact hwq.2.1
      · intro d hd t ht
        rcases hmem d hd with h | h
        · exact (hfut d h).2 t ht
        · subst h; exact hmono.1 t ht
      · intro d hd
        rcases hmem d hd with h | h
        · exact hsB d h
        · subst h; exact hB.1
    · obtain ⟨s', r, hstep, hq'⟩ := ma_step_other_ok scale add fin zero window s e
        (fun d hd => hp ⟨d, hd⟩)
      have hpt : presentTimes (e :: es) = presentTimes es := by
        match e, hp with
        | .error _, _ => rfl
        | .ok none, _ => rfl
        | .ok (some d), hp => exact absurd ⟨d, rfl⟩ hp
      simp only [NonDecr, hpt] at hmono hB hfut
      simp only [runE, hstep]
      rcases hq' with hq' | hq'
      · apply ih hin' hmono hB <;> rw [hq'] <;> assumption
      · apply ih hin' hmono hB
        · rw [hq']; intro d hd; cases hd
        · rw [hq']; exact List.Pairwise.nil
        · rw [hq']; intro d hd; cases hd
        · rw [hq']; intro d hd; cases hd

/-- **A2, for every history**: after any non-decreasing history followed by a present sample `o` the run has
not panicked, the update returned `Ok(())`-state with value at time `o.time`, and the queue is non-empty,
sorted, inside `(o.time − window, o.time]`, and ends with `o`. -/
theorem ma_queue_invariant (scale : T → F → T) (add : T → T → Except Panic T) (fin : T → F → T)
    (zero : Option T) (window : Int) (hw : 0 < window) (Pin Pacc : T → Prop)
    (hs : ∀ v w, Pin v → Pacc (scale v w))
    (ha : ∀ a b, Pacc a → Pacc b → ∃ c, add a b = .ok c ∧ Pacc c)
    (hz : ∀ z, zero = some z → Pacc z)
    (pre : List (Output T)) (o : Datum T)
    (hin : ∀ d, Except.ok (some d) ∈ pre ++ [.ok (some o)] → Pin d.value)
    (hmono : NonDecr (pre ++ [.ok (some o)])) :
    ∃ s v, runE (Ma.step scale add fin zero window) Ma.init (pre ++ [.ok (some o)]) = .ok s ∧
      s.value = .ok (some ⟨o.time, fin v (secs window)⟩) ∧
      Ma.accumulate scale add zero (maTerms (o.time - window) s.queue) = .ok (some v) ∧
      WinQueue window o s.queue := by
  have hpt : presentTimes (pre ++ [Except.ok (some o)]) = presentTimes pre ++ [o.time] := by
    rw [presentTimes_append]; rfl
  simp only [NonDecr, hpt] at hmono
  obtain ⟨hm1, _, hm3⟩ := List.pairwise_append.1 hmono
  have hB : ∀ t ∈ presentTimes pre, t ≤ o.time := fun t ht => hm3 t ht o.time (by simp)
  obtain ⟨s1, hrun, hsort, hq, hsB⟩ := ma_run_inv scale add fin zero window hw Pin Pacc hs ha hz o.time pre
    (fun d hd => hin d (List.mem_append_left _ hd)) hm1 hB Ma.init
    (fun _ h => by cases h) List.Pairwise.nil (fun _ h => by cases h) (fun _ h => by cases h)
  obtain ⟨q, v, hacc, hstep, hwq, _, _⟩ := ma_step_present_inv scale add fin zero window hw Pin Pacc hs ha hz
    s1 o hq (hin o (by simp)) hsort hsB
  refine ⟨⟨.ok (some ⟨o.time, fin v (secs window)⟩), q⟩, v, ?_, rfl, hacc, hwq⟩
  rw [runE_append, hrun]
  simp only [runE, hstep]

/-! ### A3, A4: the weights (nanoseconds, exact integer arithmetic) -/

theorem weights_nonneg_aux (cut : Int) (q : List (Datum T)) (hs : Sorted q) (hc : ∀ d ∈ q, cut ≤ d.time) :
    ∀ w ∈ Ma.weightsNs cut q, 0 ≤ w := by
  induction q generalizing cut with
  | nil => intro w hw; cases hw
  | cons d ds ih =>
    intro w hw
    simp only [Ma.weightsNs, List.mem_cons] at hw
    have hp := List.pairwise_cons.1 hs
    rcases hw with hw | hw
    · have := hc d (List.mem_cons_self ..); omega
    · exact ih d.time hp.2 hp.1 w hw

/-- the time-in-window each sample covers: `t_i − t_{i−1}` with `t_0 = cut`; the sum telescopes -/
theorem weights_sum_snoc (cut : Int) (q' : List (Datum T)) (o : Datum T) :
    (Ma.weightsNs cut (q' ++ [o])).sum = o.time - cut := by
  induction q' generalizing cut with
  | nil => simp [Ma.weightsNs]
  | cons d ds ih =>
    simp only [List.cons_append, Ma.weightsNs, List.sum_cons, ih]
    omega

/-- **A3**: all weights are non-negative, the first one is strictly positive -/
theorem ma_weights_nonneg (window : Int) (o : Datum T) (q : List (Datum T)) (h : WinQueue window o q) :
    (∀ w ∈ Ma.weightsNs (o.time - window) q, 0 ≤ w) ∧
    (∃ w ws, Ma.weightsNs (o.time - window) q = w :: ws ∧ 0 < w) := by
  obtain ⟨hne, hs, hr, _⟩ := h
  refine ⟨weights_nonneg_aux _ q hs (fun d hd => Int.le_of_lt (hr d hd).1), ?_⟩
  cases q with
  | nil => exact absurd rfl hne
  | cons d ds =>
    refine ⟨_, _, rfl, ?_⟩
    have := (hr d (List.mem_cons_self ..)).1
    omega

/-- **A4**: the weights sum to the window length EXACTLY -/
theorem ma_weights_sum_window (window : Int) (o : Datum T) (q : List (Datum T)) (h : WinQueue window o q) :
    (Ma.weightsNs (o.time - window) q).sum = window := by
  obtain ⟨_, _, _, q', rfl⟩ := h
  rw [weights_sum_snoc]
  omega

theorem le_sum_of_nonneg (l : List Int) (h : ∀ w ∈ l, 0 ≤ w) : 0 ≤ l.sum ∧ ∀ w ∈ l, w ≤ l.sum := by
  induction l with
  | nil => exact ⟨by simp, fun w hw => by cases hw⟩
  | cons x xs ih =>
    have hx := h x (List.mem_cons_self ..)
    obtain ⟨h0, hle⟩ := ih (fun w hw => h w (List.mem_cons_of_mem _ hw))
    refine ⟨by simp only [List.sum_cons]; omega, ?_⟩
    intro w hw
    simp only [List.sum_cons]
    rcases List.mem_cons.1 hw with hw | hw
    · omega
    · have := hle w hw; omega

/-- consequently every weight lies in `[0, window]`: the `i64` subtractions `end_times[i] - start_times[i]`
cannot overflow; the only subtraction that can is `output.time - window` itself (see the report) -/
theorem ma_weights_le_window (window : Int) (o : Datum T) (q : List (Datum T)) (h : WinQueue window o q) :
    ∀ w ∈ Ma.weightsNs (o.time - window) q, 0 ≤ w ∧ w ≤ window := by
  intro w hw
  have h1 := (ma_weights_nonneg window o q h).1
  have h2 := (le_sum_of_nonneg _ h1).2 w hw
  rw [ma_weights_sum_window window o q h] at h2
  exact ⟨h1 w hw, h2⟩

/-- as many weights as samples -/
theorem ma_weights_length (cut : Int) (q : List (Datum T)) : (Ma.weightsNs cut q).length = q.length :=
  weightsNs_length cut q

/-! ### A5: error and absent events -/

/-- an error event: the error is cached and returned by both `update` and `get`, the queue is emptied -/
theorem ma_error_event (scale : T → F → T) (add : T → T → Except Panic T) (fin : T → F → T)
    (zero : Option T) (window : Int) (s : MaS T) (e : Err) :
    Ma.step scale add fin zero window s (.error e) = .ok (⟨.error e, []⟩, .error e) ∧
    Ma.get (⟨.error e, []⟩ : MaS T) = .error e := ⟨rfl, rfl⟩

/-- an absent event: `update` returns `Ok(())`, the queue is untouched, the value is untouched except that a
cached error becomes `Ok(None)` -/
theorem ma_absent_event (scale : T → F → T) (add : T → T → Except Panic T) (fin : T → F → T)
    (zero : Option T) (window : Int) (s : MaS T) :
    Ma.step scale add fin zero window s (.ok none) =
      .ok (⟨match s.value with | .error _ => .ok none | .ok v => .ok v, s.queue⟩, .ok ()) := by
  obtain ⟨v, q⟩ := s
  cases v <;> rfl

/-- in particular an absent event on a state without cached error changes nothing -/
theorem ma_absent_event_ok (scale : T → F → T) (add : T → T → Except Panic T) (fin : T → F → T)
    (zero : Option T) (window : Int) (s : MaS T) (v : Option (Datum T)) (h : s.value = .ok v) :
    Ma.step scale add fin zero window s (.ok none) = .ok (s, .ok ()) := by
  obtain ⟨v', q⟩ := s
  cases h
  rfl

/-! ### A6: the output formula -/

/-- `Σ value_i * w_i` summed in queue order with a pure `plus`, from `zero` (generic impl) or from the first
term (Quantity impl) -/
def maSum (scale : T → F → T) (plus : T → T → T) : Option T → List (T × F) → Option T
  | some z, l => some (l.foldl (fun a p => plus a (scale p.1 p.2)) z)
  | none, [] => none
  | none, p :: rest => some (rest.foldl (fun a p => plus a (scale p.1 p.2)) (scale p.1 p.2))

theorem accumulate_some_eq (scale : T → F → T) (add : T → T → Except Panic T) (plus : T → T → T)
    (hadd : ∀ a b, add a b = .ok (plus a b)) (l : List (T × F)) (a : T) :
    Ma.accumulate scale add (some a) l = .ok (some (l.foldl (fun a p => plus a (scale p.1 p.2)) a)) := by
  induction l generalizing a with
  | nil => rfl
  | cons p rest ih =>
    obtain ⟨v, w⟩ := p
    simp only [Ma.accumulate, hadd, List.foldl_cons]
    exact ih _

theorem accumulate_eq_maSum (scale : T → F → T) (add : T → T → Except Panic T) (plus : T → T → T)
    (hadd : ∀ a b, add a b = .ok (plus a b)) (zero : Option T) (l : List (T × F)) :
    Ma.accumulate scale add zero l = .ok (maSum scale plus zero l) := by
  cases zero with
  | some z => exact accumulate_some_eq scale add plus hadd l z
  | none =>
    cases l with
    | nil => rfl
    | cons p rest =>
      obtain ⟨v, w⟩ := p
      simp only [Ma.accumulate, maSum]
      exact accumulate_some_eq scale add plus hadd rest _

/-- **A6**: on a present sample `o` (any previous state, `window > 0`) the new queue is the non-incremental
`maWindow` (push, drop the front while `time ≤ o.time − window`) and the new value is
`fin (Σ_in order scale v_i (secs w_i)) (secs window)` at time `o.time`; `update` returns `Ok(())`. -/
theorem ma_output_formula (scale : T → F → T) (add : T → T → Except Panic T) (plus : T → T → T)
    (fin : T → F → T) (zero : Option T) (window : Int) (hw : 0 < window)
    (hadd : ∀ a b, add a b = .ok (plus a b)) (s : MaS T) (o : Datum T) :
    ∃ v, maSum scale plus zero (maTerms (o.time - window) (maWindow window s.queue o)) = some v ∧
      Ma.step scale add fin zero window s (.ok (some o)) =
        .ok (⟨.ok (some ⟨o.time, fin v (secs window)⟩), maWindow window s.queue o⟩, .ok ()) := by
  obtain ⟨pre, q', v, _, hacc, hstep, _, _, hwin⟩ :=
    ma_step_present_ok scale add fin zero window hw (fun _ => True) (fun _ => True) (fun _ _ _ => trivial)
      (fun a b _ _ => ⟨plus a b, hadd a b, trivial⟩) (fun _ _ => trivial) s o (fun _ _ => trivial) trivial
  rw [hwin] at hacc hstep
  rw [accumulate_eq_maSum scale add plus hadd] at hacc
  injection hacc with hacc
  exact ⟨v, hacc, hstep⟩

/-- the weights that enter the formula are the nanosecond weights converted by `secs`, one per sample,
paired in queue order -/
theorem maTerms_eq (cut : Int) (q : List (Datum T)) :
    (maTerms (F := F) cut q).map Prod.fst = q.map (·.value) ∧
    (maTerms (F := F) cut q).map Prod.snd = (Ma.weightsNs cut q).map (fun n => (secs n : F)) := by
  have hl : (q.map (·.value)).length = ((Ma.weightsNs cut q).map (fun n => (secs n : F))).length := by
    simp [weightsNs_length]
  constructor
  · simp only [maTerms]
    rw [List.map_fst_zip]
    omega
  · simp only [maTerms]
    rw [List.map_snd_zip]
    omega

/-! ### the window over a whole history: exactly the samples since the last error that are newer than
`o.time − window` -/

theorem dropWhile_of_all {α : Type} (p : α → Bool) (a l : List α) (h : ∀ x ∈ a, p x = true) :
    (a ++ l).dropWhile p = l.dropWhile p := by
  induction a with
  | nil => rfl
  | cons x xs ih =>
    have hx := h x (List.mem_cons_self ..)
    simp only [List.cons_append, List.dropWhile_cons, hx, if_true]
    exact ih (fun y hy => h y (List.mem_cons_of_mem _ hy))

theorem sorted_dropWhile_eq_filter (c : Int) (l : List (Datum T)) (hs : Sorted l) :
    l.dropWhile (fun d => decide (d.time ≤ c)) = l.filter (fun d => decide (c < d.time)) := by
  induction l with
  | nil => rfl
  | cons x xs ih =>
    have hp := List.pairwise_cons.1 hs
    by_cases hx : x.time ≤ c
    · have hx' : ¬ c < x.time := by omega
      simp only [List.dropWhile_cons, List.filter_cons, hx, hx', decide_true, decide_false, if_true]
      exact ih hp.2
    · have hx' : c < x.time := by omega
      simp only [List.dropWhile_cons, List.filter_cons, hx, hx', decide_true, decide_false]
      have : xs.filter (fun d => decide (c < d.time)) = xs := by
        apply List.filter_eq_self.2
        intro d hd
        have := hp.1 d hd
        simp only [decide_eq_true_eq]
        omega
      simp [this]

theorem sinceReset_append (acc : List (Datum T)) (l₁ l₂ : List (Output T)) :
    sinceReset acc (l₁ ++ l₂) = sinceReset (sinceReset acc l₁) l₂ := by
  induction l₁ generalizing acc with
  | nil => rfl
  | cons e es ih =>
    match e with
    | .ok (some d) => exact ih _
    | .ok none => exact ih _
    | .error _ => exact ih _

/-- inductive form: the queue is always a suffix of the samples since the last error; what has been
dropped is too old for every coming sample; the samples since the last error stay sorted -/
theorem ma_run_window (scale : T → F → T) (add : T → T → Except Panic T) (fin : T → F → T)
    (zero : Option T) (window : Int) (hw : 0 < window) (fut : List Int)
    (evs : List (Output T)) (hmono : (presentTimes evs ++ fut).Pairwise (· ≤ ·))
    (s s' : MaS T) (hrun : runE (Ma.step scale add fin zero window) s evs = .ok s')
    (acc A : List (Datum T)) (hacc : acc = A ++ s.queue)
    (hA : ∀ d ∈ A, ∀ t ∈ presentTimes evs ++ fut, d.time ≤ t - window)
    (hsort : Sorted acc) (hfut : ∀ d ∈ acc, ∀ t ∈ presentTimes evs ++ fut, d.time ≤ t) :
    ∃ A', sinceReset acc evs = A' ++ s'.queue ∧ (∀ d ∈ A', ∀ t ∈ fut, d.time ≤ t - window) ∧
      Sorted (sinceReset acc evs) ∧ (∀ d ∈ sinceReset acc evs, ∀ t ∈ fut, d.time ≤ t) := by
  induction evs generalizing s acc A with
  | nil =>
    simp only [runE] at hrun
    injection hrun with hrun
    subst hrun
    exact ⟨A, hacc, fun d hd t ht => hA d hd t (by simpa [presentTimes] using ht), hsort,
      fun d hd t ht => hfut d hd t (by simpa [presentTimes] using ht)⟩
  | cons e es ih =>
    match e with
    | .error er =>
      simp only [runE, Ma.step] at hrun
      simp only [presentTimes] at hmono hA hfut
      exact ih hmono _ hrun [] [] rfl (fun _ h => by cases h) List.Pairwise.nil (fun _ h => by cases h)
    | .ok none =>
      simp only [presentTimes] at hmono hA hfut
      have hstep := ma_absent_event scale add fin zero window s
      simp only [runE, hstep] at hrun
      exact ih hmono _ hrun acc A hacc hA hsort hfut
    | .ok (some o) =>
      simp only [presentTimes, List.cons_append, List.pairwise_cons] at hmono
      simp only [presentTimes, List.cons_append, List.mem_cons, forall_eq_or_imp] at hA hfut
      cases hstep : Ma.step scale add fin zero window s (.ok (some o)) with
      | error p => simp only [runE, hstep] at hrun; cases hrun
      | ok r =>
        simp only [runE, hstep] at hrun
        obtain ⟨pre, q', e1, ht, hp, _⟩ := trim_snoc (o.time - window) s.queue o (by omega)
        have hq : r.1.queue = q' ++ [o] := by
          simp only [Ma.step, ht] at hstep
          split at hstep
          · cases hstep
          · cases hstep
          · injection hstep with hstep
            rw [← hstep]
        simp only [sinceReset]
        refine ih hmono.2 _ hrun (acc ++ [o]) (A ++ pre) ?_ ?_ ?_ ?_
        · rw [hq, hacc, e1]; simp
        · intro d hd t ht'
          rcases List.mem_append.1 hd with hd | hd
          · exact (hA d hd).2 t ht'
          · have h1 := hp d hd
            have h2 := hmono.1 t ht'
            omega
        · refine List.pairwise_append.2 ⟨hsort, List.pairwise_singleton _ _, ?_⟩
          intro a ha b hb
          simp at hb
          subst hb
          exact (hfut a ha).1
        · intro d hd t ht'
          rcases List.mem_append.1 hd with hd | hd
          · exact (hfut d hd).2 t ht'
          · simp at hd
            subst hd
            exact hmono.1 t ht'

/-- **The window is what the property says**: after a non-decreasing history `pre` followed by a present
sample `o`, the queue holds exactly the samples received since the last error event (including `o`) whose
timestamp is newer than `o.time − window`, in arrival order.  (No assumption on `add`: if the run did not
panic, this is the queue.) -/
theorem ma_queue_is_window (scale : T → F → T) (add : T → T → Except Panic T) (fin : T → F → T)
    (zero : Option T) (window : Int) (hw : 0 < window) (pre : List (Output T)) (o : Datum T)
    (hmono : NonDecr (pre ++ [.ok (some o)])) (s : MaS T)
    (hrun : runE (Ma.step scale add fin zero window) Ma.init (pre ++ [.ok (some o)]) = .ok s) :
    s.queue = (sinceReset [] (pre ++ [.ok (some o)])).filter (fun d => decide (o.time - window < d.time)) ∧
    sinceReset [] (pre ++ [.ok (some o)]) = sinceReset [] pre ++ [o] := by
  have hpt : presentTimes (pre ++ [Except.ok (some o)]) = presentTimes pre ++ [o.time] := by
    rw [presentTimes_append]; rfl
  simp only [NonDecr, hpt] at hmono
  rw [runE_append] at hrun
  cases h1 : runE (Ma.step scale add fin zero window) Ma.init pre with
  | error p => rw [h1] at hrun; cases hrun
  | ok s1 =>
    rw [h1] at hrun
    obtain ⟨A, hA1, hA2, hsort, hle⟩ := ma_run_window scale add fin zero window hw [o.time] pre hmono
      Ma.init s1 h1 [] [] rfl (fun _ h => by cases h) List.Pairwise.nil (fun _ h => by cases h)
    have hsr : sinceReset [] (pre ++ [Except.ok (some o)]) = sinceReset [] pre ++ [o] := by
      rw [sinceReset_append]; rfl
    refine ⟨?_, hsr⟩
    have hsorted : Sorted (sinceReset [] pre ++ [o]) := by
      refine List.pairwise_append.2 ⟨hsort, List.pairwise_singleton _ _, ?_⟩
      intro a ha b hb
      simp at hb
      subst hb
      exact hle a ha b.time (by simp)
    rw [hsr, ← sorted_dropWhile_eq_filter _ _ hsorted, hA1, List.append_assoc,
      dropWhile_of_all _ A _ (fun x hx => by simpa using hA2 x hx o.time (by simp))]
    cases hstep : Ma.step scale add fin zero window s1 (.ok (some o)) with
    | error p => simp only [runE, hstep] at hrun; cases hrun
    | ok r =>
      simp only [runE, hstep] at hrun
      injection hrun with hrun
      subst hrun
      simp only [Ma.step] at hstep
      cases ht : Ma.trim (o.time - window) (s1.queue ++ [o]) with
      | error p => rw [ht] at hstep; cases hstep
      | ok q =>
        rw [ht] at hstep
        simp only at hstep
        have hq := trim_ok_eq_dropWhile _ _ _ ht
        split at hstep
        · cases hstep
        · cases hstep
        · injection hstep with hstep
          rw [← hstep]
          exact hq

/-! ## tier S: EWMA -/

/-- `λ = 1 − (1 − smoothing)^Δt`, `Δt` given in nanoseconds and converted like the code does -/
def ewmaLambda (smoothing : F) (dtNs : Int) : F := c1 - FloatLike.powf (c1 - smoothing) (secs dtNs)

/-- what a present sample `o` does to a previous value `pv` that is `dtNs` old -/
def ewmaNext (scale : T → F → T) (add : T → T → Except Panic T) (smoothing : F) (pv : T) (dtNs : Int)
    (o : Datum T) : Except Panic (EwmaS T × UpdRet) :=
  match add (scale pv (c1 - ewmaLambda smoothing dtNs)) (scale o.value (ewmaLambda smoothing dtNs)) with
  | .error p => .error p
  | .ok v => .ok (⟨.ok (some ⟨o.time, v⟩), some o.time⟩, .ok ())

/-- **B, formula**: with a previous value `prev` recorded at `tp`, the new value is
`add (scale prev (1 − L)) (scale new L)`, `L = 1 − powf (1 − smoothing) (secs (o.time − tp))`, stamped `o.time`. -/
theorem ewma_formula (scale : T → F → T) (add : T → T → Except Panic T) (smoothing : F)
    (s : EwmaS T) (o prev : Datum T) (tp : Int) (hv : s.value = .ok (some prev)) (ht : s.updateTime = some tp) :
    Ewma.step scale add smoothing s (.ok (some o)) = ewmaNext scale add smoothing prev.value (o.time - tp) o := by
  obtain ⟨v, t⟩ := s
  cases hv
  cases ht
  rfl

/-- **B, first sample**: when no value is held (initially, after an error, after error-then-absent) the same
formula is applied with `prev = o` and `Δt = 0` -/
theorem ewma_first_sample (scale : T → F → T) (add : T → T → Except Panic T) (smoothing : F)
    (s : EwmaS T) (o : Datum T) (hv : ∀ v, s.value ≠ .ok (some v)) :
    Ewma.step scale add smoothing s (.ok (some o)) = ewmaNext scale add smoothing o.value 0 o := by
  obtain ⟨v, t⟩ := s
  match v, hv with
  | .ok (some v), hv => exact absurd rfl (hv v)
  | .ok none, _ => simp only [Ewma.step, ewmaNext, ewmaLambda, Int.sub_self]; rfl
  | .error _, _ => simp only [Ewma.step, ewmaNext, ewmaLambda, Int.sub_self]; rfl

/-- the three ways of holding no value -/
theorem ewma_no_value_cases (scale : T → F → T) (add : T → T → Except Panic T) (smoothing : F) (e : Err)
    (s : EwmaS T) :
    (∀ v, (Ewma.init : EwmaS T).value ≠ .ok (some v)) ∧
    (∀ s1 r, Ewma.step scale add smoothing s (.error e) = .ok (s1, r) → ∀ v, s1.value ≠ .ok (some v)) ∧
    (∀ s1 r s2 r2, Ewma.step scale add smoothing s (.error e) = .ok (s1, r) →
      Ewma.step scale add smoothing s1 (.ok none) = .ok (s2, r2) → ∀ v, s2.value ≠ .ok (some v)) := by
  refine ⟨fun v h => (by cases h), ?_, ?_⟩
  · intro s1 r h v hv
    simp only [Ewma.step] at h
    injection h with h
    injection h with h1 _
    rw [← h1] at hv
    cases hv
  · intro s1 r s2 r2 h h2 v hv
    simp only [Ewma.step] at h
    injection h with h
    injection h with h1 _
    rw [← h1] at h2
    simp only [Ewma.step] at h2
    injection h2 with h2
    injection h2 with h3 _
    rw [← h3] at hv
    cases hv

/-- error event: cached and returned, `update_time` cleared -/
theorem ewma_error_event (scale : T → F → T) (add : T → T → Except Panic T) (smoothing : F)
    (s : EwmaS T) (e : Err) :
    Ewma.step scale add smoothing s (.error e) = .ok (⟨.error e, none⟩, .error e) ∧
    Ewma.get (⟨.error e, none⟩ : EwmaS T) = .error e := ⟨rfl, rfl⟩

/-- absent event: `Ok(())`; nothing changes except that a cached error becomes `Ok(None)` -/
theorem ewma_absent_event (scale : T → F → T) (add : T → T → Except Panic T) (smoothing : F) (s : EwmaS T) :
    Ewma.step scale add smoothing s (.ok none) =
      .ok (match s.value with | .error _ => ⟨.ok none, none⟩ | .ok _ => s, .ok ()) := by
  obtain ⟨v, t⟩ := s
  cases v <;> rfl

/-- the invariant that makes `.expect("update_time must be Some if value is")` unreachable -/
def EwmaInv (s : EwmaS T) : Prop := ∀ v, s.value = .ok (some v) → s.updateTime = some v.time

theorem ewmaNext_ok (scale : T → F → T) (add : T → T → Except Panic T) (smoothing : F) (P : T → Prop)
    (hs : ∀ v w, P v → P (scale v w)) (ha : ∀ a b, P a → P b → ∃ c, add a b = .ok c ∧ P c)
    (pv : T) (dt : Int) (o : Datum T) (hpv : P pv) (ho : P o.value) :
    ∃ c, ewmaNext scale add smoothing pv dt o = .ok (⟨.ok (some ⟨o.time, c⟩), some o.time⟩, .ok ()) ∧ P c := by
  obtain ⟨c, hc, pc⟩ := ha _ _ (hs pv (c1 - ewmaLambda smoothing dt) hpv) (hs o.value (ewmaLambda smoothing dt) ho)
  exact ⟨c, by simp only [ewmaNext, hc], pc⟩

/-- one update preserves the invariant and never panics (`P`: a class containing the samples, closed under
`scale`, on which `add` is total and closed; for f32 everything) -/
theorem ewma_step_ok (scale : T → F → T) (add : T → T → Except Panic T) (smoothing : F) (P : T → Prop)
    (hs : ∀ v w, P v → P (scale v w)) (ha : ∀ a b, P a → P b → ∃ c, add a b = .ok c ∧ P c)
    (s : EwmaS T) (inp : Output T) (hinv : EwmaInv s) (hsv : ∀ v, s.value = .ok (some v) → P v.value)
    (hin : ∀ d, inp = .ok (some d) → P d.value) :
    ∃ s' r, Ewma.step scale add smoothing s inp = .ok (s', r) ∧ EwmaInv s' ∧
      (∀ v, s'.value = .ok (some v) → P v.value) := by
  match inp, hin with
  | .error e, _ => exact ⟨_, _, rfl, fun v h => (by cases h), fun v h => (by cases h)⟩
  | .ok none, _ =>
    rw [ewma_absent_event]
    obtain ⟨v, t⟩ := s
    cases v with
    | error e => exact ⟨_, _, rfl, fun v h => (by cases h), fun v h => (by cases h)⟩
    | ok v => exact ⟨_, _, rfl, hinv, hsv⟩
  | .ok (some o), hin =>
    have ho := hin o rfl
    by_cases hv : ∃ prev, s.value = .ok (some prev)
    · obtain ⟨prev, hv⟩ := hv
      rw [ewma_formula scale add smoothing s o prev prev.time hv (hinv prev hv)]
      obtain ⟨c, hc, pc⟩ := ewmaNext_ok scale add smoothing P hs ha prev.value (o.time - prev.time) o (hsv prev hv) ho
      refine ⟨_, _, hc, ?_, ?_⟩
      · intro v h; injection h with h; injection h with h; rw [← h]
      · intro v h; injection h with h; injection h with h; rw [← h]; exact pc
    · rw [ewma_first_sample scale add smoothing s o (fun v h => hv ⟨v, h⟩)]
      obtain ⟨c, hc, pc⟩ := ewmaNext_ok scale add smoothing P hs ha o.value 0 o ho ho
      refine ⟨_, _, hc, ?_, ?_⟩
      · intro v h; injection h with h; injection h with h; rw [← h]
      · intro v h; injection h with h; injection h with h; rw [← h]; exact pc

/-- **B, no panic, every history**: from the initial state (or any state satisfying the invariant) no EWMA
update panics, whatever the events and timestamps (monotone or not), and the invariant holds at the end. -/
theorem ewma_no_panic_closed (scale : T → F → T) (add : T → T → Except Panic T) (smoothing : F) (P : T → Prop)
    (hs : ∀ v w, P v → P (scale v w)) (ha : ∀ a b, P a → P b → ∃ c, add a b = .ok c ∧ P c)
    (evs : List (Output T)) (hin : ∀ d, Except.ok (some d) ∈ evs → P d.value)
    (s : EwmaS T) (hinv : EwmaInv s) (hsv : ∀ v, s.value = .ok (some v) → P v.value) :
    ∃ s', runE (Ewma.step scale add smoothing) s evs = .ok s' ∧ EwmaInv s' := by
  induction evs generalizing s with
  | nil => exact ⟨s, rfl, hinv⟩
  | cons e es ih =>
    obtain ⟨s1, r, hstep, hinv1, hsv1⟩ := ewma_step_ok scale add smoothing P hs ha s e hinv hsv
      (fun d hd => hin d (by rw [hd]; exact List.mem_cons_self ..))
    simp only [runE, hstep]
    exact ih (fun d hd => hin d (List.mem_cons_of_mem _ hd)) s1 hinv1 hsv1

theorem ewma_init_inv : EwmaInv (Ewma.init : EwmaS T) := fun v h => by cases h

/-- B, no panic, `add` total -/
theorem ewma_no_panic (scale : T → F → T) (add : T → T → Except Panic T) (smoothing : F)
    (hadd : ∀ a b, ∃ c, add a b = .ok c) (evs : List (Output T)) :
    ∃ s', runE (Ewma.step scale add smoothing) Ewma.init evs = .ok s' := by
  obtain ⟨s', h, _⟩ := ewma_no_panic_closed scale add smoothing (fun _ => True) (fun _ _ _ => trivial)
    (fun a b _ _ => by obtain ⟨c, hc⟩ := hadd a b; exact ⟨c, hc, trivial⟩) evs (fun _ _ => trivial)
    Ewma.init ewma_init_inv (fun _ _ => trivial)
  exact ⟨s', h⟩

theorem ewma_no_panic_f32 (smoothing : F) (evs : List (Output F)) :
    ∃ s', runE (Ewma.step scaleF addF smoothing) Ewma.init evs = .ok s' :=
  ewma_no_panic scaleF addF smoothing (fun a b => ⟨a + b, rfl⟩) evs

theorem scaleQdl_unit (q : Quantity F) (x : F) : (scaleQdl true q x).unit = q.unit := by
  simp [scaleQdl, Quantity.mul, Quantity.dimensionless, DIMENSIONLESS, DUnit.new, DUnit.mul]

/-- B, no panic, Quantity instantiation: all samples carry the same unit (`chk` arbitrary) -/
theorem ewma_no_panic_quantity (chk : Bool) (smoothing : F) (u : DUnit)
    (evs : List (Output (Quantity F))) (hin : ∀ d, Except.ok (some d) ∈ evs → d.value.unit = u) :
    ∃ s', runE (Ewma.step (scaleQdl chk) (Quantity.add chk) smoothing) Ewma.init evs = .ok s' := by
  obtain ⟨s', h, _⟩ := ewma_no_panic_closed (scaleQdl chk) (Quantity.add chk) smoothing
    (fun q => chk = true → q.unit = u)
    (fun v w hv hc => by subst hc; rw [scaleQdl_unit]; exact hv rfl)
    (fun a b pa pb => ⟨_, qadd_same_unit chk a b (fun hc => (pa hc).trans (pb hc).symm), pa⟩)
    evs (fun d hd _ => hin d hd) Ewma.init ewma_init_inv (fun _ h => by cases h)
  exact ⟨s', h⟩

end S

/-! ## tier R: exact arithmetic — convexity, constants, first sample -/
section R
variable {F : Type} [Field F] [LinearOrder F] [IsStrictOrderedRing F] [FloatLike F] [ExactScalar F]

theorem secs_eq (n : Int) : (secs n : F) = (n : F) / 1000000000 := by
  simp [secs, ExactScalar.ofInt_eq]
theorem secs_zero : (secs 0 : F) = 0 := by simp [secs_eq]
theorem secs_add (a b : Int) : (secs (a + b) : F) = secs a + secs b := by
  simp only [secs_eq, Int.cast_add]; ring
theorem secs_nonneg (n : Int) (h : 0 ≤ n) : (0 : F) ≤ secs n := by
  rw [secs_eq]
  have : (0 : F) ≤ (n : F) := by exact_mod_cast h
  positivity
theorem secs_pos (n : Int) (h : 0 < n) : (0 : F) < secs n := by
  rw [secs_eq]
  have : (0 : F) < (n : F) := by exact_mod_cast h
  positivity

theorem sum_map_secs (l : List Int) : (l.map (fun n => (secs n : F))).sum = secs l.sum := by
  induction l with
  | nil => simp [secs_zero]
  | cons x xs ih => simp only [List.map_cons, List.sum_cons, ih, secs_add]

/-- `Σ v_i · w_i` -/
def wsumR (l : List (F × F)) : F := (l.map (fun p => p.1 * p.2)).sum

theorem foldl_eq_sum (l : List (F × F)) (a : F) :
    l.foldl (fun a p => a + scaleF p.1 p.2) a = a + wsumR l := by
  induction l generalizing a with
  | nil => simp [wsumR]
  | cons p rest ih =>
    rw [List.foldl_cons, ih]
    simp only [wsumR, List.map_cons, List.sum_cons, scaleF]
    ring

/-- the generic impl's loop (`T::default()` then `+=`) computes `Σ v_i·w_i` (uses `0 + x = x`) -/
theorem accumulate_f32_eq (l : List (F × F)) :
    Ma.accumulate scaleF addF (some (c0 : F)) l = .ok (some (wsumR l)) := by
  rw [accumulate_eq_maSum scaleF addF (· + ·) (fun _ _ => rfl)]
  simp only [maSum, foldl_eq_sum, c0_eq, zero_add]

theorem wsum_bounds (l : List (F × F)) (lo hi : F) (hw : ∀ p ∈ l, 0 ≤ p.2)
    (hv : ∀ p ∈ l, lo ≤ p.1 ∧ p.1 ≤ hi) :
    lo * (l.map Prod.snd).sum ≤ wsumR l ∧ wsumR l ≤ hi * (l.map Prod.snd).sum := by
  induction l with
  | nil => simp [wsumR]
  | cons p rest ih =>
    obtain ⟨h1, h2⟩ := ih (fun p hp => hw p (List.mem_cons_of_mem _ hp)) (fun p hp => hv p (List.mem_cons_of_mem _ hp))
    have hp := hw p (List.mem_cons_self ..)
    obtain ⟨hl, hh⟩ := hv p (List.mem_cons_self ..)
    have e1 := mul_le_mul_of_nonneg_right hl hp
    have e2 := mul_le_mul_of_nonneg_right hh hp
    simp only [wsumR, List.map_cons, List.sum_cons] at h1 h2 ⊢
    constructor <;> nlinarith

/-- the f32 weights of a window queue: non-negative, summing to the window length in seconds -/
theorem maTerms_weights (window : Int) (o : Datum F) (q : List (Datum F)) (h : WinQueue window o q) :
    (∀ p ∈ maTerms (F := F) (o.time - window) q, 0 ≤ p.2) ∧
    ((maTerms (F := F) (o.time - window) q).map Prod.snd).sum = secs window := by
  constructor
  · intro p hp
    have h2 := (List.of_mem_zip hp).2
    obtain ⟨n, hn, e⟩ := List.mem_map.1 h2
    rw [← e]
    exact secs_nonneg n ((ma_weights_nonneg window o q h).1 n hn)
  · rw [(maTerms_eq _ q).2, sum_map_secs, ma_weights_sum_window window o q h]

/-- **C2 core**: for a window queue, the f32 moving average is `(Σ v_i·w_i)/W` with `w_i ≥ 0`, `Σ w_i = W > 0`,
hence lies between any bounds of the samples in the window -/
theorem ma_value_convex (window : Int) (hw : 0 < window) (o : Datum F) (q : List (Datum F))
    (h : WinQueue window o q) (lo hi : F) (hb : ∀ d ∈ q, lo ≤ d.value ∧ d.value ≤ hi) :
    Ma.accumulate scaleF addF (some (c0 : F)) (maTerms (o.time - window) q) =
      .ok (some (wsumR (maTerms (o.time - window) q))) ∧
    lo ≤ divF (wsumR (maTerms (F := F) (o.time - window) q)) (secs window) ∧
    divF (wsumR (maTerms (F := F) (o.time - window) q)) (secs window) ≤ hi := by
  refine ⟨accumulate_f32_eq _, ?_⟩
  obtain ⟨hw0, hsum⟩ := maTerms_weights window o q h
  have hW : (0 : F) < secs window := secs_pos window hw
  obtain ⟨h1, h2⟩ := wsum_bounds (maTerms (F := F) (o.time - window) q) lo hi hw0 (by
    intro p hp
    obtain ⟨d, hd, e⟩ := mem_maTerms _ _ p hp
    rw [e]; exact hb d hd)
  rw [hsum] at h1 h2
  simp only [divF]
  exact ⟨(le_div_iff₀ hW).2 h1, (div_le_iff₀ hW).2 h2⟩

/-- **C2, one update**: on a present sample not older than a sorted queue, the f32 moving average outputs
`(Σ v_i·w_i)/W` over the window and that number lies between the least and greatest sample in the window -/
theorem ma_convex (window : Int) (hw : 0 < window) (s : MaS F) (o : Datum F)
    (hsort : Sorted s.queue) (hle : ∀ d ∈ s.queue, d.time ≤ o.time) :
    ∃ x, Ma.step scaleF addF divF (some (c0 : F)) window s (.ok (some o)) =
        .ok (⟨.ok (some ⟨o.time, x⟩), maWindow window s.queue o⟩, .ok ()) ∧
      x = wsumR (maTerms (o.time - window) (maWindow window s.queue o)) / secs window ∧
      ∀ lo hi, (∀ d ∈ maWindow window s.queue o, lo ≤ d.value ∧ d.value ≤ hi) → lo ≤ x ∧ x ≤ hi := by
  obtain ⟨q, v, hacc, hstep, hwq, hq, _⟩ := ma_step_present_inv scaleF addF divF (some (c0 : F)) window hw
    (fun _ => True) (fun _ => True) (fun _ _ _ => trivial) (fun a b _ _ => ⟨a + b, rfl, trivial⟩)
    (fun _ _ => trivial) s o (fun _ _ => trivial) trivial hsort hle
  subst hq
  rw [accumulate_f32_eq] at hacc
  injection hacc with hacc
  injection hacc with hacc
  subst hacc
  refine ⟨_, hstep, rfl, ?_⟩
  intro lo hi hb
  exact (ma_value_convex window hw o _ hwq lo hi hb).2

/-- **C2, every history**: after any non-decreasing history followed by a present sample `o`, the f32 moving
average holds a value at time `o.time` that lies between the least and the greatest of the samples received
since the last error whose timestamp is newer than `o.time − window` -/
theorem ma_convex_history (window : Int) (hw : 0 < window) (pre : List (Output F)) (o : Datum F)
    (hmono : NonDecr (pre ++ [.ok (some o)])) :
    ∃ s x, runE (Ma.step scaleF addF divF (some (c0 : F)) window) Ma.init (pre ++ [.ok (some o)]) = .ok s ∧
      Ma.get s = .ok (some ⟨o.time, x⟩) ∧
      s.queue = (sinceReset [] pre ++ [o]).filter (fun d => decide (o.time - window < d.time)) ∧
      x = wsumR (maTerms (o.time - window) s.queue) / secs window ∧
      ∀ lo hi, (∀ d ∈ sinceReset [] pre ++ [o], o.time - window < d.time → lo ≤ d.value ∧ d.value ≤ hi) →
        lo ≤ x ∧ x ≤ hi := by
  obtain ⟨s, v, hrun, hval, hacc, hwq⟩ := ma_queue_invariant scaleF addF divF (some (c0 : F)) window hw
    (fun _ => True) (fun _ => True) (fun _ _ _ => trivial) (fun a b _ _ => ⟨a + b, rfl, trivial⟩)
    (fun _ _ => trivial) pre o (fun _ _ => trivial) hmono
  obtain ⟨hq, hsr⟩ := ma_queue_is_window scaleF addF divF (some (c0 : F)) window hw pre o hmono s hrun
  rw [hsr] at hq
  rw [accumulate_f32_eq] at hacc
  injection hacc with hacc
  injection hacc with hacc
  subst hacc
  refine ⟨s, _, hrun, hval, hq, rfl, ?_⟩
  intro lo hi hb
  refine (ma_value_convex window hw o _ hwq lo hi ?_).2
  intro d hd
  rw [hq] at hd
  obtain ⟨hd1, hd2⟩ := List.mem_filter.1 hd
  exact hb d hd1 (by simpa using hd2)

/-- **constant input ⇒ that constant** (every history: all samples in the window equal `c`) -/
theorem ma_constant (window : Int) (hw : 0 < window) (pre : List (Output F)) (o : Datum F) (c : F)
    (hmono : NonDecr (pre ++ [.ok (some o)]))
    (hc : ∀ d ∈ sinceReset [] pre ++ [o], o.time - window < d.time → d.value = c) :
    ∃ s, runE (Ma.step scaleF addF divF (some (c0 : F)) window) Ma.init (pre ++ [.ok (some o)]) = .ok s ∧
      Ma.get s = .ok (some ⟨o.time, c⟩) := by
  obtain ⟨s, x, hrun, hget, _, _, hb⟩ := ma_convex_history window hw pre o hmono
  obtain ⟨h1, h2⟩ := hb c c (fun d hd ht => by rw [hc d hd ht]; exact ⟨le_refl _, le_refl _⟩)
  have : x = c := le_antisymm h2 h1
  subst this
  exact ⟨s, hrun, hget⟩

/-- **the first sample is returned unchanged**: one update from an empty queue (initial state, after an
error event, after error-then-absent) outputs exactly the sample -/
theorem ma_first_sample (window : Int) (hw : 0 < window) (s : MaS F) (o : Datum F) (hq : s.queue = []) :
    Ma.step scaleF addF divF (some (c0 : F)) window s (.ok (some o)) =
      .ok (⟨.ok (some o), [o]⟩, .ok ()) := by
  obtain ⟨x, hstep, _, hb⟩ := ma_convex window hw s o (by rw [hq]; exact List.Pairwise.nil)
    (by rw [hq]; intro d hd; cases hd)
  have hwin : maWindow window s.queue o = [o] := by
    have : ¬ o.time ≤ o.time - window := by omega
    simp [maWindow, hq, List.dropWhile_cons, this]
  rw [hwin] at hstep hb
  obtain ⟨h1, h2⟩ := hb o.value o.value (by intro d hd; simp at hd; subst hd; exact ⟨le_refl _, le_refl _⟩)
  have : x = o.value := le_antisymm h2 h1
  subst this
  exact hstep

/-! ### EWMA -/

/-- the f32 EWMA update in exact arithmetic: `prev·p + new·(1−p)`, `p = (1−smoothing)^Δt` -/
theorem ewmaNext_f32 (smoothing pv : F) (dt : Int) (o : Datum F) :
    ewmaNext scaleF addF smoothing pv dt o =
      .ok (⟨.ok (some ⟨o.time, pv * FloatLike.powf (1 - smoothing) (secs dt) +
        o.value * (1 - FloatLike.powf (1 - smoothing) (secs dt))⟩), some o.time⟩, .ok ()) := by
  simp only [ewmaNext, addF, scaleF, ewmaLambda, c1_eq]
  congr 6
  ring

theorem convex_bounds (a b p lo hi : F) (hp0 : 0 ≤ p) (hp1 : p ≤ 1)
    (ha : lo ≤ a ∧ a ≤ hi) (hb : lo ≤ b ∧ b ≤ hi) :
    lo ≤ a * p + b * (1 - p) ∧ a * p + b * (1 - p) ≤ hi := by
  have h1 := mul_nonneg (sub_nonneg.2 ha.1) hp0
  have h2 := mul_nonneg (sub_nonneg.2 hb.1) (sub_nonneg.2 hp1)
  have h3 := mul_nonneg (sub_nonneg.2 ha.2) hp0
  have h4 := mul_nonneg (sub_nonneg.2 hb.2) (sub_nonneg.2 hp1)
  constructor <;> nlinarith

/-- **C1, one update**: with `0 ≤ smoothing ≤ 1` and a sample not older than the previous one, the new value
is `prev·(1−L) + new·L` and lies between `min prev new` and `max prev new`.
`hpr` is the only fact about `powf` used: `b ∈ [0,1], d ≥ 0 ⇒ b^d ∈ [0,1]`. -/
theorem ewma_convex (smoothing : F) (h0 : 0 ≤ smoothing) (h1 : smoothing ≤ 1)
    (hpr : ∀ b d : F, 0 ≤ b → b ≤ 1 → 0 ≤ d → 0 ≤ FloatLike.powf b d ∧ FloatLike.powf b d ≤ 1)
    (s : EwmaS F) (o prev : Datum F) (tp : Int) (hv : s.value = .ok (some prev)) (ht : s.updateTime = some tp)
    (hmono : tp ≤ o.time) :
    ∃ x, Ewma.step scaleF addF smoothing s (.ok (some o)) = .ok (⟨.ok (some ⟨o.time, x⟩), some o.time⟩, .ok ()) ∧
      x = prev.value * (1 - ewmaLambda smoothing (o.time - tp)) + o.value * ewmaLambda smoothing (o.time - tp) ∧
      min prev.value o.value ≤ x ∧ x ≤ max prev.value o.value ∧
      ∀ lo hi, lo ≤ prev.value ∧ prev.value ≤ hi → lo ≤ o.value ∧ o.value ≤ hi → lo ≤ x ∧ x ≤ hi := by
  rw [ewma_formula scaleF addF smoothing s o prev tp hv ht, ewmaNext_f32]
  obtain ⟨hp0, hp1⟩ := hpr (1 - smoothing) (secs (o.time - tp)) (by linarith) (by linarith)
    (secs_nonneg _ (by omega))
  have hgen : ∀ lo hi, lo ≤ prev.value ∧ prev.value ≤ hi → lo ≤ o.value ∧ o.value ≤ hi →
      lo ≤ prev.value * FloatLike.powf (1 - smoothing) (secs (o.time - tp)) +
        o.value * (1 - FloatLike.powf (1 - smoothing) (secs (o.time - tp))) ∧
      prev.value * FloatLike.powf (1 - smoothing) (secs (o.time - tp)) +
        o.value * (1 - FloatLike.powf (1 - smoothing) (secs (o.time - tp))) ≤ hi :=
    fun lo hi ha hb => convex_bounds _ _ _ lo hi hp0 hp1 ha hb
  refine ⟨_, rfl, ?_, ?_, ?_, hgen⟩
  · simp only [ewmaLambda, c1_eq]; ring
  · exact (hgen (min prev.value o.value) (max prev.value o.value) ⟨min_le_left _ _, le_max_left _ _⟩
      ⟨min_le_right _ _, le_max_right _ _⟩).1
  · exact (hgen (min prev.value o.value) (max prev.value o.value) ⟨min_le_left _ _, le_max_left _ _⟩
      ⟨min_le_right _ _, le_max_right _ _⟩).2

/-- **the first sample is returned unchanged** (state without value: initial, after an error, after
error-then-absent).  In exact arithmetic `o·(1−L) + o·L = o` for every `L`, so no fact about `powf` is needed;
with `hp0 : powf b 0 = 1` one even has `L = 0` (see `ewma_first_sample_lambda`). -/
theorem ewma_first_sample_unchanged (smoothing : F) (s : EwmaS F) (o : Datum F)
    (hv : ∀ v, s.value ≠ .ok (some v)) :
    Ewma.step scaleF addF smoothing s (.ok (some o)) = .ok (⟨.ok (some o), some o.time⟩, .ok ()) := by
  rw [ewma_first_sample scaleF addF smoothing s o hv, ewmaNext_f32]
  have : o.value * FloatLike.powf (1 - smoothing) (secs 0) +
      o.value * (1 - FloatLike.powf (1 - smoothing) (secs 0)) = o.value := by ring
  rw [this]

/-- with `powf b 0 = 1` the first sample's weight `L` is exactly `0` -/
theorem ewma_first_sample_lambda (smoothing : F) (hp0 : ∀ b : F, FloatLike.powf b (0 : F) = 1) :
    ewmaLambda smoothing 0 = 0 := by
  simp [ewmaLambda, secs_zero, hp0]

/-- **C1, every history**: for `0 ≤ smoothing ≤ 1` and non-decreasing timestamps, no update panics and the
value held at the end (if any) lies between the least and the greatest sample received since the last error -/
theorem ewma_run_bounds (smoothing : F) (h0 : 0 ≤ smoothing) (h1 : smoothing ≤ 1)
    (hpr : ∀ b d : F, 0 ≤ b → b ≤ 1 → 0 ≤ d → 0 ≤ FloatLike.powf b d ∧ FloatLike.powf b d ≤ 1)
    (evs : List (Output F)) (hmono : NonDecr evs) (s : EwmaS F) (acc : List (Datum F)) (hinv : EwmaInv s)
    (hs : ∀ v, s.value = .ok (some v) →
      (∀ lo hi, (∀ d ∈ acc, lo ≤ d.value ∧ d.value ≤ hi) → lo ≤ v.value ∧ v.value ≤ hi) ∧
      ∀ t ∈ presentTimes evs, v.time ≤ t) :
    ∃ s', runE (Ewma.step scaleF addF smoothing) s evs = .ok s' ∧
      ∀ v, s'.value = .ok (some v) →
        ∀ lo hi, (∀ d ∈ sinceReset acc evs, lo ≤ d.value ∧ d.value ≤ hi) → lo ≤ v.value ∧ v.value ≤ hi := by
  induction evs generalizing s acc with
  | nil => exact ⟨s, rfl, fun v hv => (hs v hv).1⟩
  | cons e es ih =>
    match e with
    | .error er =>
      simp only [runE, Ewma.step, sinceReset]
      simp only [NonDecr, presentTimes] at hmono
      exact ih hmono _ [] (fun v h => by cases h) (fun v h => by cases h)
    | .ok none =>
      simp only [NonDecr, presentTimes] at hmono hs
      simp only [runE, ewma_absent_event, sinceReset]
      obtain ⟨val, ut⟩ := s
      cases val with
      | error er => exact ih hmono _ acc (fun v h => by cases h) (fun v h => by cases h)
      | ok val => exact ih hmono _ acc hinv hs
    | .ok (some o) =>
      simp only [NonDecr, presentTimes, List.pairwise_cons] at hmono
      simp only [presentTimes, List.mem_cons, forall_eq_or_imp] at hs
      simp only [sinceReset]
      by_cases hv : ∃ prev, s.value = .ok (some prev)
      · obtain ⟨prev, hv⟩ := hv
        obtain ⟨hs1, hs2, _⟩ := hs prev hv
        obtain ⟨x, hstep, _, _, _, hgen⟩ := ewma_convex smoothing h0 h1 hpr s o prev prev.time hv (hinv prev hv) hs2
        simp only [runE, hstep]
        refine ih hmono.2 _ (acc ++ [o]) (fun v h => by injection h with h; injection h with h; rw [← h]) ?_
        intro v h
        injection h with h
        injection h with h
        subst h
        refine ⟨?_, hmono.1⟩
        intro lo hi hb
        exact hgen lo hi (hs1 lo hi (fun d hd => hb d (List.mem_append_left _ hd))) (hb o (by simp))
      · have hstep := ewma_first_sample_unchanged smoothing s o (fun v h => hv ⟨v, h⟩)
        simp only [runE, hstep]
        refine ih hmono.2 _ (acc ++ [o]) (fun v h => by injection h with h; injection h with h; rw [← h]) ?_
        intro v h
        injection h with h
        injection h with h
        subst h
        exact ⟨fun lo hi hb => hb o (by simp), hmono.1⟩

/-- C1 from the initial state -/
theorem ewma_convex_history (smoothing : F) (h0 : 0 ≤ smoothing) (h1 : smoothing ≤ 1)
    (hpr : ∀ b d : F, 0 ≤ b → b ≤ 1 → 0 ≤ d → 0 ≤ FloatLike.powf b d ∧ FloatLike.powf b d ≤ 1)
    (evs : List (Output F)) (hmono : NonDecr evs) :
    ∃ s', runE (Ewma.step scaleF addF smoothing) Ewma.init evs = .ok s' ∧
      ∀ v, Ewma.get s' = .ok (some v) →
        ∀ lo hi, (∀ d ∈ sinceReset [] evs, lo ≤ d.value ∧ d.value ≤ hi) → lo ≤ v.value ∧ v.value ≤ hi :=
  ewma_run_bounds smoothing h0 h1 hpr evs hmono Ewma.init [] ewma_init_inv (fun v h => by cases h)

/-- **constant input ⇒ that constant** -/
theorem ewma_constant (smoothing : F) (h0 : 0 ≤ smoothing) (h1 : smoothing ≤ 1)
    (hpr : ∀ b d : F, 0 ≤ b → b ≤ 1 → 0 ≤ d → 0 ≤ FloatLike.powf b d ∧ FloatLike.powf b d ≤ 1)
    (evs : List (Output F)) (hmono : NonDecr evs) (c : F) (hc : ∀ d ∈ sinceReset [] evs, d.value = c) :
    ∃ s', runE (Ewma.step scaleF addF smoothing) Ewma.init evs = .ok s' ∧
      ∀ v, Ewma.get s' = .ok (some v) → v.value = c := by
  obtain ⟨s', hrun, hb⟩ := ewma_convex_history smoothing h0 h1 hpr evs hmono
  refine ⟨s', hrun, fun v hv => ?_⟩
  obtain ⟨a, b⟩ := hb v hv c c (fun d hd => by rw [hc d hd]; exact ⟨le_refl _, le_refl _⟩)
  exact le_antisymm b a

end R

/-! ## tier S / L: the f32 and Quantity variants produce the same numbers -/
section L
variable {F : Type} [Add F] [Sub F] [Mul F] [Div F] [Neg F] [LT F] [LE F] [BEq F]
  [DecidableLT F] [DecidableLE F] [FloatLike F]

/-- forget the unit -/
def projD (d : Datum (Quantity F)) : Datum F := ⟨d.time, d.value.value⟩
def projOut : Output (Quantity F) → Output F
  | .error e => .error e
  | .ok none => .ok none
  | .ok (some d) => .ok (some (projD d))

/-- componentwise relation between a Quantity EWMA state and an f32 EWMA state -/
def EwmaRel (sq : EwmaS (Quantity F)) (sf : EwmaS F) : Prop :=
  sf.value = projOut sq.value ∧ sf.updateTime = sq.updateTime

/-- componentwise relation between a Quantity moving-average state and an f32 one -/
def MaRel (sq : MaS (Quantity F)) (sf : MaS F) : Prop :=
  sf.value = projOut sq.value ∧ sf.queue = sq.queue.map projD

theorem qadd_value (chk : Bool) (a b v : Quantity F) (h : Quantity.add chk a b = .ok v) :
    v.value = a.value + b.value := by
  simp only [Quantity.add] at h
  split at h
  · injection h with h; rw [← h]
  · cases h

theorem ewmaNext_agree (chk : Bool) (smoothing : F) (pv : Quantity F) (dt : Int) (o : Datum (Quantity F))
    (sq' : EwmaS (Quantity F)) (r : UpdRet)
    (h : ewmaNext (scaleQdl chk) (Quantity.add chk) smoothing pv dt o = .ok (sq', r)) :
    ∃ sf', ewmaNext scaleF addF smoothing pv.value dt (projD o) = .ok (sf', r) ∧ EwmaRel sq' sf' := by
  simp only [ewmaNext] at h
  cases ha : Quantity.add chk (scaleQdl chk pv (c1 - ewmaLambda smoothing dt))
      (scaleQdl chk o.value (ewmaLambda smoothing dt)) with
  | error p => rw [ha] at h; cases h
  | ok v =>
    rw [ha] at h
    injection h with h
    injection h with h1 h2
    subst h1
    subst h2
    have hv := qadd_value chk _ _ v ha
    refine ⟨⟨.ok (some ⟨o.time, v.value⟩), some o.time⟩, ?_, rfl, rfl⟩
    simp only [ewmaNext, addF, scaleF, projD]
    rw [hv]
    rfl

/-- **D, EWMA, one update** (no law needed): from related states, if the Quantity update does not panic, the
f32 update on the raw numbers does not panic, returns the same `update` result and a related state -/
theorem ewma_variants_agree_step (chk : Bool) (smoothing : F) (sq : EwmaS (Quantity F)) (sf : EwmaS F)
    (inp : Output (Quantity F)) (hrel : EwmaRel sq sf) (sq' : EwmaS (Quantity F)) (r : UpdRet)
    (h : Ewma.step (scaleQdl chk) (Quantity.add chk) smoothing sq inp = .ok (sq', r)) :
    ∃ sf', Ewma.step scaleF addF smoothing sf (projOut inp) = .ok (sf', r) ∧ EwmaRel sq' sf' := by
  obtain ⟨vq, tq⟩ := sq
  obtain ⟨vf, tf⟩ := sf
  obtain ⟨h1, h2⟩ := hrel
  simp only at h1 h2
  subst h1
  subst h2
  match inp with
  | .error e =>
    simp only [Ewma.step] at h
    injection h with h
    injection h with h1 h2
    subst h1; subst h2
    exact ⟨⟨.error e, none⟩, rfl, rfl, rfl⟩
  | .ok none =>
    cases vq with
    | error e =>
      simp only [Ewma.step] at h
      injection h with h
      injection h with h1 h2
      subst h1; subst h2
      exact ⟨⟨.ok none, none⟩, rfl, rfl, rfl⟩
    | ok v =>
      simp only [Ewma.step] at h
      injection h with h
      injection h with h1 h2
      subst h1; subst h2
      refine ⟨⟨projOut (.ok v), tf⟩, ?_, rfl, rfl⟩
      cases v <;> rfl
  | .ok (some o) =>
    by_cases hv : ∃ prev, vq = .ok (some prev)
    · obtain ⟨prev, hv⟩ := hv
      subst hv
      cases tf with
      | none => simp only [Ewma.step] at h; cases h
      | some tp =>
        rw [ewma_formula _ _ smoothing _ o prev tp rfl rfl] at h
        obtain ⟨sf', hs, hr⟩ := ewmaNext_agree chk smoothing prev.value (o.time - tp) o sq' r h
        refine ⟨sf', ?_, hr⟩
        rw [← hs]
        exact ewma_formula scaleF addF smoothing _ (projD o) (projD prev) tp rfl rfl
    · rw [ewma_first_sample _ _ smoothing _ o (fun v h => hv ⟨v, h⟩)] at h
      obtain ⟨sf', hs, hr⟩ := ewmaNext_agree chk smoothing o.value 0 o sq' r h
      refine ⟨sf', ?_, hr⟩
      rw [← hs]
      refine ewma_first_sample scaleF addF smoothing _ (projD o) ?_
      intro v h'
      simp only at h'
      match vq, hv, h' with
      | .error _, _, h' => cases h'
      | .ok none, _, h' => cases h'
      | .ok (some p), hv, _ => exact hv ⟨p, rfl⟩

/-- **D, EWMA, every history**: as long as the Quantity stream does not panic, the f32 stream fed the raw
numbers does not panic either and holds the same numbers (value, timestamp, error) -/
theorem ewma_variants_agree (chk : Bool) (smoothing : F) (evs : List (Output (Quantity F)))
    (sq : EwmaS (Quantity F)) (sf : EwmaS F) (hrel : EwmaRel sq sf) (sq' : EwmaS (Quantity F))
    (h : runE (Ewma.step (scaleQdl chk) (Quantity.add chk) smoothing) sq evs = .ok sq') :
    ∃ sf', runE (Ewma.step scaleF addF smoothing) sf (evs.map projOut) = .ok sf' ∧ EwmaRel sq' sf' ∧
      Ewma.get sf' = projOut (Ewma.get sq') := by
  induction evs generalizing sq sf with
  | nil =>
    simp only [runE] at h
    injection h with h
    subst h
    exact ⟨sf, rfl, hrel, hrel.1⟩
  | cons e es ih =>
    simp only [runE] at h
    cases hs : Ewma.step (scaleQdl chk) (Quantity.add chk) smoothing sq e with
    | error p => rw [hs] at h; cases h
    | ok r =>
      rw [hs] at h
      obtain ⟨sf1, hf, hrel1⟩ := ewma_variants_agree_step chk smoothing sq sf e hrel r.1 r.2 hs
      simp only [List.map_cons, runE, hf]
      exact ih r.1 sf1 hrel1 h

theorem ewma_init_rel : EwmaRel (Ewma.init : EwmaS (Quantity F)) (Ewma.init : EwmaS F) := ⟨rfl, rfl⟩

/-! ### moving average: needs the single law `0 + x = x` (the generic impl starts from `T::default()`) -/

theorem trim_map (cut : Int) (l q : List (Datum (Quantity F))) (h : Ma.trim cut l = .ok q) :
    Ma.trim cut (l.map projD) = .ok (q.map projD) := by
  induction l with
  | nil => simp only [Ma.trim] at h; cases h
  | cons d ds ih =>
    simp only [List.map_cons, Ma.trim] at h ⊢
    by_cases hd : d.time ≤ cut
    · have hd' : (projD d).time ≤ cut := hd
      simp only [hd, hd', if_true] at h ⊢
      exact ih h
    · have hd' : ¬ (projD d).time ≤ cut := hd
      simp only [hd, hd', if_false] at h ⊢
      injection h with h
      rw [← h]
      rfl

theorem weightsNs_map (cut : Int) (q : List (Datum (Quantity F))) :
    Ma.weightsNs cut (q.map projD) = Ma.weightsNs cut q := by
  induction q generalizing cut with
  | nil => rfl
  | cons d ds ih =>
    simp only [List.map_cons, Ma.weightsNs]
    rw [ih]
    rfl

theorem maTerms_map (cut : Int) (q : List (Datum (Quantity F))) :
    maTerms (F := F) cut (q.map projD) = (maTerms (F := F) cut q).map (fun p => (p.1.value, p.2)) := by
  simp only [maTerms, weightsNs_map]
  generalize (Ma.weightsNs cut q).map (fun n => (secs n : F)) = ws
  induction q generalizing ws with
  | nil => simp
  | cons d ds ih =>
    cases ws with
    | nil => simp
    | cons w ws =>
      simp only [List.map_cons, List.zip_cons_cons, ih ws]
      rfl

theorem accumulate_agree_some (chk : Bool) (l : List (Quantity F × F)) (a v : Quantity F)
    (h : Ma.accumulate (scaleQs chk) (Quantity.add chk) (some a) l = .ok (some v)) :
    Ma.accumulate scaleF addF (some a.value) (l.map (fun p => (p.1.value, p.2))) = .ok (some v.value) := by
  induction l generalizing a with
  | nil =>
    simp only [Ma.accumulate] at h
    injection h with h
    injection h with h
    rw [h]
    rfl
  | cons p rest ih =>
    obtain ⟨x, w⟩ := p
    simp only [Ma.accumulate] at h
    cases ha : Quantity.add chk a (scaleQs chk x w) with
    | error e => rw [ha] at h; cases h
    | ok a' =>
      rw [ha] at h
      have hv := qadd_value chk _ _ a' ha
      simp only [List.map_cons, Ma.accumulate, addF, scaleF]
      have := ih a' h
      rw [hv] at this
      exact this

/-- the Quantity impl starts from the first term, the generic impl from `0 +` the first term -/
theorem accumulate_agree (chk : Bool) (hzero : ∀ x : F, c0 + x = x) (l : List (Quantity F × F)) (v : Quantity F)
    (h : Ma.accumulate (scaleQs chk) (Quantity.add chk) none l = .ok (some v)) :
    Ma.accumulate scaleF addF (some (c0 : F)) (l.map (fun p => (p.1.value, p.2))) = .ok (some v.value) := by
  cases l with
  | nil => simp only [Ma.accumulate] at h; cases h
  | cons p rest =>
    obtain ⟨x, w⟩ := p
    simp only [Ma.accumulate] at h
    have := accumulate_agree_some chk rest _ v h
    simp only [List.map_cons, Ma.accumulate, addF, scaleF, hzero]
    exact this

/-- **D, moving average, one update** (law `hzero : 0 + x = x`): from related states, if the Quantity update
does not panic, the f32 update on the raw numbers returns the same `update` result and a related state -/
theorem ma_variants_agree_step (chk : Bool) (hzero : ∀ x : F, c0 + x = x) (window : Int)
    (sq : MaS (Quantity F)) (sf : MaS F) (inp : Output (Quantity F)) (hrel : MaRel sq sf)
    (sq' : MaS (Quantity F)) (r : UpdRet)
    (h : Ma.step (scaleQs chk) (Quantity.add chk) (divQs chk) none window sq inp = .ok (sq', r)) :
    ∃ sf', Ma.step scaleF addF divF (some (c0 : F)) window sf (projOut inp) = .ok (sf', r) ∧ MaRel sq' sf' := by
  obtain ⟨vq, qq⟩ := sq
  obtain ⟨vf, qf⟩ := sf
  obtain ⟨h1, h2⟩ := hrel
  simp only at h1 h2
  subst h1
  subst h2
  match inp with
  | .error e =>
    simp only [Ma.step] at h
    injection h with h
    injection h with h1 h2
    subst h1; subst h2
    exact ⟨⟨.error e, []⟩, rfl, rfl, rfl⟩
  | .ok none =>
    rw [ma_absent_event] at h
    injection h with h
    injection h with h1 h2
    subst h1; subst h2
    refine ⟨_, ma_absent_event _ _ _ _ _ _, ?_, rfl⟩
    cases vq with
    | error e => rfl
    | ok v => cases v <;> rfl
  | .ok (some o) =>
    simp only [Ma.step] at h
    cases ht : Ma.trim (o.time - window) (qq ++ [o]) with
    | error p => rw [ht] at h; cases h
    | ok q =>
      rw [ht] at h
      simp only at h
      have ht' : Ma.trim ((projD o).time - window) (qq.map projD ++ [projD o]) = .ok (q.map projD) := by
        have := trim_map (o.time - window) (qq ++ [o]) q ht
        simp only [List.map_append, List.map_cons, List.map_nil] at this
        exact this
      cases hacc : Ma.accumulate (scaleQs chk) (Quantity.add chk) none (maTerms (o.time - window) q) with
      | error p => simp only [maTerms] at hacc; rw [hacc] at h; cases h
      | ok ov =>
        cases ov with
        | none => simp only [maTerms] at hacc; rw [hacc] at h; cases h
        | some v =>
          have hacc' := accumulate_agree chk hzero _ v hacc
          rw [← maTerms_map] at hacc'
          simp only [maTerms] at hacc
          rw [hacc] at h
          injection h with h
          injection h with h1 h2
          subst h1; subst h2
          refine ⟨_, ma_step_present_eq scaleF addF divF _ window _ (projD o) (q.map projD) v.value ht' hacc',
            rfl, rfl⟩

/-- **D, moving average, every history** -/
theorem ma_variants_agree (chk : Bool) (hzero : ∀ x : F, c0 + x = x) (window : Int)
    (evs : List (Output (Quantity F))) (sq : MaS (Quantity F)) (sf : MaS F) (hrel : MaRel sq sf)
    (sq' : MaS (Quantity F))
    (h : runE (Ma.step (scaleQs chk) (Quantity.add chk) (divQs chk) none window) sq evs = .ok sq') :
    ∃ sf', runE (Ma.step scaleF addF divF (some (c0 : F)) window) sf (evs.map projOut) = .ok sf' ∧
      MaRel sq' sf' ∧ Ma.get sf' = projOut (Ma.get sq') := by
  induction evs generalizing sq sf with
  | nil =>
    simp only [runE] at h
    injection h with h
    subst h
    exact ⟨sf, rfl, hrel, hrel.1⟩
  | cons e es ih =>
    simp only [runE] at h
    cases hs : Ma.step (scaleQs chk) (Quantity.add chk) (divQs chk) none window sq e with
    | error p => rw [hs] at h; cases h
    | ok r =>
      rw [hs] at h
      obtain ⟨sf1, hf, hrel1⟩ := ma_variants_agree_step chk hzero window sq sf e hrel r.1 r.2 hs
      simp only [List.map_cons, runE, hf]
      exact ih r.1 sf1 hrel1 h

theorem ma_init_rel : MaRel (Ma.init : MaS (Quantity F)) (Ma.init : MaS F) := ⟨rfl, rfl⟩

end L

/-! ## non-vacuity: concrete instances of the hypotheses (payloads in `ℚ` / `Int`) -/
section Examples

/-- a history with a repeated timestamp, an absent event, an error, an absent event after the error -/
def exEvs : List (Output ℚ) :=
  [.ok (some ⟨0, 1⟩), .ok none, .ok (some ⟨5, 3⟩), .error (.other 1), .ok none, .ok (some ⟨5, 2⟩), .ok (some ⟨7, 4⟩)]

/-- `NonDecr` (hypothesis of `ma_run_inv`, `ma_queue_invariant`, `ma_queue_is_window`, `ma_convex_history`,
`ma_constant`, `ewma_run_bounds`, `ewma_convex_history`, `ewma_constant`) holds for it -/
example : NonDecr exEvs := by unfold NonDecr; decide
example : NonDecr ([.ok (some ⟨0, 1⟩), .ok none, .ok (some ⟨5, 3⟩), .error (.other 1), .ok none,
    .ok (some ⟨5, 2⟩)] ++ [(.ok (some ⟨7, 4⟩) : Output ℚ)]) := by unfold NonDecr; decide
/-- and fails for a decreasing one, so it is a real restriction -/
example : ¬ NonDecr [(.ok (some ⟨5, 1⟩) : Output ℚ), .ok (some ⟨4, 1⟩)] := by unfold NonDecr; decide
example : sinceReset [] exEvs = [⟨5, 2⟩, ⟨7, 4⟩] := rfl
example : presentTimes exEvs = [0, 5, 5, 7] := rfl

/-- the f32 moving average over `ℚ`, window 4 ns, on that history: the window after the last sample is
`[(5,2), (7,4)]`, weights 2 ns and 2 ns, output (2·2 + 4·2)/4 = 3 at time 7 -/
example : runE (Ma.step scaleF addF divF (some (c0 : ℚ)) 4) Ma.init exEvs =
    .ok ⟨.ok (some ⟨7, 3⟩), [⟨5, 2⟩, ⟨7, 4⟩]⟩ := by
  have s1 := ma_first_sample (F := ℚ) 4 (by decide) Ma.init ⟨0, 1⟩ rfl
  have s2 := ma_absent_event_ok scaleF addF divF (some (c0 : ℚ)) 4 ⟨.ok (some ⟨0, 1⟩), [⟨0, 1⟩]⟩ _ rfl
  have s3 : Ma.step scaleF addF divF (some (c0 : ℚ)) 4 ⟨.ok (some ⟨0, 1⟩), [⟨0, 1⟩]⟩ (.ok (some ⟨5, 3⟩)) =
      .ok (⟨.ok (some ⟨5, 3⟩), [⟨5, 3⟩]⟩, .ok ()) := by
    have h := ma_step_present_eq scaleF addF divF (some (c0 : ℚ)) 4 ⟨.ok (some ⟨0, 1⟩), [⟨0, 1⟩]⟩ ⟨5, 3⟩
      [⟨5, 3⟩] _ rfl (accumulate_f32_eq _)
    have e : divF (wsumR (maTerms (F := ℚ) ((⟨5, 3⟩ : Datum ℚ).time - 4) [⟨5, 3⟩])) (secs 4) = (3 : ℚ) := by
      norm_num [divF, wsumR, maTerms, Ma.weightsNs, secs_eq]
    rw [e] at h
    exact h
  have s4 := (ma_error_event scaleF addF divF (some (c0 : ℚ)) 4 ⟨.ok (some ⟨5, 3⟩), [⟨5, 3⟩]⟩ (.other 1)).1
  have s5 := ma_absent_event scaleF addF divF (some (c0 : ℚ)) 4 ⟨.error (.other 1), []⟩
  have s6 := ma_first_sample (F := ℚ) 4 (by decide) ⟨.ok none, []⟩ ⟨5, 2⟩ rfl
  have s7 : Ma.step scaleF addF divF (some (c0 : ℚ)) 4 ⟨.ok (some ⟨5, 2⟩), [⟨5, 2⟩]⟩ (.ok (some ⟨7, 4⟩)) =
      .ok (⟨.ok (some ⟨7, 3⟩), [⟨5, 2⟩, ⟨7, 4⟩]⟩, .ok ()) := by
    have h := ma_step_present_eq scaleF addF divF (some (c0 : ℚ)) 4 ⟨.ok (some ⟨5, 2⟩), [⟨5, 2⟩]⟩ ⟨7, 4⟩
      [⟨5, 2⟩, ⟨7, 4⟩] _ rfl (accumulate_f32_eq _)
    have e : divF (wsumR (maTerms (F := ℚ) ((⟨7, 4⟩ : Datum ℚ).time - 4) [⟨5, 2⟩, ⟨7, 4⟩])) (secs 4) = (3 : ℚ) := by
      norm_num [divF, wsumR, maTerms, Ma.weightsNs, secs_eq]
    rw [e] at h
    exact h
  simp only [exEvs, runE, s1, s2, s3, s4, s5, s6, s7]

/-- `WinQueue` (hypothesis of `ma_weights_nonneg`, `ma_weights_sum_window`, `ma_weights_le_window`,
`maTerms_weights`, `ma_value_convex`) and the resulting weights -/
example : WinQueue 4 (⟨7, 4⟩ : Datum Int) [⟨5, 2⟩, ⟨7, 4⟩] := by
  refine ⟨by simp, by simp [Sorted], ?_, [⟨5, 2⟩], rfl⟩
  intro d hd
  simp at hd
  rcases hd with rfl | rfl <;> simp
example : Ma.weightsNs (7 - 4) [(⟨5, 2⟩ : Datum Int), ⟨7, 4⟩] = [2, 2] := rfl
example : WinQueue 4 (⟨7, 4⟩ : Datum Int) [⟨4, 9⟩, ⟨5, 2⟩, ⟨7, 4⟩] := by
  refine ⟨by simp, by simp [Sorted], ?_, [⟨4, 9⟩, ⟨5, 2⟩], rfl⟩
  intro d hd
  simp at hd
  rcases hd with rfl | rfl | rfl <;> simp
example : Ma.weightsNs (7 - 4) [(⟨4, 9⟩ : Datum Int), ⟨5, 2⟩, ⟨7, 4⟩] = [1, 1, 2] := rfl

/-- sorted queue not newer than the sample (hypotheses of `ma_step_present_inv`, `ma_convex`) -/
example : Sorted [(⟨4, 9⟩ : Datum ℚ), ⟨5, 2⟩] ∧ ∀ d ∈ [(⟨4, 9⟩ : Datum ℚ), ⟨5, 2⟩], d.time ≤ (⟨7, 4⟩ : Datum ℚ).time := by
  refine ⟨by simp [Sorted], ?_⟩
  intro d hd
  simp at hd
  rcases hd with rfl | rfl <;> simp
example : maWindow 4 [(⟨3, 8⟩ : Datum ℚ), ⟨4, 9⟩, ⟨5, 2⟩] ⟨7, 4⟩ = [⟨4, 9⟩, ⟨5, 2⟩, ⟨7, 4⟩] := by decide

/-- the closure hypotheses `hs ha hz` / `hadd` are met by the two driver instantiations -/
example : ∀ a b : ℚ, addF a b = .ok (a + b) := fun _ _ => rfl
example : ∀ a b : ℚ, ∃ c, addF a b = .ok c := fun a b => ⟨a + b, rfl⟩
example (chk : Bool) (a b : Quantity ℚ) (h : a.unit = b.unit) :
    Quantity.add chk a b = .ok ⟨a.value + b.value, a.unit⟩ := qadd_same_unit chk a b (fun _ => h)
/-- same-unit hypothesis of `ma_no_panic_quantity` / `ewma_no_panic_quantity` -/
example : ∀ d, Except.ok (some d) ∈
    [(.ok (some ⟨0, ⟨1, ⟨1, 0⟩⟩⟩) : Output (Quantity ℚ)), .ok none, .error .fromNone, .ok (some ⟨3, ⟨2, ⟨1, 0⟩⟩⟩)] →
    d.value.unit = ⟨1, 0⟩ := by
  intro d hd
  simp at hd
  rcases hd with rfl | rfl <;> rfl

/-- EWMA state hypotheses (`ewma_formula`, `ewma_convex`): a held value with its update time -/
example : ((⟨.ok (some ⟨3, 10⟩), some 3⟩ : EwmaS ℚ).value = .ok (some ⟨3, 10⟩)) ∧
    ((⟨.ok (some ⟨3, 10⟩), some 3⟩ : EwmaS ℚ).updateTime = some 3) ∧ (3 : Int) ≤ 5 := ⟨rfl, rfl, by decide⟩
/-- no-value hypothesis of `ewma_first_sample(_unchanged)` -/
example : ∀ v, (Ewma.init : EwmaS ℚ).value ≠ .ok (some v) := fun v h => by cases h
example : ∀ v, ((⟨.error .fromNone, none⟩ : EwmaS ℚ)).value ≠ .ok (some v) := fun v h => by cases h
example : EwmaInv (⟨.ok (some ⟨3, 10⟩), some 3⟩ : EwmaS ℚ) := by
  intro v h; injection h with h; injection h with h; rw [← h]
/-- smoothing in `[0,1]` and the `powf` facts hold for the exact-scalar instance on `ℚ` -/
example : (0 : ℚ) ≤ 1 / 4 ∧ (1 / 4 : ℚ) ≤ 1 := by norm_num
example : ∀ b : ℚ, FloatLike.powf b (0 : ℚ) = 1 := fun _ => rfl
example : ∀ b d : ℚ, 0 ≤ b → b ≤ 1 → 0 ≤ d → 0 ≤ FloatLike.powf b d ∧ FloatLike.powf b d ≤ 1 :=
  fun _ _ _ _ _ => by constructor <;> norm_num [FloatLike.powf]
/-- the law of tier L holds in `ℚ` -/
example : ∀ x : ℚ, c0 + x = x := fun x => by simp [c0, FloatLike.ofInt]
/-- related states (`EwmaRel`, `MaRel`) -/
example : EwmaRel (⟨.ok (some ⟨3, ⟨10, ⟨1, 0⟩⟩⟩), some 3⟩ : EwmaS (Quantity ℚ)) ⟨.ok (some ⟨3, 10⟩), some 3⟩ :=
  ⟨rfl, rfl⟩
example : MaRel (⟨.ok (some ⟨3, ⟨10, ⟨1, 1⟩⟩⟩), [⟨3, ⟨10, ⟨1, 0⟩⟩⟩]⟩ : MaS (Quantity ℚ)) ⟨.ok (some ⟨3, 10⟩), [⟨3, 10⟩]⟩ :=
  ⟨rfl, rfl⟩
/-- the Quantity moving average does run without panic on a same-unit history (hypothesis of
`ma_variants_agree`), and produces the same number 3 as the f32 one above, in mm·s/s = mm -/
example : ∃ s, runE (Ma.step (scaleQs true) (Quantity.add true) (divQs true) none 4) Ma.init
    [(.ok (some ⟨5, ⟨2, ⟨1, 0⟩⟩⟩) : Output (Quantity ℚ)), .ok (some ⟨7, ⟨4, ⟨1, 0⟩⟩⟩)] = .ok s :=
  ma_no_panic_quantity true 4 (by decide) ⟨1, 0⟩ _ (by
    intro d hd
    simp at hd
    rcases hd with rfl | rfl <;> rfl)

/-! ### scope of "no update panics": the model computes timestamps in unbounded `Int`

`output.time - self.window` and `output.time - prev_time` are `i64` subtractions (`impl Sub for Time`, unchecked
`self.0 - rhs.0`).  The model (`Ma.step`, `Ewma.step`) performs them in `Int`, so the no-panic theorems above do
not cover their overflow.  On the real code (debug build) `ss ma f 1 S@-9223372036854775808@1.0` and
`ss ewma f 0.5 S@-9223372036854775808@1.0 S@9223372036854775807@2.0` (non-decreasing timestamps, window 1 > 0)
panic with "attempt to subtract with overflow", whereas the model returns `ok`.  All other integer subtractions
of the moving average are covered: by `ma_weights_le_window` every `end_times[i] - start_times[i]` lies in
`[0, window]`. -/
example : I64.sub (-9223372036854775808) 1 = .error .overflow := rfl
example : I64.sub 9223372036854775807 (-9223372036854775808) = .error .overflow := rfl
example : ∃ s, runE (Ma.step scaleF addF divF (some (c0 : ℚ)) 1) Ma.init
    [.ok (some ⟨-9223372036854775808, 1⟩)] = .ok s := ma_no_panic_f32 1 (by decide) _

end Examples

end Rrtk.Thm.C12
