/-
C12 — moving-average and EWMA streams: time-weighted average over the window, convexity, constants, first
sample, variants agree, no panics.
Tier S for everything structural (queue, weights in nanoseconds, which formula, panics), tier R for the
convexity consequences, tier L (one law) for the agreement of the f32 and Quantity moving averages.
-/
import Rrtk.Streams.Stateful
import Rrtk.Thm.Lemmas.Exact
set_option linter.unusedSectionVars false
set_option linter.unusedSimpArgs false
namespace Rrtk.Thm.C12
open Rrtk

/-! ## histories -/

/-- run a stream over a history of events, stopping at the first panic -/
def runE {S I : Type} (step : S → I → Except Panic (S × UpdRet)) : S → List I → Except Panic S
  | s, [] => .ok s
  | s, i :: is =>
    match step s i with
    | .error p => .error p
    | .ok r => runE step r.1 is

/-- timestamps of the present samples of a history, in order -/
def presentTimes {T : Type} : List (Output T) → List Int
  | [] => []
  | .ok (some d) :: es => d.time :: presentTimes es
  | .ok none :: es => presentTimes es
  | .error _ :: es => presentTimes es

/-- the quantifier of the property: timestamps of the present samples never decrease (repeats allowed) -/
def NonDecr {T : Type} (evs : List (Output T)) : Prop := (presentTimes evs).Pairwise (· ≤ ·)

/-- present samples since the last error event (what the moving average may still hold) -/
def sinceReset {T : Type} : List (Datum T) → List (Output T) → List (Datum T)
  | acc, [] => acc
  | acc, .ok (some d) :: es => sinceReset (acc ++ [d]) es
  | acc, .ok none :: es => sinceReset acc es
  | _, .error _ :: es => sinceReset [] es

theorem runE_append {S I : Type} (step : S → I → Except Panic (S × UpdRet)) (s : S) (l₁ l₂ : List I) :
    runE step s (l₁ ++ l₂) = match runE step s l₁ with
      | .error p => .error p
      | .ok s' => runE step s' l₂ := by
  induction l₁ generalizing s with
  | nil => rfl
  | cons i is ih =>
    simp only [List.cons_append, runE]
    cases h : step s i with
    | error p => rfl
    | ok r => exact ih r.1

theorem presentTimes_append {T : Type} (l₁ l₂ : List (Output T)) :
    presentTimes (l₁ ++ l₂) = presentTimes l₁ ++ presentTimes l₂ := by
  induction l₁ with
  | nil => rfl
  | cons e es ih =>
    match e with
    | .ok (some d) => simp [presentTimes, ih]
    | .ok none => simpa [presentTimes] using ih
    | .error _ => simpa [presentTimes] using ih

theorem mem_presentTimes {T : Type} (evs : List (Output T)) (t : Int) :
    t ∈ presentTimes evs ↔ ∃ d, Except.ok (some d) ∈ evs ∧ d.time = t := by
  induction evs with
  | nil => simp [presentTimes]
  | cons e es ih =>
    match e with
    | .ok (some d) =>
      simp only [presentTimes, List.mem_cons, ih]
      constructor
      · rintro (h | ⟨d', h1, h2⟩)
        · exact ⟨d, Or.inl rfl, h.symm⟩
        · exact ⟨d', Or.inr h1, h2⟩
      · rintro ⟨d', h1 | h1, h2⟩
        · left; cases h1; exact h2.symm
        · exact Or.inr ⟨d', h1, h2⟩
    | .ok none => simp [presentTimes, ih]
    | .error _ => simp [presentTimes, ih]


/-! ## tier S: moving average -/
section S
variable {F : Type} [Add F] [Sub F] [Mul F] [Div F] [Neg F] [LT F] [LE F] [BEq F]
  [DecidableLT F] [DecidableLE F] [FloatLike F] {T : Type}

/-- sorted by non-decreasing time -/
def Sorted (q : List (Datum T)) : Prop := q.Pairwise (fun a b => a.time ≤ b.time)

/-- what the queue looks like right after the present sample `o` has been processed -/
def WinQueue (window : Int) (o : Datum T) (q : List (Datum T)) : Prop :=
  q ≠ [] ∧ Sorted q ∧ (∀ d ∈ q, o.time - window < d.time ∧ d.time ≤ o.time) ∧ ∃ q', q = q' ++ [o]

/-- the pairs `(value_i, weight_i in f32 seconds)` the accumulation loop runs over -/
def maTerms (cut : Int) (q : List (Datum T)) : List (T × F) :=
  (q.map (·.value)).zip ((Ma.weightsNs cut q).map (fun n => (secs n : F)))

/-- the window as a non-incremental function: push, then drop the front while it is not newer than the cut -/
def maWindow (window : Int) (queue : List (Datum T)) (o : Datum T) : List (Datum T) :=
  (queue ++ [o]).dropWhile (fun d => decide (d.time ≤ o.time - window))

/-- `trim` is `dropWhile`, panicking when nothing is left -/
theorem trim_eq_dropWhile (cut : Int) (l : List (Datum T)) :
    Ma.trim cut l = match l.dropWhile (fun d => decide (d.time ≤ cut)) with
      | [] => .error .oob
      | d :: ds => .ok (d :: ds) := by
  induction l with
  | nil => rfl
  | cons d ds ih =>
    simp only [Ma.trim, List.dropWhile_cons]
    by_cases h : d.time ≤ cut
    · simp [h, ih]
    · simp [h]

theorem trim_ok_eq_dropWhile (cut : Int) (l q : List (Datum T)) (h : Ma.trim cut l = .ok q) :
    q = l.dropWhile (fun d => decide (d.time ≤ cut)) := by
  rw [trim_eq_dropWhile] at h
  split at h
  · cases h
  · rename_i d ds hdd
    injection h with h
    rw [hdd, h]

/-- the just-pushed sample is never trimmed: the result is a suffix of the old queue followed by `o`,
everything dropped is not newer than the cut, the new front is newer than the cut -/
theorem trim_snoc (cut : Int) (l : List (Datum T)) (o : Datum T) (h : cut < o.time) :
    ∃ pre q', l = pre ++ q' ∧ Ma.trim cut (l ++ [o]) = .ok (q' ++ [o]) ∧
      (∀ d ∈ pre, d.time ≤ cut) ∧ (∀ d, (q' ++ [o]).head? = some d → cut < d.time) := by
  induction l with
  | nil =>
    refine ⟨[], [], rfl, ?_, by simp, ?_⟩
    · simp [Ma.trim, Int.not_le.2 h]
    · intro d hd
      simp at hd
      subst hd
      exact h
  | cons d ds ih =>
    by_cases hd : d.time ≤ cut
    · obtain ⟨pre, q', e, ht, hp, hh⟩ := ih
      refine ⟨d :: pre, q', by simp [e], ?_, ?_, hh⟩
      · simp only [List.cons_append, Ma.trim, hd, if_true]
        exact ht
      · intro x hx
        rcases List.mem_cons.1 hx with hx | hx
        · subst hx; exact hd
        · exact hp x hx
    · refine ⟨[], d :: ds, rfl, by simp [Ma.trim, hd], by simp, ?_⟩
      intro x hx
      simp at hx
      subst hx
      omega

/-- unfolding of one update on a present sample, given the trimmed queue and the accumulated sum -/
theorem ma_step_present_eq (scale : T → F → T) (add : T → T → Except Panic T) (fin : T → F → T)
    (zero : Option T) (window : Int) (s : MaS T) (o : Datum T) (q : List (Datum T)) (v : T)
    (ht : Ma.trim (o.time - window) (s.queue ++ [o]) = .ok q)
    (hacc : Ma.accumulate scale add zero (maTerms (o.time - window) q) = .ok (some v)) :
    Ma.step scale add fin zero window s (.ok (some o)) =
      .ok (⟨.ok (some ⟨o.time, fin v (secs window)⟩), q⟩, .ok ()) := by
  simp only [maTerms] at hacc
  simp only [Ma.step, ht, hacc]

/-- accumulation never fails when `add` is total on a class `Pacc` closed under `add` that contains all terms -/
theorem accumulate_some (scale : T → F → T) (add : T → T → Except Panic T) (Pacc : T → Prop)
    (ha : ∀ a b, Pacc a → Pacc b → ∃ c, add a b = .ok c ∧ Pacc c) :
    ∀ (l : List (T × F)) (a : T), Pacc a → (∀ p ∈ l, Pacc (scale p.1 p.2)) →
      ∃ v, Ma.accumulate scale add (some a) l = .ok (some v) ∧ Pacc v := by
  intro l
  induction l with
  | nil => intro a pa _; exact ⟨a, rfl, pa⟩
  | cons p rest ih =>
    intro a pa hl
    obtain ⟨v, w⟩ := p
    obtain ⟨c, hc, pc⟩ := ha a (scale v w) pa (hl (v, w) (List.mem_cons_self ..))
    simp only [Ma.accumulate, hc]
    exact ih c pc (fun p hp => hl p (List.mem_cons_of_mem _ hp))

theorem accumulate_some' (scale : T → F → T) (add : T → T → Except Panic T) (Pacc : T → Prop)
    (ha : ∀ a b, Pacc a → Pacc b → ∃ c, add a b = .ok c ∧ Pacc c)
    (zero : Option T) (hz : ∀ z, zero = some z → Pacc z) (l : List (T × F)) (hne : l ≠ [])
    (hl : ∀ p ∈ l, Pacc (scale p.1 p.2)) :
    ∃ v, Ma.accumulate scale add zero l = .ok (some v) ∧ Pacc v := by
  cases zero with
  | some z => exact accumulate_some scale add Pacc ha l z (hz z rfl) hl
  | none =>
    cases l with
    | nil => exact absurd rfl hne
    | cons p rest =>
      obtain ⟨v, w⟩ := p
      simp only [Ma.accumulate]
      exact accumulate_some scale add Pacc ha rest (scale v w) (hl (v, w) (List.mem_cons_self ..))
        (fun p hp => hl p (List.mem_cons_of_mem _ hp))

theorem weightsNs_length (cut : Int) (q : List (Datum T)) : (Ma.weightsNs cut q).length = q.length := by
  induction q generalizing cut with
  | nil => rfl
  | cons d ds ih => simp [Ma.weightsNs, ih]

theorem maTerms_ne_nil (cut : Int) (q : List (Datum T)) (h : q ≠ []) : (maTerms (F := F) cut q) ≠ [] := by
  cases q with
  | nil => exact absurd rfl h
  | cons d ds => simp [maTerms, Ma.weightsNs]

theorem mem_maTerms (cut : Int) (q : List (Datum T)) (p : T × F) (h : p ∈ maTerms (F := F) cut q) :
    ∃ d ∈ q, p.1 = d.value := by
  have h1 := (List.of_mem_zip h).1
  obtain ⟨d, hd, e⟩ := List.mem_map.1 h1
  exact ⟨d, hd, e.symm⟩

/-! ### A1: no update panics -/

/-- One update on a present sample never panics, for ANY previous queue (sorted or not) and any
`window > 0`: the `.oob` branches are unreachable.  `Pin` is a class containing the sample values, `Pacc`
a class containing the scaled terms on which `add` is total (for f32: everything). -/
theorem ma_step_present_ok (scale : T → F → T) (add : T → T → Except Panic T) (fin : T → F → T)
    (zero : Option T) (window : Int) (hw : 0 < window) (Pin Pacc : T → Prop)
    (hs : ∀ v w, Pin v → Pacc (scale v w))
    (ha : ∀ a b, Pacc a → Pacc b → ∃ c, add a b = .ok c ∧ Pacc c)
    (hz : ∀ z, zero = some z → Pacc z)
    (s : MaS T) (o : Datum T) (hq : ∀ d ∈ s.queue, Pin d.value) (ho : Pin o.value) :
    ∃ pre q' v, s.queue = pre ++ q' ∧
      Ma.accumulate scale add zero (maTerms (o.time - window) (q' ++ [o])) = .ok (some v) ∧
      Ma.step scale add fin zero window s (.ok (some o)) =
        .ok (⟨.ok (some ⟨o.time, fin v (secs window)⟩), q' ++ [o]⟩, .ok ()) ∧
      (∀ d ∈ pre, d.time ≤ o.time - window) ∧
      (∀ d, (q' ++ [o]).head? = some d → o.time - window < d.time) ∧
      q' ++ [o] = maWindow window s.queue o := by
  obtain ⟨pre, q', e, ht, hp, hh⟩ := trim_snoc (o.time - window) s.queue o (by omega)
  have hwin : q' ++ [o] = maWindow window s.queue o := trim_ok_eq_dropWhile _ _ _ ht
  have hne : q' ++ [o] ≠ [] := by simp
  have hall : ∀ d ∈ q' ++ [o], Pin d.value := by
    intro d hd
    rcases List.mem_append.1 hd with hd | hd
    · exact hq d (by rw [e]; exact List.mem_append_right _ hd)
    · simp at hd; subst hd; exact ho
  obtain ⟨v, hv, _⟩ := accumulate_some' scale add Pacc ha zero hz
    (maTerms (o.time - window) (q' ++ [o])) (maTerms_ne_nil _ _ hne)
    (by
      intro p hp
      obtain ⟨d, hd, e'⟩ := mem_maTerms _ _ p hp
      rw [e']
      exact hs _ _ (hall d hd))
  exact ⟨pre, q', v, e, hv, ma_step_present_eq scale add fin zero window s o _ v ht hv, hp, hh, hwin⟩

/-- error and absent events never panic, and keep the queue a sub-queue of the old one -/
theorem ma_step_other_ok (scale : T → F → T) (add : T → T → Except Panic T) (fin : T → F → T)
    (zero : Option T) (window : Int) (s : MaS T) (inp : Output T) (h : ∀ d, inp ≠ .ok (some d)) :
    ∃ s' r, Ma.step scale add fin zero window s inp = .ok (s', r) ∧ (s'.queue = s.queue ∨ s'.queue = []) := by
  match inp, h with
  | .error e, _ => exact ⟨_, _, rfl, Or.inr rfl⟩
  | .ok (some d), h => exact absurd rfl (h d)
  | .ok none, _ =>
    simp only [Ma.step]
    cases s.value with
    | error e => exact ⟨_, _, rfl, Or.inl rfl⟩
    | ok v => exact ⟨_, _, rfl, Or.inl rfl⟩

/-- **No moving-average update panics**, for every history of events of any length (timestamps need not
even be monotone), every `window > 0`, whenever `add` cannot fail on the terms (`Pin`/`Pacc` as above). -/
theorem ma_no_panic_closed (scale : T → F → T) (add : T → T → Except Panic T) (fin : T → F → T)
    (zero : Option T) (window : Int) (hw : 0 < window) (Pin Pacc : T → Prop)
    (hs : ∀ v w, Pin v → Pacc (scale v w))
    (ha : ∀ a b, Pacc a → Pacc b → ∃ c, add a b = .ok c ∧ Pacc c)
    (hz : ∀ z, zero = some z → Pacc z)
    (evs : List (Output T)) (hin : ∀ d, Except.ok (some d) ∈ evs → Pin d.value)
    (s : MaS T) (hq : ∀ d ∈ s.queue, Pin d.value) :
    ∃ s', runE (Ma.step scale add fin zero window) s evs = .ok s' := by
  induction evs generalizing s with
  | nil => exact ⟨s, rfl⟩
  | cons e es ih =>
    have hin' : ∀ d, Except.ok (some d) ∈ es → Pin d.value := fun d hd => hin d (List.mem_cons_of_mem _ hd)
    by_cases hp : ∃ d, e = .ok (some d)
    · obtain ⟨o, rfl⟩ := hp
      obtain ⟨pre, q', v, e1, _, hstep, _, _⟩ := ma_step_present_ok scale add fin zero window hw Pin Pacc hs ha hz
        s o hq (hin o (List.mem_cons_self ..))
      simp only [runE, hstep]
      apply ih hin'
      intro d hd
      rcases List.mem_append.1 hd with hd | hd
      · exact hq d (by rw [e1]; exact List.mem_append_right _ hd)
      · simp at hd; subst hd; exact hin _ (List.mem_cons_self ..)
    · obtain ⟨s', r, hstep, hq'⟩ := ma_step_other_ok scale add fin zero window s e
        (fun d hd => hp ⟨d, hd⟩)
      simp only [runE, hstep]
      apply ih hin'
      rcases hq' with hq' | hq'
      · rw [hq']; exact hq
      · rw [hq']; intro d hd; cases hd

/-- A1, f32 shape: `add` never fails. -/
theorem ma_no_panic (scale : T → F → T) (add : T → T → Except Panic T) (fin : T → F → T)
    (zero : Option T) (window : Int) (hw : 0 < window) (hadd : ∀ a b, ∃ c, add a b = .ok c)
    (evs : List (Output T)) :
    ∃ s', runE (Ma.step scale add fin zero window) Ma.init evs = .ok s' :=
  ma_no_panic_closed scale add fin zero window hw (fun _ => True) (fun _ => True) (fun _ _ _ => trivial)
    (fun a b _ _ => by obtain ⟨c, hc⟩ := hadd a b; exact ⟨c, hc, trivial⟩) (fun _ _ => trivial)
    evs (fun _ _ => trivial) Ma.init (fun _ _ => trivial)

/-- A1 for the f32 instantiation used by the driver -/
theorem ma_no_panic_f32 (window : Int) (hw : 0 < window) (evs : List (Output F)) :
    ∃ s', runE (Ma.step scaleF addF divF (some (c0 : F)) window) Ma.init evs = .ok s' :=
  ma_no_panic scaleF addF divF _ window hw (fun a b => ⟨a + b, rfl⟩) evs

theorem qadd_same_unit (chk : Bool) (a b : Quantity F) (h : chk = true → a.unit = b.unit) :
    Quantity.add chk a b = .ok ⟨a.value + b.value, a.unit⟩ := by
  cases chk with
  | false => rfl
  | true =>
    have h' := h rfl
    simp [Quantity.add, DUnit.add, DUnit.assertEqAssumeOk, DUnit.eqAssumeTrue, DUnit.constEq, h']

/-- A1 for the Quantity instantiation: all samples carry the same unit `u` (`chk` arbitrary; with
`chk = false` the hypothesis is not even needed, the class is then trivial). -/
theorem ma_no_panic_quantity (chk : Bool) (window : Int) (hw : 0 < window) (u : DUnit)
    (evs : List (Output (Quantity F))) (hin : ∀ d, Except.ok (some d) ∈ evs → d.value.unit = u) :
    ∃ s', runE (Ma.step (scaleQs chk) (Quantity.add chk) (divQs chk) none window) Ma.init evs = .ok s' := by
  refine ma_no_panic_closed (scaleQs chk) (Quantity.add chk) (divQs chk) none window hw
    (fun q => q.unit = u) (fun q => q.unit = DUnit.mul chk u (SECOND chk)) ?_ ?_ (fun _ h => by cases h)
    evs hin Ma.init (fun _ h => by cases h)
  · intro v w hv
    simp only [scaleQs, Quantity.mul, hv]
  · intro a b pa pb
    refine ⟨_, qadd_same_unit chk a b (fun _ => pa.trans pb.symm), pa⟩

/-! ### A2: the queue invariant -/

theorem sorted_head_lt (cut : Int) (q : List (Datum T)) (hs : Sorted q)
    (hh : ∀ d, q.head? = some d → cut < d.time) : ∀ d ∈ q, cut < d.time := by
  cases q with
  | nil => intro d hd; cases hd
  | cons x xs =>
    intro d hd
    have hx : cut < x.time := hh x rfl
    rcases List.mem_cons.1 hd with hd | hd
    · subst hd; exact hx
    · have := (List.pairwise_cons.1 hs).1 d hd
      omega

/-- one update on a present sample not older than anything in a sorted queue establishes `WinQueue` -/
theorem ma_step_present_inv (scale : T → F → T) (add : T → T → Except Panic T) (fin : T → F → T)
    (zero : Option T) (window : Int) (hw : 0 < window) (Pin Pacc : T → Prop)
    (hs : ∀ v w, Pin v → Pacc (scale v w))
    (ha : ∀ a b, Pacc a → Pacc b → ∃ c, add a b = .ok c ∧ Pacc c)
    (hz : ∀ z, zero = some z → Pacc z)
    (s : MaS T) (o : Datum T) (hq : ∀ d ∈ s.queue, Pin d.value) (ho : Pin o.value)
    (hsort : Sorted s.queue) (hle : ∀ d ∈ s.queue, d.time ≤ o.time) :
    ∃ q v, Ma.accumulate scale add zero (maTerms (o.time - window) q) = .ok (some v) ∧
      Ma.step scale add fin zero window s (.ok (some o)) =
        .ok (⟨.ok (some ⟨o.time, fin v (secs window)⟩), q⟩, .ok ()) ∧
      WinQueue window o q ∧ q = maWindow window s.queue o ∧ (∀ d ∈ q, d ∈ s.queue ∨ d = o) := by
  obtain ⟨pre, q', v, e, hacc, hstep, hpre, hhead, hwin⟩ :=
    ma_step_present_ok scale add fin zero window hw Pin Pacc hs ha hz s o hq ho
  have hsub : ∀ d ∈ q', d ∈ s.queue := fun d hd => by rw [e]; exact List.mem_append_right _ hd
  have hsorted : Sorted (q' ++ [o]) := by
    rw [e] at hsort
    have h2 := (List.pairwise_append.1 hsort).2.1
    refine List.pairwise_append.2 ⟨h2, List.pairwise_singleton _ _, ?_⟩
    intro a ha' b hb
    simp at hb
    subst hb
    exact hle a (hsub a ha')
  have hgt := sorted_head_lt (o.time - window) (q' ++ [o]) hsorted hhead
  have hmem : ∀ d ∈ q' ++ [o], d ∈ s.queue ∨ d = o := by
    intro d hd
    rcases List.mem_append.1 hd with hd | hd
    · exact Or.inl (hsub d hd)
    · simp at hd; exact Or.inr hd
  refine ⟨q' ++ [o], v, hacc, hstep, ⟨by simp, hsorted, ?_, q', rfl⟩, hwin, hmem⟩
  intro d hd
  refine ⟨hgt d hd, ?_⟩
  rcases hmem d hd with h | h
  · exact hle d h
  · subst h; exact Int.le_refl _

/-- general inductive form: from any state whose queue is sorted and not newer than all coming samples (and
not newer than `B`), a non-decreasing history bounded by `B` runs without panic into such a state -/
theorem ma_run_inv (scale : T → F → T) (add : T → T → Except Panic T) (fin : T → F → T)
    (zero : Option T) (window : Int) (hw : 0 < window) (Pin Pacc : T → Prop)
    (hs : ∀ v w, Pin v → Pacc (scale v w))
    (ha : ∀ a b, Pacc a → Pacc b → ∃ c, add a b = .ok c ∧ Pacc c)
    (hz : ∀ z, zero = some z → Pacc z) (B : Int)
    (evs : List (Output T)) (hin : ∀ d, Except.ok (some d) ∈ evs → Pin d.value) (hmono : NonDecr evs)
    (hB : ∀ t ∈ presentTimes evs, t ≤ B)
    (s : MaS T) (hq : ∀ d ∈ s.queue, Pin d.value) (hsort : Sorted s.queue)
    (hfut : ∀ d ∈ s.queue, ∀ t ∈ presentTimes evs, d.time ≤ t) (hsB : ∀ d ∈ s.queue, d.time ≤ B) :
    ∃ s', runE (Ma.step scale add fin zero window) s evs = .ok s' ∧ Sorted s'.queue ∧
      (∀ d ∈ s'.queue, Pin d.value) ∧ (∀ d ∈ s'.queue, d.time ≤ B) := by
  induction evs generalizing s with
  | nil => exact ⟨s, rfl, hsort, hq, hsB⟩
  | cons e es ih =>
    have hin' : ∀ d, Except.ok (some d) ∈ es → Pin d.value := fun d hd => hin d (List.mem_cons_of_mem _ hd)
    by_cases hp : ∃ d, e = .ok (some d)
    · obtain ⟨o, rfl⟩ := hp
      simp only [NonDecr, presentTimes, List.pairwise_cons] at hmono
      simp only [presentTimes, List.mem_cons, forall_eq_or_imp] at hB hfut
      obtain ⟨q, v, _, hstep, hwq, _, hmem⟩ := ma_step_present_inv scale add fin zero window hw Pin Pacc hs ha hz
        s o hq (hin o (List.mem_cons_self ..)) hsort (fun d hd => (hfut d hd).1)
      simp only [runE, hstep]
      apply ih hin' hmono.2 hB.2
      · intro d hd
        rcases hmem d hd with h | h
        · exact hq d h
        · subst h; exact hin _ (List.mem_cons_self ..)
      · exact hwq.2.1
      · intro d hd t ht
        rcases hmem d hd with h | h
        · exact (hfut d h).2 t ht
        · subst h; exact hmono.1 t ht
      · intro d hd
        rcases hmem d hd with h | h
        · exact hsB d h
        · subst h; exact hB.1
    · obtain ⟨s', r, hstep, hq'⟩ := ma_step_other_ok scale add fin zero window s e
        (fun d hd => hp ⟨d, hd⟩)
      have hpt : presentTimes (e :: es) = presentTimes es := by
        match e, hp with
        | .error _, _ => rfl
        | .ok none, _ => rfl
        | .ok (some d), hp => exact absurd ⟨d, rfl⟩ hp
      simp only [NonDecr, hpt] at hmono hB hfut
      simp only [runE, hstep]
      rcases hq' with hq' | hq'
      · apply ih hin' hmono hB <;> rw [hq'] <;> assumption
      · apply ih hin' hmono hB
        · rw [hq']; intro d hd; cases hd
        · rw [hq']; exact List.Pairwise.nil
        · rw [hq']; intro d hd; cases hd
        · rw [hq']; intro d hd; cases hd

/-- **A2, for every history**: after any non-decreasing history followed by a present sample `o` the run has
not panicked, the update returned `Ok(())`-state with value at time `o.time`, and the queue is non-empty,
sorted, inside `(o.time − window, o.time]`, and ends with `o`. -/
theorem ma_queue_invariant (scale : T → F → T) (add : T → T → Except Panic T) (fin : T → F → T)
    (zero : Option T) (window : Int) (hw : 0 < window) (Pin Pacc : T → Prop)
    (hs : ∀ v w, Pin v → Pacc (scale v w))
    (ha : ∀ a b, Pacc a → Pacc b → ∃ c, add a b = .ok c ∧ Pacc c)
    (hz : ∀ z, zero = some z → Pacc z)
    (pre : List (Output T)) (o : Datum T)
    (hin : ∀ d, Except.ok (some d) ∈ pre ++ [.ok (some o)] → Pin d.value)
    (hmono : NonDecr (pre ++ [.ok (some o)])) :
    ∃ s v, runE (Ma.step scale add fin zero window) Ma.init (pre ++ [.ok (some o)]) = .ok s ∧
      s.value = .ok (some ⟨o.time, fin v (secs window)⟩) ∧
      Ma.accumulate scale add zero (maTerms (o.time - window) s.queue) = .ok (some v) ∧
      WinQueue window o s.queue := by
  have hpt : presentTimes (pre ++ [Except.ok (some o)]) = presentTimes pre ++ [o.time] := by
    rw [presentTimes_append]; rfl
  simp only [NonDecr, hpt] at hmono
  obtain ⟨hm1, _, hm3⟩ := List.pairwise_append.1 hmono
  have hB : ∀ t ∈ presentTimes pre, t ≤ o.time := fun t ht => hm3 t ht o.time (by simp)
  obtain ⟨s1, hrun, hsort, hq, hsB⟩ := ma_run_inv scale add fin zero window hw Pin Pacc hs ha hz o.time pre
    (fun d hd => hin d (List.mem_append_left _ hd)) hm1 hB Ma.init
    (fun _ h => by cases h) List.Pairwise.nil (fun _ h => by cases h) (fun _ h => by cases h)
  obtain ⟨q, v, hacc, hstep, hwq, _, _⟩ := ma_step_present_inv scale add fin zero window hw Pin Pacc hs ha hz
    s1 o hq (hin o (by simp)) hsort hsB
  refine ⟨⟨.ok (some ⟨o.time, fin v (secs window)⟩), q⟩, v, ?_, rfl, hacc, hwq⟩
  rw [runE_append, hrun]
  simp only [runE, hstep]

/-! ### A3, A4: the weights (nanoseconds, exact integer arithmetic) -/

theorem weights_nonneg_aux (cut : Int) (q : List (Datum T)) (hs : Sorted q) (hc : ∀ d ∈ q, cut ≤ d.time) :
    ∀ w ∈ Ma.weightsNs cut q, 0 ≤ w := by
  induction q generalizing cut with
  | nil => intro w hw; cases hw
  | cons d ds ih =>
    intro w hw
    simp only [Ma.weightsNs, List.mem_cons] at hw
    have hp := List.pairwise_cons.1 hs
    rcases hw with hw | hw
    · have := hc d (List.mem_cons_self ..); omega
    · exact ih d.time hp.2 hp.1 w hw

/-- the time-in-window each sample covers: `t_i − t_{i−1}` with `t_0 = cut`; the sum telescopes -/
theorem weights_sum_snoc (cut : Int) (q' : List (Datum T)) (o : Datum T) :
    (Ma.weightsNs cut (q' ++ [o])).sum = o.time - cut := by
  induction q' generalizing cut with
  | nil => simp [Ma.weightsNs]
  | cons d ds ih =>
    simp only [List.cons_append, Ma.weightsNs, List.sum_cons, ih]
    omega

/-- **A3**: all weights are non-negative, the first one is strictly positive -/
theorem ma_weights_nonneg (window : Int) (o : Datum T) (q : List (Datum T)) (h : WinQueue window o q) :
    (∀ w ∈ Ma.weightsNs (o.time - window) q, 0 ≤ w) ∧
    (∃ w ws, Ma.weightsNs (o.time - window) q = w :: ws ∧ 0 < w) := by
  obtain ⟨hne, hs, hr, _⟩ := h
  refine ⟨weights_nonneg_aux _ q hs (fun d hd => Int.le_of_lt (hr d hd).1), ?_⟩
  cases q with
  | nil => exact absurd rfl hne
  | cons d ds =>
    refine ⟨_, _, rfl, ?_⟩
    have := (hr d (List.mem_cons_self ..)).1
    omega

/-- **A4**: the weights sum to the window length EXACTLY -/
theorem ma_weights_sum_window (window : Int) (o : Datum T) (q : List (Datum T)) (h : WinQueue window o q) :
    (Ma.weightsNs (o.time - window) q).sum = window := by
  obtain ⟨_, _, _, q', rfl⟩ := h
  rw [weights_sum_snoc]
  omega

theorem le_sum_of_nonneg (l : List Int) (h : ∀ w ∈ l, 0 ≤ w) : 0 ≤ l.sum ∧ ∀ w ∈ l, w ≤ l.sum := by
  induction l with
  | nil => exact ⟨by simp, fun w hw => by cases hw⟩
  | cons x xs ih =>
    have hx := h x (List.mem_cons_self ..)
    obtain ⟨h0, hle⟩ := ih (fun w hw => h w (List.mem_cons_of_mem _ hw))
    refine ⟨by simp only [List.sum_cons]; omega, ?_⟩
    intro w hw
    simp only [List.sum_cons]
    rcases List.mem_cons.1 hw with hw | hw
    · omega
    · have := hle w hw; omega

/-- consequently every weight lies in `[0, window]`: the `i64` subtractions `end_times[i] - start_times[i]`
cannot overflow; the only subtraction that can is `output.time - window` itself (see the report) -/
theorem ma_weights_le_window (window : Int) (o : Datum T) (q : List (Datum T)) (h : WinQueue window o q) :
    ∀ w ∈ Ma.weightsNs (o.time - window) q, 0 ≤ w ∧ w ≤ window := by
  intro w hw
  have h1 := (ma_weights_nonneg window o q h).1
  have h2 := (le_sum_of_nonneg _ h1).2 w hw
  rw [ma_weights_sum_window window o q h] at h2
  exact ⟨h1 w hw, h2⟩

/-- as many weights as samples -/
theorem ma_weights_length (cut : Int) (q : List (Datum T)) : (Ma.weightsNs cut q).length = q.length :=
  weightsNs_length cut q

end S

end Rrtk.Thm.C12
