/-
C12 — moving-average and EWMA streams: time-weighted average over the window, convexity, constants, first
sample, variants agree, no panics.
Tier S for everything structural (queue, weights in nanoseconds, which formula, panics), tier R for the
convexity consequences, tier L (one law) for the agreement of the f32 and Quantity moving averages.
-/
import Rrtk.Streams.Stateful
import Rrtk.Thm.Lemmas.Exact
set_option linter.unusedSectionVars false
set_option linter.unusedSimpArgs false
namespace Rrtk.Thm.C12
open Rrtk

/-! ## histories -/

/-- run a stream over a history of events, stopping at the first panic -/
def runE {S I : Type} (step : S → I → Except Panic (S × UpdRet)) : S → List I → Except Panic S
  | s, [] => .ok s
  | s, i :: is =>
    match step s i with
    | .error p => .error p
    | .ok r => runE step r.1 is

/-- timestamps of the present samples of a history, in order -/
def presentTimes {T : Type} : List (Output T) → List Int
  | [] => []
  | .ok (some d) :: es => d.time :: presentTimes es
  | .ok none :: es => presentTimes es
  | .error _ :: es => presentTimes es

/-- the quantifier of the property: timestamps of the present samples never decrease (repeats allowed) -/
def NonDecr {T : Type} (evs : List (Output T)) : Prop := (presentTimes evs).Pairwise (· ≤ ·)

/-- present samples since the last error event (what the moving average may still hold) -/
def sinceReset {T : Type} : List (Datum T) → List (Output T) → List (Datum T)
  | acc, [] => acc
  | acc, .ok (some d) :: es => sinceReset (acc ++ [d]) es
  | acc, .ok none :: es => sinceReset acc es
  | _, .error _ :: es => sinceReset [] es

theorem runE_append {S I : Type} (step : S → I → Except Panic (S × UpdRet)) (s : S) (l₁ l₂ : List I) :
    runE step s (l₁ ++ l₂) = match runE step s l₁ with
      | .error p => .error p
      | .ok s' => runE step s' l₂ := by
  induction l₁ generalizing s with
  | nil => rfl
  | cons i is ih =>
    simp only [List.cons_append, runE]
    cases h : step s i with
    | error p => rfl
    | ok r => exact ih r.1

theorem presentTimes_append {T : Type} (l₁ l₂ : List (Output T)) :
    presentTimes (l₁ ++ l₂) = presentTimes l₁ ++ presentTimes l₂ := by
  induction l₁ with
  | nil => rfl
  | cons e es ih =>
    match e with
    | .ok (some d) => simp [presentTimes, ih]
    | .ok none => simpa [presentTimes] using ih
    | .error _ => simpa [presentTimes] using ih

theorem mem_presentTimes {T : Type} (evs : List (Output T)) (t : Int) :
    t ∈ presentTimes evs ↔ ∃ d, Except.ok (some d) ∈ evs ∧ d.time = t := by
  induction evs with
  | nil => simp [presentTimes]
  | cons e es ih =>
    match e with
    | .ok (some d) =>
      simp only [presentTimes, List.mem_cons, ih]
      constructor
      · rintro (h | ⟨d', h1, h2⟩)
        · exact ⟨d, Or.inl rfl, h.symm⟩
        · exact ⟨d', Or.inr h1, h2⟩
      · rintro ⟨d', h1 | h1, h2⟩
        · left; cases h1; exact h2.symm
        · exact Or.inr ⟨d', h1, h2⟩
    | .ok none => simp [presentTimes, ih]
    | .error _ => simp [presentTimes, ih]

end Rrtk.Thm.C12
