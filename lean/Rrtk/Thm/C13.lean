/-
C13 — one-degree-of-freedom devices (inverter, gear train, axle) relay the newest command to every terminal,
mapped from the issuing side to the reading side; chains relay to the far end; a differential never alters commands.
Tier S throughout (no law of the scalar is used), except `invert_side2_roundtrip` (tier L, `-(-x) = x`) and
`chain_scale_is_product` / `chain_relays_scaled` (tier R, section `R` near the end of this file).
-/
import Rrtk.Devices
import Rrtk.Thm.Lemmas.Exact
set_option linter.unusedSectionVars false
set_option linter.unusedSimpArgs false
namespace Rrtk.Thm.C13
open Rrtk

section S
variable {F : Type} [Add F] [Sub F] [Mul F] [Div F] [Neg F] [LT F] [LE F] [BEq F]
  [DecidableLT F] [DecidableLE F] [FloatLike F]

/-! ### world basics: slots after `setState` / `setCommand` -/

theorem setState_command (w : World F) (i j : Nat) (d : Datum (State F)) :
    ((w.setState i d).t j).command = (w.t j).command := by
  simp only [World.setState, World.setT]
  by_cases h : j = i
  · subst h; simp
  · simp [h]

theorem setState_other (w : World F) (i j : Nat) (d : Datum (State F)) :
    ((w.setState i d).t j).other = (w.t j).other := by
  simp only [World.setState, World.setT]
  by_cases h : j = i
  · subst h; simp
  · simp [h]

theorem setCommand_command_self (w : World F) (i : Nat) (d : Datum (Command F)) :
    ((w.setCommand i d).t i).command = some d := by
  simp [World.setCommand, World.setT]

theorem setCommand_command_ne (w : World F) (i j : Nat) (d : Datum (Command F)) (h : j ≠ i) :
    ((w.setCommand i d).t j).command = (w.t j).command := by
  simp [World.setCommand, World.setT, h]

theorem setCommand_other (w : World F) (i j : Nat) (d : Datum (Command F)) :
    ((w.setCommand i d).t j).other = (w.t j).other := by
  simp only [World.setCommand, World.setT]
  by_cases h : j = i
  · subst h; simp
  · simp [h]

theorem setCommand_state (w : World F) (i j : Nat) (d : Datum (Command F)) :
    ((w.setCommand i d).t j).state = (w.t j).state := by
  simp only [World.setCommand, World.setT]
  by_cases h : j = i
  · subst h; simp
  · simp [h]

/-- `w'` has the same command slots and the same links as `w` (state slots may differ) -/
def SameCmds (w w' : World F) : Prop :=
  ∀ j, (w'.t j).command = (w.t j).command ∧ (w'.t j).other = (w.t j).other

theorem SameCmds.refl (w : World F) : SameCmds w w := fun _ => ⟨rfl, rfl⟩

theorem SameCmds.setState {w w' : World F} (h : SameCmds w w') (i : Nat) (d : Datum (State F)) :
    SameCmds w (w'.setState i d) := fun j => by
  rw [setState_command, setState_other]; exact h j

/-- the partner's command slot depends only on command slots and links -/
theorem SameCmds.partnerCommand {w w' : World F} (h : SameCmds w w') (i : Nat) :
    w'.partnerCommand i = w.partnerCommand i := by
  simp only [World.partnerCommand, (h i).2]
  cases (w.t i).other with
  | none => rfl
  | some p => simp only [(h p).1]

/-- every command read depends only on command slots and links -/
theorem SameCmds.getCommand {w w' : World F} (h : SameCmds w w') (i : Nat) :
    w'.getCommand i = w.getCommand i := by
  simp only [World.getCommand, h.partnerCommand i, (h i).1]

/-! ### the terminal command getter: newer of own and partner, own on ties -/

theorem getCommand_none_iff (w : World F) (i : Nat) :
    w.getCommand i = none ↔ (w.t i).command = none ∧ w.partnerCommand i = none := by
  simp only [World.getCommand]
  cases (w.t i).command with
  | none => simp
  | some c =>
    cases w.partnerCommand i with
    | none => simp
    | some g => simp only []; split <;> simp

/-- the own slot is read back when the partner has nothing newer (own wins ties) -/
theorem getCommand_eq_own (w : World F) (i : Nat) (c : Datum (Command F))
    (hown : (w.t i).command = some c)
    (hp : ∀ g, w.partnerCommand i = some g → g.time ≤ c.time) : w.getCommand i = some c := by
  simp only [World.getCommand, hown]
  cases hg : w.partnerCommand i with
  | none => rfl
  | some g =>
    have := hp g hg
    simp only []
    rw [if_neg (by omega)]

/-- the partner's slot is read when the own slot is empty -/
theorem getCommand_eq_partner (w : World F) (i : Nat) (hown : (w.t i).command = none) :
    w.getCommand i = w.partnerCommand i := by
  simp only [World.getCommand, hown]

/-- a read is never older than the partner's slot … -/
theorem partner_le_read (w : World F) (i : Nat) (g : Datum (Command F)) (hg : w.partnerCommand i = some g) :
    ∃ r, w.getCommand i = some r ∧ g.time ≤ r.time := by
  simp only [World.getCommand, hg]
  cases (w.t i).command with
  | none => exact ⟨g, rfl, Int.le_refl _⟩
  | some c =>
    simp only []
    split
    · exact ⟨g, rfl, Int.le_refl _⟩
    · exact ⟨c, rfl, by omega⟩

/-- … nor than the own slot -/
theorem own_le_read (w : World F) (i : Nat) (c : Datum (Command F)) (hc : (w.t i).command = some c) :
    ∃ r, w.getCommand i = some r ∧ c.time ≤ r.time := by
  simp only [World.getCommand, hc]
  cases w.partnerCommand i with
  | none => exact ⟨c, rfl, Int.le_refl _⟩
  | some g =>
    simp only []
    split
    · exact ⟨g, rfl, by omega⟩
    · exact ⟨c, rfl, Int.le_refl _⟩

/-! ### the value maps keep the kind and act on the raw value -/

theorem new_kind (pd : PosDer) (v : F) : (Command.new pd v).kind = pd := by cases pd <;> rfl
theorem new_raw (pd : PosDer) (v : F) : (Command.new pd v).raw = v := by cases pd <;> rfl
theorem neg_kind (c : Command F) : (Command.neg c).kind = c.kind := by cases c <;> rfl
theorem neg_raw (c : Command F) : (Command.neg c).raw = -c.raw := by cases c <;> rfl
theorem mulF_kind (c : Command F) (x : F) : (Command.mulF c x).kind = c.kind := new_kind _ _
theorem mulF_raw (c : Command F) (x : F) : (Command.mulF c x).raw = c.raw * x := new_raw _ _
theorem divF_kind (c : Command F) (x : F) : (Command.divF c x).kind = c.kind := new_kind _ _
theorem divF_raw (c : Command F) (x : F) : (Command.divF c x).raw = c.raw / x := new_raw _ _
/-- a command is determined by its kind and raw value -/
theorem command_ext (a b : Command F) (hk : a.kind = b.kind) (hr : a.raw = b.raw) : a = b := by
  cases a <;> cases b <;> simp_all [Command.kind, Command.raw]

/-! ### A. state phases keep every command slot and link; E. differential -/

/-- the first half of `Invert::update` (lines 40-77) -/
def invertStatePhase (w : World F) (i1 i2 : Nat) : World F :=
  match w.getState i1, w.getState i2 with
  | none, none => w
  | none, some d2 => w.setState i1 ⟨d2.time, State.neg d2.value⟩
  | some d1, none => w.setState i2 ⟨d1.time, State.neg d1.value⟩
  | some d1, some d2 =>
    let time := if d1.time ≥ d2.time then d1.time else d2.time
    let ns := State.divF (State.sub d1.value d2.value) c2
    (w.setState i1 ⟨time, ns⟩).setState i2 ⟨time, State.neg ns⟩

/-- the first half of `GearTrain::update` (lines 155-195) -/
def gearStatePhase (ratio : F) (w : World F) (i1 i2 : Nat) : World F :=
  match w.getState i1, w.getState i2 with
  | some d1, some d2 =>
    let time := if d1.time ≥ d2.time then d1.time else d2.time
    let r2p1 := ratio * ratio + c1
    let xpry := State.add d1.value (State.mulF d2.value ratio)
    let n1 := State.divF xpry r2p1
    let n2 := State.divF (State.mulF xpry ratio) r2p1
    (w.setState i1 ⟨time, n1⟩).setState i2 ⟨time, n2⟩
  | some d1, none => w.setState i2 (Datum.scalar State.mulF d1 ratio)
  | none, some d2 => w.setState i1 (Datum.scalar State.divF d2 ratio)
  | none, none => w

/-- the first half of `Axle::update` (lines 278-294) -/
def axleStatePhase (w : World F) (is : List Nat) : World F :=
  let start : Datum (State F) × Nat := (⟨-9223372036854775808, ⟨c0, c0, c0⟩⟩, 0)
  let acc := is.foldl (fun (a : Datum (State F) × Nat) i =>
    match w.getState i with
    | some g => (Datum.combine State.add a.1 g, a.2 + 1)
    | none => a) start
  if acc.2 ≥ 1 then
    let d := Datum.scalar State.divF acc.1 (FloatLike.ofInt (acc.2 : Int) : F)
    is.foldl (fun w' i => w'.setState i d) w
  else w

/-- the command half of `Invert::update` (lines 78-102), as a function of the world after the state half -/
def invertCmdPhase (w1 : World F) (i1 i2 : Nat) : World F :=
  let m0 := (Datum.replaceIfNoneOrOlderThanOption none (w1.getCommand i1)).1
  let m1 := match w1.getCommand i2 with
    | some x => (Datum.replaceIfNoneOrOlderThan m0 (Datum.map Command.neg x)).1
    | none => m0
  match m1 with
  | some dc => (w1.setCommand i1 dc).setCommand i2 (Datum.map Command.neg dc)
  | none => w1

/-- the command half of `GearTrain::update` (lines 196-229) -/
def gearCmdPhase (ratio : F) (w1 : World F) (i1 i2 : Nat) : World F :=
  match w1.getCommand i1, w1.getCommand i2 with
  | some d1, some d2 =>
    if d1.time ≥ d2.time then w1.setCommand i2 (Datum.scalar Command.mulF d1 ratio)
    else w1.setCommand i1 (Datum.scalar Command.divF d2 ratio)
  | some d1, none => w1.setCommand i2 (Datum.scalar Command.mulF d1 ratio)
  | none, some d2 => w1.setCommand i1 (Datum.scalar Command.divF d2 ratio)
  | none, none => w1

/-- the command half of `Axle::update` (lines 295-303) -/
def axleCmdPhase (w1 : World F) (is : List Nat) : World F :=
  match is.foldl (fun (m : Option (Datum (Command F))) i =>
    (Datum.replaceIfNoneOrOlderThanOption m (w1.getCommand i)).1) none with
  | some dc => is.foldl (fun w' i => w'.setCommand i dc) w1
  | none => w1

/-- each update is its state half followed by its command half (definitional) -/
theorem invert_update_phases (w : World F) (i1 i2 : Nat) :
    Invert.update w i1 i2 = invertCmdPhase (invertStatePhase w i1 i2) i1 i2 := rfl
theorem gear_update_phases (ratio : F) (w : World F) (i1 i2 : Nat) :
    GearTrain.update ratio w i1 i2 = gearCmdPhase ratio (gearStatePhase ratio w i1 i2) i1 i2 := rfl
theorem axle_update_phases (w : World F) (is : List Nat) :
    Axle.update w is = axleCmdPhase (axleStatePhase w is) is := rfl

theorem foldl_setState_sameCmds (d : Datum (State F)) (is : List Nat) (w w0 : World F) (h : SameCmds w w0) :
    SameCmds w (is.foldl (fun w' i => w'.setState i d) w0) := by
  induction is generalizing w0 with
  | nil => exact h
  | cons i is ih => exact ih _ (h.setState i d)

/-- A (inverter): the state half changes no command slot and no link -/
theorem invert_state_phase_sameCmds (w : World F) (i1 i2 : Nat) : SameCmds w (invertStatePhase w i1 i2) := by
  simp only [invertStatePhase]
  split
  · exact .refl w
  · exact (SameCmds.refl w).setState _ _
  · exact (SameCmds.refl w).setState _ _
  · exact ((SameCmds.refl w).setState _ _).setState _ _

/-- A (gear train) -/
theorem gear_state_phase_sameCmds (ratio : F) (w : World F) (i1 i2 : Nat) :
    SameCmds w (gearStatePhase ratio w i1 i2) := by
  simp only [gearStatePhase]
  split
  · exact ((SameCmds.refl w).setState _ _).setState _ _
  · exact (SameCmds.refl w).setState _ _
  · exact (SameCmds.refl w).setState _ _
  · exact .refl w

/-- A (axle, any number of terminals) -/
theorem axle_state_phase_sameCmds (w : World F) (is : List Nat) : SameCmds w (axleStatePhase w is) := by
  simp only [axleStatePhase]
  split
  · exact foldl_setState_sameCmds _ _ _ _ (.refl w)
  · exact .refl w

/-- A: every command read is the same after the state half as before the update -/
theorem invert_state_phase_keeps_commands (w : World F) (i1 i2 i : Nat) :
    (invertStatePhase w i1 i2).getCommand i = w.getCommand i :=
  (invert_state_phase_sameCmds w i1 i2).getCommand i
theorem gear_state_phase_keeps_commands (ratio : F) (w : World F) (i1 i2 i : Nat) :
    (gearStatePhase ratio w i1 i2).getCommand i = w.getCommand i :=
  (gear_state_phase_sameCmds ratio w i1 i2).getCommand i
theorem axle_state_phase_keeps_commands (w : World F) (is : List Nat) (i : Nat) :
    (axleStatePhase w is).getCommand i = w.getCommand i :=
  (axle_state_phase_sameCmds w is).getCommand i

/-- E: `Differential::update` only ever calls the *state* setter: in all four modes every command slot and every
link is left as it was … -/
theorem diff_keeps_command_slots (mode : Distrust) (w : World F) (i1 i2 isum : Nat) :
    SameCmds w (Differential.update mode w i1 i2 isum) := by
  cases mode <;> simp only [Differential.update] <;> repeat' split
  all_goals first
    | exact .refl w
    | exact (SameCmds.refl w).setState _ _
    | exact (((SameCmds.refl w).setState _ _).setState _ _).setState _ _

/-- … hence every command read, at its own terminals and anywhere else, is unchanged. -/
theorem diff_keeps_commands (mode : Distrust) (w : World F) (i1 i2 isum i : Nat) :
    (Differential.update mode w i1 i2 isum).getCommand i = w.getCommand i :=
  (diff_keeps_command_slots mode w i1 i2 isum).getCommand i

/-! ### B. inverter -/

/-- the command an inverter relays, in side-1 orientation: the newer of the read at side 1 and the negated read
at side 2; side 1 wins ties -/
def invertWinner (c1 c2 : Option (Datum (Command F))) : Option (Datum (Command F)) :=
  match c1, c2 with
  | none, none => none
  | some a, none => some a
  | none, some b => some (Datum.map Command.neg b)
  | some a, some b => if b.time > a.time then some (Datum.map Command.neg b) else some a

/-- the code's two `replace_if_none_or_older_than` calls compute `invertWinner` -/
theorem invertCmdPhase_eq (w1 : World F) (i1 i2 : Nat) :
    invertCmdPhase w1 i1 i2 =
      match invertWinner (w1.getCommand i1) (w1.getCommand i2) with
      | some dc => (w1.setCommand i1 dc).setCommand i2 (Datum.map Command.neg dc)
      | none => w1 := by
  simp only [invertCmdPhase, invertWinner]
  cases w1.getCommand i1 with
  | none =>
    cases w1.getCommand i2 with
    | none => rfl
    | some b => rfl
  | some a =>
    cases w1.getCommand i2 with
    | none => rfl
    | some b =>
      have ht : (Datum.map Command.neg b).time = b.time := rfl
      simp only [Datum.replaceIfNoneOrOlderThanOption, Datum.replaceIfNoneOrOlderThan, ht]
      by_cases h : b.time > a.time
      · have h' : ¬ (a.time ≥ b.time) := by omega
        simp only [h, h', if_true, if_false]
      · have h' : a.time ≥ b.time := by omega
        simp only [h, h', if_true, if_false]

/-- nothing to relay exactly when neither side reads a command -/
theorem invertWinner_none_iff (c1 c2 : Option (Datum (Command F))) :
    invertWinner c1 c2 = none ↔ c1 = none ∧ c2 = none := by
  cases c1 <;> cases c2 <;> simp [invertWinner]
  split <;> simp

/-- the winner is one of the two reads (the side-2 one negated): nothing is invented -/
theorem invertWinner_mem (c1 c2 : Option (Datum (Command F))) (dc : Datum (Command F))
    (h : invertWinner c1 c2 = some dc) :
    c1 = some dc ∨ ∃ b, c2 = some b ∧ dc = Datum.map Command.neg b := by
  cases c1 <;> cases c2 <;> simp only [invertWinner] at h
  · exact absurd h (by simp)
  · right; exact ⟨_, rfl, (Option.some.inj h).symm⟩
  · left; exact h
  · split at h
    · right; exact ⟨_, rfl, (Option.some.inj h).symm⟩
    · left; exact h

/-- the winner is the most recently issued of the reads -/
theorem invertWinner_newest (c1 c2 : Option (Datum (Command F))) (dc : Datum (Command F))
    (h : invertWinner c1 c2 = some dc) :
    (∀ a, c1 = some a → a.time ≤ dc.time) ∧ (∀ b, c2 = some b → b.time ≤ dc.time) := by
  cases c1 <;> cases c2 <;> simp only [invertWinner] at h
  · exact absurd h (by simp)
  · cases Option.some.inj h; simp [Datum.map]
  · cases Option.some.inj h; simp
  · split at h
    · cases Option.some.inj h
      refine ⟨fun a ha => ?_, fun b hb => ?_⟩
      · cases Option.some.inj ha; simp only [Datum.map]; omega
      · cases Option.some.inj hb; simp [Datum.map]
    · cases Option.some.inj h
      refine ⟨fun a ha => ?_, fun b hb => ?_⟩
      · cases Option.some.inj ha; exact Int.le_refl _
      · cases Option.some.inj hb; omega

/-- with distinct timestamps the winner is side 1's read iff that one is strictly newer (ties never arise) -/
theorem invertWinner_distinct (a b : Datum (Command F)) (hd : a.time ≠ b.time) :
    invertWinner (some a) (some b) = if a.time > b.time then some a else some (Datum.map Command.neg b) := by
  simp only [invertWinner]
  by_cases h : b.time > a.time
  · rw [if_pos h, if_neg (by omega)]
  · rw [if_neg h, if_pos (by omega)]

/-- B (slots). With `c1`, `c2` the commands read at the two terminals before the update: if neither is present no
command slot changes; otherwise terminal 1's own slot becomes the winner and terminal 2's its negation — same
timestamp, same kind — and no other slot and no link changes. -/
theorem invert_relays_newest_slots (w : World F) (i1 i2 : Nat) (h12 : i1 ≠ i2) :
    let w' := Invert.update w i1 i2
    let win := invertWinner (w.getCommand i1) (w.getCommand i2)
    (∀ j, (w'.t j).other = (w.t j).other) ∧
    (∀ j, j ≠ i1 → j ≠ i2 → (w'.t j).command = (w.t j).command) ∧
    (win = none → ∀ j, (w'.t j).command = (w.t j).command) ∧
    (∀ dc, win = some dc → (w'.t i1).command = some dc ∧
        (w'.t i2).command = some (Datum.map Command.neg dc)) := by
  intro w' win
  have hs := invert_state_phase_sameCmds w i1 i2
  have hw' : w' = _ := invertCmdPhase_eq (invertStatePhase w i1 i2) i1 i2
  rw [hs.getCommand i1, hs.getCommand i2] at hw'
  cases hwin : win with
  | none =>
    have : w' = invertStatePhase w i1 i2 := by
      rw [hw']; show (match win with | some dc => _ | none => _) = _; rw [hwin]
    rw [this]
    exact ⟨fun j => (hs j).2, fun j _ _ => (hs j).1, fun _ j => (hs j).1, fun dc h => absurd h (by simp)⟩
  | some dc =>
    have : w' = ((invertStatePhase w i1 i2).setCommand i1 dc).setCommand i2 (Datum.map Command.neg dc) := by
      rw [hw']; show (match win with | some dc => _ | none => _) = _; rw [hwin]
    rw [this]
    refine ⟨fun j => ?_, fun j h1 h2 => ?_, fun h => absurd h (by simp), fun dc' h => ?_⟩
    · rw [setCommand_other, setCommand_other]; exact (hs j).2
    · rw [setCommand_command_ne _ _ _ _ h2, setCommand_command_ne _ _ _ _ h1]; exact (hs j).1
    · cases Option.some.inj h
      exact ⟨by rw [setCommand_command_ne _ _ _ _ h12, setCommand_command_self],
             setCommand_command_self _ _ _⟩

/-- the relayed command carries the issuer's timestamp and kind on both sides -/
theorem invert_relayed_time_kind (dc : Datum (Command F)) :
    (Datum.map Command.neg dc).time = dc.time ∧ (Datum.map Command.neg dc).value.kind = dc.value.kind ∧
    (Datum.map Command.neg dc).value.raw = -dc.value.raw :=
  ⟨rfl, neg_kind _, neg_raw _⟩

/-- B (reads). After `Invert::update` the command read at terminal 1 is exactly the winner — the most recently
issued of the two commands read before the update, with its issuer's time and kind, negated iff it came from side 2 —
and the command read at terminal 2 is its negation.  No assumption on ties or on how the terminals are connected is
needed: the relayed command is written into both own slots, own slots win ties in the terminal getter, and a partner
outside the device cannot hold anything newer because the winner was chosen from reads that included it. -/
theorem invert_relays_newest (w : World F) (i1 i2 : Nat) (h12 : i1 ≠ i2) :
    (Invert.update w i1 i2).getCommand i1 = invertWinner (w.getCommand i1) (w.getCommand i2) ∧
    (Invert.update w i1 i2).getCommand i2 =
      (invertWinner (w.getCommand i1) (w.getCommand i2)).map (Datum.map Command.neg) := by
  obtain ⟨hoth, hne, hnone, hsome⟩ := invert_relays_newest_slots w i1 i2 h12
  have hsame : invertWinner (w.getCommand i1) (w.getCommand i2) = none →
      SameCmds w (Invert.update w i1 i2) := fun h j => ⟨hnone h j, hoth j⟩
  cases hwin : invertWinner (w.getCommand i1) (w.getCommand i2) with
  | none =>
    have h := (invertWinner_none_iff _ _).1 hwin
    rw [(hsame hwin).getCommand i1, (hsame hwin).getCommand i2, h.1, h.2]; exact ⟨rfl, rfl⟩
  | some dc =>
    obtain ⟨hs1, hs2⟩ := hsome dc hwin
    obtain ⟨hle1, hle2⟩ := invertWinner_newest _ _ dc hwin
    -- what the partner of a device terminal `i` can hold after the update
    have hpart : ∀ i, (∀ r, w.getCommand i = some r → r.time ≤ dc.time) →
        ∀ g, (Invert.update w i1 i2).partnerCommand i = some g → g.time ≤ dc.time := by
      intro i hle g hg
      simp only [World.partnerCommand, hoth i] at hg
      cases hp : (w.t i).other with
      | none => rw [hp] at hg; exact absurd hg (by simp)
      | some p =>
        rw [hp] at hg; simp only [] at hg
        by_cases e1 : p = i1
        · rw [e1, hs1] at hg; cases Option.some.inj hg; exact Int.le_refl _
        · by_cases e2 : p = i2
          · rw [e2, hs2] at hg; cases Option.some.inj hg; exact Int.le_refl _
          · rw [hne p e1 e2] at hg
            have hpc : w.partnerCommand i = some g := by simp only [World.partnerCommand, hp]; exact hg
            obtain ⟨r, hr, hgr⟩ := partner_le_read w i g hpc
            have := hle r hr; omega
    constructor
    · exact getCommand_eq_own _ _ _ hs1 (hpart i1 hle1)
    · exact getCommand_eq_own _ _ _ hs2 (fun g hg => hpart i2 hle2 g hg)

/-- B (tier L). A command issued on side 2 that is the newest is read back on side 2, after the update, with its
original value, time and kind: the two negations cancel (`hneg`: `-(-x) = x`, true of IEEE negation). -/
theorem invert_side2_roundtrip (hneg : ∀ x : F, -(-x) = x) (w : World F) (i1 i2 : Nat) (h12 : i1 ≠ i2)
    (b : Datum (Command F)) (h2 : w.getCommand i2 = some b)
    (hnewest : ∀ a, w.getCommand i1 = some a → b.time > a.time) :
    (Invert.update w i1 i2).getCommand i2 = some b := by
  have hwin : invertWinner (w.getCommand i1) (w.getCommand i2) = some (Datum.map Command.neg b) := by
    rw [h2]
    cases h1 : w.getCommand i1 with
    | none => rfl
    | some a => simp only [invertWinner]; rw [if_pos (hnewest a h1)]
  rw [(invert_relays_newest w i1 i2 h12).2, hwin]
  have : Command.neg (Command.neg b.value) = b.value :=
    command_ext _ _ (by rw [neg_kind, neg_kind]) (by rw [neg_raw, neg_raw, hneg])
  simp only [Option.map, Datum.map, this]

/-! ### C. gear train -/

/-- which side a gear train relays from: side 1 unless only side 2 reads a command or side 2's is strictly newer -/
def gearSide1Wins (c1 c2 : Option (Datum (Command F))) : Bool :=
  match c1, c2 with
  | some a, some b => decide (a.time ≥ b.time)
  | some _, none => true
  | none, _ => false

/-- the commands read at (terminal 1, terminal 2) after a gear-train update, from the reads before it:
the newer read stays what it is on its own side and appears multiplied by the ratio (1 → 2) or divided by it
(2 → 1) on the other side, with the same timestamp -/
def gearReads (ratio : F) (c1 c2 : Option (Datum (Command F))) :
    Option (Datum (Command F)) × Option (Datum (Command F)) :=
  match c1, c2 with
  | none, none => (none, none)
  | some a, none => (some a, some (Datum.scalar Command.mulF a ratio))
  | none, some b => (some (Datum.scalar Command.divF b ratio), some b)
  | some a, some b =>
    if a.time ≥ b.time then (some a, some (Datum.scalar Command.mulF a ratio))
    else (some (Datum.scalar Command.divF b ratio), some b)

/-- the relayed command carries the issuer's timestamp and kind; its raw value is multiplied / divided by the ratio -/
theorem gear_relayed_time_kind (d : Datum (Command F)) (ratio : F) :
    ((Datum.scalar Command.mulF d ratio).time = d.time ∧ (Datum.scalar Command.mulF d ratio).value.kind = d.value.kind ∧
      (Datum.scalar Command.mulF d ratio).value.raw = d.value.raw * ratio) ∧
    ((Datum.scalar Command.divF d ratio).time = d.time ∧ (Datum.scalar Command.divF d ratio).value.kind = d.value.kind ∧
      (Datum.scalar Command.divF d ratio).value.raw = d.value.raw / ratio) :=
  ⟨⟨rfl, mulF_kind _ _, mulF_raw _ _⟩, ⟨rfl, divF_kind _ _, divF_raw _ _⟩⟩

/-- the side whose read is kept is the most recently issued one (side 1 on ties; with distinct timestamps there are
no ties) -/
theorem gearReads_newest (ratio : F) (a b : Datum (Command F)) :
    (a.time ≥ b.time → gearReads ratio (some a) (some b) = (some a, some (Datum.scalar Command.mulF a ratio))) ∧
    (b.time > a.time → gearReads ratio (some a) (some b) = (some (Datum.scalar Command.divF b ratio), some b)) := by
  simp only [gearReads]
  exact ⟨fun h => by rw [if_pos h], fun h => by rw [if_neg (by omega)]⟩

/-- C (slots). Only the losing side's own slot is written (with the winner's command scaled to that side); the
winning side's slot, every other slot and every link are untouched; with no command on either side nothing changes. -/
theorem gear_relays_newest_slots (ratio : F) (w : World F) (i1 i2 : Nat) :
    let w' := GearTrain.update ratio w i1 i2
    let c1 := w.getCommand i1
    let c2 := w.getCommand i2
    (∀ j, (w'.t j).other = (w.t j).other) ∧
    (c1 = none → c2 = none → ∀ j, (w'.t j).command = (w.t j).command) ∧
    (∀ a, c1 = some a → gearSide1Wins c1 c2 = true →
        (w'.t i2).command = some (Datum.scalar Command.mulF a ratio) ∧
        ∀ j, j ≠ i2 → (w'.t j).command = (w.t j).command) ∧
    (∀ b, c2 = some b → gearSide1Wins c1 c2 = false →
        (w'.t i1).command = some (Datum.scalar Command.divF b ratio) ∧
        ∀ j, j ≠ i1 → (w'.t j).command = (w.t j).command) := by
  intro w' c1 c2
  have hs := gear_state_phase_sameCmds ratio w i1 i2
  have hw' : w' = gearCmdPhase ratio (gearStatePhase ratio w i1 i2) i1 i2 := rfl
  simp only [gearCmdPhase, hs.getCommand i1, hs.getCommand i2] at hw'
  have h1 : w.getCommand i1 = c1 := rfl
  have h2 : w.getCommand i2 = c2 := rfl
  rw [h1, h2] at hw'
  -- writing one slot of the world after the state half
  have hset : ∀ i d, (∀ j, (((gearStatePhase ratio w i1 i2).setCommand i d).t j).other = (w.t j).other) ∧
      (((gearStatePhase ratio w i1 i2).setCommand i d).t i).command = some d ∧
      ∀ j, j ≠ i → (((gearStatePhase ratio w i1 i2).setCommand i d).t j).command = (w.t j).command :=
    fun i d => ⟨fun j => by rw [setCommand_other]; exact (hs j).2, setCommand_command_self _ _ _,
      fun j hj => by rw [setCommand_command_ne _ _ _ _ hj]; exact (hs j).1⟩
  cases hc1 : c1 with
  | none =>
    cases hc2 : c2 with
    | none =>
      rw [hc1, hc2] at hw'; simp only [] at hw'; rw [hw']
      exact ⟨fun j => (hs j).2, fun _ _ j => (hs j).1, fun a h => absurd h (by simp), fun b h => absurd h (by simp)⟩
    | some b =>
      rw [hc1, hc2] at hw'; simp only [] at hw'; rw [hw']
      obtain ⟨ho, hself, hne⟩ := hset i1 (Datum.scalar Command.divF b ratio)
      refine ⟨ho, fun _ h => absurd h (by simp), fun a h => absurd h (by simp), fun b' hb' _ => ?_⟩
      cases Option.some.inj hb'; exact ⟨hself, hne⟩
  | some a =>
    cases hc2 : c2 with
    | none =>
      rw [hc1, hc2] at hw'; simp only [] at hw'; rw [hw']
      obtain ⟨ho, hself, hne⟩ := hset i2 (Datum.scalar Command.mulF a ratio)
      refine ⟨ho, fun h => absurd h (by simp), fun a' ha' _ => ?_, fun b h => absurd h (by simp)⟩
      cases Option.some.inj ha'; exact ⟨hself, hne⟩
    | some b =>
      rw [hc1, hc2] at hw'; simp only [] at hw'
      by_cases ht : a.time ≥ b.time
      · rw [if_pos ht] at hw'; rw [hw']
        obtain ⟨ho, hself, hne⟩ := hset i2 (Datum.scalar Command.mulF a ratio)
        refine ⟨ho, fun h => absurd h (by simp), fun a' ha' _ => ?_, fun b' _ hf => ?_⟩
        · cases Option.some.inj ha'; exact ⟨hself, hne⟩
        · simp [gearSide1Wins, ht] at hf
      · rw [if_neg ht] at hw'; rw [hw']
        obtain ⟨ho, hself, hne⟩ := hset i1 (Datum.scalar Command.divF b ratio)
        refine ⟨ho, fun h => absurd h (by simp), fun a' _ hf => ?_, fun b' hb' _ => ?_⟩
        · simp [gearSide1Wins, ht] at hf
        · cases Option.some.inj hb'; exact ⟨hself, hne⟩

/-- C (reads). For a gear train whose two terminals are joined to terminals other than its own (`hext1`, `hext2`;
unconnected is fine), after `GearTrain::update` the commands read at its terminals are `gearReads`: the most recently
issued of the two commands read before the update (side 1 on ties) is read unchanged on its own side and, with the same
timestamp and kind, multiplied by the ratio on side 2 resp. divided by it on side 1. -/
theorem gear_relays_newest (ratio : F) (w : World F) (i1 i2 : Nat) (h12 : i1 ≠ i2)
    (hext1 : (w.t i1).other ≠ some i1 ∧ (w.t i1).other ≠ some i2)
    (hext2 : (w.t i2).other ≠ some i1 ∧ (w.t i2).other ≠ some i2) :
    (GearTrain.update ratio w i1 i2).getCommand i1 = (gearReads ratio (w.getCommand i1) (w.getCommand i2)).1 ∧
    (GearTrain.update ratio w i1 i2).getCommand i2 = (gearReads ratio (w.getCommand i1) (w.getCommand i2)).2 := by
  obtain ⟨hoth, hnone, hw1, hw2⟩ := gear_relays_newest_slots ratio w i1 i2
  -- the partner slot of a device terminal is unaffected when only slot `k ∈ {i1, i2}` was written
  have hpart : ∀ i k, ((w.t i).other ≠ some k) →
      (∀ j, j ≠ k → ((GearTrain.update ratio w i1 i2).t j).command = (w.t j).command) →
      (GearTrain.update ratio w i1 i2).partnerCommand i = w.partnerCommand i := by
    intro i k hk hne
    simp only [World.partnerCommand, hoth i]
    cases hp : (w.t i).other with
    | none => rfl
    | some p =>
      simp only []
      exact hne p (fun e => hk (by rw [hp, e]))
  have hkeep : ∀ i k, i ≠ k → ((w.t i).other ≠ some k) →
      (∀ j, j ≠ k → ((GearTrain.update ratio w i1 i2).t j).command = (w.t j).command) →
      (GearTrain.update ratio w i1 i2).getCommand i = w.getCommand i := by
    intro i k hik hk hne
    simp only [World.getCommand, hpart i k hk hne, hne i hik]
  have hnew : ∀ i k d, i = k → ((w.t i).other ≠ some k) →
      ((GearTrain.update ratio w i1 i2).t k).command = some d →
      (∀ j, j ≠ k → ((GearTrain.update ratio w i1 i2).t j).command = (w.t j).command) →
      (∀ r, w.getCommand i = some r → r.time ≤ d.time) →
      (GearTrain.update ratio w i1 i2).getCommand i = some d := by
    intro i k d hik hk hself hne hle
    subst hik
    refine getCommand_eq_own _ _ _ hself (fun g hg => ?_)
    rw [hpart i i hk hne] at hg
    obtain ⟨r, hr, hgr⟩ := partner_le_read w i g hg
    have := hle r hr; omega
  cases hc1 : w.getCommand i1 with
  | none =>
    cases hc2 : w.getCommand i2 with
    | none =>
      have hsame : SameCmds w (GearTrain.update ratio w i1 i2) := fun j => ⟨hnone hc1 hc2 j, hoth j⟩
      rw [hsame.getCommand, hsame.getCommand, hc1, hc2]; exact ⟨rfl, rfl⟩
    | some b =>
      obtain ⟨hself, hne⟩ := hw2 b hc2 (by rw [hc1]; rfl)
      refine ⟨?_, ?_⟩
      · exact hnew i1 i1 _ rfl hext1.1 hself hne (fun r hr => by rw [hc1] at hr; exact absurd hr (by simp))
      · rw [hkeep i2 i1 (Ne.symm h12) hext2.1 hne, hc2]; rfl
  | some a =>
    cases hc2 : w.getCommand i2 with
    | none =>
      obtain ⟨hself, hne⟩ := hw1 a hc1 (by rw [hc1, hc2]; rfl)
      refine ⟨?_, ?_⟩
      · rw [hkeep i1 i2 h12 hext1.2 hne, hc1]; rfl
      · exact hnew i2 i2 _ rfl hext2.2 hself hne (fun r hr => by rw [hc2] at hr; exact absurd hr (by simp))
    | some b =>
      by_cases ht : a.time ≥ b.time
      · obtain ⟨hself, hne⟩ := hw1 a hc1 (by rw [hc1, hc2]; simp [gearSide1Wins, ht])
        rw [(gearReads_newest ratio a b).1 ht]
        refine ⟨?_, ?_⟩
        · rw [hkeep i1 i2 h12 hext1.2 hne, hc1]
        · exact hnew i2 i2 _ rfl hext2.2 hself hne
            (fun r hr => by rw [hc2] at hr; cases Option.some.inj hr; exact ht)
      · obtain ⟨hself, hne⟩ := hw2 b hc2 (by rw [hc1, hc2]; simp [gearSide1Wins, ht])
        rw [(gearReads_newest ratio a b).2 (by omega)]
        refine ⟨?_, ?_⟩
        · exact hnew i1 i1 _ rfl hext1.1 hself hne
            (fun r hr => by rw [hc1] at hr; cases Option.some.inj hr; show _ ≤ b.time; omega)
        · rw [hkeep i2 i1 (Ne.symm h12) hext2.1 hne, hc2]

/-! ### D. axle -/

/-- `maybe_datum.replace_if_none_or_older_than_option(read)` folded over a list of reads, starting from `m0` -/
def newestFrom {α : Type} (m0 : Option (Datum α)) (reads : List (Option (Datum α))) : Option (Datum α) :=
  reads.foldl (fun m r => (Datum.replaceIfNoneOrOlderThanOption m r).1) m0

/-- the axle's choice: the fold from `None` -/
def newestOf {α : Type} (reads : List (Option (Datum α))) : Option (Datum α) := newestFrom none reads

theorem replaceOpt_step {α : Type} (m r : Option (Datum α)) :
    (Datum.replaceIfNoneOrOlderThanOption m r).1 =
      match m, r with
      | m, none => m
      | none, some c => some c
      | some d, some c => if d.time ≥ c.time then some d else some c := by
  cases m <;> cases r <;> simp only [Datum.replaceIfNoneOrOlderThanOption, Datum.replaceIfNoneOrOlderThan]
  split <;> rfl

/-- the fold yields nothing iff it started with nothing and every read is absent -/
theorem newestFrom_none_iff {α : Type} (m0 : Option (Datum α)) (reads : List (Option (Datum α))) :
    newestFrom m0 reads = none ↔ m0 = none ∧ ∀ r ∈ reads, r = none := by
  induction reads generalizing m0 with
  | nil => simp [newestFrom]
  | cons r rs ih =>
    have : newestFrom m0 (r :: rs) = newestFrom (Datum.replaceIfNoneOrOlderThanOption m0 r).1 rs := rfl
    rw [this, ih, replaceOpt_step]
    cases m0 <;> cases r <;> simp
    split <;> simp

/-- Characterisation of the fold's result `d`: either it is the starting value and no read is newer, or it is a
read at some position, strictly newer than the start and than every read before it and at least as new as every read
after it — i.e. the *first* read of maximal time. -/
theorem newestFrom_some {α : Type} (m0 : Option (Datum α)) (reads : List (Option (Datum α))) (d : Datum α)
    (h : newestFrom m0 reads = some d) :
    (m0 = some d ∧ ∀ x, some x ∈ reads → x.time ≤ d.time) ∨
    (∃ pre post, reads = pre ++ some d :: post ∧ (∀ x, m0 = some x → x.time < d.time) ∧
      (∀ x, some x ∈ pre → x.time < d.time) ∧ (∀ x, some x ∈ post → x.time ≤ d.time)) := by
  induction reads generalizing m0 with
  | nil => left; exact ⟨h, fun x hx => absurd hx (by simp)⟩
  | cons r rs ih =>
    have hstep : newestFrom m0 (r :: rs) = newestFrom (Datum.replaceIfNoneOrOlderThanOption m0 r).1 rs := rfl
    rw [hstep] at h
    have hm := replaceOpt_step m0 r
    rcases ih _ h with ⟨hm1, hall⟩ | ⟨pre, post, hrs, hlt0, hpre, hpost⟩
    · -- the accumulator after `r` is already the result
      rw [hm1] at hm
      cases r with
      | none =>
        simp only [] at hm
        left; refine ⟨hm.symm, fun x hx => ?_⟩
        rcases List.mem_cons.1 hx with e | e
        · exact absurd e (by simp)
        · exact hall x e
      | some c =>
        cases m0 with
        | none =>
          simp only [] at hm
          cases Option.some.inj hm
          right; exact ⟨[], rs, rfl, fun x hx => absurd hx (by simp), fun x hx => absurd hx (by simp), hall⟩
        | some e =>
          simp only [] at hm
          by_cases hec : e.time ≥ c.time
          · rw [if_pos hec] at hm
            cases Option.some.inj hm
            left; refine ⟨rfl, fun x hx => ?_⟩
            rcases List.mem_cons.1 hx with e' | e'
            · cases Option.some.inj e'; exact hec
            · exact hall x e'
          · rw [if_neg hec] at hm
            cases Option.some.inj hm
            right
            exact ⟨[], rs, rfl, fun x hx => by cases Option.some.inj hx; omega,
              fun x hx => absurd hx (by simp), hall⟩
    · -- the result comes later in the list: both `m0` and `r` are older than the accumulator after `r`
      right
      refine ⟨r :: pre, post, by rw [hrs]; rfl, fun x hx => ?_, fun x hx => ?_, hpost⟩
      · subst hx
        cases r with
        | none => exact hlt0 x (by rw [hm])
        | some c =>
          simp only [] at hm
          by_cases hec : x.time ≥ c.time
          · rw [if_pos hec] at hm; exact hlt0 x hm
          · rw [if_neg hec] at hm; have := hlt0 c hm; omega
      · rcases List.mem_cons.1 hx with e | e
        · subst e
          cases m0 with
          | none => exact hlt0 x (by rw [hm])
          | some e0 =>
            simp only [] at hm
            by_cases hec : e0.time ≥ x.time
            · rw [if_pos hec] at hm; have := hlt0 e0 hm; omega
            · rw [if_neg hec] at hm; exact hlt0 x hm
        · exact hpre x e

/-- D (choice). The axle's fold over the reads of its terminals, for a list of ANY length: nothing iff every read
is absent; otherwise one of the reads, unchanged, of maximal time, and the first such in list order. -/
theorem newestOf_spec {α : Type} (reads : List (Option (Datum α))) :
    (newestOf reads = none ↔ ∀ r ∈ reads, r = none) ∧
    (∀ d, newestOf reads = some d →
      ∃ pre post, reads = pre ++ some d :: post ∧
        (∀ x, some x ∈ pre → x.time < d.time) ∧ (∀ x, some x ∈ post → x.time ≤ d.time)) := by
  refine ⟨by simp [newestOf, newestFrom_none_iff], fun d h => ?_⟩
  rcases newestFrom_some none reads d h with ⟨h0, _⟩ | ⟨pre, post, e, _, h1, h2⟩
  · exact absurd h0 (by simp)
  · exact ⟨pre, post, e, h1, h2⟩

/-- the chosen datum is the most recently issued among the reads … -/
theorem newestOf_max {α : Type} (reads : List (Option (Datum α))) (d : Datum α) (h : newestOf reads = some d) :
    some d ∈ reads ∧ ∀ x, some x ∈ reads → x.time ≤ d.time := by
  obtain ⟨pre, post, e, h1, h2⟩ := (newestOf_spec reads).2 d h
  subst e
  refine ⟨by simp, fun x hx => ?_⟩
  rcases List.mem_append.1 hx with hx | hx
  · have := h1 x hx; omega
  · rcases List.mem_cons.1 hx with hx | hx
    · cases Option.some.inj hx; exact Int.le_refl _
    · exact h2 x hx

/-- … and with distinct timestamps it is THE newest read: every other read is strictly older. -/
theorem newestOf_unique_of_distinct {α : Type} (reads : List (Option (Datum α))) (d : Datum α)
    (h : newestOf reads = some d)
    (hdist : ∀ x y, some x ∈ reads → some y ∈ reads → x.time = y.time → x = y) :
    ∀ x, some x ∈ reads → x ≠ d → x.time < d.time := by
  intro x hx hne
  obtain ⟨hd, hmax⟩ := newestOf_max reads d h
  have := hmax x hx
  have : x.time ≠ d.time := fun e => hne (hdist x d hx hd e)
  omega

theorem foldl_setCommand_slots (dc : Datum (Command F)) (is : List Nat) (w0 : World F) :
    (∀ j, ((is.foldl (fun w' i => w'.setCommand i dc) w0).t j).other = (w0.t j).other) ∧
    (∀ j, j ∈ is → ((is.foldl (fun w' i => w'.setCommand i dc) w0).t j).command = some dc) ∧
    (∀ j, j ∉ is → ((is.foldl (fun w' i => w'.setCommand i dc) w0).t j).command = (w0.t j).command) := by
  induction is generalizing w0 with
  | nil => exact ⟨fun _ => rfl, fun j h => absurd h (by simp), fun _ _ => rfl⟩
  | cons i is ih =>
    obtain ⟨h1, h2, h3⟩ := ih (w0.setCommand i dc)
    refine ⟨fun j => ?_, fun j hj => ?_, fun j hj => ?_⟩
    · rw [List.foldl_cons, h1, setCommand_other]
    · rw [List.foldl_cons]
      by_cases hm : j ∈ is
      · exact h2 j hm
      · rw [h3 j hm]
        have : j = i := by
          rcases List.mem_cons.1 hj with e | e
          · exact e
          · exact absurd e hm
        rw [this]; exact setCommand_command_self _ _ _
    · rw [List.foldl_cons, h3 j (fun e => hj (List.mem_cons_of_mem _ e))]
      exact setCommand_command_ne _ _ _ _ (fun e => hj (by rw [e]; exact List.mem_cons_self))

/-- the code's fold over the terminals is `newestOf` of the list of reads taken before the update -/
theorem axle_choice_eq (w : World F) (is : List Nat) :
    is.foldl (fun (m : Option (Datum (Command F))) i =>
      (Datum.replaceIfNoneOrOlderThanOption m ((axleStatePhase w is).getCommand i)).1) none =
    newestOf (is.map w.getCommand) := by
  simp only [newestOf, newestFrom, List.foldl_map, axle_state_phase_keeps_commands]

/-- D (slots). For an axle over ANY list of terminals: with `m` the first newest of the commands read at its
terminals before the update (`newestOf`), if `m` is absent no command slot changes, otherwise every terminal of the
axle gets exactly that datum — value, kind and timestamp unchanged — in its own slot; other slots and all links are
untouched. -/
theorem axle_relays_newest_slots (w : World F) (is : List Nat) :
    let w' := Axle.update w is
    let m := newestOf (is.map w.getCommand)
    (∀ j, (w'.t j).other = (w.t j).other) ∧
    (∀ j, j ∉ is → (w'.t j).command = (w.t j).command) ∧
    (m = none → ∀ j, (w'.t j).command = (w.t j).command) ∧
    (∀ dc, m = some dc → ∀ j, j ∈ is → (w'.t j).command = some dc) := by
  intro w' m
  have hs := axle_state_phase_sameCmds w is
  have hw' : w' = axleCmdPhase (axleStatePhase w is) is := rfl
  simp only [axleCmdPhase, axle_choice_eq] at hw'
  cases hm : m with
  | none =>
    have hm' : newestOf (is.map w.getCommand) = none := hm
    rw [hm'] at hw'; simp only [] at hw'; rw [hw']
    exact ⟨fun j => (hs j).2, fun j _ => (hs j).1, fun _ j => (hs j).1, fun dc h => absurd h (by simp)⟩
  | some dc =>
    have hm' : newestOf (is.map w.getCommand) = some dc := hm
    rw [hm'] at hw'; simp only [] at hw'; rw [hw']
    obtain ⟨h1, h2, h3⟩ := foldl_setCommand_slots dc is (axleStatePhase w is)
    refine ⟨fun j => by rw [h1]; exact (hs j).2, fun j hj => by rw [h3 j hj]; exact (hs j).1,
      fun h => absurd h (by simp), fun dc' h j hj => ?_⟩
    cases Option.some.inj h; exact h2 j hj

/-- D (reads). After `Axle::update`, reading the command at ANY terminal of the axle yields the first newest of the
commands read at its terminals before the update — the issuer's datum itself: same timestamp, kind and value.
Holds for every number of terminals, every wiring, and with ties (no distinctness is needed: all own slots hold the
same datum and own slots win ties). -/
theorem axle_relays_newest (w : World F) (is : List Nat) (i : Nat) (hi : i ∈ is) :
    (Axle.update w is).getCommand i = newestOf (is.map w.getCommand) := by
  obtain ⟨hoth, hne, hnone, hsome⟩ := axle_relays_newest_slots w is
  cases hm : newestOf (is.map w.getCommand) with
  | none =>
    have hsame : SameCmds w (Axle.update w is) := fun j => ⟨hnone hm j, hoth j⟩
    rw [hsame.getCommand]
    exact (newestOf_spec _).1.1 hm _ (List.mem_map.2 ⟨i, hi, rfl⟩)
  | some dc =>
    have hmax := (newestOf_max _ dc hm).2
    refine getCommand_eq_own _ _ _ (hsome dc hm i hi) (fun g hg => ?_)
    simp only [World.partnerCommand, hoth i] at hg
    cases hp : (w.t i).other with
    | none => rw [hp] at hg; exact absurd hg (by simp)
    | some p =>
      rw [hp] at hg; simp only [] at hg
      by_cases hpin : p ∈ is
      · rw [hsome dc hm p hpin] at hg; cases Option.some.inj hg; exact Int.le_refl _
      · rw [hne p hpin] at hg
        have hpc : w.partnerCommand i = some g := by simp only [World.partnerCommand, hp]; exact hg
        obtain ⟨r, hr, hgr⟩ := partner_le_read w i g hpc
        have := hmax r (List.mem_map.2 ⟨i, hi, hr⟩)
        omega

/-! ### F. chains of one-degree-of-freedom devices -/

/-- a one-degree-of-freedom device with an entry terminal `a` and an exit terminal `b`:
inverter (side 1 = `a`), gear train (side 1 = `a`), or an axle over ANY terminal list `is` containing both -/
inductive Dev1 (F : Type) where
  | inv (a b : Nat)
  | gear (ratio : F) (a b : Nat)
  | axle (is : List Nat) (a b : Nat)

namespace Dev1
def fst : Dev1 F → Nat
  | inv a _ => a | gear _ a _ => a | axle _ a _ => a
def snd : Dev1 F → Nat
  | inv _ b => b | gear _ _ b => b | axle _ _ b => b
/-- all terminals of the device -/
def terms : Dev1 F → List Nat
  | inv a b => [a, b] | gear _ a b => [a, b] | axle is _ _ => is
/-- the device's `update` -/
def update : Dev1 F → World F → World F
  | inv a b, w => Invert.update w a b
  | gear r a b, w => GearTrain.update r w a b
  | axle is _ _, w => Axle.update w is
/-- how a command value is mapped from the entry to the exit side -/
def mapCmd : Dev1 F → Command F → Command F
  | inv _ _, c => Command.neg c
  | gear r _ _, c => Command.mulF c r
  | axle _ _ _, c => c
/-- entry and exit are two different terminals of the device -/
def WF (d : Dev1 F) : Prop := d.fst ∈ d.terms ∧ d.snd ∈ d.terms ∧ d.fst ≠ d.snd
end Dev1

/-- all terminals of all devices of a chain -/
def chainTerms : List (Dev1 F) → List Nat
  | [] => []
  | d :: ds => d.terms ++ chainTerms ds

/-- update the devices in order along the chain -/
def runChain (w : World F) : List (Dev1 F) → World F
  | [] => w
  | d :: ds => runChain (d.update w) ds

/-- the composed value map, entry of the first device → exit of the last -/
def chainMap : List (Dev1 F) → Command F → Command F
  | [], c => c
  | d :: ds, c => chainMap ds (d.mapCmd c)

/-- exit terminal of the last device -/
def farEnd (d : Dev1 F) : List (Dev1 F) → Nat
  | [] => d.snd
  | d' :: ds => farEnd d' ds

/-- A chain in the world `w` (only the links of `w` matter): every device has distinct entry/exit among its terminals;
the entry of each next device is connected to the exit of the previous one; devices share no terminal; apart from that
one connection no terminal of a later device is wired to a terminal of an earlier one; and the far end is not wired
back into its own device. -/
def ChainOK (w : World F) : List (Dev1 F) → Prop
  | [] => True
  | [d] => d.WF ∧ ∀ p ∈ d.terms, (w.t d.snd).other ≠ some p
  | d :: d' :: rest =>
    d.WF ∧ (w.t d'.fst).other = some d.snd ∧ (∀ x ∈ d.terms, x ∉ chainTerms (d' :: rest)) ∧
    (∀ j ∈ chainTerms (d' :: rest), j ≠ d'.fst → ∀ p ∈ d.terms, (w.t j).other ≠ some p) ∧
    ChainOK w (d' :: rest)

theorem ChainOK.congr {w w' : World F} (h : ∀ j, (w'.t j).other = (w.t j).other) :
    ∀ ds : List (Dev1 F), ChainOK w ds → ChainOK w' ds
  | [], _ => trivial
  | [d], hc => ⟨hc.1, fun p hp => by rw [h]; exact hc.2 p hp⟩
  | d :: d' :: rest, hc =>
    ⟨hc.1, by rw [h]; exact hc.2.1, hc.2.2.1, fun j hj hne p hp => by rw [h]; exact hc.2.2.2.1 j hj hne p hp,
      ChainOK.congr h (d' :: rest) hc.2.2.2.2⟩

theorem ChainOK.head_WF {w : World F} {d : Dev1 F} {ds : List (Dev1 F)} (h : ChainOK w (d :: ds)) : d.WF := by
  cases ds with
  | nil => exact h.1
  | cons d' rest => exact h.1

/-- if exactly one read is present, the axle's fold picks it -/
theorem newestOf_single {α : Type} (reads : List (Option (Datum α))) (c : Datum α) (hc : some c ∈ reads)
    (hall : ∀ r ∈ reads, r = none ∨ r = some c) : newestOf reads = some c := by
  cases h : newestOf reads with
  | none => exact absurd ((newestOf_spec reads).1.1 h _ hc) (by simp)
  | some d =>
    rcases hall _ (newestOf_max reads d h).1 with e | e
    · exact absurd e (by simp)
    · exact e

/-- F (one device). If the entry terminal reads the command `c` and no other terminal of the device reads any, then
after the device's update the exit terminal's own slot holds `c` with the issuer's timestamp and its value mapped
(negated / times the ratio / unchanged); slots outside the device and all links are untouched. -/
theorem dev_relays (d : Dev1 F) (hwf : d.WF) (w : World F) (c : Datum (Command F))
    (hc : w.getCommand d.fst = some c) (hnone : ∀ j ∈ d.terms, j ≠ d.fst → w.getCommand j = none) :
    ((d.update w).t d.snd).command = some ⟨c.time, d.mapCmd c.value⟩ ∧
    (∀ j, j ∉ d.terms → ((d.update w).t j).command = (w.t j).command) ∧
    (∀ j, ((d.update w).t j).other = (w.t j).other) := by
  obtain ⟨hfm, hsm, hne⟩ := hwf
  cases d with
  | inv a b =>
    simp only [Dev1.fst, Dev1.snd, Dev1.terms, Dev1.update, Dev1.mapCmd] at *
    have hb : w.getCommand b = none := hnone b (by simp) (Ne.symm hne)
    obtain ⟨ho, hn, _, hs⟩ := invert_relays_newest_slots w a b hne
    have hwin : invertWinner (w.getCommand a) (w.getCommand b) = some c := by rw [hc, hb]; rfl
    refine ⟨(hs c hwin).2, fun j hj => hn j (fun e => hj (by simp [e])) (fun e => hj (by simp [e])), ho⟩
  | gear r a b =>
    simp only [Dev1.fst, Dev1.snd, Dev1.terms, Dev1.update, Dev1.mapCmd] at *
    have hb : w.getCommand b = none := hnone b (by simp) (Ne.symm hne)
    obtain ⟨ho, _, h1, _⟩ := gear_relays_newest_slots r w a b
    obtain ⟨hs, hn⟩ := h1 c hc (by rw [hc, hb]; rfl)
    exact ⟨hs, fun j hj => hn j (fun e => hj (by simp [e])), ho⟩
  | axle is a b =>
    simp only [Dev1.fst, Dev1.snd, Dev1.terms, Dev1.update, Dev1.mapCmd] at *
    obtain ⟨ho, hn, _, hs⟩ := axle_relays_newest_slots w is
    have hm : newestOf (is.map w.getCommand) = some c := by
      refine newestOf_single _ c (List.mem_map.2 ⟨a, hfm, hc⟩) (fun r hr => ?_)
      obtain ⟨j, hj, e⟩ := List.mem_map.1 hr
      by_cases hja : j = a
      · right; rw [← e, hja, hc]
      · left; rw [← e]; exact hnone j hj hja
    exact ⟨hs c hm b hsm, hn, ho⟩

theorem chainMap_kind (ds : List (Dev1 F)) (c : Command F) : (chainMap ds c).kind = c.kind := by
  induction ds generalizing c with
  | nil => rfl
  | cons d ds ih =>
    rw [chainMap, ih]
    cases d with
    | inv a b => exact neg_kind c
    | gear r a b => exact mulF_kind c r
    | axle is a b => rfl

/-- F (chain, ANY length; inverters, gear trains and axles of any size). If the entry terminal of the first device
reads the command `c` and no other terminal of the chain reads any command, then after updating the devices in order
along the chain the far terminal's own slot holds — and the far terminal reads — a command with the issuer's timestamp,
the issuer's kind (`chainMap_kind`) and the value obtained by applying the per-device maps in order. -/
theorem chain_relays (d : Dev1 F) (ds : List (Dev1 F)) (w : World F) (c : Datum (Command F))
    (hok : ChainOK w (d :: ds)) (hc : w.getCommand d.fst = some c)
    (hnone : ∀ j ∈ chainTerms (d :: ds), j ≠ d.fst → w.getCommand j = none) :
    ((runChain w (d :: ds)).t (farEnd d ds)).command = some ⟨c.time, chainMap (d :: ds) c.value⟩ ∧
    (runChain w (d :: ds)).getCommand (farEnd d ds) = some ⟨c.time, chainMap (d :: ds) c.value⟩ := by
  induction ds generalizing d w c with
  | nil =>
    show ((d.update w).t d.snd).command = some ⟨c.time, d.mapCmd c.value⟩ ∧
      (d.update w).getCommand d.snd = some ⟨c.time, d.mapCmd c.value⟩
    obtain ⟨hwf, hfree⟩ := hok
    obtain ⟨hs, hn, ho⟩ := dev_relays d hwf w c hc
      (fun j hj => hnone j (by simpa [chainTerms] using hj))
    refine ⟨hs, getCommand_eq_own _ _ _ hs (fun g hg => ?_)⟩
    -- the far terminal's partner lies outside the device and held nothing before
    have hb : w.getCommand d.snd = none :=
      hnone _ (by simpa [chainTerms] using hwf.2.1) (Ne.symm hwf.2.2)
    have hpn := ((getCommand_none_iff w d.snd).1 hb).2
    simp only [World.partnerCommand, ho] at hg
    simp only [World.partnerCommand] at hpn
    cases hp : (w.t d.snd).other with
    | none => rw [hp] at hg; exact absurd hg (by simp)
    | some p =>
      rw [hp] at hg hpn; simp only [] at hg hpn
      rw [hn p (fun hm => hfree p hm hp), hpn] at hg
      exact absurd hg (by simp)
  | cons d' rest ih =>
    obtain ⟨hwf, hlink, hdisj, hiso, hrest⟩ := hok
    obtain ⟨hs, hn, ho⟩ := dev_relays d hwf w c hc
      (fun j hj => hnone j (by simp only [chainTerms]; exact List.mem_append_left _ hj))
    have hin : ∀ j ∈ chainTerms (d' :: rest), j ∈ chainTerms (d :: d' :: rest) :=
      fun j hj => by simp only [chainTerms] at hj ⊢; exact List.mem_append_right _ hj
    have hnotd : ∀ j ∈ chainTerms (d' :: rest), j ∉ d.terms := fun j hj hm => hdisj j hm hj
    have hne_fst : ∀ j ∈ chainTerms (d' :: rest), j ≠ d.fst := fun j hj e => hnotd j hj (e ▸ hwf.1)
    have hfst' : d'.fst ∈ chainTerms (d' :: rest) := by
      simp only [chainTerms]; exact List.mem_append_left _ (ChainOK.head_WF hrest).1
    -- the next device's entry terminal now reads the relayed command through its connection
    have hc' : (d.update w).getCommand d'.fst = some ⟨c.time, d.mapCmd c.value⟩ := by
      have hown : (w.t d'.fst).command = none :=
        ((getCommand_none_iff w _).1 (hnone _ (hin _ hfst') (hne_fst _ hfst'))).1
      rw [getCommand_eq_partner _ _ (by rw [hn _ (hnotd _ hfst')]; exact hown)]
      simp only [World.partnerCommand, ho, hlink]; exact hs
    -- every other later terminal still reads nothing
    have hnone' : ∀ j ∈ chainTerms (d' :: rest), j ≠ d'.fst → (d.update w).getCommand j = none := by
      intro j hj hjne
      obtain ⟨hown, hpar⟩ := (getCommand_none_iff w j).1 (hnone j (hin j hj) (hne_fst j hj))
      refine (getCommand_none_iff _ j).2 ⟨by rw [hn j (hnotd j hj)]; exact hown, ?_⟩
      simp only [World.partnerCommand, ho] at hpar ⊢
      cases hp : (w.t j).other with
      | none => rfl
      | some p =>
        rw [hp] at hpar; simp only [] at hpar ⊢
        rw [hn p (fun hm => hiso j hj hjne p hm hp)]; exact hpar
    exact ih d' (d.update w) ⟨c.time, d.mapCmd c.value⟩ (ChainOK.congr ho _ hrest) hc' hnone'

/-- F (what an outside observer sees). A terminal `e` outside the chain that is connected to the far end and has no
command of its own reads the relayed command. -/
theorem chain_relays_external (d : Dev1 F) (ds : List (Dev1 F)) (w : World F) (c : Datum (Command F))
    (hok : ChainOK w (d :: ds)) (hc : w.getCommand d.fst = some c)
    (hnone : ∀ j ∈ chainTerms (d :: ds), j ≠ d.fst → w.getCommand j = none)
    (e : Nat) (he : ((runChain w (d :: ds)).t e).other = some (farEnd d ds))
    (hown : ((runChain w (d :: ds)).t e).command = none) :
    (runChain w (d :: ds)).getCommand e = some ⟨c.time, chainMap (d :: ds) c.value⟩ := by
  rw [getCommand_eq_partner _ _ hown]
  simp only [World.partnerCommand, he]
  exact (chain_relays d ds w c hok hc hnone).1

/-- F, as stated: a command present only in the own slot of the first terminal of the first device (every other command
slot of the world empty), no chain terminal other than that one wired to it. -/
theorem chain_relays_fresh (d : Dev1 F) (ds : List (Dev1 F)) (w : World F) (c : Datum (Command F))
    (hok : ChainOK w (d :: ds)) (hc : (w.t d.fst).command = some c)
    (hempty : ∀ j, j ≠ d.fst → (w.t j).command = none)
    (hentry : ∀ j ∈ chainTerms (d :: ds), j ≠ d.fst → (w.t j).other ≠ some d.fst) :
    (runChain w (d :: ds)).getCommand (farEnd d ds) = some ⟨c.time, chainMap (d :: ds) c.value⟩ := by
  refine (chain_relays d ds w c hok ?_ ?_).2
  · refine getCommand_eq_own _ _ _ hc (fun g hg => ?_)
    simp only [World.partnerCommand] at hg
    cases hp : (w.t d.fst).other with
    | none => rw [hp] at hg; exact absurd hg (by simp)
    | some p =>
      rw [hp] at hg; simp only [] at hg
      by_cases e : p = d.fst
      · rw [e, hc] at hg; cases Option.some.inj hg; exact Int.le_refl _
      · rw [hempty p e] at hg; exact absurd hg (by simp)
  · intro j hj hne
    refine (getCommand_none_iff w j).2 ⟨hempty j hne, ?_⟩
    simp only [World.partnerCommand]
    cases hp : (w.t j).other with
    | none => rfl
    | some p =>
      simp only []
      exact hempty p (fun e => hentry j hj hne (by rw [hp, e]))

end S

/-! ### tier R: the composed map is multiplication by the product of the ratios -/
section R
variable {F : Type} [Field F] [LinearOrder F] [IsStrictOrderedRing F] [FloatLike F] [ExactScalar F]

/-- the ratio of a device, entry → exit: `-1` for an inverter, the gear ratio, `1` for an axle -/
def Dev1.ratio : Dev1 F → F
  | .inv _ _ => -1
  | .gear r _ _ => r
  | .axle _ _ _ => 1

/-- F (tier R): over an ordered field the value that reaches the far end is the issued value times the product of the
ratios along the chain (an inverter counting as `-1`, an axle as `1`), of the same kind. -/
theorem chain_scale_is_product (ds : List (Dev1 F)) (c : Command F) :
    (chainMap ds c).kind = c.kind ∧ (chainMap ds c).raw = c.raw * (ds.map Dev1.ratio).prod := by
  refine ⟨chainMap_kind ds c, ?_⟩
  induction ds generalizing c with
  | nil => simp [chainMap]
  | cons d ds ih =>
    rw [chainMap, ih, List.map_cons, List.prod_cons]
    cases d with
    | inv a b => simp only [Dev1.mapCmd, Dev1.ratio, neg_raw]; ring
    | gear r a b => simp only [Dev1.mapCmd, Dev1.ratio, mulF_raw]; ring
    | axle is a b => simp only [Dev1.mapCmd, Dev1.ratio]; ring

/-- F (tier R, end to end): the command read at the far end of a chain of any length has the issuer's timestamp, the
issuer's kind, and the issuer's value scaled by the product of the ratios. -/
theorem chain_relays_scaled (d : Dev1 F) (ds : List (Dev1 F)) (w : World F) (c : Datum (Command F))
    (hok : ChainOK w (d :: ds)) (hc : w.getCommand d.fst = some c)
    (hnone : ∀ j ∈ chainTerms (d :: ds), j ≠ d.fst → w.getCommand j = none) :
    ∃ r, (runChain w (d :: ds)).getCommand (farEnd d ds) = some r ∧ r.time = c.time ∧
      r.value.kind = c.value.kind ∧ r.value.raw = c.value.raw * ((d :: ds).map Dev1.ratio).prod :=
  ⟨_, (chain_relays d ds w c hok hc hnone).2, rfl, (chain_scale_is_product (d :: ds) c.value).1,
    (chain_scale_is_product (d :: ds) c.value).2⟩
end R

/-! ### non-vacuity: concrete instances over `Int` payloads -/
section Examples
/-- integers as a (law-free) scalar, for examples only -/
local instance : FloatLike Int := ⟨id, id, fun _ _ => 1, fun x => x.natAbs⟩

/-- device terminals 0 and 1, joined to outside terminals 2 and 3 which hold a velocity command issued at time 5 and
a position command issued at time 9; terminal 4 is free -/
def exW : World Int := ⟨5, fun
  | 0 => ⟨none, none, some 2⟩
  | 1 => ⟨none, none, some 3⟩
  | 2 => ⟨none, some ⟨5, .velocity 3⟩, some 0⟩
  | 3 => ⟨none, some ⟨9, .position 4⟩, some 1⟩
  | _ => World.freshTerm⟩

example : exW.getCommand 0 = some ⟨5, .velocity 3⟩ ∧ exW.getCommand 1 = some ⟨9, .position 4⟩ := ⟨rfl, rfl⟩
-- inverter: side 2's command is newer; it is read negated on side 1 and as issued on side 2
example : invertWinner (exW.getCommand 0) (exW.getCommand 1) = some ⟨9, .position (-4)⟩ := by rfl
example : (Invert.update exW 0 1).getCommand 0 = some ⟨9, .position (-4)⟩ :=
  (invert_relays_newest exW 0 1 (by decide)).1
example : (Invert.update exW 0 1).getCommand 1 = some ⟨9, .position 4⟩ :=
  invert_side2_roundtrip (F := Int) (fun x => by omega) exW 0 1 (by decide) ⟨9, .position 4⟩ rfl
    (fun a h => by
      have h' : exW.getCommand 0 = some ⟨5, .velocity 3⟩ := rfl
      rw [h'] at h; cases h; decide)
-- the outside terminals see it too
example : (Invert.update exW 0 1).getCommand 2 = some ⟨9, .position (-4)⟩ := by rfl
-- gear train with ratio 2: hypotheses of `gear_relays_newest` hold, side 2 wins, side 1 reads 4 / 2
example : (exW.t 0).other ≠ some 0 ∧ (exW.t 0).other ≠ some 1 ∧ (exW.t 1).other ≠ some 0 ∧ (exW.t 1).other ≠ some 1 := by
  decide
example : gearReads 2 (exW.getCommand 0) (exW.getCommand 1) = (some ⟨9, .position 2⟩, some ⟨9, .position 4⟩) := by rfl
example : (GearTrain.update 2 exW 0 1).getCommand 0 = some ⟨9, .position 2⟩ :=
  (gear_relays_newest 2 exW 0 1 (by decide) (by decide) (by decide)).1
example : gearSide1Wins (exW.getCommand 0) (exW.getCommand 1) = false := by rfl
-- and the other way round (terminal roles swapped: side 1 = terminal 1 wins, side 2 reads 4 * 2)
example : (GearTrain.update 2 exW 1 0).getCommand 0 = some ⟨9, .position 8⟩ :=
  (gear_relays_newest 2 exW 1 0 (by decide) (by decide) (by decide)).2
/-- why `hext1`/`hext2` are there: a gear train whose own two terminals are connected to EACH OTHER (a degenerate wiring).
Terminal 1 holds ⟨5, position 4⟩; both terminals read it (a tie), side 1 "wins", slot 1 is overwritten with 4·2 and
terminal 0 — which has no slot of its own — now reads 8 instead of the 4 it read before. -/
def exLoop : World Int := ⟨2, fun
  | 0 => ⟨none, none, some 1⟩
  | 1 => ⟨none, some ⟨5, .position 4⟩, some 0⟩
  | _ => World.freshTerm⟩
example : (GearTrain.update 2 exLoop 0 1).getCommand 0 = some ⟨5, .position 8⟩ ∧
    (gearReads 2 (exLoop.getCommand 0) (exLoop.getCommand 1)).1 = some ⟨5, .position 4⟩ := ⟨rfl, rfl⟩
-- axle over three terminals, one of which sees nothing
example : newestOf ([0, 4, 1].map exW.getCommand) = some ⟨9, .position 4⟩ := by rfl
example : (Axle.update exW [0, 4, 1]).getCommand 4 = some ⟨9, .position 4⟩ :=
  axle_relays_newest exW [0, 4, 1] 4 (by decide)
-- ties: the first of the newest wins
example : newestOf [some (⟨5, 1⟩ : Datum Int), none, some ⟨9, 2⟩, some ⟨9, 3⟩] = some ⟨9, 2⟩ := by decide
example : ∀ x y, some x ∈ [some (⟨5, 1⟩ : Datum Int), none, some ⟨9, 2⟩] → some y ∈ [some (⟨5, 1⟩ : Datum Int), none, some ⟨9, 2⟩] →
    x.time = y.time → x = y := by
  intro x y hx hy
  simp only [List.mem_cons, Option.some.injEq, List.mem_nil_iff, or_false, reduceCtorEq, false_or] at hx hy
  rcases hx with rfl | rfl <;> rcases hy with rfl | rfl <;> decide
-- getter lemmas' hypotheses
example : (exW.t 2).command = some ⟨5, .velocity 3⟩ ∧ exW.partnerCommand 2 = none := ⟨rfl, rfl⟩
-- differential: commands stay
example : (Differential.update .equal exW 0 1 4).getCommand 0 = some ⟨5, .velocity 3⟩ := by rfl

/-- a chain: inverter (0→1), gear train ×3 (2→3), axle over {4,5,6} (4→5); links 1–2 and 3–4; a velocity command
issued at time 5 on terminal 0 -/
def exC : World Int := ⟨7, fun
  | 0 => ⟨none, some ⟨5, .velocity 7⟩, none⟩
  | 1 => ⟨none, none, some 2⟩
  | 2 => ⟨none, none, some 1⟩
  | 3 => ⟨none, none, some 4⟩
  | 4 => ⟨none, none, some 3⟩
  | _ => World.freshTerm⟩
def exDevs : List (Dev1 Int) := [.gear 3 2 3, .axle [4, 5, 6] 4 5]

example : (runChain exC (.inv 0 1 :: exDevs)).getCommand 5 = some ⟨5, .velocity (-21)⟩ :=
  chain_relays_fresh (.inv 0 1) exDevs exC ⟨5, .velocity 7⟩
    (by simp [ChainOK, exDevs, Dev1.WF, Dev1.terms, Dev1.fst, Dev1.snd, chainTerms, exC, World.freshTerm]) rfl
    (fun j hj => by
      simp only [Dev1.fst] at hj
      match j, hj with
      | 1, _ | 2, _ | 3, _ | 4, _ => rfl
      | (n + 5), _ => rfl)
    (fun j hj _ => by
      simp only [chainTerms, exDevs, Dev1.terms, List.cons_append, List.nil_append, List.mem_cons, List.mem_nil_iff,
        or_false] at hj
      rcases hj with rfl | rfl | rfl | rfl | rfl | rfl | rfl <;> decide)
end Examples

end Rrtk.Thm.C13
