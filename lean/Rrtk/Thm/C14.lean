/-
C14 — State kinematics and State/Command/Quantity conversions are exact and consistent.
Tier R for the kinematics (closed form over an ordered field), tier S for everything structural.
-/
import Rrtk.Thm.Lemmas.Exact
set_option linter.unusedSectionVars false
set_option linter.unusedSimpArgs false
namespace Rrtk.Thm.C14
open Rrtk

/-! ### tier R: `State::update` -/
section R
variable {F : Type} [Field F] [LinearOrder F] [IsStrictOrderedRing F] [FloatLike F] [ExactScalar F]

/-- seconds in `dt` nanoseconds -/
def sec (dt : Int) : F := (dt : F) / 1000000000

/-- `v' = v + a·dt`, `p' = p + v·dt + a·dt²/2`, `a' = a` — for every sign of `dt`. -/
theorem state_update_closed_form (s : State F) (dt : Int) :
    (State.update s dt).velocity = s.velocity + s.acceleration * sec dt ∧
    (State.update s dt).position = s.position + s.velocity * sec dt + s.acceleration * (sec dt) ^ 2 / 2 ∧
    (State.update s dt).acceleration = s.acceleration := by
  refine ⟨?_, ?_, rfl⟩ <;> simp only [State.update, sec, ExactScalar.ofInt_eq] <;> ring

/-- zero elapsed time is the identity -/
theorem state_update_zero_dt (s : State F) : State.update s 0 = s := by
  obtain ⟨h1, h2, h3⟩ := state_update_closed_form s 0
  cases s with
  | mk p v a =>
    simp only [sec, Int.cast_zero, zero_div, mul_zero, add_zero] at h1 h2
    have hp : (State.update ⟨p, v, a⟩ 0).position = p := by simpa using h2
    cases hu : State.update (⟨p, v, a⟩ : State F) 0 with
    | mk p' v' a' =>
      rw [hu] at h1 hp h3
      simp only at h1 hp h3
      rw [h1, hp, h3]

/-- advancing by `dt` and then by `-dt` under constant acceleration returns to the start -/
theorem state_update_reversible (s : State F) (dt : Int) :
    State.update (State.update s dt) (-dt) = s := by
  cases s with
  | mk p v a =>
    simp only [State.update, ExactScalar.ofInt_eq, c1e9_eq, c2_eq, Int.cast_neg]
    congr 1 <;> ring

/-- the Quantity-level code path (through the unit-checked operators) never panics and computes the same numbers -/
theorem state_updateQ_eq (chk : Bool) (s : State F) (dt : Int) :
    State.updateQ chk s dt = .ok (State.update s dt) := by
  cases chk <;> rfl
end R

/-! ### tier S -/
section S
variable {F : Type} [Add F] [Sub F] [Mul F] [Div F] [Neg F] [LT F] [LE F] [BEq F]
  [DecidableLT F] [DecidableLE F] [FloatLike F]

theorem constEq_iff (a b : DUnit) : DUnit.constEq a b = true ↔ a = b := by
  cases a; cases b; simp [DUnit.constEq]

/-- setting a constant position zeroes velocity and acceleration; a wrongly dimensioned argument is rejected
and the state is untouched -/
theorem set_const_position (s : State F) (q : Quantity F) :
    State.setConstantPosition true s q =
      if q.unit = ⟨1, 0⟩ then (⟨q.value, c0, c0⟩, true) else (s, false) := by
  simp only [State.setConstantPosition, DUnit.eqAssumeTrue, MILLIMETER, DUnit.new, if_true]
  by_cases h : q.unit = ⟨1, 0⟩
  · simp [h, (constEq_iff _ _).2 rfl]
  · have : DUnit.constEq q.unit ⟨1, 0⟩ = false := by
      cases hc : DUnit.constEq q.unit ⟨1, 0⟩ with
      | false => rfl
      | true => exact absurd ((constEq_iff _ _).1 hc) h
    simp [h, this]

theorem set_const_velocity (s : State F) (q : Quantity F) :
    State.setConstantVelocity true s q =
      if q.unit = ⟨1, -1⟩ then (⟨s.position, q.value, c0⟩, true) else (s, false) := by
  simp only [State.setConstantVelocity, DUnit.eqAssumeTrue, MILLIMETER_PER_SECOND, DUnit.new, if_true]
  by_cases h : q.unit = ⟨1, -1⟩
  · simp [h, (constEq_iff _ _).2 rfl]
  · have : DUnit.constEq q.unit ⟨1, -1⟩ = false := by
      cases hc : DUnit.constEq q.unit ⟨1, -1⟩ with
      | false => rfl
      | true => exact absurd ((constEq_iff _ _).1 hc) h
    simp [h, this]

theorem set_const_acceleration (s : State F) (q : Quantity F) :
    State.setConstantAcceleration true s q =
      if q.unit = ⟨1, -2⟩ then (⟨s.position, s.velocity, q.value⟩, true) else (s, false) := by
  simp only [State.setConstantAcceleration, DUnit.eqAssumeTrue, MILLIMETER_PER_SECOND_SQUARED, DUnit.new, if_true]
  by_cases h : q.unit = ⟨1, -2⟩
  · simp [h, (constEq_iff _ _).2 rfl]
  · have : DUnit.constEq q.unit ⟨1, -2⟩ = false := by
      cases hc : DUnit.constEq q.unit ⟨1, -2⟩ with
      | false => rfl
      | true => exact absurd ((constEq_iff _ _).1 hc) h
    simp [h, this]

/-- raw setters -/
theorem set_raw (s : State F) (x : F) :
    State.setConstantPositionRaw s x = ⟨x, c0, c0⟩ ∧
    State.setConstantVelocityRaw s x = ⟨s.position, x, c0⟩ ∧
    State.setConstantAccelerationRaw s x = ⟨s.position, s.velocity, x⟩ := ⟨rfl, rfl, rfl⟩

/-- `State::new` accepts exactly (mm, mm/s, mm/s²) and stores the three values -/
theorem state_new_ok (p v a : Quantity F) (hp : p.unit = ⟨1, 0⟩) (hv : v.unit = ⟨1, -1⟩) (ha : a.unit = ⟨1, -2⟩) :
    State.new true p v a = .ok ⟨p.value, v.value, a.value⟩ := by
  simp [State.new, DUnit.assertEqAssumeOk, DUnit.eqAssumeTrue, MILLIMETER, MILLIMETER_PER_SECOND,
    MILLIMETER_PER_SECOND_SQUARED, DUnit.new, hp, hv, ha, DUnit.constEq]
theorem state_new_rejects (p v a : Quantity F) (h : p.unit ≠ ⟨1, 0⟩ ∨ v.unit ≠ ⟨1, -1⟩ ∨ a.unit ≠ ⟨1, -2⟩) :
    State.new true p v a = .error .dim := by
  have e : ∀ (u w : DUnit), u ≠ w → DUnit.constEq u w = false := by
    intro u w hne
    cases hc : DUnit.constEq u w with
    | false => rfl
    | true => exact absurd ((constEq_iff _ _).1 hc) hne
  simp only [State.new, DUnit.assertEqAssumeOk, DUnit.eqAssumeTrue, MILLIMETER, MILLIMETER_PER_SECOND,
    MILLIMETER_PER_SECOND_SQUARED, DUnit.new, if_true]
  by_cases hp : p.unit = ⟨1, 0⟩
  · have tp := (constEq_iff _ _).2 hp
    by_cases hv : v.unit = ⟨1, -1⟩
    · have tv := (constEq_iff _ _).2 hv
      have ha : a.unit ≠ ⟨1, -2⟩ := by
        rcases h with h | h | h
        · exact absurd hp h
        · exact absurd hv h
        · exact h
      have fa := e _ _ ha
      simp [tp, tv, fa]
    · have fv := e _ _ hv
      simp [tp, fv]
  · simp [e _ _ hp]

/-- a command built from a state is its lowest non-zero derivative (with the code's `== 0.0` tests) -/
theorem command_from_state_lowest (s : State F) :
    Command.ofState s =
      if s.acceleration == c0 then (if s.velocity == c0 then .position s.position else .velocity s.velocity)
      else .acceleration s.acceleration := rfl
theorem command_from_state_kind_value (s : State F) :
    (Command.ofState s).raw = (State.getValue false s (Command.ofState s).kind).value := by
  simp only [Command.ofState]
  split
  · split <;> rfl
  · rfl

/-- kind / raw value / quantity / per-derivative accessors are mutually consistent -/
theorem command_new_kind_raw (pd : PosDer) (v : F) : (Command.new pd v).kind = pd ∧ (Command.new pd v).raw = v := by
  cases pd <;> exact ⟨rfl, rfl⟩
theorem command_roundtrip_new (c : Command F) : Command.new c.kind c.raw = c := by cases c <;> rfl
theorem command_quantity_consistent (chk : Bool) (c : Command F) :
    (Command.toQuantity chk c).value = c.raw ∧ (Command.toQuantity chk c).unit = DUnit.ofPosDer chk c.kind := by
  cases c <;> cases chk <;> exact ⟨rfl, rfl⟩
theorem command_roundtrip_quantity (c : Command F) :
    Command.tryOfQuantity (Command.toQuantity true c) = some c := by cases c <;> rfl
theorem command_accessors (chk : Bool) (c : Command F) :
    (Command.getPosition chk c = match c with | .position v => some ⟨v, MILLIMETER chk⟩ | _ => none) ∧
    (Command.getVelocity chk c = match c with
        | .position _ => some ⟨c0, MILLIMETER_PER_SECOND chk⟩
        | .velocity v => some ⟨v, MILLIMETER_PER_SECOND chk⟩
        | .acceleration _ => none) ∧
    (Command.getAcceleration chk c = match c with
        | .acceleration v => ⟨v, MILLIMETER_PER_SECOND_SQUARED chk⟩
        | _ => ⟨c0, MILLIMETER_PER_SECOND_SQUARED chk⟩) := by
  cases c <;> exact ⟨rfl, rfl, rfl⟩
/-- the accessor for the command's own kind returns exactly its value -/
theorem command_own_accessor (chk : Bool) (c : Command F) :
    match c.kind with
    | .position => Command.getPosition chk c = some ⟨c.raw, MILLIMETER chk⟩
    | .velocity => Command.getVelocity chk c = some ⟨c.raw, MILLIMETER_PER_SECOND chk⟩
    | .acceleration => Command.getAcceleration chk c = ⟨c.raw, MILLIMETER_PER_SECOND_SQUARED chk⟩ := by
  cases c <;> rfl

/-- state arithmetic is component-wise -/
theorem state_arith_componentwise (a b : State F) (x : F) :
    State.add a b = ⟨a.position + b.position, a.velocity + b.velocity, a.acceleration + b.acceleration⟩ ∧
    State.sub a b = ⟨a.position - b.position, a.velocity - b.velocity, a.acceleration - b.acceleration⟩ ∧
    State.mulF a x = ⟨a.position * x, a.velocity * x, a.acceleration * x⟩ ∧
    State.divF a x = ⟨a.position / x, a.velocity / x, a.acceleration / x⟩ ∧
    State.neg a = ⟨-a.position, -a.velocity, -a.acceleration⟩ := ⟨rfl, rfl, rfl, rfl, rfl⟩

/-- command arithmetic keeps the kind and acts on the value -/
theorem command_scale_keeps_kind (c : Command F) (x : F) :
    (Command.mulF c x).kind = c.kind ∧ (Command.mulF c x).raw = c.raw * x ∧
    (Command.divF c x).kind = c.kind ∧ (Command.divF c x).raw = c.raw / x ∧
    (Command.neg c).kind = c.kind ∧ (Command.neg c).raw = -c.raw := by
  cases c <;> exact ⟨rfl, rfl, rfl, rfl, rfl, rfl⟩
theorem command_add_eq (a b : Command F) :
    Command.add a b = if a.kind = b.kind then .ok (Command.new a.kind (a.raw + b.raw)) else .error .kind := rfl
theorem command_sub_eq (a b : Command F) :
    Command.sub a b = if a.kind = b.kind then .ok (Command.new a.kind (a.raw - b.raw)) else .error .kind := rfl
/-- adding or subtracting commands panics exactly when the kinds differ -/
theorem command_add_panics_iff (a b : Command F) :
    (∃ p, Command.add a b = .error p) ↔ a.kind ≠ b.kind := by
  rw [command_add_eq]; by_cases h : a.kind = b.kind <;> simp [h]
theorem command_sub_panics_iff (a b : Command F) :
    (∃ p, Command.sub a b = .error p) ↔ a.kind ≠ b.kind := by
  rw [command_sub_eq]; by_cases h : a.kind = b.kind <;> simp [h]
end S

/-- non-vacuity: the test-suite's own update example over the rationals: (1,2,3) advanced 2 s -/
example : State.update (⟨1, 2, 3⟩ : State ℚ) 2000000000 = ⟨11, 8, 3⟩ := by
  simp only [State.update, c1e9, c2, FloatLike.ofInt]; norm_num

end Rrtk.Thm.C14
